(* C19 - Grid summarising conserves observations and aggregates per cell. *)
From Coq Require Import List Arith ZArith QArith Qround Bool Lia Lqa Permutation Sorted.
Import ListNotations.
From TL Require Import Model.Raster Model.Aggregates Proofs.Raster_cell Proofs.Scatter Proofs.Aggregates_spec Proofs.Aggregates_more.
Open Scope Q_scope.

(* every located observation gets a cell inside the grid whose footprint (half-open, closed on the outer max borders) contains it *)
Theorem C19_cell_footprint r x y c l : 0 < rx r -> 0 < ry r -> xmin r < xmax r -> ymin r < ymax r ->
  get_cell r x y = Some (c, l) ->
  (0 <= c < ncol r)%Z /\ (0 <= l < nrow r)%Z /\ in_col r c x /\ in_row r l y.
Proof. exact (cell_footprint r x y c l). Qed.

(* ... and that cell is the only one *)
Theorem C19_column_unique r x c c' :
  (0 <= c < ncol r)%Z -> (0 <= c' < ncol r)%Z -> in_col r c x -> in_col r c' x -> c = c'.
Proof. exact (footprint_unique r x c c'). Qed.
Theorem C19_row_unique r y l l' :
  (0 <= l < nrow r)%Z -> (0 <= l' < nrow r)%Z -> in_row r l y -> in_row r l' y -> l = l'.
Proof. exact (row_unique r y l l'). Qed.

(* a cell holds exactly the values of the observations located in it, in order *)
Theorem C19_scatter (V : Type) (obs : list (cell * V)) c : scatter V obs c = located V c obs.
Proof. exact (scatter_spec V obs c). Qed.

(* the counts over all cells add up to the number of observations *)
Theorem C19_conservation (V : Type) (cells : list cell) : NoDup cells -> forall obs : list (cell * V),
  (forall p, In p obs -> In (fst p) cells) ->
  Scatter.sum (map (fun c => length (scatter V obs c)) cells) = length obs.
Proof. exact (conservation V cells). Qed.

(* aggregates over exactly the non-NaN values *)
Theorem C19_count l : co_count l = length (valid l).
Proof. exact (co_count_spec l). Qed.
Theorem C19_sum l : co_sum l == fold_right Qplus 0 (valid l).
Proof. exact (co_sum_spec l). Qed.
Theorem C19_min l :
  match co_min l with None => valid l = [] | Some m => In m (valid l) /\ forall x, In x (valid l) -> m <= x end.
Proof. exact (co_min_spec l). Qed.
Theorem C19_max l :
  match co_max l with None => valid l = [] | Some m => In m (valid l) /\ forall x, In x (valid l) -> x <= m end.
Proof. exact (co_max_spec l). Qed.
Theorem C19_avg l :
  match co_avg l with
  | None => valid l = []
  | Some m => valid l <> [] /\ m == fold_right Qplus 0 (valid l) / inject_Z (Z.of_nat (length (valid l))) end.
Proof. exact (co_avg_spec l). Qed.
Theorem C19_median l :
  exists s, Permutation (valid l) s /\ StronglySorted Qle s /\ co_median l = median_of s /\
            (co_median l = None <-> valid l = []).
Proof. exact (co_median_spec l). Qed.

(* cells without observations hold the empty aggregate *)
Theorem C19_empty_cell :
  aggregate OpCount [] == 0 /\ aggregate OpSum [] == 0 /\ aggregate OpMin [] = NO_DATA /\ aggregate OpMax [] = NO_DATA /\
  aggregate OpAvg [] = NO_DATA /\ aggregate OpMedian [] = NO_DATA.
Proof. repeat split; reflexivity. Qed.

Print Assumptions C19_cell_footprint.
Print Assumptions C19_column_unique.
Print Assumptions C19_row_unique.
Print Assumptions C19_scatter.
Print Assumptions C19_conservation.
Print Assumptions C19_count.
Print Assumptions C19_sum.
Print Assumptions C19_min.
Print Assumptions C19_max.
Print Assumptions C19_avg.
Print Assumptions C19_median.
Print Assumptions C19_empty_cell.

Example C19_nonvacuous : get_cell r1 10 7 = Some (3, 0)%Z /\ get_cell r1 0 0 = Some (0, 3)%Z /\ co_min [None; Some 3; Some 1] = Some 1
  /\ co_median [Some 3; None; Some 1; Some 2] = Some 2.
Proof. vm_compute. repeat split; reflexivity. Qed.
