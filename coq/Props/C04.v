(* C04 - Sequence operations on a track select exactly the designated observations. *)
From Coq Require Import List Arith ZArith Bool Lia Sorted Permutation.
Import ListNotations.
From TL Require Import Model.SeqOps Model.SeqInsert Proofs.SeqOps_spec Proofs.SeqOps_more Proofs.SeqInsert_range Proofs.SeqInsert_spec Proofs.SeqInsert_total.
Close Scope Z_scope.

(* the insertion index is always defined (the dichotomy terminates within its fuel) ... *)
Theorem C04_insertion_total l t : exists k, insertion_index l t = Some k.
Proof. exact (insertion_index_total l t). Qed.

(* ... and on a time-sorted track it separates the timestamps <= t from those >= t *)
Theorem C04_insertion_index l t k : sorted l -> insertion_index l t = Some k ->
  (0 <= k <= Z.of_nat (length l))%Z /\ (forall i, (0 <= i < k)%Z -> (tget l i <= t)%Z) /\
  (forall i, (k <= i < Z.of_nat (length l))%Z -> (t <= tget l i)%Z).
Proof. exact (insertion_index_spec l t k). Qed.

(* inserting without an index into a time-sorted track leaves it sorted, with the same observations plus the new one *)
Theorem C04_insert_sorted (l : list Z) t : sorted l ->
  exists k, insertion_index l t = Some k /\ (0 <= k <= Z.of_nat (length l))%Z /\ sorted (insert_at Z l (Z.to_nat k) t).
Proof. exact (insert_sorted l t). Qed.
Theorem C04_insert_perm (A : Type) l k (o : A) : Permutation (o :: l) (insert_at A l k o).
Proof. exact (insert_at_perm A l k o). Qed.

(* head / tail trimming *)
Theorem C04_gt (A : Type) (l : list A) (n : Z) : (0 <= n)%Z -> op_gt A l n = skipn (Z.to_nat n) l.
Proof. exact (op_gt_spec A l n). Qed.
Theorem C04_lt (A : Type) (l : list A) (n : Z) : (0 <= n)%Z -> op_lt A l n = firstn (length l - Z.to_nat n) l.
Proof. exact (op_lt_spec A l n). Qed.
(* record of the finding: the end bound of the slice before its repair *)
Theorem C04_lt_old_refuted : exists (l : list nat) (n : Z), (Z.of_nat (length l) < n)%Z /\ op_lt_old nat l n <> [].
Proof. exact op_lt_refuted. Qed.

(* decimation: element j of (track % s) is element j*s of the track *)
Theorem C04_mod (A : Type) (d : A) (l : list A) (s j : nat) : (1 <= s)%nat -> nth j (op_mod A l s) d = nth (j * s)%nat l d.
Proof. exact (op_mod_nth A d l s j). Qed.

(* removal by a duplicate-free index list: exactly the other observations, order kept *)
Theorem C04_remove (A : Type) (l : list A) ids : StronglySorted lt ids -> remove_ids A l ids = drop_ids A 0 l ids.
Proof. exact (remove_ids_spec0 A l ids). Qed.

(* time-span extraction: exactly the observations inside the span (bounds in either order), original order *)
Theorem C04_span (A : Type) (time : A -> Z) l a b o :
  In o (span A time l a b) <-> In o l /\ (Z.min a b <= time o <= Z.max a b)%Z.
Proof. exact (span_spec A time l a b o). Qed.
Theorem C04_span_sym (A : Type) (time : A -> Z) l a b : span A time l a b = span A time l b a.
Proof. exact (span_sym A time l a b). Qed.

(* concatenation *)
Theorem C04_add (A : Type) (l1 l2 : list A) : op_add A l1 l2 = l1 ++ l2 /\ length (op_add A l1 l2) = (length l1 + length l2)%nat.
Proof. exact (op_add_spec A l1 l2). Qed.

Print Assumptions C04_insertion_total.
Print Assumptions C04_insertion_index.
Print Assumptions C04_insert_sorted.
Print Assumptions C04_insert_perm.
Print Assumptions C04_gt.
Print Assumptions C04_lt.
Print Assumptions C04_lt_old_refuted.
Print Assumptions C04_mod.
Print Assumptions C04_remove.
Print Assumptions C04_span.
Print Assumptions C04_span_sym.
Print Assumptions C04_add.

Example C04_nonvacuous :
  insertion_index [10; 20; 20; 30; 40]%Z 20 = Some 3%Z /\ remove_ids nat [10; 11; 12; 13] [1; 3] = [10; 12] /\
  op_lt nat [1; 2; 3] 5 = [] /\ op_mod nat [0; 1; 2; 3; 4] 2 = [0; 2; 4].
Proof. vm_compute. repeat split; reflexivity. Qed.
