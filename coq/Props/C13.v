(* C13 - Tracks and networks written to file are read back unchanged (partial: the text protocol).
   Only property theorems (closed by [exact]), Print Assumptions and non-vacuity examples.
   Proved: the CSV line protocol of the model's writer and reader, for every column order, separator, width/precision and value.
   Not proved (named in DESIGN.md): that CPython's float() returns the binary64 nearest to the decimal text and that str(float)
   round-trips (Python's contract), the GPX/XML layer and the network CSV layer (oracle streams only); the WKT layer is proved at the
   level of tokens (C13_wkt_tokens). *)
From Coq Require Import List Ascii String ZArith QArith Qabs Bool Lia.
From TL Require Import Model.TextFmt Proofs.Columns Proofs.TimeText Model.CsvText Model.WktText Proofs.FixedText Proofs.CsvLine Proofs.CsvFile Proofs.WktText Model.NetText Proofs.NetText Model.GpxText Proofs.GpxText.
Import ListNotations.
Close Scope Z_scope.
Close Scope Q_scope.
Open Scope string_scope.

(* a number printed with "{:W.Pf}" and parsed back is within half a unit of the last printed digit, for every rational value, width and precision *)
Theorem C13_number_roundtrip w p x : exists v, parse_fixed (fmt_fixed w p x) = Some v /\ (Qabs (v - x) <= 1 # (2 * pow10 p))%Q.
Proof. exact (fixed_roundtrip w p x). Qed.
Print Assumptions C13_number_roundtrip.

(* a timestamp printed with the default format and read with the same format is the same timestamp *)
Theorem C13_time_roundtrip t :
  day t < 100 -> month t < 100 -> year t < 100 * 100 -> hour t < 100 -> minute t < 100 -> sec t < 100 ->
  TimeText.read (TimeText.print t) = t.
Proof. exact (time_roundtrip t). Qed.
Print Assumptions C13_time_roundtrip.

(* whatever permutation of 0..k-1 the column ids are, the reader finds each datum in the field the writer put it in *)
Theorem C13_columns idE idN idU idT :
  let ids := ([idE; idN] ++ (match idU with Some x => [x] | None => [] end) ++ (match idT with Some x => [x] | None => [] end))%list in
  distinct ids = true -> forallb (fun x => Nat.ltb x (List.length ids)) ids = true ->
  Columns.ok idE idN idU idT = true.
Proof. exact (columns_roundtrip idE idN idU idT). Qed.
Print Assumptions C13_columns.

(* the whole observation line: written with any column order, any separator that cannot occur in a field, any width and precision,
   and read back with the same parameters: coordinates within half a unit of the last printed digit, timestamp identical *)
Theorem C13_csv_line w p idE idN idU idT c x y z t :
  distinct (ids_of idE idN idU idT) = true ->
  forallb (fun i => Nat.ltb i (List.length (ids_of idE idN idU idT))) (ids_of idE idN idU idT) = true ->
  sep_ok c = true -> stamp_ok t ->
  let fs := read_fields c (line w p idE idN idU idT (String c "") x y z t) in
  close_to p (nth idE fs "") x /\ close_to p (nth idN fs "") y /\
  (forall u, idU = Some u -> close_to p (nth u fs "") z) /\
  (forall k, idT = Some k -> read_time (nth k fs "") = t).
Proof. exact (csv_line_roundtrip w p idE idN idU idT c x y z t). Qed.
Print Assumptions C13_csv_line.

(* the whole CSV file: header / comment lines, then one line per observation, every line ended by a newline; read back with the same
   header count (the reader skips h lines, then strips each line, skips comment lines and stops at the first empty one): exactly
   the observation lines - as many as observations, in the same order; C13_csv_line then reads each of them *)
Theorem C13_csv_file w p idE idN idU idT c h hdr (obs : list (Q * Q * Q * stamp)) :
  distinct (ids_of idE idN idU idT) = true ->
  forallb (fun i => Nat.ltb i (List.length (ids_of idE idN idU idT))) (ids_of idE idN idU idT) = true ->
  sep_ok c = true -> c <> nl -> Forall (fun o => stamp_ok (snd o)) obs ->
  h <= List.length hdr -> Forall hdr_ok hdr ->
  read_file h (write_file hdr (map (obs_line w p idE idN idU idT c) obs)) = map (obs_line w p idE idN idU idT c) obs.
Proof. exact (csv_file_roundtrip w p idE idN idU idT c h hdr obs). Qed.
Print Assumptions C13_csv_file.

(* Track.toWKT then TrackReader.parseWkt: the same coordinate tokens (upper-cased, as parseWkt does: 1e-05 becomes 1E-05, the same
   number), in the same order, for every non-empty list of points whose tokens contain no parenthesis, comma or space *)
Theorem C13_wkt_tokens pts : pts <> [] -> Forall (fun p => tok_ok (fst p) /\ tok_ok (snd p)) pts ->
  parse_wkt (to_wkt pts) = Some (map (fun p => (upper (fst p), upper (snd p))) pts).
Proof. exact (wkt_roundtrip pts). Qed.
Print Assumptions C13_wkt_tokens.

(* non-vacuity: a real line, with permuted columns, meets the hypotheses *)
(* network CSV: one edge line read by the model of csv.reader (quoted geometry field) and wktLineStringToObs gives back the edge ... *)
Theorem C13_network_line sep e : sep <> dq -> edge_ok sep e -> read_edge sep (net_line sep e) = Some e.
Proof. exact (net_line_roundtrip sep e). Qed.
Print Assumptions C13_network_line.
(* ... and a whole file, with or without header line, gives back its edges: as many, in the same order, each with its identifier, end nodes,
   orientation and geometry tokens (hence the same set of nodes) *)
Theorem C13_network_file h sep es : sep <> dq -> differs nl sep = true -> Forall (edge_ok sep) es ->
  read_net h sep (write_net h sep es) = map Some es.
Proof. exact (net_file_roundtrip h sep es). Qed.
Print Assumptions C13_network_file.
Example C13_network_example : edge_ok "," {| e_id := "e0"; e_src := "n1"; e_tgt := "n2"; e_dir := "-1"; e_pts := [("1.5", "-2e-05"); ("3.0", "4.25")] |}.
Proof. exact edge_ok_ex. Qed.

(* GPX: a collection written by the model's writer (any header lines without track markers) and read by the model of the line-based
   reader gives back, track by track and in order, the same points (latitude, longitude, height and time tokens) ... *)
Theorem C13_gpx_file hdr ts : Forall ghdr_ok hdr -> Forall trk_ok ts -> read_gpx (write_gpx hdr ts) = Some (map tpts ts).
Proof. exact (gpx_file_roundtrip hdr ts). Qed.
Print Assumptions C13_gpx_file.
(* ... the GPX time format round-trips exactly ... *)
Theorem C13_gpx_time t : stamp_lt t -> read_gpx_time (print_gpx_time t) = t.
Proof. intros [H1 [H2 [H3 [H4 [H5 H6]]]]]. exact (gpx_time_roundtrip t H1 H2 H3 H4 H5 H6). Qed.
Print Assumptions C13_gpx_time.
(* ... hence, for tracks given by their values: as many tracks and points, in order, every coordinate and height read back within half a unit
   of the eighth decimal (5e-9 degree), the time identical to the second *)
Theorem C13_gpx_values hdr (ts : list (string * list (Q * Q * Q * stamp))) :
  Forall ghdr_ok hdr -> Forall (fun t => gtok (fst t) /\ Forall (fun o => stamp_lt (snd o)) (snd t)) ts ->
  exists back, read_gpx (write_gpx hdr (map (fun t => {| tname := fst t; tpts := map (fun '(la, lo, el, s) => gpx_point la lo el s) (snd t) |}) ts)) = Some back
    /\ Forall2 (fun t b => Forall2 (fun '(la, lo, el, s) (q : pt) =>
         (exists v, parse_fixed (lat q) = Some v /\ (Qabs (v - la) <= 1 # (2 * pow10 8))%Q) /\
         (exists v, parse_fixed (lon q) = Some v /\ (Qabs (v - lo) <= 1 # (2 * pow10 8))%Q) /\
         (exists v, parse_fixed (ele q) = Some v /\ (Qabs (v - el) <= 1 # (2 * pow10 8))%Q) /\
         read_gpx_time (list_ascii_of_string (tim q)) = s) (snd t) b) ts back.
Proof. exact (gpx_values_roundtrip hdr ts). Qed.
Print Assumptions C13_gpx_values.

Example C13_example :
  let t := mk 29 2 2020 23 59 59 in
  distinct (ids_of 1 0 (Some 3) (Some 2)) = true /\ sep_ok ";" = true /\ stamp_ok t /\
  read_fields ";" (line 10 3 1 0 (Some 3) (Some 2) ";" (15 # 10) (-30004 # 10000) (1 # 16) t) = ["-3.000"; "1.500"; "29/02/2020 23:59:59"; "0.062"].
Proof. exact csv_line_example. Qed.
Example C13_wkt_example : parse_wkt (to_wkt [("1.5", "-2e-05"); ("3.0", "4.25")]) = Some [("1.5", "-2E-05"); ("3.0", "4.25")].
Proof. reflexivity. Qed.
