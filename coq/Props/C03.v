(* C03 - Timestamps convert to and from epoch seconds without drifting or deforming.
   Only property theorems (closed by [exact]), Print Assumptions and non-vacuity examples. *)
From Coq Require Import List ZArith QArith Qround Bool Lia.
From TL Require Import Model.ObsTime Model.ObsTimeQ Proofs.ObsTime_rt Proofs.ObsTime_ord Proofs.ObsTime_civil Proofs.ObsTime_ops Proofs.ObsTime_frac.
Open Scope Z_scope.

(* seconds -> calendar -> seconds, for every non-negative integer instant (no upper bound on the year) *)
Theorem C03_seconds_roundtrip s : 0 <= s ->
  wf (read_unix s) = true /\ to_abs (read_unix s) = s /\ 1970 <= year (read_unix s).
Proof. exact (read_unix_wf_abs s). Qed.
Print Assumptions C03_seconds_roundtrip.

(* calendar -> seconds -> calendar: exactly the same timestamp when it has no sub-second part *)
Theorem C03_calendar_roundtrip d : wf d = true -> 1970 <= year d -> ms d = 0 -> read_unix (to_abs d) = d.
Proof. exact (read_abs d). Qed.
Print Assumptions C03_calendar_roundtrip.

(* fractional instants: well formed, same instant to within one millisecond *)
Theorem C03_fractional x : (0 <= x)%Q ->
  wf (read_unix_q x) = true /\ 1970 <= year (read_unix_q x) /\
  (inject_Z (to_abs_ms (read_unix_q x)) <= x * 1000 < inject_Z (to_abs_ms (read_unix_q x)) + 1)%Q.
Proof. exact (read_unix_q_ok x). Qed.
Print Assumptions C03_fractional.

(* the seconds value agrees with the proleptic Gregorian calendar (independent closed form) *)
Theorem C03_civil t : wf t = true -> 1970 <= year t ->
  to_abs t = 86400 * (civil_days (year t) (month t) (day t) - civil_days 1970 1 1)
             + 3600 * hour t + 60 * minute t + sec t.
Proof. exact (to_abs_civil t). Qed.
Print Assumptions C03_civil.

(* comparison operators order well-formed timestamps exactly as their milliseconds since 1970 *)
Theorem C03_lt a b : wf a = true -> wf b = true -> 1970 <= year a -> 1970 <= year b ->
  (lt a b = true <-> to_abs_ms a < to_abs_ms b).
Proof. exact (lt_iff a b). Qed.
Print Assumptions C03_lt.

Theorem C03_gt a b : wf a = true -> wf b = true -> 1970 <= year a -> 1970 <= year b ->
  (gt a b = true <-> to_abs_ms b < to_abs_ms a).
Proof. exact (gt_iff a b). Qed.
Print Assumptions C03_gt.

Theorem C03_ge a b : wf a = true -> wf b = true -> 1970 <= year a -> 1970 <= year b ->
  (negb (lt a b) = true <-> to_abs_ms b <= to_abs_ms a).
Proof. exact (ge_iff a b). Qed.
Print Assumptions C03_ge.

Theorem C03_eq a b : eqd a b = true <-> a = b.
Proof. exact (eqd_iff a b). Qed.
Print Assumptions C03_eq.

Theorem C03_instants_injective a b : wf a = true -> wf b = true -> 1970 <= year a -> 1970 <= year b ->
  to_abs_ms a = to_abs_ms b -> a = b.
Proof. exact (to_abs_ms_inj a b). Qed.
Print Assumptions C03_instants_injective.

(* adding seconds moves the instant by that amount *)
Theorem C03_add_sec d n : 0 <= to_abs d + n ->
  wf (add_sec d n) = true /\ to_abs (add_sec d n) = to_abs d + n /\ 1970 <= year (add_sec d n).
Proof. exact (add_sec_ok d n). Qed.
Print Assumptions C03_add_sec.

(* non-vacuity: last second of a leap year, first of the next *)
Example C03_nonvacuous :
  read_unix 1609459199 = {| year := 2020; month := 12; day := 31; hour := 23; minute := 59; sec := 59; ms := 0 |} /\
  read_unix 1609459200 = {| year := 2021; month := 1; day := 1; hour := 0; minute := 0; sec := 0; ms := 0 |} /\
  wf (read_unix 1609459199) = true /\ to_abs (read_unix 1609459200) = 1609459200.
Proof. vm_compute. repeat split; reflexivity. Qed.
