(* C05 - Linear resampling returns the piecewise-linear interpolant of the track.
   One coordinate column X at a time (the code applies the same two weights to x, y, z - and to t in spatial mode). *)
From Coq Require Import List Arith ZArith QArith Bool Lia Lqa Sorted.
Import ListNotations.
From TL Require Import Model.Resample Model.ResampleS Proofs.Resample_temporal Proofs.Resample_spatial Proofs.Resample_top.
Open Scope Q_scope.

(* temporal: exactly one observation per requested instant t with T0 < t <= Tlast (none for the others), stamped t,
   located at the interpolant of the bracketing pair *)
Theorem C05_temporal T X REF : T <> [] -> increasing T -> StronglySorted Qle REF ->
  resample_temporal T X REF =
  Some (map (fun t => (t, lerp T X (bracket T t) t)) (filter (in_range (nth 0 T 0) (last T 0)) REF)).
Proof. exact (resample_temporal_spec T X REF). Qed.

(* the bracket is the unique consecutive pair with T[b-1] < t <= T[b] ... *)
Theorem C05_bracket T t : T <> [] -> increasing T -> nth 0 T 0 < t -> t <= last T 0 ->
  let b := bracket T t in (1 <= b < length T)%nat /\ nth (b - 1) T 0 < t /\ t <= nth b T 0.
Proof. exact (bracket_brackets T t). Qed.

(* ... and lerp is the linear interpolation between that pair (a convex combination, so the point lies on the segment) *)
Theorem C05_lerp T X b t : nth (b - 1) T 0 < t -> t <= nth b T 0 ->
  exists w, 0 <= w <= 1 /\ w == (t - nth (b - 1) T 0) / (nth b T 0 - nth (b - 1) T 0) /\
    lerp T X b t == nth (b - 1) X 0 + w * (nth b X 0 - nth (b - 1) X 0).
Proof. exact (lerp_convex T X b t). Qed.

(* spatial: the first fix, then for k = 1..N the interpolant at abscissa k*ds (+ S0) *)
Theorem C05_spatial S X ds : S <> [] -> increasing S -> 0 < ds ->
  let sini := nth 0 S 0 in
  resample_spatial S X ds =
  Some ((sini, nth 0 X 0) ::
        map (fun k => (absc sini ds k, lerp S X (bracket S (absc sini ds k)) (absc sini ds k))) (seq 1 (npts S ds))).
Proof. exact (resample_spatial_spec S X ds). Qed.

(* each such point is bracketed strictly on the left (no division by zero, no index error) and sits exactly at abscissa k*ds *)
Theorem C05_spatial_on_polyline S ds k : S <> [] -> increasing S -> 0 < ds -> (1 <= k <= npts S ds)%nat ->
  let s := absc (nth 0 S 0) ds k in let b := bracket S s in
  (1 <= b < length S)%nat /\ nth (b - 1) S 0 < s /\ s <= nth b S 0 /\ lerp S S b s == s.
Proof. exact (spatial_point_on_polyline S ds k). Qed.

(* interpolated timestamps never decrease *)
Theorem C05_timestamps_monotone S Y s s' : S <> [] -> increasing S -> increasing Y -> length Y = length S ->
  nth 0 S 0 < s -> s <= s' -> s' <= last S 0 ->
  lerp S Y (bracket S s) s <= lerp S Y (bracket S s') s'.
Proof. exact (interp_mono S Y s s'). Qed.

Print Assumptions C05_temporal.
Print Assumptions C05_bracket.
Print Assumptions C05_lerp.
Print Assumptions C05_spatial.
Print Assumptions C05_spatial_on_polyline.
Print Assumptions C05_timestamps_monotone.

Example C05_nonvacuous :
  match resample_temporal [0; 10; 20] [0; 5; 25] [0; 5; 10; 12; 20; 21] with
  | Some l => map fst l = [5; 10; 12; 20] /\ Qeq_bool (snd (nth 2 l (0, 0))) 9 = true
  | None => False end.
Proof. vm_compute. split; reflexivity. Qed.
