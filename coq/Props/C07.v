(* C07 - A returned shortest path is a real, optimal, geometrically continuous route. *)
From Coq Require Import List Arith ZArith QArith Bool Lia Lqa.
Import ListNotations.
From TL Require Import Model.Graph Proofs.Graph_inv Proofs.Graph_final Proofs.Graph_fuel Proofs.Graph_ante Proofs.Graph_target Proofs.Graph_path Proofs.PathGeom Proofs.Graph_geom Proofs.Refuted.
Open Scope Q_scope.

(* Network.shortest_path(src, t), t <> src: no path iff no permitted walk; otherwise the node list is the node sequence of a
   permitted walk from src to t (each consecutive pair joined by the recorded edge, traversable in that direction), the recorded
   edges' weights sum to the value reported by shortest_distance, and no walk costs less *)
Theorem C07_path g src t cut : nonneg g -> never_cut cut g src -> t <> src ->
  let s := run (fuel_of g) g (Some t) cut (init src) in
  match path_nodes s t with
  | None => forall p, ~ walk g src t p
  | Some (nodes, ids) =>
      exists es d, walk g src t es /\ nodes = nodes_from src es /\ ids = map eid es /\
                   poids s t = Some d /\ cost es == d /\ forall p, walk g src t p -> d <= cost p
  end.
Proof. exact (shortest_path_correct g src t cut). Qed.
Print Assumptions C07_path.

(* geometry of the returned Track: the edges' polylines chained end to end, each oriented along the direction of travel,
   junction vertices not repeated, starting at the source's position and ending at the target's *)
Theorem C07_geometry (pt : Type) (d0 : pt) (g : graph) (pos : nat -> pt) (geom : edge -> list pt) :
  (forall e, In e g -> geom e <> [] /\ hd d0 (geom e) = pos (esrc e) /\ last (geom e) d0 = pos (etgt e)) ->
  (forall e e', In e g -> In e' g -> eid e = eid e' -> e = e') ->
  forall src s t es, es <> [] -> walk g src t es ->
  rev (walk_back (S (length (order s))) s t) = nodes_from src es ->
  rev (back_edges (S (length (order s))) s t) = map eid es ->
  ante s t <> None ->
  path_geometry pt g pos geom s t = Some (join pt (travel pt geom src es)) /\
  continuous pt d0 (travel pt geom src es) (pos t) /\ hd d0 (hd [] (travel pt geom src es)) = pos src.
Proof. intros Hg Hu src s t es. exact (path_geometry_correct pt d0 g pos geom Hg Hu src s t es). Qed.
Print Assumptions C07_geometry.

(* record of the finding: the loop condition of the code before its repair ("while node.poids != 0 and ...") truncates
   the path at the first node at distance 0: the source is missing when the first edge has weight zero *)
Theorem C07_old_loop_refuted :
  let s := run (fuel_of gz) gz (Some 3%nat) 1000 (init 0) in
  rev (walk_back_cur 10 s 3%nat) = [1; 2; 3]%nat.
Proof. exact path_zero_weight_refuted. Qed.
Print Assumptions C07_old_loop_refuted.

Example C07_nonvacuous :
  let s := run (fuel_of gz) gz (Some 3%nat) 1000 (init 0) in
  path_nodes s 3%nat = Some ([0; 1; 2; 3]%nat, [0; 1; 2]%nat).
Proof. vm_compute. reflexivity. Qed.
