(* C12 - Optimal partitioning returns a global optimum for the requested direction. *)
From Coq Require Import List Arith QArith Bool Lia Lqa.
Import ListNotations.
From TL Require Import Model.Partition Proofs.Partition_opt Proofs.Partition_dp Proofs.Partition_main Proofs.Partition_seg Proofs.Partition_stops Proofs.Refuted.
Open Scope Q_scope.

(* For every N >= 2, every cost table and both directions: the result is l ++ [N-1] with l a strictly increasing
   list of segment starts from 0, and its summed cost is <= (resp. >=) that of every such list. *)
Theorem C12_optimal_partition (m : bool) (N : nat) (cost : tab Q) : (2 <= N)%nat ->
  let r := optimal_partition m N cost in
  exists l, r = l ++ [(N - 1)%nat] /\ starts 0 (N - 1) l /\
    forall l', starts 0 (N - 1) l' -> dle m (chain_cost cost r) (chain_cost cost (l' ++ [(N - 1)%nat])).
Proof. exact (optimal_partition_correct m N cost). Qed.
Print Assumptions C12_optimal_partition.

(* The delegating functions: optimalSegmentation (and optimalSimplification, which keeps the fixes of its list) builds the matrix
   C[i,j] = cost(track, i, j-1), symmetrises it and calls optimalPartition; hence, for every track of n >= 3 fixes, every cost function and both
   directions, the list returned runs from 0 to n-2 and optimises the documented criterion - the sum of cost(a, b-1) over its consecutive pairs -
   among all such lists. *)
Theorem C12_segmentation_optimal (m : bool) (n : nat) (cost : nat -> nat -> Q) : (3 <= n)%nat ->
  let r := optimal_segmentation m n cost in
  exists l, r = l ++ [(n - 2)%nat] /\ starts 0 (n - 2) l /\
    forall l', starts 0 (n - 2) l' -> dle m (seg_cost cost r) (seg_cost cost (l' ++ [(n - 2)%nat])).
Proof. exact (optimal_segmentation_correct m n cost). Qed.
Print Assumptions C12_segmentation_optimal.

(* Stop detection: findStopsGlobal builds the reward matrix "(j - i)^2 when the circle enclosing the fixes i .. j-1 is smaller than the diameter and
   they span more than the duration, 0 otherwise" and maximises. With the size of the enclosing circle and the time span as parameters (the geometry
   routine is not modelled), the list returned maximises the sum of the rewards of its segments, and a rewarded segment is a stop as documented. *)
Theorem C12_stops_optimal (circle span : nat -> nat -> Q) (diameter duration : Q) (n : nat) : (3 <= n)%nat ->
  let r := find_stops_partition circle span diameter duration n in
  exists l, r = l ++ [(n - 2)%nat] /\ starts 0 (n - 2) l /\
    forall l', starts 0 (n - 2) l' ->
      seg_cost (reward circle span diameter duration) (l' ++ [(n - 2)%nat]) <= seg_cost (reward circle span diameter duration) r.
Proof. exact (find_stops_optimal circle span diameter duration n). Qed.
Print Assumptions C12_stops_optimal.
Theorem C12_rewarded_is_stop (circle span : nat -> nat -> Q) (diameter duration : Q) a b :
  0 < reward circle span diameter duration a b -> circle a b < diameter /\ duration < span a b.
Proof. exact (reward_pos_is_stop circle span diameter duration a b). Qed.

(* The rule of the code before its repair (both tests read the mode *constants*, so it always maximised) refutes the
   statement for minimisation: kept as the record of the finding. *)
Theorem C12_always_maximise_refuted : exists N cost,
  let got := optimal_partition false N cost in
  let best := optimal_partition true N cost in
  Qcompare (chain_cost cost best) (chain_cost cost got) = Lt.
Proof. exact partition_mode_refuted. Qed.
Print Assumptions C12_always_maximise_refuted.

Example C12_nonvacuous :
  optimal_partition true 5 c1 = [0;2;4]%nat /\ optimal_partition false 5 c1 = [0;4]%nat /\
  Qcompare (chain_cost c1 (optimal_partition true 5 c1)) 8 = Eq.
Proof. vm_compute. repeat split; reflexivity. Qed.
