(* C10 - Map-matched positions lie on a real edge within the search radius.
   Only property theorems (closed by [exact]), Print Assumptions and non-vacuity examples.
   The list E of candidate edge numbers returned by the spatial index is an arbitrary list: the theorems do not depend on the index.
   Guard poly_defined: on a vertical segment the code raises ZeroDivisionError when the observation lies on the supporting line
   (C10_guard_excludes characterises exactly those inputs; known finding "vertical-collinear", same root cause as C20's open finding). *)
From Coq Require Import List Arith Reals Lra Lia Bool.
Import ListNotations.
From TL Require Import Model.Num Model.Geom Model.MapMatch Proofs.GeomProj Proofs.Poly_bridge Proofs.OnSegment Proofs.MapMatch_sound.
Open Scope R_scope.

(* STATES[k] is never empty; every state is either the single unmatched state (position kept, edge -1) or names an edge of the
   candidate list, carries a point ON a segment of that edge's polyline, strictly within the search radius of the observation,
   with distances to the two end nodes that add up to the length of the edge *)
Theorem C10_states_sound eps radius edges o E l :
  (forall e, In e E -> abs_ok (edge_of edges e) /\ poly_defined eps (egeom (edge_of edges e)) (fst o) (snd o)) ->
  states RNum eps radius edges o E = Some l ->
  l <> [] /\ Forall (state_sound radius edges o E) l /\
  (forall s, In s l -> sedge s = None -> l = [unmatched RNum o]).
Proof. exact (states_sound eps radius edges o E l). Qed.
Print Assumptions C10_states_sound.

(* whatever the emission / transition costs, the decoder returns, for each observation, one of its states: same number of
   observations, each inferred state has the property every state of its list has *)
Theorem C10_inference_sound (P : state -> Prop) STATES path o0 :
  Forall2 (fun Sk l => (l < length Sk)%nat) STATES path ->
  Forall (Forall P) STATES ->
  Forall P (infer STATES path o0) /\ length (infer STATES path o0) = length STATES.
Proof. exact (inference_sound P STATES path o0). Qed.
Print Assumptions C10_inference_sound.

(* the abscissa column that computeAbsCurv produces ends with the length of the polyline: "add up to the edge length" *)
Theorem C10_edge_length g : abs_ok g -> edge_length g = plen (egeom g).
Proof. exact (edge_length_plen g). Qed.
Print Assumptions C10_edge_length.

(* the projection on one segment of ANY orientation, outside the inputs on which the code raises *)
Theorem C10_segment_sound x1 y1 x2 y2 x y :
  let s := {| sx1 := x1; sy1 := y1; sx2 := x2; sy2 := y2 |} in
  seg_defined s x y ->
  let '(d, px, py) := Geom.proj_segment RNum s x y in
  (exists mu, 0 <= mu <= 1 /\ (px, py) = on_seg x1 y1 x2 y2 mu) /\ d = GeomProj.dist x y px py.
Proof. exact (proj_segment_sound x1 y1 x2 y2 x y). Qed.
Print Assumptions C10_segment_sound.

(* exactly which inputs the guard excludes on a vertical segment *)
Theorem C10_guard_excludes x1 y1 y2 x y :
  g_incl {| sx1 := x1; sy1 := y1; sx2 := x1; sy2 := y2 |} x y = true <->
  x = x1 /\ ((y1 <= y2 - y1 <= y2) \/ (y2 <= y2 - y1 <= y1) \/ y1 = y2).
Proof. exact (vertical_undefined x1 y1 y2 x y). Qed.
Print Assumptions C10_guard_excludes.

(* non-vacuity: a vertical and an oblique segment with a query beside them satisfy the guard *)
Example C10_nonvacuous :
  seg_defined {| sx1 := 10; sy1 := 0; sx2 := 10; sy2 := 5 |} 7 2 /\ seg_defined {| sx1 := 0; sy1 := 0; sx2 := 4; sy2 := 3 |} 1 1.
Proof.
  split; [right | left; cbn; lra].
  destruct (g_incl {| sx1 := 10; sy1 := 0; sx2 := 10; sy2 := 5 |} 7 2) eqn:E; [|reflexivity].
  apply (vertical_undefined 10 0 5 7 2) in E. lra.
Qed.
