(* C11 - Splitting on a marker partitions the track; markers reflect the thresholds. *)
From Coq Require Import List Arith Bool Lia QArith.
Close Scope Q_scope.   (* QArith opens it; the statements below are about nat and bool *)
Import ListNotations.
From TL Require Import Model.Split Model.ExtQ Proofs.Split_partition Proofs.Split_markers Proofs.Split_pieces.

(* with at least one marker the pieces, in order, are exactly the track (every observation once, original order);
   with none the result is empty *)
Theorem C11_split_partition (A : Type) (l : list A) (marks : list bool) : length marks = length l ->
  (existsb (fun m => m) marks = true -> concat (split A l marks) = l) /\
  ((forall m, In m marks -> m = false) -> split A l marks = []).
Proof. exact (split_partition A l marks). Qed.
Print Assumptions C11_split_partition.

(* every piece before the tail is non-empty, ends at a marked observation and holds no other marker; the tail holds none *)
Theorem C11_split_pieces (O : Type) (l : list (O * bool)) :
  exists ps tail, split (O * bool) l (map snd l) = ps ++ tail /\ Forall (good O) ps /\
    (tail = [] \/ exists t, tail = [t] /\ Forall (unmarked O) t).
Proof. exact (split_pieces O l). Qed.
Print Assumptions C11_split_pieces.

(* AND mode: marked iff some tested non-NaN value exceeds its threshold *)
Theorem C11_marker_and (V : Type) (leb : V -> V -> bool) vals thr :
  marker_and V leb vals thr = existsb (exceeds V leb) (combine vals thr).
Proof. exact (marker_and_spec V leb vals thr). Qed.
Print Assumptions C11_marker_and.

(* OR mode: marked iff every tested non-NaN value exceeds its threshold *)
Theorem C11_marker_or (V : Type) (leb : V -> V -> bool) vals thr :
  marker_or V leb vals thr = forallb (fun p => negb (valid V p) || exceeds V leb p) (combine vals thr).
Proof. exact (marker_or_spec V leb vals thr). Qed.
Print Assumptions C11_marker_or.

Example C11_nonvacuous :
  split nat [10;11;12;13;14] [false;true;false;true;false] = [[10;11];[12;13];[14]] /\
  split nat [10;11;12] [false;false;true] = [[10;11;12];[]] /\
  split nat [10;11] [false;false] = [].
Proof. repeat split; reflexivity. Qed.

(* the marker theorems are generic in the value type: they hold in particular for the extended values the correspondence runs the model on
   (finite, +inf, -inf; NaN = None): +inf exceeds every finite threshold, -inf none, only NaN is left out of the test *)
Example C11_infinite_values :
  marker_and extq extq_leb [Some PInf] [Fin 0%Q] = true /\
  marker_and extq extq_leb [Some MInf; None] [Fin 0%Q; Fin 0%Q] = false /\
  marker_or extq extq_leb [Some MInf; Some (Fin 5%Q)] [Fin 0%Q; Fin 0%Q] = false /\
  marker_or extq extq_leb [None; Some PInf] [Fin 0%Q; Fin 0%Q] = true.
Proof. repeat split; reflexivity. Qed.
