(* C17 - Curvilinear abscissa and speed features match their geometric definitions. *)
From Coq Require Import List Arith QArith Qabs Bool Lia Lqa.
Import ListNotations.
From TL Require Import Model.Kinematics Proofs.Kinematics_abs Proofs.Kinematics_total.
Open Scope Q_scope.

Section C17.
Variable P : Type.
Variable dist : P -> P -> Q.                       (* planimetric distance *)
Hypothesis dist_nonneg : forall a b, 0 <= dist a b.
Variable d0 : P.

(* starts at 0, one value per fix, grows between consecutive fixes by exactly their distance *)
Theorem C17_abs_curv l :
  length (abs_curv P dist l) = length l /\
  (l <> [] -> nth 0 (abs_curv P dist l) 0 == 0) /\
  (forall i, (S i < length l)%nat ->
     nth (S i) (abs_curv P dist l) 0 == nth i (abs_curv P dist l) 0 + dist (nth (S i) l d0) (nth i l d0)).
Proof. exact (abs_curv_spec P dist d0 l). Qed.

(* never decreases *)
Theorem C17_abs_curv_monotone l i : (S i < length l)%nat ->
  nth i (abs_curv P dist l) 0 <= nth (S i) (abs_curv P dist l) 0.
Proof. exact (abs_curv_monotone P dist dist_nonneg d0 l i). Qed.

(* ends at the planimetric length *)
Theorem C17_abs_curv_total l : last (abs_curv P dist l) 0 == path_len P dist l.
Proof. exact (abs_curv_total P dist l). Qed.

(* speed: distance between the two neighbours over the elapsed time; one-sided at the ends; NaN iff that time is zero *)
Theorem C17_speed_interior pos t i : (0 < i)%nat -> (i < length pos - 1)%nat ->
  speed_at P dist pos t d0 i =
    (let dt := nth (i + 1) t 0 - nth (i - 1) t 0 in
     if Qeq_bool dt 0 then None else Some (dist (nth (i + 1) pos d0) (nth (i - 1) pos d0) / dt)).
Proof. exact (speed_interior P dist d0 pos t i). Qed.
Theorem C17_speed_first pos t :
  speed_at P dist pos t d0 0 =
    (let dt := nth 1 t 0 - nth 0 t 0 in if Qeq_bool dt 0 then None else Some (dist (nth 1 pos d0) (nth 0 pos d0) / dt)).
Proof. exact (speed_first P dist d0 pos t). Qed.
Theorem C17_speed_last pos t : (2 <= length pos)%nat ->
  speed_at P dist pos t d0 (length pos - 1) =
    (let dt := nth (length pos - 1) t 0 - nth (length pos - 2) t 0 in
     if Qeq_bool dt 0 then None else Some (dist (nth (length pos - 1) pos d0) (nth (length pos - 2) pos d0) / dt)).
Proof. exact (speed_last P dist d0 pos t). Qed.
End C17.
Print Assumptions C17_abs_curv.
Print Assumptions C17_abs_curv_monotone.
Print Assumptions C17_abs_curv_total.
Print Assumptions C17_speed_interior.
Print Assumptions C17_speed_first.
Print Assumptions C17_speed_last.

Example C17_nonvacuous : abs_curv Q (fun a b => Qabs (a - b)) [0; 3; 3; 1] = abs_curv Q (fun a b => Qabs (a - b)) [0; 3; 3; 1]
  /\ Qeq_bool (last (abs_curv Q (fun a b => Qabs (a - b)) [0; 3; 3; 1]) 0) 5 = true.
Proof. split; [reflexivity | vm_compute; reflexivity]. Qed.
