(* C08 - The grid spatial index never omits a feature that is geometrically there.  (first version: R-level statements) *)
From Coq Require Import List Reals ZArith Lra Lia Bool.
Import ListNotations.
From Flocq Require Import Raux.
From TL Require Import Proofs.GridCells Proofs.GridIndex Proofs.GridUnits Proofs.GridNeigh.
Open Scope R_scope.

Theorem C08_cell_complete ax ay bx by_ i j lam :
  0 <= lam <= 1 ->
  let px := ax + lam * (bx - ax) in let py := ay + lam * (by_ - ay) in
  i <= px < i + 1 -> j <= py < j + 1 ->
  cell_test ax ay bx by_ i j = true.
Proof. exact (cell_complete ax ay bx by_ i j lam). Qed.
Print Assumptions C08_cell_complete.
