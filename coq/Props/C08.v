(* C08 - The grid spatial index never omits a feature that is geometrically there.
   Statements are about the executable rational model Model/Grid.v (the one the correspondence runs), for every rational
   set-up and every REAL parameter along a feature segment; the geometric core is proved over R (Proofs/GridCells.v) and
   transported by Proofs/GridQ2R.v. *)
From Coq Require Import List ZArith QArith Qround Qreals Reals Lra Lia Bool.
Import ListNotations.
From Flocq Require Import Raux.
From TL Require Import Model.Grid Proofs.GridCells Proofs.GridQ2R Proofs.GridCellsC Proofs.GridBuild Proofs.GridWf Proofs.GridQuery.

(* the constructor yields a well-formed index for any box of positive width and height, non-negative margin, positive resolution *)
Theorem C08_constructor x0 x1 y0 y1 m rx ry ix : (x0 < x1)%Q -> (y0 < y1)%Q -> (0 <= m)%Q -> (0 < rx)%Q -> (0 < ry)%Q ->
  make x0 x1 y0 y1 m rx ry = Ok ix -> wf_index ix.
Proof. exact (make_wf x0 x1 y0 y1 m rx ry ix). Qed.

(* building never fails when every vertex lies inside the extent, and registers each feature in every cell returned for
   each of its segments *)
Theorem C08_build ix feats : wf_index ix -> (forall poly p, In poly feats -> In p poly -> in_extent ix p) ->
  exists g, build ix feats = Ok g /\
    forall k poly p q cs c, nth_error feats k = Some poly -> In (p, q) (segments poly) -> seg_cells ix p q = Some cs -> In c cs ->
      In k (lookup g c).
Proof. intros Hwf Hin. exact (build_registers ix feats (extent_good ix feats Hwf Hin)). Qed.

(* the cells returned for a segment contain the cell (upper borders folded into the last cells) of every point of it *)
Theorem C08_cells_complete (cs ls : Z) (ax ay bx by_ : Q) (lam : R) :
  (0 < cs)%Z -> (0 < ls)%Z -> (0 <= lam <= 1)%R ->
  (0 <= Q2R ax <= IZR cs)%R -> (0 <= Q2R bx <= IZR cs)%R -> (0 <= Q2R ay <= IZR ls)%R -> (0 <= Q2R by_ <= IZR ls)%R ->
  let px := (Q2R ax + lam * (Q2R bx - Q2R ax))%R in let py := (Q2R ay + lam * (Q2R by_ - Q2R ay))%R in
  In (Z.min (Zfloor px) (cs - 1), Z.min (Zfloor py) (ls - 1)) (cells cs ls ax ay bx by_).
Proof. exact (cells_complete_Q cs ls ax ay bx by_ lam). Qed.

(* point query: every feature having a segment with a point in the cell that contains the query point is returned *)
Theorem C08_point_query ix feats g k poly p q a b (lam : R) x y c :
  wf_index ix -> build ix feats = Ok g -> good_feats ix feats ->
  nth_error feats k = Some poly -> In (p, q) (segments poly) ->
  get_cell ix (fst p) (snd p) = Some a -> get_cell ix (fst q) (snd q) = Some b -> (0 <= lam <= 1)%R ->
  get_cell ix x y = Some c ->
  cell_of ix c = (Z.min (Zfloor (Q2R (fst a) + lam * (Q2R (fst b) - Q2R (fst a)))) (csize ix - 1),
                  Z.min (Zfloor (Q2R (snd a) + lam * (Q2R (snd b) - Q2R (snd a)))) (lsize ix - 1)) ->
  exists r, request_point ix g x y = Some r /\ In k r.
Proof. exact (request_point_complete ix feats g k poly p q a b lam x y c). Qed.

(* segment query: every feature registered in a crossed cell is returned *)
Theorem C08_segment_query ix g p q a b c k :
  get_cell ix (fst p) (snd p) = Some a -> get_cell ix (fst q) (snd q) = Some b ->
  In c (cells (csize ix) (lsize ix) (fst a) (snd a) (fst b) (snd b)) -> In k (lookup g c) ->
  exists r, request_segment ix g p q = Some r /\ In k r.
Proof. exact (request_segment_complete ix g p q a b c k). Qed.

(* neighbourhood query with a radius converted from a ground distance d: every feature having a point within ground
   distance d of the query point is returned (grid coordinates times the cell sides are ground offsets) *)
Theorem C08_neighbourhood ix feats g k poly p q a b (lam : R) x y c (d : Q) :
  wf_index ix -> build ix feats = Ok g -> good_feats ix feats ->
  nth_error feats k = Some poly -> In (p, q) (segments poly) ->
  get_cell ix (fst p) (snd p) = Some a -> get_cell ix (fst q) (snd q) = Some b -> (0 <= lam <= 1)%R ->
  get_cell ix x y = Some c -> (0 <= d)%Q ->
  (let rx := (Q2R (fst a) + lam * (Q2R (fst b) - Q2R (fst a)))%R in let ry := (Q2R (snd a) + lam * (Q2R (snd b) - Q2R (snd a)))%R in
   ((Q2R (fst c) - rx) * Q2R (dX ix)) * ((Q2R (fst c) - rx) * Q2R (dX ix)) + ((Q2R (snd c) - ry) * Q2R (dY ix)) * ((Q2R (snd c) - ry) * Q2R (dY ix)) <= Q2R d * Q2R d)%R ->
  exists r, neighborhood_point ix g x y (units ix d) = Some r /\ In k r.
Proof. exact (neighborhood_complete_Q ix feats g k poly p q a b lam x y c d). Qed.

Print Assumptions C08_constructor.
Print Assumptions C08_build.
Print Assumptions C08_cells_complete.
Print Assumptions C08_point_query.
Print Assumptions C08_segment_query.
Print Assumptions C08_neighbourhood.

(* non-vacuity: a 4 x 4 index with margin 0 (vertices on the outer border), two features *)
Example C08_nonvacuous :
  match make 0 4 0 4 0 1 1 with
  | Ok ix => match build ix [[(0, 0); (4, 4)]; [(0, 4); (2, 2)]]%Q with
             | Ok g => request_point ix g 4 4 = Some [0%nat] /\ request_point ix g 2 2 = Some [0%nat; 1%nat] /\
                       match neighborhood_point ix g 0 0 (units ix 1) with Some r => existsb (Nat.eqb 1) r = true | None => False end
             | Err _ => False end
  | Err _ => False end.
Proof. vm_compute. repeat split; reflexivity. Qed.
