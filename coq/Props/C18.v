(* C18 - Time-warping cost is the optimal coupling cost and the matching realises it. *)
From Coq Require Import List Arith QArith Bool Lia Lqa.
Import ListNotations.
From TL Require Import Model.Dtw Model.Fdtw Proofs.Dtw_rec Proofs.Dtw_opt Proofs.Dtw_sym Proofs.Dtw_cover Proofs.Fdtw_opt Proofs.Refuted.
Open Scope Q_scope.

Section C18.
Variable w : Q -> Q -> Q.            (* accumulate: A + d^p, or max A d *)
Variable D : nat -> nat -> Q.        (* D i j = distance (track2[i], track1[j]) *)
Hypothesis w_mono : forall A A' B, A <= A' -> w A B <= w A' B.
Variables n2 n1 : nat.

(* score = minimum over all monotone couplings from the first to the last pair; the returned matching is such a
   coupling and its accumulated cost is the score *)
Theorem C18_dtw_correct : (0 < n2)%nat -> (0 < n1)%nat ->
  let '(score, p) := dtw w D (pred_fix w D) n2 n1 in
  cpath ((n2 - 1)%nat, (n1 - 1)%nat) p /\ path_cost w D p == score /\
  forall l, cpath ((n2 - 1)%nat, (n1 - 1)%nat) l -> score <= path_cost w D l.
Proof. exact (dtw_correct w D w_mono n2 n1). Qed.

(* swapping the two tracks transposes the table: same score *)
Theorem C18_dtw_symmetric : (0 < n2)%nat -> (0 < n1)%nat ->
  T w (Dt D) n1 n2 (n1 - 1) (n2 - 1) == T w D n2 n1 (n2 - 1) (n1 - 1).
Proof. exact (dtw_symmetric w D w_mono n2 n1). Qed.

(* the fast variant terminates with a score, and that score is the table entry (hence the optimal coupling cost) *)
Hypothesis w_ge : forall A B, A <= w A (D (fst B) (snd B)).
Theorem C18_fdtw_same_score : (0 < n2)%nat -> (0 < n1)%nat ->
  exists c, fdtw_score w D n2 n1 = Some c /\ c == T w D n2 n1 (n2 - 1) (n1 - 1).
Proof. intros H2 H1. exact (fdtw_total w D n2 n1 w_mono w_ge H2 H1). Qed.
End C18.
Print Assumptions C18_dtw_correct.
Print Assumptions C18_dtw_symmetric.
Print Assumptions C18_fdtw_same_score.

(* a coupling links every observation of both tracks at least once *)
Theorem C18_coupling_covers q l : cpath q l ->
  (forall i, (i <= fst q)%nat -> exists j, In (i, j) l) /\ (forall j, (j <= snd q)%nat -> exists i, In (i, j) l).
Proof. exact (cpath_covers q l). Qed.
Print Assumptions C18_coupling_covers.

(* record of the finding: the back-pointer rule of the code before its repair returns a coupling that costs more than the score *)
Theorem C18_old_backpointer_refuted : exists n2 n1 D,
  let '(score, p) := dtw Qplus D (pred_cur Qplus D) n2 n1 in
  Qcompare score (path_cost Qplus D p) = Lt.
Proof. exact dtw_backpointer_refuted. Qed.
Print Assumptions C18_old_backpointer_refuted.

(* non-vacuity: the accumulations used by the code satisfy the hypotheses *)
Example C18_plus_mono : forall A A' B, A <= A' -> Qplus A B <= Qplus A' B.
Proof. intros A A' B H. apply Qplus_le_compat; [exact H | apply Qle_refl]. Qed.
Example C18_run : let '(s, p) := dtw Qplus Dtw.Dw (pred_fix Qplus Dtw.Dw) 3 3 in Qcompare s (path_cost Qplus Dtw.Dw p) = Eq.
Proof. vm_compute. reflexivity. Qed.
