(* C01 - placeholder, replaced below *)
From Coq Require Import List.
From TL Require Import Model.Str Model.Table Proofs.Table_inv Proofs.Table_history.
Theorem C01_history_inv ops : forall t, Inv t -> forallb (valid_op (size t)) ops = true ->
  Inv (fold_left step ops t) /\ size (fold_left step ops t) = size t.
Proof. exact (history_inv ops). Qed.
Print Assumptions C01_history_inv.
