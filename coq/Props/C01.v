(* C01 - Feature table stays aligned with observations under any operation history.
   Inv t : feature names distinct, dictionary indices 0..k-1 in insertion order, every observation carries exactly k values,
           no virtual name is registered.   abs t : the ordered map name -> column read through the public accessor. *)
From Coq Require Import List Ascii String Bool Arith ZArith QArith Lia.
Import ListNotations.
From TL Require Import Model.Str Model.Rpn Model.Table Model.Eval Model.Pipeline Model.History
  Proofs.Table_inv Proofs.Table_remove Proofs.Table_set Proofs.Table_history Proofs.Table_xhistory
  Model.OpSem Proofs.OpSem_step
  Proofs.Rpn_parse Proofs.Eval_sem Proofs.Eval_machine Proofs.Eval_top Proofs.Eval_operate.

(* after ANY history of create / remove / "#DELETE" / addListToAF / update / bracket assignment / single-observation assignment / function-computed feature
   (raising calls included: they leave the track unchanged), the alignment invariant holds and the track keeps its size *)
Theorem C01_history_invariant ops : forall t, Inv t -> forallb (xvalid (Table.size t)) ops = true ->
  Inv (fold_left xstep ops t) /\ Table.size (fold_left xstep ops t) = Table.size t.
Proof. exact (xhistory_inv ops). Qed.

(* refinement: reading by name returns what the same history writes into a plain ordered map (last write wins, create on an
   existing name is a no-op, delete removes exactly that name and nothing else) *)
Theorem C01_history_refines ops : forall t, Inv t -> forallb (xvalid (Table.size t)) ops = true ->
  abs (fold_left xstep ops t) = fold_left (xspec_step (Table.size t)) ops (abs t).
Proof. exact (xhistory_refines ops). Qed.

(* frame: coordinates and timestamps are untouched by every call that does not name a coordinate *)
Theorem C01_history_frame ops : forall t, Inv t -> forallb (xvalid (Table.size t)) ops = true ->
  forallb (fun o => negb (is_coord (xname o))) ops = true ->
  let t' := fold_left xstep ops t in xs t' = xs t /\ ys t' = ys t /\ zs t' = zs t /\ ts t' = ts t.
Proof. exact (xhistory_frame ops). Qed.

(* single operations, as stated in the property *)
Theorem C01_remove t n i t' : Inv t -> lookup (dico t) n = Some i -> remove_af t n = Ok t' ->
  Inv t' /\ names t' = filter (keep n) (names t) /\ Table.size t' = Table.size t /\
  xs t' = xs t /\ ys t' = ys t /\ zs t' = zs t /\ ts t' = ts t /\
  get_af t' n = Err AFError /\ (forall m, m <> n -> get_af t' m = get_af t m).
Proof. exact (remove_spec t n i t'). Qed.

(* an algebraic expression without '=' : same abstract map, same coordinates, invariant kept, no temporary listed *)
Theorem C01_expression_step e t d :
  Inv t -> coords_ok t -> Table.size t <> 0%nat -> fresh_from t 0 -> has_af t out_name = false ->
  (forall m, In m (names t) -> is_temp m = false) ->
  wf e -> wfe t e -> (0 < minclass e)%nat -> clean (print e) = true -> sem t e = Ok d ->
  exists t3 r, operate_str t (print e) = Ok (t3, r) /\ Inv t3 /\ abs t3 = abs t /\
               xs t3 = xs t /\ ys t3 = ys t /\ zs t3 = zs t /\ ts t3 = ts t.
Proof. exact (operate_abs e t d). Qed.

(* operator application (an operator OBJECT: shifts, circular shifts, rectifier - Model/OpSem.v) to the column c read under a listed name, written under `out`
   (in place when `out` is that name): one table step that keeps the invariant and the size, puts exactly the operator's output under `out` in the abstract map
   and, unless `out` names a coordinate, leaves coordinates and timestamps alone *)
Theorem C01_operator_step o t out c :
  Inv t -> List.length c = Table.size t ->
  let op := XAddFun out (opsem o c) in
  let t' := xstep t op in
  Inv t' /\ Table.size t' = Table.size t /\
  abs t' = xspec_step (Table.size t) (abs t) op /\
  (is_coord out = false -> xs t' = xs t /\ ys t' = ys t /\ zs t' = zs t /\ ts t' = ts t).
Proof. exact (operator_step o t out c). Qed.

Print Assumptions C01_history_invariant.
Print Assumptions C01_operator_step.
Print Assumptions C01_history_refines.
Print Assumptions C01_history_frame.
Print Assumptions C01_remove.
Print Assumptions C01_expression_step.

(* non-vacuity: create a, create b, delete a, create a again, bracket-assign b, set one observation of a *)
Definition mk2 : track := {| xs := [Some 0; Some 1]; ys := [Some 0; Some 0]; zs := [Some 0; Some 0]; ts := [Some 0; Some 1]; dico := []; feats := [[]; []] |}.
Definition h_ex : list xop :=
  [XCreate (s_ "a") (IScalar (Some 1)); XCreate (s_ "b") (IList [Some 2; Some 3]); XDelete (s_ "a"); XCreate (s_ "a") (IScalar (Some 7));
   XSetItem (s_ "b") (IScalar (Some 5)); XSetObs (s_ "a") 1 (Some 9); XUpdate (s_ "zz") (IScalar (Some 0))].
Example C01_nonvacuous :
  forallb (xvalid (Table.size mk2)) h_ex = true /\
  abs (fold_left xstep h_ex mk2) = [(s_ "b", [Some 5; Some 5]); (s_ "a", [Some 7; Some 9])].
Proof. split; vm_compute; reflexivity. Qed.

(* the operator semantics on a concrete column: shift right by one, shift by -1 (left), circular shift, rectifier *)
Example C01_opsem_runs :
  opsem (OShift 1) [Some 1; Some 2; Some 3] = [None; Some 1; Some 2] /\
  opsem (OShift (-1)) [Some 1; Some 2; Some 3] = [Some 2; Some 3; None] /\
  opsem (OShiftCirc 1) [Some 1; Some 2; Some 3] = [Some 3; Some 1; Some 2] /\
  opsem ORectify [Some (-2); None] = [Some 2; None].
Proof. repeat split; vm_compute; reflexivity. Qed.
