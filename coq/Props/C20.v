(* C20 - Projecting a point on a polyline returns its nearest point.
   Full statement (property text): for segments of every orientation, vertical included.
   Proved statement: C20_segment_partial / C20_polyline_partial carry the guard x1 <> x2 on every non-skipped segment;
   the guard cannot be removed: C20_vertical_refuted (known finding "vertical-segment", pinned by the repository's own test). *)
From Coq Require Import List Arith Reals Lra Lia Bool PrimFloat.
Import ListNotations.
From TL Require Import Model.Num Model.Geom Proofs.GeomAlg Proofs.GeomProj Proofs.Geom_bridge Proofs.PolyMin Proofs.Poly_bridge Proofs.MapMatch_sound.
Open Scope R_scope.

(* one segment, any non-vertical orientation (horizontal included), any query point (on the segment included):
   the returned point lies on the segment, the returned distance is the distance to it and is minimal over the segment *)
Theorem C20_segment_partial x1 y1 x2 y2 x y : x1 <> x2 ->
  let '(d, px, py) := Geom.proj_segment RNum {| sx1 := x1; sy1 := y1; sx2 := x2; sy2 := y2 |} x y in
  (exists mu, 0 <= mu <= 1 /\ (px, py) = on_seg x1 y1 x2 y2 mu) /\
  d = dist x y px py /\
  forall mu, 0 <= mu <= 1 -> d <= dist x y (fst (on_seg x1 y1 x2 y2 mu)) (snd (on_seg x1 y1 x2 y2 mu)).
Proof. exact (proj_segment_generic_nearest x1 y1 x2 y2 x y). Qed.
Print Assumptions C20_segment_partial.

(* a polyline: the returned index carries the returned point, the distance is the distance to it and the minimum over
   every point of every non-skipped segment; no result iff every segment is skipped (zero length) *)
Theorem C20_polyline_partial eps pts x y :
  (forall j, (S j < length pts)%nat -> skipped eps (nth j pts (0,0)) (nth (S j) pts (0,0)) = false ->
             fst (nth j pts (0,0)) <> fst (nth (S j) pts (0,0))) ->
  match proj_polyligne RNum eps pts x y with
  | None => forall j, (S j < length pts)%nat -> skipped eps (nth j pts (0,0)) (nth (S j) pts (0,0)) = true
  | Some (d, xp, yp, i) =>
      (S i < length pts)%nat /\ skipped eps (nth i pts (0,0)) (nth (S i) pts (0,0)) = false /\
      (let A := nth i pts (0,0) in let B := nth (S i) pts (0,0) in
       exists mu, 0 <= mu <= 1 /\ (xp, yp) = on_seg (fst A) (snd A) (fst B) (snd B) mu) /\
      d = dist x y xp yp /\
      forall j mu, (S j < length pts)%nat -> skipped eps (nth j pts (0,0)) (nth (S j) pts (0,0)) = false -> 0 <= mu <= 1 ->
        let A := nth j pts (0,0) in let B := nth (S j) pts (0,0) in
        d <= dist x y (fst (on_seg (fst A) (snd A) (fst B) (snd B) mu)) (snd (on_seg (fst A) (snd A) (fst B) (snd B) mu))
  end.
Proof. exact (proj_polyligne_nearest eps pts x y). Qed.
Print Assumptions C20_polyline_partial.

(* what remains true on every segment, vertical ones included, whenever the code does not raise (seg_defined: non-vertical, or
   vertical outside the inputs characterised by C10_guard_excludes): the returned point lies on the segment and the returned
   distance is the distance to it - only minimality is lost on vertical segments (the open finding) *)
Theorem C20_any_orientation_sound x1 y1 x2 y2 x y :
  let s := {| sx1 := x1; sy1 := y1; sx2 := x2; sy2 := y2 |} in
  seg_defined s x y ->
  let '(d, px, py) := Geom.proj_segment RNum s x y in
  (exists mu, 0 <= mu <= 1 /\ (px, py) = on_seg x1 y1 x2 y2 mu) /\ d = dist x y px py.
Proof. exact (proj_segment_sound x1 y1 x2 y2 x y). Qed.
Print Assumptions C20_any_orientation_sound.

(* the guard is needed: on the vertical segment (10,0)-(10,5) the binary64 instance of the same model - bit for bit what
   CPython computes - returns the end point (10,0) at distance sqrt(29) > 5 for the query (5,2), whose nearest point is (10,2) *)
Theorem C20_vertical_refuted : exists s x y, PrimFloat.eqb (sx1 s) (sx2 s) = true /\
  let '(d, px, py) := Geom.proj_segment FNum s x y in
  PrimFloat.eqb px 10 = true /\ PrimFloat.eqb py 0 = true /\ PrimFloat.ltb 5 d = true.
Proof.
  exists {| sx1 := 10%float; sy1 := 0%float; sx2 := 10%float; sy2 := 5%float |}, 5%float, 2%float.
  vm_compute. repeat split; reflexivity.
Qed.
Print Assumptions C20_vertical_refuted.

(* non-vacuity: an oblique segment and a query beside it *)
Example C20_nonvacuous : (0 <> 4)%R /\
  (let '(d, px, py) := Geom.proj_segment FNum {| sx1 := 0%float; sy1 := 0%float; sx2 := 4%float; sy2 := 0%float |} 1%float 3%float in
   PrimFloat.eqb d 3 && PrimFloat.eqb px 1 && PrimFloat.eqb py 0) = true.
Proof. split; [lra | vm_compute; reflexivity]. Qed.
