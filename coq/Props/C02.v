(* C02 - Algebraic feature expressions evaluate to ordinary arithmetic on the features.
   Proved for the grammar of [expr] (internal syntax): atoms (feature names, virtual names, unsigned literals), the binary
   operators + - * / ^ < > with the class order and left associativity of makeRPN, parentheses, and function application
   F@(e) for D I D2 ABS SIGN DIODE SUM AVG MIN MAX (what F(e) and F{e} are rewritten to).  C02_operate is the end-to-end
   statement for expressions without '=': value returned = ordinary (kind-aware) denotation, track exactly as before.
   C02_assign_new / C02_assign_over / C02_assign_coord are the end-to-end statements for "name=expr": name new, name an
   existing feature, name one of x y z.
   C02_surface / C02_surface_operate: the surface spellings - unary minus "(-e)" and the function calls F(e), F{e} - are rewritten
   by the string passes of __evaluate into (0-e) and F@(e); a surface expression evaluates as its lowered tree.
   C02_surface_assign: the same on the right of '=' ("name=<surface expression>" evaluates as "name=<lowered expression>", to which
   the three '=' theorems apply).
   Named _partial where the property text asks for more than is proved here: a leading unary minus without parentheses, the
   operator spellings ** .* >> <<, and "t=expr" (raw values stored as timestamps) are tied to the code by the correspondence
   streams and the tree-evaluator oracle only. *)
From Coq Require Import List Ascii String Bool Arith ZArith QArith Lia.
Import ListNotations.
From TL Require Import Model.Str Model.Rpn Model.Table Model.Eval Model.Pipeline
  Proofs.Table_inv Proofs.Table_remove Proofs.Rpn_parse Proofs.Rpn_output Proofs.Eval_sem Proofs.Eval_machine Proofs.Eval_run Proofs.Eval_top Proofs.Eval_operate Proofs.Eval_assign Proofs.Replace Proofs.Surface Proofs.Surface_eval Proofs.Surface_assign Proofs.Surface_lead.

(* the parser: precedence classes, left associativity, parentheses - for every expression tree *)
Theorem C02_parse : forall fuel e, wf e -> (size e < fuel)%nat -> makeRPN fuel (print e) = Rpn.Ok (postfix e).
Proof. exact parse_correct. Qed.

(* the "#output = " wrapper handed to the parser when the expression has no '=' *)
Theorem C02_wrap_output out e fuel : plain out -> wf e -> (0 < minclass e)%nat -> (size e < fuel)%nat ->
  makeRPN (S fuel) (out ++ [" "; "="; " "]%char ++ print e) = Rpn.Ok ([out] ++ postfix e ++ [["="%char]]).
Proof. exact (wrap_output out e fuel). Qed.

(* the stack machine: running the postfix form leaves one item that denotes sem t e; only numbered temporaries are added *)
Theorem C02_machine : forall e t k st rest d,
  Inv t -> coords_ok t -> Table.size t <> 0%nat -> fresh_from t k -> wfe t e -> sem t e = Ok d ->
  exists t' it, run_rpn (postfix e ++ rest) t st k = run_rpn rest t' (it :: st) (k + nops e) /\
                Ext t t' k (k + nops e) /\ coords_ok t' /\ irel t' it d.
Proof. exact run_expr. Qed.

(* Track.operate(expr), no '=': the returned list is the denotation of the tree; same feature names in the same order, every
   feature and coordinate reads as before, no temporary remains *)
Theorem C02_operate_partial e t d :
  Inv t -> coords_ok t -> Table.size t <> 0%nat -> fresh_from t 0 -> has_af t out_name = false ->
  (forall m, In m (names t) -> is_temp m = false) ->
  wf e -> wfe t e -> (0 < minclass e)%nat -> clean (print e) = true -> sem t e = Ok d ->
  exists t3, operate_str t (print e) = Ok (t3, Some (dcol (Table.size t) d))
    /\ Inv t3 /\ names t3 = names t
    /\ (forall m, has_af t m = true -> get_af t3 m = get_af t m)
    /\ xs t3 = xs t /\ ys t3 = ys t /\ zs t3 = zs t /\ ts t3 = ts t.
Proof. exact (operate_correct e t d). Qed.

(* Track.operate("name=expr"), name new: the value of the tree is stored under that name (appended to the listed names), every
   other feature and every coordinate reads as before, no temporary remains, nothing is returned *)
Theorem C02_assign_new lhs e t d :
  Inv t -> coords_ok t -> Table.size t <> 0%nat -> fresh_from t 0 ->
  (forall m, In m (names t) -> is_temp m = false) ->
  lhs_ok lhs -> has_af t lhs = false -> is_temp lhs = false ->
  wf e -> wfe t e -> (0 < minclass e)%nat -> clean (print e) = true -> sem t e = Ok d ->
  exists t3, operate_str t (assign_str lhs e) = Ok (t3, None)
    /\ Inv t3 /\ names t3 = names t ++ [lhs]
    /\ get_af t3 lhs = Ok (dcol (Table.size t) d)
    /\ (forall m, has_af t m = true -> get_af t3 m = get_af t m)
    /\ xs t3 = xs t /\ ys t3 = ys t /\ zs t3 = zs t /\ ts t3 = ts t.
Proof. exact (operate_assign_new lhs e t d). Qed.

(* name an existing feature: overwritten with the value of the tree (evaluated on the track as it was, so the name may occur in the
   expression); the listed names are the same set (the name keeps its place for a constant, moves to the end for a vector);
   every other feature and every coordinate reads as before *)
Theorem C02_assign_over lhs i e t d :
  Inv t -> coords_ok t -> Table.size t <> 0%nat -> fresh_from t 0 ->
  (forall m, In m (names t) -> is_temp m = false) ->
  lhs_ok lhs -> lookup (dico t) lhs = Some i ->
  wf e -> wfe t e -> (0 < minclass e)%nat -> clean (print e) = true -> sem t e = Ok d ->
  exists t3, operate_str t (assign_str lhs e) = Ok (t3, None)
    /\ Inv t3 /\ (names t3 = names t \/ names t3 = filter (keep lhs) (names t) ++ [lhs])
    /\ get_af t3 lhs = Ok (dcol (Table.size t) d)
    /\ (forall m, m <> lhs -> has_af t m = true -> get_af t3 m = get_af t m)
    /\ xs t3 = xs t /\ ys t3 = ys t /\ zs t3 = zs t /\ ts t3 = ts t.
Proof. exact (operate_assign_over lhs i e t d). Qed.

(* name one of x y z: that coordinate becomes the value of the tree; the other coordinates, the timestamps, the listed names and
   every feature are unchanged, no temporary remains *)
Theorem C02_assign_coord c e t d :
  is_xyz c ->
  Inv t -> coords_ok t -> Table.size t <> 0%nat -> fresh_from t 0 ->
  (forall m, In m (names t) -> is_temp m = false) ->
  wf e -> wfe t e -> (0 < minclass e)%nat -> clean (print e) = true -> sem t e = Ok d ->
  exists t3, operate_str t (assign_str c e) = Ok (t3, None)
    /\ Inv t3 /\ names t3 = names t
    /\ coord_of t3 c = dcol (Table.size t) d
    /\ (forall c', is_xyz c' -> c' <> c -> coord_of t3 c' = coord_of t c')
    /\ ts t3 = ts t
    /\ (forall m, m <> c -> has_af t m = true -> get_af t3 m = get_af t m).
Proof. exact (operate_assign_coord c e t d). Qed.

(* surface syntax: all the string passes of __evaluate (special operators, reflexive operators, unary operators, function marking)
   turn the printed surface tree into the printed lowered tree, for every tree *)
Theorem C02_surface x : swf x -> preprocess (sprint x) = Ok (print (lower x)).
Proof. exact (preprocess_sprint x). Qed.

(* hence Track.operate on the surface spelling returns the denotation of the lowered tree (unary minus = 0 - e, F(e) = F{e} = the
   function applied to e) and leaves the track exactly as it was *)
Theorem C02_surface_operate x t d :
  swf x ->
  Inv t -> coords_ok t -> Table.size t <> 0%nat -> fresh_from t 0 -> has_af t out_name = false ->
  (forall m, In m (names t) -> is_temp m = false) ->
  wf (lower x) -> wfe t (lower x) -> (0 < minclass (lower x))%nat -> clean (print (lower x)) = true -> sem t (lower x) = Ok d ->
  exists t3, operate_str t (sprint x) = Ok (t3, Some (dcol (Table.size t) d))
    /\ Inv t3 /\ names t3 = names t
    /\ (forall m, has_af t m = true -> get_af t3 m = get_af t m)
    /\ xs t3 = xs t /\ ys t3 = ys t /\ zs t3 = zs t /\ ts t3 = ts t.
Proof. exact (surface_operate_correct x t d). Qed.

(* ... and on the right of '=': "name=<surface expression>" evaluates exactly as "name=<lowered expression>" *)
Theorem C02_surface_assign lhs x t : lhs_ok lhs -> swf x -> clean (print (lower x)) = true ->
  operate_str t (lhs ++ "="%char :: sprint x) = operate_str t (assign_str lhs (lower x)).
Proof. exact (surface_assign_operate lhs x t). Qed.

(* a leading unary minus without parentheses, "-<surface expression>": the first-character rule of the unary pass makes it "0-...",
   so the minus applies to the first term (neg_lead: the tree in which 0-. is attached to the leftmost operand of the additive chain) *)
Theorem C02_surface_lead x t : swf x -> clean (print (neg_lead (lower x))) = true ->
  operate_str t ("-"%char :: sprint x) = operate_str t (print (neg_lead (lower x))).
Proof. exact (lead_operate x t). Qed.

(* spaces anywhere in the input are irrelevant *)
Theorem C02_spaces e t d s :
  filter (fun c => negb (Ascii.eqb c " ")) s = print e ->
  Inv t -> coords_ok t -> Table.size t <> 0%nat -> fresh_from t 0 -> has_af t out_name = false ->
  wf e -> wfe t e -> (0 < minclass e)%nat -> clean (print e) = true -> sem t e = Ok d ->
  exists t2, evaluate t s = Ok (t2, Some (dcol (Table.size t) d))
    /\ (forall m, has_af t m = true -> get_af t2 m = get_af t m)
    /\ xs t2 = xs t /\ ys t2 = ys t /\ zs t2 = zs t /\ ts t2 = ts t
    /\ Inv t2 /\ (exists tmps, names t2 = names t ++ tmps /\ forall m, In m tmps -> exists j, m = temp_name j).
Proof. exact (evaluate_correct_spaced e t d s). Qed.

Print Assumptions C02_parse.
Print Assumptions C02_wrap_output.
Print Assumptions C02_machine.
Print Assumptions C02_operate_partial.
Print Assumptions C02_spaces.
Print Assumptions C02_assign_new.
Print Assumptions C02_assign_over.
Print Assumptions C02_assign_coord.
Print Assumptions C02_surface.
Print Assumptions C02_surface_operate.
Print Assumptions C02_surface_assign.
Print Assumptions C02_surface_lead.

(* non-vacuity: every hypothesis of C02_operate_partial holds for a + 2 * (x - a) on a two-fix track, and for a+D@(x)+SUM@(a) *)
Example C02_nonvacuous :
  Inv t_ex /\ coords_ok t_ex /\ Table.size t_ex <> 0%nat /\ fresh_from t_ex 0 /\ has_af t_ex out_name = false /\
  wf e_ex /\ wfe t_ex e_ex /\ (0 < minclass e_ex)%nat /\ clean (print e_ex) = true /\ exists d, sem t_ex e_ex = Ok d.
Proof. exact ex_hyps. Qed.
Example C02_run : match operate_str t_ex (print e_ex) with Ok (t3, Some [Some a; Some b]) => Qeq_bool a (-1) && Qeq_bool b 6 && (List.length (names t3) =? 1)%nat | _ => false end = true.
Proof. vm_compute. reflexivity. Qed.

(* non-vacuity of C02_assign_new: c = a+2*(x-a) on the two-fix example track *)
Example C02_assign_run : match operate_str t_ex (assign_str (s_ "c") e_ex) with
  | Ok (t3, None) => (List.length (names t3) =? 2)%nat && match get_af t3 (s_ "c") with Ok [Some a; Some b] => Qeq_bool a (-1) && Qeq_bool b 6 | _ => false end
  | _ => false end = true.
Proof. vm_compute. reflexivity. Qed.
Example C02_assign_over_run : match operate_str t_ex (assign_str (s_ "a") e_ex) with
  | Ok (t3, None) => (List.length (names t3) =? 1)%nat && match get_af t3 (s_ "a") with Ok [Some a; Some b] => Qeq_bool a (-1) && Qeq_bool b 6 | _ => false end
  | _ => false end = true.
Proof. vm_compute. reflexivity. Qed.
Example C02_assign_coord_run : match operate_str t_ex (assign_str (s_ "y") e_ex) with
  | Ok (t3, None) => (List.length (names t3) =? 1)%nat && match ys t3 with [Some a; Some b] => Qeq_bool a (-1) && Qeq_bool b 6 | _ => false end
  | _ => false end = true.
Proof. vm_compute. reflexivity. Qed.
Example C02_surface_example : swf x_ex /\ sprint x_ex = s_ "(-a)+ABS{b}*SUM(a)" /\ print (lower x_ex) = s_ "(0-a)+ABS@(b)*SUM@(a)" /\ clean (print (lower x_ex)) = true.
Proof. split; [|exact x_ex_ok]. cbn. repeat split; try discriminate; try reflexivity; auto 30. Qed.
