(* C06 - Network shortest distances are the true minimum over permitted walks.
   This file holds only the property theorems (closed by [exact]), their assumptions and non-vacuity examples. *)
From Coq Require Import List Arith ZArith QArith Bool Lia Lqa.
Import ListNotations.
From TL Require Import Model.Graph Proofs.Graph_inv Proofs.Graph_step Proofs.Graph_final Proofs.Graph_stop Proofs.Graph_fuel Proofs.Graph_ante Proofs.Graph_target.
Open Scope Q_scope.

(* Untargeted run with the model's own fuel: every value is the minimum over permitted walks; no value <-> no walk *)
Theorem C06_distances_are_minima g src cut :
  nonneg g -> never_cut cut g src ->
  let s := run (fuel_of g) g None cut (init src) in
  forall t,
    (forall d, poids s t = Some d ->
       (exists p, walk g src t p /\ cost p == d) /\ (forall p, walk g src t p -> d <= cost p)) /\
    (poids s t = None -> forall p, ~ walk g src t p).
Proof. exact (dijkstra_total g src cut). Qed.
Print Assumptions C06_distances_are_minima.

(* Stop on the target: the node being popped already carries its final, optimal value *)
Theorem C06_popped_is_optimal g src s u du : nonneg g -> Inv g src s ->
  In u (fil s) -> poids s u = Some du ->
  (forall v dv, In v (fil s) -> poids s v = Some dv -> du <= dv) ->
  forall p, walk g src u p -> du <= cost p.
Proof. exact (popped_is_optimal g src s u du). Qed.
Print Assumptions C06_popped_is_optimal.

(* Stop on the cut: every node within the cut is settled with its true distance (the table is complete) *)
Theorem C06_cut_complete g src s u du cut : nonneg g -> Inv g src s ->
  In u (fil s) -> poids s u = Some du -> cut < du ->
  (forall v dv, In v (fil s) -> poids s v = Some dv -> du <= dv) ->
  forall t p, walk g src t p -> cost p <= cut ->
  visite s t = true /\ exists dt, poids s t = Some dt /\ dt <= cost p.
Proof. exact (cut_complete g src s u du cut). Qed.
Print Assumptions C06_cut_complete.

(* End to end, what Network.shortest_distance(src, t) returns (forward run stopped on the target, model's own fuel):
   the value is the minimum over permitted walks, and there is no value (the -1 sentinel) exactly when no walk exists *)
Theorem C06_shortest_distance g src t cut : nonneg g -> never_cut cut g src ->
  let s := run (fuel_of g) g (Some t) cut (init src) in
  (forall d, poids s t = Some d ->
     (exists p, walk g src t p /\ cost p == d) /\ (forall p, walk g src t p -> d <= cost p)) /\
  (poids s t = None -> forall p, ~ walk g src t p).
Proof. exact (shortest_distance_correct g src t cut). Qed.
Print Assumptions C06_shortest_distance.

(* End to end, one source of Network.all_shortest_distances(cut): the recorded entries are exactly the targets whose true
   distance does not exceed the cut-off, each once, each with its true distance *)
Theorem C06_table g src cut : nonneg g ->
  let s := run (fuel_of g) g None cut (init src) in
  (forall t d, In (t, d) (out s) ->
     d <= cut /\ (exists p, walk g src t p /\ cost p == d) /\ (forall p, walk g src t p -> d <= cost p)) /\
  (forall t p, walk g src t p -> cost p <= cut -> exists d, In (t, d) (out s)) /\
  NoDup (map fst (out s)).
Proof. exact (table_correct g src cut). Qed.
Print Assumptions C06_table.

(* non-vacuity: a graph with a zero weight, a reverse edge and an unreachable node *)
Example C06_nonvacuous :
  let s := run (fuel_of g1) g1 None 1000 (init 0%nat) in
  map (poids s) [0;1;2;3;4]%nat = [Some 0; Some 0; Some 5; Some 5; None].
Proof. vm_compute. reflexivity. Qed.

(* The queue of the search (utils.priority_dict: a dict plus a heap with lazy deletion; heapq abstracted to its contract - heappop
   removes a least element, heappush / heapify keep the multiset).  Invariant: every live (priority, key) pair has an entry in the heap;
   it is established by a rebuild, kept by an insertion / re-prioritisation, and under it pop_smallest returns a live key of least
   (priority, key), always succeeds on a non-empty queue and keeps the invariant - the "extract-min" step the theorems above rely on. *)
From TL Require Proofs.PrioDict.
Theorem C06_queue_pop_is_least (P : Type) (ple : P -> P -> bool) :
  (forall a b, ple a b = true \/ ple b a = true) -> (forall a b c, ple a b = true -> ple b c = true -> ple a c = true) ->
  forall d h k h', PrioDict.Inv P d h -> PrioDict.pops P ple d h k h' ->
  (exists v, PrioDict.lookup P d k = Some v /\ forall k2 v2, PrioDict.lookup P d k2 = Some v2 -> PrioDict.ent_le P ple (v, k) (v2, k2) = true)
  /\ PrioDict.Inv P (PrioDict.del P d k) h'.
Proof. exact (PrioDict.pops_spec P ple). Qed.
Print Assumptions C06_queue_pop_is_least.
Theorem C06_queue_pop_total (P : Type) (ple : P -> P -> bool) :
  (forall a b, ple a b = true \/ ple b a = true) -> (forall a b c, ple a b = true -> ple b c = true -> ple a c = true) ->
  forall d h, PrioDict.Inv P d h -> d <> nil -> exists k h', PrioDict.pops P ple d h k h'.
Proof. exact (PrioDict.pops_total P ple). Qed.
Print Assumptions C06_queue_pop_total.
Theorem C06_queue_set_keeps (P : Type) d h k v : PrioDict.Inv P d h -> PrioDict.Inv P (PrioDict.set P d k v) ((v, k) :: h)%list.
Proof. exact (PrioDict.inv_push P d h k v). Qed.
Theorem C06_queue_rebuild (P : Type) d : PrioDict.Inv P d (PrioDict.items_heap P d).
Proof. exact (PrioDict.inv_rebuild P d). Qed.
Print Assumptions C06_queue_set_keeps.
