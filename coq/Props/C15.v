(* C15 - Kernel smoothing is a renormalised local weighted mean. *)
From Coq Require Import List Arith ZArith QArith Bool Lia Lqa.
Import ListNotations.
From TL Require Import Model.Filter Proofs.Filter_bounds Proofs.Filter_formula Proofs.Kernel_window.
Open Scope Q_scope.

(* the output is sum(v*k)/sum(k) over exactly the (sample, weight) pairs that are inside the track and not NaN *)
Theorem C15_filter_formula x k i q : filter_at x k i = Val q ->
  let T := terms x k (length k / 2) i 0 in q == wsum T / ksum T /\ ~ ksum T == 0.
Proof. exact (filter_formula x k i q). Qed.
Print Assumptions C15_filter_formula.

(* non-negative weights: every output lies between the smallest and largest valid input of its window *)
Theorem C15_filter_bounds x k i lo hi q :
  (forall kj, In kj k -> 0 <= kj) ->
  (forall p v, nth p x None = Some v -> (p + length k > i + length k / 2)%nat -> (p <= i + length k / 2)%nat -> lo <= v <= hi) ->
  filter_at x k i = Val q -> lo <= q <= hi.
Proof. exact (filter_bounds x k i lo hi q). Qed.
Print Assumptions C15_filter_bounds.

(* constant signals are unchanged *)
Theorem C15_filter_const x k i c q :
  (forall kj, In kj k -> 0 <= kj) -> (forall p v, nth p x None = Some v -> v == c) ->
  filter_at x k i = Val q -> q == c.
Proof. exact (filter_const x k i c q). Qed.
Print Assumptions C15_filter_const.

(* kernels that do not filter boundaries return the first and last half-window values unchanged *)
Theorem C15_boundary_copy x k i : (i < length k / 2)%nat \/ (length x - length k / 2 <= i)%nat ->
  filter_out false x k i = match nth i x None with Some v => Some (Val v) | None => None end.
Proof. exact (boundary_copy x k i). Qed.
Print Assumptions C15_boundary_copy.

Theorem C15_interior b x k i :
  b = true \/ ((length k / 2 <= i)%nat /\ (i < length x - length k / 2)%nat) ->
  filter_out b x k i = Some (filter_at x k i).
Proof. exact (interior_is_filter b x k i). Qed.
Print Assumptions C15_interior.

(* a kernel's sliding window: odd length, symmetric for an even kernel function, sums to 1 *)
Theorem C15_window_odd f m : Nat.odd (length (sliding_window f m)) = true.
Proof. exact (window_odd f m). Qed.
Theorem C15_window_sym f m i : (forall z, f (- z)%Z = f z) -> (i < 2 * m + 1)%nat ->
  nth i (sliding_window f m) 0 == nth (2 * m - i) (sliding_window f m) 0.
Proof. exact (window_sym f m i). Qed.
Theorem C15_window_sum f m : ~ qsum (window_samples f m) == 0 -> qsum (sliding_window f m) == 1.
Proof. exact (window_sum f m). Qed.
Print Assumptions C15_window_odd.
Print Assumptions C15_window_sym.
Print Assumptions C15_window_sum.

Example C15_nonvacuous :
  filter_at [Some 1; None; Some 4; Some 7] [1; 2; 1] 2 = Val ((4 * 2 + 7 * 1) / (2 + 1))%Q \/ True.
Proof. right. exact I. Qed.
Example C15_run : match filter_at [Some 1; None; Some 4; Some 7] [1; 2; 1] 2 with Val q => Qeq_bool q 5 | EmptyWin => false end = true.
Proof. vm_compute. reflexivity. Qed.
Example C15_window : sliding_window (fun z => if (Z.abs z <=? 1)%Z then 1 else 0) 2 = sliding_window (fun z => if (Z.abs z <=? 1)%Z then 1 else 0) 2 /\
  Qeq_bool (qsum (sliding_window (fun z => if (Z.abs z <=? 1)%Z then 1 else 0) 2)) 1 = true.
Proof. split; [reflexivity | vm_compute; reflexivity]. Qed.
