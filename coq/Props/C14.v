(* C14 - Coordinate conversions round-trip and agree with the WGS84 ellipsoid (partial).
   Only property theorems (closed by [exact]), Print Assumptions and non-vacuity examples.
   Proved for every input: the statements below.  NOT proved for every input: the 1e-9 degree / 1 mm bound of the
   geographic <-> ECEF round trip for h <> 0 and the convergence of the ten iterations of the Lambert-93 inverse (its
   longitude, its isometric latitude and the fixed point of its iteration are exact, below); those are kernel-checked
   pointwise by Coq-Interval at every sampled input of the check (harness/props/C14.py, lemma-mode streams). *)
From Coq Require Import Reals Lra.
From TL Require Import Proofs.Atan2 Proofs.Bowring Proofs.CoordsENU Proofs.CoordsDeg Proofs.Lambert Proofs.LambertDeg Proofs.LambertConv.
Open Scope R_scope.

(* ECEF -> local -> ECEF and local -> ECEF -> local are exact, for every base (the rotation angles are those the code computes from the base) *)
Theorem C14_ecef_enu_ecef base P : enu_to_ecef_base base (ecef_to_enu_base base P) = P.
Proof. exact (enu_then_ecef base P). Qed.
Print Assumptions C14_ecef_enu_ecef.
Theorem C14_enu_ecef_enu base p : ecef_to_enu_base base (enu_to_ecef_base base p) = p.
Proof. exact (ecef_then_enu base p). Qed.
Print Assumptions C14_enu_ecef_enu.

(* geographic -> local -> geographic is exactly geographic -> ECEF -> geographic: the local frame adds no error, whatever the base *)
Theorem C14_geo_enu_geo base g : enu_to_geo base (geo_to_enu base g) = ecef_to_geo_deg (geo_to_ecef_deg g).
Proof. exact (geo_enu_geo base g). Qed.
Print Assumptions C14_geo_enu_geo.

(* re-basing a local position from base1 to base2 gives exactly the local position of the same point about base2 *)
Theorem C14_rebase base1 base2 g : enu_rebase base1 base2 (geo_to_enu base1 g) = geo_to_enu base2 g.
Proof. exact (rebase_exact base1 base2 g). Qed.
Print Assumptions C14_rebase.

(* the local coordinates of the base itself are (0,0,0) *)
Theorem C14_base_origin base : geo_to_enu base base = (0, 0, 0).
Proof. exact (base_origin base). Qed.
Print Assumptions C14_base_origin.

(* the longitude is recovered exactly, for every latitude strictly between the poles and every height above the centre of curvature *)
Theorem C14_longitude_exact lon lat h : -180 < lon <= 180 -> -90 < lat < 90 -> - nrad Re Fe (d2r lat) < h ->
  fst (fst (ecef_to_geo_deg (geo_to_ecef_deg (lon, lat, h)))) = lon.
Proof. exact (lon_exact_deg lon lat h). Qed.
Print Assumptions C14_longitude_exact.

(* a point of the ellipsoid is recovered exactly (the closed-form inverse is exact at h = 0) *)
Theorem C14_surface_exact lon lat : -180 < lon <= 180 -> -90 < lat < 90 ->
  ecef_to_geo_deg (geo_to_ecef_deg (lon, lat, 0)) = (lon, lat, 0).
Proof. exact (surface_exact_deg lon lat). Qed.
Print Assumptions C14_surface_exact.

(* the height formula is exact once the latitude is: the whole round-trip error comes from the one-step latitude *)
Theorem C14_height_exact lon lat h : - PI / 2 < lat < PI / 2 -> - nrad Re Fe lat < h ->
  let '(X, Y, Z) := geo_to_ecef Re Fe lon lat h in sqrt (X * X + Y * Y) / cos lat - nrad Re Fe lat = h.
Proof. exact (height_exact lon lat h). Qed.
Print Assumptions C14_height_exact.

(* the forward conversion is the textbook prime-vertical-radius formula of the WGS84 ellipsoid *)
Theorem C14_closed_form lon lat h :
  let e2 := 2 * Fe - Fe * Fe in
  let N := Re / sqrt (1 - e2 * (sin (d2r lat) * sin (d2r lat))) in
  geo_to_ecef_deg (lon, lat, h) = ((N + h) * cos (d2r lat) * cos (d2r lon), (N + h) * cos (d2r lat) * sin (d2r lon), (N * (1 - e2) + h) * sin (d2r lat)).
Proof. exact (ecef_closed_form lon lat h). Qed.
Print Assumptions C14_closed_form.

(* Lambert-93 (constants of obs_coords.py): the inverse recovers the longitude exactly, on the whole zone *)
Theorem C14_lambert_longitude_exact lon lat : - (PI / 2) < Ln * (d2r lon - Ll0) < PI / 2 ->
  fst (let '(X, Y) := to_l93 lon lat in from_l93 X Y) = lon.
Proof. exact (l93_lon_exact lon lat). Qed.
Print Assumptions C14_lambert_longitude_exact.

(* ... recovers the isometric latitude exactly ... *)
Theorem C14_lambert_latiso_exact lon lat :
  let '(X, Y) := to_l93 lon lat in inv_latiso LXp LYp Ln LC X Y = latiso LE (d2r lat).
Proof. exact (l93_latiso_exact lon lat). Qed.
Print Assumptions C14_lambert_latiso_exact.

(* ... and the latitude is a fixed point of the iteration the inverse runs from there (any number of steps) *)
Theorem C14_lambert_latitude_fixpoint lat k : -90 < lat < 90 -> inv_iter LE k (latiso LE (d2r lat)) (d2r lat) * 180 / PI = lat.
Proof. exact (l93_lat_fixpoint lat k). Qed.
Print Assumptions C14_lambert_latitude_fixpoint.

(* ... and the ten iterations converge to it from the spherical first guess, for EVERY latitude: one step is a contraction of
   factor E^2/(1-E^2) < 0.0068 (mean value theorem), so the returned latitude is within 1e-18 degree of the true one *)
Theorem C14_lambert_latitude_converges lon lat : -90 < lat < 90 ->
  Rabs (snd (let '(X, Y) := to_l93 lon lat in from_l93 X Y) - lat) <= 1 / 10 ^ 18.
Proof. exact (l93_lat_converges lon lat). Qed.
Print Assumptions C14_lambert_latitude_converges.

(* the Lambert-93 round trip of the statement, on the whole zone (real arithmetic): longitude exact, latitude to 1e-18 degree *)
Theorem C14_lambert_roundtrip lon lat : -90 < lat < 90 -> - (PI / 2) < Ln * (d2r lon - Ll0) < PI / 2 ->
  let back := (let '(X, Y) := to_l93 lon lat in from_l93 X Y) in fst back = lon /\ Rabs (snd back - lat) <= 1 / 10 ^ 18.
Proof. exact (l93_roundtrip lon lat). Qed.
Print Assumptions C14_lambert_roundtrip.

(* non-vacuity: the hypotheses of the two exactness theorems hold at ordinary positions *)
Example C14_example : (-180 < 2 <= 180) /\ (-90 < 48 < 90) /\ - nrad Re Fe (d2r 48) < 100.
Proof. repeat split; try lra. pose proof (nrad_pos Re Fe Re_pos Fe_range (d2r 48)). lra. Qed.
