(* C16 - Simplification keeps the end points, only drops fixes, and honours its tolerance. *)
From Coq Require Import List Arith Reals QArith Lra Lia Bool.
Import ListNotations.
From TL Require Import Model.Num Model.SimplifyG Model.Visvalingam Proofs.SimplifyDP Proofs.DistSeg Proofs.DP_bridge Proofs.Visvalingam_ends.

(* Douglas-Peucker on the real instance of the bit-exact model, for every track (duplicates and closed loops included) and
   every positive tolerance: the output is a subsequence of the input, keeps the first and last fix, does not depend on the
   fuel (termination), and every input fix is a vertex of the output or closer than eps to one of its segments *)
Theorem C16_douglas_peucker (eps : R) d0 (L : list P) : (0 < eps)%R -> L <> [] ->
  let out := SimplifyG.dp RNum (length L) eps d0 L in
  SimplifyDP.sub P out L /\ hd d0 out = hd d0 L /\ last out d0 = last L d0 /\
  (forall fuel, (length L <= fuel)%nat -> SimplifyG.dp RNum fuel eps d0 L = out) /\
  (forall p, In p L -> covered P dsegP eps p out).
Proof. exact (dp_generic eps d0 L). Qed.
Print Assumptions C16_douglas_peucker.

(* ... where the distance used is the true distance to the closed segment, degenerate chords (a = b) included *)
Theorem C16_distance_to_segment (x0 y0 x1 y1 x2 y2 : R) :
  let d := distance_to_segment RNum x0 y0 x1 y1 x2 y2 in
  (exists mu, 0 <= mu <= 1 /\ d = R_sqrt.sqrt ((x0 - (x1 + mu * (x2 - x1)))^2 + (y0 - (y1 + mu * (y2 - y1)))^2))%R /\
  forall lam, (0 <= lam <= 1 -> d <= R_sqrt.sqrt ((x0 - (x1 + lam * (x2 - x1)))^2 + (y0 - (y1 + lam * (y2 - y1)))^2))%R.
Proof. exact (distance_to_segment_nearest x0 y0 x1 y1 x2 y2). Qed.
Print Assumptions C16_distance_to_segment.

(* Visvalingam: for every track and tolerance the result is a subsequence of the input with the same first and last fix
   (no error value exists in the model: the loop is total) *)
Theorem C16_visvalingam p eps :
  let r := visvalingam p eps in Visvalingam_ends.sub r p /\ hd Visvalingam.d0 r = hd Visvalingam.d0 p /\ last r Visvalingam.d0 = last p Visvalingam.d0.
Proof. exact (visvalingam_spec p eps). Qed.
Print Assumptions C16_visvalingam.

Example C16_nonvacuous :
  visvalingam [(0,0); (10,0); (10,10); (0,10); (0,0)]%Q 1 = [(0,0); (10,0); (10,10); (0,10); (0,0)]%Q /\
  length (visvalingam [(0,0); (1#10,5); (0,10); (10,10); (20,0)]%Q 100) = 2%nat.
Proof. vm_compute. split; reflexivity. Qed.
