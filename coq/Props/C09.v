(* C09 - Hidden-Markov decoding returns a maximum-likelihood state sequence.
   Only property theorems (closed by [exact]), Print Assumptions and non-vacuity examples. *)
From Coq Require Import List Arith QArith Bool Lia Lqa.
Import ListNotations.
From TL Require Import Model.Hmm Proofs.Hmm_inner Proofs.Hmm_cost Proofs.Hmm_step Proofs.Hmm_opt.
Open Scope Q_scope.

(* For any number of epochs and per-epoch state counts: the decoded sequence takes one candidate of each epoch,
   its total cost (sum of -log likelihoods) is the recorded cost, and no candidate sequence costs less. *)
Theorem C09_viterbi_optimal e0 es :
  nonempty_states e0 es -> bounded_from e0 [] es ->
  let '(path, c) := estimate e0 es in
  valid (e0 :: es) path /\ total_cost e0 es path == c /\
  forall s, valid (e0 :: es) s -> c <= total_cost e0 es s.
Proof. exact (viterbi_optimal e0 es). Qed.
Print Assumptions C09_viterbi_optimal.


Example C09_nonvacuous_run : estimate ex_e0 [ex_e1; ex_e2] = ([0; 0; 1]%nat, fst (snd (estimate ex_e0 [ex_e1; ex_e2]), 0)).
Proof. vm_compute. reflexivity. Qed.
Example C09_nonvacuous_hyp : nonempty_states ex_e0 [ex_e1; ex_e2].
Proof. split; [simpl; lia | repeat constructor; simpl; lia]. Qed.

From Coq Require Import Reals.
From TL Require Import Proofs.Hmm_likelihood.
(* "maximum joint likelihood": over the reals, a smaller sum of -log likelihoods is a larger product of likelihoods and conversely
   (positive factors: the implementation adds 1e-300 before taking the logarithm), so the cost-minimal sequence of
   C09_viterbi_optimal is a likelihood-maximal one *)
Theorem C09_cost_order_is_likelihood_order p q : positive p -> positive q ->
  (lcost p <= lcost q <-> lprod q <= lprod p)%R.
Proof. exact (cost_order_is_likelihood_order p q). Qed.
Print Assumptions C09_cost_order_is_likelihood_order.
