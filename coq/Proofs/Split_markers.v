(* Spike: C11 — the threshold marker is 1 exactly where a tested feature exceeds its threshold
   (any of them in AND mode, all of them in OR mode), NaN values being ignored *)
From Coq Require Import List Arith Bool Lia.
Import ListNotations.
From TL Require Import Model.Split.

Section M.
Variable V : Type.
Variable leb : V -> V -> bool.

Definition within (p : option V * V) : bool := match fst p with Some x => leb x (snd p) | None => true end.   (* NaN ignored *)
Definition exceeds (p : option V * V) : bool := match fst p with Some x => negb (leb x (snd p)) | None => false end.
Definition valid (p : option V * V) : bool := match fst p with Some _ => true | None => false end.

Lemma and_fold l : forall b,
  fold_left (fun comp '(v, t) => match v with Some x => comp && leb x t | None => comp end) l b = b && forallb within l.
Proof.
  induction l as [|[v t] l IH]; intros b; cbn [fold_left forallb]; [rewrite andb_true_r; reflexivity|].
  rewrite IH. unfold within at 2. cbn [fst snd]. destruct v; [rewrite andb_assoc; reflexivity | reflexivity].
Qed.

Lemma or_fold l : forall b,
  fold_left (fun comp '(v, t) => match v with Some x => comp || leb x t | None => comp end) l b
  = b || existsb (fun p => valid p && within p) l.
Proof.
  induction l as [|[v t] l IH]; intros b; cbn [fold_left existsb]; [rewrite orb_false_r; reflexivity|].
  rewrite IH. unfold valid at 1, within at 1. cbn [fst snd]. destruct v; [rewrite orb_assoc; reflexivity | reflexivity].
Qed.

(* AND mode: marked iff some tested (non-NaN) value exceeds its threshold *)
Theorem marker_and_spec vals thr : marker_and V leb vals thr = existsb exceeds (combine vals thr).
Proof.
  unfold marker_and. rewrite and_fold. cbn [andb]. induction (combine vals thr) as [|[v t] l IH]; [reflexivity|].
  cbn [forallb existsb]. rewrite negb_andb, IH. unfold within, exceeds. cbn [fst snd]. destruct v; reflexivity.
Qed.

(* OR mode: marked iff every tested (non-NaN) value exceeds its threshold *)
Theorem marker_or_spec vals thr :
  marker_or V leb vals thr = forallb (fun p => negb (valid p) || exceeds p) (combine vals thr).
Proof.
  unfold marker_or. rewrite or_fold. cbn [orb]. induction (combine vals thr) as [|[v t] l IH]; [reflexivity|].
  cbn [forallb existsb]. rewrite negb_orb, IH. unfold valid, within, exceeds. cbn [fst snd]. destruct v; reflexivity.
Qed.
End M.
Print Assumptions marker_or_spec.
