(* C01 over the whole operation alphabet of Model/History.v (expressions excepted, see Eval_operate): update, bracket
   assignment, "#DELETE" and single-observation assignment are the three basic operations in disguise, so the invariant and
   the refinement to an ordered name -> column map hold after every history *)
From Coq Require Import List Ascii String Bool Arith ZArith QArith Lia.
Import ListNotations.
From TL Require Import Model.Str Model.Rpn Model.Table Model.Eval Model.Pipeline Model.History
  Proofs.Table_inv Proofs.Table_remove Proofs.Table_set Proofs.Table_history.

Definition acol (sp : list (str * list val)) (n : str) : list val :=
  match find (fun kv => str_eqb (fst kv) n) sp with Some kv => snd kv | None => [] end.

(* which basic operation a call amounts to, decided on the abstract map alone *)
Definition xcompile_a (sz : nat) (sp : list (str * list val)) (o : xop) : option op :=
  match o with
  | XCreate n i => Some (Create n i)
  | XRemove n | XDelete n => Some (Remove n)
  | XSetCol n c => Some (SetCol n c)
  | XUpdate n i => if mem n sp then (if (sz =? 0)%nat then None else Some (SetCol n (icol sz i))) else None
  | XSetItem n i => if mem n sp then (if (sz =? 0)%nat then None else Some (SetCol n (icol sz i)))
                    else if is_virtual n then None else Some (Create n i)
  | XSetObs n k v => if is_coord n then None else if mem n sp then (if (k <? sz)%nat then Some (SetCol n (set_nth (acol sp n) k v)) else None) else None
  | XAddFun n c => if is_virtual n then None else if mem n sp then Some (SetCol n c) else Some (Create n (IList c))
  | XExpr _ => None
  end.

(* calls outside the quantifier: list initialisers shorter than the track (they raise half-way), single-observation writes to
   a coordinate (they change x y z, not the table), expressions (Eval_operate) *)
Definition xvalid (sz : nat) (o : xop) : bool :=
  match o with
  | XCreate _ (IList l) | XUpdate _ (IList l) | XSetItem _ (IList l) => (sz <=? List.length l)%nat
  | XSetCol _ c | XAddFun _ c => (List.length c =? sz)%nat
  | XSetObs n _ _ => negb (is_coord n)
  | XExpr _ => false
  | _ => true
  end.

Lemma set_nth_length {A} : forall (l : list A) i v, List.length (set_nth l i v) = List.length l.
Proof. induction l as [|a l IH]; intros [|i] v; cbn; auto. Qed.

Lemma icol_length sz i : (match i with IList l => sz <= List.length l | _ => True end)%nat -> List.length (icol sz i) = sz.
Proof. destruct i as [v|l]; cbn [icol]; intros H; [apply repeat_length | apply firstn_length_le; exact H]. Qed.

Lemma lookup_mem t n : Inv t -> (mem n (abs t) = true <-> exists i, lookup (dico t) n = Some i).
Proof.
  intros HI. rewrite mem_abs. split.
  - intros Hin. assert (H : has_af t n = true \/ True) by (right; exact I).
    destruct (lookup (dico t) n) as [i|] eqn:E; [exists i; reflexivity|]. apply lookup_none_notin in E. contradiction.
  - intros [i Hi]. eapply lookup_some_in. exact Hi.
Qed.

Lemma acol_abs t n : In n (names t) -> acol (abs t) n = col_of t n.
Proof.
  unfold acol, abs. induction (names t) as [|m l IH]; intros Hin; [destruct Hin|]. cbn [map find fst].
  destruct (str_eqb m n) eqn:E; [apply str_eqb_true in E; subst; reflexivity|].
  destruct Hin as [->|Hin]; [rewrite str_eqb_refl in E; discriminate | apply IH; exact Hin].
Qed.

Lemma is_coord_false n : is_coord n = false -> str_eqb n (s_ "x") = false /\ str_eqb n (s_ "y") = false /\ str_eqb n (s_ "z") = false.
Proof. unfold is_coord. intros H. apply orb_false_elim in H. destruct H as [H Hz]. apply orb_false_elim in H. tauto. Qed.

Definition xcompile (t : track) (o : xop) : option op := xcompile_a (size t) (abs t) o.

Lemma xstep_compile t o : Inv t -> xvalid (size t) o = true ->
  xstep t o = (match xcompile t o with Some b => step t b | None => t end) /\
  (forall b, xcompile t o = Some b -> valid_op (size t) b = true).
Proof.
  intros HI Hv. unfold xstep, xcompile. destruct o as [n i|n|n|n c|n i|n i|n k v|n c|s]; cbn [xapply xcompile_a xvalid] in *.
  - split; [reflexivity|]. intros b [= <-]. destruct i; exact Hv.
  - split; [reflexivity|]. intros b [= <-]. reflexivity.
  - split; [reflexivity|]. intros b [= <-]. reflexivity.
  - split; [reflexivity|]. intros b [= <-]. exact Hv.
  - (* update *)
    unfold update_af. destruct (mem n (abs t)) eqn:M.
    + apply (lookup_mem t n HI) in M. destruct M as [j Hj].
      assert (Hh : has_af t n = true) by (unfold has_af; rewrite Hj; reflexivity). rewrite Hh, Hj. cbn [negb].
      destruct (size t =? 0)%nat; [split; [reflexivity | discriminate]|].
      split; [reflexivity|]. intros b [= <-]. cbn [valid_op]. apply Nat.eqb_eq. apply icol_length. destruct i; [exact I | apply Nat.leb_le; exact Hv].
    + assert (Hl : lookup (dico t) n = None).
      { destruct (lookup (dico t) n) as [j|] eqn:E; [|reflexivity]. assert (mem n (abs t) = true) by (apply (lookup_mem t n HI); exists j; exact E). congruence. }
      rewrite Hl. split; [|discriminate]. destruct (negb (has_af t n)); [reflexivity|]. destruct (size t =? 0)%nat; reflexivity.
  - (* bracket assignment *)
    destruct (mem n (abs t)) eqn:M.
    + apply (lookup_mem t n HI) in M. destruct M as [j Hj].
      assert (Hh : has_af t n = true) by (unfold has_af; rewrite Hj; reflexivity). rewrite Hh. unfold update_af. rewrite Hh, Hj. cbn [negb].
      destruct (size t =? 0)%nat; [split; [reflexivity | discriminate]|].
      split; [reflexivity|]. intros b [= <-]. cbn [valid_op]. apply Nat.eqb_eq. apply icol_length. destruct i; [exact I | apply Nat.leb_le; exact Hv].
    + assert (Hl : lookup (dico t) n = None).
      { destruct (lookup (dico t) n) as [j|] eqn:E; [|reflexivity]. assert (mem n (abs t) = true) by (apply (lookup_mem t n HI); exists j; exact E). congruence. }
      unfold has_af. rewrite Hl. destruct (is_virtual n) eqn:Vn.
      * unfold update_af, has_af. rewrite Hl, Vn. cbn [negb]. split; [|discriminate]. destruct (size t =? 0)%nat; reflexivity.
      * split; [reflexivity|]. intros b [= <-]. destruct i; exact Hv.
  - (* single observation *)
    apply negb_true_iff in Hv. rewrite Hv. destruct (is_coord_false n Hv) as [Ex [Ey Ez]].
    unfold set_obs. rewrite Ex, Ey, Ez.
    destruct (mem n (abs t)) eqn:M.
    + pose proof M as M'. apply (lookup_mem t n HI) in M. destruct M as [j Hj]. rewrite Hj.
      assert (Hin : In n (names t)) by (apply mem_abs; exact M').
      assert (Hcol : acol (abs t) n = map (fun f => nth j f None) (feats t)).
      { rewrite (acol_abs t n Hin). unfold col_of. rewrite (get_af_nonvirtual t n (inv_novirt t HI n Hin)), Hj. reflexivity. }
      destruct (Nat.leb_spec (size t) k) as [L|L].
      * assert (E : (k <? size t)%nat = false) by (apply Nat.ltb_ge; exact L). rewrite E. split; [reflexivity | discriminate].
      * assert (E : (k <? size t)%nat = true) by (apply Nat.ltb_lt; exact L). rewrite E, Hcol. split; [reflexivity|].
        intros b [= <-]. cbn [valid_op]. apply Nat.eqb_eq. rewrite set_nth_length, map_length. apply (inv_nobs t HI).
    + assert (Hl : lookup (dico t) n = None).
      { destruct (lookup (dico t) n) as [j|] eqn:E; [|reflexivity]. assert (mem n (abs t) = true) by (apply (lookup_mem t n HI); exists j; exact E). congruence. }
      rewrite Hl. split; [|discriminate]. destruct (size t <=? k)%nat; reflexivity.
  - (* feature computed by a function *)
    destruct (is_virtual n) eqn:Vn; [split; [reflexivity | discriminate]|].
    destruct (mem n (abs t)) eqn:M.
    + apply (lookup_mem t n HI) in M. destruct M as [j Hj].
      assert (Hh : has_af t n = true) by (unfold has_af; rewrite Hj; reflexivity). rewrite Hh.
      split; [reflexivity|]. intros b [= <-]. exact Hv.
    + assert (Hl : lookup (dico t) n = None).
      { destruct (lookup (dico t) n) as [j|] eqn:E; [|reflexivity]. assert (mem n (abs t) = true) by (apply (lookup_mem t n HI); exists j; exact E). congruence. }
      assert (Hh : has_af t n = false) by (unfold has_af; rewrite Hl; exact Vn). rewrite Hh.
      split; [reflexivity|]. intros b [= <-]. cbn [valid_op]. apply Nat.eqb_eq in Hv. apply Nat.leb_le. lia.
  - discriminate.
Qed.

Lemma xstep_inv t o : Inv t -> xvalid (size t) o = true -> Inv (xstep t o) /\ size (xstep t o) = size t.
Proof.
  intros HI Hv. destruct (xstep_compile t o HI Hv) as [E Hb]. rewrite E.
  destruct (xcompile t o) as [b|]; [apply step_inv; [exact HI | apply Hb; reflexivity] | split; [exact HI | reflexivity]].
Qed.

(* every observation carries exactly one value per listed feature, names are distinct, indices are 0..k-1, after ANY history *)
Theorem xhistory_inv ops : forall t, Inv t -> forallb (xvalid (size t)) ops = true ->
  Inv (fold_left xstep ops t) /\ size (fold_left xstep ops t) = size t.
Proof.
  induction ops as [|o ops IH]; intros t HI Hv; [split; [assumption | reflexivity]|].
  cbn [forallb] in Hv. apply andb_prop in Hv. destruct Hv as [Hv1 Hv2].
  destruct (xstep_inv t o HI Hv1) as [HI' Hs]. cbn [fold_left].
  destruct (IH (xstep t o) HI') as [HI'' Hs']; [rewrite Hs; assumption|]. split; [assumption | congruence].
Qed.

(* the abstract map after a call: what the corresponding basic operation does to it *)
Definition xspec_step (sz : nat) (sp : list (str * list val)) (o : xop) : list (str * list val) :=
  match xcompile_a sz sp o with Some b => spec_step sz sp b | None => sp end.

Theorem xstep_refines t o : Inv t -> xvalid (size t) o = true -> abs (xstep t o) = xspec_step (size t) (abs t) o.
Proof.
  intros HI Hv. destruct (xstep_compile t o HI Hv) as [E Hb]. rewrite E. unfold xspec_step. fold (xcompile t o).
  destruct (xcompile t o) as [b|]; [apply step_refines; [exact HI | apply Hb; reflexivity] | reflexivity].
Qed.

(* reading a feature returns the values last written under that name; deleting never alters what is read under the others *)
Theorem xhistory_refines ops : forall t, Inv t -> forallb (xvalid (size t)) ops = true ->
  abs (fold_left xstep ops t) = fold_left (xspec_step (size t)) ops (abs t).
Proof.
  induction ops as [|o ops IH]; intros t HI Hv; [reflexivity|].
  cbn [forallb] in Hv. apply andb_prop in Hv. destruct Hv as [Hv1 Hv2].
  destruct (xstep_inv t o HI Hv1) as [HI' Hs]. cbn [fold_left].
  rewrite IH; [|assumption | rewrite Hs; assumption]. rewrite Hs, xstep_refines by assumption. reflexivity.
Qed.

(* frame: coordinates and timestamps are untouched by every call that does not name a coordinate *)
Definition xname (o : xop) : str := match o with XCreate n _ | XRemove n | XDelete n | XSetCol n _ | XUpdate n _ | XSetItem n _ | XSetObs n _ _ | XAddFun n _ => n | XExpr s => s end.

Lemma step_coords t b : (match b with Create n _ | Remove n | SetCol n _ => is_coord n end) = false ->
  xs (step t b) = xs t /\ ys (step t b) = ys t /\ zs (step t b) = zs t /\ ts (step t b) = ts t.
Proof.
  intros Hc. unfold step. destruct b as [n i|n|n c]; cbn [apply].
  - unfold create_af. destruct (is_virtual n); [auto|]. destruct (size t =? 0)%nat; [auto|]. destruct (has_af t n); [auto|].
    destruct (_ <? _)%nat; cbn; auto.
  - unfold remove_af. destruct (negb (has_af t n)); [auto|]. destruct (lookup (dico t) n); cbn; auto.
  - destruct (is_coord_false n Hc) as [Ex [Ey Ez]]. unfold set_col. rewrite Ex, Ey, Ez. destruct (lookup (dico t) n); cbn; auto.
Qed.

Theorem xhistory_frame ops : forall t, Inv t -> forallb (xvalid (size t)) ops = true ->
  forallb (fun o => negb (is_coord (xname o))) ops = true ->
  let t' := fold_left xstep ops t in xs t' = xs t /\ ys t' = ys t /\ zs t' = zs t /\ ts t' = ts t.
Proof.
  induction ops as [|o ops IH]; intros t HI Hv Hc; [cbn; auto|].
  cbn [forallb] in Hv, Hc. apply andb_prop in Hv. destruct Hv as [Hv1 Hv2]. apply andb_prop in Hc. destruct Hc as [Hc1 Hc2].
  apply negb_true_iff in Hc1.
  destruct (xstep_inv t o HI Hv1) as [HI' Hs]. cbn [fold_left]. cbv zeta.
  destruct (IH (xstep t o) HI' ltac:(rewrite Hs; exact Hv2) Hc2) as [A [B [C D]]]. cbv zeta in A, B, C, D.
  destruct (xstep_compile t o HI Hv1) as [E _].
  assert (F : xs (xstep t o) = xs t /\ ys (xstep t o) = ys t /\ zs (xstep t o) = zs t /\ ts (xstep t o) = ts t).
  { rewrite E. destruct (xcompile t o) as [b|] eqn:Eb; [|auto]. apply step_coords.
    unfold xcompile in Eb. destruct o as [n i|n|n|n c|n i|n i|n k v|n c|s]; cbn [xcompile_a xname] in *.
    - injection Eb as <-. exact Hc1.
    - injection Eb as <-. exact Hc1.
    - injection Eb as <-. exact Hc1.
    - injection Eb as <-. exact Hc1.
    - destruct (mem n (abs t)); [|discriminate]. destruct (size t =? 0)%nat; [discriminate|]. injection Eb as <-. exact Hc1.
    - destruct (mem n (abs t)); [destruct (size t =? 0)%nat; [discriminate|]; injection Eb as <-; exact Hc1|].
      destruct (is_virtual n); [discriminate|]. injection Eb as <-. exact Hc1.
    - rewrite Hc1 in Eb. destruct (mem n (abs t)); [|discriminate]. destruct (k <? size t)%nat; [|discriminate]. injection Eb as <-. exact Hc1.
    - destruct (is_virtual n); [discriminate|]. destruct (mem n (abs t)); injection Eb as <-; exact Hc1.
    - discriminate. }
  destruct F as [F1 [F2 [F3 F4]]]. repeat split; congruence.
Qed.
Print Assumptions xhistory_inv.
Print Assumptions xhistory_refines.
Print Assumptions xhistory_frame.
