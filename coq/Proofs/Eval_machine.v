From Coq Require Import List Ascii String Bool Arith ZArith QArith Lia.
Import ListNotations.
From TL Require Import Model.Str Model.Rpn Model.Table Model.Eval Model.Pipeline
                       Proofs.Rpn_parse Proofs.Table_inv Proofs.Table_set Proofs.Eval_write Proofs.Eval_sem.

Definition coords_ok (t : track) : Prop :=
  List.length (ys t) = Table.size t /\ List.length (zs t) = Table.size t /\ List.length (ts t) = Table.size t.

Lemma get_af_length t n col : Inv t -> coords_ok t -> get_af t n = Ok col -> List.length col = Table.size t.
Proof.
  intros HI [Hy [Hz Ht]] H. unfold get_af in H.
  destruct (str_eqb n (s_ "x")); [injection H as <-; reflexivity|].
  destruct (str_eqb n (s_ "y")); [injection H as <-; assumption|].
  destruct (str_eqb n (s_ "z")); [injection H as <-; assumption|].
  destruct (str_eqb n (s_ "t")); [injection H as <-; assumption|].
  destruct (str_eqb n (s_ "timestamp")); [discriminate|].
  destruct (str_eqb n (s_ "idx")); [injection H as <-; rewrite map_length, seq_length; reflexivity|].
  destruct (lookup (dico t) n); [|discriminate]. injection H as <-. rewrite map_length. apply (inv_nobs _ HI).
Qed.

Lemma mapM_length {A B} (f : A -> res B) : forall l r, mapM f l = Ok r -> List.length r = List.length l.
Proof.
  induction l as [|a l IH]; intros r H; simpl in H; [injection H as <-; reflexivity|].
  destruct (f a); [|discriminate]. simpl in H. destruct (mapM f l) as [bs|]; [|discriminate]. simpl in H.
  injection H as <-. simpl. f_equal. apply IH. reflexivity.
Qed.
Lemma zipM_length f a b r : zipM f a b = Ok r -> List.length r = Nat.min (List.length a) (List.length b).
Proof. unfold zipM. intros H. apply mapM_length in H. rewrite H. apply combine_length. Qed.

(* t' extends t with temporaries numbered in [k, k') *)
Record Ext (t t' : track) (k k' : nat) : Prop := {
  e_inv : Inv t';
  e_size : Table.size t' = Table.size t;
  e_coords : xs t' = xs t /\ ys t' = ys t /\ zs t' = zs t /\ ts t' = ts t;
  e_old : forall m, has_af t m = true -> has_af t' m = true /\ get_af t' m = get_af t m;
  e_new : forall m, has_af t m = false -> has_af t' m = true -> exists j, (k <= j < k')%nat /\ m = temp_name j;
  e_names : exists tmps, names t' = names t ++ tmps /\ forall m, In m tmps -> exists j, (k <= j < k')%nat /\ m = temp_name j
}.

Definition fresh_from (t : track) (k : nat) : Prop := forall j, (k <= j)%nat -> has_af t (temp_name j) = false.

Lemma ext_refl t k k' : Inv t -> Ext t t k k'.
Proof.
  intros HI. constructor; auto.
  - intros m H H'. congruence.
  - exists []. rewrite app_nil_r. split; [reflexivity | intros m []].
Qed.

Lemma ext_trans t t1 t2 k k1 k2 : (k <= k1)%nat -> (k1 <= k2)%nat -> Ext t t1 k k1 -> Ext t1 t2 k1 k2 -> Ext t t2 k k2.
Proof.
  intros H1 H2 [I1 S1 [X1 [Y1 [Z1 T1]]] O1 N1 [tm1 [M1 F1]]] [I2 S2 [X2 [Y2 [Z2 T2]]] O2 N2 [tm2 [M2 F2]]].
  constructor.
  - assumption.
  - congruence.
  - repeat split; congruence.
  - intros m Hm. destruct (O1 m Hm) as [Ha Hb]. destruct (O2 m Ha) as [Hc Hd]. split; [assumption | congruence].
  - intros m Hm Hm2. destruct (has_af t1 m) eqn:E.
    + destruct (N1 m Hm E) as [j [Hj ->]]. exists j. split; [lia | reflexivity].
    + destruct (N2 m E Hm2) as [j [Hj ->]]. exists j. split; [lia | reflexivity].
  - exists (tm1 ++ tm2). split; [rewrite M2, M1, app_assoc; reflexivity|].
    intros m Hm. apply in_app_or in Hm. destruct Hm as [Hm|Hm].
    + destruct (F1 m Hm) as [j [Hj ->]]. exists j. split; [lia | reflexivity].
    + destruct (F2 m Hm) as [j [Hj ->]]. exists j. split; [lia | reflexivity].
Qed.

Lemma fresh_ext t t' k k' : fresh_from t k -> Ext t t' k k' -> (k <= k')%nat -> fresh_from t' k'.
Proof.
  intros Hf HE Hk j Hj. destruct (has_af t' (temp_name j)) eqn:E; [|reflexivity].
  destruct (e_new _ _ _ _ HE (temp_name j) (Hf j ltac:(lia)) E) as [i [Hi Heq]].
  apply temp_name_inj in Heq. lia.
Qed.

(* relation between a stack item and a denotation, in table t *)
Definition irel (t : track) (it : item) (d : dval) : Prop :=
  match d with
  | DS v => item_has_af t it = false /\ item_isfloat it = Ok true /\ item_float it = Ok v
  | DC col => exists n, it = SStr n /\ has_af t n = true /\ parse_lit n = None /\ get_af t n = Ok col
  end.

Lemma irel_ext t t' k k' it d : Ext t t' k k' -> fresh_from t k -> irel t it d ->
  (match it with SStr s => parse_lit s <> None -> True | _ => True end) -> irel t' it d.
Proof.
  intros HE Hf H _. destruct d as [v|col].
  - destruct H as [Ha [Hb Hc]]. split; [|split; assumption].
    destruct it as [s| |]; try reflexivity. simpl in *.
    destruct (has_af t' s) eqn:E; [|reflexivity].
    destruct (e_new _ _ _ _ HE s Ha E) as [j [_ ->]]. simpl in Hb. discriminate.
  - destruct H as [n [-> [Ha [Hb Hc]]]]. exists n. destruct (e_old _ _ _ _ HE n Ha) as [H1 H2].
    split; [reflexivity|]. split; [assumption|]. split; [assumption | congruence].
Qed.

Lemma has_af_names t m : has_af t m = true <-> In m (names t) \/ is_virtual m = true.
Proof.
  unfold has_af. destruct (lookup (dico t) m) as [i|] eqn:E.
  - split; [intros _; left|reflexivity]. destruct (In_dec (list_eq_dec ascii_dec) m (names t)) as [H|H]; [assumption|].
    apply lookup_none_notin in H. congruence.
  - apply lookup_none_notin in E. split; [intros H; right; assumption | intros [H|H]; [contradiction | assumption]].
Qed.

(* writing a fresh temporary column *)
Lemma write_temp t k compute col :
  Inv t -> coords_ok t -> Table.size t <> 0%nat -> fresh_from t k ->
  (forall t1, create_af t (temp_name k) (IScalar (Some 0%Q)) = Ok t1 -> compute t1 = Ok col) ->
  List.length col = Table.size t ->
  exists t', write_out t (temp_name k) compute = Ok t' /\ Ext t t' k (S k) /\ coords_ok t' /\
             has_af t' (temp_name k) = true /\ get_af t' (temp_name k) = Ok col.
Proof.
  intros HI Hco Hs Hf Hcomp Hlen.
  pose proof (Hf k (le_n _)) as Hfr.
  destruct (create_new_ok t (temp_name k) (Some 0%Q) Hfr Hs) as [t1 Hc].
  destruct (write_out_spec t (temp_name k) compute col t1 HI Hfr Hs Hc (Hcomp t1 Hc) Hlen)
    as [t' [Hw [HI' [Hn [Hsz [Hx [Hy [Hz [Ht [Hg Hfrm]]]]]]]]]].
  exists t'. split; [assumption|].
  assert (Hhas : has_af t' (temp_name k) = true) by (apply has_af_names; left; rewrite Hn; apply in_or_app; right; left; reflexivity).
  split; [|split; [|split; assumption]].
  - constructor; auto.
    + intros m Hm. assert (Hne : m <> temp_name k) by (intros ->; congruence).
      split; [|apply Hfrm; assumption]. apply has_af_names. apply has_af_names in Hm.
      destruct Hm as [Hm|Hm]; [left; rewrite Hn; apply in_or_app; left; assumption | right; assumption].
    + intros m Hm Hm'. apply has_af_names in Hm'. destruct Hm' as [Hm'|Hm'].
      * rewrite Hn in Hm'. apply in_app_or in Hm'. destruct Hm' as [Hm'|[<-|[]]].
        -- exfalso. assert (has_af t m = true) by (apply has_af_names; left; assumption). congruence.
        -- exists k. split; [lia | reflexivity].
      * exfalso. assert (has_af t m = true) by (apply has_af_names; right; assumption). congruence.
    + exists [temp_name k]. split; [assumption|]. intros m [<-|[]]. exists k. split; [lia | reflexivity].
  - destruct Hco as [H1 [H2 H3]]. unfold coords_ok. rewrite Hy, Hz, Ht, Hsz. auto.
Qed.

(* creating a fresh temporary directly from a list (aggregating functions) *)
Lemma create_temp t k col :
  Inv t -> coords_ok t -> Table.size t <> 0%nat -> fresh_from t k -> List.length col = Table.size t ->
  exists t', create_af t (temp_name k) (IList col) = Ok t' /\ Ext t t' k (S k) /\ coords_ok t' /\
             has_af t' (temp_name k) = true /\ get_af t' (temp_name k) = Ok col.
Proof.
  intros HI Hco Hs Hf Hlen. pose proof (Hf k (le_n _)) as Hfr.
  assert (exists t', create_af t (temp_name k) (IList col) = Ok t') as [t' Hc].
  { unfold create_af.
    assert (Hv : is_virtual (temp_name k) = false) by (unfold has_af in Hfr; destruct (lookup (dico t) (temp_name k)); [discriminate | assumption]).
    rewrite Hv, Hfr. destruct (Nat.eqb_spec (Table.size t) 0); [contradiction|].
    rewrite Hlen, Nat.ltb_irrefl. eexists. reflexivity. }
  destruct (create_new_spec t (temp_name k) (IList col) t' HI Hfr Hc) as [HI' [Hn [Hsz [Hg [Hx [Hy [Hz [Ht Hfrm]]]]]]]].
  exists t'. split; [assumption|].
  assert (Hhas : has_af t' (temp_name k) = true) by (apply has_af_names; left; rewrite Hn; apply in_or_app; right; left; reflexivity).
  split; [|split; [|split; [assumption|]]].
  - constructor; auto.
    + intros m Hm. assert (Hne : m <> temp_name k) by (intros ->; congruence).
      split; [|apply Hfrm; assumption]. apply has_af_names. apply has_af_names in Hm.
      destruct Hm as [Hm|Hm]; [left; rewrite Hn; apply in_or_app; left; assumption | right; assumption].
    + intros m Hm Hm'. apply has_af_names in Hm'. destruct Hm' as [Hm'|Hm'].
      * rewrite Hn in Hm'. apply in_app_or in Hm'. destruct Hm' as [Hm'|[<-|[]]].
        -- exfalso. assert (has_af t m = true) by (apply has_af_names; left; assumption). congruence.
        -- exists k. split; [lia | reflexivity].
      * exfalso. assert (has_af t m = true) by (apply has_af_names; right; assumption). congruence.
    + exists [temp_name k]. split; [assumption|]. intros m [<-|[]]. exists k. split; [lia | reflexivity].
  - destruct Hco as [H1 [H2 H3]]. unfold coords_ok. rewrite Hy, Hz, Ht, Hsz. auto.
  - rewrite Hg. f_equal. apply firstn_all2. rewrite Hlen. apply Nat.le_refl.
Qed.
