From Coq Require Import List Arith QArith Bool Lia Lqa.
Import ListNotations.
From TL Require Import Model.Partition Proofs.Partition_opt Proofs.Partition_dp.
Open Scope Q_scope.

Section Main.
Variable m : bool.
Variable N : nat.
Variable cost : tab Q.

(* one diagonal: cells (0,d), (1,1+d), ..., (N-d-1, N-1) *)
Lemma diag_cells d : (2 <= d)%nat -> forall n p D M, (p + n = N - d)%nat -> (d < N)%nat ->
  St m N cost d p D M ->
  let '(D', M') := fold_left (fun DM i => inner m i (i + d) DM) (seq p n) (D, M) in St m N cost d (N - d) D' M'.
Proof.
  intros Hd. induction n as [|n IH]; intros p D M Hpn HdN HS; cbn [seq fold_left].
  - assert (E : p = (N - d)%nat) by lia. subst p. assumption.
  - pose proof (step_cell m N cost d p D M Hd ltac:(lia) HS) as Hstep.
    destruct (inner m p (p + d) (D, M)) as [D1 M1]. apply IH; [lia | assumption | exact Hstep].
Qed.

Lemma St_next d D M : St m N cost d (N - d) D M -> St m N cost (Datatypes.S d) 0 D M.
Proof.
  intros HS a b Hab Hb. destruct (HS a b Hab Hb) as [H1 H2].
  assert (Hiff : done (Datatypes.S d) 0 a b <-> done d (N - d) a b) by (unfold done; lia).
  split; [intros H; apply H1; apply Hiff; assumption | intros H; apply H2; intros H'; apply H; apply Hiff; assumption].
Qed.

Lemma diag_loop_spec d D M : (2 <= d)%nat -> (d < N)%nat -> St m N cost d 0 D M ->
  let '(D', M') := diag_loop m N d (D, M) in St m N cost (Datatypes.S d) 0 D' M'.
Proof.
  intros Hd HdN HS. unfold diag_loop.
  pose proof (diag_cells d Hd (N - d) 0 D M ltac:(lia) HdN HS) as H.
  destruct (fold_left (fun DM i => inner m i (i + d) DM) (seq 0 (N - d)) (D, M)) as [D' M'].
  apply St_next. assumption.
Qed.

Lemma dp_loop : forall n d D M, (2 <= d)%nat -> (d + n = N)%nat -> St m N cost d 0 D M ->
  let '(D', M') := fold_left (fun DM diag => diag_loop m N diag DM) (seq d n) (D, M) in St m N cost N 0 D' M'.
Proof.
  induction n as [|n IH]; intros d D M Hd Hn HS; cbn [seq fold_left].
  - assert (E : d = N) by lia. subst d. assumption.
  - pose proof (diag_loop_spec d D M Hd ltac:(lia) HS) as H.
    destruct (diag_loop m N d (D, M)) as [D1 M1]. apply IH; [lia | lia | exact H].
Qed.

Lemma dp_spec : (2 <= N)%nat -> let '(D, M) := dp m N cost in St m N cost N 0 D M.
Proof.
  intros HN. unfold dp.
  exact (dp_loop (N - 2) 2 cost (fun _ _ => None) (le_n _) ltac:(lia) (S_init m N cost)).
Qed.

(* segmentation.optimalPartition: the list returned is a partition 0 = s0 < ... < N-1 whose cost is optimal
   in the requested direction among all such partitions *)
Theorem optimal_partition_correct : (2 <= N)%nat ->
  let r := optimal_partition m N cost in
  exists l, r = l ++ [(N - 1)%nat] /\ starts 0 (N - 1) l /\
    forall l', starts 0 (N - 1) l' -> dle m (chain_cost cost r) (chain_cost cost (l' ++ [(N - 1)%nat])).
Proof.
  intros HN. cbv zeta. unfold optimal_partition.
  pose proof (dp_spec HN) as H. revert H. destruct (dp m N cost) as [D M]. intros H.
  destruct (H 0%nat (N - 1)%nat ltac:(lia) ltac:(lia)) as [Hok _].
  destruct (Hok ltac:(left; lia)) as [_ [Hopt Hsound]].
  destruct (Hsound N ltac:(lia)) as [Hs Hc].
  exists (backtracking N M 0 (N - 1)). split; [reflexivity|]. split; [assumption|].
  intros l' Hl'.
  assert (Hne : forall i j l, starts i j l -> l <> []) by (intros i j l Hx; destruct Hx; discriminate).
  pose proof (scost_chain cost _ (N - 1)%nat (Hne _ _ _ Hs)) as E1.
  pose proof (scost_chain cost _ (N - 1)%nat (Hne _ _ _ Hl')) as E2.
  pose proof (Hopt l' Hl') as Ho.
  destruct m; simpl in *; lra.
Qed.
End Main.
Print Assumptions optimal_partition_correct.
