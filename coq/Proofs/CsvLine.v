(* One CSV observation line written by the model's writer and read by the model's reader gives back the observation:
   coordinates to half a unit of the last printed digit, the timestamp exactly, whatever the column order and separator. *)
From Coq Require Import List Ascii String ZArith NArith QArith Qabs Bool Lia.
From TL Require Import Model.TextFmt Proofs.Columns Proofs.TimeText Model.CsvText Proofs.FixedText.
Import ListNotations.
Close Scope Z_scope.
Close Scope Q_scope.
Open Scope string_scope.

(* characters that can occur in a printed field *)
Definition fchar (a : ascii) : bool :=
  is_digit a || Ascii.eqb a " " || Ascii.eqb a "-" || Ascii.eqb a "." || Ascii.eqb a ":" || Ascii.eqb a "/".
Definition sep_ok (c : ascii) : bool := negb (fchar c).
Definition differs (c : ascii) (a : ascii) : bool := negb (Ascii.eqb a c).

Lemma fchar_differs c : sep_ok c = true -> forall a, fchar a = true -> differs c a = true.
Proof. intros H a Ha. unfold differs. destruct (Ascii.eqb a c) eqn:E; [|reflexivity]. apply Ascii.eqb_eq in E. subst a. unfold sep_ok in H. rewrite Ha in H. discriminate H. Qed.

(* ------------------------------------------------------------------ split / join *)
Lemma split_acc_last c f cur : str_all (differs c) f = true -> split_acc c f cur = [cur f].
Proof.
  revert cur. induction f as [|a f IH]; intros cur H; [reflexivity|]. cbn in H. apply andb_true_iff in H. destruct H as [H1 H2].
  cbn [split_acc]. unfold differs in H1. destruct (Ascii.eqb a c); [discriminate H1|]. rewrite (IH _ H2). reflexivity.
Qed.
Lemma split_acc_field c f r cur : str_all (differs c) f = true -> split_acc c (f ++ String c r) cur = cur f :: split_acc c r (fun x => x).
Proof.
  revert cur. induction f as [|a f IH]; intros cur H.
  - cbn [append split_acc]. rewrite Ascii.eqb_refl. reflexivity.
  - cbn in H. apply andb_true_iff in H. destruct H as [H1 H2]. cbn [append split_acc]. unfold differs in H1.
    destruct (Ascii.eqb a c); [discriminate H1|]. rewrite (IH _ H2). reflexivity.
Qed.
Lemma split_join c l : l <> [] -> forallb (str_all (differs c)) l = true -> split c (join (String c "") l) = l.
Proof.
  induction l as [|a l IH]; intros Hne H; [congruence|]. cbn in H. apply andb_true_iff in H. destruct H as [H1 H2].
  destruct l as [|b l].
  - cbn [join]. unfold split. apply split_acc_last, H1.
  - change (join (String c "") (a :: b :: l)) with (a ++ String c (join (String c "") (b :: l))).
    unfold split. rewrite (split_acc_field _ _ _ _ H1). f_equal. apply IH; [discriminate | exact H2].
Qed.
Lemma forallb_imp {A} (f g : A -> bool) l : (forall a, f a = true -> g a = true) -> forallb f l = true -> forallb g l = true.
Proof. intros H. induction l as [|a l IH]; cbn; [reflexivity|]. intros E. apply andb_true_iff in E. destruct E as [E1 E2]. rewrite (H _ E1), (IH E2). reflexivity. Qed.
Lemma filter_all {A} (f : A -> bool) l : forallb f l = true -> filter f l = l.
Proof. induction l as [|a l IH]; cbn; [reflexivity|]. intros H. apply andb_true_iff in H. destruct H as [H1 H2]. rewrite H1, (IH H2). reflexivity. Qed.

(* ------------------------------------------------------------------ what a printed field looks like *)
Lemma str_all_lstrip P s : str_all P s = true -> str_all P (lstrip s) = true.
Proof.
  induction s as [|a s IH]; intros H; [reflexivity|]. cbn in H. apply andb_true_iff in H. destruct H as [H1 H2].
  cbn [lstrip]. destruct a as [[|] [|] [|] [|] [|] [|] [|] [|]]; cbn [str_all]; try (rewrite H1, H2; reflexivity). apply IH, H2.
Qed.
Lemma digit_fchar s : str_all is_digit s = true -> str_all fchar s = true.
Proof. apply str_all_imp. intros c H. unfold fchar. rewrite H. reflexivity. Qed.

Lemma body_fchar p n : str_all fchar (body p n) = true.
Proof.
  unfold body. rewrite str_all_app, (digit_fchar _ (digits_of_digits _)). destruct (p =? 0)%nat; [reflexivity|].
  cbn [andb append str_all]. rewrite lpad_rep. apply rep_all; [reflexivity|]. apply digit_fchar, digits_of_digits.
Qed.
Lemma number_fchar w p x : str_all fchar (lstrip (fmt_fixed w p x)) = true.
Proof.
  apply str_all_lstrip. rewrite fmt_fixed_body, lpad_rep. apply rep_all; [reflexivity|]. rewrite str_all_app, body_fchar.
  destruct (x ?= 0)%Q; reflexivity.
Qed.
Lemma number_nonempty w p x : nonempty (lstrip (fmt_fixed w p x)) = true.
Proof.
  rewrite fmt_fixed_body, lpad_rep, lstrip_rep_space.
  assert (B : nonempty (lstrip (body p (round_half_even (Qabs x * inject_Z (10 ^ Z.of_nat p)%Z)%Q))) = true); [|destruct (x ?= 0)%Q; [exact B | reflexivity | exact B]].
  unfold body. destruct (digits_of_head (round_half_even (Qabs x * inject_Z (10 ^ Z.of_nat p)%Z)%Q / 10 ^ Z.of_nat p)%Z) as [c [r [Ec Hc]]].
  rewrite Ec. cbn [append]. rewrite lstrip_nospace; [reflexivity|]. destruct c as [[|] [|] [|] [|] [|] [|] [|] [|]]; try discriminate Hc; reflexivity.
Qed.

Definition stamp_ok (t : stamp) : Prop := day t < 100 /\ month t < 100 /\ year t < 100 * 100 /\ hour t < 100 /\ minute t < 100 /\ sec t < 100.

Lemma digit_is_digit k : k < 10 -> is_digit (digit k) = true.
Proof. intros H. do 10 (destruct k as [|k]; [reflexivity|]). lia. Qed.
Lemma time_fchar t : stamp_ok t -> str_all fchar (string_of_list_ascii (TimeText.print t)) = true.
Proof.
  intros (Hd & Hm & Hy & Hh & Hmi & Hs). unfold TimeText.print, print2, print4. cbn [app string_of_list_ascii str_all].
  assert (D : forall k, k < 10 -> fchar (digit k) = true) by (intros k Hk; unfold fchar; rewrite (digit_is_digit k Hk); reflexivity).
  rewrite !D; [reflexivity|..]; try (apply Nat.mod_upper_bound; lia); try (apply Nat.div_lt_upper_bound; lia).
Qed.

Lemma data_ok w p idU idT x y z t : stamp_ok t ->
  forallb (fun s => str_all fchar s && nonempty s) (data w p idU idT x y z t) = true.
Proof.
  intros Ht. unfold data. rewrite !forallb_app. cbn [forallb]. rewrite !number_fchar, !number_nonempty. cbn [andb].
  destruct idU, idT; cbn [forallb andb]; rewrite ?number_fchar, ?number_nonempty, ?(time_fchar t Ht); reflexivity.
Qed.

(* ------------------------------------------------------------------ the line *)
Definition ids_of (idE idN : nat) (idU idT : option nat) : list nat :=
  [idE; idN] ++ (match idU with Some x => [x] | None => [] end) ++ (match idT with Some x => [x] | None => [] end).
Definition close_to (p : nat) (s : string) (x : Q) : Prop := exists v, parse_fixed s = Some v /\ (Qabs (v - x) <= 1 # (2 * pow10 p))%Q.

Definition count (idU idT : option nat) : nat := 2 + (if isSome idU then 1 else 0) + (if isSome idT then 1 else 0).
Definition printed_in_range (idE idN : nat) (idU idT : option nat) : bool :=
  forallb (fun k => Nat.ltb k (count idU idT)) (printed idE idN idU idT) && Nat.eqb (List.length (printed idE idN idU idT)) (count idU idT).
Lemma printed_in_range_all : all_sat printed_in_range = true.
Proof. vm_compute. reflexivity. Qed.
Lemma data_length w p idU idT x y z t : List.length (data w p idU idT x y z t) = count idU idT.
Proof. destruct idU, idT; reflexivity. Qed.

Lemma parse_lstrip_close p w x : close_to p (lstrip (fmt_fixed w p x)) x.
Proof. destruct (fixed_roundtrip w p x) as [v [H1 H2]]. exists v. rewrite <- parse_fixed_lstrip. split; assumption. Qed.

Lemma read_time_print t : stamp_ok t -> read_time (string_of_list_ascii (TimeText.print t)) = t.
Proof. intros (Hd & Hm & Hy & Hh & Hmi & Hs). unfold read_time. rewrite list_ascii_of_string_of_list_ascii. apply time_roundtrip; assumption. Qed.

Theorem csv_line_roundtrip w p idE idN idU idT c x y z t :
  distinct (ids_of idE idN idU idT) = true ->
  forallb (fun i => Nat.ltb i (List.length (ids_of idE idN idU idT))) (ids_of idE idN idU idT) = true ->
  sep_ok c = true -> stamp_ok t ->
  let fs := read_fields c (line w p idE idN idU idT (String c "") x y z t) in
  close_to p (nth idE fs "") x /\ close_to p (nth idN fs "") y /\
  (forall u, idU = Some u -> close_to p (nth u fs "") z) /\
  (forall k, idT = Some k -> read_time (nth k fs "") = t).
Proof.
  intros Hd Hb Hc Ht fs.
  pose proof (columns_roundtrip idE idN idU idT Hd Hb) as Hok.
  pose proof (data_ok w p idU idT x y z t Ht) as HD.
  pose proof (columns_sat _ printed_in_range_all idE idN idU idT Hd Hb) as Hpr. unfold printed_in_range in Hpr.
  assert (Hfs : fs = fields_out w p idE idN idU idT x y z t).
  { unfold fs, read_fields, line.
    assert (Hall : forallb (fun s => str_all fchar s && nonempty s) (fields_out w p idE idN idU idT x y z t) = true).
    { unfold fields_out. apply forallb_forall. intros s Hs. apply in_map_iff in Hs. destruct Hs as [k [<- Hk]].
      rewrite forallb_forall in HD.
      assert (Hlen : k < List.length (data w p idU idT x y z t)).
      { rewrite data_length. apply andb_true_iff in Hpr. destruct Hpr as [Hpr _]. rewrite forallb_forall in Hpr. apply Nat.ltb_lt, Hpr, Hk. }
      apply HD, nth_In, Hlen. }
    rewrite split_join.
    - apply filter_all. eapply forallb_imp; [|exact Hall]. intros s H. apply andb_true_iff in H. apply H.
    - unfold fields_out, printed, positions. destruct idU, idT; discriminate.
    - eapply forallb_imp; [|exact Hall]. intros s H. apply andb_true_iff in H. destruct H as [H _]. eapply str_all_imp; [|exact H]. apply fchar_differs, Hc. }
  assert (Hnth : forall i, nth i fs "" = nth (nth i (printed idE idN idU idT) 9) (data w p idU idT x y z t) "").
  { intros i. rewrite Hfs. unfold fields_out.
    assert (E9 : "" = (fun k => nth k (data w p idU idT x y z t) "") 9) by (symmetry; apply nth_overflow; rewrite data_length; unfold count; destruct (isSome idU), (isSome idT); cbn; lia).
    set (f := fun k => nth k (data w p idU idT x y z t) "") in *. transitivity (nth i (map f (printed idE idN idU idT)) (f 9)); [rewrite <- E9; reflexivity | apply (map_nth f)]. }
  unfold Columns.ok in Hok. cbv zeta in Hok. apply andb_true_iff in Hok. destruct Hok as [Hok HT]. apply andb_true_iff in Hok. destruct Hok as [Hok HU].
  apply andb_true_iff in Hok. destruct Hok as [HE HN]. apply Nat.eqb_eq in HE, HN.
  repeat split.
  - rewrite Hnth, HE. apply parse_lstrip_close.
  - rewrite Hnth, HN. apply parse_lstrip_close.
  - intros u Eu. subst idU. apply Nat.eqb_eq in HU. rewrite Hnth, HU. apply parse_lstrip_close.
  - intros k Ek. subst idT. apply Nat.eqb_eq in HT. rewrite Hnth, HT. destruct idU; apply (read_time_print t Ht).
Qed.
Print Assumptions csv_line_roundtrip.

(* the hypotheses are satisfiable and the statement is about real lines *)
Example csv_line_example :
  let t := mk 29 2 2020 23 59 59 in
  distinct (ids_of 1 0 (Some 3) (Some 2)) = true /\ sep_ok ";" = true /\ stamp_ok t /\
  read_fields ";" (line 10 3 1 0 (Some 3) (Some 2) ";" (15 # 10) (-30004 # 10000) (1 # 16) t) = ["-3.000"; "1.500"; "29/02/2020 23:59:59"; "0.062"].
Proof. cbv zeta. repeat split; try reflexivity; unfold stamp_ok, mk; cbn; lia. Qed.
