(* C02, surface syntax, part 4: a leading unary minus without parentheses, "-<surface expression>": the first-character rule of the
   unary pass prefixes "0", so the minus applies to the first term of the expression *)
From Coq Require Import List Ascii String Bool Arith Lia.
Import ListNotations.
From TL Require Import Model.Str Model.Rpn Model.Table Model.Eval Model.Pipeline Proofs.Rpn_parse Proofs.Replace Proofs.Surface Proofs.Surface_eval Proofs.Eval_top Proofs.Eval_assign.
Open Scope char_scope.

(* the tree that "0-" ++ print e denotes: the minus is attached to the leftmost term *)
Fixpoint neg_lead (e : expr) : expr :=
  match e with
  | Bin op l r => if Nat.leb (class_of op) 2 then Bin op (neg_lead l) r else Bin "-" (Atom (s_ "0")) e
  | _ => Bin "-" (Atom (s_ "0")) e
  end.
Lemma print_neg_lead e : print (neg_lead e) = "0" :: "-" :: print e.
Proof.
  induction e as [s|op l IHl r IHr|e IH]; cbn [neg_lead print]; try reflexivity.
  destruct (Nat.leb (class_of op) 2); cbn [print]; [rewrite IHl; reflexivity | reflexivity].
Qed.

Definition schar (c : ascii) : bool := nm c || aop c || existsb (Ascii.eqb c) ["("; ")"; "{"; "}"; "@"].
Lemma sprint_chars P y : ppok P -> swf y -> forallb schar (sprintg P y) = true.
Proof.
  intros HP. induction y as [s|op l IHl r IHr|e IH|e IH|b f e IH]; intros Hy; cbn [sprintg]; rewrite ?forallb_app.
  - destruct Hy as [_ [Hs _]]. rewrite forallb_forall in *. intros c Hc. unfold schar. rewrite (Hs c Hc). reflexivity.
  - destruct Hy as [Ho [Hl Hr]]. rewrite (IHl Hl), (IHr Hr). cbn [forallb]. unfold schar at 1. rewrite Ho. rewrite ?orb_true_r. reflexivity.
  - rewrite (IH Hy). reflexivity.
  - rewrite (IH Hy). destruct HP as [[-> | ->] _]; reflexivity.
  - destruct Hy as [Hf He]. rewrite (IH He). destruct (key_facts f Hf) as [_ [Hnm _]].
    assert (Hfc : forallb schar f = true) by (rewrite forallb_forall in *; intros c Hc; unfold schar; rewrite (Hnm c Hc); reflexivity).
    rewrite Hfc. destruct HP as [_ [Ho Hc]]. destruct (Ho b f) as [-> | [-> | ->]]; destruct (Hc b) as [-> | ->]; reflexivity.
Qed.
Lemma sprint_no_eq P y : ppok P -> swf y -> ~ In "=" (sprintg P y).
Proof. intros HP Hy Hin. pose proof (sprint_chars P y HP Hy) as H. rewrite forallb_forall in H. specialize (H _ Hin). discriminate H. Qed.

Section Lead.
Variable x : sx.
Hypothesis Hx : swf x.

Definition okpre (a : str) : Prop := a = ["-"] \/ a = ["0"; "-"].
Lemma pre_last a : okpre a -> a <> [] /\ last a " " = "-".
Proof. intros [-> | ->]; split; try discriminate; reflexivity. Qed.

(* a pass whose pattern cannot start on the final '-' of the prefix, or cannot continue into the expression *)
Lemma R_pre pat rep a P : pat <> [] -> ppok P -> okpre a ->
  (~ In "-" (removelast pat) \/ (forall c, hd_ok c = true -> ~ In c pat)) -> R pat rep a = a ->
  R pat rep (a ++ sprintg P x) = a ++ R pat rep (sprintg P x).
Proof.
  intros Hp HP Ha Hc Hra. rewrite (R_app pat rep Hp a (sprintg P x)); [rewrite Hra; reflexivity|].
  destruct (pre_last a Ha) as [Hne Hl]. destruct Hc as [Hc|Hc].
  - apply no_straddle_last. right. rewrite Hl. exact Hc.
  - apply no_straddle_hd. right. apply Hc. apply hd_sprint; assumption.
Qed.

Lemma hd_ok_not c l : forallb (fun d => negb (hd_ok d)) l = true -> hd_ok c = true -> ~ In c l.
Proof. intros Hl Hc Hin. rewrite forallb_forall in Hl. specialize (Hl c Hin). rewrite Hc in Hl. discriminate. Qed.

(* two-character patterns that are not rewritten *)
Lemma R2_pre a P p1 p2 rep : ppok P -> okpre a -> adjb p1 p2 = false ->
  (p1 <> "-" \/ (hd_ok p1 = false /\ hd_ok p2 = false)) -> contains [p1; p2] a = false ->
  replace [p1; p2] rep (a ++ sprintg P x) = a ++ sprintg P x.
Proof.
  intros HP Ha Hadj Hc Hca. change (replace [p1; p2] rep (a ++ sprintg P x)) with (R [p1; p2] rep (a ++ sprintg P x)).
  rewrite R_pre; [| discriminate | exact HP | exact Ha | | apply R_id; exact Hca].
  - f_equal. apply (R2_id P x p1 p2 rep HP Hx Hadj).
  - destruct Hc as [Hc|[H1 H2]]; [left; cbn; intros [E|[]]; congruence|].
    right. intros c Hcc [E|[E|[]]]; subst c; congruence.
Qed.

Lemma reflex_pre a P : ppok P -> okpre a -> convert_reflex (a ++ sprintg P x) = a ++ sprintg P x.
Proof.
  intros HP Ha. unfold convert_reflex. set (s := a ++ sprintg P x).
  assert (G : forall ops, (forall op, In op ops -> contains (op ++ s_ "=") s = false) ->
    fold_left (fun e op => let pat := op ++ s_ "=" in
      if contains pat e then match split_first pat e with
        | Some (a, rest) => let b := match split_first pat rest with Some (b, _) => b | None => rest end in
                            a ++ s_ "=" ++ a ++ op ++ s_ "(" ++ b ++ s_ ")"
        | None => e end else e) ops s = s).
  { induction ops as [|op ops IH]; intros Hops; [reflexivity|]. cbn [fold_left]. cbv zeta.
    rewrite (Hops op (or_introl eq_refl)). apply IH. intros op' Hin. apply Hops. right. assumption. }
  apply G. intros op _. destruct (contains (op ++ s_ "=") s) eqn:E; [|reflexivity]. exfalso.
  assert (Hin : In "=" s) by (apply (Eval_assign.contains_chars _ s E); apply in_or_app; right; left; reflexivity).
  unfold s in Hin. apply in_app_or in Hin. destruct Hin as [Hin|Hin]; [destruct Ha as [-> | ->]; cbn in Hin; intuition discriminate | exact (sprint_no_eq P x HP Hx Hin)].
Qed.

Theorem preprocess_lead : preprocess ("-" :: sprint x) = Ok ("0" :: "-" :: print (lower x)).
Proof.
  unfold preprocess, sprint, special_op_char.
  change ("-" :: sprintg P0 x) with (["-"] ++ sprintg P0 x).
  assert (A1 : okpre ["-"]) by (left; reflexivity). assert (A2 : okpre ["0"; "-"]) by (right; reflexivity).
  change (replace (s_ "**") (s_ "^") (["-"] ++ sprintg P0 x)) with (replace ["*"; "*"] (s_ "^") (["-"] ++ sprintg P0 x)).
  rewrite (R2_pre ["-"] P0 "*" "*" _ ppok0 A1 eq_refl ltac:(left; discriminate) eq_refl).
  change (replace (s_ ".*") (s_ "!") (["-"] ++ sprintg P0 x)) with (replace ["."; "*"] (s_ "!") (["-"] ++ sprintg P0 x)).
  rewrite (R2_pre ["-"] P0 "." "*" _ ppok0 A1 eq_refl ltac:(left; discriminate) eq_refl).
  change (replace (s_ "{") (s_ "@(") (["-"] ++ sprintg P0 x)) with (R (s_ "{") (s_ "@(") (["-"] ++ sprintg P0 x)).
  rewrite (R_pre (s_ "{") (s_ "@(") ["-"] P0 ltac:(discriminate) ppok0 A1 ltac:(left; cbn; tauto) eq_refl), (pass_lbrace x Hx).
  change (replace (s_ "}") (s_ ")") (["-"] ++ sprintg P1 x)) with (R (s_ "}") (s_ ")") (["-"] ++ sprintg P1 x)).
  rewrite (R_pre (s_ "}") (s_ ")") ["-"] P1 ltac:(discriminate) ppok1 A1 ltac:(left; cbn; tauto) eq_refl), (pass_rbrace x Hx).
  change (replace (s_ ">>") (s_ "&") (["-"] ++ sprintg P2 x)) with (replace [">"; ">"] (s_ "&") (["-"] ++ sprintg P2 x)).
  rewrite (R2_pre ["-"] P2 ">" ">" _ ppok2 A1 eq_refl ltac:(left; discriminate) eq_refl).
  change (replace (s_ "<<") (s_ "$") (["-"] ++ sprintg P2 x)) with (replace ["<"; "<"] (s_ "$") (["-"] ++ sprintg P2 x)).
  rewrite (R2_pre ["-"] P2 "<" "<" _ ppok2 A1 eq_refl ltac:(left; discriminate) eq_refl).
  rewrite (reflex_pre ["-"] P2 ppok2 A1).
  unfold unary_op. cbn [app]. change (Ascii.eqb "-" "-" || Ascii.eqb "-" "+") with true. cbv iota.
  change ("0" :: "-" :: sprintg P2 x) with (["0"; "-"] ++ sprintg P2 x).
  change (replace (s_ "=-") (s_ "=0-") (["0"; "-"] ++ sprintg P2 x)) with (replace ["="; "-"] (s_ "=0-") (["0"; "-"] ++ sprintg P2 x)).
  rewrite (R2_pre ["0"; "-"] P2 "=" "-" _ ppok2 A2 eq_refl ltac:(left; discriminate) eq_refl).
  change (replace (s_ "=+") (s_ "=0+") (["0"; "-"] ++ sprintg P2 x)) with (replace ["="; "+"] (s_ "=0+") (["0"; "-"] ++ sprintg P2 x)).
  rewrite (R2_pre ["0"; "-"] P2 "=" "+" _ ppok2 A2 eq_refl ltac:(left; discriminate) eq_refl).
  change (replace (s_ "(-") (s_ "(0-") (["0"; "-"] ++ sprintg P2 x)) with (R (s_ "(-") (s_ "(0-") (["0"; "-"] ++ sprintg P2 x)).
  rewrite (R_pre (s_ "(-") (s_ "(0-") ["0"; "-"] P2 ltac:(discriminate) ppok2 A2 ltac:(left; cbn; intros [E|[]]; discriminate E) eq_refl), (pass_neg x Hx).
  change (replace (s_ "(+") (s_ "(0+") (["0"; "-"] ++ sprintg P3 x)) with (replace ["("; "+"] (s_ "(0+") (["0"; "-"] ++ sprintg P3 x)).
  rewrite (R2_pre ["0"; "-"] P3 "(" "+" _ ppok3 A2 eq_refl ltac:(left; discriminate) eq_refl).
  change (replace (s_ "--") (s_ "+") (["0"; "-"] ++ sprintg P3 x)) with (replace ["-"; "-"] (s_ "+") (["0"; "-"] ++ sprintg P3 x)).
  rewrite (R2_pre ["0"; "-"] P3 "-" "-" _ ppok3 A2 eq_refl ltac:(right; split; reflexivity) eq_refl).
  change (replace (s_ "++") (s_ "+") (["0"; "-"] ++ sprintg P3 x)) with (replace ["+"; "+"] (s_ "+") (["0"; "-"] ++ sprintg P3 x)).
  rewrite (R2_pre ["0"; "-"] P3 "+" "+" _ ppok3 A2 eq_refl ltac:(left; discriminate) eq_refl).
  change (replace (s_ "+-") (s_ "-") (["0"; "-"] ++ sprintg P3 x)) with (replace ["+"; "-"] (s_ "-") (["0"; "-"] ++ sprintg P3 x)).
  rewrite (R2_pre ["0"; "-"] P3 "+" "-" _ ppok3 A2 eq_refl ltac:(left; discriminate) eq_refl).
  change (replace (s_ "-+") (s_ "-") (["0"; "-"] ++ sprintg P3 x)) with (replace ["-"; "+"] (s_ "-") (["0"; "-"] ++ sprintg P3 x)).
  rewrite (R2_pre ["0"; "-"] P3 "-" "+" _ ppok3 A2 eq_refl ltac:(right; split; reflexivity) eq_refl).
  cbn [bind]. unfold mark_functions. change (sprintg P3 x) with (sprintg (Pm []) x).
  assert (Hm : forall done todo, (forall k, In k todo -> In k fun_keys) ->
    fold_left (fun e k => replace (k ++ s_ "(") (k ++ s_ "@(") e) todo (["0"; "-"] ++ sprintg (Pm done) x) = ["0"; "-"] ++ sprintg (Pm (done ++ todo)) x).
  { intros done todo. revert done. induction todo as [|k todo IH]; intros done Hin; [rewrite app_nil_r; reflexivity|].
    cbn [fold_left]. change (replace (k ++ s_ "(") (k ++ s_ "@(") (["0"; "-"] ++ sprintg (Pm done) x)) with (R (kpat k) (krep k) (["0"; "-"] ++ sprintg (Pm done) x)).
    pose proof (Hin k (or_introl eq_refl)) as Hk. destruct (key_facts k Hk) as [Hkne [Hknm _]].
    rewrite (R_pre (kpat k) (krep k) ["0"; "-"] (Pm done) (kpat_ne k) (ppokm done) A2).
    - rewrite (pass_key done k x Hk Hx). rewrite IH by (intros k' Hk'; apply Hin; right; exact Hk'). rewrite <- app_assoc. reflexivity.
    - left. rewrite removelast_kpat. apply nm_not; [exact Hknm | reflexivity].
    - apply (R_nochar (kpat k) (krep k) ["0"; "-"] "("); [unfold kpat; apply in_or_app; right; left; reflexivity | cbn; intuition discriminate]. }
  rewrite (Hm [] fun_keys (fun k H => H)). cbn [app]. rewrite (sprint_marked x Hx), sprint_final. reflexivity.
Qed.
End Lead.
Print Assumptions preprocess_lead.

(* hence "-expr" evaluates as the tree in which the minus is attached to the first term *)
Theorem lead_evaluate x t : swf x -> clean (print (neg_lead (lower x))) = true ->
  evaluate t ("-" :: sprint x) = evaluate t (print (neg_lead (lower x))).
Proof.
  intros Hx Hc. rewrite !evaluate_split.
  assert (Hsp1 : forallb (fun c => negb (Ascii.eqb c " ")) ("-" :: sprint x) = true) by (cbn [forallb]; unfold sprint; rewrite (sprint_nospace P0 x ppok0 Hx); reflexivity).
  assert (Hsp2 : forallb (fun c => negb (Ascii.eqb c " ")) (print (neg_lead (lower x))) = true).
  { unfold clean in Hc. apply andb_prop in Hc. destruct Hc as [Hc' _]. apply andb_prop in Hc'. destruct Hc' as [Hc' _]. apply andb_prop in Hc'. apply Hc'. }
  rewrite (filter_nospace _ Hsp1), (filter_nospace _ Hsp2), (preprocess_lead x Hx), (preprocess_clean _ Hc), print_neg_lead. reflexivity.
Qed.
Corollary lead_operate x t : swf x -> clean (print (neg_lead (lower x))) = true ->
  operate_str t ("-" :: sprint x) = operate_str t (print (neg_lead (lower x))).
Proof. intros Hx Hc. unfold operate_str. rewrite (lead_evaluate x t Hx Hc). reflexivity. Qed.
Print Assumptions lead_operate.
