(* Spike: C19 — scattering observations into cells: each cell holds exactly the values of the observations
   located in it, in order, and the counts over all cells add up to the number of observations *)
From Coq Require Import List Arith ZArith Bool Lia.
Import ListNotations.

Section S.
Variable V : Type.
Definition cell := (Z * Z)%type.
Definition cell_eqb (a b : cell) : bool := (fst a =? fst b)%Z && (snd a =? snd b)%Z.
Lemma cell_eqb_eq a b : cell_eqb a b = true <-> a = b.
Proof.
  unfold cell_eqb. destruct a as [a1 a2], b as [b1 b2]; cbn [fst snd]. rewrite andb_true_iff, !Z.eqb_eq.
  split; [intros [-> ->]; reflexivity | intros [= -> ->]; auto].
Qed.

(* collectionValuesGrid[af][line][column].append(val) for every observation *)
Definition grid := cell -> list V.
Definition put (g : grid) (c : cell) (v : V) : grid := fun c' => if cell_eqb c' c then g c' ++ [v] else g c'.
Definition scatter (obs : list (cell * V)) : grid := fold_left (fun g p => put g (fst p) (snd p)) obs (fun _ => []).

Definition located (c : cell) (obs : list (cell * V)) : list V := map snd (filter (fun p => cell_eqb c (fst p)) obs).

Lemma scatter_gen : forall obs g c, fold_left (fun g p => put g (fst p) (snd p)) obs g c = g c ++ located c obs.
Proof.
  induction obs as [|[c0 v] obs IH]; intros g c; cbn [fold_left]; [unfold located; cbn; rewrite app_nil_r; reflexivity|].
  rewrite IH. unfold located, put. cbn [filter fst snd]. destruct (cell_eqb c c0) eqn:E.
  - cbn [map snd]. rewrite <- app_assoc. reflexivity.
  - reflexivity.
Qed.

Theorem scatter_spec obs c : scatter obs c = located c obs.
Proof. unfold scatter. rewrite scatter_gen. reflexivity. Qed.

Fixpoint sum (l : list nat) : nat := match l with [] => 0 | x :: r => x + sum r end.

Lemma count_one (c0 : cell) (cells : list cell) : NoDup cells -> In c0 cells ->
  sum (map (fun c => if cell_eqb c c0 then 1 else 0) cells) = 1.
Proof.
  induction cells as [|c cells IH]; intros Hnd Hin; [destruct Hin|]. inversion Hnd as [|? ? Hn Hnd']; subst. cbn [map sum].
  destruct (cell_eqb c c0) eqn:E.
  - apply cell_eqb_eq in E. subst c.
    assert (Z0 : forall l, ~ In c0 l -> sum (map (fun c => if cell_eqb c c0 then 1 else 0) l) = 0).
    { induction l as [|x l IHl]; intros H; [reflexivity|]. cbn [map sum]. destruct (cell_eqb x c0) eqn:Ex.
      - apply cell_eqb_eq in Ex. subst. exfalso. apply H. left. reflexivity.
      - apply IHl. intros H'. apply H. right. assumption. }
    rewrite (Z0 cells Hn). reflexivity.
  - destruct Hin as [->|Hin]; [rewrite (proj2 (cell_eqb_eq c0 c0) eq_refl) in E; discriminate|].
    cbn. apply IH; assumption.
Qed.

Lemma sum_add (f g : cell -> nat) cells : sum (map (fun c => f c + g c) cells) = sum (map f cells) + sum (map g cells).
Proof. induction cells as [|c cells IH]; [reflexivity|]. cbn [map sum]. rewrite IH. lia. Qed.

(* counts add up: every observation is in exactly one cell of the grid *)
Theorem conservation (cells : list cell) : NoDup cells -> forall obs, (forall p, In p obs -> In (fst p) cells) ->
  sum (map (fun c => length (scatter obs c)) cells) = length obs.
Proof.
  intros Hnd. induction obs as [|[c0 v] obs IH]; intros Hin.
  - clear. induction cells as [|c cells IHc]; [reflexivity | cbn; exact IHc].
  - assert (E : forall c, length (scatter ((c0, v) :: obs) c) = (if cell_eqb c c0 then 1 else 0) + length (scatter obs c)).
    { intros c. rewrite !scatter_spec. unfold located. cbn [filter fst]. destruct (cell_eqb c c0); reflexivity. }
    rewrite (map_ext _ _ E), sum_add. rewrite count_one; [|assumption | apply (Hin (c0, v)); left; reflexivity].
    rewrite IH; [reflexivity|]. intros p Hp. apply Hin. right. assumption.
Qed.
End S.
Print Assumptions conservation.
