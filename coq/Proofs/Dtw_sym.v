(* Spike: the DTW table of the swapped pair of tracks is the transpose, hence the score is symmetric *)
From Coq Require Import List Arith QArith Bool Lia Lqa.
Import ListNotations.
From TL Require Import Model.Dtw Proofs.Dtw_rec Proofs.Dtw_opt.
Open Scope Q_scope.

Section S.
Variable w : Q -> Q -> Q.
Variable D : nat -> nat -> Q.
Hypothesis w_mono : forall A A' B, A <= A' -> w A B <= w A' B.
Variables n2 n1 : nat.
Definition Dt (i j : nat) : Q := D j i.

Lemma w_eq' A A' B : A == A' -> w A B == w A' B.
Proof. intros H. apply Qle_antisym; apply w_mono; lra. Qed.

Lemma Qmin_comm_eq x y : Qmin x y == Qmin y x.
Proof. unfold Qmin. destruct (Qlt_le_dec y x), (Qlt_le_dec x y); lra. Qed.
Lemma Qmin_eq_compat x x' y y' : x == x' -> y == y' -> Qmin x y == Qmin x' y'.
Proof. intros Hx Hy. unfold Qmin. destruct (Qlt_le_dec y x), (Qlt_le_dec y' x'); lra. Qed.

Theorem T_transpose : forall n i j, (i + j = n)%nat -> (i < n2)%nat -> (j < n1)%nat ->
  T w Dt n1 n2 j i == T w D n2 n1 i j.
Proof.
  induction n as [n IH] using lt_wf_ind. intros i j Hn H2 H1.
  destruct i as [|i], j as [|j].
  - rewrite !T_00 by lia. reflexivity.
  - rewrite T_S0, T_0S by lia. unfold Dt at 2. apply w_eq'. apply (IH (0 + j)%nat); lia.
  - rewrite T_0S, T_S0 by lia. unfold Dt at 2. apply w_eq'. apply (IH (i + 0)%nat); lia.
  - rewrite !T_SS by lia. unfold Dt at 4. apply w_eq'.
    apply Qmin_eq_compat; [apply (IH (i + j)%nat); lia|].
    rewrite Qmin_comm_eq. apply Qmin_eq_compat; [apply (IH (i + S j)%nat); lia | apply (IH (S i + j)%nat); lia].
Qed.

Corollary dtw_symmetric : (0 < n2)%nat -> (0 < n1)%nat ->
  T w Dt n1 n2 (n1 - 1) (n2 - 1) == T w D n2 n1 (n2 - 1) (n1 - 1).
Proof. intros H2 H1. apply (T_transpose (n2 - 1 + (n1 - 1))); lia. Qed.
End S.
Print Assumptions dtw_symmetric.
