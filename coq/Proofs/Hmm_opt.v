From Coq Require Import List Arith QArith Bool Lia Lqa.
Import ListNotations.
From TL Require Import Model.Hmm Proofs.Hmm_inner Proofs.Hmm_cost Proofs.Hmm_step.
Open Scope Q_scope.

(* hypotheses of the theorem: every epoch has a candidate, no partial path reaches the sentinel *)
Definition nonempty_states (e0 : epoch) (es : list epoch) : Prop :=
  (0 < nstates e0)%nat /\ Forall (fun e => (0 < nstates e)%nat) es.

Definition bounded_from (e0 : epoch) (done rest : list epoch) : Prop :=
  forall k s l, (k < length rest)%nat -> valid (e0 :: done ++ firstn k rest) s ->
    total_cost e0 (done ++ firstn k rest) s + qcost (nth k rest e0) (last s 0%nat) l < BIG.

Lemma last_app_nonempty {A} (l : list A) x d : last (l ++ [x]) d = x.
Proof. apply last_last. Qed.

Lemma forward_inv e0 : forall rest done cols,
  ColInv e0 done cols -> (0 < nstates (last done e0))%nat ->
  Forall (fun e => (0 < nstates e)%nat) rest -> bounded_from e0 done rest ->
  ColInv e0 (done ++ rest) (forward (map fst (hd [] cols)) rest cols).
Proof.
  induction rest as [|e rest IH]; intros done cols HI Hpos Hne Hb; cbn [forward].
  - rewrite app_nil_r. assumption.
  - inversion Hne as [|? ? He Hrest]; subst.
    assert (Hstep : ColInv e0 (done ++ [e]) (step_col (map fst (hd [] cols)) e :: cols)).
    { apply colinv_step; [assumption | assumption|].
      intros s l Hv. specialize (Hb 0%nat s l ltac:(simpl; lia)). cbn [firstn nth] in Hb. rewrite app_nil_r in Hb. apply Hb. assumption. }
    replace (done ++ e :: rest) with ((done ++ [e]) ++ rest) by (rewrite <- app_assoc; reflexivity).
    change (map fst (step_col (map fst (hd [] cols)) e)) with (map fst (hd [] (step_col (map fst (hd [] cols)) e :: cols))).
    apply IH; [assumption | rewrite last_last; assumption | assumption |].
    intros k s l Hk Hv. specialize (Hb (S k) s l ltac:(simpl; lia)). cbn [firstn nth] in Hb.
    rewrite <- app_assoc. apply Hb. rewrite <- app_assoc in Hv. exact Hv.
Qed.

Lemma argmin_from_spec : forall l i best bi,
  let r := argmin_from l i best bi in
  (r = bi \/ (i <= r < i + length l)%nat) /\
  exists v, (r = bi /\ v = best \/ ((i <= r)%nat /\ v = nth (r - i) l 0)) /\ v <= best /\ forall j, (j < length l)%nat -> v <= nth j l 0.
Proof.
  induction l as [|x l IH]; intros i best bi; cbn [argmin_from].
  - split; [left; reflexivity|]. exists best. split; [left; split; reflexivity|]. split; [lra | intros j Hj; simpl in Hj; lia].
  - destruct (Qltb x best) eqn:E.
    + apply Qltb_true in E. specialize (IH (S i) x i). cbv zeta in IH. destruct IH as [H1 [v [H2 [H3 H4]]]].
      split.
      * destruct H1 as [H1|H1]; [right; rewrite H1; simpl; lia | right; simpl; lia].
      * exists v. split.
        -- destruct H2 as [[Hr Hv]|[Hr Hv]].
           ++ right. rewrite Hr. split; [lia|]. rewrite Nat.sub_diag. simpl. assumption.
           ++ right. split; [lia|]. replace (argmin_from l (S i) x i - i)%nat with (S (argmin_from l (S i) x i - S i)) by lia. simpl. assumption.
        -- split; [lra|]. intros [|j] Hj; [simpl; assumption | simpl in *; apply H4; lia].
    + apply Qltb_false in E. specialize (IH (S i) best bi). cbv zeta in IH. destruct IH as [H1 [v [H2 [H3 H4]]]].
      split.
      * destruct H1 as [H1|H1]; [left; assumption | right; simpl; lia].
      * exists v. split.
        -- destruct H2 as [[Hr Hv]|[Hr Hv]]; [left; split; assumption|].
           right. split; [lia|]. replace (argmin_from l (S i) best bi - i)%nat with (S (argmin_from l (S i) best bi - S i)) by lia. simpl. assumption.
        -- split; [assumption|]. intros [|j] Hj; [simpl; lra | simpl in *; apply H4; lia].
Qed.

Lemma argmin_spec l : l <> [] ->
  (argmin l < length l)%nat /\ forall j, (j < length l)%nat -> nth (argmin l) l 0 <= nth j l 0.
Proof.
  destruct l as [|x l]; [contradiction|]. intros _. unfold argmin.
  pose proof (argmin_from_spec l 1 x 0) as H. cbv zeta in H. destruct H as [H1 [v [H2 [H3 H4]]]].
  split.
  - destruct H1 as [H1|H1]; [rewrite H1; simpl; lia | simpl; lia].
  - intros j Hj. destruct H2 as [[Hr Hv]|[Hr Hv]].
    + rewrite Hr. simpl nth at 1. subst v. destruct j as [|j]; [simpl; lra | simpl in *; apply H4; lia].
    + destruct (argmin_from l 1 x 0) as [|r] eqn:Er; [lia|]. simpl nth at 1.
      replace (S r - 1)%nat with r in Hv by lia. rewrite <- Hv.
      destruct j as [|j]; [simpl; assumption | simpl in *; apply H4; lia].
Qed.

Theorem viterbi_optimal e0 es :
  nonempty_states e0 es -> bounded_from e0 [] es ->
  let '(path, c) := estimate e0 es in
  valid (e0 :: es) path /\ total_cost e0 es path == c /\
  forall s, valid (e0 :: es) s -> c <= total_cost e0 es s.
Proof.
  intros [Hpos Hne] Hb. unfold estimate.
  set (col0 := map (fun l => (pcost e0 l, 0%nat)) (seq 0 (nstates e0))).
  pose proof (forward_inv e0 es [] [col0] (colinv_init e0) Hpos Hne Hb) as HI.
  cbn [hd app] in HI.
  destruct (forward (map fst col0) es [col0]) as [|lastc cols] eqn:Ef.
  - destruct HI as [Hlen _ _]. simpl in Hlen. discriminate.
  - destruct HI as [Hlen Hcol Hpath]. cbn [hd] in *.
    assert (Hlastpos : (0 < nstates (last es e0))%nat).
    { clear -Hpos Hne. revert e0 Hpos. induction Hne as [|e es He Hes IH]; intros e0 Hpos; [assumption|].
      rewrite last_cons. apply IH. assumption. }
    assert (Hcl : length (map fst lastc) = nstates (last es e0)) by (rewrite map_length; apply (Hcol [])).
    assert (Hnz : map fst lastc <> []) by (intros E; rewrite E in Hcl; simpl in Hcl; lia).
    destruct (argmin_spec (map fst lastc) Hnz) as [Ha Hmin].
    set (idk := argmin (map fst lastc)) in *. rewrite Hcl in Ha.
    destruct (Hpath idk [] Ha) as [Hv [Hlast [Hc Hopt]]].
    split; [assumption|]. split; [assumption|].
    intros s Hs. pose proof (last_valid_bound es e0 s Hs) as Hm.
    destruct (Hpath (last s 0%nat) [] Hm) as [_ [_ [_ Hopt']]].
    specialize (Hopt' s Hs eq_refl).
    specialize (Hmin (last s 0%nat) ltac:(rewrite Hcl; assumption)).
    assert (En : forall i, nth i (map fst lastc) 0 = fst (nth i lastc (0, 0%nat))).
    { intros i. change 0 with (fst (0, 0%nat)) at 1. apply map_nth. }
    rewrite !En in Hmin. lra.
Qed.
Print Assumptions viterbi_optimal.
