(* Spike: the scan of proj_polyligne (C20/C10) — strict "<" from +inf over the non-skipped segments
   returns the first segment attaining the least distance *)
From Coq Require Import List Arith Reals Lra Lia.
Import ListNotations.
Open Scope R_scope.

Section M.
Variable P : Type.                                   (* projected point *)
(* per segment: None = skipped (shorter than 1e-16), Some (dist, proj) otherwise *)
Definition cand := option (R * P).
Definition acc := option (R * P * nat).              (* None = distmin still +inf, xproj unbound *)

Definition step (i : nat) (a : acc) (c : cand) : acc :=
  match c with
  | None => a
  | Some (d, p) => match a with
                   | None => Some (d, p, i)
                   | Some (dm, _, _) => if Rlt_dec d dm then Some (d, p, i) else a
                   end
  end.
Fixpoint scan (i : nat) (a : acc) (cs : list cand) : acc :=
  match cs with [] => a | c :: r => scan (S i) (step i a c) r end.
Definition proj_poly (cs : list cand) : acc := scan 0 None cs.

Definition accd (a : acc) (d : R) : Prop := match a with None => True | Some (dm, _, _) => d <= dm end.

Lemma scan_spec : forall cs i a,
  (forall dm p k, a = Some (dm, p, k) -> (k < i)%nat) ->
  match scan i a cs with
  | None => a = None /\ forall k, (k < length cs)%nat -> nth k cs None = None
  | Some (dm, p, k) =>
      (a = Some (dm, p, k) \/ ((i <= k < i + length cs)%nat /\ nth (k - i) cs None = Some (dm, p))) /\
      accd a dm /\ (forall j d' p', (j < length cs)%nat -> nth j cs None = Some (d', p') -> dm <= d')
  end.
Proof.
  induction cs as [|c r IH]; intros i a Ha; cbn [scan].
  - destruct a as [[[dm p] k]|]; [|split; [reflexivity | intros k Hk; cbn in Hk; lia]].
    split; [left; reflexivity|]. split; [cbn; lra | intros j d' p' Hj; cbn in Hj; lia].
  - assert (Hstep : forall dm p k, step i a c = Some (dm, p, k) -> (k < S i)%nat).
    { intros dm p k. unfold step. destruct c as [[d q]|]; [|intros H; specialize (Ha _ _ _ H); lia].
      destruct a as [[[dm0 p0] k0]|]; [destruct (Rlt_dec d dm0)|]; intros H; try (injection H as _ _ <-; lia).
      specialize (Ha _ _ _ H). lia. }
    specialize (IH (S i) (step i a c) Hstep).
    destruct (scan (S i) (step i a c) r) as [[[dm p] k]|].
    + destruct IH as [Hsrc [Hacc Hall]].
      assert (Hc : match c with Some (d, _) => dm <= d | None => True end /\ accd a dm /\
                   (a = Some (dm, p, k) \/ (i <= k < i + length (c :: r))%nat /\ nth (k - i) (c :: r) None = Some (dm, p))).
      { unfold step in *. destruct c as [[d q]|].
        - destruct a as [[[dm0 p0] k0]|].
          + destruct (Rlt_dec d dm0) as [Hlt|Hge].
            * cbn in Hacc. split; [assumption|]. split; [cbn; lra|].
              destruct Hsrc as [E|[Hk Hn]].
              -- injection E as <- <- <-. right. split; [cbn; lia|]. rewrite Nat.sub_diag. reflexivity.
              -- right. split; [cbn; lia|]. replace (k - i)%nat with (S (k - S i)) by lia. exact Hn.
            * cbn in Hacc. split; [lra|]. split; [cbn; assumption|].
              destruct Hsrc as [E|[Hk Hn]]; [left; assumption|].
              right. split; [cbn; lia|]. replace (k - i)%nat with (S (k - S i)) by lia. exact Hn.
          + cbn in Hacc. split; [assumption|]. split; [exact I|].
            destruct Hsrc as [E|[Hk Hn]].
            * injection E as <- <- <-. right. split; [cbn; lia|]. rewrite Nat.sub_diag. reflexivity.
            * right. split; [cbn; lia|]. replace (k - i)%nat with (S (k - S i)) by lia. exact Hn.
        - split; [exact I|]. split; [assumption|].
          destruct Hsrc as [E|[Hk Hn]]; [left; assumption|].
          right. split; [cbn; lia|]. replace (k - i)%nat with (S (k - S i)) by lia. exact Hn. }
      destruct Hc as [Hc1 [Hc2 Hc3]]. split; [assumption|]. split; [assumption|].
      intros j d' p' Hj Hn. destruct j as [|j]; cbn in Hn.
      * subst c. exact Hc1.
      * apply (Hall j d' p'); [cbn in Hj; lia | assumption].
    + destruct IH as [Hs Hall]. unfold step in Hs. destruct c as [[d q]|].
      * destruct a as [[[dm0 p0] k0]|]; [destruct (Rlt_dec d dm0)|]; discriminate.
      * split; [assumption|]. intros k Hk. destruct k as [|k]; [reflexivity|]. cbn. apply Hall. cbn in Hk. lia.
Qed.

Theorem proj_poly_spec cs :
  match proj_poly cs with
  | None => forall k, (k < length cs)%nat -> nth k cs None = None
  | Some (dm, p, k) => (k < length cs)%nat /\ nth k cs None = Some (dm, p) /\
                       forall j d' p', (j < length cs)%nat -> nth j cs None = Some (d', p') -> dm <= d'
  end.
Proof.
  unfold proj_poly. pose proof (scan_spec cs 0 None ltac:(intros; discriminate)) as H.
  destruct (scan 0 None cs) as [[[dm p] k]|].
  - destruct H as [[E|[Hk Hn]] [_ Hall]]; [discriminate|]. rewrite Nat.sub_0_r in Hn. split; [lia|]. split; assumption.
  - destruct H as [_ H]. exact H.
Qed.
End M.
Print Assumptions proj_poly_spec.
