(* C09: minimising the sum of -log likelihoods is maximising the product of the likelihoods (positive factors:
   the implementation adds 1e-300 before taking the logarithm) *)
From Coq Require Import Reals List Lra.
Import ListNotations.
Open Scope R_scope.

Fixpoint lprod (l : list R) : R := match l with [] => 1 | x :: r => x * lprod r end.
Fixpoint lcost (l : list R) : R := match l with [] => 0 | x :: r => - ln x + lcost r end.
Definition positive (l : list R) : Prop := Forall (fun x => 0 < x) l.

Lemma lprod_pos l : positive l -> 0 < lprod l.
Proof. induction 1 as [|x r Hx _ IH]; cbn [lprod]; [lra | apply Rmult_lt_0_compat; assumption]. Qed.

Lemma lcost_ln l : positive l -> lcost l = - ln (lprod l).
Proof.
  induction 1 as [|x r Hx Hr IH]; cbn [lprod lcost]; [rewrite ln_1; lra|].
  rewrite ln_mult by (try assumption; apply lprod_pos; assumption). rewrite IH. lra.
Qed.

Lemma ln_le_iff x y : 0 < x -> 0 < y -> (ln x <= ln y <-> x <= y).
Proof.
  intros Hx Hy. split; intros H.
  - destruct (Rle_or_lt x y) as [L|L]; [exact L|]. pose proof (ln_increasing y x Hy L). lra.
  - destruct H as [H|H]; [left; apply ln_increasing; assumption | right; rewrite H; reflexivity].
Qed.

(* a sequence of smaller total cost is a sequence of larger joint likelihood, and conversely *)
Theorem cost_order_is_likelihood_order p q : positive p -> positive q ->
  (lcost p <= lcost q <-> lprod q <= lprod p).
Proof.
  intros Hp Hq. rewrite (lcost_ln p Hp), (lcost_ln q Hq).
  pose proof (ln_le_iff (lprod q) (lprod p) (lprod_pos q Hq) (lprod_pos p Hp)) as H. split; intros L.
  - apply H. lra.
  - apply H in L. lra.
Qed.
Print Assumptions cost_order_is_likelihood_order.
