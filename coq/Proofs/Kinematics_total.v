(* C17: the abscissa ends at the planimetric length of the track; the speed feature is the documented quotient *)
From Coq Require Import List Arith QArith Bool Lia Lqa.
Import ListNotations.
From TL Require Import Model.Kinematics Proofs.Kinematics_abs.
Open Scope Q_scope.

Section K.
Variable P : Type.
Variable dist : P -> P -> Q.
Variable d0 : P.

(* planimetric length: sum of the distances between consecutive fixes *)
Fixpoint len_from (prev : P) (l : list P) : Q := match l with [] => 0 | p :: r => dist p prev + len_from p r end.
Definition path_len (l : list P) : Q := match l with [] => 0 | p :: r => len_from p r end.

Lemma last_integ : forall r prev acc,
  last (integ_from acc (ds_from P dist prev r)) acc == acc + len_from prev r.
Proof.
  induction r as [|p r IH]; intros prev acc; cbn [ds_from integ_from len_from last].
  - lra.
  - destruct (integ_from (acc + dist p prev) (ds_from P dist p r)) eqn:E.
    + destruct r; [cbn [len_from]; lra | cbn in E; discriminate].
    + rewrite <- E.
      assert (L : forall (a b : Q) l, l <> [] -> last l a = last l b)
        by (intros a b l0; induction l0 as [|x [|y l0] IHl]; intros Hne; [contradiction | reflexivity | apply IHl; discriminate]).
      rewrite (L acc (acc + dist p prev)) by (rewrite E; discriminate).
      rewrite IH. lra.
Qed.

Theorem abs_curv_total l : last (abs_curv P dist l) 0 == path_len l.
Proof.
  destruct l as [|p r]; [reflexivity|]. unfold abs_curv, ds, integrator, path_len.
  destruct r as [|p2 r]; [reflexivity|].
  change (last (0 :: integ_from 0 (ds_from P dist p (p2 :: r))) 0) with (last (integ_from 0 (ds_from P dist p (p2 :: r))) 0).
  rewrite last_integ. lra.
Qed.

(* speed: centred quotient inside, one-sided at both ends, NaN exactly when the elapsed time is zero *)
Theorem speed_interior pos t i : (0 < i)%nat -> (i < length pos - 1)%nat ->
  speed_at P dist pos t d0 i =
    (let dt := nth (i + 1) t 0 - nth (i - 1) t 0 in
     if Qeq_bool dt 0 then None else Some (dist (nth (i + 1) pos d0) (nth (i - 1) pos d0) / dt)).
Proof.
  intros H1 H2. unfold speed_at.
  destruct (Nat.eqb_spec i 0); [lia|]. destruct (Nat.eqb_spec i (length pos - 1)); [lia|]. reflexivity.
Qed.

Theorem speed_first pos t :
  speed_at P dist pos t d0 0 =
    (let dt := nth 1 t 0 - nth 0 t 0 in if Qeq_bool dt 0 then None else Some (dist (nth 1 pos d0) (nth 0 pos d0) / dt)).
Proof. reflexivity. Qed.

Theorem speed_last pos t : (2 <= length pos)%nat ->
  speed_at P dist pos t d0 (length pos - 1) =
    (let dt := nth (length pos - 1) t 0 - nth (length pos - 2) t 0 in
     if Qeq_bool dt 0 then None else Some (dist (nth (length pos - 1) pos d0) (nth (length pos - 2) pos d0) / dt)).
Proof.
  intros H. unfold speed_at. destruct (Nat.eqb_spec (length pos - 1) 0); [lia|]. rewrite Nat.eqb_refl. reflexivity.
Qed.

Theorem speed_nan_iff pos t i : speed_at P dist pos t d0 i = None <->
  (let n := length pos in
   let '(a, b) := if (i =? 0)%nat then (1%nat, 0%nat) else if (i =? n - 1)%nat then ((n - 1)%nat, (n - 2)%nat) else ((i + 1)%nat, (i - 1)%nat) in
   nth a t 0 - nth b t 0 == 0).
Proof.
  unfold speed_at. cbv zeta.
  destruct (if (i =? 0)%nat then (1%nat, 0%nat) else if (i =? length pos - 1)%nat then ((length pos - 1)%nat, (length pos - 2)%nat) else ((i + 1)%nat, (i - 1)%nat)) as [a b].
  destruct (Qeq_bool (nth a t 0 - nth b t 0) 0) eqn:E.
  - apply Qeq_bool_iff in E. split; auto.
  - split; [discriminate|]. intros H. apply Qeq_bool_neq in E. contradiction.
Qed.
End K.
Print Assumptions abs_curv_total.
Print Assumptions speed_nan_iff.
