(* Spike: C08 — the neighbourhood window contains every in-grid cell within u of the query cell, so a feature
   registered in such a cell is returned *)
From Coq Require Import List ZArith Lia Bool.
Import ListNotations.
Open Scope Z_scope.

Definition zr (lo hi : Z) : list Z := map (fun k => lo + Z.of_nat k) (seq 0 (Z.to_nat (hi - lo))).   (* range(lo, hi) *)
Lemma in_zr lo hi k : lo <= k < hi -> In k (zr lo hi).
Proof. intros H. unfold zr. apply in_map_iff. exists (Z.to_nat (k - lo)). split; [lia | apply in_seq; lia]. Qed.

(* __neighboringcells(i, j, u, incremental=False) *)
Definition window (csize lsize i j u : Z) : list (Z * Z) :=
  let imin := Z.max (i - u) 0 in let imax := Z.min (i + u + 1) csize in
  let jmin := Z.max (j - u) 0 in let jmax := Z.min (j + u + 1) lsize in
  flat_map (fun ii => map (fun jj => (ii, jj)) (zr jmin jmax)) (zr imin imax).

Lemma in_window csize lsize i j u a b :
  Z.abs (a - i) <= u -> Z.abs (b - j) <= u -> 0 <= a < csize -> 0 <= b < lsize ->
  In (a, b) (window csize lsize i j u).
Proof.
  intros Ha Hb Ca Cb. unfold window. apply in_flat_map. exists a. split; [apply in_zr; lia|].
  apply in_map_iff. exists b. split; [reflexivity | apply in_zr; lia].
Qed.

(* neighborhood(i, j, unit): union of the cell contents over the window *)
Definition neighborhood (grid : Z * Z -> list nat) (csize lsize i j u : Z) : list nat :=
  flat_map grid (window csize lsize i j u).

Theorem neighborhood_complete grid csize lsize i j u a b f :
  Z.abs (a - i) <= u -> Z.abs (b - j) <= u -> 0 <= a < csize -> 0 <= b < lsize ->
  In f (grid (a, b)) -> In f (neighborhood grid csize lsize i j u).
Proof.
  intros Ha Hb Ca Cb Hf. unfold neighborhood. apply in_flat_map. exists (a, b). split; [apply in_window; assumption | assumption].
Qed.
Print Assumptions neighborhood_complete.
