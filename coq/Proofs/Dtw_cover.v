(* Spike: C18 — a coupling from (0,0) to q links every index 0..fst q of one track and 0..snd q of the other *)
From Coq Require Import List Arith QArith Lia.
Import ListNotations.
From TL Require Import Model.Dtw Proofs.Dtw_rec Proofs.Dtw_opt.

Lemma cpath_covers q l : cpath q l ->
  (forall i, (i <= fst q)%nat -> exists j, In (i, j) l) /\ (forall j, (j <= snd q)%nat -> exists i, In (i, j) l).
Proof.
  induction 1 as [|p q l Hp [IH1 IH2] Hs].
  - split; intros k Hk; cbn in Hk; assert (k = 0)%nat by lia; subst; exists 0%nat; left; reflexivity.
  - destruct p as [pi pj]. unfold step in Hs. cbn [fst snd] in *. split.
    + intros i Hi. destruct (le_lt_dec i pi) as [L|L].
      * destruct (IH1 i L) as [j Hj]. exists j. apply in_or_app. left. assumption.
      * exists (snd q). apply in_or_app. right. left. destruct Hs as [->|[->| ->]]; cbn [fst snd] in *; f_equal; lia.
    + intros j Hj. destruct (le_lt_dec j pj) as [L|L].
      * destruct (IH2 j L) as [i Hi]. exists i. apply in_or_app. left. assumption.
      * exists (fst q). apply in_or_app. right. left. destruct Hs as [->|[->| ->]]; cbn [fst snd] in *; f_equal; lia.
Qed.
Print Assumptions cpath_covers.
