From Coq Require Import List Ascii String Bool Arith ZArith QArith Lia.
Import ListNotations.
From TL Require Import Model.Str Model.Table Proofs.Table_inv.

Lemma set_nth_length {A} : forall (l : list A) i v, List.length (set_nth l i v) = List.length l.
Proof. induction l as [|a l IH]; intros [|i] v; simpl; auto. Qed.
Lemma set_nth_same {A} (d : A) : forall (l : list A) i v, (i < List.length l)%nat -> nth i (set_nth l i v) d = v.
Proof. induction l as [|a l IH]; intros [|i] v H; simpl in *; try lia; auto. apply IH. lia. Qed.
Lemma set_nth_other {A} (d : A) : forall (l : list A) i j v, i <> j -> nth j (set_nth l i v) d = nth j l d.
Proof. induction l as [|a l IH]; intros [|i] [|j] v H; simpl; auto; try lia. Qed.

(* writing a whole column under an existing (non-virtual) name *)
Lemma set_col_spec t n i col t' : Inv t -> lookup (dico t) n = Some i -> List.length col = size t ->
  set_col t n col = Ok t' ->
  Inv t' /\ names t' = names t /\ dico t' = dico t /\ size t' = size t /\
  xs t' = xs t /\ ys t' = ys t /\ zs t' = zs t /\ ts t' = ts t /\
  get_af t' n = Ok col /\ (forall m, m <> n -> get_af t' m = get_af t m).
Proof.
  intros HI Hl Hlen Hs. destruct HI as [Hnd Hidx Hf Hn Hnv0].
  assert (Hin : In n (names t)).
  { unfold names. clear -Hl. induction (dico t) as [|[k j] d IH]; [discriminate|]. simpl in *.
    destruct (str_eqb k n) eqn:E; [apply str_eqb_true in E; left; assumption | right; apply IH; assumption]. }
  pose proof (Hnv0 n Hin) as Hv.
  assert (Hnv : forall s, In s virtuals -> str_eqb n s = false).
  { intros s Hs'. apply str_eqb_false. intros ->. unfold is_virtual in Hv.
    rewrite <- not_true_iff_false in Hv. apply Hv. apply existsb_exists. exists s. split; [assumption | apply str_eqb_refl]. }
  unfold set_col in Hs. rewrite !Hnv in Hs by (unfold virtuals; simpl; tauto). rewrite Hl in Hs. injection Hs as <-.
  destruct (lookup_index (dico t) 0 n i Hidx Hl) as [Hi _].
  assert (Hlen2 : List.length (combine (feats t) col) = size t) by (rewrite combine_length, Hn, Hlen; lia).
  split; [|repeat split].
  - constructor; unfold names, size; simpl; try assumption.
    + apply Forall_forall. intros f Hin'. apply in_map_iff in Hin'. destruct Hin' as [[f0 v] [<- Hin']].
      rewrite set_nth_length. apply in_combine_l in Hin'. rewrite Forall_forall in Hf. apply Hf. assumption.
    + rewrite map_length. assumption.
  - unfold get_af. rewrite !Hnv by (unfold virtuals; simpl; tauto). simpl dico. rewrite Hl. f_equal. simpl feats. rewrite map_map.
    assert (E : forall (fs : list (list val)) (c : list val), Forall (fun f => List.length f = List.length (dico t)) fs ->
              List.length fs = List.length c ->
              map (fun x : list val * val => nth i (let '(f, v) := x in set_nth f i v) None) (combine fs c) = c).
    { induction fs as [|f fs IHf]; intros c Hfs Hc; destruct c as [|v c]; simpl in Hc; try discriminate; [reflexivity|].
      inversion Hfs as [|? ? Hf1 Hfr]; subst. simpl. rewrite set_nth_same by lia. f_equal. apply IHf; [assumption | lia]. }
    apply E; [assumption | rewrite Hn, Hlen; reflexivity].
  - intros m Hne. unfold get_af. simpl xs; simpl ys; simpl zs; simpl ts. unfold size. simpl xs.
    destruct (str_eqb m (s_ "x")); [reflexivity|]. destruct (str_eqb m (s_ "y")); [reflexivity|].
    destruct (str_eqb m (s_ "z")); [reflexivity|]. destruct (str_eqb m (s_ "t")); [reflexivity|].
    destruct (str_eqb m (s_ "timestamp")); [reflexivity|]. destruct (str_eqb m (s_ "idx")); [reflexivity|].
    simpl dico. destruct (lookup (dico t) m) as [j|] eqn:Ej; [|reflexivity]. f_equal. simpl feats. rewrite map_map.
    assert (Hij : i <> j).
    { intros ->. destruct (lookup_index (dico t) 0 n j Hidx Hl) as [_ H1]. destruct (lookup_index (dico t) 0 m j Hidx Ej) as [_ H2].
      rewrite H1 in H2. congruence. }
    assert (E : forall (fs : list (list val)) (c : list val), List.length fs = List.length c ->
              map (fun x : list val * val => nth j (let '(f, v) := x in set_nth f i v) None) (combine fs c) = map (fun f => nth j f None) fs).
    { induction fs as [|f fs IHf]; intros c Hc; destruct c as [|v c]; simpl in Hc; try discriminate; [reflexivity|].
      simpl. rewrite set_nth_other by assumption. f_equal. apply IHf. lia. }
    apply E. rewrite Hn, Hlen. reflexivity.
Qed.
Print Assumptions set_col_spec.
