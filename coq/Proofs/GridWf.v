(* C08: what the constructor of the index establishes (rational arithmetic) *)
From Coq Require Import List ZArith QArith Qround Lia Lqa Bool.
Import ListNotations.
From TL Require Import Model.Grid.

(* ---- well-formed index: what the constructor establishes ---- *)
Record wf_index (ix : index) : Prop := {
  w_cs : (0 < csize ix)%Z; w_ls : (0 < lsize ix)%Z; w_dx : (0 < dX ix)%Q; w_dy : (0 < dY ix)%Q;
  w_ax : (xmax ix - xmin ix == inject_Z (csize ix) * dX ix)%Q; w_ay : (ymax ix - ymin ix == inject_Z (lsize ix) * dY ix)%Q }.

Lemma Qtrunc_pos x : (0 <= x)%Q -> (Qtrunc x <> 0)%Z -> (0 < Qtrunc x)%Z.
Proof.
  intros Hx Hne. unfold Qtrunc in *. destruct x as [n d]. unfold Qle in Hx. cbn in *. rewrite Z.mul_1_r in Hx.
  assert (0 <= Z.quot n (Z.pos d))%Z by (apply Z.quot_pos; lia). lia.
Qed.

Theorem make_wf x0 x1 y0 y1 m rx ry ix : (x0 < x1)%Q -> (y0 < y1)%Q -> (0 <= m)%Q -> (0 < rx)%Q -> (0 < ry)%Q ->
  make x0 x1 y0 y1 m rx ry = Ok ix -> wf_index ix.
Proof.
  intros Hx Hy Hm Hrx Hry. unfold make.
  set (ax := (x1 + m * (x1 - x0) - (x0 - m * (x1 - x0)))%Q). set (ay := (y1 + m * (y1 - y0) - (y0 - m * (y1 - y0)))%Q).
  assert (Pax : (0 < ax)%Q) by (unfold ax; nra). assert (Pay : (0 < ay)%Q) by (unfold ay; nra).
  destruct ((Qtrunc (ax / rx) =? 0)%Z || (Qtrunc (ay / ry) =? 0)%Z) eqn:E; [discriminate|].
  apply orb_false_iff in E. destruct E as [E1 E2]. apply Z.eqb_neq in E1, E2.
  intros [= <-].
  assert (C : (0 < Qtrunc (ax / rx))%Z) by (apply Qtrunc_pos; [apply Qlt_le_weak, Qlt_shift_div_l; [exact Hrx | lra] | exact E1]).
  assert (L : (0 < Qtrunc (ay / ry))%Z) by (apply Qtrunc_pos; [apply Qlt_le_weak, Qlt_shift_div_l; [exact Hry | lra] | exact E2]).
  assert (IC : (0 < inject_Z (Qtrunc (ax / rx)))%Q) by (change 0%Q with (inject_Z 0); rewrite <- Zlt_Qlt; exact C).
  assert (IL : (0 < inject_Z (Qtrunc (ay / ry)))%Q) by (change 0%Q with (inject_Z 0); rewrite <- Zlt_Qlt; exact L).
  constructor; cbn [csize lsize dX dY xmin xmax ymin ymax].
  - exact C.
  - exact L.
  - apply Qlt_shift_div_l; [exact IC | lra].
  - apply Qlt_shift_div_l; [exact IL | lra].
  - fold ax. field. lra.
  - fold ay. field. lra.
Qed.

Lemma Qltb_false x y : Grid.Qltb x y = false -> (y <= x)%Q.
Proof. unfold Grid.Qltb. intros H. apply negb_false_iff in H. apply Qle_bool_iff in H. exact H. Qed.

Lemma get_cell_range ix x y c : wf_index ix -> get_cell ix x y = Some c ->
  (0 <= fst c <= inject_Z (csize ix))%Q /\ (0 <= snd c <= inject_Z (lsize ix))%Q.
Proof.
  intros [Hcs Hls Hdx Hdy Hax Hay]. unfold get_cell.
  destruct (Grid.Qltb x (xmin ix)) eqn:X1; [discriminate|]. destruct (Grid.Qltb (xmax ix) x) eqn:X2; [discriminate|].
  destruct (Grid.Qltb y (ymin ix)) eqn:Y1; [discriminate|]. destruct (Grid.Qltb (ymax ix) y) eqn:Y2; [discriminate|].
  cbn [orb]. intros [= <-]. cbn [fst snd]. apply Qltb_false in X1, X2, Y1, Y2.
  split; split.
  - apply Qle_shift_div_l; [exact Hdx | lra].
  - apply Qle_shift_div_r; [exact Hdx | lra].
  - apply Qle_shift_div_l; [exact Hdy | lra].
  - apply Qle_shift_div_r; [exact Hdy | lra].
Qed.

