(* obs_coords.py: Lambert-93 forward (_projToLambert93) and inverse (__projFromLambert93), over R, in radians.
   Exact facts: the inverse recovers the longitude and the isometric latitude exactly, and the true latitude is a fixed
   point of the iteration the inverse runs (10 steps from the spherical guess). *)
From Coq Require Import Reals Lra.
Open Scope R_scope.

Section Lambert.
Variables E Xp Yp n C lambda0 : R.
Hypothesis HE : 0 <= E < 1.
Hypothesis Hn : 0 < n.
Hypothesis HC : 0 < C.

Definition ratio (phi : R) : R := (1 - E * sin phi) / (1 + E * sin phi).
(* latiso = log(tan(pi/4 + phi/2) * ((1 - E sin phi)/(1 + E sin phi)) ** (E/2)) *)
Definition latiso (phi : R) : R := ln (tan (PI / 4 + phi / 2) * Rpower (ratio phi) (E / 2)).
Definition to_lambert (lon phi : R) : R * R :=
  let L := latiso phi in
  (Xp + C * exp (- n * L) * sin (n * (lon - lambda0)), Yp - C * exp (- n * L) * cos (n * (lon - lambda0))).

Definition inv_lon (X Y : R) : R := atan (- (X - Xp) / (Y - Yp)) / n + lambda0.
Definition inv_latiso (X Y : R) : R := - ln (sqrt ((X - Xp) ^ 2 + (Y - Yp) ^ 2) / C) / n.
(* one step of the loop: phi <- 2 atan(((1 + E sin phi)/(1 - E sin phi)) ** (E/2) * exp(latiso)) - pi/2 *)
Definition inv_step (L phi : R) : R := 2 * atan (Rpower ((1 + E * sin phi) / (1 - E * sin phi)) (E / 2) * exp L) - PI / 2.
Fixpoint inv_iter (k : nat) (L phi : R) : R := match k with O => phi | S k' => inv_iter k' L (inv_step L phi) end.
Definition inv_phi (X Y : R) : R := let L := inv_latiso X Y in inv_iter 10 L (2 * atan (exp L) - PI / 2).

Lemma Esin_bound phi : -1 < E * sin phi < 1.
Proof. pose proof (SIN_bound phi) as [H1 H2]. destruct HE as [H0 H3]. split; nra. Qed.
Lemma ratio_pos phi : 0 < ratio phi.
Proof. unfold ratio. pose proof (Esin_bound phi). apply Rdiv_lt_0_compat; lra. Qed.

Theorem lambert_lon_exact lon phi : - (PI / 2) < n * (lon - lambda0) < PI / 2 ->
  let '(X, Y) := to_lambert lon phi in inv_lon X Y = lon.
Proof.
  intros Hth. unfold to_lambert, inv_lon. set (R := C * exp (- n * latiso phi)). set (th := n * (lon - lambda0)) in *.
  assert (HR : 0 < R) by (unfold R; apply Rmult_lt_0_compat; [exact HC | apply exp_pos]).
  assert (Hc : 0 < cos th) by (apply cos_gt_0; lra).
  assert (Et : - (Xp + R * sin th - Xp) / (Yp - R * cos th - Yp) = tan th).
  { assert (Hrc : 0 < R * cos th) by (apply Rmult_lt_0_compat; assumption). unfold tan. field. split; lra. }
  rewrite Et.
  rewrite atan_tan by lra. unfold th. field. lra.
Qed.

Theorem lambert_latiso_exact lon phi :
  let '(X, Y) := to_lambert lon phi in inv_latiso X Y = latiso phi.
Proof.
  unfold to_lambert, inv_latiso. set (L := latiso phi). set (R := C * exp (- n * L)). set (th := n * (lon - lambda0)).
  assert (HR : 0 < R) by (unfold R; apply Rmult_lt_0_compat; [exact HC | apply exp_pos]).
  pose proof (sin2_cos2 th) as Hs. unfold Rsqr in Hs.
  replace ((Xp + R * sin th - Xp) ^ 2 + (Yp - R * cos th - Yp) ^ 2) with (R * R * (sin th * sin th + cos th * cos th)) by ring.
  rewrite Hs, Rmult_1_r, sqrt_square by lra.
  replace (R / C) with (exp (- n * L)) by (unfold R; field; lra).
  rewrite ln_exp. field. lra.
Qed.

(* the latitude is a fixed point of the inverse's iteration, hence of all ten steps *)
Theorem lambert_phi_fixpoint phi : - (PI / 2) < phi < PI / 2 -> inv_step (latiso phi) phi = phi.
Proof.
  intros Hphi. unfold inv_step, latiso.
  assert (Ht : 0 < tan (PI / 4 + phi / 2)) by (apply tan_gt_0; lra).
  pose proof (ratio_pos phi) as Hr. pose proof (Esin_bound phi) as Hb.
  assert (Hp : 0 < Rpower (ratio phi) (E / 2)) by (unfold Rpower; apply exp_pos).
  rewrite exp_ln by (apply Rmult_lt_0_compat; assumption).
  replace ((1 + E * sin phi) / (1 - E * sin phi)) with (/ ratio phi) by (unfold ratio; field; first [split; lra | lra]).
  assert (Hinv : Rpower (/ ratio phi) (E / 2) * Rpower (ratio phi) (E / 2) = 1).
  { rewrite Rpower_mult_distr by (try assumption; apply Rinv_0_lt_compat; assumption).
    rewrite Rinv_l by lra. unfold Rpower. rewrite ln_1, Rmult_0_r. apply exp_0. }
  replace (Rpower (/ ratio phi) (E / 2) * (tan (PI / 4 + phi / 2) * Rpower (ratio phi) (E / 2)))
    with (tan (PI / 4 + phi / 2) * (Rpower (/ ratio phi) (E / 2) * Rpower (ratio phi) (E / 2))) by ring.
  rewrite Hinv, Rmult_1_r, atan_tan by lra. lra.
Qed.

Corollary lambert_iter_fixpoint k phi : - (PI / 2) < phi < PI / 2 -> inv_iter k (latiso phi) phi = phi.
Proof. intros H. induction k as [|k IH]; [reflexivity|]. cbn [inv_iter]. rewrite lambert_phi_fixpoint by exact H. exact IH. Qed.
End Lambert.
Print Assumptions lambert_lon_exact.
Print Assumptions lambert_phi_fixpoint.
