From Coq Require Import List Ascii String Bool Arith ZArith QArith Lia.
Import ListNotations.
From TL Require Import Model.Str Model.Table.

Lemma str_eqb_true a b : str_eqb a b = true <-> a = b.
Proof. unfold str_eqb. destruct (list_eq_dec ascii_dec a b); split; auto; discriminate. Qed.
Lemma str_eqb_false a b : str_eqb a b = false <-> a <> b.
Proof. unfold str_eqb. destruct (list_eq_dec ascii_dec a b); split; auto; try discriminate; contradiction. Qed.
Lemma str_eqb_refl a : str_eqb a a = true.
Proof. apply str_eqb_true. reflexivity. Qed.

Lemma NoDup_snoc {A} (l : list A) x : NoDup l -> ~ In x l -> NoDup (l ++ [x]).
Proof.
  induction 1 as [|y l Hy Hnd IH]; intros Hx; simpl; [repeat constructor; intros []|].
  constructor.
  - intros Hin. apply in_app_or in Hin. destruct Hin as [Hin|[<-|[]]]; [contradiction | apply Hx; left; reflexivity].
  - apply IH. intros Hin. apply Hx. right. assumption.
Qed.

Record Inv (t : track) : Prop := {
  inv_nodup : NoDup (names t);
  inv_idx : map snd (dico t) = seq 0 (List.length (dico t));
  inv_feats : Forall (fun f => List.length f = List.length (dico t)) (feats t);
  inv_nobs : List.length (feats t) = size t;
  inv_novirt : forall n, In n (names t) -> is_virtual n = false
}.

(* lookup returns the position of the name in insertion order *)
Lemma lookup_index : forall d base n i,
  map snd d = seq base (List.length d) -> lookup d n = Some i ->
  (base <= i < base + List.length d)%nat /\ nth (i - base) (map fst d) [] = n.
Proof.
  induction d as [|[k j] d IH]; intros base n i Hidx Hl; simpl in *; [discriminate|].
  injection Hidx as Hj Hrest. subst j.
  destruct (str_eqb k n) eqn:E.
  - injection Hl as <-. apply str_eqb_true in E. subst. split; [lia|]. rewrite Nat.sub_diag. reflexivity.
  - destruct (IH (S base) n i Hrest Hl) as [Hb Hn]. split; [lia|].
    replace (i - base)%nat with (S (i - S base)) by lia. simpl. assumption.
Qed.

Lemma lookup_none_notin : forall d n, lookup d n = None <-> ~ In n (map fst d).
Proof.
  induction d as [|[k j] d IH]; intros n; simpl; [tauto|].
  destruct (str_eqb k n) eqn:E.
  - apply str_eqb_true in E. subst. split; [discriminate | intros H; exfalso; apply H; left; reflexivity].
  - apply str_eqb_false in E. rewrite IH. split; [intros H [H1|H1]; [contradiction | auto] | intros H H1; apply H; right; assumption].
Qed.

Lemma lookup_app_new : forall d n k, ~ In n (map fst d) -> lookup (d ++ [(n, k)]) n = Some k.
Proof.
  induction d as [|[a j] d IH]; intros n k Hn; simpl.
  - rewrite str_eqb_refl. reflexivity.
  - destruct (str_eqb a n) eqn:E; [apply str_eqb_true in E; subst; exfalso; apply Hn; left; reflexivity|].
    apply IH. intros H. apply Hn. right. assumption.
Qed.
Lemma lookup_app_old : forall d n m k, m <> n -> lookup (d ++ [(n, k)]) m = lookup d m.
Proof.
  induction d as [|[a j] d IH]; intros n m k Hne; simpl.
  - destruct (str_eqb n m) eqn:E; [apply str_eqb_true in E; congruence | reflexivity].
  - destruct (str_eqb a m); [reflexivity | apply IH; assumption].
Qed.

Lemma combine_map_fst {A B} (l : list A) (l' : list B) : (List.length l <= List.length l')%nat -> map fst (combine l l') = l.
Proof.
  revert l'. induction l as [|a l IH]; intros l' H; [reflexivity|].
  destruct l' as [|b l']; simpl in *; [lia|]. f_equal. apply IH. lia.
Qed.

(* ---- createAnalyticalFeature on a fresh name ---- *)
Lemma create_new_spec t n i t' : Inv t -> has_af t n = false -> create_af t n i = Ok t' ->
  let col := match i with IScalar v => repeat v (size t) | IList l => l end in
  Inv t' /\ names t' = names t ++ [n] /\ size t' = size t /\
  get_af t' n = Ok (firstn (size t) col) /\
  xs t' = xs t /\ ys t' = ys t /\ zs t' = zs t /\ ts t' = ts t /\
  (forall m, m <> n -> get_af t' m = get_af t m).
Proof.
  intros HI Hhas Hc. unfold create_af in Hc.
  assert (Hv : is_virtual n = false) by (unfold has_af in Hhas; destruct (lookup (dico t) n); [discriminate | assumption]).
  assert (Hl : lookup (dico t) n = None) by (unfold has_af in Hhas; destruct (lookup (dico t) n); [discriminate | reflexivity]).
  rewrite Hv, Hhas in Hc. destruct (size t =? 0)%nat eqn:Es; [discriminate|].
  set (col := match i with IScalar v => repeat v (size t) | IList l => l end) in *.
  destruct (List.length col <? size t)%nat eqn:El; [discriminate|]. apply Nat.ltb_ge in El.
  injection Hc as <-. cbv zeta.
  destruct HI as [Hnd Hidx Hf Hn Hnv0].
  assert (Hnotin : ~ In n (names t)) by (apply lookup_none_notin; assumption).
  assert (Hlen : List.length (combine (feats t) col) = size t).
  { rewrite combine_length. rewrite Hn. lia. }
  split; [|split; [|split; [|split; [|repeat split]]]].
  - constructor; unfold names, size in *; simpl.
    + rewrite map_app. simpl. apply NoDup_snoc; assumption.
    + rewrite map_app, app_length. simpl. rewrite Hidx. rewrite Nat.add_1_r. rewrite seq_S. reflexivity.
    + rewrite app_length. simpl. apply Forall_forall. intros f Hin. apply in_map_iff in Hin.
      destruct Hin as [[f0 v] [<- Hin]]. rewrite app_length. simpl.
      apply in_combine_l in Hin. rewrite Forall_forall in Hf. rewrite (Hf f0 Hin). reflexivity.
    + rewrite map_length. exact Hlen.
    + intros m Hm. rewrite map_app in Hm. apply in_app_or in Hm. destruct Hm as [Hm|[<-|[]]]; [apply Hnv0; assumption | assumption].
  - unfold names. simpl. rewrite map_app. reflexivity.
  - reflexivity.
  - unfold get_af.
    assert (Hnv : forall s, In s virtuals -> str_eqb n s = false).
    { intros s Hs. apply str_eqb_false. intros ->. unfold is_virtual in Hv.
      rewrite <- not_true_iff_false in Hv. apply Hv. apply existsb_exists. exists s. split; [assumption | apply str_eqb_refl]. }
    rewrite !Hnv by (unfold virtuals; simpl; tauto).
    simpl dico. rewrite lookup_app_new by assumption. f_equal. simpl feats.
    rewrite map_map.
    assert (E : forall (fs : list (list val)) (c : list val), Forall (fun f => List.length f = List.length (dico t)) fs ->
               map (fun x : list val * val => nth (List.length (dico t)) (let '(f, v) := x in f ++ [v]) None) (combine fs c) = firstn (List.length fs) c).
    { induction fs as [|f fs IHf]; intros c Hfs; [reflexivity|]. destruct c as [|v c]; [reflexivity|]. simpl.
      inversion Hfs as [|? ? Hf1 Hfr]; subst. rewrite app_nth2 by lia. rewrite Hf1, Nat.sub_diag. simpl. f_equal. apply IHf. assumption. }
    rewrite (E _ _ Hf). rewrite Hn. reflexivity.
  - intros m Hne. unfold get_af. simpl xs; simpl ys; simpl zs; simpl ts.
    destruct (str_eqb m (s_ "x")); [reflexivity|]. destruct (str_eqb m (s_ "y")); [reflexivity|].
    destruct (str_eqb m (s_ "z")); [reflexivity|]. destruct (str_eqb m (s_ "t")); [reflexivity|].
    destruct (str_eqb m (s_ "timestamp")); [reflexivity|].
    destruct (str_eqb m (s_ "idx")); [reflexivity|].
    simpl dico. rewrite lookup_app_old by assumption.
    destruct (lookup (dico t) m) as [j|] eqn:Ej; [|reflexivity]. f_equal. simpl feats. rewrite map_map.
    destruct (lookup_index (dico t) 0 m j Hidx Ej) as [Hj _].
    assert (E : forall (fs : list (list val)) (c : list val), Forall (fun f => List.length f = List.length (dico t)) fs ->
               (List.length fs <= List.length c)%nat ->
               map (fun x : list val * val => nth j (let '(f, v) := x in f ++ [v]) None) (combine fs c) = map (fun f => nth j f None) fs).
    { induction fs as [|f fs IHf]; intros c Hfs Hc; [reflexivity|]. destruct c as [|v c]; [simpl in Hc; lia|]. simpl.
      inversion Hfs as [|? ? Hf1 Hfr]; subst. rewrite app_nth1 by lia. f_equal. apply IHf; [assumption | simpl in Hc; lia]. }
    apply E; [assumption | rewrite Hn; lia].
Qed.
Print Assumptions create_new_spec.
