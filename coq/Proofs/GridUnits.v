(* SpatialIndex.groundDistanceToUnits (repaired: smaller cell side) and the neighbourhood window, over R *)
From Coq Require Import Reals Lra Psatz ZArith Lia.
From Flocq Require Import Raux.
Open Scope R_scope.

Lemma floor_diff (a b c : R) : Rabs (a - b) <= c -> (Z.abs (Zfloor a - Zfloor b) <= Zfloor c + 1)%Z.
Proof.
  intros H. pose proof (Zfloor_lb a) as La. pose proof (Zfloor_ub a) as Ua.
  pose proof (Zfloor_lb b) as Lb. pose proof (Zfloor_ub b) as Ub.
  pose proof (Zfloor_lb c) as Lc. pose proof (Zfloor_ub c) as Uc.
  assert (Hab : - c <= a - b <= c) by (apply Rabs_le_inv; assumption).
  assert (H1 : IZR (Zfloor a - Zfloor b) < IZR (Zfloor c + 1 + 1)).
  { rewrite minus_IZR, !plus_IZR. simpl. lra. }
  assert (H2 : IZR (- (Zfloor c + 1 + 1)) < IZR (Zfloor a - Zfloor b)).
  { rewrite opp_IZR, minus_IZR, !plus_IZR. simpl. lra. }
  apply lt_IZR in H1. apply lt_IZR in H2. lia.
Qed.

Section Units.
Variables xmin ymin dX dY : R.
Hypothesis HdX : 0 < dX.
Hypothesis HdY : 0 < dY.

Definition cellx (X : R) : Z := Zfloor ((X - xmin) / dX).
Definition celly (Y : R) : Z := Zfloor ((Y - ymin) / dY).
Definition units (d : R) : Z := Zfloor (d / Rmin dX dY + 1).

Lemma Rmin_pos : 0 < Rmin dX dY.
Proof. unfold Rmin. destruct (Rle_dec dX dY); assumption. Qed.

(* a point within ground distance d of the query lies at most [units d] cells away in both directions *)
Theorem units_cover Xq Yq Xr Yr d : 0 <= d ->
  (Xq - Xr) * (Xq - Xr) + (Yq - Yr) * (Yq - Yr) <= d * d ->
  (Z.abs (cellx Xq - cellx Xr) <= units d)%Z /\ (Z.abs (celly Yq - celly Yr) <= units d)%Z.
Proof.
  intros Hd H. pose proof Rmin_pos as Hm.
  assert (Hsq : forall a b, a * a + b * b <= d * d -> Rabs a <= d).
  { intros a b Hab. pose proof (Rle_0_sqr b) as Hb. unfold Rsqr in Hb.
    rewrite <- (Rabs_pos_eq d Hd). apply Rsqr_le_abs_0. unfold Rsqr. lra. }
  assert (Hx : Rabs (Xq - Xr) <= d) by (apply (Hsq _ (Yq - Yr)); assumption).
  assert (Hy : Rabs (Yq - Yr) <= d) by (apply (Hsq _ (Xq - Xr)); lra).
  assert (Hu : (Zfloor (d / Rmin dX dY) + 1 = units d)%Z).
  { unfold units. symmetry. apply Zfloor_imp. pose proof (Zfloor_lb (d / Rmin dX dY)). pose proof (Zfloor_ub (d / Rmin dX dY)).
    rewrite !plus_IZR. simpl. lra. }
  assert (Hmx : d / dX <= d / Rmin dX dY).
  { unfold Rdiv. apply Rmult_le_compat_l; [assumption|]. apply Rinv_le_contravar; [assumption | apply Rmin_l]. }
  assert (Hmy : d / dY <= d / Rmin dX dY).
  { unfold Rdiv. apply Rmult_le_compat_l; [assumption|]. apply Rinv_le_contravar; [assumption | apply Rmin_r]. }
  split.
  - unfold cellx. rewrite <- Hu. apply floor_diff.
    replace ((Xq - xmin) / dX - (Xr - xmin) / dX) with ((Xq - Xr) / dX) by (field; lra).
    unfold Rdiv at 1. rewrite Rabs_mult. rewrite (Rabs_pos_eq (/ dX)) by (left; apply Rinv_0_lt_compat; assumption).
    eapply Rle_trans; [|exact Hmx]. unfold Rdiv. apply Rmult_le_compat_r; [left; apply Rinv_0_lt_compat; assumption | assumption].
  - unfold celly. rewrite <- Hu. apply floor_diff.
    replace ((Yq - ymin) / dY - (Yr - ymin) / dY) with ((Yq - Yr) / dY) by (field; lra).
    unfold Rdiv at 1. rewrite Rabs_mult. rewrite (Rabs_pos_eq (/ dY)) by (left; apply Rinv_0_lt_compat; assumption).
    eapply Rle_trans; [|exact Hmy]. unfold Rdiv. apply Rmult_le_compat_r; [left; apply Rinv_0_lt_compat; assumption | assumption].
Qed.
End Units.
Print Assumptions units_cover.
