(* Spike: C01 over whole histories — the table invariant and the refinement to an ordered
   name -> column map are preserved by every operation, hence by every sequence *)
From Coq Require Import List Ascii String Bool Arith ZArith QArith Lia.
Import ListNotations.
From TL Require Import Model.Str Model.Table Proofs.Table_inv Proofs.Table_remove Proofs.Table_set.

Inductive op := Create (n : str) (i : init) | Remove (n : str) | SetCol (n : str) (c : list val).

Definition apply (t : track) (o : op) : res track :=
  match o with Create n i => create_af t n i | Remove n => remove_af t n | SetCol n c => set_col t n c end.
(* a call that raises leaves the track as it was *)
Definition step (t : track) (o : op) : track := match apply t o with Ok t' => t' | Err _ => t end.

(* calls that would raise half-way through their loop are outside the quantifier *)
Definition valid_op (sz : nat) (o : op) : bool :=
  match o with
  | Create _ (IList l) => (sz <=? List.length l)%nat
  | SetCol _ c => (List.length c =? sz)%nat
  | _ => true
  end.

Definition is_coord (n : str) : bool := str_eqb n (s_ "x") || str_eqb n (s_ "y") || str_eqb n (s_ "z").

(* ---------- invariant ---------- *)
Lemma step_inv t o : Inv t -> valid_op (size t) o = true -> Inv (step t o) /\ size (step t o) = size t.
Proof.
  intros HI Hv. unfold step. destruct o as [n i|n|n c]; cbn [apply].
  - destruct (create_af t n i) as [t'|e] eqn:E; [|split; [assumption | reflexivity]].
    destruct (has_af t n) eqn:Hh.
    + unfold create_af in E. destruct (is_virtual n); [discriminate|]. destruct (size t =? 0)%nat; [discriminate|].
      rewrite Hh in E. injection E as <-. split; [assumption | reflexivity].
    + destruct (create_new_spec t n i t' HI Hh E) as [HI' [_ [Hs _]]]. split; assumption.
  - destruct (remove_af t n) as [t'|e] eqn:E; [|split; [assumption | reflexivity]].
    assert (exists i, lookup (dico t) n = Some i) as [i Hl].
    { unfold remove_af in E. destruct (negb (has_af t n)); [discriminate|].
      destruct (lookup (dico t) n) as [i|]; [exists i; reflexivity | discriminate]. }
    destruct (remove_spec t n i t' HI Hl E) as [HI' [_ [Hs _]]]. split; assumption.
  - cbn [valid_op] in Hv. apply Nat.eqb_eq in Hv.
    destruct (set_col t n c) as [t'|e] eqn:E; [|split; [assumption | reflexivity]].
    destruct (lookup (dico t) n) as [i|] eqn:Hl.
    + destruct (set_col_spec t n i c t' HI Hl Hv E) as [HI' [_ [_ [Hs _]]]]. split; assumption.
    + unfold set_col in E. rewrite Hl in E. destruct HI as [H1 H2 H3 H4 H5].
      destruct (str_eqb n (s_ "x")); [|destruct (str_eqb n (s_ "y")); [|destruct (str_eqb n (s_ "z")); [|discriminate]]];
        injection E as <-; (split; [constructor|]); unfold names, size in *; cbn [xs ys zs ts dico feats] in *;
        try assumption; try congruence.
Qed.

Theorem history_inv ops : forall t, Inv t -> forallb (valid_op (size t)) ops = true ->
  Inv (fold_left step ops t) /\ size (fold_left step ops t) = size t.
Proof.
  induction ops as [|o ops IH]; intros t HI Hv; [split; [assumption | reflexivity]|].
  cbn [forallb] in Hv. apply andb_prop in Hv. destruct Hv as [Hv1 Hv2].
  destruct (step_inv t o HI Hv1) as [HI' Hs]. cbn [fold_left].
  destruct (IH (step t o) HI') as [HI'' Hs']; [rewrite Hs; assumption|].
  split; [assumption | congruence].
Qed.
Print Assumptions history_inv.

(* ---------- refinement to an ordered map name -> column ---------- *)
Definition col_of (t : track) (n : str) : list val := match get_af t n with Ok c => c | Err _ => [] end.
Definition abs (t : track) : list (str * list val) := map (fun n => (n, col_of t n)) (names t).
Definition mem (n : str) (sp : list (str * list val)) : bool := existsb (fun kv => str_eqb (fst kv) n) sp.

Definition spec_step (sz : nat) (sp : list (str * list val)) (o : op) : list (str * list val) :=
  match o with
  | Create n i =>
      if is_virtual n || (sz =? 0)%nat || mem n sp then sp else
      let col := match i with IScalar v => repeat v sz | IList l => l end in
      if (List.length col <? sz)%nat then sp else sp ++ [(n, firstn sz col)]
  | Remove n => filter (fun kv => keep n (fst kv)) sp
  | SetCol n c => map (fun kv => if str_eqb (fst kv) n then (fst kv, c) else kv) sp
  end.

Lemma lookup_some_in : forall d n i, lookup d n = Some i -> In n (map fst d).
Proof.
  induction d as [|[k j] d IH]; intros n i H; [discriminate|]. cbn in *.
  destruct (str_eqb k n) eqn:E; [apply str_eqb_true in E; left; assumption | right; eapply IH; eassumption].
Qed.

Lemma mem_abs t n : mem n (abs t) = true <-> In n (names t).
Proof.
  unfold mem, abs. rewrite existsb_exists. split.
  - intros [kv [Hin E]]. apply in_map_iff in Hin. destruct Hin as [m [<- Hm]]. cbn in E. apply str_eqb_true in E. subst. assumption.
  - intros H. exists (n, col_of t n). split; [apply in_map_iff; exists n; split; [reflexivity | assumption] | apply str_eqb_refl].
Qed.

Lemma get_af_nonvirtual t m : is_virtual m = false ->
  get_af t m = match lookup (dico t) m with Some i => Ok (map (fun f => nth i f None) (feats t)) | None => Err AFError end.
Proof.
  intros H. unfold is_virtual, virtuals in H. cbn [existsb map] in H.
  repeat match type of H with (_ || _ = false) => apply orb_false_elim in H; destruct H as [? H] end.
  unfold get_af.
  repeat match goal with E : str_eqb m ?s = false |- context [str_eqb m ?s] => rewrite E end. reflexivity.
Qed.

Lemma filter_map_comm {A B} (f : A -> B) (p : B -> bool) l : filter p (map f l) = map f (filter (fun a => p (f a)) l).
Proof. induction l as [|a l IH]; [reflexivity|]. cbn. destruct (p (f a)); cbn; rewrite IH; reflexivity. Qed.

Lemma abs_ext t t' l : (forall m, In m l -> get_af t' m = get_af t m) ->
  map (fun n => (n, col_of t' n)) l = map (fun n => (n, col_of t n)) l.
Proof. intros H. apply map_ext_in. intros m Hm. unfold col_of. rewrite (H m Hm). reflexivity. Qed.

Lemma setmap_notin n c (l : list str) (g : str -> list val) : ~ In n l ->
  map (fun kv : str * list val => if str_eqb (fst kv) n then (fst kv, c) else kv) (map (fun m => (m, g m)) l) = map (fun m => (m, g m)) l.
Proof.
  intros H. rewrite map_map. apply map_ext_in. intros m Hm. cbn [fst].
  destruct (str_eqb m n) eqn:E; [apply str_eqb_true in E; subst; contradiction | reflexivity].
Qed.

Theorem step_refines t o : Inv t -> valid_op (size t) o = true ->
  abs (step t o) = spec_step (size t) (abs t) o.
Proof.
  intros HI Hv. unfold step. destruct o as [n i|n|n c]; cbn [apply spec_step].
  - (* create *)
    unfold create_af at 1. destruct (is_virtual n) eqn:Ev; [reflexivity|]. cbn [orb].
    destruct (size t =? 0)%nat eqn:Es; [reflexivity|]. cbn [orb].
    destruct (has_af t n) eqn:Hh.
    + assert (M : mem n (abs t) = true).
      { apply mem_abs. unfold has_af in Hh. destruct (lookup (dico t) n) eqn:L; [|congruence].
        eapply lookup_some_in. eassumption. }
      rewrite M. reflexivity.
    + assert (Hnotin : ~ In n (names t)).
      { unfold has_af in Hh. destruct (lookup (dico t) n) eqn:L; [discriminate|]. apply lookup_none_notin. assumption. }
      assert (M : mem n (abs t) = false).
      { destruct (mem n (abs t)) eqn:M; [|reflexivity]. apply mem_abs in M. contradiction. }
      rewrite M.
      set (col := match i with IScalar v => repeat v (size t) | IList l => l end).
      destruct (List.length col <? size t)%nat eqn:El; [reflexivity|].
      assert (E : create_af t n i = Ok {| xs := xs t; ys := ys t; zs := zs t; ts := ts t;
                  dico := dico t ++ [(n, List.length (dico t))];
                  feats := map (fun '(f, v) => f ++ [v]) (combine (feats t) col) |}).
      { unfold create_af. rewrite Ev, Es, Hh. fold col. rewrite El. reflexivity. }
      destruct (create_new_spec t n i _ HI Hh E) as [_ [Hn [_ [Hg [_ [_ [_ [_ Hfr]]]]]]]].
      unfold abs at 1. rewrite Hn, map_app. cbn [map]. f_equal.
      * apply abs_ext. intros m Hm. apply Hfr. intros ->. contradiction.
      * unfold col_of. rewrite Hg. reflexivity.
  - (* remove *)
    destruct (lookup (dico t) n) as [i|] eqn:Hl.
    + assert (Hh : has_af t n = true) by (unfold has_af; rewrite Hl; reflexivity).
      destruct (remove_af t n) as [t'|e] eqn:E.
      2:{ unfold remove_af in E. rewrite Hh, Hl in E. discriminate. }
      destruct (remove_spec t n i t' HI Hl E) as [_ [Hn [_ [_ [_ [_ [_ [_ Hfr]]]]]]]].
      unfold abs. rewrite Hn, filter_map_comm. cbn [fst]. apply abs_ext.
      intros m Hm. apply filter_In in Hm. destruct Hm as [_ Hk]. apply Hfr.
      unfold keep in Hk. intros ->. rewrite str_eqb_refl in Hk. discriminate.
    + assert (E : exists e, remove_af t n = Err e).
      { unfold remove_af. destruct (negb (has_af t n)); [eexists; reflexivity|]. rewrite Hl. eexists; reflexivity. }
      destruct E as [e ->].
      unfold abs. rewrite filter_map_comm. cbn [fst]. rewrite filter_keep_notin; [reflexivity|].
      apply lookup_none_notin. assumption.
  - (* set column *)
    cbn [valid_op] in Hv. apply Nat.eqb_eq in Hv.
    destruct (lookup (dico t) n) as [i|] eqn:Hl.
    + destruct (set_col t n c) as [t'|e] eqn:E.
      2:{ exfalso. unfold set_col in E. rewrite Hl in E.
          destruct (str_eqb n (s_ "x")); [discriminate|]. destruct (str_eqb n (s_ "y")); [discriminate|].
          destruct (str_eqb n (s_ "z")); discriminate. }
      destruct (set_col_spec t n i c t' HI Hl Hv E) as [_ [Hn [_ [_ [_ [_ [_ [_ [Hg Hfr]]]]]]]]].
      unfold abs. rewrite Hn, map_map. apply map_ext_in. intros m Hm. cbn [fst].
      destruct (str_eqb m n) eqn:Emn.
      * apply str_eqb_true in Emn. subst m. unfold col_of. rewrite Hg. reflexivity.
      * apply str_eqb_false in Emn. unfold col_of. rewrite (Hfr m Emn). reflexivity.
    + assert (Hnotin : ~ In n (names t)) by (apply lookup_none_notin; assumption).
      unfold abs at 2. rewrite setmap_notin by assumption.
      destruct (set_col t n c) as [t'|e] eqn:E; [|reflexivity].
      unfold set_col in E. rewrite Hl in E.
      assert (K : dico t' = dico t /\ feats t' = feats t).
      { destruct (str_eqb n (s_ "x")); [|destruct (str_eqb n (s_ "y")); [|destruct (str_eqb n (s_ "z")); [|discriminate]]];
          injection E as <-; split; reflexivity. }
      destruct K as [Kd Kf]. unfold abs, names. rewrite Kd. apply abs_ext. intros m Hm.
      pose proof (inv_novirt t HI m Hm) as Nv. rewrite !get_af_nonvirtual by assumption. rewrite Kd, Kf. reflexivity.
Qed.

(* every history: the concrete table always represents the abstract map obtained by the same history *)
Theorem history_refines ops : forall t, Inv t -> forallb (valid_op (size t)) ops = true ->
  abs (fold_left step ops t) = fold_left (spec_step (size t)) ops (abs t).
Proof.
  induction ops as [|o ops IH]; intros t HI Hv; [reflexivity|].
  cbn [forallb] in Hv. apply andb_prop in Hv. destruct Hv as [Hv1 Hv2].
  destruct (step_inv t o HI Hv1) as [HI' Hs]. cbn [fold_left].
  rewrite IH; [|assumption | rewrite Hs; assumption].
  rewrite Hs, step_refines by assumption. reflexivity.
Qed.
Print Assumptions history_refines.
