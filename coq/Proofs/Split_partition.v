From Coq Require Import List Arith Bool Lia.
Import ListNotations.
From TL Require Import Model.Split.

Section P.
Variable A : Type.

Lemma extract_spec (l : list A) b e : (b <= S e)%nat -> (S e <= length l)%nat ->
  firstn b l ++ extract A l b e = firstn (S e) l.
Proof.
  intros H1 H2. unfold extract. rewrite firstn_skipn_comm.
  replace (b + (S e - b))%nat with (S e) by lia.
  replace (firstn b l) with (firstn b (firstn (S e) l)) by (rewrite firstn_firstn; f_equal; lia).
  apply firstn_skipn.
Qed.

(* invariant of the loop: pieces emitted from position i on, prefixed by what was consumed before [begin],
   reconstruct the prefix of the track up to the last marker *)
Lemma split_loop_spec (l : list A) : forall marks i begin,
  (begin <= i)%nat -> (i + length marks = length l)%nat ->
  let '(ps, b) := split_loop A l marks i begin in
  (begin <= b <= length l)%nat /\
  firstn begin l ++ concat ps = firstn b l /\
  ((forall m, In m marks -> m = false) -> ps = [] /\ b = begin) /\
  (existsb (fun m => m) marks = true -> (i < b)%nat).
Proof.
  induction marks as [|m r IH]; intros i begin Hb Hlen; cbn [split_loop].
  - simpl in *. split; [lia|]. split; [rewrite app_nil_r; reflexivity|]. split; [auto | discriminate].
  - simpl in Hlen. destruct m.
    + specialize (IH (S i) (S i) (le_n _) ltac:(lia)).
      destruct (split_loop A l r (S i) (S i)) as [ps b]. destruct IH as [Hr [Hc [_ _]]].
      split; [lia|]. split; [|split].
      * cbn [concat]. rewrite app_assoc. rewrite extract_spec by lia. assumption.
      * intros Hall. specialize (Hall true (or_introl eq_refl)). discriminate.
      * intros _. lia.
    + specialize (IH (S i) begin ltac:(lia) ltac:(lia)).
      destruct (split_loop A l r (S i) begin) as [ps b]. destruct IH as [Hr [Hc [Hnone Hsome]]].
      split; [assumption|]. split; [assumption|]. split.
      * intros Hall. apply Hnone. intros m Hm. apply Hall. right. assumption.
      * simpl. intros H. specialize (Hsome H). lia.
Qed.

(* C11: with at least one marker the pieces, in order, are exactly the track; with none the result is empty *)
Theorem split_partition (l : list A) (marks : list bool) : length marks = length l ->
  (existsb (fun m => m) marks = true -> concat (split A l marks) = l) /\
  ((forall m, In m marks -> m = false) -> split A l marks = []).
Proof.
  intros Hlen. unfold split.
  pose proof (split_loop_spec l marks 0 0 (le_n _) ltac:(lia)) as H.
  destruct (split_loop A l marks 0 0) as [ps b]. destruct H as [Hr [Hc [Hnone Hsome]]]. simpl in Hc.
  split.
  - intros Hex. specialize (Hsome Hex). destruct (Nat.eqb_spec b 0); [lia|].
    rewrite concat_app. simpl. rewrite app_nil_r. rewrite Hc.
    destruct (Nat.eq_dec b (length l)) as [->|Hne].
    + unfold extract. rewrite skipn_all. rewrite firstn_nil. rewrite app_nil_r. apply firstn_all.
    + rewrite extract_spec by lia. replace (S (length l - 1)) with (length l) by lia. apply firstn_all.
  - intros Hall. destruct (Hnone Hall) as [-> ->]. reflexivity.
Qed.
End P.
Print Assumptions split_partition.
