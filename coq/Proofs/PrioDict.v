(* Spike: utils.priority_dict (dict + heap with lazy deletion) refines "pop the key of
   least (priority, key)".  heapq is abstracted to its contract: heappop removes a least
   element of the multiset; heappush / heapify keep the multiset. *)
From Coq Require Import List Arith Bool Lia Permutation.
Import ListNotations.

Section PD.
Variable P : Type.
Variable ple : P -> P -> bool.
Hypothesis ple_total : forall a b, ple a b = true \/ ple b a = true.
Hypothesis ple_trans : forall a b c, ple a b = true -> ple b c = true -> ple a c = true.

Definition peq (a b : P) : bool := ple a b && ple b a.
Lemma ple_refl a : ple a a = true.
Proof. destruct (ple_total a a); assumption. Qed.

Definition entry := (P * nat)%type.
(* tuple comparison (v, k) <= (v', k') of Python, keys compared by Node.__lt__ (ids) *)
Definition ent_le (e f : entry) : bool :=
  if ple (fst e) (fst f) then (if ple (fst f) (fst e) then snd e <=? snd f else true) else false.

Lemma ent_le_trans e f g : ent_le e f = true -> ent_le f g = true -> ent_le e g = true.
Proof.
  unfold ent_le. destruct e as [a i], f as [b j], g as [c k]; cbn [fst snd].
  destruct (ple a b) eqn:Eab; [|discriminate]. destruct (ple b c) eqn:Ebc; [|intros; discriminate].
  rewrite (ple_trans _ _ _ Eab Ebc).
  destruct (ple c a) eqn:Eca; [|reflexivity].
  rewrite (ple_trans _ _ _ Ebc Eca), (ple_trans _ _ _ Eca Eab).
  intros H1 H2. apply Nat.leb_le in H1, H2. apply Nat.leb_le. lia.
Qed.

Lemma ent_le_total e f : ent_le e f = true \/ ent_le f e = true.
Proof.
  unfold ent_le. destruct e as [a i], f as [b j]; cbn [fst snd].
  destruct (ple a b) eqn:Eab, (ple b a) eqn:Eba.
  - destruct (Nat.leb_spec i j); [left; reflexivity | right; apply Nat.leb_le; lia].
  - left; reflexivity.
  - right; reflexivity.
  - destruct (ple_total a b); congruence.
Qed.

Lemma ent_le_antisym_key e f : ent_le e f = true -> ent_le f e = true -> snd e = snd f.
Proof.
  unfold ent_le. destruct e as [a i], f as [b j]; cbn [fst snd].
  destruct (ple a b), (ple b a); try discriminate.
  intros H1 H2. apply Nat.leb_le in H1, H2. lia.
Qed.

(* the dict part: association list with distinct keys *)
Definition dict := list (nat * P).
Fixpoint lookup (d : dict) (k : nat) : option P :=
  match d with [] => None | (k', v) :: r => if k' =? k then Some v else lookup r k end.
Fixpoint del (d : dict) (k : nat) : dict :=
  match d with [] => [] | (k', v) :: r => if k' =? k then del r k else (k', v) :: del r k end.
Definition set (d : dict) (k : nat) (v : P) : dict := (k, v) :: del d k.

Lemma lookup_del_same d k : lookup (del d k) k = None.
Proof. induction d as [|[k' v] r IH]; [reflexivity|]. cbn. destruct (k' =? k) eqn:E; [assumption|]. cbn. rewrite E. assumption. Qed.
Lemma lookup_del_other d k k2 : k2 <> k -> lookup (del d k) k2 = lookup d k2.
Proof.
  intros N. induction d as [|[k' v] r IH]; [reflexivity|]. cbn.
  destruct (k' =? k) eqn:E.
  - apply Nat.eqb_eq in E. subst. destruct (k =? k2) eqn:E2; [apply Nat.eqb_eq in E2; congruence | assumption].
  - cbn. destruct (k' =? k2); [reflexivity | assumption].
Qed.

Definition heap := list entry.
(* while k not in self or self[k] != v *)
Definition valid (d : dict) (e : entry) : bool :=
  match lookup d (snd e) with Some v => peq (fst e) v | None => false end.

(* heappop: removes a least element *)
Definition heappop (h : heap) (e : entry) (h' : heap) : Prop :=
  Permutation h (e :: h') /\ Forall (fun f => ent_le e f = true) h.

(* pop_smallest: pop until a valid entry shows up *)
Inductive pops (d : dict) : heap -> nat -> heap -> Prop :=
| pops_valid h e h' : heappop h e h' -> valid d e = true -> pops d h (snd e) h'
| pops_skip h e h' k h'' : heappop h e h' -> valid d e = false -> pops d h' k h'' -> pops d h k h''.

(* every live (value, key) pair has an entry in the heap *)
Definition Inv (d : dict) (h : heap) : Prop := forall k v, lookup d k = Some v -> In (v, k) h.

(* __setitem__: push, or rebuild from the items *)
Definition items_heap (d : dict) : heap := map (fun kv => (snd kv, fst kv)) d.

Lemma lookup_in_items d k v : lookup d k = Some v -> In (v, k) (items_heap d).
Proof.
  induction d as [|[k' v'] r IH]; [discriminate|]. cbn. destruct (k' =? k) eqn:E.
  - apply Nat.eqb_eq in E. intros [= ->]. left. congruence.
  - intros H. right. apply IH. assumption.
Qed.

Lemma inv_rebuild d : Inv d (items_heap d).
Proof. intros k v. apply lookup_in_items. Qed.

Lemma inv_push d h k v : Inv d h -> Inv (set d k v) ((v, k) :: h).
Proof.
  intros I k2 v2. unfold set. cbn [lookup]. destruct (k =? k2) eqn:E.
  - apply Nat.eqb_eq in E. intros [= ->]. left. congruence.
  - apply Nat.eqb_neq in E. rewrite lookup_del_other by congruence. intros H. right. apply I. assumption.
Qed.

Lemma inv_perm d h h' : Permutation h h' -> Inv d h -> Inv d h'.
Proof. intros Pm I k v H. eapply Permutation_in; [exact Pm | apply I; assumption]. Qed.

(* main lemma: the popped key is live, least among the live pairs, and the invariant survives `del self[k]` *)
Theorem pops_spec d h k h' : Inv d h -> pops d h k h' ->
  (exists v, lookup d k = Some v /\ forall k2 v2, lookup d k2 = Some v2 -> ent_le (v, k) (v2, k2) = true)
  /\ Inv (del d k) h'.
Proof.
  intros I Hp. induction Hp as [h e h' [Pm Mn] V | h e h' k h'' [Pm Mn] V Hp IH].
  - destruct e as [v k]. unfold valid in V. cbn [fst snd] in *.
    destruct (lookup d k) as [v'|] eqn:L; [|discriminate].
    apply andb_prop in V. destruct V as [V1 V2]. split.
    + exists v'. split; [reflexivity|]. intros k2 v2 L2.
      pose proof (I _ _ L2) as In2. rewrite Forall_forall in Mn. specialize (Mn _ In2).
      apply ent_le_trans with (f := (v, k)); [|assumption].
      unfold ent_le; cbn [fst snd]. rewrite V2, V1. apply Nat.leb_refl.
    + intros k2 v2 L2. destruct (Nat.eq_dec k2 k) as [->|N]; [rewrite lookup_del_same in L2; discriminate|].
      rewrite lookup_del_other in L2 by assumption.
      pose proof (Permutation_in _ Pm (I _ _ L2)) as [E|In2]; [congruence | assumption].
  - apply IH. intros k2 v2 L2.
    pose proof (Permutation_in _ Pm (I _ _ L2)) as [E|In2]; [|assumption].
    subst e. unfold valid in V. cbn [fst snd] in V. rewrite L2 in V. unfold peq in V. rewrite ple_refl in V. discriminate.
Qed.

(* a least element of a non-empty list exists: heappop is always enabled *)
Lemma least_exists (h : heap) : h <> [] -> exists e h', heappop h e h'.
Proof.
  induction h as [|a r IH]; [congruence|]. intros _. destruct r as [|b r'].
  - exists a, []. split; [reflexivity|]. constructor; [|constructor].
    unfold ent_le. rewrite ple_refl. apply Nat.leb_refl.
  - destruct (IH ltac:(discriminate)) as [e [h' [Pm Mn]]].
    destruct (ent_le_total a e) as [L|L].
    + exists a, (b :: r'). split; [reflexivity|]. constructor.
      * unfold ent_le. rewrite ple_refl. apply Nat.leb_refl.
      * rewrite Forall_forall in *. intros f Hf. apply ent_le_trans with (f := e); [assumption | apply Mn; assumption].
    + exists e, (a :: h'). split.
      * rewrite Pm. apply perm_swap.
      * constructor; assumption.
Qed.

(* pop_smallest terminates with a key whenever the dict is not empty *)
Theorem pops_total d : forall h, Inv d h -> d <> [] -> exists k h', pops d h k h'.
Proof.
  intros h. remember (length h) as n eqn:En. revert h En.
  induction n as [|n IH]; intros h En I Nd.
  - destruct d as [|[k v] r]; [congruence|]. specialize (I k v). cbn in I. rewrite Nat.eqb_refl in I.
    specialize (I eq_refl). destruct h; [contradiction | discriminate].
  - destruct (least_exists h ltac:(destruct h; [discriminate | discriminate])) as [e [h' [Pm Mn]]].
    destruct (valid d e) eqn:V.
    + exists (snd e), h'. eapply pops_valid; [split; eassumption | assumption].
    + assert (I' : Inv d h').
      { intros k2 v2 L2. pose proof (Permutation_in _ Pm (I _ _ L2)) as [E|In2]; [|assumption].
        subst e. unfold valid in V. cbn [fst snd] in V. rewrite L2 in V. unfold peq in V. rewrite ple_refl in V. discriminate. }
      pose proof (Permutation_length Pm) as Hl. cbn [length] in Hl.
      destruct (IH h' ltac:(lia) I' Nd) as [k [h'' Hp]].
      exists k, h''. eapply pops_skip; [split; eassumption | eassumption | eassumption].
Qed.
End PD.

Check pops_spec. Check pops_total.
Print Assumptions pops_spec. Print Assumptions pops_total.
