(* Spike: witnesses that the faithful models of the current code refute the full statements (C12, C18) *)
From Coq Require Import List Arith QArith Bool Lia.
Import ListNotations.
From TL Require Import Model.Partition Model.Dtw.
Open Scope Q_scope.

(* C12: optimalPartition ignores its mode argument and always maximises; asked to minimise it returns a
   partition that costs more than another one *)
Theorem partition_mode_refuted : exists N cost,
  let got := optimal_partition false N cost in       (* what the code computes for either mode *)
  let best := optimal_partition true N cost in       (* the intended rule *)
  Qcompare (chain_cost cost best) (chain_cost cost got) = Lt.
Proof. exists 5%nat, c1. vm_compute. reflexivity. Qed.

(* C18: with the current back-pointer rule the returned coupling does not realise the reported score *)
Theorem dtw_backpointer_refuted : exists n2 n1 D,
  let '(score, p) := dtw Qplus D (pred_cur Qplus D) n2 n1 in
  Qcompare score (path_cost Qplus D p) = Lt.
Proof. exists 3%nat, 3%nat, Dw. vm_compute. reflexivity. Qed.

(* C07: run_routing_backward stops at the first node whose distance is 0 (`while node.poids != 0 and ...`),
   so a zero-weight first edge truncates the path: it no longer starts at the source *)
From TL Require Import Model.Graph Proofs.Graph_fuel.
Fixpoint walk_back_cur (fuel : nat) (s : Graph.st) (v : nat) : list nat :=
  match fuel with
  | O => [v]
  | S f => match Graph.poids s v, Graph.ante s v with
           | Some d, Some (u, _) => if Qeq_bool d 0 then [v] else v :: walk_back_cur f s u
           | _, _ => [v]
           end
  end.
Definition gz : graph := [
  {| eid := 0; esrc := 0; etgt := 1; eori := 0%Z; ew := 0 |};
  {| eid := 1; esrc := 1; etgt := 2; eori := 0%Z; ew := 1 |};
  {| eid := 2; esrc := 2; etgt := 3; eori := 0%Z; ew := 1 |} ].
Theorem path_zero_weight_refuted :
  let s := run (fuel_of gz) gz (Some 3%nat) 1000 (init 0) in
  rev (walk_back_cur 10 s 3%nat) = [1; 2; 3]%nat.          (* the source 0 is missing *)
Proof. vm_compute. reflexivity. Qed.
