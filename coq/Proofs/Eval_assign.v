(* C02, the '=' clause: Track.operate("lhs=expr") for a left-hand name that does not exist yet creates exactly that
   feature with the value of the expression tree, and changes nothing else *)
From Coq Require Import List Ascii String Bool Arith ZArith QArith Lia.
Import ListNotations.
From TL Require Import Model.Str Model.Rpn Model.Table Model.Eval Model.Pipeline
                       Proofs.Rpn_parse Proofs.Rpn_output Proofs.Table_inv Proofs.Table_remove Proofs.Table_set
                       Proofs.Eval_write Proofs.Eval_sem Proofs.Eval_machine Proofs.Eval_apply Proofs.Eval_run Proofs.Eval_top Proofs.Eval_operate.

(* ------------------------------------------------------------------ substrings of  a ++ c :: b *)
Lemma prefix_chars : forall p s, prefix p s = true -> forall c, In c p -> In c s.
Proof.
  induction p as [|a p IH]; intros s H c Hc; [destruct Hc|]. destruct s as [|b s]; [discriminate H|].
  cbn [prefix] in H. apply andb_prop in H. destruct H as [H1 H2]. apply Ascii.eqb_eq in H1. subst b.
  destruct Hc as [<-|Hc]; [left; reflexivity | right; apply (IH s H2 c Hc)].
Qed.
Lemma contains_chars p : forall s, contains p s = true -> forall c, In c p -> In c s.
Proof.
  induction s as [|b s IH]; intros H c Hc.
  - cbn [contains] in H. rewrite orb_false_r in H. exact (prefix_chars p [] H c Hc).
  - cbn [contains] in H. apply orb_prop in H. destruct H as [H|H]; [exact (prefix_chars p _ H c Hc) | right; exact (IH H c Hc)].
Qed.

Lemma prefix_app : forall a p c b, prefix p (a ++ c :: b) = true ->
  prefix p a = true \/ exists p3, p = a ++ c :: p3 /\ prefix p3 b = true.
Proof.
  induction a as [|x a IH]; intros p c b H.
  - destruct p as [|y p]; [left; reflexivity|]. cbn [app prefix] in H. apply andb_prop in H. destruct H as [H1 H2].
    apply Ascii.eqb_eq in H1. subst y. right. exists p. split; [reflexivity | exact H2].
  - destruct p as [|y p]; [left; reflexivity|]. cbn [app prefix] in H. apply andb_prop in H. destruct H as [H1 H2].
    destruct (IH p c b H2) as [Hp|[p3 [-> Hp3]]].
    + left. cbn [prefix]. rewrite H1, Hp. reflexivity.
    + right. exists p3. apply Ascii.eqb_eq in H1. subst y. split; [reflexivity | exact Hp3].
Qed.

(* a match in a ++ c :: b lies in a, lies in b, or straddles the separator: p = a2 ++ c :: p3 with a2 a suffix of a and p3 a prefix of b *)
Lemma contains_sep p c b : forall a, contains p (a ++ c :: b) = true ->
  contains p a = true \/ contains p b = true \/ exists a1 a2 p3, a = a1 ++ a2 /\ p = a2 ++ c :: p3 /\ prefix p3 b = true.
Proof.
  induction a as [|x a IH]; intros H.
  - cbn [app contains] in H. apply orb_prop in H. destruct H as [H|H]; [|right; left; exact H].
    destruct (prefix_app [] p c b H) as [Hp|[p3 [-> Hp3]]].
    + left. cbn [contains]. rewrite Hp. reflexivity.
    + right. right. exists [], [], p3. split; [reflexivity | split; [reflexivity | exact Hp3]].
  - cbn [app contains] in H. apply orb_prop in H. destruct H as [H|H].
    + destruct (prefix_app (x :: a) p c b H) as [Hp|[p3 [-> Hp3]]].
      * left. cbn [contains]. rewrite Hp. reflexivity.
      * right. right. exists [], (x :: a), p3. split; [reflexivity | split; [reflexivity | exact Hp3]].
    + destruct (IH H) as [Ha|[Hb|[a1 [a2 [p3 [-> [-> Hp3]]]]]]].
      * left. cbn [contains]. rewrite Ha. apply orb_true_r.
      * right. left. exact Hb.
      * right. right. exists (x :: a1), a2, p3. split; [reflexivity | split; [reflexivity | exact Hp3]].
Qed.

Lemma contains_mid p : forall a b, contains p (a ++ p ++ b) = true.
Proof.
  assert (P : forall b, prefix p (p ++ b) = true) by (induction p as [|x p IH]; intros b; [reflexivity | cbn; rewrite Ascii.eqb_refl; apply IH]).
  induction a as [|x a IH]; intros b.
  - cbn [app]. pose proof (P b) as Hb. destruct (p ++ b) as [|y r]; cbn [contains]; rewrite Hb; reflexivity.
  - cbn [app contains]. rewrite IH. apply orb_true_r.
Qed.

(* ------------------------------------------------------------------ the string rewrites on  lhs=expr *)
(* a left-hand name: not empty, no operator / parenthesis / space / brace *)
Definition lhs_ok (s : str) : Prop :=
  s <> [] /\ forallb (fun c => negb (special c)) s = true /\ forallb (fun c => negb (Ascii.eqb c "{") && negb (Ascii.eqb c "}")) s = true.

Definition pat_kind (p : str) : bool := existsb special p || str_eqb p (s_ "{") || str_eqb p (s_ "}").
Lemma pats_kind : forallb pat_kind pats = true.
Proof. vm_compute. reflexivity. Qed.
Definition has_eq (p : str) : bool := existsb (fun c => Ascii.eqb c "=") p.

Lemma str_eqb_true a b : str_eqb a b = true -> a = b.
Proof. apply str_eqb_eq. Qed.

Lemma lhs_no_pat lhs p : lhs_ok lhs -> In p pats -> contains p lhs = false.
Proof.
  intros [Hne [Hsp Hbr]] Hp. destruct (contains p lhs) eqn:E; [|reflexivity]. exfalso.
  pose proof pats_kind as K. rewrite forallb_forall in K. specialize (K p Hp). unfold pat_kind in K.
  apply orb_prop in K. destruct K as [K|K]; [apply orb_prop in K; destruct K as [K|K]|].
  - apply existsb_exists in K. destruct K as [c [Hc Hs]]. pose proof (contains_chars p lhs E c Hc) as Hin.
    rewrite forallb_forall in Hsp. specialize (Hsp c Hin). rewrite Hs in Hsp. discriminate.
  - apply str_eqb_true in K. subst p. pose proof (contains_chars _ lhs E "{"%char (or_introl eq_refl)) as Hin.
    rewrite forallb_forall in Hbr. specialize (Hbr _ Hin). discriminate.
  - apply str_eqb_true in K. subst p. pose proof (contains_chars _ lhs E "}"%char (or_introl eq_refl)) as Hin.
    rewrite forallb_forall in Hbr. specialize (Hbr _ Hin). discriminate.
Qed.

(* the patterns that contain '=' are  X=  (X an operator string) and  =-  =+ *)
Definition eq_shape (p : str) : bool :=
  negb (has_eq p)
  || (match rev p with "="%char :: x :: _ => special x && negb (has_eq (removelast p)) | _ => false end)
  || str_eqb p (s_ "=-") || str_eqb p (s_ "=+").
Lemma pats_eq_shape : forallb eq_shape pats = true.
Proof. vm_compute. reflexivity. Qed.

Lemma in_has_eq p : In "="%char p -> has_eq p = true.
Proof. intros H. unfold has_eq. apply existsb_exists. exists "="%char. split; [exact H | reflexivity]. Qed.

Lemma eq_sign_absurd (sg : ascii) a2 p3 e :
  ["="%char; sg] = a2 ++ "="%char :: p3 -> prefix p3 (print e) = true -> clean (print e) = true -> sg = "-"%char \/ sg = "+"%char -> False.
Proof.
  intros Hpe Hp3 Hc Hsg. destruct a2 as [|y a2].
  - cbn [app] in Hpe. injection Hpe as Hp3e. subst p3. unfold clean in Hc. apply andb_prop in Hc. destruct Hc as [_ Hc].
    destruct (print e) as [|c0 r0]; [discriminate|]. cbn [prefix] in Hp3. apply andb_prop in Hp3. destruct Hp3 as [Hp3 _].
    apply Ascii.eqb_eq in Hp3. subst c0. destruct Hsg as [->| ->]; discriminate Hc.
  - cbn [app] in Hpe. injection Hpe as _ Hpe. destruct a2 as [|z a2]; cbn [app] in Hpe.
    + injection Hpe as Hz _. subst sg. destruct Hsg; discriminate.
    + injection Hpe as _ Hpe. destruct a2; discriminate Hpe.
Qed.

Definition assign_str (lhs : str) (e : expr) : str := lhs ++ "="%char :: print e.

Lemma assign_no_pat lhs e p : lhs_ok lhs -> clean (print e) = true -> In p pats -> contains p (assign_str lhs e) = false.
Proof.
  intros Hl Hc Hp. destruct (contains p (assign_str lhs e)) eqn:E; [|reflexivity]. exfalso. unfold assign_str in E.
  destruct (contains_sep p "="%char (print e) lhs E) as [Ha|[Hb|[a1 [a2 [p3 [Hlhs [Hpe Hp3]]]]]]].
  - rewrite (lhs_no_pat lhs p Hl Hp) in Ha. discriminate.
  - rewrite (clean_pat _ p Hc Hp) in Hb. discriminate.
  - pose proof pats_eq_shape as K. rewrite forallb_forall in K. specialize (K p Hp). unfold eq_shape in K.
    assert (Heq : has_eq p = true) by (apply in_has_eq; rewrite Hpe; apply in_or_app; right; left; reflexivity).
    rewrite Heq in K. cbn [negb orb] in K.
    apply orb_prop in K. destruct K as [K|K]; [apply orb_prop in K; destruct K as [K|K]|].
    + (* X= : the '=' is the last character, so p3 = [] and a2 = X is a non-empty suffix of lhs made of an operator character *)
      destruct (rev p) as [|r0 [|x rr]] eqn:Er; try discriminate K. 1:{ destruct r0 as [[|] [|] [|] [|] [|] [|] [|] [|]]; discriminate K. } destruct (Ascii.eqb_spec r0 "="%char) as [->|N]; [|destruct r0 as [[|] [|] [|] [|] [|] [|] [|] [|]]; try discriminate K; contradiction N; reflexivity].
      change (special x && negb (has_eq (removelast p)) = true) in K.
      apply andb_prop in K. destruct K as [Kx Kn].
      assert (Hp' : p = rev rr ++ [x] ++ ["="%char]).
      { rewrite <- (rev_involutive p), Er. cbn [rev]. rewrite <- app_assoc. reflexivity. }
      assert (Hrl : removelast p = rev rr ++ [x]).
      { rewrite Hp'. rewrite app_assoc. apply removelast_last. }
      rewrite Hrl in Kn. apply negb_true_iff in Kn.
      (* p = a2 ++ "=" :: p3 and the only '=' of p is its last character: p3 = [] and a2 = rev rr ++ [x] *)
      assert (Hp3e : p3 = []).
      { destruct p3 as [|y p3'] using rev_ind; [reflexivity|]. exfalso.
        rewrite Hp' in Hpe. rewrite !app_assoc in Hpe. change (a2 ++ "="%char :: p3' ++ [y]) with (a2 ++ ("="%char :: p3') ++ [y]) in Hpe.
        rewrite app_assoc in Hpe. apply app_inj_tail in Hpe. destruct Hpe as [Hpe _].
        assert (In "="%char (rev rr ++ [x])) by (rewrite Hpe; apply in_or_app; right; left; reflexivity).
        rewrite (in_has_eq _ H) in Kn. discriminate. }
      subst p3. rewrite Hp' in Hpe. rewrite app_assoc in Hpe. apply app_inj_tail in Hpe. destruct Hpe as [Hpe _].
      destruct Hl as [_ [Hsp _]]. rewrite forallb_forall in Hsp.
      assert (Hin : In x lhs) by (rewrite Hlhs, <- Hpe; apply in_or_app; right; apply in_or_app; right; left; reflexivity).
      specialize (Hsp x Hin). rewrite Kx in Hsp. discriminate.
    + (* =- : the expression would start with '-' *)
      apply str_eqb_true in K. rewrite K in Hpe. exact (eq_sign_absurd "-"%char a2 p3 e Hpe Hp3 Hc (or_introl eq_refl)).
    + apply str_eqb_true in K. rewrite K in Hpe. exact (eq_sign_absurd "+"%char a2 p3 e Hpe Hp3 Hc (or_intror eq_refl)).
Qed.

(* the rewrites of __evaluate are the identity on a string without any of the patterns (generalises the lemmas of Eval_top) *)
Section Rewrites.
Variable s : str.
Hypothesis HP : forall p, In p pats -> contains p s = false.

Lemma special_id_g : special_op_char s = s.
Proof.
  unfold special_op_char.
  rewrite (replace_id (s_ "**")) by (apply HP; inpats).
  rewrite (replace_id (s_ ".*")) by (apply HP; inpats).
  rewrite (replace_id (s_ "{")) by (apply HP; inpats).
  rewrite (replace_id (s_ "}")) by (apply HP; inpats).
  rewrite (replace_id (s_ ">>")) by (apply HP; inpats).
  apply replace_id. apply HP; inpats.
Qed.

Lemma reflex_id_g : convert_reflex s = s.
Proof.
  unfold convert_reflex.
  assert (G : forall ops, (forall op, In op ops -> contains (op ++ s_ "=") s = false) ->
    fold_left (fun e op => let pat := op ++ s_ "=" in
      if contains pat e then match split_first pat e with
        | Some (a, rest) => let b := match split_first pat rest with Some (b, _) => b | None => rest end in
                            a ++ s_ "=" ++ a ++ op ++ s_ "(" ++ b ++ s_ ")"
        | None => e end else e) ops s = s).
  { induction ops as [|op ops IH]; intros Hops; [reflexivity|]. cbn [fold_left]. cbv zeta.
    rewrite (Hops op (or_introl eq_refl)). apply IH. intros op' Hin. apply Hops. right. assumption. }
  apply G. intros op Hin. apply HP.
  unfold pats. apply in_or_app. right. apply in_or_app. left. apply (in_map (fun op => op ++ s_ "=")). assumption.
Qed.

Lemma unary_id_g c r : s = c :: r -> Ascii.eqb c "-" || Ascii.eqb c "+" = false -> unary_op s = Ok s.
Proof.
  intros Es Hc. unfold unary_op. rewrite Es. rewrite Hc. rewrite <- Es.
  rewrite (replace_id (s_ "=-")) by (apply HP; inpats).
  rewrite (replace_id (s_ "=+")) by (apply HP; inpats).
  rewrite (replace_id (s_ "(-")) by (apply HP; inpats).
  rewrite (replace_id (s_ "(+")) by (apply HP; inpats).
  rewrite (replace_id (s_ "--")) by (apply HP; inpats).
  rewrite (replace_id (s_ "++")) by (apply HP; inpats).
  rewrite (replace_id (s_ "+-")) by (apply HP; inpats).
  rewrite (replace_id (s_ "-+")) by (apply HP; inpats).
  reflexivity.
Qed.

Lemma mark_id_g : mark_functions s = s.
Proof.
  unfold mark_functions.
  assert (G : forall ks, (forall k, In k ks -> contains (k ++ s_ "(") s = false) ->
    fold_left (fun e k => replace (k ++ s_ "(") (k ++ s_ "@(") e) ks s = s).
  { induction ks as [|k ks IH]; intros Hks; [reflexivity|]. cbn [fold_left].
    rewrite replace_id by (apply Hks; left; reflexivity). apply IH. intros k' Hin. apply Hks. right. assumption. }
  apply G. intros k Hin. apply HP.
  unfold pats. apply in_or_app. right. apply in_or_app. right. apply in_or_app. right. apply (in_map (fun k => k ++ s_ "(")). assumption.
Qed.
End Rewrites.

(* ------------------------------------------------------------------ the parser on  lhs=expr *)
Lemma lhs_wf lhs : lhs_ok lhs -> wf (Atom lhs).
Proof. intros [Hne [Hs _]]. split; assumption. Qed.

Theorem wrap_assign lhs e fuel : lhs_ok lhs -> wf e -> (0 < minclass e)%nat -> (Rpn_parse.size e < fuel)%nat ->
  makeRPN (S fuel) (assign_str lhs e) = Rpn.Ok ([lhs] ++ postfix e ++ [["="%char]]).
Proof.
  intros Hl Hwf Hm Hsz. unfold assign_str.
  assert (Hsplit : first_split classes (lhs ++ "="%char :: print e) = Some (lhs, "="%char, print e)).
  { unfold classes. cbn [first_split]. change ["="%char] with (nth 0 classes []).
    rewrite rev_app_distr. cbn [rev]. rewrite <- !app_assoc. cbn [app].
    rewrite (scan_print 0 ltac:(lia) e Hwf _ 0%Z [] ltac:(lia) ltac:(right; assumption)).
    rewrite scan_cons. change (dstep "="%char 0) with 0%Z. cbn [Z.eqb andb].
    change (mem "="%char (nth 0 classes [])) with true. cbv iota.
    rewrite app_nil_r. rewrite rev_involutive. reflexivity. }
  cbn [makeRPN]. rewrite Hsplit.
  assert (Hpos : (1 <= Rpn_parse.size e)%nat) by (destruct e; cbn; lia).
  pose proof (parse_correct fuel (Atom lhs) (lhs_wf lhs Hl) ltac:(cbn; lia)) as Hleft. cbn [print postfix] in Hleft.
  rewrite Hleft, (parse_correct fuel e Hwf Hsz). reflexivity.
Qed.

(* ------------------------------------------------------------------ the assignment step for a new name *)
Lemma not_xyz t lhs : has_af t lhs = false -> existsb (str_eqb lhs) (map s_ ["x"; "y"; "z"]%string) = false.
Proof.
  intros H. destruct (existsb (str_eqb lhs) (map s_ ["x"; "y"; "z"]%string)) eqn:E; [|reflexivity]. exfalso.
  apply existsb_exists in E. destruct E as [v [Hv Ev]]. apply str_eqb_true in Ev. subst v.
  unfold has_af in H. destruct (lookup (dico t) lhs); [discriminate|].
  cbn in Hv. destruct Hv as [<-|[<-|[<-|[]]]]; discriminate H.
Qed.

Lemma assign_new t lhs it d k :
  Inv t -> coords_ok t -> Table.size t <> 0%nat -> has_af t lhs = false -> irel t it d ->
  (match d with DC col => List.length col = Table.size t | DS _ => True end) ->
  exists t1, apply_op t (SStr lhs) it "=" k = Ok (t1, SNone) /\ Inv t1 /\ names t1 = names t ++ [lhs] /\
    Table.size t1 = Table.size t /\ get_af t1 lhs = Ok (dcol (Table.size t) d) /\
    xs t1 = xs t /\ ys t1 = ys t /\ zs t1 = zs t /\ ts t1 = ts t /\
    (forall m, m <> lhs -> get_af t1 m = get_af t m).
Proof.
  intros HI Hco Hs Hout Hrel Hlen. unfold apply_op. change (Ascii.eqb "=" "=") with true. cbv iota.
  destruct d as [v|col].
  - destruct Hrel as [Ha [Hb Hc]]. rewrite Ha, Hc. cbn [bind].
    rewrite (not_xyz t lhs Hout).
    assert (Hlk : lookup (dico t) lhs = None) by (unfold has_af in Hout; destruct (lookup (dico t) lhs); [discriminate | reflexivity]).
    rewrite Hlk.
    destruct (create_new_ok t lhs v Hout Hs) as [t1 Hcr]. rewrite Hcr. cbn [bind].
    destruct (create_new_spec t lhs (IScalar v) t1 HI Hout Hcr) as [HI1 [Hn [Hsz [Hg [Hx [Hy [Hz [Ht Hfr]]]]]]]].
    exists t1. split; [reflexivity|]. split; [exact HI1|]. split; [exact Hn|]. split; [exact Hsz|]. split; [|repeat split; assumption].
    cbn [dcol]. rewrite Hg. f_equal. apply firstn_all2. rewrite repeat_length. apply Nat.le_refl.
  - destruct Hrel as [n [-> [Ha [Hb Hc]]]]. cbn [item_has_af]. rewrite Ha, Hout, Hc. cbn [bind].
    destruct (create_list_ok t lhs col Hout Hs Hlen) as [t1 Hcr]. rewrite Hcr. cbn [bind].
    destruct (create_new_spec t lhs (IList col) t1 HI Hout Hcr) as [HI1 [Hn [Hsz [Hg [Hx [Hy [Hz [Ht Hfr]]]]]]]].
    exists t1. split; [reflexivity|]. split; [exact HI1|]. split; [exact Hn|]. split; [exact Hsz|]. split; [|repeat split; assumption].
    cbn [dcol]. rewrite Hg. f_equal. apply firstn_all2. rewrite Hlen. apply Nat.le_refl.
Qed.

(* ------------------------------------------------------------------ Track.operate("lhs=expr"), lhs a new name *)
Lemma lhs_nospace lhs : lhs_ok lhs -> forallb (fun c => negb (Ascii.eqb c " ")) lhs = true.
Proof.
  intros [_ [Hs _]]. rewrite forallb_forall in *. intros c Hc. specialize (Hs c Hc). apply negb_true_iff in Hs.
  apply negb_true_iff. destruct (Ascii.eqb_spec c " ") as [->|]; [discriminate Hs | reflexivity].
Qed.

Lemma forallb_app_true {A} (f : A -> bool) a b : forallb f a = true -> forallb f b = true -> forallb f (a ++ b) = true.
Proof. intros Ha Hb. rewrite forallb_app, Ha, Hb. reflexivity. Qed.

Theorem operate_assign_new lhs e t d :
  Inv t -> coords_ok t -> Table.size t <> 0%nat -> fresh_from t 0 ->
  (forall m, In m (names t) -> is_temp m = false) ->
  lhs_ok lhs -> has_af t lhs = false -> is_temp lhs = false ->
  wf e -> wfe t e -> (0 < minclass e)%nat -> clean (print e) = true -> sem t e = Ok d ->
  exists t3, operate_str t (assign_str lhs e) = Ok (t3, None)
    /\ Inv t3 /\ names t3 = names t ++ [lhs]
    /\ get_af t3 lhs = Ok (dcol (Table.size t) d)
    /\ (forall m, has_af t m = true -> get_af t3 m = get_af t m)
    /\ xs t3 = xs t /\ ys t3 = ys t /\ zs t3 = zs t /\ ts t3 = ts t.
Proof.
  intros HI Hco Hs Hfresh Hnt Hl Hnew Hlt Hwf Hwfe Hmin Hclean Hsem.
  assert (HP : forall p, In p pats -> contains p (assign_str lhs e) = false) by (intros p Hp; apply assign_no_pat; assumption).
  assert (Hsp : forallb (fun c => negb (Ascii.eqb c " ")) (assign_str lhs e) = true).
  { unfold assign_str. apply forallb_app_true; [apply lhs_nospace; exact Hl|]. cbn [forallb]. cbn [Ascii.eqb negb andb].
    unfold clean in Hclean. apply andb_prop in Hclean. destruct Hclean as [Hc _]. apply andb_prop in Hc. destruct Hc as [Hc _].
    apply andb_prop in Hc. destruct Hc as [_ Hc]. exact Hc. }
  assert (Hvoid : contains (s_ "=") (assign_str lhs e) = true) by (apply (contains_mid (s_ "=") lhs (print e))).
  destruct lhs as [|c0 r0] eqn:Elhs; [destruct Hl as [Hne _]; congruence|]. rewrite <- Elhs in *.
  assert (Hc0 : Ascii.eqb c0 "-" || Ascii.eqb c0 "+" = false).
  { destruct Hl as [_ [Hsx _]]. rewrite Elhs in Hsx. cbn [forallb] in Hsx. apply andb_prop in Hsx. destruct Hsx as [Hsx _].
    apply negb_true_iff in Hsx. destruct (Ascii.eqb_spec c0 "-") as [->|]; [discriminate Hsx|]. destruct (Ascii.eqb_spec c0 "+") as [->|]; [discriminate Hsx | reflexivity]. }
  unfold operate_str, evaluate. cbv zeta.
  rewrite (filter_nospace _ Hsp), (special_id_g _ HP), (reflex_id_g _ HP).
  rewrite (unary_id_g _ HP c0 (r0 ++ "="%char :: print e)) by (try exact Hc0; unfold assign_str; rewrite Elhs; reflexivity).
  cbn [bind]. rewrite (mark_id_g _ HP), Hvoid.
  rewrite (wrap_assign lhs e (List.length (assign_str lhs e)) Hl Hwf Hmin).
  2:{ pose proof (size_le_print e Hwf). unfold assign_str. rewrite app_length. cbn [List.length]. lia. }
  cbn [rpn_res bind app].
  assert (Hopt : op_token lhs = false).
  { rewrite Elhs. destruct r0 as [|c1 r1]; [|reflexivity]. cbn [op_token].
    destruct Hl as [_ [Hsx _]]. rewrite Elhs in Hsx. cbn [forallb] in Hsx. apply andb_prop in Hsx. destruct Hsx as [Hsx _]. apply negb_true_iff in Hsx.
    destruct (mem c0 operators) eqn:Em; [|reflexivity]. exfalso.
    unfold operators in Em. cbn in Em. unfold special, class_of in Hsx.
    repeat match type of Em with context [Ascii.eqb ?a ?b] => destruct (Ascii.eqb_spec a b) as [->|]; [cbn in Hsx; discriminate Hsx|] end. discriminate Em. }
  rewrite run_push by exact Hopt.
  destruct (run_expr e t 0 [SStr lhs] [["="%char]] d HI Hco Hs Hfresh Hwfe Hsem) as [t' [it [Hrun [Hext [Hco' Hirel]]]]].
  rewrite Hrun. rewrite run_op by reflexivity.
  pose proof (e_inv _ _ _ _ Hext) as HI'. pose proof (e_size _ _ _ _ Hext) as Hsz'.
  assert (Hnew' : has_af t' lhs = false).
  { destruct (has_af t' lhs) eqn:E; [|reflexivity].
    destruct (e_new _ _ _ _ Hext lhs Hnew E) as [j [_ Hj]]. rewrite Hj, temp_is_temp in Hlt. discriminate. }
  assert (Hlen : match d with DC col => List.length col = Table.size t' | DS _ => True end).
  { pose proof (sem_length t e d HI Hco Hsem) as L. destruct d; [exact I | congruence]. }
  destruct (assign_new t' lhs it d (0 + nops e) HI' Hco' ltac:(congruence) Hnew' Hirel Hlen)
    as [t1 [Hap [HI1 [Hn1 [Hsz1 [Hg1 [Hx1 [Hy1 [Hz1 [Ht1 Hfr1]]]]]]]]]].
  rewrite Hap. cbn [bind fst snd run_rpn].
  change (fold_left (fun rt n => do t' <- rt; if is_temp n then remove_af t' n else Ok t') (names t1) (Ok t1))
    with (fold_left cleanup_step (names t1) (Ok t1)).
  destruct (cleanup_gen (names t1) t1 HI1 (inv_nodup t1 HI1) (fun n H _ => H))
    as [t3 [E [HI3 [Hn3 [Hs3 [Hx3 [Hy3 [Hz3 [Ht3 Hfr3]]]]]]]]].
  rewrite E. cbn [bind]. destruct (e_names _ _ _ _ Hext) as [tmps [Hnm Htm]].
  destruct (e_coords _ _ _ _ Hext) as [Hx' [Hy' [Hz' Ht']]].
  exists t3. split; [reflexivity|]. split; [exact HI3|]. split.
  - rewrite Hn3. set (P := fun m => negb (is_temp m && inb m (names t1))). rewrite Hn1 at 1. rewrite Hnm at 1. rewrite !filter_app.
    assert (A : filter P (names t) = names t).
    { apply filter_all. intros a Ha. unfold P. rewrite (Hnt a Ha). reflexivity. }
    assert (B : filter P tmps = []).
    { assert (G : forall l, (forall m, In m l -> In m tmps) -> filter P l = []).
      { induction l as [|a l IHl]; intros Hl'; [reflexivity|]. cbn [filter]. unfold P at 1.
        destruct (Htm a (Hl' a (or_introl eq_refl))) as [j [_ ->]]. rewrite temp_is_temp. cbn [andb].
        assert (Iin : inb (temp_name j) (names t1) = true).
        { unfold inb. apply existsb_exists. exists (temp_name j). split; [|apply str_eqb_eq; reflexivity].
          rewrite Hn1, Hnm. apply in_or_app. left. apply in_or_app. right. apply Hl'. left. reflexivity. }
        rewrite Iin. cbn [negb]. apply IHl. intros m Hm. apply Hl'. right. exact Hm. }
      apply G. auto. }
    assert (C : filter P [lhs] = [lhs]) by (cbn [filter]; unfold P; rewrite Hlt; reflexivity).
    transitivity ((names t ++ []) ++ [lhs]); [f_equal; [f_equal; [exact A | exact B] | exact C] | rewrite app_nil_r; reflexivity].
  - split; [|split].
    + rewrite Hfr3 by (rewrite Hlt; reflexivity). rewrite Hg1. rewrite Hsz'. reflexivity.
    + intros m Hm. assert (Hne : m <> lhs) by (intros ->; congruence).
      rewrite Hfr3; [rewrite (Hfr1 m Hne); apply (e_old _ _ _ _ Hext m Hm)|].
      destruct (is_temp m) eqn:Etm; [|reflexivity]. cbn [andb]. exfalso.
      apply has_af_names in Hm. destruct Hm as [Hm|Hm]; [rewrite (Hnt _ Hm) in Etm; discriminate|].
      unfold is_virtual, virtuals in Hm. apply existsb_exists in Hm. destruct Hm as [v [Hv Ev]]. apply str_eqb_eq in Ev. subst v.
      cbn in Hv. repeat (destruct Hv as [<-|Hv]; [discriminate Etm|]). destruct Hv.
    + repeat split; congruence.
Qed.
Print Assumptions operate_assign_new.

(* ------------------------------------------------------------------ "lhs=expr" up to the assignment step, for any left-hand name *)
Lemma evaluate_assign_run lhs e t d :
  Inv t -> coords_ok t -> Table.size t <> 0%nat -> fresh_from t 0 -> lhs_ok lhs ->
  wf e -> wfe t e -> (0 < minclass e)%nat -> clean (print e) = true -> sem t e = Ok d ->
  exists t' it, Ext t t' 0 (0 + nops e) /\ coords_ok t' /\ irel t' it d /\
    evaluate t (assign_str lhs e) = (do p <- apply_op t' (SStr lhs) it "=" (0 + nops e); Ok (fst p, None)).
Proof.
  intros HI Hco Hs Hfresh Hl Hwf Hwfe Hmin Hclean Hsem.
  assert (HP : forall p, In p pats -> contains p (assign_str lhs e) = false) by (intros p Hp; apply assign_no_pat; assumption).
  assert (Hsp : forallb (fun c => negb (Ascii.eqb c " ")) (assign_str lhs e) = true).
  { unfold assign_str. apply forallb_app_true; [apply lhs_nospace; exact Hl|]. cbn [forallb]. cbn [Ascii.eqb negb andb].
    unfold clean in Hclean. apply andb_prop in Hclean. destruct Hclean as [Hc _]. apply andb_prop in Hc. destruct Hc as [Hc _].
    apply andb_prop in Hc. destruct Hc as [_ Hc]. exact Hc. }
  assert (Hvoid : contains (s_ "=") (assign_str lhs e) = true) by (apply (contains_mid (s_ "=") lhs (print e))).
  destruct lhs as [|c0 r0] eqn:Elhs; [destruct Hl as [Hne _]; congruence|]. rewrite <- Elhs in *.
  assert (Hc0 : Ascii.eqb c0 "-" || Ascii.eqb c0 "+" = false).
  { destruct Hl as [_ [Hsx _]]. rewrite Elhs in Hsx. cbn [forallb] in Hsx. apply andb_prop in Hsx. destruct Hsx as [Hsx _].
    apply negb_true_iff in Hsx. destruct (Ascii.eqb_spec c0 "-") as [->|]; [discriminate Hsx|]. destruct (Ascii.eqb_spec c0 "+") as [->|]; [discriminate Hsx | reflexivity]. }
  unfold evaluate. cbv zeta.
  rewrite (filter_nospace _ Hsp), (special_id_g _ HP), (reflex_id_g _ HP).
  rewrite (unary_id_g _ HP c0 (r0 ++ "="%char :: print e)) by (try exact Hc0; unfold assign_str; rewrite Elhs; reflexivity).
  cbn [bind]. rewrite (mark_id_g _ HP), Hvoid.
  rewrite (wrap_assign lhs e (List.length (assign_str lhs e)) Hl Hwf Hmin).
  2:{ pose proof (size_le_print e Hwf). unfold assign_str. rewrite app_length. cbn [List.length]. lia. }
  cbn [rpn_res bind app].
  assert (Hopt : op_token lhs = false).
  { rewrite Elhs. destruct r0 as [|c1 r1]; [|reflexivity]. cbn [op_token].
    destruct Hl as [_ [Hsx _]]. rewrite Elhs in Hsx. cbn [forallb] in Hsx. apply andb_prop in Hsx. destruct Hsx as [Hsx _]. apply negb_true_iff in Hsx.
    destruct (mem c0 operators) eqn:Em; [|reflexivity]. exfalso.
    unfold operators in Em. cbn in Em. unfold special, class_of in Hsx.
    repeat match type of Em with context [Ascii.eqb ?a ?b] => destruct (Ascii.eqb_spec a b) as [->|]; [cbn in Hsx; discriminate Hsx|] end. discriminate Em. }
  rewrite run_push by exact Hopt.
  destruct (run_expr e t 0 [SStr lhs] [["="%char]] d HI Hco Hs Hfresh Hwfe Hsem) as [t' [it [Hrun [Hext [Hco' Hirel]]]]].
  exists t', it. split; [exact Hext|]. split; [exact Hco'|]. split; [exact Hirel|].
  rewrite Hrun. rewrite run_op by reflexivity.
  destruct (apply_op t' (SStr lhs) it "=" (0 + nops e)) as [[t1 it1]|err]; reflexivity.
Qed.

(* the assignment step onto an existing feature (not a coordinate) *)
Lemma lookup_has t n i : lookup (dico t) n = Some i -> has_af t n = true.
Proof. intros H. unfold has_af. rewrite H. reflexivity. Qed.

Lemma not_xyzt t lhs : Inv t -> In lhs (names t) -> existsb (str_eqb lhs) (map s_ ["x"; "y"; "z"; "t"]%string) = false /\ existsb (str_eqb lhs) (map s_ ["x"; "y"; "z"]%string) = false.
Proof.
  intros HI Hin. pose proof (inv_novirt t HI lhs Hin) as Hv.
  split.
  - destruct (existsb (str_eqb lhs) (map s_ ["x"; "y"; "z"; "t"]%string)) eqn:E; [|reflexivity]. exfalso.
    apply existsb_exists in E. destruct E as [v [Hv' Ev]]. apply str_eqb_true in Ev. subst v.
    cbn in Hv'. destruct Hv' as [<-|[<-|[<-|[<-|[]]]]]; discriminate Hv.
  - destruct (existsb (str_eqb lhs) (map s_ ["x"; "y"; "z"]%string)) eqn:E; [|reflexivity]. exfalso.
    apply existsb_exists in E. destruct E as [v [Hv' Ev]]. apply str_eqb_true in Ev. subst v.
    cbn in Hv'. destruct Hv' as [<-|[<-|[<-|[]]]]; discriminate Hv.
Qed.

Lemma assign_over t lhs i it d k :
  Inv t -> coords_ok t -> Table.size t <> 0%nat -> lookup (dico t) lhs = Some i -> irel t it d ->
  (match d with DC col => List.length col = Table.size t | DS _ => True end) ->
  exists t1, apply_op t (SStr lhs) it "=" k = Ok (t1, SNone) /\ Inv t1 /\
    (names t1 = names t \/ names t1 = filter (keep lhs) (names t) ++ [lhs]) /\
    Table.size t1 = Table.size t /\ get_af t1 lhs = Ok (dcol (Table.size t) d) /\
    xs t1 = xs t /\ ys t1 = ys t /\ zs t1 = zs t /\ ts t1 = ts t /\
    (forall m, m <> lhs -> get_af t1 m = get_af t m).
Proof.
  intros HI Hco Hs Hlk Hrel Hlen. unfold apply_op. change (Ascii.eqb "=" "=") with true. cbv iota.
  assert (Hin : In lhs (names t)).
  { destruct (In_dec (list_eq_dec ascii_dec) lhs (names t)) as [H|H]; [exact H|]. apply lookup_none_notin in H. congruence. }
  destruct (not_xyzt t lhs HI Hin) as [Hx4 Hx3]. pose proof (lookup_has t lhs i Hlk) as Hhas.
  destruct d as [v|col].
  - destruct Hrel as [Ha [Hb Hc]]. rewrite Ha, Hc. cbn [bind]. rewrite Hx3, Hlk.
    assert (exists t1, set_col t lhs (repeat v (Table.size t)) = Ok t1) as [t1 Hset].
    { unfold set_col. pose proof (inv_novirt t HI lhs Hin) as Hv.
      assert (Hnv : forall s, In s virtuals -> str_eqb lhs s = false).
      { intros s Hs'. apply Table_inv.str_eqb_false. intros ->. unfold is_virtual in Hv.
        rewrite <- not_true_iff_false in Hv. apply Hv. apply existsb_exists. exists s. split; [assumption | apply str_eqb_refl]. }
      rewrite !Hnv by (unfold virtuals; simpl; tauto). rewrite Hlk. eexists. reflexivity. }
    rewrite Hset. cbn [bind].
    destruct (set_col_spec t lhs i (repeat v (Table.size t)) t1 HI Hlk (repeat_length _ _) Hset) as [HI1 [Hn1 [_ [Hs1 [Hx [Hy [Hz [Ht [Hg Hfr]]]]]]]]].
    exists t1. split; [reflexivity|]. split; [exact HI1|]. split; [left; exact Hn1|]. split; [exact Hs1|]. split; [exact Hg|]. repeat split; assumption.
  - destruct Hrel as [n [-> [Ha [Hb Hc]]]]. cbn [item_has_af]. rewrite Ha, Hhas, Hx4, Hc. cbn [bind].
    assert (exists t1, remove_af t lhs = Ok t1) as [t1 Hrm] by (unfold remove_af; rewrite Hhas, Hlk; cbn [negb]; eexists; reflexivity).
    rewrite Hrm. cbn [bind].
    destruct (remove_spec t lhs i t1 HI Hlk Hrm) as [HI1 [Hn1 [Hs1 [Hx1 [Hy1 [Hz1 [Ht1 [Hg1 Hfr1]]]]]]]].
    assert (Hnew : has_af t1 lhs = false).
    { destruct (has_af t1 lhs) eqn:E; [|reflexivity]. exfalso. apply has_af_names in E. destruct E as [E|E].
      - rewrite Hn1 in E. apply filter_In in E. destruct E as [_ E]. unfold keep in E. rewrite str_eqb_refl in E. discriminate.
      - rewrite (inv_novirt t HI lhs Hin) in E. discriminate. }
    destruct (create_list_ok t1 lhs col Hnew ltac:(congruence) ltac:(congruence)) as [t2 Hcr]. rewrite Hcr. cbn [bind].
    destruct (create_new_spec t1 lhs (IList col) t2 HI1 Hnew Hcr) as [HI2 [Hn2 [Hs2 [Hg2 [Hx2 [Hy2 [Hz2 [Ht2 Hfr2]]]]]]]].
    exists t2. split; [reflexivity|]. split; [exact HI2|]. split; [right; rewrite Hn2, Hn1; reflexivity|]. split; [congruence|].
    split.
    + cbn [dcol]. rewrite Hg2. f_equal. apply firstn_all2. rewrite Hs1, Hlen. apply Nat.le_refl.
    + split; [congruence|]. split; [congruence|]. split; [congruence|]. split; [congruence|].
      intros m Hm. rewrite (Hfr2 m Hm). apply Hfr1. exact Hm.
Qed.

(* ------------------------------------------------------------------ Track.operate("lhs=expr"), lhs an existing feature *)
Definition nontemp (a : str) : bool := negb (is_temp a).
Lemma filter_comm {A} (f g : A -> bool) l : filter f (filter g l) = filter g (filter f l).
Proof. induction l as [|a l IH]; [reflexivity|]. cbn [filter]. destruct (g a) eqn:Eg, (f a) eqn:Ef; cbn [filter]; rewrite ?Eg, ?Ef, IH; reflexivity. Qed.
Lemma filter_none {A} (f : A -> bool) l : (forall a, In a l -> f a = false) -> filter f l = [].
Proof. induction l as [|a l IH]; intros H; [reflexivity|]. cbn [filter]. rewrite (H a (or_introl eq_refl)). apply IH. intros b Hb. apply H. right. exact Hb. Qed.

Theorem operate_assign_over lhs i e t d :
  Inv t -> coords_ok t -> Table.size t <> 0%nat -> fresh_from t 0 ->
  (forall m, In m (names t) -> is_temp m = false) ->
  lhs_ok lhs -> lookup (dico t) lhs = Some i ->
  wf e -> wfe t e -> (0 < minclass e)%nat -> clean (print e) = true -> sem t e = Ok d ->
  exists t3, operate_str t (assign_str lhs e) = Ok (t3, None)
    /\ Inv t3 /\ (names t3 = names t \/ names t3 = filter (keep lhs) (names t) ++ [lhs])
    /\ get_af t3 lhs = Ok (dcol (Table.size t) d)
    /\ (forall m, m <> lhs -> has_af t m = true -> get_af t3 m = get_af t m)
    /\ xs t3 = xs t /\ ys t3 = ys t /\ zs t3 = zs t /\ ts t3 = ts t.
Proof.
  intros HI Hco Hs Hfresh Hnt Hl Hlk Hwf Hwfe Hmin Hclean Hsem.
  destruct (evaluate_assign_run lhs e t d HI Hco Hs Hfresh Hl Hwf Hwfe Hmin Hclean Hsem) as [t' [it [Hext [Hco' [Hirel Hev]]]]].
  pose proof (e_inv _ _ _ _ Hext) as HI'. pose proof (e_size _ _ _ _ Hext) as Hsz'.
  assert (Hinl : In lhs (names t)).
  { destruct (In_dec (list_eq_dec ascii_dec) lhs (names t)) as [H|H]; [exact H|]. apply lookup_none_notin in H. congruence. }
  pose proof (Hnt lhs Hinl) as Hlt.
  destruct (e_names _ _ _ _ Hext) as [tmps [Hnm Htm]].
  assert (Hin' : In lhs (names t')) by (rewrite Hnm; apply in_or_app; left; exact Hinl).
  destruct (in_names_lookup t' lhs HI' Hin') as [i' Hlk'].
  assert (Hlen : match d with DC col => List.length col = Table.size t' | DS _ => True end).
  { pose proof (sem_length t e d HI Hco Hsem) as L. destruct d; [exact I | congruence]. }
  destruct (assign_over t' lhs i' it d (0 + nops e) HI' Hco' ltac:(congruence) Hlk' Hirel Hlen)
    as [t1 [Hap [HI1 [Hn1 [Hsz1 [Hg1 [Hx1 [Hy1 [Hz1 [Ht1 Hfr1]]]]]]]]]].
  unfold operate_str. rewrite Hev, Hap. cbn [bind fst snd].
  change (fold_left (fun rt n => do t' <- rt; if is_temp n then remove_af t' n else Ok t') (names t1) (Ok t1))
    with (fold_left cleanup_step (names t1) (Ok t1)).
  destruct (cleanup_gen (names t1) t1 HI1 (inv_nodup t1 HI1) (fun n H _ => H))
    as [t3 [E [HI3 [Hn3 [Hs3 [Hx3 [Hy3 [Hz3 [Ht3 Hfr3]]]]]]]]].
  rewrite E. cbn [bind]. destruct (e_coords _ _ _ _ Hext) as [Hx' [Hy' [Hz' Ht']]].
  assert (Hn3' : names t3 = filter nontemp (names t1)).
  { rewrite Hn3. apply filter_ext_in. intros a Ha. unfold nontemp.
    assert (Iin : inb a (names t1) = true) by (unfold inb; apply existsb_exists; exists a; split; [exact Ha | apply str_eqb_eq; reflexivity]).
    rewrite Iin, andb_true_r. reflexivity. }
  assert (A : filter nontemp (names t) = names t) by (apply filter_all; intros a Ha; unfold nontemp; rewrite (Hnt a Ha); reflexivity).
  assert (B : filter nontemp tmps = []).
  { apply filter_none. intros a Ha. destruct (Htm a Ha) as [j [_ ->]]. unfold nontemp. rewrite temp_is_temp. reflexivity. }
  exists t3. split; [reflexivity|]. split; [exact HI3|]. split.
  - assert (C : filter nontemp (names t ++ tmps) = names t).
    { rewrite filter_app. transitivity (names t ++ []); [f_equal; [exact A | exact B] | apply app_nil_r]. }
    rewrite Hn3'. destruct Hn1 as [Hn1|Hn1]; rewrite Hn1, Hnm.
    + left. exact C.
    + right. rewrite filter_app. f_equal.
      * rewrite (filter_comm nontemp (keep lhs)). f_equal. exact C.
      * cbn [filter]. unfold nontemp. rewrite Hlt. reflexivity.
  - split; [|split].
    + rewrite Hfr3 by (rewrite Hlt; reflexivity). rewrite Hg1, Hsz'. reflexivity.
    + intros m Hne Hm. rewrite Hfr3; [rewrite (Hfr1 m Hne); apply (e_old _ _ _ _ Hext m Hm)|].
      destruct (is_temp m) eqn:Etm; [|reflexivity]. cbn [andb]. exfalso.
      apply has_af_names in Hm. destruct Hm as [Hm|Hm]; [rewrite (Hnt _ Hm) in Etm; discriminate|].
      unfold is_virtual, virtuals in Hm. apply existsb_exists in Hm. destruct Hm as [v [Hv Ev]]. apply str_eqb_eq in Ev. subst v.
      cbn in Hv. repeat (destruct Hv as [<-|Hv]; [discriminate Etm|]). destruct Hv.
    + repeat split; congruence.
Qed.
Print Assumptions operate_assign_over.

(* ------------------------------------------------------------------ Track.operate("x=expr") / y / z : the coordinate is overwritten *)
Definition is_xyz (c : str) : Prop := c = s_ "x" \/ c = s_ "y" \/ c = s_ "z".
Definition with_coord (t : track) (c : str) (col : list val) : track :=
  if str_eqb c (s_ "x") then {| xs := col; ys := ys t; zs := zs t; ts := ts t; dico := dico t; feats := feats t |}
  else if str_eqb c (s_ "y") then {| xs := xs t; ys := col; zs := zs t; ts := ts t; dico := dico t; feats := feats t |}
  else {| xs := xs t; ys := ys t; zs := col; ts := ts t; dico := dico t; feats := feats t |}.
Definition coord_of (t : track) (c : str) : list val :=
  if str_eqb c (s_ "x") then xs t else if str_eqb c (s_ "y") then ys t else zs t.

Lemma set_col_coord t c col : is_xyz c -> set_col t c col = Ok (with_coord t c col).
Proof. intros [->|[->| ->]]; reflexivity. Qed.

Lemma with_coord_spec t c col : is_xyz c -> Inv t -> coords_ok t -> List.length col = Table.size t ->
  let t1 := with_coord t c col in
  Inv t1 /\ coords_ok t1 /\ Table.size t1 = Table.size t /\ dico t1 = dico t /\ names t1 = names t /\ ts t1 = ts t /\
  coord_of t1 c = col /\ get_af t1 c = Ok col /\
  (forall c', is_xyz c' -> c' <> c -> coord_of t1 c' = coord_of t c') /\
  (forall m, m <> c -> get_af t1 m = get_af t m).
Proof.
  intros Hc HI [Hy [Hz Ht]] Hlen. destruct HI as [Hnd Hidx Hf Hn Hnv].
  assert (Hnm : forall m a b, m <> a -> a = b -> str_eqb m b = false) by (intros m a b H <-; apply Table_inv.str_eqb_false; exact H).
  destruct Hc as [->|[->| ->]]; cbv zeta; unfold with_coord, coord_of;
    repeat match goal with |- context [str_eqb (s_ ?a) (s_ ?b)] => let v := eval vm_compute in (str_eqb (s_ a) (s_ b)) in change (str_eqb (s_ a) (s_ b)) with v end; cbv iota.
  all: split; [constructor; cbn [names dico feats Table.size xs]; try assumption; unfold Table.size in *; cbn [xs]; congruence|].
  all: split; [unfold coords_ok, Table.size in *; cbn [xs ys zs ts]; repeat split; congruence|].
  all: split; [unfold Table.size in *; cbn [xs]; congruence|].
  all: split; [reflexivity|]. all: split; [reflexivity|]. all: split; [reflexivity|]. all: split; [reflexivity|]. all: split; [reflexivity|].
  all: split.
  all: try (intros c' [->|[->| ->]] Hne; try (exfalso; apply Hne; reflexivity);
            repeat match goal with |- context [str_eqb (s_ ?a) (s_ ?b)] => let v := eval vm_compute in (str_eqb (s_ a) (s_ b)) in change (str_eqb (s_ a) (s_ b)) with v end; reflexivity).
  all: intros m Hm; unfold get_af, Table.size in *; cbn [xs ys zs ts dico feats];
       try rewrite (Hnm m _ _ Hm eq_refl); rewrite ?Hlen; try reflexivity.
Qed.

Lemma has_af_xyz t c : is_xyz c -> has_af t c = true.
Proof. intros Hc. unfold has_af. destruct (lookup (dico t) c); [reflexivity|]. destruct Hc as [->|[->| ->]]; reflexivity. Qed.
Lemma xyz_flags c : is_xyz c -> existsb (str_eqb c) (map s_ ["x"; "y"; "z"]%string) = true /\ existsb (str_eqb c) (map s_ ["x"; "y"; "z"; "t"]%string) = true /\ str_eqb c (s_ "t") = false /\ is_temp c = false.
Proof. intros [->|[->| ->]]; repeat split; reflexivity. Qed.

Lemma assign_coord t c it d k :
  is_xyz c -> Inv t -> coords_ok t -> irel t it d ->
  (match d with DC col => List.length col = Table.size t | DS _ => True end) ->
  exists t1, apply_op t (SStr c) it "=" k = Ok (t1, SNone) /\ Inv t1 /\ Table.size t1 = Table.size t /\
    coord_of t1 c = dcol (Table.size t) d /\ ts t1 = ts t /\
    (forall c', is_xyz c' -> c' <> c -> coord_of t1 c' = coord_of t c') /\
    (names t1 = names t \/ exists n, is_temp n = true /\ names t1 = filter (keep n) (names t)) /\
    (forall m, m <> c -> is_temp m = false -> get_af t1 m = get_af t m).
Proof.
  intros Hc HI Hco Hrel Hlen. unfold apply_op. change (Ascii.eqb "=" "=") with true. cbv iota.
  destruct (xyz_flags c Hc) as [F3 [F4 [Ft Ftemp]]].
  destruct d as [v|col].
  - destruct Hrel as [Ha [Hb Hcv]]. rewrite Ha, Hcv. cbn [bind]. rewrite F3.
    rewrite (set_col_coord t c _ Hc). cbn [bind].
    destruct (with_coord_spec t c (repeat v (Table.size t)) Hc HI Hco (repeat_length _ _)) as [HI1 [Hco1 [Hs1 [Hd1 [Hn1 [Ht1 [Hg1 [_ [Ho1 Hfr1]]]]]]]]].
    eexists. split; [reflexivity|]. split; [exact HI1|]. split; [exact Hs1|]. split; [exact Hg1|]. split; [exact Ht1|]. split; [exact Ho1|].
    split; [left; exact Hn1|]. intros m Hm _. apply Hfr1. exact Hm.
  - destruct Hrel as [n [-> [Ha [Hb Hcn]]]]. cbn [item_has_af]. rewrite Ha, (has_af_xyz t c Hc), F4. unfold set_coord_from. rewrite Hcn. cbn [bind]. rewrite Ft.
    rewrite (set_col_coord t c col Hc). cbn [bind].
    destruct (with_coord_spec t c col Hc HI Hco Hlen) as [HI1 [Hco1 [Hs1 [Hd1 [Hn1 [Ht1 [Hg1 [_ [Ho1 Hfr1]]]]]]]]].
    set (t1 := with_coord t c col) in *.
    destruct n as [|a n'] eqn:En; [eexists; split; [reflexivity|]; split; [exact HI1|]; split; [exact Hs1|]; split; [exact Hg1|]; split; [exact Ht1|]; split; [exact Ho1|]; split; [left; exact Hn1|]; intros m Hm _; apply Hfr1; exact Hm|].
    destruct (Ascii.eqb_spec a "#"%char) as [->|Na].
    + (* an evaluator temporary: consumed by the assignment *)
      rewrite <- En in *.
      assert (Htn : is_temp n = true) by (rewrite En; reflexivity).
      assert (exists j, lookup (dico t) n = Some j) as [j Hj].
      { unfold has_af in Ha. destruct (lookup (dico t) n) as [j|]; [exists j; reflexivity|]. exfalso.
        unfold is_virtual, virtuals in Ha. apply existsb_exists in Ha. destruct Ha as [v [Hv Ev]]. apply str_eqb_true in Ev. subst v.
        cbn in Hv. repeat (destruct Hv as [<-|Hv]; [discriminate Htn|]). destruct Hv. }
      assert (Hj1 : lookup (dico t1) n = Some j) by (rewrite Hd1; exact Hj).
      assert (exists t2, remove_af t1 n = Ok t2) as [t2 Hrm] by (unfold remove_af; rewrite (lookup_has t1 n j Hj1), Hj1; cbn [negb]; eexists; reflexivity).
      rewrite En in Hrm |- *. rewrite Hrm. cbn [bind]. rewrite <- En in *.
      destruct (remove_spec t1 n j t2 HI1 Hj1 Hrm) as [HI2 [Hn2 [Hs2 [Hx2 [Hy2 [Hz2 [Ht2 [_ Hfr2]]]]]]]].
      assert (Hcoord : forall c', coord_of t2 c' = coord_of t1 c') by (intros c'; unfold coord_of; rewrite Hx2, Hy2, Hz2; reflexivity).
      exists t2. split; [reflexivity|]. split; [exact HI2|]. split; [congruence|]. split; [rewrite Hcoord; exact Hg1|]. split; [congruence|].
      split; [intros c' H1 H2; rewrite Hcoord; apply Ho1; assumption|].
      split; [right; exists n; split; [exact Htn | rewrite Hn2, Hn1; reflexivity]|].
      intros m Hm Htm. rewrite Hfr2 by (intros ->; congruence). apply Hfr1. exact Hm.
    + assert (Hm : match a :: n' with "#"%char :: _ => remove_af t1 (a :: n') | _ => Ok t1 end = Ok t1).
      { destruct a as [[|] [|] [|] [|] [|] [|] [|] [|]]; try reflexivity. contradiction Na. reflexivity. }
      rewrite Hm. cbn [bind].
      eexists; split; [reflexivity|]; split; [exact HI1|]; split; [exact Hs1|]; split; [exact Hg1|]; split; [exact Ht1|]; split; [exact Ho1|]; split; [left; exact Hn1|]; intros m Hm' _; apply Hfr1; exact Hm'.
Qed.

Lemma xyz_lhs_ok c : is_xyz c -> lhs_ok c.
Proof. intros [->|[->| ->]]; repeat split; try discriminate; reflexivity. Qed.

Theorem operate_assign_coord c e t d :
  is_xyz c ->
  Inv t -> coords_ok t -> Table.size t <> 0%nat -> fresh_from t 0 ->
  (forall m, In m (names t) -> is_temp m = false) ->
  wf e -> wfe t e -> (0 < minclass e)%nat -> clean (print e) = true -> sem t e = Ok d ->
  exists t3, operate_str t (assign_str c e) = Ok (t3, None)
    /\ Inv t3 /\ names t3 = names t
    /\ coord_of t3 c = dcol (Table.size t) d
    /\ (forall c', is_xyz c' -> c' <> c -> coord_of t3 c' = coord_of t c')
    /\ ts t3 = ts t
    /\ (forall m, m <> c -> has_af t m = true -> get_af t3 m = get_af t m).
Proof.
  intros Hc HI Hco Hs Hfresh Hnt Hwf Hwfe Hmin Hclean Hsem.
  destruct (evaluate_assign_run c e t d HI Hco Hs Hfresh (xyz_lhs_ok c Hc) Hwf Hwfe Hmin Hclean Hsem) as [t' [it [Hext [Hco' [Hirel Hev]]]]].
  pose proof (e_inv _ _ _ _ Hext) as HI'. pose proof (e_size _ _ _ _ Hext) as Hsz'.
  destruct (e_names _ _ _ _ Hext) as [tmps [Hnm Htm]].
  destruct (e_coords _ _ _ _ Hext) as [Hx' [Hy' [Hz' Ht']]].
  assert (Hlen : match d with DC col => List.length col = Table.size t' | DS _ => True end).
  { pose proof (sem_length t e d HI Hco Hsem) as L. destruct d; [exact I | congruence]. }
  destruct (assign_coord t' c it d (0 + nops e) Hc HI' Hco' Hirel Hlen)
    as [t1 [Hap [HI1 [Hsz1 [Hg1 [Ht1 [Ho1 [Hn1 Hfr1]]]]]]]].
  unfold operate_str. rewrite Hev, Hap. cbn [bind fst snd].
  change (fold_left (fun rt n => do t' <- rt; if is_temp n then remove_af t' n else Ok t') (names t1) (Ok t1))
    with (fold_left cleanup_step (names t1) (Ok t1)).
  destruct (cleanup_gen (names t1) t1 HI1 (inv_nodup t1 HI1) (fun n H _ => H))
    as [t3 [E [HI3 [Hn3 [Hs3 [Hx3 [Hy3 [Hz3 [Ht3 Hfr3]]]]]]]]].
  rewrite E. cbn [bind].
  assert (Hn3' : names t3 = filter nontemp (names t1)).
  { rewrite Hn3. apply filter_ext_in. intros a Ha. unfold nontemp.
    assert (Iin : inb a (names t1) = true) by (unfold inb; apply existsb_exists; exists a; split; [exact Ha | apply str_eqb_eq; reflexivity]).
    rewrite Iin, andb_true_r. reflexivity. }
  assert (A : filter nontemp (names t) = names t) by (apply filter_all; intros a Ha; unfold nontemp; rewrite (Hnt a Ha); reflexivity).
  assert (B : filter nontemp tmps = []).
  { apply filter_none. intros a Ha. destruct (Htm a Ha) as [j [_ ->]]. unfold nontemp. rewrite temp_is_temp. reflexivity. }
  assert (C : filter nontemp (names t ++ tmps) = names t).
  { rewrite filter_app. transitivity (names t ++ []); [f_equal; [exact A | exact B] | apply app_nil_r]. }
  assert (Hcoord3 : forall c', coord_of t3 c' = coord_of t1 c') by (intros c'; unfold coord_of; rewrite Hx3, Hy3, Hz3; reflexivity).
  assert (Hcoord' : forall c', coord_of t' c' = coord_of t c') by (intros c'; unfold coord_of; rewrite Hx', Hy', Hz'; reflexivity).
  exists t3. split; [reflexivity|]. split; [exact HI3|]. split.
  - rewrite Hn3'. destruct Hn1 as [Hn1|[n [Htn Hn1]]]; rewrite Hn1, Hnm.
    + exact C.
    + rewrite (filter_comm nontemp (keep n)). transitivity (filter (keep n) (names t)); [f_equal; exact C|].
      apply filter_keep_notin. intros Hin. rewrite (Hnt n Hin) in Htn. discriminate.
  - split; [rewrite Hcoord3, Hg1, Hsz'; reflexivity|].
    split; [intros c' H1 H2; rewrite Hcoord3, (Ho1 c' H1 H2); apply Hcoord'|].
    split; [congruence|].
    intros m Hne Hm.
    assert (Htmf : is_temp m = false).
    { destruct (is_temp m) eqn:Etm; [|reflexivity]. exfalso.
      apply has_af_names in Hm. destruct Hm as [Hm|Hm]; [rewrite (Hnt _ Hm) in Etm; discriminate|].
      unfold is_virtual, virtuals in Hm. apply existsb_exists in Hm. destruct Hm as [v [Hv Ev]]. apply str_eqb_eq in Ev. subst v.
      cbn in Hv. repeat (destruct Hv as [<-|Hv]; [discriminate Etm|]). destruct Hv. }
    rewrite Hfr3 by (rewrite Htmf; reflexivity). rewrite (Hfr1 m Hne Htmf). apply (e_old _ _ _ _ Hext m Hm).
Qed.
Print Assumptions operate_assign_coord.
