(* Spike: C13 — the default timestamp text "2D/2M/4Y 2h:2m:2s" written by ObsTime.__str__ is read back
   by readTimestamp (fixed character positions) as the same fields *)
From Coq Require Import List Arith Ascii Bool Lia.
Import ListNotations.

Definition str := list ascii.
Definition digit (n : nat) : ascii := ascii_of_nat (48 + n).
Definition print2 (n : nat) : str := [digit (n / 10); digit (n mod 10)].                       (* "{:02d}" for n < 100 *)
Definition print4 (n : nat) : str := [digit (n / 1000); digit (n / 100 mod 10); digit (n / 10 mod 10); digit (n mod 10)].
(* int(s) on a digit string *)
Definition dval (c : ascii) : nat := nat_of_ascii c - 48.
Definition parse_int (s : str) : nat := fold_left (fun acc c => 10 * acc + dval c) s 0.

Lemma rt2_all : forallb (fun n => parse_int (print2 n) =? n) (seq 0 100) = true.
Proof. vm_compute. reflexivity. Qed.
Lemma rt4_all : forallb (fun n => parse_int (print4 n) =? n) (seq 0 (100 * 100)) = true.
Proof. vm_compute. reflexivity. Qed.

Lemma rt2 n : n < 100 -> parse_int (print2 n) = n.
Proof. intros H. pose proof rt2_all as A. rewrite forallb_forall in A. apply Nat.eqb_eq. apply A. apply in_seq. lia. Qed.
Lemma rt4 n : n < 100 * 100 -> parse_int (print4 n) = n.
Proof. intros H. pose proof rt4_all as A. rewrite forallb_forall in A. apply Nat.eqb_eq. apply A. apply in_seq. cbn [plus]. lia. Qed.

Record stamp := { day : nat; month : nat; year : nat; hour : nat; minute : nat; sec : nat }.

(* __str__ with PRINT_FMT = "2D/2M/4Y 2h:2m:2s" *)
Definition print (t : stamp) : str :=
  print2 (day t) ++ ["/"%char] ++ print2 (month t) ++ ["/"%char] ++ print4 (year t) ++ [" "%char]
  ++ print2 (hour t) ++ [":"%char] ++ print2 (minute t) ++ [":"%char] ++ print2 (sec t).

(* readTimestamp with the precompiled positions of READ_FMT = "2D/2M/4Y 2h:2m:2s" *)
Definition slice (s : str) (i n : nat) : str := firstn n (skipn i s).
Definition read (s : str) : stamp :=
  {| day := parse_int (slice s 0 2); month := parse_int (slice s 3 2); year := parse_int (slice s 6 4);
     hour := parse_int (slice s 11 2); minute := parse_int (slice s 14 2); sec := parse_int (slice s 17 2) |}.

Theorem time_roundtrip t :
  day t < 100 -> month t < 100 -> year t < 100 * 100 -> hour t < 100 -> minute t < 100 -> sec t < 100 ->
  read (print t) = t.
Proof.
  intros Hd Hm Hy Hh Hmi Hs. destruct t as [d m y h mi s]. cbn [day month year hour minute sec] in *.
  unfold read, print, slice. cbn [day month year hour minute sec]. unfold print2, print4. cbn [app skipn firstn].
  change [digit (d / 10); digit (d mod 10)] with (print2 d).
  change [digit (m / 10); digit (m mod 10)] with (print2 m).
  change [digit (h / 10); digit (h mod 10)] with (print2 h).
  change [digit (mi / 10); digit (mi mod 10)] with (print2 mi).
  change [digit (s / 10); digit (s mod 10)] with (print2 s).
  change [digit (y / 1000); digit (y / 100 mod 10); digit (y / 10 mod 10); digit (y mod 10)] with (print4 y).
  rewrite !rt2, rt4 by assumption. reflexivity.
Qed.
Print Assumptions time_roundtrip.
