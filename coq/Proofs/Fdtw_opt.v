(* Spike: the score of comparison._fdtw equals the dynamic-programming table entry of _dtw
   (hence the optimal coupling cost), for every weight that is monotone and inflationary *)
From Coq Require Import List Arith QArith Bool Lia Lqa.
Import ListNotations.
From TL Require Import Model.Dtw Model.Fdtw Proofs.Dtw_rec Proofs.Dtw_opt.
Open Scope Q_scope.

Section P.
Variable w : Q -> Q -> Q.
Variable D : nat -> nat -> Q.
Variables n2 n1 : nat.
Hypothesis w_mono : forall A A' B, A <= A' -> w A B <= w A' B.
Hypothesis w_ge : forall A B, A <= w A (D (fst B) (snd B)).       (* A + d^p with d^p >= 0, or max *)
Hypothesis Hn2 : (0 < n2)%nat.
Hypothesis Hn1 : (0 < n1)%nat.

Notation st := (st).
Definition Topt (v : node) : Q := T w D n2 n1 (fst v) (snd v).
Definition inb (v : node) : Prop := (fst v < n2)%nat /\ (snd v < n1)%nat.
Definition Dn (v : node) : Q := D (fst v) (snd v).

Lemma w_eq A A' B : A == A' -> w A B == w A' B.
Proof. intros H. apply Qle_antisym; apply w_mono; lra. Qed.

Lemma node_eqb_eq a b : node_eqb a b = true <-> a = b.
Proof.
  unfold node_eqb. destruct a as [a1 a2], b as [b1 b2]; cbn [fst snd]. rewrite andb_true_iff, !Nat.eqb_eq.
  split; [intros [-> ->]; reflexivity | intros [= -> ->]; auto].
Qed.
Lemma node_eqb_refl a : node_eqb a a = true.
Proof. apply node_eqb_eq. reflexivity. Qed.
Lemma node_eqb_neq a b : node_eqb a b = false <-> a <> b.
Proof. split; [intros H E; apply node_eqb_eq in E; congruence | intros H; destruct (node_eqb a b) eqn:E; [apply node_eqb_eq in E; contradiction | reflexivity]]. Qed.
Lemma inl_in x l : inl x l = true <-> In x l.
Proof.
  unfold inl. rewrite existsb_exists. split.
  - intros [y [Hy E]]. apply node_eqb_eq in E. subst. assumption.
  - intros H. exists x. split; [assumption | apply node_eqb_refl].
Qed.
Lemma in_remove_node k l x : In x (remove_node k l) <-> In x l /\ x <> k.
Proof.
  induction l as [|y l IH]; cbn [remove_node]; [tauto|].
  destruct (node_eqb y k) eqn:E.
  - apply node_eqb_eq in E. subst y. rewrite IH. cbn. intuition congruence.
  - apply node_eqb_neq in E. cbn. rewrite IH. intuition congruence.
Qed.

(* ---- facts about the dynamic-programming table ---- *)
Lemma succ_diag i j : (S i < n2)%nat -> (S j < n1)%nat -> In (S i, S j) (succs n2 n1 (i, j)).
Proof. intros H2 H1. unfold succs. apply Nat.ltb_lt in H2, H1. rewrite H2, H1. left. reflexivity. Qed.
Lemma succ_right i j : (S j < n1)%nat -> In (i, S j) (succs n2 n1 (i, j)).
Proof. intros H1. unfold succs. apply Nat.ltb_lt in H1. rewrite H1. apply in_or_app. right. left. reflexivity. Qed.
Lemma succ_down i j : (S i < n2)%nat -> In (S i, j) (succs n2 n1 (i, j)).
Proof. intros H2. unfold succs. apply Nat.ltb_lt in H2. rewrite H2. apply in_or_app. right. apply in_or_app. right. left. reflexivity. Qed.

Lemma in_succs u v : inb u -> In v (succs n2 n1 u) ->
  inb v /\ (v = (S (fst u), S (snd u)) \/ v = (fst u, S (snd u)) \/ v = (S (fst u), snd u)).
Proof.
  destruct u as [i j]. unfold succs, inb. cbn [fst snd]. intros [U2 U1] H.
  apply in_app_or in H. destruct H as [H|H].
  - destruct ((S i <? n2)%nat && (S j <? n1)%nat) eqn:E; [|destruct H].
    apply andb_prop in E. destruct E as [E1 E2]. apply Nat.ltb_lt in E1, E2. destruct H as [<-|[]]. cbn. auto.
  - apply in_app_or in H. destruct H as [H|H].
    + destruct (S j <? n1)%nat eqn:E; [|destruct H]. apply Nat.ltb_lt in E. destruct H as [<-|[]]. cbn. auto.
    + destruct (S i <? n2)%nat eqn:E; [|destruct H]. apply Nat.ltb_lt in E. destruct H as [<-|[]]. cbn. auto.
Qed.

Lemma T_succ_le u v : inb u -> In v (succs n2 n1 u) -> Topt v <= w (Topt u) (Dn v).
Proof.
  intros Hu Hv. destruct (in_succs u v Hu Hv) as [[V2 V1] Hs]. destruct u as [i j]. unfold Topt, Dn. cbn [fst snd] in *.
  destruct Hs as [->|[->| ->]]; cbn [fst snd] in *.
  - rewrite T_SS by assumption. apply w_mono. apply Qmin_le_l.
  - destruct i as [|i'].
    + rewrite T_0S by assumption. lra.
    + rewrite T_SS by assumption. apply w_mono. eapply Qle_trans; [apply Qmin_le_r | apply Qmin_le_r].
  - destruct j as [|j'].
    + rewrite T_S0 by assumption. lra.
    + rewrite T_SS by assumption. apply w_mono. eapply Qle_trans; [apply Qmin_le_r | apply Qmin_le_l].
Qed.

Lemma T_pred v : inb v -> v <> (0%nat, 0%nat) ->
  exists p, inb p /\ In v (succs n2 n1 p) /\ Topt v == w (Topt p) (Dn v) /\ (fst p + snd p < fst v + snd v)%nat.
Proof.
  destruct v as [[|i] [|j]]; unfold inb, Topt, Dn; cbn [fst snd]; intros [V2 V1] Hne.
  - congruence.
  - exists (0%nat, j). cbn [fst snd]. split; [lia|]. split; [apply succ_right; assumption|].
    split; [rewrite T_0S by assumption; reflexivity | lia].
  - exists (i, 0%nat). cbn [fst snd]. split; [lia|]. split; [apply succ_down; assumption|].
    split; [rewrite T_S0 by assumption; reflexivity | lia].
  - rewrite T_SS by assumption.
    destruct (Qmin_cases (T w D n2 n1 i j) (Qmin (T w D n2 n1 i (S j)) (T w D n2 n1 (S i) j))) as [E|E]; rewrite E.
    + exists (i, j). cbn [fst snd]. split; [lia|]. split; [apply succ_diag; assumption|]. split; [reflexivity | lia].
    + destruct (Qmin_cases (T w D n2 n1 i (S j)) (T w D n2 n1 (S i) j)) as [E'|E']; rewrite E'.
      * exists (i, S j). cbn [fst snd]. split; [lia|]. split; [apply succ_down; assumption|]. split; [reflexivity | lia].
      * exists (S i, j). cbn [fst snd]. split; [lia|]. split; [apply succ_right; assumption|]. split; [reflexivity | lia].
Qed.

(* ---- invariant of the search ---- *)
Record Inv (s : st) : Prop := {
  i_b : forall v c, tt s v = Some c -> inb v;
  i_a : forall v c, tt s v = Some c -> Topt v <= c;
  i_v : forall v, In v (vis s) -> exists c, tt s v = Some c /\ c == Topt v;
  i_c : forall u v, In u (vis s) -> In v (succs n2 n1 u) ->
        In v (vis s) \/ (In v (fil s) /\ exists c, tt s v = Some c /\ c <= w (Topt u) (Dn v));
  i_f : forall v, In v (fil s) -> ~ In v (vis s) /\ exists c, tt s v = Some c;
  i_t : forall v c, tt s v = Some c -> In v (vis s) \/ In v (fil s);
  i_0 : In (0%nat, 0%nat) (vis s) \/ (fil s = [(0%nat, 0%nat)] /\ vis s = [] /\ tt s (0%nat, 0%nat) = Some (w 0 (D 0%nat 0%nat)))
}.

Lemma inv_init : Inv (init w D).
Proof.
  constructor; unfold init; cbn [tt vis fil].
  - intros v c. unfold upd. destruct (node_eqb v (0%nat, 0%nat)) eqn:E; [|discriminate].
    apply node_eqb_eq in E. subst. intros _. split; assumption.
  - intros v c. unfold upd. destruct (node_eqb v (0%nat, 0%nat)) eqn:E; [|discriminate].
    apply node_eqb_eq in E. subst. intros [= <-]. unfold Topt. cbn [fst snd]. rewrite T_00 by assumption. lra.
  - intros v [].
  - intros u v [].
  - intros v [<-|[]]. split; [intros []|]. eexists. unfold upd. rewrite node_eqb_refl. reflexivity.
  - intros v c. unfold upd. destruct (node_eqb v (0%nat, 0%nat)) eqn:E; [|discriminate]. apply node_eqb_eq in E. subst. intros _. right. left. reflexivity.
  - right. repeat split.
Qed.

(* every node is settled, or some queued node is at most as expensive as its optimum *)
Lemma exits s : Inv s -> In (0%nat, 0%nat) (vis s) ->
  forall n v, (fst v + snd v = n)%nat -> inb v ->
  In v (vis s) \/ exists y c, In y (fil s) /\ tt s y = Some c /\ c <= Topt v.
Proof.
  intros HI H0. induction n as [n IH] using lt_wf_ind. intros v Hn Hv.
  destruct (node_eqb v (0%nat, 0%nat)) eqn:E; [apply node_eqb_eq in E; subst; left; assumption|].
  apply node_eqb_neq in E. destruct (T_pred v Hv E) as [p [Hp [Hsucc [HT Hlt]]]].
  assert (Hle : Topt p <= Topt v) by (rewrite HT; apply (w_ge (Topt p) v)).
  destruct (IH (fst p + snd p)%nat ltac:(lia) p eq_refl Hp) as [Hpv|[y [c [Hy [Hc Hcle]]]]].
  - destruct (i_c s HI p v Hpv Hsucc) as [Hvv|[Hvf [c [Hc Hcle]]]]; [left; assumption|].
    right. exists v, c. split; [assumption|]. split; [assumption|]. rewrite HT. assumption.
  - right. exists y, c. split; [assumption|]. split; [assumption|]. lra.
Qed.

(* ---- pop_smallest ---- *)
Definition val_le (s : st) (a b : node) : Prop := forall x y, tt s a = Some x -> tt s b = Some y -> x <= y.

Lemma better_le s a b : better s a b = true -> val_le s a b.
Proof. unfold better, val_le. intros H x y Ha Hb. rewrite Ha, Hb in H. destruct (Qlt_le_dec x y); [lra|]. destruct (Qlt_le_dec y x); [discriminate | lra]. Qed.
Lemma better_false_le s a b : tt s b <> None -> better s a b = false -> val_le s b a.
Proof.
  unfold better, val_le. intros Hb H y x Hy Hx. rewrite Hx, Hy in H.
  destruct (Qlt_le_dec x y); [discriminate|]. assumption.
Qed.

Lemma argmin_in s b l : argmin s b l = b \/ In (argmin s b l) l.
Proof.
  revert b. induction l as [|x r IH]; intros b; cbn [argmin]; [left; reflexivity|].
  destruct (IH (if better s x b then x else b)) as [E|H]; [|right; right; assumption].
  rewrite E. destruct (better s x b); [right; left; reflexivity | left; reflexivity].
Qed.

Lemma argmin_min s : forall l b, (forall y, In y (b :: l) -> tt s y <> None) ->
  forall y, In y (b :: l) -> val_le s (argmin s b l) y.
Proof.
  induction l as [|x r IH]; intros b Hall y Hy; cbn [argmin].
  - destruct Hy as [<-|[]]. intros a c Ha Hc. rewrite Ha in Hc. injection Hc as <-. lra.
  - set (b' := if better s x b then x else b).
    assert (Hall' : forall z, In z (b' :: r) -> tt s z <> None).
    { intros z [<-|Hz]; [unfold b'; destruct (better s x b); apply Hall; cbn; auto | apply Hall; cbn; auto]. }
    assert (Hb' : val_le s b' b /\ val_le s b' x).
    { unfold b'. destruct (better s x b) eqn:E.
      - split; [apply better_le; assumption|]. intros a c Ha Hc. rewrite Ha in Hc. injection Hc as <-. lra.
      - split; [intros a c Ha Hc; rewrite Ha in Hc; injection Hc as <-; lra|].
        apply better_false_le; [apply Hall; cbn; auto | assumption]. }
    assert (Hm : val_le s (argmin s b' r) b') by (apply IH; [assumption | left; reflexivity]).
    destruct Hy as [<-|[<-|Hy]].
    + intros a c Ha Hc. destruct (tt s b') as [m|] eqn:Em; [|exfalso; apply (Hall' b'); [left; reflexivity | assumption]].
      specialize (Hm a m Ha Em). destruct Hb' as [Hb1 _]. specialize (Hb1 m c Em Hc). lra.
    + intros a c Ha Hc. destruct (tt s b') as [m|] eqn:Em; [|exfalso; apply (Hall' b'); [left; reflexivity | assumption]].
      specialize (Hm a m Ha Em). destruct Hb' as [_ Hb2]. specialize (Hb2 m c Em Hc). lra.
    + apply IH; [assumption | right; assumption].
Qed.

(* ---- one iteration ---- *)
Record InvR (u : node) (cu : Q) (pr : list node) (s : st) : Prop := {
  r_u : In u (vis s) /\ tt s u = Some cu /\ cu == Topt u /\ inb u;
  r_b : forall v c, tt s v = Some c -> inb v;
  r_a : forall v c, tt s v = Some c -> Topt v <= c;
  r_v : forall v, In v (vis s) -> exists c, tt s v = Some c /\ c == Topt v;
  r_c : forall u' v, In u' (vis s) -> u' <> u -> In v (succs n2 n1 u') ->
        In v (vis s) \/ (In v (fil s) /\ exists c, tt s v = Some c /\ c <= w (Topt u') (Dn v));
  r_cu : forall v, In v pr -> In v (vis s) \/ (In v (fil s) /\ exists c, tt s v = Some c /\ c <= w (Topt u) (Dn v));
  r_f : forall v, In v (fil s) -> ~ In v (vis s) /\ exists c, tt s v = Some c;
  r_t : forall v c, tt s v = Some c -> In v (vis s) \/ In v (fil s)
}.

Lemma upd_same f k v : upd f k v k = v.
Proof. unfold upd. rewrite node_eqb_refl. reflexivity. Qed.
Lemma upd_other f k v x : x <> k -> upd f k v x = f x.
Proof. intros H. unfold upd. apply node_eqb_neq in H. rewrite H. reflexivity. Qed.

Lemma update_inv u cu pr s v : In v (succs n2 n1 u) -> InvR u cu pr s ->
  InvR u cu (v :: pr) (update s v (w cu (Dn v))).
Proof.
  intros Hv [[Hu1 [Hu2 [Hu3 Hu4]]] Hb Ha Hvv Hc Hcu Hf Ht].
  destruct (in_succs u v Hu4 Hv) as [Hvb _].
  assert (Hbound : Topt v <= w cu (Dn v)).
  { eapply Qle_trans; [apply (T_succ_le u v Hu4 Hv)|]. apply Qle_lteq. right. apply w_eq. symmetry. assumption. }
  assert (Hcw : w cu (Dn v) <= w (Topt u) (Dn v)) by (apply w_mono; lra).
  unfold update. fold (Dn v). destruct (inl v (vis s)) eqn:Ev.
  - apply inl_in in Ev. constructor; auto. intros x [<-|Hx]; [left; assumption | apply Hcu; assumption].
  - assert (Hnv : ~ In v (vis s)) by (intros H; apply inl_in in H; congruence).
    assert (Huv : u <> v) by (intros ->; contradiction).
    destruct (tt s v) as [old|] eqn:Eo.
    + assert (Hvf : In v (fil s)) by (destruct (Ht v old Eo); [contradiction | assumption]).
      destruct (Qlt_le_dec (w cu (Dn v)) old) as [Hlt|Hge].
      * constructor; cbn [tt vis fil].
        -- rewrite upd_other by assumption. auto.
        -- intros x c. destruct (node_eqb x v) eqn:E; [apply node_eqb_eq in E; subst; intros _; assumption|].
           apply node_eqb_neq in E. rewrite upd_other by assumption. apply Hb.
        -- intros x c. destruct (node_eqb x v) eqn:E.
           ++ apply node_eqb_eq in E. subst. rewrite upd_same. intros [= <-]. assumption.
           ++ apply node_eqb_neq in E. rewrite upd_other by assumption. apply Ha.
        -- intros x Hx. assert (x <> v) by (intros ->; contradiction). rewrite upd_other by assumption. apply Hvv. assumption.
        -- intros u' x Hu' Hne Hx. destruct (Hc u' x Hu' Hne Hx) as [H|[H1 [c [H2 H3]]]]; [left; assumption|]. right. split; [assumption|].
           destruct (node_eqb x v) eqn:E.
           ++ apply node_eqb_eq in E. subst. rewrite upd_same. exists (w cu (Dn v)). split; [reflexivity|]. rewrite Eo in H2. injection H2 as <-. lra.
           ++ apply node_eqb_neq in E. rewrite upd_other by assumption. exists c. auto.
        -- intros x [<-|Hx].
           ++ right. split; [assumption|]. rewrite upd_same. exists (w cu (Dn v)). split; [reflexivity | assumption].
           ++ destruct (Hcu x Hx) as [H|[H1 [c [H2 H3]]]]; [left; assumption|]. right. split; [assumption|].
              destruct (node_eqb x v) eqn:E.
              ** apply node_eqb_eq in E. subst. rewrite upd_same. exists (w cu (Dn v)). split; [reflexivity | assumption].
              ** apply node_eqb_neq in E. rewrite upd_other by assumption. exists c. auto.
        -- intros x Hx. destruct (Hf x Hx) as [H1 [c H2]]. split; [assumption|].
           destruct (node_eqb x v) eqn:E; [apply node_eqb_eq in E; subst; rewrite upd_same; eexists; reflexivity|].
           apply node_eqb_neq in E. rewrite upd_other by assumption. exists c. assumption.
        -- intros x c. destruct (node_eqb x v) eqn:E; [apply node_eqb_eq in E; subst; intros _; right; assumption|].
           apply node_eqb_neq in E. rewrite upd_other by assumption. apply Ht.
      * constructor; auto. intros x [<-|Hx]; [|apply Hcu; assumption].
        right. split; [assumption|]. exists old. split; [assumption | lra].
    + assert (Hnf : ~ In v (fil s)) by (intros H; destruct (Hf v H) as [_ [c Hc']]; congruence).
      constructor; cbn [tt vis fil].
      * rewrite upd_other by assumption. auto.
      * intros x c. destruct (node_eqb x v) eqn:E; [apply node_eqb_eq in E; subst; intros _; assumption|].
        apply node_eqb_neq in E. rewrite upd_other by assumption. apply Hb.
      * intros x c. destruct (node_eqb x v) eqn:E.
        -- apply node_eqb_eq in E. subst. rewrite upd_same. intros [= <-]. assumption.
        -- apply node_eqb_neq in E. rewrite upd_other by assumption. apply Ha.
      * intros x Hx. assert (x <> v) by (intros ->; contradiction). rewrite upd_other by assumption. apply Hvv. assumption.
      * intros u' x Hu' Hne Hx. destruct (Hc u' x Hu' Hne Hx) as [H|[H1 [c [H2 H3]]]]; [left; assumption|]. right.
        split; [apply in_or_app; left; assumption|].
        assert (x <> v) by (intros ->; contradiction). rewrite upd_other by assumption. exists c. auto.
      * intros x [<-|Hx].
        -- right. split; [apply in_or_app; right; left; reflexivity|]. rewrite upd_same. exists (w cu (Dn v)). split; [reflexivity | assumption].
        -- destruct (Hcu x Hx) as [H|[H1 [c [H2 H3]]]]; [left; assumption|]. right. split; [apply in_or_app; left; assumption|].
           assert (x <> v) by (intros ->; contradiction). rewrite upd_other by assumption. exists c. auto.
      * intros x Hx. apply in_app_or in Hx. destruct Hx as [Hx|[<-|[]]].
        -- destruct (Hf x Hx) as [H1 [c H2]]. split; [assumption|].
           assert (x <> v) by (intros ->; contradiction). rewrite upd_other by assumption. exists c. assumption.
        -- split; [assumption|]. rewrite upd_same. eexists. reflexivity.
      * intros x c. destruct (node_eqb x v) eqn:E.
        -- apply node_eqb_eq in E. subst. intros _. right. apply in_or_app. right. left. reflexivity.
        -- apply node_eqb_neq in E. rewrite upd_other by assumption. intros H. destruct (Ht x c H); [left; assumption | right; apply in_or_app; left; assumption].
Qed.

Lemma update_fold u cu : forall l pr s, (forall v, In v l -> In v (succs n2 n1 u)) -> InvR u cu pr s ->
  InvR u cu (rev l ++ pr) (fold_left (fun s v => update s v (w cu (D (fst v) (snd v)))) l s).
Proof.
  induction l as [|v l IH]; intros pr s Hl HI; cbn [fold_left rev app]; [assumption|].
  rewrite <- app_assoc. cbn [app]. apply IH; [intros x Hx; apply Hl; right; assumption|].
  apply update_inv; [apply Hl; left; reflexivity | assumption].
Qed.

Lemma update_vis s v c : vis (update s v c) = vis s.
Proof. unfold update. destruct (inl v (vis s)); [reflexivity|]. destruct (tt s v); [destruct (Qlt_le_dec c q)|]; reflexivity. Qed.
Lemma fold_vis (g : node -> Q) : forall l s, vis (fold_left (fun s v => update s v (g v)) l s) = vis s.
Proof. induction l as [|v l IH]; intros s; cbn [fold_left]; [reflexivity|]. rewrite IH. apply update_vis. Qed.

Lemma pop_exact s x r cu : Inv s -> fil s = x :: r -> tt s (argmin s x r) = Some cu ->
  In (argmin s x r) (fil s) /\ cu == Topt (argmin s x r).
Proof.
  intros HI Hf Hc. set (u := argmin s x r) in *.
  assert (Hin : In u (fil s)) by (rewrite Hf; unfold u; destruct (argmin_in s x r) as [->|H]; [left; reflexivity | right; assumption]).
  split; [assumption|].
  destruct (i_0 s HI) as [H0|[F0 [V0 T0]]].
  - pose proof (i_b s HI u cu Hc) as Hub.
    destruct (exits s HI H0 _ u eq_refl Hub) as [Hv|[y [c [Hy [Hyc Hle]]]]].
    + destruct (i_f s HI u Hin) as [Hn _]. contradiction.
    + assert (Hall : forall z, In z (x :: r) -> tt s z <> None).
      { intros z Hz. rewrite <- Hf in Hz. destruct (i_f s HI z Hz) as [_ [cz Hcz]]. congruence. }
      rewrite Hf in Hy. pose proof (argmin_min s r x Hall y Hy cu c Hc Hyc) as L.
      pose proof (i_a s HI u cu Hc). lra.
  - rewrite F0 in Hf. injection Hf as <- <-. cbn in u. unfold u in *. rewrite T0 in Hc. injection Hc as <-.
    unfold Topt. cbn [fst snd]. rewrite T_00 by assumption. reflexivity.
Qed.

Lemma settle_inv s u cu : Inv s -> In u (fil s) -> tt s u = Some cu -> cu == Topt u ->
  Inv (settle w D n2 n1 s u cu) /\ In (0%nat, 0%nat) (vis (settle w D n2 n1 s u cu)).
Proof.
  intros HI Hin Hc He. pose proof (i_b s HI u cu Hc) as Hub. destruct (i_f s HI u Hin) as [Hnv _].
  set (s1 := {| tt := tt s; vis := u :: vis s; fil := remove_node u (fil s) |}).
  assert (H1 : InvR u cu [] s1).
  { constructor; unfold s1; cbn [tt vis fil].
    - split; [left; reflexivity|]. split; [assumption|]. split; assumption.
    - apply (i_b s HI).
    - apply (i_a s HI).
    - intros v [<-|Hv]; [exists cu; split; assumption | apply (i_v s HI); assumption].
    - intros u' v [E|Hu'] Hne Hv; [congruence|].
      destruct (i_c s HI u' v Hu' Hv) as [H|[H [c Hcc]]]; [left; right; assumption|].
      destruct (node_eqb v u) eqn:E; [apply node_eqb_eq in E; subst; left; left; reflexivity|].
      apply node_eqb_neq in E. right. split; [apply in_remove_node; split; assumption | exists c; assumption].
    - intros v [].
    - intros v Hv. apply in_remove_node in Hv. destruct Hv as [Hv Hne]. destruct (i_f s HI v Hv) as [Hn Hs].
      split; [intros [E|H]; [congruence | contradiction] | assumption].
    - intros v c Hv. destruct (node_eqb v u) eqn:E; [apply node_eqb_eq in E; subst; left; left; reflexivity|].
      apply node_eqb_neq in E. destruct (i_t s HI v c Hv) as [H|H]; [left; right; assumption | right; apply in_remove_node; split; assumption]. }
  pose proof (update_fold u cu (succs n2 n1 u) [] s1 (fun v H => H) H1) as H2. rewrite app_nil_r in H2.
  unfold settle. fold s1.
  set (s2 := fold_left (fun s v => update s v (w cu (D (fst v) (snd v)))) (succs n2 n1 u) s1) in *.
  assert (Hvis : vis s2 = u :: vis s) by (unfold s2; rewrite (fold_vis (fun v => w cu (D (fst v) (snd v)))); reflexivity).
  destruct H2 as [[Ru1 [Ru2 [Ru3 Ru4]]] Rb Ra Rv Rc Rcu Rf Rt].
  assert (H00 : In (0%nat, 0%nat) (vis s2)).
  { rewrite Hvis. destruct (i_0 s HI) as [H0|[F0 _]]; [right; assumption|].
    rewrite F0 in Hin. destruct Hin as [<-|[]]. left. reflexivity. }
  split; [|assumption]. constructor; auto.
  intros u' v Hu' Hv. destruct (node_eqb u' u) eqn:E.
  - apply node_eqb_eq in E. subst u'. apply Rcu. apply in_rev. rewrite rev_involutive. assumption.
  - apply node_eqb_neq in E. apply Rc; assumption.
Qed.

(* the score returned by the best-first search is the dynamic-programming table entry *)
Theorem run_correct : forall fuel s c, Inv s -> run w D n2 n1 fuel s = Some c ->
  c == T w D n2 n1 (n2 - 1) (n1 - 1).
Proof.
  induction fuel as [|f IH]; intros s c HI Hr; [discriminate|]. cbn [run] in Hr.
  destruct (fil s) as [|x r] eqn:Ef; [discriminate|].
  destruct (tt s (argmin s x r)) as [cu|] eqn:Ec; [|discriminate].
  destruct (pop_exact s x r cu HI Ef Ec) as [Hin He].
  destruct (node_eqb (argmin s x r) ((n2 - 1)%nat, (n1 - 1)%nat)) eqn:Et.
  - injection Hr as <-. apply node_eqb_eq in Et. rewrite Et in He. exact He.
  - apply (IH (settle w D n2 n1 s (argmin s x r) cu) c); [|assumption]. apply settle_inv; assumption.
Qed.

Theorem fdtw_correct c : fdtw_score w D n2 n1 = Some c -> c == T w D n2 n1 (n2 - 1) (n1 - 1).
Proof. apply run_correct. apply inv_init. Qed.

(* ---- totality: the queue never runs empty before the last cell is popped, and the fuel suffices ---- *)
Lemma settle_vis s u cu : vis (settle w D n2 n1 s u cu) = u :: vis s.
Proof. unfold settle. rewrite (fold_vis (fun v => w cu (D (fst v) (snd v)))). reflexivity. Qed.

Definition lattice : list node := list_prod (seq 0 n2) (seq 0 n1).
Lemma in_lattice v : inb v -> In v lattice.
Proof. destruct v as [i j]. intros [H2 H1]. apply in_prod; apply in_seq; cbn in *; lia. Qed.
Lemma lattice_length : List.length lattice = (n2 * n1)%nat.
Proof. unfold lattice, node. rewrite prod_length, !seq_length. reflexivity. Qed.

Lemma vis_bound s : Inv s -> NoDup (vis s) -> (List.length (vis s) <= n2 * n1)%nat.
Proof.
  intros HI Hnd. rewrite <- lattice_length. apply NoDup_incl_length; [assumption|].
  intros v Hv. destruct (i_v s HI v Hv) as [c [Hc _]]. apply in_lattice. apply (i_b s HI v c Hc).
Qed.

Theorem run_total : forall fuel s, Inv s -> NoDup (vis s) -> ~ In ((n2 - 1)%nat, (n1 - 1)%nat) (vis s) ->
  (n2 * n1 - List.length (vis s) < fuel)%nat -> exists c, run w D n2 n1 fuel s = Some c.
Proof.
  induction fuel as [|f IH]; intros s HI Hnd Hnt Hm; [lia|]. cbn [run].
  assert (Htb : inb ((n2 - 1)%nat, (n1 - 1)%nat)) by (unfold inb; cbn; lia).
  destruct (fil s) as [|x r] eqn:Ef.
  { exfalso. destruct (i_0 s HI) as [H0|[F0 _]]; [|congruence].
    destruct (exits s HI H0 _ _ eq_refl Htb) as [H|[y [c [Hy _]]]]; [contradiction | rewrite Ef in Hy; destruct Hy]. }
  set (u := argmin s x r).
  assert (Hin : In u (fil s)) by (rewrite Ef; unfold u; destruct (argmin_in s x r) as [->|H]; [left; reflexivity | right; assumption]).
  destruct (i_f s HI u Hin) as [Hnv [cu Hc]]. rewrite Hc.
  destruct (node_eqb u ((n2 - 1)%nat, (n1 - 1)%nat)) eqn:Et; [exists cu; reflexivity|].
  apply node_eqb_neq in Et.
  destruct (pop_exact s x r cu HI Ef Hc) as [_ He]. fold u in He.
  destruct (settle_inv s u cu HI Hin Hc He) as [HI' _].
  assert (Hnd' : NoDup (vis (settle w D n2 n1 s u cu))) by (rewrite settle_vis; constructor; assumption).
  pose proof (vis_bound _ HI' Hnd') as Hb. rewrite settle_vis in Hb. cbn [List.length] in Hb.
  apply IH; [assumption | assumption | rewrite settle_vis; intros [E|H]; [congruence | contradiction] |].
  rewrite settle_vis. cbn [List.length]. lia.
Qed.

Theorem fdtw_total : exists c, fdtw_score w D n2 n1 = Some c /\ c == T w D n2 n1 (n2 - 1) (n1 - 1).
Proof.
  destruct (run_total (S (n2 * n1)) (init w D) inv_init) as [c Hc].
  - constructor.
  - intros [].
  - cbn. lia.
  - exists c. split; [exact Hc | apply fdtw_correct; exact Hc].
Qed.
End P.
Print Assumptions fdtw_correct.
Print Assumptions fdtw_total.
