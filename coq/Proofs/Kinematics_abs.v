From Coq Require Import List Arith QArith Bool Lia Lqa.
Import ListNotations.
From TL Require Import Model.Kinematics.
Open Scope Q_scope.

Section K.
Variable P : Type.
Variable dist : P -> P -> Q.
Hypothesis dist_nonneg : forall a b, 0 <= dist a b.
Variable d0 : P.

Lemma ds_from_length prev l : length (ds_from P dist prev l) = length l.
Proof. revert prev. induction l; intros; simpl; auto. Qed.
Lemma integ_from_length acc x : length (integ_from acc x) = length x.
Proof. revert acc. induction x; intros; simpl; auto. Qed.

(* increments of the running sum *)
Lemma integ_from_step : forall x acc i, (S i < length x)%nat ->
  nth (S i) (integ_from acc x) 0 == nth i (integ_from acc x) 0 + nth (S i) x 0.
Proof.
  induction x as [|v x IH]; intros acc i H; [simpl in H; lia|].
  destruct i as [|i].
  - destruct x as [|v' x]; [simpl in H; lia|]. simpl. lra.
  - simpl in H. simpl. apply IH. lia.
Qed.

Lemma ds_from_nth : forall l prev i, (S i < length l)%nat ->
  nth (S i) (ds_from P dist prev l) 0 = dist (nth (S i) l d0) (nth i l d0).
Proof.
  induction l as [|p l IH]; intros prev i H; [simpl in H; lia|].
  destruct i as [|i].
  - destruct l as [|p' l]; [simpl in H; lia|]. reflexivity.
  - simpl in H. simpl. apply IH. lia.
Qed.

(* C17: the abscissa starts at 0 and grows between consecutive fixes by exactly their distance *)
Theorem abs_curv_spec l :
  length (abs_curv P dist l) = length l /\
  (l <> [] -> nth 0 (abs_curv P dist l) 0 == 0) /\
  (forall i, (S i < length l)%nat ->
     nth (S i) (abs_curv P dist l) 0 == nth i (abs_curv P dist l) 0 + dist (nth (S i) l d0) (nth i l d0)).
Proof.
  destruct l as [|p l]; [split; [reflexivity|split; [intros H; contradiction | intros i H; simpl in H; lia]]|].
  unfold abs_curv, ds, integrator. split; [simpl; rewrite integ_from_length, ds_from_length; reflexivity|].
  split; [intros _; simpl; lra|].
  intros i Hi. simpl in Hi.
  destruct i as [|i].
  - destruct l as [|p' l]; [simpl in Hi; lia|]. simpl. lra.
  - change (nth (S (S i)) (0 :: integ_from 0 (ds_from P dist p l)) 0) with (nth (S i) (integ_from 0 (ds_from P dist p l)) 0).
    change (nth (S i) (0 :: integ_from 0 (ds_from P dist p l)) 0) with (nth i (integ_from 0 (ds_from P dist p l)) 0).
    rewrite integ_from_step by (rewrite ds_from_length; lia).
    rewrite (ds_from_nth l p i) by lia. reflexivity.
Qed.

Corollary abs_curv_monotone l i : (S i < length l)%nat ->
  nth i (abs_curv P dist l) 0 <= nth (S i) (abs_curv P dist l) 0.
Proof.
  intros H. destruct (abs_curv_spec l) as [_ [_ Hs]]. rewrite (Hs i H).
  pose proof (dist_nonneg (nth (S i) l d0) (nth i l d0)). lra.
Qed.
End K.
Print Assumptions abs_curv_spec.
