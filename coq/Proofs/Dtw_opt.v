From Coq Require Import List Arith QArith Bool Lia Lqa.
Import ListNotations.
From TL Require Import Model.Dtw Proofs.Dtw_rec.
Open Scope Q_scope.

Lemma Qmin_le_l x y : Qmin x y <= x.
Proof. unfold Qmin. destruct (Qlt_le_dec y x); lra. Qed.
Lemma Qmin_le_r x y : Qmin x y <= y.
Proof. unfold Qmin. destruct (Qlt_le_dec y x); lra. Qed.
Lemma Qmin_cases x y : Qmin x y = x \/ Qmin x y = y.
Proof. unfold Qmin. destruct (Qlt_le_dec y x); auto. Qed.

Section Opt.
Variable w : Q -> Q -> Q.
Variable D : nat -> nat -> Q.
Hypothesis w_mono : forall A A' B, A <= A' -> w A B <= w A' B.
Variables n2 n1 : nat.
Notation Tt := (T w D n2 n1).

(* monotone couplings: one step in either or both tracks *)
Definition step (p q : nat * nat) : Prop :=
  q = (S (fst p), snd p) \/ q = (fst p, S (snd p)) \/ q = (S (fst p), S (snd p)).

Inductive cpath : nat * nat -> list (nat * nat) -> Prop :=
| cp_start : cpath (0%nat, 0%nat) [(0%nat, 0%nat)]
| cp_step p q l : cpath p l -> step p q -> cpath q (l ++ [q]).

Lemma path_cost_snoc l q : path_cost w D (l ++ [q]) = w (path_cost w D l) (D (fst q) (snd q)).
Proof. unfold path_cost. rewrite fold_left_app. destruct q. reflexivity. Qed.

(* the table entry is a lower bound of every coupling ending there *)
Theorem dtw_lower : forall q l, cpath q l -> (fst q < n2)%nat -> (snd q < n1)%nat ->
  Tt (fst q) (snd q) <= path_cost w D l.
Proof.
  intros q0 l0 H. induction H as [ | p q l Hp IHp Hs ]; intros H2 H1.
  - simpl fst; simpl snd. rewrite T_00 by assumption. unfold path_cost. simpl. lra.
  - rewrite path_cost_snoc. destruct p as [pi pj]. simpl in Hs, IHp.
    destruct Hs as [ -> | [ -> | -> ] ]; simpl fst in *; simpl snd in *.
    + (* step in track 2 only *)
      specialize (IHp ltac:(lia) ltac:(lia)).
      destruct pj as [|pj].
      * rewrite T_S0 by assumption. apply w_mono. assumption.
      * rewrite T_SS by assumption. apply w_mono.
        eapply Qle_trans; [|exact IHp]. eapply Qle_trans; [apply Qmin_le_r|apply Qmin_le_l].
    + specialize (IHp ltac:(lia) ltac:(lia)).
      destruct pi as [|pi].
      * rewrite T_0S by assumption. apply w_mono. assumption.
      * rewrite T_SS by assumption. apply w_mono.
        eapply Qle_trans; [|exact IHp]. eapply Qle_trans; [apply Qmin_le_r|apply Qmin_le_r].
    + specialize (IHp ltac:(lia) ltac:(lia)).
      rewrite T_SS by assumption. apply w_mono. eapply Qle_trans; [apply Qmin_le_l | exact IHp].
Qed.

(* the repaired back-pointer rule always points to a predecessor attaining the minimum *)
Lemma pred_fix_spec i j : (S i < n2)%nat -> (S j < n1)%nat ->
  let '(a, b) := pred_fix w D n2 n1 (S i) (S j) in
  step (a, b) (S i, S j) /\ Tt (S i) (S j) == w (Tt a b) (D (S i) (S j)) /\ (a + b < S i + S j)%nat.
Proof.
  intros H2 H1. unfold pred_fix. replace (S i - 1)%nat with i by lia. replace (S j - 1)%nat with j by lia.
  rewrite T_SS by assumption.
  set (ul := Tt i j). set (u := Tt i (S j)). set (l := Tt (S i) j).
  unfold Qleb. unfold Qmin.
  destruct (Qlt_le_dec u ul) as [A|A]; destruct (Qlt_le_dec l ul) as [B|B]; simpl;
  destruct (Qlt_le_dec l u) as [C|C]; simpl;
  repeat match goal with |- context [Qlt_le_dec ?x ?y] => destruct (Qlt_le_dec x y); simpl end;
  try (split; [unfold step; simpl; auto | split; [try reflexivity; try lra | lia]]); try lra.
Qed.

Lemma w_eq A A' B : A == A' -> w A B == w A' B.
Proof. intros E. apply Qle_antisym; apply w_mono; lra. Qed.

(* the backward walk with the repaired rule returns a coupling whose accumulated cost is the table entry *)
Theorem back_spec : forall fuel i j, (i + j < fuel)%nat -> (i < n2)%nat -> (j < n1)%nat ->
  let p := rev (back (pred_fix w D) fuel n2 n1 i j) in
  cpath (i, j) p /\ path_cost w D p == Tt i j.
Proof.
  induction fuel as [|f IH]; intros i j Hf H2 H1; [lia|].
  cbn [back]. destruct i as [|i]; destruct j as [|j].
  - simpl. split; [constructor|]. rewrite T_00 by assumption. unfold path_cost. simpl. lra.
  - cbn [pred]. cbn [rev]. destruct (IH 0%nat j ltac:(lia) ltac:(lia) ltac:(lia)) as [Hc Hcost]. cbv zeta in Hc, Hcost.
    split; [apply cp_step with (p := (0%nat, j)); [assumption | right; left; reflexivity]|].
    rewrite path_cost_snoc. simpl fst; simpl snd. rewrite T_0S by assumption. apply w_eq. assumption.
  - cbn [pred]. cbn [rev]. destruct (IH i 0%nat ltac:(lia) ltac:(lia) ltac:(lia)) as [Hc Hcost]. cbv zeta in Hc, Hcost.
    split; [apply cp_step with (p := (i, 0%nat)); [assumption | left; reflexivity]|].
    rewrite path_cost_snoc. simpl fst; simpl snd. rewrite T_S0 by assumption. apply w_eq. assumption.
  - cbn [pred]. pose proof (pred_fix_spec i j H2 H1) as Hp.
    destruct (pred_fix w D n2 n1 (S i) (S j)) as [a b]. destruct Hp as [Hs [HT Hlt]].
    cbn [rev].
    assert (Ha : (a < n2)%nat /\ (b < n1)%nat).
    { destruct Hs as [E|[E|E]]; simpl in E; injection E; intros; lia. }
    destruct (IH a b ltac:(lia) (proj1 Ha) (proj2 Ha)) as [Hc Hcost]. cbv zeta in Hc, Hcost.
    split; [apply cp_step with (p := (a, b)); assumption|].
    rewrite path_cost_snoc. simpl fst; simpl snd. rewrite HT. apply w_eq. assumption.
Qed.

(* comparison._dtw with the repaired back-pointer: score optimal, returned coupling realises it *)
Theorem dtw_correct : (0 < n2)%nat -> (0 < n1)%nat ->
  let '(score, p) := dtw w D (pred_fix w D) n2 n1 in
  cpath ((n2 - 1)%nat, (n1 - 1)%nat) p /\ path_cost w D p == score /\
  forall l, cpath ((n2 - 1)%nat, (n1 - 1)%nat) l -> score <= path_cost w D l.
Proof.
  intros H2 H1. unfold dtw.
  destruct (back_spec (n2 + n1) (n2 - 1) (n1 - 1) ltac:(lia) ltac:(lia) ltac:(lia)) as [Hc Hcost]. cbv zeta in Hc, Hcost.
  split; [assumption|]. split; [assumption|].
  intros l Hl. apply (dtw_lower _ _ Hl); simpl; lia.
Qed.
End Opt.
Print Assumptions dtw_correct.
