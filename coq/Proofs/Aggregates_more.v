(* C19: maximum, mean and median over exactly the non-NaN values of a cell *)
From Coq Require Import List Arith ZArith QArith Bool Lia Lqa Permutation Sorted.
Import ListNotations.
From TL Require Import Model.Aggregates Proofs.Aggregates_spec.
Open Scope Q_scope.

Lemma valid_of_valid l : valid_of l = valid l. Proof. reflexivity. Qed.

Definition max_step (m v : val) : val :=
  match v with None => m | Some x => match m with None => Some x | Some y => if Qltb y x then Some x else m end end.

Lemma max_fold : forall l acc m, fold_left max_step l acc = Some m ->
  (acc = Some m \/ In m (valid l)) /\ (forall y, acc = Some y -> y <= m) /\ (forall x, In x (valid l) -> x <= m).
Proof.
  induction l as [|[x|] l IH]; intros acc m H; simpl in H.
  - subst acc. split; [left; reflexivity|]. split; [intros y [= <-]; lra | intros x []].
  - destruct (IH _ m H) as [Hin [Hacc Hall]]. simpl valid.
    destruct acc as [y|]; simpl in *.
    + unfold Qltb in *. destruct (Qlt_le_dec y x) as [Hlt|Hge].
      * specialize (Hacc x eq_refl). split; [|split].
        -- destruct Hin as [[= <-]|Hin]; [right; left; reflexivity | right; right; assumption].
        -- intros z [= <-]. lra.
        -- intros z [<-|Hz]; [assumption | apply Hall; assumption].
      * specialize (Hacc y eq_refl). split; [|split].
        -- destruct Hin as [Hin|Hin]; [left; assumption | right; right; assumption].
        -- intros z [= <-]. assumption.
        -- intros z [<-|Hz]; [lra | apply Hall; assumption].
    + specialize (Hacc x eq_refl). split; [|split].
      * destruct Hin as [[= <-]|Hin]; [right; left; reflexivity | right; right; assumption].
      * intros z Hz. discriminate.
      * intros z [<-|Hz]; [assumption | apply Hall; assumption].
  - apply (IH acc m H).
Qed.

Lemma max_fold_none : forall l acc, fold_left max_step l acc = None -> acc = None /\ valid l = [].
Proof.
  induction l as [|[x|] l IH]; intros acc H; simpl in H.
  - auto.
  - destruct (IH _ H) as [Ha _]. destruct acc as [y|]; simpl in Ha; [destruct (Qltb y x); discriminate | discriminate].
  - apply (IH acc H).
Qed.

Theorem co_max_spec l :
  match co_max l with
  | None => valid l = []
  | Some m => In m (valid l) /\ forall x, In x (valid l) -> x <= m
  end.
Proof.
  change (co_max l) with (fold_left max_step l None).
  destruct (fold_left max_step l None) as [m|] eqn:E.
  - destruct (max_fold l None m E) as [[H|H] [_ Hall]]; [discriminate | split; assumption].
  - apply (max_fold_none l None E).
Qed.

Theorem co_avg_spec l :
  match co_avg l with
  | None => valid l = []
  | Some m => valid l <> [] /\ m == fold_right Qplus 0 (valid l) / inject_Z (Z.of_nat (length (valid l)))
  end.
Proof.
  unfold co_avg. rewrite co_count_spec. destruct (valid l) as [|x r] eqn:E; cbn [length Nat.eqb].
  - reflexivity.
  - split; [discriminate|]. rewrite co_sum_spec, E. reflexivity.
Qed.

(* ---- median ---- *)
Lemma Qleb_true x y : Qleb x y = true -> x <= y.
Proof. unfold Qleb. destruct (Qlt_le_dec y x); [discriminate | auto]. Qed.
Lemma Qleb_false x y : Qleb x y = false -> y < x.
Proof. unfold Qleb. destruct (Qlt_le_dec y x); [auto | discriminate]. Qed.
Lemma Qsame_eq a b : Qsame a b = true <-> a = b.
Proof.
  unfold Qsame. rewrite andb_true_iff, Z.eqb_eq, Pos.eqb_eq. destruct a, b; cbn. split; [intros [-> ->]; reflexivity | intros [= -> ->]; auto].
Qed.

Lemma find_min_spec : forall l m, In (find_min m l) (m :: l) /\ find_min m l <= m /\ forall x, In x l -> find_min m l <= x.
Proof.
  induction l as [|v r IH]; intros m; cbn [find_min].
  - split; [left; reflexivity|]. split; [lra | intros x []].
  - destruct (Qleb v m) eqn:E.
    + apply Qleb_true in E. destruct (IH v) as [A [B C]]. split; [|split].
      * destruct A as [A|A]; [right; left; exact A | right; right; exact A].
      * lra.
      * intros x [<-|Hx]; [exact B | apply C; exact Hx].
    + apply Qleb_false in E. destruct (IH m) as [A [B C]]. split; [|split].
      * destruct A as [A|A]; [left; exact A | right; right; exact A].
      * exact B.
      * intros x [<-|Hx]; [lra | apply C; exact Hx].
Qed.

Lemma remove_first_perm x : forall l, In x l -> Permutation l (x :: remove_first x l).
Proof.
  induction l as [|v r IH]; intros H; [destruct H|]. cbn [remove_first].
  destruct (Qsame v x) eqn:E.
  - apply Qsame_eq in E. subst v. apply Permutation_refl.
  - destruct H as [->|H]; [assert (Qsame x x = true) by (apply Qsame_eq; reflexivity); congruence|].
    eapply perm_trans; [apply perm_skip; apply IH; exact H | apply perm_swap].
Qed.

Lemma sel_sort_spec : forall fuel l, (length l <= fuel)%nat ->
  Permutation l (sel_sort fuel l) /\ StronglySorted Qle (sel_sort fuel l).
Proof.
  induction fuel as [|f IH]; intros l Hl.
  - destruct l; [split; constructor | cbn in Hl; lia].
  - destruct l as [|v r]; [split; constructor|]. cbn [sel_sort].
    set (m := find_min v (v :: r)).
    destruct (find_min_spec (v :: r) v) as [A [B C]]. fold m in A, B, C.
    assert (Hin : In m (v :: r)) by (destruct A as [A|A]; [left; exact A | exact A]).
    pose proof (remove_first_perm m (v :: r) Hin) as P.
    assert (Hlen : (length (remove_first m (v :: r)) <= f)%nat).
    { apply Permutation_length in P. cbn [length] in *. lia. }
    destruct (IH _ Hlen) as [P2 S2]. split.
    + eapply perm_trans; [exact P | apply perm_skip; exact P2].
    + constructor; [exact S2|]. apply Forall_forall. intros x Hx.
      apply C. apply (Permutation_in _ (Permutation_sym P2)) in Hx.
      apply (Permutation_in x (Permutation_sym P)). right. exact Hx.
Qed.

(* the median is taken on a sorted rearrangement of exactly the non-NaN values; NaN iff there is none *)
Theorem co_median_spec l :
  exists s, Permutation (valid l) s /\ StronglySorted Qle s /\ co_median l = median_of s /\
            (co_median l = None <-> valid l = []).
Proof.
  unfold co_median. change (valid_of l) with (valid l). cbv zeta.
  destruct (sel_sort_spec (length (valid l)) (valid l) (le_n _)) as [P HS].
  exists (sel_sort (length (valid l)) (valid l)). split; [exact P|]. split; [exact HS|]. split; [reflexivity|].
  assert (E : length (sel_sort (length (valid l)) (valid l)) = length (valid l)) by (symmetry; apply Permutation_length; exact P).
  unfold median_of. cbv zeta. rewrite E.
  destruct (valid l) as [|x r] eqn:Ev; cbn [length Nat.eqb].
  - split; reflexivity.
  - split; [|discriminate]. destruct (Nat.odd (Datatypes.S (length r))); discriminate.
Qed.
Print Assumptions co_max_spec.
Print Assumptions co_avg_spec.
Print Assumptions co_median_spec.
