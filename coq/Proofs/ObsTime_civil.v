(* Spike: toAbsTime agrees with the proleptic Gregorian day count (independent closed form) *)
From Coq Require Import List ZArith Bool Lia.
Import ListNotations.
From TL Require Import Model.ObsTime Proofs.ObsTime_rt Proofs.ObsTime_ord.
Open Scope Z_scope.
Ltac Zify.zify_post_hook ::= Z.to_euclidean_division_equations.

(* number of leap years in 1..y *)
Definition leaps (y : Z) : Z := y / 4 - y / 100 + y / 400.
(* days from 0001-01-01 to the 1st of January of year y *)
Definition days_before_year (y : Z) : Z := 365 * (y - 1) + leaps (y - 1).
(* days from 0001-01-01 (day 0) to y-m-d: the textbook formula *)
Definition civil_days (y m d : Z) : Z :=
  days_before_year y + cumd (is_leap y) m + (d - 1).

Lemma leap_step y : 1 <= y -> leaps y - leaps (y - 1) = if is_leap y then 1 else 0.
Proof.
  intros H. unfold leaps, is_leap.
  destruct (Z.eqb_spec (y mod 4) 0); destruct (Z.eqb_spec (y mod 100) 0); destruct (Z.eqb_spec (y mod 400) 0);
    cbn [negb andb orb]; lia.
Qed.

Lemma years_secs_civil n :
  years_secs n = 86400 * (days_before_year (1970 + Z.of_nat n) - days_before_year 1970).
Proof.
  induction n as [|n IH]; [cbn [years_secs Z.of_nat]; rewrite Z.add_0_r; lia|].
  rewrite years_secs_S, IH. unfold days_before_year, year_len.
  pose proof (leap_step (1970 + Z.of_nat n) ltac:(lia)) as L.
  replace (1970 + Z.of_nat (S n) - 1) with (1970 + Z.of_nat n) by lia.
  destruct (is_leap (1970 + Z.of_nat n)); lia.
Qed.

Theorem to_abs_civil t : wf t = true -> 1970 <= year t ->
  to_abs t = 86400 * (civil_days (year t) (month t) (day t) - civil_days 1970 1 1)
             + 3600 * hour t + 60 * minute t + sec t.
Proof.
  intros W Y. rewrite (to_abs_split t W), years_secs_civil. unfold in_year, civil_days.
  replace (1970 + Z.of_nat (Z.to_nat (year t - 1970))) with (year t) by lia.
  change (cumd (is_leap 1970) 1) with 0. lia.
Qed.
Print Assumptions to_abs_civil.

(* sanity: 1970-01-01 is day 719162 of the proleptic calendar (datetime.date(1970,1,1).toordinal() - 1) *)
Example civil_epoch : civil_days 1970 1 1 = 719162. Proof. reflexivity. Qed.
