(* C08: no false negatives, for the executable rational model of the (repaired) spatial index *)
From Coq Require Import List ZArith QArith Qround Qreals Reals Lra Lia Bool.
Import ListNotations.
From Flocq Require Import Raux.
From TL Require Import Model.Grid Proofs.GridCells Proofs.GridQ2R Proofs.GridCellsC Proofs.GridBuild Proofs.GridUnits Proofs.GridWf.

Lemma Q2R_range (a : Q) (n : Z) : (0 <= a <= inject_Z n)%Q -> (0 <= Q2R a <= IZR n)%R.
Proof. intros [H1 H2]. apply Qle_Rle in H1, H2. rewrite Q2R_inject_Z in H2. rewrite Q2R_0 in H1. split; assumption. Qed.

Lemma Qfloor_nonneg a : (0 <= a)%Q -> (0 <= Qfloor a)%Z.
Proof. intros H. change 0%Z with (Qfloor 0). apply Qfloor_resp_le. exact H. Qed.

(* every vertex inside the extent: the collection is "good" (no IndexError when it is built) *)
Definition in_extent (ix : index) (p : Q * Q) : Prop := get_cell ix (fst p) (snd p) <> None.

Lemma segments_in poly p q : In (p, q) (segments poly) -> In p poly /\ In q poly.
Proof.
  induction poly as [|a r IH]; [intros []|]. destruct r as [|b r']; [intros []|].
  change (segments (a :: b :: r')) with ((a, b) :: segments (b :: r')). intros [E|H].
  - injection E as <- <-. split; [left; reflexivity | right; left; reflexivity].
  - destruct (IH H) as [H1 H2]. split; right; assumption.
Qed.

Lemma extent_good ix feats : wf_index ix -> (forall poly p, In poly feats -> In p poly -> in_extent ix p) -> good_feats ix feats.
Proof.
  intros Hwf Hin poly Hp p q Hs. destruct (segments_in poly p q Hs) as [Pp Pq].
  pose proof (Hin poly p Hp Pp) as Ep. pose proof (Hin poly q Hp Pq) as Eq. unfold in_extent in Ep, Eq.
  unfold seg_cells. destruct (get_cell ix (fst p) (snd p)) as [a|] eqn:Ea; [|congruence].
  destruct (get_cell ix (fst q) (snd q)) as [b|] eqn:Eb; [|congruence].
  eexists. split; [reflexivity|]. intros c Hc.
  destruct (get_cell_range ix _ _ a Hwf Ea) as [[A1 _] [A2 _]]. destruct (get_cell_range ix _ _ b Hwf Eb) as [[B1 _] [B2 _]].
  apply (cells_in_grid (csize ix) (lsize ix) (fst a) (snd a) (fst b) (snd b) c (w_cs ix Hwf) (w_ls ix Hwf));
    try (apply Qfloor_nonneg; assumption). exact Hc.
Qed.

(* ---- point query: every feature having a segment that passes through the cell containing the point ---- *)
Theorem request_point_complete ix feats g k poly p q a b (lam : R) x y c :
  wf_index ix -> build ix feats = Ok g -> good_feats ix feats ->
  nth_error feats k = Some poly -> In (p, q) (segments poly) ->
  get_cell ix (fst p) (snd p) = Some a -> get_cell ix (fst q) (snd q) = Some b -> (0 <= lam <= 1)%R ->
  get_cell ix x y = Some c ->
  (* the point of the segment at parameter lam (grid coordinates) lies in the cell of the query point *)
  cell_of ix c = (Z.min (Zfloor (Q2R (fst a) + lam * (Q2R (fst b) - Q2R (fst a)))) (csize ix - 1),
                  Z.min (Zfloor (Q2R (snd a) + lam * (Q2R (snd b) - Q2R (snd a)))) (lsize ix - 1)) ->
  exists r, request_point ix g x y = Some r /\ In k r.
Proof.
  intros Hwf Hb Hg Hn Hs Ea Eb Hl Ec Hcell.
  destruct (build_registers ix feats Hg) as [g' [Hb' Hreg]]. rewrite Hb in Hb'. injection Hb' as <-.
  unfold request_point. rewrite Ec. eexists. split; [reflexivity|]. rewrite Hcell.
  eapply (Hreg k poly p q); [exact Hn | exact Hs | unfold seg_cells; rewrite Ea, Eb; reflexivity |].
  - destruct (get_cell_range ix _ _ a Hwf Ea) as [RA1 RA2]. destruct (get_cell_range ix _ _ b Hwf Eb) as [RB1 RB2].
    apply cells_complete_Q; try assumption; try (apply (w_cs ix Hwf)); try (apply (w_ls ix Hwf)); apply Q2R_range; assumption.
Qed.

(* ---- segment / track query: every feature registered in a crossed cell ---- *)
Lemma add_values_mono t vals x : In x t -> In x (add_values t vals).
Proof.
  revert t. induction vals as [|d vals IH]; intros t H; [exact H|]. cbn [add_values fold_left]. apply IH.
  destruct (existsb (Nat.eqb d) t); [exact H | apply in_or_app; left; exact H].
Qed.
Lemma add_values_in t vals x : In x vals -> In x (add_values t vals).
Proof.
  revert t. induction vals as [|d vals IH]; intros t H; [destruct H|]. cbn [add_values fold_left].
  destruct H as [->|H].
  - apply (add_values_mono _ vals). destruct (existsb (Nat.eqb x) t) eqn:E.
    + apply existsb_exists in E. destruct E as [z [Hz Ez]]. apply Nat.eqb_eq in Ez. subst. exact Hz.
    + apply in_or_app. right. left. reflexivity.
  - apply IH. exact H.
Qed.
Lemma fold_values_mono g : forall cs t x, In x t -> In x (fold_left (fun t c => add_values t (lookup g c)) cs t).
Proof. induction cs as [|c cs IH]; intros t x H; [exact H|]. cbn [fold_left]. apply IH. apply add_values_mono. exact H. Qed.
Lemma fold_values_in g : forall cs t c x, In c cs -> In x (lookup g c) -> In x (fold_left (fun t c => add_values t (lookup g c)) cs t).
Proof.
  induction cs as [|c0 cs IH]; intros t c x Hc Hx; [destruct Hc|]. cbn [fold_left]. destruct Hc as [->|Hc].
  - apply fold_values_mono. apply add_values_in. exact Hx.
  - eapply IH; eassumption.
Qed.

Theorem request_segment_complete ix g p q a b c k :
  get_cell ix (fst p) (snd p) = Some a -> get_cell ix (fst q) (snd q) = Some b ->
  In c (cells (csize ix) (lsize ix) (fst a) (snd a) (fst b) (snd b)) -> In k (lookup g c) ->
  exists r, request_segment ix g p q = Some r /\ In k r.
Proof.
  intros Ea Eb Hc Hk. unfold request_segment. rewrite Ea, Eb. eexists. split; [reflexivity|]. eapply fold_values_in; eassumption.
Qed.

(* ---- neighbourhood of a point, radius converted from a ground distance ---- *)
Lemma in_zr lo hi k : (lo <= k < hi)%Z -> In k (zr lo hi).
Proof. intros H. unfold zr. apply in_map_iff. exists (Z.to_nat (k - lo)). split; [lia | apply in_seq; lia]. Qed.

Lemma in_window ix i j u a b :
  (Z.abs (a - i) <= u)%Z -> (Z.abs (b - j) <= u)%Z -> (0 <= a < csize ix)%Z -> (0 <= b < lsize ix)%Z -> In (a, b) (window ix i j u).
Proof.
  intros Ha Hb Ca Cb. unfold window. apply in_flat_map. exists a. split; [apply in_zr; lia|].
  apply in_map_iff. exists b. split; [reflexivity | apply in_zr; lia].
Qed.

Lemma Qmin2_Rmin a b : Q2R (Qmin2 a b) = Rmin (Q2R a) (Q2R b).
Proof.
  unfold Qmin2, Rmin. destruct (Qle_bool a b) eqn:E.
  - apply Qle_bool_iff in E. apply Qle_Rle in E. destruct (Rle_dec (Q2R a) (Q2R b)); [reflexivity | contradiction].
  - destruct (Rle_dec (Q2R a) (Q2R b)) as [H|H]; [|reflexivity]. apply Rle_Qle in H. apply Qle_bool_iff in H. congruence.
Qed.

Lemma units_R ix d : wf_index ix -> Grid.units ix d = Zfloor (Q2R d / Rmin (Q2R (dX ix)) (Q2R (dY ix)) + 1).
Proof.
  intros Hwf. unfold Grid.units. rewrite <- Zfloor_Q2R. f_equal.
  assert (Hm : ~ (Qmin2 (dX ix) (dY ix) == 0)%Q).
  { unfold Qmin2. pose proof (w_dx ix Hwf) as P1. pose proof (w_dy ix Hwf) as P2.
    destruct (Qle_bool (dX ix) (dY ix)); intros E; [rewrite E in P1; exact (Qlt_irrefl 0 P1) | rewrite E in P2; exact (Qlt_irrefl 0 P2)]. }
  rewrite Q2R_plus, Q2R_div by exact Hm. rewrite Qmin2_Rmin, Q2R_1. reflexivity.
Qed.

Lemma min_clamp_dist a b n : (Z.abs (Z.min a n - Z.min b n) <= Z.abs (a - b))%Z.
Proof. lia. Qed.

(* a coordinate within ground distance d (cell side s >= the smaller side m) is at most floor(d/m + 1) cells away *)
Lemma axis_cover (gq gr s m d : R) : (0 < m <= s)%R -> (0 <= d)%R -> (Rabs ((gq - gr) * s) <= d)%R ->
  (Z.abs (Zfloor gq - Zfloor gr) <= Zfloor (d / m + 1))%Z.
Proof.
  intros [Hm Hms] Hd H.
  assert (Hs : (0 < s)%R) by lra.
  assert (E : Zfloor (d / m + 1) = (Zfloor (d / m) + 1)%Z).
  { apply Zfloor_imp. pose proof (Zfloor_lb (d / m)). pose proof (Zfloor_ub (d / m)). rewrite !plus_IZR. simpl. lra. }
  rewrite E. apply floor_diff.
  rewrite Rabs_mult, (Rabs_pos_eq s) in H by lra.
  assert (A : (Rabs (gq - gr) <= d / s)%R).
  { unfold Rdiv. apply Rmult_le_reg_r with s; [exact Hs|]. rewrite Rmult_assoc, Rinv_l by lra. rewrite Rmult_1_r. exact H. }
  eapply Rle_trans; [exact A|]. unfold Rdiv. apply Rmult_le_compat_l; [exact Hd|]. apply Rinv_le_contravar; assumption.
Qed.

Theorem neighborhood_complete_Q ix feats g k poly p q a b (lam : R) x y c (d : Q) :
  wf_index ix -> build ix feats = Ok g -> good_feats ix feats ->
  nth_error feats k = Some poly -> In (p, q) (segments poly) ->
  get_cell ix (fst p) (snd p) = Some a -> get_cell ix (fst q) (snd q) = Some b -> (0 <= lam <= 1)%R ->
  get_cell ix x y = Some c -> (0 <= d)%Q ->
  (* ground distance between the query point and the point of the segment at parameter lam is at most d *)
  (let rx := (Q2R (fst a) + lam * (Q2R (fst b) - Q2R (fst a)))%R in let ry := (Q2R (snd a) + lam * (Q2R (snd b) - Q2R (snd a)))%R in
   ((Q2R (fst c) - rx) * Q2R (dX ix)) * ((Q2R (fst c) - rx) * Q2R (dX ix)) + ((Q2R (snd c) - ry) * Q2R (dY ix)) * ((Q2R (snd c) - ry) * Q2R (dY ix)) <= Q2R d * Q2R d)%R ->
  exists r, neighborhood_point ix g x y (Grid.units ix d) = Some r /\ In k r.
Proof.
  intros Hwf Hb Hg Hn Hs Ea Eb Hl Ec Hd Hdist. cbv zeta in Hdist.
  set (rx := (Q2R (fst a) + lam * (Q2R (fst b) - Q2R (fst a)))%R) in *.
  set (ry := (Q2R (snd a) + lam * (Q2R (snd b) - Q2R (snd a)))%R) in *.
  destruct (build_registers ix feats Hg) as [g' [Hb' Hreg]]. rewrite Hb in Hb'. injection Hb' as <-.
  destruct (get_cell_range ix _ _ a Hwf Ea) as [RA1 RA2]. destruct (get_cell_range ix _ _ b Hwf Eb) as [RB1 RB2].
  destruct (get_cell_range ix _ _ c Hwf Ec) as [RC1 RC2].
  pose proof (w_cs ix Hwf) as Hcs. pose proof (w_ls ix Hwf) as Hls.
  (* the registered cell of the segment point *)
  set (ci := Z.min (Zfloor rx) (csize ix - 1)). set (cj := Z.min (Zfloor ry) (lsize ix - 1)).
  assert (Hreg1 : In k (lookup g (ci, cj))).
  { eapply (Hreg k poly p q); [exact Hn | exact Hs | unfold seg_cells; rewrite Ea, Eb; reflexivity |].
    apply cells_complete_Q; try assumption; apply Q2R_range; assumption. }
  assert (Rrx : (0 <= rx <= IZR (csize ix))%R).
  { pose proof (Q2R_range _ _ RA1). pose proof (Q2R_range _ _ RB1). unfold rx. nra. }
  assert (Rry : (0 <= ry <= IZR (lsize ix))%R).
  { pose proof (Q2R_range _ _ RA2). pose proof (Q2R_range _ _ RB2). unfold ry. nra. }
  destruct (clamp_brackets rx (csize ix) Hcs Rrx) as [Bi _]. destruct (clamp_brackets ry (lsize ix) Hls Rry) as [Bj _].
  fold ci in Bi. fold cj in Bj.
  unfold neighborhood_point. rewrite Ec. unfold cell_of.
  eexists. split; [reflexivity|]. unfold neighborhood_cell. apply in_flat_map. exists (ci, cj). split; [|exact Hreg1].
  (* distances along the two axes *)
  pose proof (w_dx ix Hwf) as PdX. pose proof (w_dy ix Hwf) as PdY. apply Qlt_Rlt in PdX, PdY.
  rewrite Q2R_0 in PdX, PdY.
  apply Qle_Rle in Hd. rewrite Q2R_0 in Hd.
  set (ex := ((Q2R (fst c) - rx) * Q2R (dX ix))%R) in *. set (ey := ((Q2R (snd c) - ry) * Q2R (dY ix))%R) in *.
  assert (Hsq : forall u v, (u * u + v * v <= Q2R d * Q2R d)%R -> (Rabs u <= Q2R d)%R).
  { intros u v Huv. pose proof (Rle_0_sqr v) as Hv. unfold Rsqr in Hv.
    rewrite <- (Rabs_pos_eq (Q2R d) Hd). apply Rsqr_le_abs_0. unfold Rsqr. lra. }
  assert (Hx : (Rabs ex <= Q2R d)%R) by (apply (Hsq ex ey); exact Hdist).
  assert (Hy : (Rabs ey <= Q2R d)%R) by (apply (Hsq ey ex); lra).
  rewrite (units_R ix d Hwf).
  assert (Mx : (0 < Rmin (Q2R (dX ix)) (Q2R (dY ix)) <= Q2R (dX ix))%R) by (split; [apply Rmin_pos; assumption | apply Rmin_l]).
  assert (My : (0 < Rmin (Q2R (dX ix)) (Q2R (dY ix)) <= Q2R (dY ix))%R) by (split; [apply Rmin_pos; assumption | apply Rmin_r]).
  pose proof (axis_cover (Q2R (fst c)) rx _ _ (Q2R d) Mx Hd Hx) as Ax.
  pose proof (axis_cover (Q2R (snd c)) ry _ _ (Q2R d) My Hd Hy) as Ay.
  rewrite Zfloor_Q2R in Ax, Ay.
  apply in_window; lia.
Qed.
Print Assumptions request_point_complete.
Print Assumptions request_segment_complete.
Print Assumptions neighborhood_complete_Q.
