(* C11: every piece produced before the tail is non-empty, ends with a marked observation and contains no other marker;
   the tail (present when at least one marker was met) carries no marker *)
From Coq Require Import List Arith Bool Lia.
Import ListNotations.
From TL Require Import Model.Split.

Section P.
Variable O : Type.
Let A := (O * bool)%type.               (* observation with its marker *)

Definition unmarked (y : A) : Prop := snd y = false.
Definition good (p : list A) : Prop := exists q x, p = q ++ [x] /\ snd x = true /\ Forall unmarked q.

Lemma extract_mid (done cur : list A) x rest :
  extract A (done ++ cur ++ x :: rest) (length done) (length (done ++ cur)) = cur ++ [x].
Proof.
  unfold extract. rewrite skipn_app, skipn_all, Nat.sub_diag. cbn [skipn app].
  rewrite app_length. replace (S (length done + length cur) - length done) with (length cur + 1) by lia.
  rewrite firstn_app, firstn_all2 by lia. replace (length cur + 1 - length cur) with 1 by lia. reflexivity.
Qed.

Lemma split_loop_pieces (l : list A) : forall rest done cur,
  l = done ++ cur ++ rest -> Forall unmarked cur ->
  let '(ps, b) := split_loop A l (map snd rest) (length (done ++ cur)) (length done) in
  Forall good ps /\ exists done' cur', l = done' ++ cur' /\ length done' = b /\ Forall unmarked cur'.
Proof.
  induction rest as [|x rest IH]; intros done cur El Hc; cbn [map split_loop].
  - split; [constructor|]. exists done, cur. rewrite app_nil_r in El. auto.
  - destruct (snd x) eqn:Ex.
    + specialize (IH (done ++ cur ++ [x]) [] ).
      replace (length ((done ++ cur ++ [x]) ++ [])) with (S (length (done ++ cur))) in IH
        by (rewrite !app_length; simpl; lia).
      replace (length (done ++ cur ++ [x])) with (S (length (done ++ cur))) in IH
        by (rewrite !app_length; simpl; lia).
      destruct (split_loop A l (map snd rest) (S (length (done ++ cur))) (S (length (done ++ cur)))) as [ps b].
      destruct IH as [Hg Hd].
      { rewrite El. rewrite <- !app_assoc. reflexivity. }
      { constructor. }
      split; [|exact Hd].
      constructor; [|exact Hg]. rewrite El, extract_mid. exists cur, x. auto.
    + specialize (IH done (cur ++ [x])).
      replace (length (done ++ cur ++ [x])) with (S (length (done ++ cur))) in IH
        by (rewrite !app_length; simpl; lia).
      destruct (split_loop A l (map snd rest) (S (length (done ++ cur))) (length done)) as [ps b].
      apply IH.
      * rewrite El. rewrite <- !app_assoc. reflexivity.
      * apply Forall_app. split; [exact Hc | constructor; [exact Ex | constructor]].
Qed.

Theorem split_pieces (l : list A) :
  exists ps tail, split A l (map snd l) = ps ++ tail /\ Forall good ps /\
    (tail = [] \/ exists t, tail = [t] /\ Forall unmarked t).
Proof.
  unfold split. pose proof (split_loop_pieces l l [] [] eq_refl (Forall_nil _)) as H.
  cbn [app length] in H. destruct (split_loop A l (map snd l) 0 0) as [ps b].
  destruct H as [Hg [done' [cur' [El [Hb Hc]]]]].
  exists ps. destruct (Nat.eqb_spec b 0).
  - exists []. rewrite app_nil_r. auto.
  - exists [extract A l b (length l - 1)]. split; [reflexivity|]. split; [exact Hg|]. right.
    eexists. split; [reflexivity|].
    assert (E : extract A l b (length l - 1) = cur').
    { unfold extract. subst b. rewrite El at 2. rewrite skipn_app, skipn_all, Nat.sub_diag. cbn [skipn app].
      apply firstn_all2. rewrite El, app_length. lia. }
    rewrite E. exact Hc.
Qed.
End P.
Print Assumptions split_pieces.
