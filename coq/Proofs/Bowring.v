(* Spike: GeoCoords.toECEFCoords / ECEFCoords.toGeoCoords (radians) — longitude is recovered exactly for
   every height, and a point of the ellipsoid (h = 0) is recovered exactly (Bowring's formula is exact there) *)
From Coq Require Import Reals Lra Nsatz.
From TL Require Import Proofs.Atan2.
Open Scope R_scope.

Section WGS.
Variables a f : R.
Hypothesis Ha : 0 < a.
Hypothesis Hf : 0 < f < 1.

Definition b := a * (1 - f).
Definition e := sqrt (f * (2 - f)).
Definition nrad (lat : R) := a / sqrt (1 - (e * sin lat) ^ 2).

Definition geo_to_ecef (lon lat h : R) : R * R * R :=
  let n := nrad lat in
  ((n + h) * cos lat * cos lon, (n + h) * cos lat * sin lon, ((1 - e * e) * n + h) * sin lat).

Definition ecef_to_geo (P : R * R * R) : R * R * R :=
  let '(X, Y, Z) := P in
  let hh := a * a - b * b in
  let p := sqrt (X * X + Y * Y) in
  let t := atan2 (Z * a) (p * b) in
  let lon := atan2 Y X in
  let lat := atan2 (Z + hh / b * (sin t) ^ 3) (p - hh / a * (cos t) ^ 3) in
  let n := a / sqrt (1 - (e * sin lat) ^ 2) in
  (lon, lat, p / cos lat - n).

Lemma ee : e * e = f * (2 - f).
Proof. unfold e. apply sqrt_sqrt. nra. Qed.

Lemma W_pos lat : 0 < 1 - (e * sin lat) ^ 2.
Proof.
  pose proof (sin2_cos2 lat) as H. unfold Rsqr in H. pose proof ee as E.
  assert (0 <= cos lat * cos lat) by nra.
  assert (e * e < 1) by (rewrite E; nra).
  assert (0 <= e * e) by nra. nra.
Qed.

Lemma nrad_pos lat : 0 < nrad lat.
Proof. unfold nrad. apply Rdiv_lt_0_compat; [assumption | apply sqrt_lt_R0, W_pos]. Qed.

Theorem lon_exact lon lat h : - PI < lon <= PI -> - (PI / 2) < lat < PI / 2 -> - nrad lat < h ->
  fst (fst (ecef_to_geo (geo_to_ecef lon lat h))) = lon.
Proof.
  intros Hlon Hlat Hh. unfold ecef_to_geo, geo_to_ecef. cbn [fst].
  assert (Hc : 0 < cos lat) by (apply cos_gt_0; lra).
  replace ((nrad lat + h) * cos lat * sin lon) with (((nrad lat + h) * cos lat) * sin lon) by ring.
  apply atan2_polar; [|assumption]. apply Rmult_lt_0_compat; lra.
Qed.

Theorem surface_exact lon lat : - PI < lon <= PI -> - (PI / 2) < lat < PI / 2 ->
  ecef_to_geo (geo_to_ecef lon lat 0) = (lon, lat, 0).
Proof.
  intros Hlon Hlat.
  pose proof (lon_exact lon lat 0 Hlon Hlat ltac:(pose proof (nrad_pos lat); lra)) as Hl.
  unfold ecef_to_geo, geo_to_ecef in *. cbn [fst] in Hl. rewrite Hl. clear Hl.
  assert (Hc : 0 < cos lat) by (apply cos_gt_0; lra).
  pose proof (sin2_cos2 lat) as Hsc. unfold Rsqr in Hsc.
  pose proof (sin2_cos2 lon) as Hsc'. unfold Rsqr in Hsc'.
  pose proof ee as E. pose proof (W_pos lat) as HW0.
  set (s := sin lat) in *. set (c := cos lat) in *.
  set (k := 1 - f). assert (Hk : 0 < k < 1) by (unfold k; lra).
  assert (Ek : 1 - e * e = k * k) by (rewrite E; unfold k; ring).
  set (W := sqrt (1 - (e * s) ^ 2)).
  assert (HW : 0 < W) by (apply sqrt_lt_R0; assumption).
  assert (HWW : W * W = c * c + k * k * s * s).
  { unfold W. rewrite sqrt_sqrt by lra. nra. }
  unfold nrad. fold s. fold W. rewrite !Rplus_0_r.
  (* p = n c *)
  assert (Hp : sqrt (a / W * c * cos lon * (a / W * c * cos lon) + a / W * c * sin lon * (a / W * c * sin lon)) = a / W * c).
  { apply sqrt_lem_1.
    - nra.
    - apply Rmult_le_pos; [apply Rlt_le, Rdiv_lt_0_compat; assumption | lra].
    - nra. }
  rewrite Hp.
  (* t is the reduced latitude *)
  assert (Hb : b = a * k) by reflexivity.
  assert (Hpb : 0 < a / W * c * b).
  { rewrite Hb. assert (HaW : 0 < a / W) by (apply Rdiv_lt_0_compat; assumption).
    assert (0 < a / W * c) by (apply Rmult_lt_0_compat; assumption).
    assert (0 < a * k) by (apply Rmult_lt_0_compat; lra). apply Rmult_lt_0_compat; assumption. }
  assert (Ht : atan2 ((1 - e * e) * (a / W) * s * a) (a / W * c * b) = atan (k * s / c)).
  { unfold atan2. destruct (Rlt_dec 0 (a / W * c * b)); [|lra]. f_equal. rewrite Ek, Hb. field. repeat split; lra. }
  rewrite Ht.
  assert (Hsq : sqrt (1 + (k * s / c)²) = W / c).
  { apply sqrt_lem_1.
    - unfold Rsqr. assert (0 <= (k * s / c) * (k * s / c)) by nra. lra.
    - apply Rlt_le, Rdiv_lt_0_compat; assumption.
    - unfold Rsqr. field_simplify_eq; [|lra]. nra. }
  rewrite sin_atan, cos_atan, Hsq.
  (* numerator and denominator of the latitude formula *)
  set (num := (1 - e * e) * (a / W) * s + (a * a - b * b) / b * (k * s / c / (W / c)) ^ 3).
  set (den := a / W * c - (a * a - b * b) / a * (1 / (W / c)) ^ 3).
  assert (Hnum : num = a * k * k * s / (W * W * W)).
  { unfold num. rewrite Ek, Hb. unfold Rdiv.
    assert (HiW : W * / W = 1) by (field; lra). assert (Hik : k * / k = 1) by (field; lra).
    assert (Hic : c * / c = 1) by (field; lra). assert (Hia : a * / a = 1) by (field; lra).
    rewrite !Rinv_mult, ?Rinv_inv.
    set (iW := / W) in *. set (ik := / k) in *. set (ic := / c) in *. set (ia := / a) in *.
    cbn [Rpow_def.pow]. clearbody iW ik ic ia. clear - HiW Hik Hic Hia HWW Hsc. clearbody W c s k. nsatz. }
  assert (Hden : den = a * c * k * k / (W * W * W)).
  { unfold den. rewrite Hb. unfold Rdiv.
    assert (HiW : W * / W = 1) by (field; lra). assert (Hik : k * / k = 1) by (field; lra).
    assert (Hic : c * / c = 1) by (field; lra). assert (Hia : a * / a = 1) by (field; lra).
    rewrite !Rinv_mult, ?Rinv_inv.
    set (iW := / W) in *. set (ik := / k) in *. set (ic := / c) in *. set (ia := / a) in *.
    cbn [Rpow_def.pow]. clearbody iW ik ic ia. clear - HiW Hik Hic Hia HWW Hsc. clearbody W c s k. nsatz. }
  assert (HW3 : 0 < W * W * W) by (repeat apply Rmult_lt_0_compat; assumption).
  assert (Hdpos : 0 < den).
  { rewrite Hden. apply Rdiv_lt_0_compat; [|assumption]. repeat apply Rmult_lt_0_compat; lra. }
  assert (Hlat2 : atan2 num den = lat).
  { unfold atan2. destruct (Rlt_dec 0 den); [|lra].
    replace (num / den) with (tan lat).
    - apply atan_tan. lra.
    - rewrite Hnum, Hden. unfold tan. fold s c. field. repeat split; lra. }
  rewrite Hlat2. fold s c W.
  f_equal. field. split; lra.
Qed.
End WGS.
Print Assumptions surface_exact.
