(* C13, network CSV: an edge line written by the model's writer and read by the model of csv.reader + wktLineStringToObs gives back
   the edge (identifier, end nodes, orientation, geometry tokens in order); a whole file gives back its edges, as many and in order *)
From Coq Require Import List Ascii String Bool Arith Lia.
From TL Require Import Model.TextFmt Model.CsvText Model.WktText Model.NetText Proofs.FixedText Proofs.CsvLine Proofs.CsvFile Proofs.WktText.
Import ListNotations.
Close Scope Z_scope.
Open Scope string_scope.

(* a character of an unquoted field: neither the separator nor the quote nor a newline *)
Definition uch (sep : ascii) (c : ascii) : bool := differs sep c && differs dq c && differs nl c.
Definition ufield (sep : ascii) (f : string) : Prop := str_all (uch sep) f = true.

Lemma app_nil_s (s : string) : s ++ "" = s.
Proof. induction s as [|c s IH]; cbn; [reflexivity | rewrite IH; reflexivity]. Qed.

(* ---- csv.reader on the writer's line ---- *)
Lemma row_unq sep f r cur : ufield sep f -> csv_row sep (f ++ String sep r) Unq cur = cur f :: csv_row sep r Start (fun x => x).
Proof.
  revert cur. induction f as [|c f IH]; intros cur H.
  - cbn [append csv_row]. rewrite Ascii.eqb_refl. reflexivity.
  - unfold ufield in H. cbn [str_all] in H. apply andb_prop in H. destruct H as [Hc Hf]. cbn [append csv_row].
    unfold uch, differs in Hc. destruct (Ascii.eqb c sep); [discriminate Hc|]. rewrite (IH _ Hf). reflexivity.
Qed.
Lemma row_start sep f r : sep <> dq -> ufield sep f -> csv_row sep (f ++ String sep r) Start (fun x => x) = f :: csv_row sep r Start (fun x => x).
Proof.
  intros Hsd H. destruct f as [|c f].
  - cbn [append csv_row]. destruct (Ascii.eqb_spec sep dq); [contradiction|]. rewrite Ascii.eqb_refl. reflexivity.
  - unfold ufield in H. cbn [str_all] in H. apply andb_prop in H. destruct H as [Hc Hf]. cbn [append csv_row].
    unfold uch, differs in Hc. destruct (Ascii.eqb c dq); [rewrite andb_false_r in Hc; discriminate Hc|]. destruct (Ascii.eqb c sep); [discriminate Hc|].
    rewrite (row_unq sep f r _ Hf). reflexivity.
Qed.
Lemma row_quo sep body r cur : str_all (differs dq) body = true ->
  csv_row sep (body ++ String dq r) Quo cur = csv_row sep r QuoQ (fun x => cur (body ++ x)).
Proof.
  revert cur. induction body as [|c b IH]; intros cur H.
  - cbn [append csv_row]. rewrite Ascii.eqb_refl. reflexivity.
  - cbn [str_all] in H. apply andb_prop in H. destruct H as [Hc Hb]. cbn [append csv_row]. unfold differs in Hc.
    destruct (Ascii.eqb c dq); [discriminate Hc|]. rewrite (IH _ Hb). reflexivity.
Qed.
Lemma row_quoted_last sep body : str_all (differs dq) body = true -> csv_row sep (String dq (body ++ String dq "")) Start (fun x => x) = [body].
Proof. intros H. cbn [csv_row]. rewrite Ascii.eqb_refl, (row_quo sep body "" _ H). cbn [csv_row]. rewrite app_nil_s. reflexivity. Qed.

Definition edge_ok (sep : ascii) (e : edge_rec) : Prop :=
  ufield sep (e_id e) /\ ufield sep (e_src e) /\ ufield sep (e_tgt e) /\ ufield sep (e_dir e) /\
  e_pts e <> [] /\ Forall (fun p => tok_ok (fst p) /\ tok_ok (snd p) /\ str_all (uch sep) (fst p) = true /\ str_all (uch sep) (snd p) = true) (e_pts e).

Lemma net_line_ne sep e : net_line sep e <> "".
Proof. unfold net_line. destruct (e_id e); discriminate. Qed.

Lemma wkt_all P pts : P "L"%char = true -> P "I"%char = true -> P "N"%char = true -> P "E"%char = true -> P "S"%char = true -> P "T"%char = true ->
  P "R"%char = true -> P "G"%char = true -> P "("%char = true -> P ")"%char = true -> P ","%char = true -> P " "%char = true ->
  Forall (fun p => str_all P (fst p) = true /\ str_all P (snd p) = true) pts -> str_all P (to_wkt pts) = true.
Proof.
  intros HL HI HN HE HS HT HR HG Ho Hc Hm Hsp H. unfold to_wkt. rewrite !str_all_app. cbn [str_all].
  rewrite HL, HI, HN, HE, HS, HT, HR, HG, Ho, Hc. cbn [andb]. rewrite andb_true_r.
  apply str_all_join; [cbn [str_all]; rewrite Hm; reflexivity|].
  apply forallb_forall. intros s Hs. apply in_map_iff in Hs. destruct Hs as [p [<- Hp]]. rewrite Forall_forall in H. destruct (H p Hp) as [H1 H2].
  rewrite !str_all_app, H1, H2. cbn [str_all]. rewrite Hsp. reflexivity.
Qed.

Lemma edge_wkt_noquote sep e : sep <> dq -> edge_ok sep e -> str_all (differs dq) (to_wkt (e_pts e)) = true.
Proof.
  intros _ [_ [_ [_ [_ [_ H]]]]]. apply wkt_all; try reflexivity.
  rewrite Forall_forall in *. intros p Hp. destruct (H p Hp) as [_ [_ [H1 H2]]].
  split; eapply str_all_imp; try eassumption; intros c Hc; unfold uch in Hc; apply andb_prop in Hc; destruct Hc as [Hc _]; apply andb_prop in Hc; apply Hc.
Qed.

Theorem csv_fields_line sep e : sep <> dq -> edge_ok sep e ->
  csv_fields sep (net_line sep e) = [e_id e; e_src e; e_tgt e; e_dir e; to_wkt (e_pts e)].
Proof.
  intros Hsd He. pose proof (edge_wkt_noquote sep e Hsd He) as Hw. destruct He as [H1 [H2 [H3 [H4 _]]]].
  unfold csv_fields. pose proof (net_line_ne sep e) as Hne. destruct (net_line sep e) eqn:E; [congruence|]. rewrite <- E. clear E Hne.
  unfold net_line. rewrite (row_start sep _ _ Hsd H1), (row_start sep _ _ Hsd H2), (row_start sep _ _ Hsd H3), (row_start sep _ _ Hsd H4).
  rewrite (row_quoted_last sep _ Hw). reflexivity.
Qed.

(* ---- wktLineStringToObs on Track.toWKT ---- *)
Theorem wkt_obs_roundtrip pts : pts <> [] -> Forall (fun p => tok_ok (fst p) /\ tok_ok (snd p)) pts -> wkt_obs (to_wkt pts) = Some pts.
Proof.
  intros Hne Hok. unfold wkt_obs, to_wkt.
  assert (Hfree : forall c, (c = "(" \/ c = ")" \/ c = ",")%char -> forallb (str_all (differs c)) (map item pts) = true).
  { intros c Hc. apply forallb_forall. intros s Hs. apply in_map_iff in Hs. destruct Hs as [p [<- Hp]].
    rewrite Forall_forall in Hok. destruct (Hok p Hp) as [[_ H1] [_ H2]]. unfold item. rewrite !str_all_app.
    rewrite (sepfree_differs c _ ltac:(tauto) H1), (sepfree_differs c _ ltac:(tauto) H2).
    destruct Hc as [->|[->| ->]]; reflexivity. }
  change (map (fun p => fst p ++ " " ++ snd p) pts) with (map item pts).
  change ("LINESTRING(" ++ join "," (map item pts) ++ ")") with ("LINESTRING" ++ String "(" (join "," (map item pts) ++ ")")).
  unfold split at 1. rewrite (split_acc_field "(" "LINESTRING" _ (fun s => s) eq_refl).
  assert (Hbody : str_all (differs "(") (join "," (map item pts) ++ ")") = true).
  { rewrite str_all_app. rewrite (str_all_join (differs "(") "," _ eq_refl (Hfree "("%char ltac:(auto))). reflexivity. }
  rewrite (split_acc_last "(" _ (fun s => s) Hbody).
  unfold split at 1.
  rewrite (split_acc_field ")" (join "," (map item pts)) "" (fun s => s) (str_all_join (differs ")") "," _ eq_refl (Hfree ")"%char ltac:(auto)))).
  assert (HneU : map item pts <> []) by (destruct pts; [congruence | discriminate]).
  rewrite (split_join "," (map item pts) HneU (Hfree ","%char ltac:(auto))).
  clear Hbody HneU Hfree Hne. induction pts as [|[x y] pts IH]; [reflexivity|].
  inversion Hok as [|? ? [Hx Hy] Hok']; subst. cbn [map fold_right]. cbn [fst snd] in Hx, Hy.
  rewrite (pair_item x y Hx Hy), (IH Hok'). reflexivity.
Qed.

(* ---- one edge line ---- *)
Theorem net_line_roundtrip sep e : sep <> dq -> edge_ok sep e -> read_edge sep (net_line sep e) = Some e.
Proof.
  intros Hsd He. unfold read_edge. rewrite (csv_fields_line sep e Hsd He). cbn [nth_error].
  destruct He as [_ [_ [_ [_ [Hne Hp]]]]].
  rewrite (wkt_obs_roundtrip (e_pts e) Hne); [destruct e; reflexivity|].
  rewrite Forall_forall in *. intros p Hin. destruct (Hp p Hin) as [A [B _]]. split; assumption.
Qed.

(* ---- the file ---- *)
Lemma line_nonl sep e : differs nl sep = true -> edge_ok sep e -> nonl (net_line sep e).
Proof.
  intros Hs He. unfold nonl, net_line. pose proof He as [H1 [H2 [H3 [H4 [_ Hp]]]]].
  assert (U : forall f, ufield sep f -> str_all (differs nl) f = true).
  { intros f Hf. eapply str_all_imp; [|exact Hf]. intros c Hc. unfold uch in Hc. apply andb_prop in Hc. apply Hc. }
  rewrite !str_all_app. cbn [str_all]. rewrite !str_all_app. cbn [str_all]. rewrite !str_all_app. cbn [str_all]. rewrite !str_all_app. cbn [str_all].
  rewrite (U _ H1), (U _ H2), (U _ H3), (U _ H4), Hs. cbn [andb].
  rewrite str_all_app. cbn [str_all]. rewrite andb_true_r.
  apply wkt_all; try reflexivity.
  rewrite Forall_forall in *. intros p Hin. destruct (Hp p Hin) as [_ [_ [A B]]]. split; apply U; assumption.
Qed.
Lemma header_nonl sep : differs nl sep = true -> nonl (net_header sep).
Proof. intros Hs. unfold nonl, net_header. rewrite !str_all_app. cbn [str_all]. rewrite !str_all_app. cbn [str_all]. rewrite !str_all_app. cbn [str_all]. rewrite !str_all_app. cbn [str_all]. rewrite Hs. reflexivity. Qed.

Lemma rows_lines ls : Forall nonl ls -> rows (concat_lines ls) = ls.
Proof. intros H. unfold rows. rewrite (split_lines ls H), rev_app_distr. cbn [rev app]. apply rev_involutive. Qed.

Theorem net_file_roundtrip h sep es : sep <> dq -> differs nl sep = true -> Forall (edge_ok sep) es ->
  read_net h sep (write_net h sep es) = map Some es.
Proof.
  intros Hsd Hnl Hes. unfold read_net, write_net.
  assert (Hl : Forall nonl (map (net_line sep) es)).
  { rewrite Forall_forall in *. intros l Hin. apply in_map_iff in Hin. destruct Hin as [e [<- He]]. apply line_nonl; [exact Hnl | apply Hes, He]. }
  rewrite rows_lines.
  - destruct h; cbn [skipn app]; rewrite map_map; apply map_ext_in; intros e He; apply net_line_roundtrip; [exact Hsd | rewrite Forall_forall in Hes; apply Hes, He | exact Hsd | rewrite Forall_forall in Hes; apply Hes, He].
  - destruct h; [constructor; [apply header_nonl, Hnl | exact Hl] | exact Hl].
Qed.
Print Assumptions net_file_roundtrip.

(* non-vacuity *)
Example edge_ok_ex : edge_ok "," {| e_id := "e0"; e_src := "n1"; e_tgt := "n2"; e_dir := "-1"; e_pts := [("1.5", "-2e-05"); ("3.0", "4.25")] |}.
Proof. unfold edge_ok, ufield, tok_ok. cbn. repeat split; try reflexivity; try discriminate. repeat constructor; cbn; try reflexivity; discriminate. Qed.
