(* C04: removal by index list, time-span extraction, concatenation, chronological insertion *)
From Coq Require Import List Arith ZArith Bool Lia Sorted Permutation.
Import ListNotations.
From TL Require Import Model.SeqOps Model.SeqInsert Proofs.SeqInsert_range Proofs.SeqInsert_spec Proofs.SeqInsert_total.
Close Scope Z_scope.

Section S.
Variable A : Type.

(* ---- removal ---- *)
Lemma fold_del_nil : forall js, fold_left (del_nth A) js [] = [].
Proof. induction js as [|j js IH]; [reflexivity|]. cbn [fold_left]. destruct j; exact IH. Qed.

Lemma fold_del_shift (x : A) : forall js r, (forall j, In j js -> 1 <= j) ->
  fold_left (del_nth A) js (x :: r) = x :: fold_left (del_nth A) (map pred js) r.
Proof.
  induction js as [|j js IH]; intros r H; [reflexivity|]. cbn [fold_left map].
  destruct j as [|j']; [specialize (H 0 (or_introl eq_refl)); lia|]. cbn [del_nth pred].
  apply IH. intros k Hk. apply H. right. exact Hk.
Qed.

Lemma drop_ids_skip_small : forall l i j ids, j < i -> drop_ids A i l (j :: ids) = drop_ids A i l ids.
Proof.
  induction l as [|x r IH]; intros i j ids H; [reflexivity|]. cbn [drop_ids existsb].
  destruct (Nat.eqb_spec i j); [lia|]. cbn [orb]. rewrite !(IH (S i) j ids) by lia. reflexivity.
Qed.

Lemma drop_ids_nil : forall l i, drop_ids A i l [] = l.
Proof. induction l as [|x r IH]; intros i; [reflexivity|]. cbn [drop_ids existsb]. rewrite IH. reflexivity. Qed.

Theorem remove_ids_spec : forall l i ids, StronglySorted lt ids -> (forall j, In j ids -> i <= j) ->
  remove_ids A l (map (fun j => j - i) ids) = drop_ids A i l ids.
Proof.
  induction l as [|x r IH]; intros i ids Hs Hge.
  - unfold remove_ids. rewrite fold_del_nil. reflexivity.
  - destruct ids as [|j0 ids'].
    + cbn [map]. unfold remove_ids. cbn [rev fold_left]. rewrite drop_ids_nil. reflexivity.
    + inversion Hs as [|? ? Hs' Hall]; subst. rewrite Forall_forall in Hall.
      assert (Hj0 : i <= j0) by (apply Hge; left; reflexivity).
      destruct (Nat.eq_dec j0 i) as [->|Hne].
      * (* the head is removed *)
        cbn [drop_ids existsb]. rewrite Nat.eqb_refl. cbn [orb].
        rewrite drop_ids_skip_small by lia.
        rewrite <- (IH (S i) ids' Hs') by (intros j Hj; specialize (Hall j Hj); lia).
        unfold remove_ids. cbn [map rev]. rewrite Nat.sub_diag, fold_left_app. cbn [fold_left].
        rewrite fold_del_shift.
        -- cbn [del_nth]. f_equal. rewrite <- map_rev, map_map, <- map_rev. apply map_ext_in. intros j Hj. lia.
        -- intros j Hj. rewrite <- in_rev in Hj. apply in_map_iff in Hj. destruct Hj as [j' [<- Hj']]. specialize (Hall j' Hj'). lia.
      * (* the head is kept *)
        assert (Hex : existsb (Nat.eqb i) (j0 :: ids') = false).
        { apply not_true_is_false. intros E. apply existsb_exists in E. destruct E as [z [Hz Ez]]. apply Nat.eqb_eq in Ez. subst z.
          destruct Hz as [E|Hz]; [lia | specialize (Hall i Hz); lia]. }
        cbn [drop_ids]. rewrite Hex.
        rewrite <- (IH (S i) (j0 :: ids') Hs) by (intros j [<-|Hj]; [lia | specialize (Hall j Hj); lia]).
        unfold remove_ids. rewrite fold_del_shift.
        -- f_equal. rewrite <- map_rev, map_map, <- map_rev. f_equal. apply map_ext_in. intros j Hj. lia.
        -- intros j Hj. rewrite <- in_rev in Hj. apply in_map_iff in Hj. destruct Hj as [j' [<- Hj']].
           destruct Hj' as [<-|Hj']; [lia | specialize (Hall j' Hj'); lia].
Qed.

Corollary remove_ids_spec0 l ids : StronglySorted lt ids -> remove_ids A l ids = drop_ids A 0 l ids.
Proof.
  intros Hs. rewrite <- (remove_ids_spec l 0 ids Hs) by (intros; lia). f_equal.
  rewrite <- (map_id ids) at 1. apply map_ext. intros j. lia.
Qed.

(* ---- span, concatenation: definitional characterisations ---- *)
Theorem span_spec (time : A -> Z) l a b o :
  In o (span A time l a b) <-> In o l /\ (Z.min a b <= time o <= Z.max a b)%Z.
Proof.
  unfold span. rewrite filter_In, andb_true_iff, !Z.leb_le. tauto.
Qed.
Theorem span_sub (time : A -> Z) l a b : exists keep : A -> bool, span A time l a b = filter keep l.
Proof. eexists. reflexivity. Qed.
Theorem span_sym (time : A -> Z) l a b : span A time l a b = span A time l b a.
Proof. unfold span. rewrite (Z.min_comm a b), (Z.max_comm a b). reflexivity. Qed.
Theorem op_add_spec (l1 l2 : list A) : op_add A l1 l2 = l1 ++ l2 /\ length (op_add A l1 l2) = length l1 + length l2.
Proof. split; [reflexivity | apply app_length]. Qed.

(* ---- insertion at an index: same observations, one more ---- *)
Theorem insert_at_perm l k (o : A) : Permutation (o :: l) (insert_at A l k o).
Proof. unfold insert_at. rewrite <- (firstn_skipn k l) at 1. apply Permutation_middle. Qed.
End S.

Lemma nth_firstn_lt_ {A} : forall (l : list A) n i d, (i < n)%nat -> nth i (firstn n l) d = nth i l d.
Proof. induction l as [|x l IH]; intros [|n] [|i] d H; cbn; try reflexivity; try lia. apply IH. lia. Qed.
Lemma nth_skipn_ {A} : forall (l : list A) n i d, nth i (skipn n l) d = nth (n + i) l d.
Proof. induction l as [|x l IH]; intros [|n] i d; cbn; try reflexivity; [destruct i; reflexivity | apply IH]. Qed.

(* ---- chronological insertion keeps a sorted track sorted ---- *)
Open Scope Z_scope.
Theorem insert_sorted (l : list Z) t : sorted l ->
  exists k, insertion_index l t = Some k /\ 0 <= k <= Z.of_nat (length l) /\
            sorted (insert_at Z l (Z.to_nat k) t).
Proof.
  intros Hs. destruct (insertion_index_total l t) as [k Hk]. exists k. split; [exact Hk|].
  destruct (insertion_index_spec l t k Hs Hk) as [Hr [Hlo Hhi]]. split; [exact Hr|].
  set (n := Z.to_nat k). assert (Hn : (n <= length l)%nat) by (unfold n; lia).
  assert (G : forall i, 0 <= i -> tget (insert_at Z l n t) i =
     if i <? k then tget l i else if i =? k then t else tget l (i - 1)).
  { intros i Hi. unfold tget, insert_at.
    destruct (Z.ltb_spec i k) as [L|L].
    - rewrite app_nth1 by (rewrite firstn_length; lia). rewrite nth_firstn_lt_ by (unfold n; lia). reflexivity.
    - rewrite app_nth2 by (rewrite firstn_length; lia). rewrite firstn_length, Nat.min_l by lia.
      destruct (Z.eqb_spec i k) as [->|Ne].
      + replace (Z.to_nat k - n)%nat with 0%nat by (unfold n; lia). reflexivity.
      + replace (Z.to_nat i - n)%nat with (S (Z.to_nat i - n - 1)) by (unfold n; lia). cbn [nth].
        rewrite nth_skipn_. f_equal. unfold n. lia. }
  intros i j Hi Hij Hj.
  assert (Hlen : Z.of_nat (length (insert_at Z l n t)) = Z.of_nat (length l) + 1).
  { unfold insert_at. rewrite app_length, firstn_length, Nat.min_l by lia. cbn [length]. rewrite skipn_length. lia. }
  rewrite Hlen in Hj. rewrite !G by lia.
  destruct (Z.ltb_spec i k), (Z.ltb_spec j k); try lia.
  - apply Hs; lia.
  - destruct (Z.eqb_spec j k); [apply Hlo; lia|]. pose proof (Hlo i ltac:(lia)). pose proof (Hhi (j - 1) ltac:(lia)). lia.
  - destruct (Z.eqb_spec i k), (Z.eqb_spec j k); try lia.
    + apply Hhi; lia.
    + apply Hs; lia.
Qed.
Print Assumptions remove_ids_spec.
Print Assumptions insert_sorted.
