(* C08: the cells returned for a segment (with the clamp to the last column / row) contain the cell of every point of the
   segment, for the executable rational model and every real parameter along the segment *)
From Coq Require Import List ZArith QArith Qround Qreals Reals Lra Lia Bool.
Import ListNotations.
From Flocq Require Import Raux.
From TL Require Import Model.Grid Proofs.GridCells Proofs.GridIndex Proofs.GridQ2R.
Open Scope R_scope.

(* closed cell: same conclusion as cell_complete when the point lies on the upper sides as well *)
Lemma cell_complete_closed ax ay bx by_ i j lam :
  0 <= lam <= 1 ->
  let px := ax + lam * (bx - ax) in let py := ay + lam * (by_ - ay) in
  i <= px <= i + 1 -> j <= py <= j + 1 ->
  GridCells.cell_test ax ay bx by_ i j = true.
Proof.
  intros Hl px py Hx Hy.
  destruct (inside_dec i j ax ay) as [HA|HA].
  - destruct (inside_dec i j bx by_) as [HB|HB].
    + unfold GridCells.cell_test.
      destruct HA as [[A1 A2] [A3 A4]]. destruct HB as [[B1 B2] [B3 B4]].
      apply Rltb_true in A1, A2, A3, A4, B1, B2, B3, B4.
      rewrite A1, A2, A3, A4, B1, B2, B3, B4. reflexivity.
    + rewrite <- cell_test_swap.
      apply (enters bx by_ ax ay i j (1 - lam)); [lra | unfold px in Hx; lra | unfold py in Hy; lra | assumption].
  - apply (enters ax ay bx by_ i j lam Hl); [fold px; lra | fold py; lra | assumption].
Qed.

Lemma in_zrange_Q lo hi k : (lo <= k <= hi)%Z -> In k (Grid.zrange lo hi).
Proof.
  intros H. unfold Grid.zrange. apply in_map_iff. exists (Z.to_nat (k - lo)). split; [lia|]. apply in_seq. lia.
Qed.

(* the clamped index of a coordinate 0 <= p <= n brackets it in the closed cell *)
Lemma clamp_brackets (p : R) (n : Z) : (0 < n)%Z -> 0 <= p <= IZR n ->
  let k := Z.min (Zfloor p) (n - 1) in (0 <= k <= n - 1)%Z /\ IZR k <= p <= IZR k + 1.
Proof.
  intros Hn Hp k. pose proof (Zfloor_lb p) as L. pose proof (Zfloor_ub p) as U.
  assert (F0 : (0 <= Zfloor p)%Z) by (apply Zfloor_lub; simpl; lra).
  assert (Fn : (Zfloor p <= n)%Z) by (apply le_IZR; lra).
  unfold k. destruct (Z_le_gt_dec (Zfloor p) (n - 1)) as [C|C].
  - rewrite Z.min_l by lia. split; [lia|]. lra.
  - rewrite Z.min_r by lia. assert (E : Zfloor p = n) by lia. split; [lia|].
    rewrite E in L. rewrite minus_IZR. simpl. lra.
Qed.

Theorem cells_complete_Q (cs ls : Z) (ax ay bx by_ : Q) (lam : R) :
  (0 < cs)%Z -> (0 < ls)%Z -> 0 <= lam <= 1 ->
  0 <= Q2R ax <= IZR cs -> 0 <= Q2R bx <= IZR cs -> 0 <= Q2R ay <= IZR ls -> 0 <= Q2R by_ <= IZR ls ->
  let px := Q2R ax + lam * (Q2R bx - Q2R ax) in let py := Q2R ay + lam * (Q2R by_ - Q2R ay) in
  In (Z.min (Zfloor px) (cs - 1), Z.min (Zfloor py) (ls - 1)) (Grid.cells cs ls ax ay bx by_).
Proof.
  intros Hcs Hls Hl Hax Hbx Hay Hby px py.
  assert (Hpx : 0 <= px <= IZR cs) by (unfold px; nra).
  assert (Hpy : 0 <= py <= IZR ls) by (unfold py; nra).
  destruct (clamp_brackets px cs Hcs Hpx) as [Ri Bi]. destruct (clamp_brackets py ls Hls Hpy) as [Rj Bj].
  set (I := Z.min (Zfloor px) (cs - 1)) in *. set (J := Z.min (Zfloor py) (ls - 1)) in *.
  pose proof (floor_between (Q2R ax) (Q2R bx) lam Hl) as Fx. fold px in Fx. rewrite !Zfloor_Q2R in Fx.
  pose proof (floor_between (Q2R ay) (Q2R by_) lam Hl) as Fy. fold py in Fy. rewrite !Zfloor_Q2R in Fy.
  unfold Grid.cells. apply in_flat_map. exists I. split.
  - apply in_zrange_Q. unfold I. lia.
  - apply in_flat_map. exists J. split.
    + apply in_zrange_Q. unfold J. lia.
    + rewrite cell_test_Q2R.
      rewrite (cell_complete_closed (Q2R ax) (Q2R ay) (Q2R bx) (Q2R by_) (IZR I) (IZR J) lam Hl); [left; reflexivity | exact Bi | exact Bj].
Qed.

(* every returned cell is inside the grid when both ends are: no IndexError, no wrap-around *)
Lemma cells_in_grid (cs ls : Z) (ax ay bx by_ : Q) c :
  (0 < cs)%Z -> (0 < ls)%Z -> (0 <= Qfloor ax)%Z -> (0 <= Qfloor bx)%Z -> (0 <= Qfloor ay)%Z -> (0 <= Qfloor by_)%Z ->
  In c (Grid.cells cs ls ax ay bx by_) -> (0 <= fst c < cs)%Z /\ (0 <= snd c < ls)%Z.
Proof.
  intros Hcs Hls A B C D Hin. unfold Grid.cells in Hin. apply in_flat_map in Hin. destruct Hin as [i [Hi Hin]].
  apply in_flat_map in Hin. destruct Hin as [j [Hj Hin]].
  destruct (Grid.cell_test ax ay bx by_ i j); [|destruct Hin]. destruct Hin as [<-|[]]. cbn [fst snd].
  unfold Grid.zrange in Hi, Hj. apply in_map_iff in Hi, Hj. destruct Hi as [ki [<- Hki]]. destruct Hj as [kj [<- Hkj]].
  apply in_seq in Hki, Hkj. lia.
Qed.
Print Assumptions cells_complete_Q.
