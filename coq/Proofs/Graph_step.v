From Coq Require Import List Arith ZArith QArith Bool Lia Lqa.
Import ListNotations.
From TL Require Import Model.Graph Proofs.Graph_inv.
Open Scope Q_scope.

Record InvR (g : graph) (src u : nat) (du : Q) (pr : list edge) (s : st) : Prop := {
  r_u : visite s u = true /\ poids s u = Some du;
  r_src : exists d0, poids s src = Some d0 /\ d0 <= 0;
  r_S : forall v d, poids s v = Some d -> exists p, walk g src v p /\ cost p == d;
  r_Q1 : forall v, In v (fil s) -> visite s v = false /\ poids s v <> None;
  r_Q2 : forall v, poids s v <> None -> visite s v = false -> In v (fil s);
  r_V : forall a, visite s a = true -> poids s a <> None;
  r_C : forall a e da, visite s a = true -> a <> u -> poids s a = Some da -> In e (next_edges g a) ->
        exists dv, poids s (fils e a) = Some dv /\ dv <= da + ew e;
  r_Cu : forall e, In e pr -> exists dv, poids s (fils e u) = Some dv /\ dv <= du + ew e;
  r_M : forall a v da dv, visite s a = true -> visite s v = false ->
        poids s a = Some da -> poids s v = Some dv -> da <= dv;
  r_Mu : forall a da, visite s a = true -> poids s a = Some da -> da <= du
}.

Lemma existsb_eqb_in v l : existsb (Nat.eqb v) l = true <-> In v l.
Proof.
  rewrite existsb_exists. split.
  - intros [x [Hx E]]. apply Nat.eqb_eq in E. subst. assumption.
  - intros H. exists v. split; [assumption | apply Nat.eqb_refl].
Qed.

Lemma relax_inv g src u du pr s e :
  nonneg g -> In e (next_edges g u) -> InvR g src u du pr s ->
  InvR g src u du (e :: pr) (relax u du s e).
Proof.
  intros Hnn He HI. pose proof (Hnn e (next_edges_in g u e He)) as Hw.
  destruct HI as [[Hu1 Hu2] Hsrc HS HQ1 HQ2 HV HC HCu HM HMu].
  unfold relax. set (v := fils e u).
  destruct (visite s v) eqn:Evis.
  - (* child already settled *)
    constructor; try assumption; [split; assumption|].
    intros e' [<-|He']; [|apply HCu; assumption].
    fold v. destruct (poids s v) as [dv|] eqn:Edv; [|exfalso; apply (HV v Evis Edv)].
    exists dv. split; [reflexivity|]. pose proof (HMu v dv Evis Edv). lra.
  - destruct (match poids s v with None => true | Some dv => if Qlt_le_dec (du + ew e) dv then true else false end) eqn:Eb.
    + (* improvement *)
      assert (Hvu : v <> u) by (intros E; rewrite E in Evis; congruence).
      assert (Hold : forall dv, poids s v = Some dv -> du + ew e < dv).
      { intros dv Edv. rewrite Edv in Eb. destruct (Qlt_le_dec (du + ew e) dv); [assumption | discriminate]. }
      constructor; simpl.
      * split; [assumption | rewrite upd_other by congruence; assumption].
      * destruct Hsrc as [d0 [H0 H0']]. unfold upd. destruct (Nat.eqb_spec src v) as [E|E].
        -- exists (du + ew e). split; [reflexivity|]. rewrite E in H0. pose proof (Hold d0 H0). lra.
        -- exists d0. split; assumption.
      * intros x d. unfold upd. destruct (Nat.eqb_spec x v) as [->|E].
        -- intros [= <-]. destruct (HS u du Hu2) as [p [Hp Hc]].
           exists (p ++ [e]). split; [apply walk_snoc; assumption|].
           rewrite cost_app. simpl. lra.
        -- apply HS.
      * intros x Hx.
        assert (Hx' : In x (fil s) \/ x = v).
        { destruct (existsb (Nat.eqb v) (fil s)); [left; assumption|].
          apply in_app_or in Hx. destruct Hx as [Hx|[<-|[]]]; [left; assumption | right; reflexivity]. }
        unfold upd. destruct (Nat.eqb_spec x v) as [->|E].
        -- split; [assumption | discriminate].
        -- destruct Hx' as [Hx'|Hx']; [apply HQ1; assumption | contradiction].
      * intros x Hp Hvx.
        assert (Hin : forall y, In y (fil s) -> In y (if existsb (Nat.eqb v) (fil s) then fil s else fil s ++ [v])).
        { intros y Hy. destruct (existsb (Nat.eqb v) (fil s)); [assumption | apply in_or_app; left; assumption]. }
        destruct (Nat.eq_dec x v) as [->|E].
        -- destruct (existsb (Nat.eqb v) (fil s)) eqn:Eex.
           ++ apply existsb_eqb_in; assumption.
           ++ apply in_or_app; right; left; reflexivity.
        -- apply Hin. apply HQ2; [|assumption]. rewrite upd_other in Hp by assumption. assumption.
      * intros a Ha. unfold upd. destruct (Nat.eqb_spec a v); [discriminate | apply HV; assumption].
      * intros a e' da Ha Hau Hda He'.
        assert (Hav : a <> v) by (intros E; rewrite E in Ha; congruence).
        rewrite upd_other in Hda by assumption.
        destruct (HC a e' da Ha Hau Hda He') as [dv [Hdv Hle]].
        unfold upd. destruct (Nat.eqb_spec (fils e' a) v) as [E|E].
        -- exists (du + ew e). split; [reflexivity|]. rewrite E in Hdv. pose proof (Hold dv Hdv). lra.
        -- exists dv. split; assumption.
      * intros e' [<-|He'].
        -- fold v. exists (du + ew e). rewrite upd_same. split; [reflexivity | lra].
        -- destruct (HCu e' He') as [dv [Hdv Hle]].
           unfold upd. destruct (Nat.eqb_spec (fils e' u) v) as [E|E].
           ++ exists (du + ew e). split; [reflexivity|]. rewrite E in Hdv. pose proof (Hold dv Hdv). lra.
           ++ exists dv. split; assumption.
      * intros a x da dx Ha Hx Hda Hdx.
        assert (Hav : a <> v) by (intros E; rewrite E in Ha; congruence).
        rewrite upd_other in Hda by assumption.
        unfold upd in Hdx. destruct (Nat.eqb_spec x v) as [->|E].
        -- injection Hdx as <-. pose proof (HMu a da Ha Hda). lra.
        -- apply (HM a x da dx Ha Hx Hda Hdx).
      * intros a da Ha Hda.
        assert (Hav : a <> v) by (intros E; rewrite E in Ha; congruence).
        rewrite upd_other in Hda by assumption. apply (HMu a da Ha Hda).
    + (* no improvement *)
      constructor; try assumption; [split; assumption|].
      intros e' [<-|He']; [|apply HCu; assumption].
      fold v. destruct (poids s v) as [dv|] eqn:Edv; [|discriminate].
      exists dv. split; [reflexivity|].
      destruct (Qlt_le_dec (du + ew e) dv); [discriminate | assumption].
Qed.

Lemma relax_fold g src u du : nonneg g ->
  forall l pr s, (forall e, In e l -> In e (next_edges g u)) -> InvR g src u du pr s ->
  InvR g src u du (rev l ++ pr) (fold_left (relax u du) l s).
Proof.
  intros Hnn. induction l as [|e l IH]; intros pr s Hl HI; simpl; [assumption|].
  rewrite <- app_assoc. simpl. apply IH.
  - intros e' He'. apply Hl. right; assumption.
  - apply relax_inv; [assumption | apply Hl; left; reflexivity | assumption].
Qed.

(* marking the popped node as settled establishes the loop invariant *)
Lemma settle_start g src s u du :
  Inv g src s -> In u (fil s) -> poids s u = Some du ->
  (forall v dv, In v (fil s) -> poids s v = Some dv -> du <= dv) ->
  InvR g src u du []
    {| poids := poids s; visite := upd (visite s) u true; ante := ante s;
       fil := remove_nat u (fil s); out := out s ++ [(u, du)] |}.
Proof.
  intros HI Hin Hdu Hmin. destruct HI as [Hsrc HS HQ1 HQ2 HV HC HM].
  destruct (HQ1 u Hin) as [Hvu _].
  constructor; simpl.
  - split; [apply upd_same | assumption].
  - assumption.
  - assumption.
  - intros v Hv. apply in_remove_nat in Hv. destruct Hv as [Hv Hne].
    rewrite upd_other by assumption. apply HQ1; assumption.
  - intros v Hp Hvis. unfold upd in Hvis. destruct (Nat.eqb_spec v u) as [->|E]; [discriminate|].
    apply in_remove_nat. split; [apply HQ2; assumption | assumption].
  - intros a Ha. unfold upd in Ha. destruct (Nat.eqb_spec a u) as [Eau|E]; [rewrite Eau; congruence | apply HV; assumption].
  - intros a e da Ha Hau Hda He. rewrite upd_other in Ha by assumption.
    apply (HC a e da Ha Hda He).
  - intros e [].
  - intros a v da dv Ha Hv Hda Hdv.
    unfold upd in Hv. destruct (Nat.eqb_spec v u) as [->|Evu]; [discriminate|].
    unfold upd in Ha. destruct (Nat.eqb_spec a u) as [->|Eau].
    + rewrite Hdu in Hda. injection Hda as <-.
      apply (Hmin v dv); [|assumption]. apply HQ2; [congruence | assumption].
    + apply (HM a v da dv Ha Hv Hda Hdv).
  - intros a da Ha Hda. unfold upd in Ha. destruct (Nat.eqb_spec a u) as [->|Eau].
    + rewrite Hdu in Hda. injection Hda as <-. lra.
    + apply (HM a u da du Ha Hvu Hda Hdu).
Qed.

Lemma settle_inv g src s u du :
  nonneg g -> Inv g src s -> In u (fil s) -> poids s u = Some du ->
  (forall v dv, In v (fil s) -> poids s v = Some dv -> du <= dv) ->
  Inv g src (settle g u du s).
Proof.
  intros Hnn HI Hin Hdu Hmin. unfold settle.
  pose proof (settle_start g src s u du HI Hin Hdu Hmin) as H0.
  pose proof (relax_fold g src u du Hnn (next_edges g u) [] _ (fun e He => He) H0) as HR.
  rewrite app_nil_r in HR.
  destruct HR as [[Hu1 Hu2] Hsrc HS HQ1 HQ2 HV HC HCu HM HMu].
  constructor; try assumption.
  intros a e da Ha Hda He. destruct (Nat.eq_dec a u) as [->|E].
  - rewrite Hu2 in Hda. injection Hda as <-. apply HCu. apply in_rev in He. assumption.
  - apply (HC a e da Ha E Hda He).
Qed.
