From Coq Require Import List ZArith Bool Lia Sorted.
Import ListNotations.
From TL Require Import Model.SeqInsert Proofs.SeqInsert_range.
Open Scope Z_scope.

(* sortedness expressed on indices *)
Definition sorted (l : list Z) : Prop := forall i j, 0 <= i -> i <= j -> j < Z.of_nat (length l) -> tget l i <= tget l j.

Lemma go_left_spec l t : forall fuel id, 0 <= id -> id < Z.of_nat (length l) -> (Z.to_nat id < fuel)%nat ->
  let r := go_left fuel l t id in
  0 <= r <= id /\ (tget l r <= t \/ r = 0) /\ (forall i, r < i <= id -> t < tget l i).
Proof.
  induction fuel as [|f IH]; intros id H0 H1 Hf; [lia|]. cbn [go_left].
  destruct (Z.ltb_spec t (tget l id)) as [Hlt|Hge].
  - destruct (Z.eqb_spec id 0) as [->|Hne].
    + split; [lia|]. split; [right; reflexivity | intros i Hi; lia].
    + specialize (IH (id - 1) ltac:(lia) ltac:(lia) ltac:(lia)). cbv zeta in IH. destruct IH as [Ha [Hb Hc]].
      split; [lia|]. split; [assumption|]. intros i Hi. destruct (Z.eq_dec i id) as [->|Hn]; [assumption | apply Hc; lia].
  - split; [lia|]. split; [left; assumption | intros i Hi; lia].
Qed.

Lemma go_right_spec l t : forall fuel id, 0 <= id -> id < Z.of_nat (length l) -> (Z.to_nat (Z.of_nat (length l) - id) <= fuel)%nat ->
  let r := go_right fuel l (Z.of_nat (length l)) t id in
  id <= r <= Z.of_nat (length l) /\ (forall i, id <= i < r -> tget l i <= t) /\ (r < Z.of_nat (length l) -> t < tget l r).
Proof.
  induction fuel as [|f IH]; intros id H0 H1 Hf; [lia|]. cbn [go_right].
  destruct (Z.leb_spec (tget l id) t) as [Hle|Hgt].
  - destruct (Z.eqb_spec (id + 1) (Z.of_nat (length l))) as [E|Hne].
    + split; [lia|]. split; [intros i Hi; replace i with id by lia; assumption | lia].
    + specialize (IH (id + 1) ltac:(lia) ltac:(lia) ltac:(lia)). cbv zeta in IH. destruct IH as [Ha [Hb Hc]].
      split; [lia|]. split; [|assumption]. intros i Hi. destruct (Z.eq_dec i id) as [->|Hn]; [assumption | apply Hb; lia].
  - split; [lia|]. split; [intros i Hi; lia | intros _; assumption].
Qed.

(* C04: on a time-sorted track the insertion index separates the timestamps <= t from those >= t
   (for a one-element track an equal timestamp is inserted before it, otherwise after the run of equal ones) *)
Theorem insertion_index_spec l t k : sorted l -> insertion_index l t = Some k ->
  0 <= k <= Z.of_nat (length l) /\ (forall i, 0 <= i < k -> tget l i <= t) /\ (forall i, k <= i < Z.of_nat (length l) -> t <= tget l i).
Proof.
  intros Hs. unfold insertion_index. remember (Z.of_nat (length l)) as N eqn:EN.
  destruct (Z.eqb_spec N 0) as [E0|E0].
  - intros [= <-]. split; [lia|]. split; intros i Hi; lia.
  - destruct (Z.eqb_spec N 1) as [E1|E1].
    + intros [= <-]. destruct (Z.ltb_spec (tget l 0) t) as [H|H]; cbv iota.
      * split; [lia|]. split; [intros i Hi; assert (i = 0) by lia; subst i; lia | intros i Hi; lia].
      * split; [lia|]. split; [intros i Hi; lia | intros i Hi; assert (i = 0) by lia; subst i; lia].
    + destruct (dicho (length l + Z.to_nat (Z.log2 N) + 3) l N t 0 (2 ^ (Z.log2 N - 1))) as [id|] eqn:Ed; [|discriminate].
      intros [= <-].
      assert (HN : 2 <= N) by (lia).
      assert (Hid : 0 <= id <= N - 1).
      { apply (dicho_range l N t (length l + Z.to_nat (Z.log2 N) + 3)%nat 0 (2 ^ (Z.log2 N - 1)) id); [|exact Ed].
        right; left. exists (Z.to_nat (Z.log2 N - 1)). pose proof (Z.log2_pos N ltac:(lia)).
        rewrite Z2Nat.id by lia. split; [reflexivity|]. split; [lia|].
        replace (2 * 2 ^ (Z.log2 N - 1)) with (2 ^ (Z.log2 N)) by (rewrite <- Z.pow_succ_r by lia; f_equal; lia).
        pose proof (Z.log2_spec N ltac:(lia)). lia. }
      pose proof (go_left_spec l t (length l) id ltac:(lia) ltac:(lia) ltac:(lia)) as HL. cbv zeta in HL.
      set (r := go_left (length l) l t id) in *. destruct HL as [Hr [Hcase Hgt]].
      pose proof (go_right_spec l t (length l) r ltac:(lia) ltac:(lia) ltac:(lia)) as HR. cbv zeta in HR. rewrite <- EN in HR.
      set (k := go_right (length l) l N t r) in *. destruct HR as [Hk [Hle Hnext]].
      split; [lia|]. split.
      * intros i Hi. destruct (Z_lt_le_dec i r) as [Hir|Hir]; [|apply Hle; lia].
        destruct Hcase as [Hc|Hc]; [|lia]. pose proof (Hs i r ltac:(lia) ltac:(lia) ltac:(lia)). lia.
      * intros i Hi. destruct (Z.eq_dec k N) as [E|E]; [lia|]. specialize (Hnext ltac:(lia)).
        pose proof (Hs k i ltac:(lia) ltac:(lia) ltac:(lia)). lia.
Qed.
Print Assumptions insertion_index_spec.
