(* Spike: C03 — addSec moves the instant by the given amount; the other comparison operators *)
From Coq Require Import List ZArith Bool Lia.
From TL Require Import Model.ObsTime Proofs.ObsTime_rt Proofs.ObsTime_ord.
Open Scope Z_scope.

(* addSec / addMin / addHour / addDay all go through toAbsTime + readUnixTime (whole seconds) *)
Definition add_sec (d : date) (n : Z) : date := read_unix (to_abs d + n).

Theorem add_sec_ok d n : 0 <= to_abs d + n ->
  wf (add_sec d n) = true /\ to_abs (add_sec d n) = to_abs d + n /\ 1970 <= year (add_sec d n).
Proof. intros H. unfold add_sec. apply read_unix_wf_abs. assumption. Qed.

(* __gt__ is the mirror image of __lt__; __ge__ = not <, __le__ = not > *)
Definition gt (a b : date) : bool := lt b a.
Theorem gt_iff a b : wf a = true -> wf b = true -> 1970 <= year a -> 1970 <= year b ->
  (gt a b = true <-> to_abs_ms b < to_abs_ms a).
Proof. intros. unfold gt. apply lt_iff; assumption. Qed.
Theorem ge_iff a b : wf a = true -> wf b = true -> 1970 <= year a -> 1970 <= year b ->
  (negb (lt a b) = true <-> to_abs_ms b <= to_abs_ms a).
Proof.
  intros Wa Wb Ya Yb. pose proof (lt_iff a b Wa Wb Ya Yb) as [H1 H2]. destruct (lt a b) eqn:E; cbn [negb]; split; intros K.
  - discriminate.
  - specialize (H1 eq_refl). lia.
  - destruct (Z_lt_le_dec (to_abs_ms a) (to_abs_ms b)) as [L|L]; [specialize (H2 L); discriminate | exact L].
  - reflexivity.
Qed.
Print Assumptions ge_iff.
