(* Spike: C13 column logic — TrackWriter's order list O and __printInOrder put each special column at the
   position the reader looks it up (fields[id]), for every assignment of the ids to 0..k-1 *)
From Coq Require Import List Arith Bool Lia.
Import ListNotations.

(* stable insertion sort on the first component: O.sort(key=takeFirst) *)
Fixpoint insert (p : nat * nat) (l : list (nat * nat)) : list (nat * nat) :=
  match l with [] => [p] | q :: r => if (fst p <? fst q)%nat then p :: l else q :: insert p r end.
Definition sort (l : list (nat * nat)) : list (nat * nat) := fold_left (fun acc p => insert p acc) l [].

(* writeToFile: O = [(id_E,0),(id_N,1)] (+ (id_U,2)) (+ (id_T, 3 or 2)), sorted *)
Definition mkO (idE idN : nat) (idU idT : option nat) : list (nat * nat) :=
  sort ([(idE, 0); (idN, 1)] ++ (match idU with Some u => [(u, 2)] | None => [] end)
        ++ (match idT with Some t => [(t, match idU with Some _ => 3 | None => 2 end)] | None => [] end)).

(* __printInOrder: which element of D = [E, N, (U), (T)] is printed at each position *)
Definition positions (O : list (nat * nat)) (hasU hasT : bool) : list nat :=
  let o k := snd (nth k O (0, 0)) in
  [o 0; o 1] ++ (if hasU then o 2 :: (if hasT then [o 3] else []) else if hasT then [o 2] else []).

Definition isSome {A} (o : option A) : bool := match o with Some _ => true | None => false end.
Definition printed (idE idN : nat) (idU idT : option nat) : list nat :=
  positions (mkO idE idN idU idT) (isSome idU) (isSome idT).

(* the reader takes fields[id]; the datum printed there must be the right one *)
Definition ok (idE idN : nat) (idU idT : option nat) : bool :=
  let out := printed idE idN idU idT in
  (nth idE out 9 =? 0) && (nth idN out 9 =? 1)
  && (match idU with Some u => nth u out 9 =? 2 | None => true end)
  && (match idT with Some t => nth t out 9 =? (match idU with Some _ => 3 | None => 2 end) | None => true end).

Definition distinct (l : list nat) : bool :=
  (fix go l := match l with [] => true | x :: r => negb (existsb (Nat.eqb x) r) && go r end) l.

Definition range4 := [0; 1; 2; 3].
Definition opts (k : nat) : list (option nat) := None :: map Some (seq 0 k).

(* every assignment of the ids to a permutation of 0..k-1, k = number of special columns *)
Definition all_ok : bool :=
  forallb (fun e => forallb (fun n => forallb (fun u => forallb (fun t =>
    let ids := [e; n] ++ (match u with Some x => [x] | None => [] end) ++ (match t with Some x => [x] | None => [] end) in
    let k := length ids in
    if distinct ids && forallb (fun x => x <? k) ids then ok e n u t else true)
    (opts 4)) (opts 4)) range4) range4.

Lemma all_ok_true : all_ok = true.
Proof. vm_compute. reflexivity. Qed.

Lemma in_range4 x : x < 4 -> In x range4.
Proof. intros H. unfold range4. do 4 (destruct x as [|x]; [cbn; auto|]). lia. Qed.
Lemma in_opts o : (match o with Some x => x < 4 | None => True end) -> In o (opts 4).
Proof. destruct o as [x|]; [|left; reflexivity]. intros H. right. apply in_map. apply in_seq. lia. Qed.

Theorem columns_roundtrip idE idN idU idT :
  let ids := [idE; idN] ++ (match idU with Some x => [x] | None => [] end) ++ (match idT with Some x => [x] | None => [] end) in
  distinct ids = true -> forallb (fun x => x <? length ids) ids = true ->
  ok idE idN idU idT = true.
Proof.
  intros ids Hd Hb. pose proof all_ok_true as H. unfold all_ok in H.
  assert (Hlt : forall x, In x ids -> x < 4).
  { intros x Hx. rewrite forallb_forall in Hb. specialize (Hb x Hx). apply Nat.ltb_lt in Hb.
    assert (length ids <= 4) by (unfold ids; destruct idU, idT; cbn; lia). lia. }
  rewrite forallb_forall in H. specialize (H idE (in_range4 _ (Hlt idE ltac:(left; reflexivity)))).
  rewrite forallb_forall in H. specialize (H idN (in_range4 _ (Hlt idN ltac:(right; left; reflexivity)))).
  rewrite forallb_forall in H. specialize (H idU).
  assert (HU : In idU (opts 4)).
  { apply in_opts. destruct idU as [u|]; [|exact I]. apply Hlt. unfold ids. cbn. auto. }
  specialize (H HU). rewrite forallb_forall in H. specialize (H idT).
  assert (HT : In idT (opts 4)).
  { apply in_opts. destruct idT as [t|]; [|exact I]. apply Hlt. unfold ids. destruct idU; cbn; auto. }
  specialize (H HT). cbv zeta in H. fold ids in H. rewrite Hd, Hb in H. exact H.
Qed.
Print Assumptions columns_roundtrip.

(* the same enumeration for any decidable statement about the column ids *)
Definition all_sat (P : nat -> nat -> option nat -> option nat -> bool) : bool :=
  forallb (fun e => forallb (fun n => forallb (fun u => forallb (fun t =>
    let ids := [e; n] ++ (match u with Some x => [x] | None => [] end) ++ (match t with Some x => [x] | None => [] end) in
    let k := length ids in
    if distinct ids && forallb (fun x => x <? k) ids then P e n u t else true)
    (opts 4)) (opts 4)) range4) range4.

Theorem columns_sat P : all_sat P = true -> forall idE idN idU idT,
  let ids := [idE; idN] ++ (match idU with Some x => [x] | None => [] end) ++ (match idT with Some x => [x] | None => [] end) in
  distinct ids = true -> forallb (fun x => x <? length ids) ids = true ->
  P idE idN idU idT = true.
Proof.
  intros H idE idN idU idT ids Hd Hb. unfold all_sat in H.
  assert (Hlt : forall x, In x ids -> x < 4).
  { intros x Hx. rewrite forallb_forall in Hb. specialize (Hb x Hx). apply Nat.ltb_lt in Hb.
    assert (length ids <= 4) by (unfold ids; destruct idU, idT; cbn; lia). lia. }
  rewrite forallb_forall in H. specialize (H idE (in_range4 _ (Hlt idE ltac:(left; reflexivity)))).
  rewrite forallb_forall in H. specialize (H idN (in_range4 _ (Hlt idN ltac:(right; left; reflexivity)))).
  rewrite forallb_forall in H. specialize (H idU).
  assert (HU : In idU (opts 4)).
  { apply in_opts. destruct idU as [u|]; [|exact I]. apply Hlt. unfold ids. cbn. auto. }
  specialize (H HU). rewrite forallb_forall in H. specialize (H idT).
  assert (HT : In idT (opts 4)).
  { apply in_opts. destruct idT as [t|]; [|exact I]. apply Hlt. unfold ids. destruct idU; cbn; auto. }
  specialize (H HT). cbv zeta in H. fold ids in H. rewrite Hd, Hb in H. exact H.
Qed.
