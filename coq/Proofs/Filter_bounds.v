From Coq Require Import List Arith QArith Bool Lia Lqa Psatz.
Import ListNotations.
From TL Require Import Model.Filter.
Open Scope Q_scope.

(* every sample the window of index i can touch lies in [lo, hi] *)
Definition bounded (x : list val) (lo hi : Q) (D i n : nat) : Prop :=
  forall p v, (p <= i + D)%nat -> (i + D < p + n)%nat -> nth p x None = Some v -> lo <= v <= hi.

Lemma window_inv x D i lo hi : forall k j acc,
  (forall kj, In kj k -> 0 <= kj) ->
  (forall p v, nth p x None = Some v -> (p + j + length k > i + D)%nat -> (p + j <= i + D)%nat -> lo <= v <= hi) ->
  0 <= snd acc -> lo * snd acc <= fst acc <= hi * snd acc ->
  let r := window x k D i j acc in
  snd acc <= snd r /\ lo * snd r <= fst r <= hi * snd r.
Proof.
  induction k as [|kj k IH]; intros j acc Hpos Hb Hn Hacc; cbn [window].
  - simpl. split; [lra | assumption].
  - assert (Hkj : 0 <= kj) by (apply Hpos; left; reflexivity).
    assert (Hstep : forall acc', 0 <= snd acc' -> snd acc <= snd acc' -> lo * snd acc' <= fst acc' <= hi * snd acc' ->
                     let r := window x k D i (S j) acc' in snd acc <= snd r /\ lo * snd r <= fst r <= hi * snd r).
    { intros acc' H0 H1 H2.
      assert (Hb' : forall p v, nth p x None = Some v -> (p + S j + length k > i + D)%nat -> (p + S j <= i + D)%nat -> lo <= v <= hi).
      { intros p v Hp H3 H4. apply (Hb p v Hp); simpl; lia. }
      pose proof (IH (S j) acc' (fun q Hq => Hpos q (or_intror Hq)) Hb' H0 H2) as IH'. cbv zeta in IH'.
      destruct IH' as [Ha Hc]. split; [lra | assumption]. }
    destruct (i + D <? j)%nat eqn:E1; [apply Hstep; [assumption | lra | assumption]|].
    match goal with |- context [(?a <=? ?b)%nat] => destruct (a <=? b)%nat eqn:E2 end; [apply Hstep; [assumption | lra | assumption]|].
    match goal with |- context [match ?t with Some _ => _ | None => _ end] => destruct t as [v|] eqn:E3 end; [|apply Hstep; [assumption | lra | assumption]].
    apply Nat.ltb_ge in E1.
    assert (Hv : lo <= v <= hi) by (apply (Hb (i + D - j)%nat v E3); simpl; lia).
    apply Hstep; simpl; [lra | lra | nra].
Qed.

(* C15: the output at an index whose window has positive total weight lies between the smallest and the
   largest valid sample of that window; in particular a constant signal is unchanged *)
Theorem filter_bounds x k i lo hi q :
  (forall kj, In kj k -> 0 <= kj) ->
  (forall p v, nth p x None = Some v -> (p + length k > i + length k / 2)%nat -> (p <= i + length k / 2)%nat -> lo <= v <= hi) ->
  filter_at x k i = Val q -> lo <= q <= hi.
Proof.
  intros Hpos Hb. unfold filter_at.
  pose proof (window_inv x (length k / 2) i lo hi k 0 (0, 0) Hpos) as H. cbv zeta in H.
  destruct (window x k (length k / 2) i 0 (0, 0)) as [t norm] eqn:Ew. cbn [fst snd] in H.
  destruct H as [Hn Hr]; [intros p v Hp H1 H2; apply (Hb p v Hp); lia | lra | lra |].
  destruct (Qeq_bool norm 0) eqn:E; [discriminate|]. intros [= <-].
  apply Qeq_bool_neq in E. assert (Hnp : 0 < norm) by (destruct (Qlt_le_dec 0 norm); [assumption | exfalso; apply E; lra]).
  split.
  - apply Qle_shift_div_l; [assumption | lra].
  - apply Qle_shift_div_r; [assumption | lra].
Qed.
Print Assumptions filter_bounds.

(* a constant signal (NaN gaps allowed) is unchanged *)
Corollary filter_const x k i c q :
  (forall kj, In kj k -> 0 <= kj) -> (forall p v, nth p x None = Some v -> v == c) ->
  filter_at x k i = Val q -> q == c.
Proof.
  intros Hpos Hc H. assert (B : c <= q <= c).
  { apply (filter_bounds x k i c c q Hpos); [|assumption]. intros p v Hv _ _. rewrite (Hc p v Hv). lra. }
  lra.
Qed.
