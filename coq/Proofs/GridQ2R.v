(* C08: the executable rational model (Model/Grid.v) computes, on rational inputs, exactly what the real-number
   definitions of Proofs/GridCells.v compute on their images - so the completeness lemmas proved over R apply to it *)
From Coq Require Import List ZArith QArith Qround Qreals Reals Lra Lia Bool.
Import ListNotations.
From Flocq Require Import Raux.
From TL Require Import Model.Grid Proofs.GridCells.

Lemma Q2R_0 : Q2R 0%Q = 0%R.
Proof. unfold Q2R. cbn. ring. Qed.
Lemma Q2R_1 : Q2R 1%Q = 1%R.
Proof. unfold Q2R. cbn. field. Qed.

Lemma Q2R_inject_Z z : Q2R (inject_Z z) = IZR z.
Proof. unfold Q2R, inject_Z. cbn. rewrite Rinv_1. ring. Qed.

Lemma Qleb_Q2R x y : Grid.Qleb x y = GridCells.Rleb (Q2R x) (Q2R y).
Proof.
  unfold Grid.Qleb, GridCells.Rleb. destruct (Qle_bool x y) eqn:E.
  - apply Qle_bool_iff in E. apply Qle_Rle in E. destruct (Rle_dec (Q2R x) (Q2R y)); [reflexivity | contradiction].
  - destruct (Rle_dec (Q2R x) (Q2R y)) as [H|H]; [|reflexivity]. apply Rle_Qle in H. apply Qle_bool_iff in H. congruence.
Qed.

Lemma Qltb_Q2R x y : Grid.Qltb x y = GridCells.Rltb (Q2R x) (Q2R y).
Proof.
  unfold Grid.Qltb, GridCells.Rltb. destruct (Qle_bool y x) eqn:E; cbn [negb].
  - apply Qle_bool_iff in E. apply Qle_Rle in E. destruct (Rlt_dec (Q2R x) (Q2R y)); [lra | reflexivity].
  - destruct (Rlt_dec (Q2R x) (Q2R y)) as [H|H]; [reflexivity|]. exfalso.
    assert (L : (Q2R y <= Q2R x)%R) by lra. apply Rle_Qle in L. apply Qle_bool_iff in L. congruence.
Qed.

Lemma ev_Q2R x1 y1 x2 y2 x y :
  Q2R (Grid.ev x1 y1 x2 y2 x y) = GridCells.ev (Q2R x1) (Q2R y1) (Q2R x2) (Q2R y2) (Q2R x) (Q2R y).
Proof. unfold Grid.ev, GridCells.ev. repeat (rewrite ?Q2R_plus, ?Q2R_mult, ?Q2R_minus, ?Q2R_opp). ring. Qed.

Lemma intersects_Q2R a b c d e f g h :
  Grid.intersects a b c d e f g h = GridCells.intersects (Q2R a) (Q2R b) (Q2R c) (Q2R d) (Q2R e) (Q2R f) (Q2R g) (Q2R h).
Proof.
  unfold Grid.intersects, GridCells.intersects. rewrite !Qleb_Q2R, !Q2R_mult, !ev_Q2R.
  replace (Q2R 0) with 0%R by (unfold Q2R; cbn; lra). reflexivity.
Qed.

Lemma cell_test_Q2R ax ay bx by_ i j :
  Grid.cell_test ax ay bx by_ i j = GridCells.cell_test (Q2R ax) (Q2R ay) (Q2R bx) (Q2R by_) (IZR i) (IZR j).
Proof.
  unfold Grid.cell_test, GridCells.cell_test. rewrite !Qltb_Q2R, !intersects_Q2R, !Q2R_plus, !Q2R_inject_Z.
  replace (Q2R 1) with 1%R by (unfold Q2R; cbn; lra). reflexivity.
Qed.

Lemma Zfloor_Q2R x : Zfloor (Q2R x) = Qfloor x.
Proof.
  apply Zfloor_imp. pose proof (Qfloor_le x) as L. pose proof (Qlt_floor x) as U.
  apply Qle_Rle in L. apply Qlt_Rlt in U. rewrite Q2R_inject_Z in L, U. split; assumption.
Qed.
