From Coq Require Import List Arith QArith Bool Lia Lqa.
Import ListNotations.
From TL Require Import Model.Hmm.
Open Scope Q_scope.

Lemma Qltb_true x y : Qltb x y = true -> x < y.
Proof. unfold Qltb. destruct (Qlt_le_dec x y); [auto | discriminate]. Qed.
Lemma Qltb_false x y : Qltb x y = false -> y <= x.
Proof. unfold Qltb. destruct (Qlt_le_dec x y); [discriminate | auto]. Qed.

(* inner loop: result is below the start value and below every candidate; it is either the
   start pair or one of the candidates (Leibniz-equal to the computed sum) *)
Lemma best_pred_gen q : forall prev m bv ba,
  let r := best_pred prev q m bv ba in
  fst r <= bv /\
  (forall i, (i < length prev)%nat -> fst r <= q (m + i)%nat + nth i prev 0) /\
  ((r = (bv, ba)) \/ exists i, (i < length prev)%nat /\ snd r = (m + i)%nat /\ fst r = q (m + i)%nat + nth i prev 0).
Proof.
  induction prev as [|v prev IH]; intros m bv ba; cbn [best_pred].
  - simpl. split; [lra|]. split; [intros i Hi; lia | left; reflexivity].
  - destruct (Qltb (q m + v) bv) eqn:E.
    + apply Qltb_true in E. specialize (IH (S m) (q m + v) m). cbv zeta in IH.
      destruct IH as [H1 [H2 H3]]. split; [lra|]. split.
      * intros [|i] Hi; [rewrite Nat.add_0_r; simpl; assumption|].
        simpl in Hi. specialize (H2 i ltac:(lia)). replace (m + S i)%nat with (S m + i)%nat by lia. simpl nth. assumption.
      * right. destruct H3 as [H3|[i [Hi [Hs Hf]]]].
        -- exists 0%nat. rewrite H3. simpl. rewrite Nat.add_0_r. split; [lia|]. split; reflexivity.
        -- exists (S i). simpl. split; [lia|]. replace (m + S i)%nat with (S m + i)%nat by lia. split; assumption.
    + apply Qltb_false in E. specialize (IH (S m) bv ba). cbv zeta in IH.
      destruct IH as [H1 [H2 H3]]. split; [assumption|]. split.
      * intros [|i] Hi; [rewrite Nat.add_0_r; simpl; lra|].
        simpl in Hi. specialize (H2 i ltac:(lia)). replace (m + S i)%nat with (S m + i)%nat by lia. simpl nth. assumption.
      * destruct H3 as [H3|[i [Hi [Hs Hf]]]]; [left; assumption|].
        right. exists (S i). simpl. split; [lia|]. replace (m + S i)%nat with (S m + i)%nat by lia. split; assumption.
Qed.

(* with a non-empty column whose candidates are all below the sentinel, the result is a real argmin *)
Lemma best_pred_spec q prev :
  prev <> [] -> (forall i, (i < length prev)%nat -> q i + nth i prev 0 < BIG) ->
  let r := best_pred prev q 0 BIG 0 in
  (snd r < length prev)%nat /\ fst r = q (snd r) + nth (snd r) prev 0 /\
  forall i, (i < length prev)%nat -> fst r <= q i + nth i prev 0.
Proof.
  intros Hne Hb. pose proof (best_pred_gen q prev 0 BIG 0) as H. cbv zeta in H.
  destruct H as [H1 [H2 H3]]. cbv zeta.
  destruct H3 as [H3|[i [Hi [Hs Hf]]]].
  - exfalso. destruct prev as [|v prev]; [contradiction|].
    specialize (H2 0%nat ltac:(simpl; lia)). specialize (Hb 0%nat ltac:(simpl; lia)).
    rewrite H3 in H2. simpl in *. lra.
  - simpl in Hs. split; [lia|]. split; [rewrite Hs; assumption | intros j Hj; apply (H2 j Hj)].
Qed.
Print Assumptions best_pred_spec.
