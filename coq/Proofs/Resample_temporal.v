From Coq Require Import List Arith QArith Bool Lia Lqa Sorted.
Import ListNotations.
From TL Require Import Model.Resample.
Open Scope Q_scope.

Lemma Qltb_true x y : Qltb x y = true <-> x < y.
Proof. unfold Qltb. destruct (Qlt_le_dec x y); split; auto; try discriminate. intros; lra. Qed.
Lemma Qltb_false x y : Qltb x y = false <-> y <= x.
Proof. unfold Qltb. destruct (Qlt_le_dec x y); split; auto; try discriminate. intros; lra. Qed.
Lemma Qleb_true x y : Qleb x y = true <-> x <= y.
Proof. unfold Qleb. destruct (Qlt_le_dec y x); split; auto; try discriminate. intros; lra. Qed.
Lemma Qleb_false x y : Qleb x y = false <-> y < x.
Proof. unfold Qleb. destruct (Qlt_le_dec y x); split; auto; try discriminate. intros; lra. Qed.

(* number of timestamps strictly before t = index of the first timestamp >= t *)
Fixpoint bracket (T : list Q) (t : Q) : nat :=
  match T with [] => 0%nat | v :: r => if Qltb v t then S (bracket r t) else 0%nat end.

Definition increasing (T : list Q) : Prop := StronglySorted Qle T.

Lemma bracket_le_length T t : (bracket T t <= length T)%nat.
Proof. induction T as [|v T IH]; simpl; [lia|]. destruct (Qltb v t); lia. Qed.

(* below the bracket every timestamp is < t; at the bracket (if any) it is >= t *)
Lemma bracket_spec T t : increasing T ->
  (forall k, (k < bracket T t)%nat -> nth k T 0 < t) /\
  ((bracket T t < length T)%nat -> t <= nth (bracket T t) T 0).
Proof.
  induction 1 as [|v T Hs IH Hall]; simpl; [split; [intros; lia | intros; lia]|].
  destruct (Qltb v t) eqn:E.
  - apply Qltb_true in E. destruct IH as [H1 H2]. split.
    + intros [|k] Hk; [assumption | apply H1; lia].
    + intros Hlt. apply H2. lia.
  - apply Qltb_false in E. split; [intros; lia | intros _; assumption].
Qed.

Lemma bracket_mono T t t' : t <= t' -> (bracket T t <= bracket T t')%nat.
Proof.
  intros Htt. induction T as [|v T IH]; simpl; [lia|].
  destruct (Qltb v t) eqn:E; [|lia]. apply Qltb_true in E.
  assert (E' : Qltb v t' = true) by (apply Qltb_true; lra). rewrite E'. lia.
Qed.

Lemma advance_spec T t : increasing T -> (bracket T t < length T)%nat ->
  forall fuel rid, (rid <= bracket T t)%nat -> (bracket T t - rid < fuel)%nat ->
  advance fuel T rid t = Some (bracket T t).
Proof.
  intros Hinc Hb. destruct (bracket_spec T t Hinc) as [H1 H2]. specialize (H2 Hb).
  induction fuel as [|f IH]; intros rid Hr Hf; [lia|]. cbn [advance].
  destruct (nth_error T rid) as [v|] eqn:E.
  - assert (Ev : nth rid T 0 = v) by (apply nth_error_nth; assumption).
    destruct (Nat.eq_dec rid (bracket T t)) as [->|Hne].
    + rewrite <- Ev. assert (Ef : Qltb (nth (bracket T t) T 0) t = false) by (apply Qltb_false; assumption).
      rewrite Ef. reflexivity.
    + assert (Et : Qltb v t = true) by (apply Qltb_true; rewrite <- Ev; apply H1; lia).
      rewrite Et. apply IH; lia.
  - apply nth_error_None in E. lia.
Qed.

(* the requested instants that produce an observation *)
Definition in_range (tini tfin t : Q) : bool := negb (Qleb t tini) && negb (Qltb tfin t).

Lemma loop_spec T X tini tfin : increasing T -> (forall t, t <= tfin -> (bracket T t < length T)%nat) ->
  forall REF rid acc, StronglySorted Qle REF ->
  (forall t, In t REF -> in_range tini tfin t = true -> (rid <= bracket T t)%nat) ->
  loop T X tini tfin REF rid acc =
  Some (rev acc ++ map (fun t => (t, lerp T X (bracket T t) t)) (filter (in_range tini tfin) REF)).
Proof.
  intros Hinc Hfin. induction REF as [|t r IH]; intros rid acc Hs Hrid; cbn [loop filter map].
  - rewrite app_nil_r. reflexivity.
  - inversion Hs as [|? ? Hs' Hall]; subst. unfold in_range at 1.
    destruct (Qleb t tini) eqn:E1; cbn [negb andb].
    + apply IH; [assumption|]. intros t' Ht' Hr'. apply Hrid; [right; assumption | assumption].
    + destruct (Qltb tfin t) eqn:E2; cbn [negb].
      * (* break: every later instant is also beyond the end *)
        apply Qltb_true in E2.
        assert (Hnone : filter (in_range tini tfin) r = []).
        { clear -Hall E2. induction r as [|t' r IHr]; [reflexivity|]. inversion Hall as [|? ? Ht' Hr]; subst.
          simpl. unfold in_range at 1. assert (E : Qltb tfin t' = true) by (apply Qltb_true; lra).
          rewrite E. rewrite andb_false_r. apply IHr. assumption. }
        rewrite Hnone. simpl. rewrite app_nil_r. reflexivity.
      * apply Qltb_false in E2.
        assert (Hrt : (rid <= bracket T t)%nat).
        { apply Hrid; [left; reflexivity|]. unfold in_range. rewrite E1. assert (E : Qltb tfin t = false) by (apply Qltb_false; assumption). rewrite E. reflexivity. }
        rewrite (advance_spec T t Hinc (Hfin t E2) (S (length T)) rid Hrt) by (pose proof (bracket_le_length T t); lia).
        rewrite IH; [|assumption|].
        -- cbn [rev map]. rewrite <- app_assoc. reflexivity.
        -- intros t' Ht' _. apply bracket_mono. rewrite Forall_forall in Hall. apply Hall. assumption.
Qed.
Print Assumptions loop_spec.
