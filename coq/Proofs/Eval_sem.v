(* kind-aware denotation of internal-syntax expressions and its agreement with the RPN machine *)
From Coq Require Import List Ascii String Bool Arith ZArith QArith Lia DecimalString DecimalNat.
Import ListNotations.
From TL Require Import Model.Str Model.Rpn Model.Table Model.Eval Model.Pipeline
                       Proofs.Rpn_parse Proofs.Table_inv Proofs.Table_set Proofs.Eval_write.

Inductive dval := DS (v : val) | DC (col : list val).

Definition arith_op (c : ascii) : bool :=
  Ascii.eqb c "+" || Ascii.eqb c "-" || Ascii.eqb c "*" || Ascii.eqb c "/" || Ascii.eqb c "^" || Ascii.eqb c "<" || Ascii.eqb c ">".

Definition scalar_op (c : ascii) (a b : val) : res val :=
  if Ascii.eqb c "+" then Ok (vadd a b) else if Ascii.eqb c "-" then Ok (vsub a b)
  else if Ascii.eqb c "*" then Ok (vmul a b) else if Ascii.eqb c "/" then vdiv_raw a b
  else if Ascii.eqb c "^" then vpow a b
  else if Ascii.eqb c ">" then Ok (vbool (vgt a b)) else if Ascii.eqb c "<" then Ok (vbool (vlt a b)) else Err Other.

Definition bin_sem (c : ascii) (dl dr : dval) : res dval :=
  match dl, dr with
  | DS a, DS b => do v <- scalar_op c a b; Ok (DS v)
  | DC x, DC y => match binop_afaf c with Some f => do col <- zipM f x y; Ok (DC col) | None => Err KeyError end
  | DC x, DS k => match binop_afs c k with Some rf => do f <- rf; do col <- mapM f x; Ok (DC col) | None => Err KeyError end
  | DS k, DC y => match binop_saf c k with Some f => do col <- mapM f y; Ok (DC col) | None => Err KeyError end
  end.

(* F@(arg): a unary column operator or an aggregate applied to a column (a number argument is a TypeError) *)
Definition fun_sem (t : track) (f : str) (dr : dval) : res dval :=
  match dr with
  | DS _ => Err TypeError
  | DC x => match void_spec f with
            | Some (need, g) => Ok (DC (g (if need (Table.size t) then x else repeat None (Table.size t))))
            | None => match nonvoid_spec f with
                      | Some g => do v <- g x; Ok (DC (repeat v (Table.size t)))
                      | None => Err Other
                      end
            end
  end.

Fixpoint sem (t : track) (e : expr) : res dval :=
  match e with
  | Atom s => if has_af t s then do col <- get_af t s; Ok (DC col)
              else match parse_lit s with Some q => Ok (DS (Some q)) | None => Err ValueError end
  | Par e => sem t e
  | Bin c l r => if Ascii.eqb c "@" then match l with Atom f => do dr <- sem t r; fun_sem t f dr | _ => Err Other end
                 else do dl <- sem t l; do dr <- sem t r; bin_sem c dl dr
  end.

(* expressions of the arithmetic fragment whose atoms are features of t (not literals) or literals (not features) *)
Definition op_token (s : str) : bool := match s with [c] => mem c operators | _ => false end.

Fixpoint wfe (t : track) (e : expr) : Prop :=
  match e with
  | Atom s => (has_af t s = true /\ parse_lit s = None /\ is_temp s = false /\ op_token s = false) \/ (has_af t s = false /\ parse_lit s <> None)
  | Par e => wfe t e
  | Bin c l r => if Ascii.eqb c "@" then match l with Atom f => op_token f = false /\ parse_lit f = None /\ wfe t r | _ => False end
                 else arith_op c = true /\ wfe t l /\ wfe t r
  end.

Fixpoint nops (e : expr) : nat := match e with Atom _ => 0 | Par e => nops e | Bin _ l r => S (nops l + nops r) end.

(* temp names are pairwise distinct and never literals *)
Lemma temp_name_inj j k : temp_name j = temp_name k -> j = k.
Proof.
  unfold temp_name. intros H. injection H as H. unfold s_ in H.
  assert (E : NilEmpty.string_of_uint (Nat.to_uint j) = NilEmpty.string_of_uint (Nat.to_uint k)).
  { rewrite <- (string_of_list_ascii_of_string (NilEmpty.string_of_uint (Nat.to_uint j))).
    rewrite <- (string_of_list_ascii_of_string (NilEmpty.string_of_uint (Nat.to_uint k))). rewrite H. reflexivity. }
  apply (f_equal NilEmpty.uint_of_string) in E. rewrite !NilEmpty.usu in E. injection E as E.
  apply (f_equal Nat.of_uint) in E. rewrite !DecimalNat.Unsigned.of_to in E. exact E.
Qed.
Lemma temp_not_lit k : parse_lit (temp_name k) = None.
Proof. reflexivity. Qed.
Lemma temp_is_temp k : is_temp (temp_name k) = true.
Proof. reflexivity. Qed.

Lemma lit_not_op s : parse_lit s <> None -> op_token s = false.
Proof.
  destruct s as [|c [|c' r]]; try reflexivity. intros H. unfold op_token.
  destruct (mem c operators) eqn:E; [|reflexivity]. exfalso. apply H.
  unfold mem in E. apply existsb_exists in E. destruct E as [x [Hx E]]. apply Ascii.eqb_eq in E. subst x.
  unfold operators in Hx. simpl in Hx.
  repeat (destruct Hx as [<-|Hx]; [reflexivity|]). destruct Hx.
Qed.
