(* the real-number instance of the generic model is the function the nearest-point theorem is about *)
From Coq Require Import Reals Lra Bool.
From TL Require Import Model.Num Model.Geom Proofs.GeomAlg Proofs.GeomProj.
Open Scope R_scope.

Lemma Reqb_false x y : x <> y -> Reqb x y = false.
Proof. intros H. unfold Reqb. destruct (Req_EM_T x y); [contradiction | reflexivity]. Qed.

Lemma booly_horizontal x1 y1 x2 x y : x1 <> x2 ->
  (GeomProj.Rleb y1 (yproj x1 y1 x2 y1 x y) && GeomProj.Rleb (yproj x1 y1 x2 y1 x y) y1) = true.
Proof.
  intros Hnv. rewrite (yproj_eq x1 y1 x2 y1 x y Hnv).
  replace (y1 + lam x1 y1 x2 y1 x y * (y1 - y1)) with y1 by ring.
  assert (E : GeomProj.Rleb y1 y1 = true) by (apply GeomProj.Rleb_true; lra). rewrite E. reflexivity.
Qed.

Lemma bridge x1 y1 x2 y2 x y : x1 <> x2 ->
  Geom.proj_segment RNum {| sx1 := x1; sy1 := y1; sx2 := x2; sy2 := y2 |} x y
  = GeomProj.proj_segment x1 y1 x2 y2 x y.
Proof.
  intros Hnv. unfold Geom.proj_segment, Geom.proj_line, GeomProj.proj_segment, incl, dline, cart_a, cart_b, cart_c, dist_pt, dist.
  cbn [sx1 sy1 sx2 sy2 RNum add sub mul div opp sqrt abs leb ltb eqb zero one].
  rewrite Reqb_false by lra.
  unfold Reqb. destruct (Req_EM_T y1 y2) as [E|E].
  - subst y2. rewrite orb_true_r.
    change Num.Rleb with GeomProj.Rleb.
    pose proof (booly_horizontal x1 y1 x2 x y Hnv) as H.
    unfold xproj, yproj, BH_, yb_, norm_, c_, b_, a_ in *. rewrite H. rewrite orb_true_l. reflexivity.
  - rewrite orb_false_r. unfold xproj, yproj, BH_, yb_, norm_, c_, b_, a_. reflexivity.
Qed.

(* C20 for one non-vertical segment, stated on the generic model at the real instance *)
Theorem proj_segment_generic_nearest x1 y1 x2 y2 x y : x1 <> x2 ->
  let '(d, px, py) := Geom.proj_segment RNum {| sx1 := x1; sy1 := y1; sx2 := x2; sy2 := y2 |} x y in
  (exists mu, 0 <= mu <= 1 /\ (px, py) = on_seg x1 y1 x2 y2 mu) /\
  d = dist x y px py /\
  forall mu, 0 <= mu <= 1 -> d <= dist x y (fst (on_seg x1 y1 x2 y2 mu)) (snd (on_seg x1 y1 x2 y2 mu)).
Proof. intros Hnv. rewrite (bridge x1 y1 x2 y2 x y Hnv). apply proj_segment_nearest. assumption. Qed.
Print Assumptions proj_segment_generic_nearest.
