(* A CSV file written by the model's writer (header / comment lines, then one line per observation) and read by the model's reader
   gives back the observation lines: the same number, in the same order *)
From Coq Require Import List Ascii String Bool Arith ZArith QArith Qabs Lia.
From TL Require Import Model.TextFmt Proofs.Columns Proofs.TimeText Model.CsvText Proofs.FixedText Proofs.CsvLine.
Import ListNotations.
Close Scope Z_scope.
Close Scope Q_scope.
Open Scope string_scope.

Definition nonl (s : string) : Prop := str_all (differs nl) s = true.
Definition first_is (P : ascii -> bool) (s : string) : Prop := match s with String c _ => P c = true | "" => False end.

(* an observation line: not empty, unchanged by strip(), does not start with the comment character, holds no newline *)
Definition line_ok (l : string) : Prop := strip_w l = l /\ first_is (fun c => negb (Ascii.eqb c "#")) l /\ nonl l.
(* a header / comment line: starts with the comment character, holds no newline *)
Definition hdr_ok (l : string) : Prop := first_is (fun c => Ascii.eqb c "#") l /\ nonl l.

Lemma split_lines ls : Forall nonl ls -> split nl (concat_lines ls) = List.app ls [""].
Proof.
  induction ls as [|l r IH]; intros H; [reflexivity|]. inversion H as [|? ? Hl Hr]; subst.
  cbn [concat_lines]. unfold split. rewrite (split_acc_field nl l _ (fun s => s) Hl). fold (split nl (concat_lines r)). rewrite (IH Hr). reflexivity.
Qed.

Lemma rstrip_hd c r : white c = false -> exists r', rstrip_w (String c r) = String c r'.
Proof. intros H. cbn [rstrip_w]. destruct (rstrip_w r); [rewrite H; eexists; reflexivity | eexists; reflexivity]. Qed.

Lemma strip_hdr l : hdr_ok l -> exists r', strip_w l = String "#" r'.
Proof.
  intros [Hf _]. destruct l as [|c r]; [destruct Hf|]. cbn in Hf. apply Ascii.eqb_eq in Hf. subst c.
  unfold strip_w. cbn [lstrip_w white]. change (white "#") with false. cbv iota. apply rstrip_hd. reflexivity.
Qed.

Lemma read_skip_hdr hs rest : Forall hdr_ok hs -> read_lines (List.app hs rest) = read_lines rest.
Proof.
  induction hs as [|h hs IH]; intros H; [reflexivity|]. inversion H as [|? ? Hh Hr]; subst.
  cbn [List.app read_lines]. destruct (strip_hdr h Hh) as [r' ->]. rewrite Ascii.eqb_refl. apply IH. exact Hr.
Qed.

Lemma read_keep ls : Forall line_ok ls -> read_lines (List.app ls [""]) = ls.
Proof.
  induction ls as [|l r IH]; intros H; [reflexivity|]. inversion H as [|? ? Hl Hr]; subst.
  cbn [List.app read_lines]. destruct Hl as [Hs [Hf _]]. rewrite Hs. destruct l as [|c s']; [destruct Hf|]. cbn in Hf.
  apply negb_true_iff in Hf. rewrite Hf. f_equal. apply IH. exact Hr.
Qed.

Lemma Forall_skipn {A} (P : A -> Prop) n l : Forall P l -> Forall P (skipn n l).
Proof. revert l. induction n as [|n IH]; intros l H; [exact H|]. destruct l; [constructor|]. inversion H; subst. apply IH. assumption. Qed.

Theorem file_roundtrip h hdr lines : h <= List.length hdr -> Forall hdr_ok hdr -> Forall line_ok lines ->
  read_file h (write_file hdr lines) = lines.
Proof.
  intros Hh Hhd Hln. unfold read_file, write_file.
  rewrite split_lines.
  2:{ apply Forall_app. split; [eapply Forall_impl; [|exact Hhd]; intros a [_ H]; exact H | eapply Forall_impl; [|exact Hln]; intros a [_ [_ H]]; exact H]. }
  rewrite <- app_assoc, skipn_app. replace (h - List.length hdr) with 0 by lia. cbn [skipn].
  rewrite (read_skip_hdr (skipn h hdr) _ (Forall_skipn _ h hdr Hhd)). apply read_keep. exact Hln.
Qed.
Print Assumptions file_roundtrip.

(* ------------------------------------------------------------------ the observation lines of the writer are such lines *)
Fixpoint slast (s : string) : ascii := match s with "" => " "%char | String c "" => c | String _ r => slast r end.

Lemma slast_cons c s : s <> "" -> slast (String c s) = slast s.
Proof. destruct s; [congruence | reflexivity]. Qed.
Lemma slast_app a b : b <> "" -> slast (a ++ b) = slast b.
Proof.
  intros Hb. induction a as [|c a IH]; [reflexivity|]. cbn [append]. rewrite slast_cons; [exact IH|].
  destruct a; [exact Hb | discriminate].
Qed.
Lemma last_all P s : s <> "" -> str_all P s = true -> P (slast s) = true.
Proof.
  induction s as [|c s IH]; [congruence|]. intros _ H. cbn [str_all] in H. apply andb_prop in H. destruct H as [H1 H2].
  destruct s as [|d s']; [exact H1|]. change (slast (String c (String d s'))) with (slast (String d s')). apply IH; [discriminate | exact H2].
Qed.

Lemma rstrip_cons c s : rstrip_w s <> "" -> rstrip_w (String c s) = String c (rstrip_w s).
Proof. intros H. cbn [rstrip_w]. destruct (rstrip_w s); [congruence | reflexivity]. Qed.
Lemma rstrip_id s : white (slast s) = false -> rstrip_w s = s.
Proof.
  induction s as [|c s IH]; [reflexivity|]. intros H. destruct s as [|d s'].
  - cbn in H |- *. rewrite H. reflexivity.
  - rewrite slast_cons in H by discriminate. specialize (IH H). rewrite rstrip_cons; rewrite IH; [reflexivity | discriminate].
Qed.
Lemma strip_id s : first_is (fun c => negb (white c)) s -> white (slast s) = false -> strip_w s = s.
Proof.
  intros Hf Hl. unfold strip_w. destruct s as [|c r]; [destruct Hf|]. cbn in Hf. apply negb_true_iff in Hf. cbn [lstrip_w]. rewrite Hf. apply rstrip_id. exact Hl.
Qed.

(* what a field starts and ends with *)
Definition fstart (c : ascii) : bool := is_digit c || Ascii.eqb c "-".
Definition field_ok (f : string) : Prop := first_is fstart f /\ is_digit (slast f) = true /\ str_all fchar f = true.

Lemma lpad_zero_last p s : s <> "" -> str_all is_digit s = true -> lpad "0" p s <> "" /\ is_digit (slast (lpad "0" p s)) = true.
Proof.
  intros Hs Hd. rewrite lpad_rep. split.
  - destruct s; [congruence|]. generalize (p - String.length (String a s)). intros k. revert a s Hs Hd. induction k as [|k IH]; intros a s Hs Hd; cbn [rep]; [discriminate|]. apply (IH "0"%char (String a s)); [discriminate|]. cbn. exact Hd.
  - apply last_all.
    + destruct s; [congruence|]. generalize (p - String.length (String a s)). intros k. revert a s Hs Hd. induction k as [|k IH]; intros a s Hs Hd; cbn [rep]; [discriminate|]. apply (IH "0"%char (String a s)); [discriminate|]. cbn. exact Hd.
    + apply rep_all; [reflexivity | exact Hd].
Qed.

Lemma digits_of_ne n : digits_of n <> "".
Proof. destruct (digits_of_head n) as [c [r [E _]]]. rewrite E. discriminate. Qed.

Lemma body_last p n : body p n <> "" /\ is_digit (slast (body p n)) = true.
Proof.
  unfold body. destruct (p =? 0)%nat.
  - rewrite app_empty_r. split; [apply digits_of_ne | apply last_all; [apply digits_of_ne | apply digits_of_digits]].
  - destruct (lpad_zero_last p (digits_of (n mod 10 ^ Z.of_nat p)) (digits_of_ne _) (digits_of_digits _)) as [H1 H2].
    split; [destruct (digits_of (n / 10 ^ Z.of_nat p)); discriminate|].
    rewrite slast_app; [|destruct (lpad "0" p (digits_of (n mod 10 ^ Z.of_nat p))); discriminate].
    rewrite slast_app by exact H1. exact H2.
Qed.

Lemma number_field w p x : field_ok (lstrip (fmt_fixed w p x)).
Proof.
  split; [|split; [|apply number_fchar]].
  - rewrite fmt_fixed_body, lpad_rep, lstrip_rep_space.
    set (n := round_half_even (Qabs x * inject_Z (10 ^ Z.of_nat p))).
    destruct (Qcompare x 0); cbn [append].
    + unfold body. destruct (digits_of_head (n / 10 ^ Z.of_nat p)) as [c [r [Ec Hc]]]. rewrite Ec. cbn [append].
      rewrite lstrip_nospace by (destruct c as [[|] [|] [|] [|] [|] [|] [|] [|]]; try discriminate Hc; reflexivity). cbn. unfold fstart. rewrite Hc. reflexivity.
    + reflexivity.
    + unfold body. destruct (digits_of_head (n / 10 ^ Z.of_nat p)) as [c [r [Ec Hc]]]. rewrite Ec. cbn [append].
      rewrite lstrip_nospace by (destruct c as [[|] [|] [|] [|] [|] [|] [|] [|]]; try discriminate Hc; reflexivity). cbn. unfold fstart. rewrite Hc. reflexivity.
  - rewrite fmt_fixed_body, lpad_rep, lstrip_rep_space.
    set (n := round_half_even (Qabs x * inject_Z (10 ^ Z.of_nat p))). destruct (body_last p n) as [Hb1 Hb2].
    assert (E : forall sg, (sg = "" \/ sg = "-") -> is_digit (slast (lstrip (sg ++ body p n))) = true).
    { intros sg [-> | ->].
      - cbn [append]. unfold body in *. destruct (digits_of_head (n / 10 ^ Z.of_nat p)) as [c [r [Ec Hc]]]. rewrite Ec in *. cbn [append] in *.
        rewrite lstrip_nospace by (destruct c as [[|] [|] [|] [|] [|] [|] [|] [|]]; try discriminate Hc; reflexivity). exact Hb2.
      - cbn [append lstrip]. change (slast (String "-" (body p n))) with (match body p n with "" => "-"%char | _ => slast (body p n) end).
        destruct (body p n); [congruence | exact Hb2]. }
    destruct (Qcompare x 0); apply E; auto.
Qed.

Lemma time_field t : stamp_ok t -> field_ok (string_of_list_ascii (TimeText.print t)).
Proof.
  intros Ht. pose proof (time_fchar t Ht) as Hf. destruct Ht as (Hd & Hm & Hy & Hh & Hmi & Hs).
  split; [|split; [|exact Hf]].
  - unfold TimeText.print, print2. cbn [List.app string_of_list_ascii first_is]. unfold fstart.
    rewrite digit_is_digit by (apply Nat.div_lt_upper_bound; lia). reflexivity.
  - unfold TimeText.print, print2, print4. cbn [List.app string_of_list_ascii slast].
    apply digit_is_digit. apply Nat.mod_upper_bound. lia.
Qed.

Lemma data_fields w p idU idT x y z t : stamp_ok t -> Forall field_ok (data w p idU idT x y z t).
Proof.
  intros Ht. unfold data. repeat (apply Forall_app; split); try (destruct idU); try (destruct idT); repeat constructor; try apply number_field; apply time_field; exact Ht.
Qed.

Lemma str_all_join_l P sep l : str_all P sep = true -> forallb (str_all P) l = true -> str_all P (join sep l) = true.
Proof.
  intros Hs. induction l as [|a l IH]; intros H; [reflexivity|]. cbn [forallb] in H. apply andb_prop in H. destruct H as [H1 H2].
  destruct l as [|b l]; [exact H1|]. change (join sep (a :: b :: l)) with (a ++ sep ++ join sep (b :: l)).
  rewrite !str_all_app, H1, Hs, (IH H2). reflexivity.
Qed.

(* joining fields that start / end with field characters *)
Lemma join_first P sep f r : f <> "" -> first_is P f -> first_is P (join sep (f :: r)).
Proof. intros Hne Hf. destruct r as [|g r]; [exact Hf|]. change (join sep (f :: g :: r)) with (f ++ sep ++ join sep (g :: r)). destruct f; [congruence | exact Hf]. Qed.
Lemma join_ne sep l : l <> [] -> Forall (fun f => f <> "") l -> join sep l <> "".
Proof. intros Hl Hf. destruct l as [|f r]; [congruence|]. inversion Hf; subst. destruct r; [assumption|]. change (join sep (f :: s :: r)) with (f ++ sep ++ join sep (s :: r)). destruct f; [congruence | discriminate]. Qed.
Lemma join_last sep l : sep <> "" -> l <> [] -> Forall (fun f => f <> "") l -> slast (join sep l) = slast (List.last l "").
Proof.
  intros Hs. induction l as [|f r IH]; [congruence|]. intros _ Hf. inversion Hf as [|? ? Hf1 Hfr]; subst.
  destruct r as [|g r]; [reflexivity|]. change (join sep (f :: g :: r)) with (f ++ sep ++ join sep (g :: r)).
  assert (Hj : join sep (g :: r) <> "") by (apply join_ne; [discriminate | exact Hfr]).
  rewrite slast_app; [|destruct sep; [congruence | discriminate]]. rewrite slast_app by exact Hj.
  rewrite IH by (try discriminate; exact Hfr). reflexivity.
Qed.

Lemma field_ne f : field_ok f -> f <> "".
Proof. intros [H _]. destruct f; [destruct H | discriminate]. Qed.

Lemma nm_fields_out w p idE idN idU idT x y z t :
  distinct (ids_of idE idN idU idT) = true ->
  forallb (fun i => Nat.ltb i (List.length (ids_of idE idN idU idT))) (ids_of idE idN idU idT) = true ->
  stamp_ok t -> fields_out w p idE idN idU idT x y z t <> [] /\ Forall field_ok (fields_out w p idE idN idU idT x y z t).
Proof.
  intros Hd Hb Ht. pose proof (columns_sat _ printed_in_range_all idE idN idU idT Hd Hb) as Hpr. unfold printed_in_range in Hpr.
  apply andb_prop in Hpr. destruct Hpr as [Hpr Hlen]. unfold fields_out. split.
  - apply Nat.eqb_eq in Hlen. destruct (printed idE idN idU idT); [unfold count in Hlen; cbn in Hlen; destruct (isSome idU), (isSome idT); discriminate | discriminate].
  - rewrite Forall_forall. intros s Hs. apply in_map_iff in Hs. destruct Hs as [k [<- Hk]].
    rewrite forallb_forall in Hpr. specialize (Hpr k Hk). apply Nat.ltb_lt in Hpr. rewrite <- (data_length w p idU idT x y z t) in Hpr.
    pose proof (data_fields w p idU idT x y z t Ht) as Hall. rewrite Forall_forall in Hall. apply Hall, nth_In, Hpr.
Qed.

(* an observation line of the writer is a line the reader keeps, for every column order, separator, width, precision and value *)
Theorem line_is_ok w p idE idN idU idT c x y z t :
  distinct (ids_of idE idN idU idT) = true ->
  forallb (fun i => Nat.ltb i (List.length (ids_of idE idN idU idT))) (ids_of idE idN idU idT) = true ->
  sep_ok c = true -> c <> nl -> stamp_ok t ->
  line_ok (line w p idE idN idU idT (String c "") x y z t).
Proof.
  intros Hd Hb Hc Hnl Ht. destruct (nm_fields_out w p idE idN idU idT x y z t Hd Hb Ht) as [Hne Hall].
  unfold line. set (fs := fields_out w p idE idN idU idT x y z t) in *.
  assert (Hnes : Forall (fun f => f <> "") fs) by (eapply Forall_impl; [|exact Hall]; intros a Ha; apply field_ne; exact Ha).
  assert (Hfirst : first_is fstart (join (String c "") fs)).
  { destruct fs as [|f r]; [congruence|]. inversion Hall as [|? ? Hf _]; subst. apply join_first; [apply field_ne; exact Hf | apply Hf]. }
  assert (Hlast : is_digit (slast (join (String c "") fs)) = true).
  { rewrite join_last by (try discriminate; assumption).
    assert (Hin : In (List.last fs "") fs) by (destruct fs as [|f r]; [congruence|]; apply (@exists_last _ (f :: r)) in Hne as [l' [a ->]]; rewrite last_last; apply in_or_app; right; left; reflexivity).
    rewrite Forall_forall in Hall. apply (Hall _ Hin). }
  split; [|split].
  - apply strip_id.
    + destruct (join (String c "") fs) as [|a r]; [destruct Hfirst|]. cbn in Hfirst |- *. unfold fstart in Hfirst.
      destruct a as [[|] [|] [|] [|] [|] [|] [|] [|]]; try discriminate Hfirst; reflexivity.
    + destruct (slast (join (String c "") fs)) as [[|] [|] [|] [|] [|] [|] [|] [|]]; try discriminate Hlast; reflexivity.
  - destruct (join (String c "") fs) as [|a r]; [destruct Hfirst|]. cbn in Hfirst |- *. unfold fstart in Hfirst.
    destruct a as [[|] [|] [|] [|] [|] [|] [|] [|]]; try discriminate Hfirst; reflexivity.
  - unfold nonl. apply str_all_join_l.
    + cbn. unfold differs. destruct (Ascii.eqb_spec c nl); [contradiction | reflexivity].
    + rewrite Forall_forall in Hall. apply forallb_forall. intros f Hf. destruct (Hall f Hf) as [_ [_ Hch]].
      eapply str_all_imp; [|exact Hch]. intros a Ha. unfold differs. destruct (Ascii.eqb_spec a nl) as [->|]; [discriminate Ha | reflexivity].
Qed.
Print Assumptions line_is_ok.

(* the whole file: header / comment lines, then one line per observation; read back with the same header count: exactly the
   observation lines, as many as observations, in the same order (each of them then read by csv_line_roundtrip) *)
Definition obs_line w p idE idN idU idT c (o : Q * Q * Q * stamp) : string :=
  let '(x, y, z, t) := o in line w p idE idN idU idT (String c "") x y z t.

Theorem csv_file_roundtrip w p idE idN idU idT c h hdr (obs : list (Q * Q * Q * stamp)) :
  distinct (ids_of idE idN idU idT) = true ->
  forallb (fun i => Nat.ltb i (List.length (ids_of idE idN idU idT))) (ids_of idE idN idU idT) = true ->
  sep_ok c = true -> c <> nl -> Forall (fun o => stamp_ok (snd o)) obs ->
  h <= List.length hdr -> Forall hdr_ok hdr ->
  read_file h (write_file hdr (map (obs_line w p idE idN idU idT c) obs)) = map (obs_line w p idE idN idU idT c) obs.
Proof.
  intros Hd Hb Hc Hnl Ho Hh Hhd. apply file_roundtrip; [exact Hh | exact Hhd|].
  rewrite Forall_forall in *. intros l Hl. apply in_map_iff in Hl. destruct Hl as [[[[x y] z] t] [<- Hin]].
  apply line_is_ok; try assumption. apply (Ho _ Hin).
Qed.
Print Assumptions csv_file_roundtrip.
