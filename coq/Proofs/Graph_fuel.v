(* Spike: the fuel of the model is sufficient — with fuel > number of node ids the queue is
   empty at the end, so `dijkstra_correct` applies unconditionally *)
From Coq Require Import List Arith ZArith QArith Bool Lia Lqa.
Import ListNotations.
From TL Require Import Model.Graph Proofs.Graph_inv Proofs.Graph_step Proofs.Graph_final.
Open Scope Q_scope.

Definition universe (g : graph) (src : nat) : list nat := src :: flat_map (fun e => [esrc e; etgt e]) g.
Definition unvis (U : list nat) (s : st) : nat := length (filter (fun v => negb (visite s v)) U).
Definition InU (U : list nat) (s : st) : Prop := forall v, In v (fil s) -> In v U.

Lemma fils_in_universe g src e u : In e g -> In (fils e u) (universe g src).
Proof.
  intros He. right. apply in_flat_map. exists e. split; [assumption|].
  unfold fils. destruct (etgt e =? u)%nat; simpl; auto.
Qed.

Lemma relax_vis u du s e : visite (relax u du s e) = visite s.
Proof.
  unfold relax. destruct (visite s (fils e u)); [reflexivity|].
  destruct (match poids s (fils e u) with None => true | Some dv => if Qlt_le_dec (du + ew e) dv then true else false end);
    reflexivity.
Qed.

Lemma relax_U U u du s e : InU U s -> In (fils e u) U -> InU U (relax u du s e).
Proof.
  intros HU Hin. unfold relax. destruct (visite s (fils e u)); [assumption|].
  destruct (match poids s (fils e u) with None => true | Some dv => if Qlt_le_dec (du + ew e) dv then true else false end);
    [|assumption].
  intros v. cbn [fil]. destruct (existsb (Nat.eqb (fils e u)) (fil s)); [apply HU|].
  intros Hv. apply in_app_or in Hv. destruct Hv as [Hv|[<-|[]]]; [apply HU; assumption | assumption].
Qed.

Lemma fold_relax_vis_U U u du : forall l s, InU U s -> (forall e, In e l -> In (fils e u) U) ->
  visite (fold_left (relax u du) l s) = visite s /\ InU U (fold_left (relax u du) l s).
Proof.
  induction l as [|e l IH]; intros s HU Hl; [split; [reflexivity | assumption]|].
  cbn [fold_left]. destruct (IH (relax u du s e)) as [V I].
  - apply relax_U; [assumption | apply Hl; left; reflexivity].
  - intros e' He'. apply Hl. right. assumption.
  - split; [rewrite V; apply relax_vis | assumption].
Qed.

Lemma settle_vis_U g src u du s : InU (universe g src) s ->
  visite (settle g u du s) = upd (visite s) u true /\ InU (universe g src) (settle g u du s).
Proof.
  intros HU. unfold settle.
  match goal with |- context [fold_left _ _ ?s1] => destruct (fold_relax_vis_U (universe g src) u du (next_edges g u) s1) as [V I] end.
  - intros v. cbn [fil]. intros Hv. apply in_remove_nat in Hv. apply HU. tauto.
  - intros e He. apply fils_in_universe. eapply next_edges_in. eassumption.
  - split; [rewrite V; reflexivity | assumption].
Qed.

Lemma filter_length_lt {A} (p q : A -> bool) (l : list A) (u : A) :
  (forall x, q x = true -> p x = true) -> In u l -> p u = true -> q u = false ->
  (length (filter q l) < length (filter p l))%nat.
Proof.
  intros Himp. induction l as [|a r IH]; [intros []|].
  assert (Hle : forall l', (length (filter q l') <= length (filter p l'))%nat).
  { induction l' as [|b r' IH']; [simpl; lia|]. simpl. destruct (q b) eqn:Eq.
    - rewrite (Himp b Eq). simpl. lia.
    - destruct (p b); simpl; lia. }
  intros [->|Hin] Hp Hq; simpl.
  - rewrite Hp, Hq. simpl. specialize (Hle r). lia.
  - specialize (IH Hin Hp Hq). destruct (q a) eqn:Eq.
    + rewrite (Himp a Eq). simpl. lia.
    + destruct (p a); simpl; lia.
Qed.

Lemma run_exhausts g src cut : nonneg g -> never_cut cut g src ->
  forall fuel s, Inv g src s -> InU (universe g src) s -> (unvis (universe g src) s < fuel)%nat ->
  fil (run fuel g None cut s) = [].
Proof.
  intros Hnn Hcut. induction fuel as [|f IH]; intros s HI HU Hlt; [lia|].
  cbn [run]. destruct (pop_min s) as [u|] eqn:Epop.
  2:{ unfold pop_min in Epop. destruct (fil s); [reflexivity | discriminate]. }
  destruct (pop_min_spec g src s u HI Epop) as [Hin [du [Hdu Hmin]]].
  rewrite Hdu.
  destruct (Qlt_le_dec cut du) as [Hc|Hc]; cbn [orb].
  - exfalso. destruct (i_S _ _ _ HI u du Hdu) as [p [Hp Hcost]].
    pose proof (Hcut u p Hp). lra.
  - destruct (settle_vis_U g src u du s HU) as [V I].
    apply IH; [apply settle_inv; assumption | assumption |].
    assert (unvis (universe g src) (settle g u du s) < unvis (universe g src) s)%nat; [|lia].
    unfold unvis. rewrite V. apply (filter_length_lt _ _ _ u).
    + intros x. unfold upd. destruct (x =? u)%nat; [discriminate | auto].
    + apply HU. assumption.
    + destruct (i_Q1 _ _ _ HI u Hin) as [-> _]. reflexivity.
    + rewrite upd_same. reflexivity.
Qed.

(* the fuel the model is run with: one more than the number of node slots *)
Definition fuel_of (g : graph) : nat := S (S (2 * length g)).

Lemma universe_length g src : length (universe g src) = S (2 * length g).
Proof. unfold universe. cbn [length]. f_equal. induction g as [|e g IH]; [reflexivity|]. cbn [flat_map app length]. lia. Qed.

Theorem dijkstra_total g src cut :
  nonneg g -> never_cut cut g src ->
  let s := run (fuel_of g) g None cut (init src) in
  forall t,
    (forall d, poids s t = Some d ->
       (exists p, walk g src t p /\ cost p == d) /\ (forall p, walk g src t p -> d <= cost p)) /\
    (poids s t = None -> forall p, ~ walk g src t p).
Proof.
  intros Hnn Hcut s. apply (dijkstra_correct g src cut (fuel_of g) Hnn Hcut).
  apply (run_exhausts g src cut Hnn Hcut); [apply inv_init | |].
  - intros v [<-|[]]. left. reflexivity.
  - unfold unvis, fuel_of. rewrite <- universe_length with (src := src).
    assert (F : forall (q : nat -> bool) l, (length (filter q l) <= length l)%nat).
    { intros q l. induction l as [|a r IHr]; [simpl; lia|]. simpl. destruct (q a); simpl; lia. }
    specialize (F (fun v => negb (visite (init src) v)) (universe g src)). lia.
Qed.
Print Assumptions dijkstra_total.
