From Coq Require Import List ZArith QArith Bool Lia.
Import ListNotations.
From TL Require Import Model.Str Model.Table Model.History Proofs.Table_inv Proofs.Table_set Proofs.Table_history Proofs.Table_xhistory.
From TL Require Import Model.OpSem.

Lemma opsem_length o c : List.length (opsem o c) = List.length c.
Proof. destruct o; unfold opsem; rewrite map_length; try rewrite seq_length; reflexivity. Qed.

(* an operator object applied to the column c read under a listed name and written under `out` (in place when out is that name): one table step.
   The invariant is kept, the size too, the abstract map receives exactly the operator's output under `out` and nothing else changes;
   coordinates and timestamps are untouched unless `out` names a coordinate. *)
Theorem operator_step o t out c :
  Inv t -> List.length c = Table.size t ->
  let op := XAddFun out (opsem o c) in
  let t' := xstep t op in
  Inv t' /\ Table.size t' = Table.size t /\
  abs t' = xspec_step (Table.size t) (abs t) op /\
  (is_coord out = false -> xs t' = xs t /\ ys t' = ys t /\ zs t' = zs t /\ ts t' = ts t).
Proof.
  intros HI Hc op t'.
  assert (Hv : forallb (xvalid (Table.size t)) [op] = true).
  { cbn [forallb xvalid op]. rewrite opsem_length, Hc, PeanoNat.Nat.eqb_refl. reflexivity. }
  destruct (xhistory_inv [op] t HI Hv) as [H1 H2].
  pose proof (xhistory_refines [op] t HI Hv) as H3.
  split; [exact H1|]. split; [exact H2|]. split; [exact H3|].
  intros Hco. apply (xhistory_frame [op] t HI Hv). cbn [forallb xname op]. rewrite Hco. reflexivity.
Qed.
Print Assumptions operator_step.
