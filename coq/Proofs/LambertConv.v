(* C14, Lambert-93 inverse: the ten iterations of the latitude loop converge, for EVERY latitude, to the true latitude.
   One step is a contraction of factor K = E^2 / (1 - E^2) (mean value theorem on the two smooth pieces of a step),
   the true latitude is its fixed point, the spherical first guess is within pi of it: the error after k steps is at most K^k pi. *)
From Coq Require Import Reals Lra.
From Coquelicot Require Import Coquelicot.
From TL Require Import Proofs.Lambert.
Open Scope R_scope.

(* a function whose derivative is bounded by K everywhere is K-Lipschitz *)
Lemma lipschitz_of_deriv (f f' : R -> R) (K : R) :
  (forall x, is_derive f x (f' x)) -> (forall x, Rabs (f' x) <= K) -> forall a b, Rabs (f a - f b) <= K * Rabs (a - b).
Proof.
  intros Hd Hb.
  assert (G : forall a b, a < b -> Rabs (f b - f a) <= K * (b - a)).
  { intros a b Hab.
    destruct (MVT_cor2 f f' a b Hab) as [c [Hc _]].
    { intros c _. apply is_derive_Reals. apply Hd. }
    rewrite Hc, Rabs_mult, (Rabs_pos_eq (b - a)) by lra. apply Rmult_le_compat_r; [lra | apply Hb]. }
  intros a b. destruct (Rtotal_order a b) as [H | [H | H]].
  - rewrite Rabs_minus_sym, (Rabs_minus_sym a b), (Rabs_pos_eq (b - a)) by lra. apply G, H.
  - subst b. rewrite !Rminus_eq_0, Rabs_R0. lra.
  - rewrite (Rabs_pos_eq (a - b)) by lra. apply G, H.
Qed.

Section Conv.
Variable E : R.
Hypothesis HE : 0 <= E < 1.

Definition K : R := E * E / (1 - E * E).
Lemma K_nonneg : 0 <= K.
Proof. unfold K. apply Rmult_le_pos; [nra | apply Rlt_le, Rinv_0_lt_compat; nra]. Qed.

(* the part of a step that depends on the current iterate *)
Definition hh (phi : R) : R := E / 2 * ln ((1 + E * sin phi) / (1 - E * sin phi)).
Definition hh' (phi : R) : R := E * E * cos phi / (1 - E * E * (sin phi * sin phi)).
(* the outer part *)
Definition FF (x : R) : R := 2 * atan (exp x).
Definition FF' (x : R) : R := 2 * exp x / (1 + exp x * exp x).

Lemma Esin phi : -1 < E * sin phi < 1.
Proof. exact (Esin_bound E HE phi). Qed.

Lemma hh_deriv phi : is_derive hh phi (hh' phi).
Proof.
  unfold hh, hh'. pose proof (Esin phi) as Hs.
  auto_derive.
  - split; [lra|]. split; [|exact I]. apply Rmult_lt_0_compat; [lra | apply Rinv_0_lt_compat; lra].
  - assert (Hss : sin phi * sin phi <= 1) by (pose proof (SIN_bound phi); nra).
    assert (E * E < 1) by nra. assert (0 <= E * E) by nra.
    assert (E * E * (sin phi * sin phi) < 1) by nra.
    replace (1 - E * E * (sin phi * sin phi)) with ((1 + E * sin phi) * (1 - E * sin phi)) by ring.
    field. split; lra.
Qed.

Lemma hh'_bound phi : Rabs (hh' phi) <= K.
Proof.
  unfold hh', K. pose proof (Esin phi) as Hs. pose proof (COS_bound phi) as Hc. pose proof (SIN_bound phi) as Hsn.
  assert (Hss : sin phi * sin phi <= 1) by nra.
  assert (He2 : 0 <= E * E) by nra.
  assert (Hd : 1 - E * E <= 1 - E * E * (sin phi * sin phi)) by nra.
  assert (Hp : 0 < 1 - E * E) by nra.
  unfold Rdiv. rewrite Rabs_mult, Rabs_mult, (Rabs_pos_eq (E * E)) by nra.
  rewrite (Rabs_pos_eq (/ _)) by (apply Rlt_le, Rinv_0_lt_compat; lra).
  assert (Hi : / (1 - E * E * (sin phi * sin phi)) <= / (1 - E * E)) by (apply Rinv_le_contravar; lra).
  assert (Hac : Rabs (cos phi) <= 1) by (apply Rabs_le; lra).
  assert (0 <= E * E) by nra. assert (0 < / (1 - E * E * (sin phi * sin phi))) by (apply Rinv_0_lt_compat; lra).
  pose proof (Rabs_pos (cos phi)) as Hc0.
  set (i := / (1 - E * E * (sin phi * sin phi))) in *. set (j := / (1 - E * E)) in *. set (c := Rabs (cos phi)) in *.
  apply Rle_trans with (E * E * 1 * i).
  - apply Rmult_le_compat_r; [lra|]. apply Rmult_le_compat_l; assumption.
  - rewrite Rmult_1_r. apply Rmult_le_compat_l; assumption.
Qed.

Lemma FF_deriv x : is_derive FF x (FF' x).
Proof. unfold FF, FF'. auto_derive; [exact I|]. pose proof (exp_pos x). field. nra. Qed.

Lemma FF'_bound x : Rabs (FF' x) <= 1.
Proof.
  unfold FF'. pose proof (exp_pos x) as Hu. set (u := exp x) in *.
  assert (0 < 1 + u * u) by nra.
  rewrite Rabs_pos_eq by (apply Rlt_le, Rdiv_lt_0_compat; lra).
  apply (Rmult_le_reg_r (1 + u * u)); [assumption|]. unfold Rdiv. rewrite Rmult_assoc, Rinv_l by lra.
  pose proof (Rle_0_sqr (u - 1)) as Hsq. unfold Rsqr in Hsq. lra.
Qed.

(* a step, written with the two pieces *)
Lemma step_split L phi : inv_step E L phi = FF (hh phi + L) - PI / 2.
Proof. unfold inv_step, FF, hh, Rpower. rewrite <- exp_plus. reflexivity. Qed.

Theorem step_contracts L a b : Rabs (inv_step E L a - inv_step E L b) <= K * Rabs (a - b).
Proof.
  rewrite !step_split.
  replace (FF (hh a + L) - PI / 2 - (FF (hh b + L) - PI / 2)) with (FF (hh a + L) - FF (hh b + L)) by ring.
  eapply Rle_trans; [apply (lipschitz_of_deriv FF FF' 1 FF_deriv FF'_bound)|].
  rewrite Rmult_1_l. replace (hh a + L - (hh b + L)) with (hh a - hh b) by ring.
  apply (lipschitz_of_deriv hh hh' K hh_deriv hh'_bound).
Qed.

(* k steps from any start: the distance to the true latitude shrinks by K at each step *)
Theorem iter_converges k phi p0 : - (PI / 2) < phi < PI / 2 ->
  Rabs (inv_iter E k (latiso E phi) p0 - phi) <= K ^ k * Rabs (p0 - phi).
Proof.
  intros Hphi. revert p0. induction k as [|k IH]; intros p0; cbn [inv_iter pow]; [lra|].
  eapply Rle_trans; [apply IH|].
  rewrite <- (lambert_phi_fixpoint E HE phi Hphi) at 2.
  pose proof (step_contracts (latiso E phi) p0 phi) as Hc.
  assert (0 <= K ^ k) by (apply pow_le, K_nonneg).
  rewrite (Rmult_comm K), Rmult_assoc. apply Rmult_le_compat_l; assumption.
Qed.

(* the spherical first guess lies in (-pi/2, pi/2): within pi of any latitude *)
Lemma guess_range L : - (PI / 2) < 2 * atan (exp L) - PI / 2 < PI / 2.
Proof.
  pose proof (atan_bound (exp L)) as [_ Hb]. pose proof (exp_pos L) as He.
  assert (0 < atan (exp L)) by (rewrite <- atan_0; apply atan_increasing; assumption). lra.
Qed.

Theorem ten_steps_converge phi : - (PI / 2) < phi < PI / 2 ->
  Rabs (inv_iter E 10 (latiso E phi) (2 * atan (exp (latiso E phi)) - PI / 2) - phi) <= K ^ 10 * PI.
Proof.
  intros Hphi. eapply Rle_trans; [apply (iter_converges 10 phi _ Hphi)|].
  pose proof (guess_range (latiso E phi)) as Hg.
  assert (0 <= K ^ 10) by (apply pow_le, K_nonneg).
  apply Rmult_le_compat_l; [assumption|]. apply Rabs_le. lra.
Qed.
End Conv.
Print Assumptions ten_steps_converge.

(* ---- with the constants of the code, in degrees ---- *)
From Interval Require Import Tactic.
From TL Require Import Proofs.CoordsDeg Proofs.LambertDeg.

Lemma K_code : K LE ^ 10 * 180 <= 1 / 10 ^ 18.
Proof. unfold K, LE. interval with (i_prec 100). Qed.

Theorem l93_lat_converges lon lat : -90 < lat < 90 ->
  Rabs (snd (let '(X, Y) := to_l93 lon lat in from_l93 X Y) - lat) <= 1 / 10 ^ 18.
Proof.
  intros Hlat. pose proof PI_RGT_0 as Hpi.
  pose proof (l93_latiso_exact lon lat) as HL. unfold to_l93 in *. unfold from_l93.
  destruct (to_lambert LE LXp LYp Ln LC Ll0 (d2r lon) (d2r lat)) as [X Y]. cbn [snd].
  unfold inv_phi. rewrite HL.
  assert (Hr : - (PI / 2) < d2r lat < PI / 2) by (unfold d2r; split; nra).
  pose proof (ten_steps_converge LE LE_range (d2r lat) Hr) as Hc.
  set (p := inv_iter LE 10 (latiso LE (d2r lat)) (2 * atan (exp (latiso LE (d2r lat))) - PI / 2)) in *.
  replace (p * 180 / PI - lat) with ((p - d2r lat) * (180 / PI)) by (unfold d2r; field; lra).
  rewrite Rabs_mult, (Rabs_pos_eq (180 / PI)) by (apply Rlt_le, Rdiv_lt_0_compat; lra).
  apply Rle_trans with (K LE ^ 10 * PI * (180 / PI)).
  - apply Rmult_le_compat_r; [apply Rlt_le, Rdiv_lt_0_compat; lra | exact Hc].
  - replace (K LE ^ 10 * PI * (180 / PI)) with (K LE ^ 10 * 180) by (field; lra). exact K_code.
Qed.

(* the whole Lambert-93 round trip, for every point of the zone: longitude exact, latitude to 1e-18 degree *)
Theorem l93_roundtrip lon lat : -90 < lat < 90 -> - (PI / 2) < Ln * (d2r lon - Ll0) < PI / 2 ->
  let back := (let '(X, Y) := to_l93 lon lat in from_l93 X Y) in fst back = lon /\ Rabs (snd back - lat) <= 1 / 10 ^ 18.
Proof. intros Hlat Hlon. split; [exact (l93_lon_exact lon lat Hlon) | exact (l93_lat_converges lon lat Hlat)]. Qed.
Print Assumptions l93_roundtrip.
