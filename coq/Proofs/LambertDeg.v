(* Lambert-93 with the constants of obs_coords.py, in degrees, and the staging tactic of the pointwise enclosures *)
From Coq Require Import Reals Lra.
From Interval Require Import Tactic.
From TL Require Import Proofs.CoordsDeg Proofs.Lambert.
Open Scope R_scope.

Definition LE : R := 8181919106 / 100000000000.            (* 0.08181919106 *)
Definition LXp : R := 700000.
Definition LYp : R := 12655612050 / 1000.                  (* 12655612.050 *)
Definition Ln : R := 725607765053267 / 1000000000000000.   (* 0.725607765053267 *)
Definition LC : R := 117542554260960 / 10000000.           (* 11754255.4260960 *)
Definition Ll0 : R := 523598775598299 / 10000000000000000. (* 0.0523598775598299 *)
Lemma LE_range : 0 <= LE < 1. Proof. unfold LE. lra. Qed.
Lemma Ln_pos : 0 < Ln. Proof. unfold Ln. lra. Qed.
Lemma LC_pos : 0 < LC. Proof. unfold LC. lra. Qed.

(* _projToLambert93: degrees in, metres out; __projFromLambert93: metres in, degrees out (lon * 180 / pi) *)
Definition to_l93 (lon lat : R) : R * R := to_lambert LE LXp LYp Ln LC Ll0 (d2r lon) (d2r lat).
Definition from_l93 (X Y : R) : R * R := (inv_lon LXp LYp Ln Ll0 X Y * 180 / PI, inv_phi LE LXp LYp Ln LC X Y * 180 / PI).

Lemma back_deg x : d2r x * 180 / PI = x.
Proof. unfold d2r. pose proof PI_RGT_0. field. lra. Qed.

(* the inverse recovers the longitude exactly on the whole zone (|n (lon - lambda0)| < pi/2, i.e. more than 120 degrees either side of 3 E) *)
Theorem l93_lon_exact lon lat : - (PI / 2) < Ln * (d2r lon - Ll0) < PI / 2 ->
  fst (let '(X, Y) := to_l93 lon lat in from_l93 X Y) = lon.
Proof.
  intros H. unfold to_l93, from_l93.
  pose proof (lambert_lon_exact LE LXp LYp Ln LC Ll0 Ln_pos LC_pos (d2r lon) (d2r lat) H) as Hl.
  destruct (to_lambert LE LXp LYp Ln LC Ll0 (d2r lon) (d2r lat)) as [X Y]. cbn [fst]. rewrite Hl. apply back_deg.
Qed.

(* the isometric latitude is recovered exactly, and the latitude is a fixed point of the ten iterations run from there *)
Theorem l93_latiso_exact lon lat :
  let '(X, Y) := to_l93 lon lat in inv_latiso LXp LYp Ln LC X Y = latiso LE (d2r lat).
Proof. exact (lambert_latiso_exact LE LXp LYp Ln LC Ll0 Ln_pos LC_pos (d2r lon) (d2r lat)). Qed.

Theorem l93_lat_fixpoint lat k : -90 < lat < 90 -> inv_iter LE k (latiso LE (d2r lat)) (d2r lat) * 180 / PI = lat.
Proof.
  intros H. pose proof PI_RGT_0 as Hpi. rewrite (lambert_iter_fixpoint LE LE_range k (d2r lat)) by (unfold d2r; split; nra). apply back_deg.
Qed.

(* ---- staging of the ten iterations for Coq-Interval ---- *)
Ltac lconsts := unfold LE, LXp, LYp, Ln, LC, Ll0, d2r in *.
Ltac liv := lconsts; interval with (i_prec 90).
Ltac lencl H := match type of H with ?t = ?v => let I := fresh "I" in interval_intro t with (i_prec 90) as I; rewrite H in I; clear H end.
Ltac stage_step :=
  match goal with |- context [inv_step ?E ?L ?p] => is_var p; is_var L;
    let q := fresh "p" in let Hq := fresh "Hq" in
    remember (inv_step E L p) as q eqn:Hq; symmetry in Hq; unfold inv_step, Rpower in Hq; lconsts; lencl Hq end.
