(* str.replace as a left-to-right scan: unfolding equations independent of the fuel, and distribution over a
   concatenation across which no occurrence of the pattern can straddle *)
From Coq Require Import List Ascii Bool Arith Lia.
Import ListNotations.
From TL Require Import Model.Str.

Lemma prefix_length : forall p s, prefix p s = true -> List.length p <= List.length s.
Proof. induction p as [|a p IH]; intros [|b s] H; cbn in *; try lia; try discriminate. apply andb_prop in H. destruct H as [_ H]. specialize (IH s H). lia. Qed.

Lemma prefix_app_l : forall p a b, prefix p a = true -> prefix p (a ++ b) = true.
Proof. induction p as [|x p IH]; intros [|y a] b H; cbn in *; try reflexivity; try discriminate. apply andb_prop in H. destruct H as [H1 H2]. rewrite H1, (IH a b H2). reflexivity. Qed.

Section Rep.
Variables pat rep : str.
Hypothesis Hpat : pat <> [].

Lemma pat_pos : 0 < List.length pat.
Proof. destruct pat; [congruence | cbn; lia]. Qed.

Lemma fuel_indep : forall f1 f2 s, List.length s < f1 -> List.length s < f2 -> replace_fuel f1 pat rep s = replace_fuel f2 pat rep s.
Proof.
  induction f1 as [|f1 IH]; intros f2 s H1 H2; [lia|]. destruct f2 as [|f2]; [lia|]. destruct s as [|c r]; [reflexivity|].
  cbn [replace_fuel]. pose proof pat_pos as Hn. destruct (prefix pat (c :: r)) eqn:E.
  - f_equal. pose proof (prefix_length _ _ E) as Hl. apply IH; rewrite skipn_length; cbn [List.length] in *; lia.
  - f_equal. apply IH; cbn [List.length] in *; lia.
Qed.

Definition R (s : str) : str := replace pat rep s.

Lemma R_nil : R [] = [].
Proof. reflexivity. Qed.
Lemma R_hit s : s <> [] -> prefix pat s = true -> R s = rep ++ R (skipn (List.length pat) s).
Proof.
  intros Hs E. destruct s as [|c r]; [congruence|]. unfold R at 1. unfold replace at 1. cbn [replace_fuel]. rewrite E. f_equal.
  unfold R, replace. pose proof pat_pos. pose proof (prefix_length _ _ E). apply fuel_indep; rewrite ?skipn_length; cbn [List.length] in *; lia.
Qed.
Lemma R_miss c r : prefix pat (c :: r) = false -> R (c :: r) = c :: R r.
Proof.
  intros E. unfold R at 1. unfold replace at 1. cbn [replace_fuel]. rewrite E. reflexivity.
Qed.

(* every occurrence that starts inside a lies entirely inside a *)
Definition no_straddle (a b : str) : Prop := forall a1 a2, a = a1 ++ a2 -> a2 <> [] -> prefix pat (a2 ++ b) = true -> prefix pat a2 = true.

Lemma no_straddle_tail c a b : no_straddle (c :: a) b -> no_straddle a b.
Proof. intros H a1 a2 E. apply (H (c :: a1) a2). rewrite E. reflexivity. Qed.
Lemma no_straddle_skip n a b : no_straddle a b -> no_straddle (skipn n a) b.
Proof. intros H a1 a2 E. apply (H (firstn n a ++ a1) a2). rewrite <- app_assoc, <- E. symmetry. apply firstn_skipn. Qed.

Theorem R_app : forall a b, no_straddle a b -> R (a ++ b) = R a ++ R b.
Proof.
  intros a. remember (List.length a) as n eqn:Hn. revert a Hn. induction n as [n IH] using lt_wf_ind. intros a Hn b Hs.
  destruct a as [|c a']; [reflexivity|].
  destruct (prefix pat ((c :: a') ++ b)) eqn:E.
  - pose proof (Hs [] (c :: a') eq_refl ltac:(discriminate) E) as Ea.
    rewrite (R_hit ((c :: a') ++ b) ltac:(discriminate) E), (R_hit (c :: a') ltac:(discriminate) Ea), <- app_assoc. f_equal.
    pose proof (prefix_length _ _ Ea) as Hl. pose proof pat_pos as Hp.
    rewrite skipn_app. replace (List.length pat - List.length (c :: a')) with 0 by lia. cbn [skipn].
    apply (IH (List.length (skipn (List.length pat) (c :: a')))); [rewrite skipn_length; subst n; cbn [List.length] in *; lia | reflexivity | apply no_straddle_skip; exact Hs].
  - assert (Ea : prefix pat (c :: a') = false).
    { destruct (prefix pat (c :: a')) eqn:E'; [|reflexivity]. rewrite (prefix_app_l _ _ b E') in E. discriminate. }
    cbn [app] in E |- *. rewrite (R_miss c (a' ++ b) E), (R_miss c a' Ea). cbn [app]. f_equal.
    apply (IH (List.length a')); [subst n; cbn; lia | reflexivity | apply (no_straddle_tail c); exact Hs].
Qed.

Lemma R_id s : contains pat s = false -> R s = s.
Proof.
  unfold R, replace. generalize (S (List.length s)). intros f. revert s. induction f as [|f IH]; intros s H; [reflexivity|].
  destruct s as [|c r]; [reflexivity|]. cbn [replace_fuel]. cbn [contains] in H. apply orb_false_elim in H. destruct H as [H1 H2].
  rewrite H1. f_equal. apply IH. exact H2.
Qed.
End Rep.
