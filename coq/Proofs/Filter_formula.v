(* Spike: C15 — the filter output is the weighted mean over the samples that are inside the track and not NaN,
   the weights being renormalised over exactly those samples *)
From Coq Require Import List Arith QArith Bool Lia Lqa.
Import ListNotations.
From TL Require Import Model.Filter.
Open Scope Q_scope.

(* the (value, weight) pairs the window of output index i actually uses, kernel positions j0, j0+1, ... *)
Fixpoint terms (x : list val) (k : list Q) (D i j : nat) : list (Q * Q) :=
  match k with
  | [] => []
  | kj :: r =>
    (if (i + D <? j)%nat then [] else if (length x <=? i + D - j)%nat then []
     else match nth (i + D - j) x None with None => [] | Some v => [(v, kj)] end) ++ terms x r D i (S j)
  end.

Definition wsum (l : list (Q * Q)) : Q := fold_right (fun p s => fst p * snd p + s) 0 l.
Definition ksum (l : list (Q * Q)) : Q := fold_right (fun p s => snd p + s) 0 l.

Lemma wsum_app a b : wsum (a ++ b) == wsum a + wsum b.
Proof. unfold wsum. induction a as [|p a IH]; cbn [app fold_right]; [lra | rewrite IH; lra]. Qed.
Lemma ksum_app a b : ksum (a ++ b) == ksum a + ksum b.
Proof. unfold ksum. induction a as [|p a IH]; cbn [app fold_right]; [lra | rewrite IH; lra]. Qed.

Lemma window_terms x D i : forall k j acc,
  fst (window x k D i j acc) == fst acc + wsum (terms x k D i j) /\
  snd (window x k D i j acc) == snd acc + ksum (terms x k D i j).
Proof.
  induction k as [|kj r IH]; intros j acc; cbn [window terms].
  - cbn. split; lra.
  - rewrite wsum_app, ksum_app.
    destruct (i + D <? j)%nat; [destruct (IH (S j) acc) as [A B]; rewrite A, B; cbn; split; lra|].
    destruct (length x <=? i + D - j)%nat; [destruct (IH (S j) acc) as [A B]; rewrite A, B; cbn; split; lra|].
    destruct (nth (i + D - j) x None) as [v|].
    + destruct (IH (S j) (fst acc + v * kj, snd acc + kj)) as [A B]. rewrite A, B. cbn. split; lra.
    + destruct (IH (S j) acc) as [A B]. rewrite A, B. cbn. split; lra.
Qed.

Theorem filter_formula x k i q : filter_at x k i = Val q ->
  let T := terms x k (length k / 2) i 0 in q == wsum T / ksum T /\ ~ ksum T == 0.
Proof.
  unfold filter_at. destruct (window_terms x (length k / 2) i k 0%nat (0, 0)) as [A B].
  destruct (window x k (length k / 2) i 0 (0, 0)) as [t norm]. cbn [fst snd] in A, B.
  destruct (Qeq_bool norm 0) eqn:E; [discriminate|]. intros [= <-]. apply Qeq_bool_neq in E.
  cbv zeta. assert (En : norm == ksum (terms x k (length k / 2) i 0)) by lra.
  split; [|rewrite <- En; assumption].
  assert (Et : t == wsum (terms x k (length k / 2) i 0)) by lra. rewrite Et, En. reflexivity.
Qed.
Print Assumptions filter_formula.
