(* C03: a fractional instant converts to a well-formed timestamp denoting the same instant to within one millisecond *)
From Coq Require Import List ZArith QArith Qround Bool Lia Lqa.
From TL Require Import Model.ObsTime Model.ObsTimeQ Proofs.ObsTime_rt Proofs.ObsTime_ord.
Open Scope Z_scope.

Lemma frac_ms_range (x : Q) :
  0 <= Qfloor ((x - inject_Z (Qfloor x)) * 1000)%Q < 1000.
Proof.
  pose proof (Qfloor_le x) as H1. pose proof (Qlt_floor x) as H2.
  set (s := Qfloor x) in *.
  assert (A : (0 <= (x - inject_Z s) * 1000)%Q) by lra.
  assert (B : ((x - inject_Z s) * 1000 < 1000)%Q).
  { rewrite inject_Z_plus in H2. change (inject_Z 1) with 1%Q in H2. lra. }
  split.
  - change 0 with (Qfloor 0). apply Qfloor_resp_le. exact A.
  - assert (Qfloor ((x - inject_Z s) * 1000) <= Qfloor (inject_Z 999 + (1 - 1))%Q \/ True) by (right; exact I).
    destruct (Z_lt_le_dec (Qfloor ((x - inject_Z s) * 1000)%Q) 1000) as [L|L]; [exact L|].
    exfalso. pose proof (Qfloor_le ((x - inject_Z s) * 1000)%Q) as F.
    assert ((inject_Z 1000 <= inject_Z (Qfloor ((x - inject_Z s) * 1000)))%Q) by (rewrite <- Zle_Qle; exact L).
    change (inject_Z 1000) with 1000%Q in H0. lra.
Qed.

Theorem read_unix_q_ok (x : Q) : (0 <= x)%Q ->
  wf (read_unix_q x) = true /\ 1970 <= year (read_unix_q x) /\
  (inject_Z (to_abs_ms (read_unix_q x)) <= x * 1000 < inject_Z (to_abs_ms (read_unix_q x)) + 1)%Q.
Proof.
  intros Hx.
  assert (Hs : 0 <= Qfloor x) by (change 0 with (Qfloor 0); apply Qfloor_resp_le; exact Hx).
  destruct (read_unix_wf_abs (Qfloor x) Hs) as [W [A Y]].
  pose proof (frac_ms_range x) as R.
  split; [|split].
  - unfold wf in *. unfold read_unix_q. cbn [year month day hour minute sec ms] in *.
    apply andb_prop in W. destruct W as [W _]. apply andb_prop in W. destruct W as [W _]. rewrite W. cbn [andb].
    apply andb_true_intro. split; [apply Z.leb_le | apply Z.ltb_lt]; lia.
  - exact Y.
  - unfold to_abs_ms. assert (E : to_abs (read_unix_q x) = Qfloor x) by (etransitivity; [|exact A]; reflexivity).
    rewrite E. cbn [ms read_unix_q].
    set (s := Qfloor x) in *. set (m := Qfloor ((x - inject_Z s) * 1000)%Q) in *.
    pose proof (Qfloor_le ((x - inject_Z s) * 1000)%Q) as F1.
    pose proof (Qlt_floor ((x - inject_Z s) * 1000)%Q) as F2. fold m in F1, F2.
    rewrite inject_Z_plus in F2 |- *. rewrite inject_Z_mult. change (inject_Z 1) with 1%Q in *.
    change (inject_Z 1000) with 1000%Q. split; lra.
Qed.
Print Assumptions read_unix_q_ok.

(* whole instants: the fractional entry agrees with the integer one *)
Lemma read_unix_q_whole (s : Z) : read_unix_q (inject_Z s) = read_unix s.
Proof.
  unfold read_unix_q. rewrite Qfloor_Z.
  replace (Qfloor ((inject_Z s - inject_Z s) * 1000)%Q) with 0.
  - pose proof (read_unix_ms s) as M. destruct (read_unix s); cbn in *. subst. reflexivity.
  - symmetry. assert (E : ((inject_Z s - inject_Z s) * 1000 == 0)%Q) by ring. rewrite E. reflexivity.
Qed.
