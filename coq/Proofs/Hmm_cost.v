From Coq Require Import List Arith QArith Bool Lia Lqa.
Import ListNotations.
From TL Require Import Model.Hmm Proofs.Hmm_inner.
Open Scope Q_scope.

Lemma nth_map_seq {A} (f : nat -> A) n l d : (l < n)%nat -> nth l (map f (seq 0 n)) d = f l.
Proof.
  intros H. rewrite nth_indep with (d' := f 0%nat) by (rewrite map_length, seq_length; assumption).
  rewrite (map_nth f (seq 0 n) 0%nat l). rewrite seq_nth by assumption. reflexivity.
Qed.

Definition valid (es : list epoch) (s : list nat) : Prop := Forall2 (fun e l => (l < nstates e)%nat) es s.

Lemma seq_cost_snoc : forall es e s l prev, length es = length s ->
  seq_cost prev (es ++ [e]) (s ++ [l]) == seq_cost prev es s + qcost e (last s prev) l + pcost e l.
Proof.
  induction es as [|e1 es IH]; intros e s l prev Hlen; destruct s as [|x s]; simpl in Hlen; try discriminate.
  - simpl. lra.
  - cbn [app seq_cost]. rewrite IH by lia.
    assert (E : last (x :: s) prev = last s x) by (clear; revert x; induction s as [|y s IH]; intros x; [reflexivity | simpl in *; destruct s; [reflexivity | apply IH]]).
    rewrite E. lra.
Qed.

Lemma total_cost_snoc e0 es e s l : length (e0 :: es) = length s ->
  total_cost e0 (es ++ [e]) (s ++ [l]) == total_cost e0 es s + qcost e (last s 0%nat) l + pcost e l.
Proof.
  intros Hlen. destruct s as [|x s]; simpl in Hlen; [discriminate|].
  cbn [app total_cost]. rewrite seq_cost_snoc by lia.
  assert (E : last (x :: s) 0%nat = last s x) by (clear; revert x; induction s as [|y s IH]; intros x; [reflexivity | simpl in *; destruct s; [reflexivity | apply IH]]).
  rewrite E. lra.
Qed.

Lemma valid_snoc_inv es e s : valid (es ++ [e]) s ->
  exists s' l, s = s' ++ [l] /\ valid es s' /\ (l < nstates e)%nat.
Proof.
  intros H. apply Forall2_app_inv_l in H. destruct H as [s' [t [H1 [H2 E]]]].
  inversion H2 as [|e' l es' t' Hl Ht]; subst. inversion Ht; subst.
  exists s', l. split; [reflexivity | split; assumption].
Qed.

Lemma valid_length es s : valid es s -> length es = length s.
Proof. unfold valid. induction 1; simpl; congruence. Qed.

(* no partial path reaches the sentinel *)
Definition bounded (e0 : epoch) (es : list epoch) : Prop :=
  forall k s l, valid (e0 :: firstn k es) s -> (k < length es)%nat ->
    total_cost e0 (firstn k es) s + qcost (nth k es e0) (last s 0%nat) l < BIG.

(* invariant on the stack of columns (most recent first) after the epochs [done] *)
Record ColInv (e0 : epoch) (done : list epoch) (cols : list (list (Q * nat))) : Prop := {
  ci_len : length cols = S (length done);
  ci_col : forall d, length (hd d cols) = nstates (last done e0);
  ci_path : forall l d, (l < nstates (last done e0))%nat ->
     let s := rev (backward cols l) in
     valid (e0 :: done) s /\ last s 0%nat = l /\
     total_cost e0 done s == fst (nth l (hd d cols) (0, 0%nat)) /\
     forall s', valid (e0 :: done) s' -> last s' 0%nat = l ->
        fst (nth l (hd d cols) (0, 0%nat)) <= total_cost e0 done s'
}.

Lemma colinv_init e0 :
  ColInv e0 [] [map (fun l => (pcost e0 l, 0%nat)) (seq 0 (nstates e0))].
Proof.
  constructor.
  - reflexivity.
  - intros d. simpl. rewrite map_length, seq_length. reflexivity.
  - intros l d Hl. cbn [backward rev app hd].
    assert (En : forall dd, nth l (map (fun l0 : nat => (pcost e0 l0, 0%nat)) (seq 0 (nstates e0))) dd = (pcost e0 l, 0%nat)).
    { intros dd. apply (nth_map_seq (fun l0 : nat => (pcost e0 l0, 0%nat))). exact Hl. }
    simpl in Hl. split; [|split; [reflexivity|split]].
    + repeat constructor. assumption.
    + rewrite En. simpl. lra.
    + intros s' Hv Hlast. destruct s' as [|x [|y s']].
      * inversion Hv.
      * simpl in Hlast. subst x. rewrite En. simpl. lra.
      * inversion Hv as [|? ? ? ? ? Ht]. inversion Ht.
Qed.
