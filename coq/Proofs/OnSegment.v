(* Spike: C10 — for a point on a segment the distances to the two ends add up to the segment length, hence
   __distToNode(…, 0) + __distToNode(…, 1) is the edge length *)
From Coq Require Import Reals Lra Psatz List.
Import ListNotations.
Open Scope R_scope.

Definition dist (x1 y1 x2 y2 : R) : R := sqrt ((x2 - x1) * (x2 - x1) + (y2 - y1) * (y2 - y1)).

Lemma dist_scale ax ay bx by_ mu : 0 <= mu ->
  dist ax ay (ax + mu * (bx - ax)) (ay + mu * (by_ - ay)) = mu * dist ax ay bx by_.
Proof.
  intros Hmu. unfold dist.
  replace ((ax + mu * (bx - ax) - ax) * (ax + mu * (bx - ax) - ax) + (ay + mu * (by_ - ay) - ay) * (ay + mu * (by_ - ay) - ay))
    with ((mu * mu) * ((bx - ax) * (bx - ax) + (by_ - ay) * (by_ - ay))) by ring.
  rewrite sqrt_mult_alt by nra. rewrite sqrt_square by assumption. reflexivity.
Qed.

Lemma dist_sym x1 y1 x2 y2 : dist x1 y1 x2 y2 = dist x2 y2 x1 y1.
Proof. unfold dist. f_equal. ring. Qed.

Theorem on_segment_additive ax ay bx by_ mu : 0 <= mu <= 1 ->
  let px := ax + mu * (bx - ax) in let py := ay + mu * (by_ - ay) in
  dist ax ay px py + dist bx by_ px py = dist ax ay bx by_.
Proof.
  intros [H0 H1] px py. unfold px, py. rewrite dist_scale by assumption.
  replace (ax + mu * (bx - ax)) with (bx + (1 - mu) * (ax - bx)) by ring.
  replace (ay + mu * (by_ - ay)) with (by_ + (1 - mu) * (ay - by_)) by ring.
  rewrite dist_scale by lra. rewrite (dist_sym bx by_ ax ay). ring.
Qed.

(* __distToNode with the abscissa column s of the edge polyline: d0 + d1 = total length *)
Theorem dist_to_node_sum (s_v s_v1 s_last ax ay bx by_ mu : R) : 0 <= mu <= 1 ->
  s_v1 - s_v = dist ax ay bx by_ ->
  let px := ax + mu * (bx - ax) in let py := ay + mu * (by_ - ay) in
  (s_v + dist ax ay px py) + (s_last - s_v1 + dist bx by_ px py) = s_last.
Proof. intros Hmu Hs px py. pose proof (on_segment_additive ax ay bx by_ mu Hmu) as H. cbv zeta in H. unfold px, py. lra. Qed.
Print Assumptions dist_to_node_sum.
