From Coq Require Import List Arith ZArith QArith Bool Lia Lqa.
Import ListNotations.
From TL Require Import Model.Graph.
Open Scope Q_scope.

Inductive walk (g : graph) : nat -> nat -> list edge -> Prop :=
| walk_nil u : walk g u u []
| walk_cons u e p t : In e (next_edges g u) -> walk g (fils e u) t p -> walk g u t (e :: p).

Definition cost (p : list edge) : Q := fold_right (fun e a => ew e + a) 0 p.

Lemma cost_app p q : cost (p ++ q) == cost p + cost q.
Proof. induction p as [|e p IH]; simpl; [lra | rewrite IH; lra]. Qed.

Lemma walk_snoc g u v p e : walk g u v p -> In e (next_edges g v) -> walk g u (fils e v) (p ++ [e]).
Proof.
  induction 1 as [u|u e0 p t He0 Hw IH]; intros He; simpl.
  - apply walk_cons; [assumption | apply walk_nil].
  - apply walk_cons; [assumption | apply IH; assumption].
Qed.

Lemma upd_same {A} (f : nat -> A) k v : upd f k v k = v.
Proof. unfold upd. rewrite Nat.eqb_refl. reflexivity. Qed.
Lemma upd_other {A} (f : nat -> A) k v x : x <> k -> upd f k v x = f x.
Proof. unfold upd. intros H. destruct (Nat.eqb_spec x k); [contradiction | reflexivity]. Qed.

Lemma in_remove_nat k l x : In x (remove_nat k l) <-> In x l /\ x <> k.
Proof.
  induction l as [|y r IH]; simpl; [tauto|].
  destruct (Nat.eqb_spec y k) as [->|Hne]; simpl; rewrite IH; intuition congruence.
Qed.

Definition nonneg (g : graph) : Prop := forall e, In e g -> 0 <= ew e.

Lemma next_edges_in g u e : In e (next_edges g u) -> In e g.
Proof.
  unfold next_edges. rewrite in_flat_map. intros [x [Hx He]]. unfold next_of in He.
  apply in_app_or in He. destruct He as [He|He];
  [destruct (_ && _) in He | destruct (_ && _) in He]; simpl in He; intuition congruence.
Qed.

Record Inv (g : graph) (src : nat) (s : st) : Prop := {
  i_src : exists d0, poids s src = Some d0 /\ d0 <= 0;
  i_S : forall v d, poids s v = Some d -> exists p, walk g src v p /\ cost p == d;
  i_Q1 : forall v, In v (fil s) -> visite s v = false /\ poids s v <> None;
  i_Q2 : forall v, poids s v <> None -> visite s v = false -> In v (fil s);
  i_V : forall u, visite s u = true -> poids s u <> None;
  i_C : forall u e du, visite s u = true -> poids s u = Some du -> In e (next_edges g u) ->
        exists dv, poids s (fils e u) = Some dv /\ dv <= du + ew e;
  i_M : forall u v du dv, visite s u = true -> visite s v = false ->
        poids s u = Some du -> poids s v = Some dv -> du <= dv
}.

Lemma inv_init g src : Inv g src (init src).
Proof.
  constructor; unfold init; simpl.
  - exists 0. rewrite upd_same. split; [reflexivity | lra].
  - intros v d. unfold upd. destruct (Nat.eqb_spec v src) as [->|]; [|discriminate].
    intros [= <-]. exists []. split; [apply walk_nil | simpl; lra].
  - intros v [<-|[]]. rewrite upd_same. split; [reflexivity | discriminate].
  - intros v. unfold upd. destruct (Nat.eqb_spec v src) as [->|]; [left; reflexivity | congruence].
  - discriminate.
  - discriminate.
  - discriminate.
Qed.

(* ---------- argmin ---------- *)
Lemma argmin_in p b l : argmin p b l = b \/ In (argmin p b l) l.
Proof.
  revert b. induction l as [|x r IH]; intros b; simpl; [left; reflexivity|].
  destruct (IH (if prio_lt p x b then x else b)) as [H|H].
  - rewrite H. destruct (prio_lt p x b); [right; left; reflexivity | left; reflexivity].
  - right; right; assumption.
Qed.

Definition le_opt (p : nat -> option Q) (a b : nat) : Prop :=
  forall da db, p a = Some da -> p b = Some db -> da <= db.

Lemma prio_lt_le p a b : prio_lt p a b = true -> le_opt p a b.
Proof.
  unfold prio_lt, le_opt. intros H da db Ha Hb. rewrite Ha, Hb in H.
  destruct (Qlt_le_dec da db); [lra|]. destruct (Qlt_le_dec db da); [discriminate | lra].
Qed.
Lemma prio_lt_false_le p a b : p b <> None -> prio_lt p a b = false -> le_opt p b a.
Proof.
  unfold prio_lt, le_opt. intros Hb H db da Hb' Ha. rewrite Ha, Hb' in H.
  destruct (Qlt_le_dec da db); [discriminate | lra].
Qed.

Lemma argmin_min p b l :
  p b <> None -> (forall x, In x l -> p x <> None) ->
  p (argmin p b l) <> None /\ le_opt p (argmin p b l) b /\ forall x, In x l -> le_opt p (argmin p b l) x.
Proof.
  revert b. induction l as [|x r IH]; intros b Hb Hl; simpl.
  - split; [assumption|]. split; [|intros x []]. intros da db Ha Hb'. rewrite Ha in Hb'. injection Hb' as <-. lra.
  - assert (Hx : p x <> None) by (apply Hl; left; reflexivity).
    destruct (prio_lt p x b) eqn:E.
    + destruct (IH x Hx (fun y Hy => Hl y (or_intror Hy))) as [H1 [H2 H3]].
      split; [assumption|]. split.
      * intros da db Ha Hb'. destruct (p x) as [dx|] eqn:Ex; [|congruence].
        specialize (H2 da dx Ha Ex). pose proof (prio_lt_le p x b E dx db Ex Hb'). lra.
      * intros y [<-|Hy]; [assumption | apply H3; assumption].
    + destruct (IH b Hb (fun y Hy => Hl y (or_intror Hy))) as [H1 [H2 H3]].
      split; [assumption|]. split; [assumption|].
      intros y [Hyx|Hy]; [subst y|apply H3; assumption].
      intros da dy Ha Hy. destruct (p b) as [db|] eqn:Eb; [|congruence].
      specialize (H2 da db Ha Eb).
      assert (Hb'' : p b <> None) by congruence.
      pose proof (prio_lt_false_le p x b Hb'' E db dy Eb Hy). lra.
Qed.

Lemma pop_min_spec g src s u :
  Inv g src s -> pop_min s = Some u ->
  In u (fil s) /\ exists du, poids s u = Some du /\
     forall v dv, In v (fil s) -> poids s v = Some dv -> du <= dv.
Proof.
  intros HI. unfold pop_min. destruct (fil s) as [|x r] eqn:Ef; [discriminate|].
  intros [= <-].
  assert (Hall : forall y, In y (x :: r) -> poids s y <> None).
  { intros y Hy. rewrite <- Ef in Hy. apply (i_Q1 _ _ _ HI y Hy). }
  destruct (argmin_min (poids s) x r (Hall x (or_introl eq_refl)) (fun y Hy => Hall y (or_intror Hy))) as [H1 [H2 H3]].
  split.
  - destruct (argmin_in (poids s) x r) as [->|H]; [left; reflexivity | right; assumption].
  - destruct (poids s (argmin (poids s) x r)) as [du|] eqn:Eu; [|congruence].
    exists du. split; [reflexivity|]. intros v dv [<-|Hv] Hdv.
    + apply (H2 du dv Eu Hdv).
    + apply (H3 v Hv du dv Eu Hdv).
Qed.
