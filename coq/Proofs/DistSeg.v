(* Spike: C16 — the real instance of the generic distance_to_segment vanishes at both ends of a non-degenerate
   segment: the hypotheses dseg_a / dseg_b of dp_fuel and dp_ends hold for the function as coded *)
From Coq Require Import Reals Lra Psatz.
From TL Require Import Model.Num Model.SimplifyG.
Open Scope R_scope.

Lemma nmax_R a b : nmax RNum a b = Rmax a b.
Proof. unfold nmax, Rmax. cbn. unfold Rltb. destruct (Rlt_dec a b), (Rle_dec a b); lra. Qed.
Lemma nmin_R a b : nmin RNum a b = Rmin a b.
Proof. unfold nmin, Rmin. cbn. unfold Rltb. destruct (Rlt_dec b a), (Rle_dec a b); lra. Qed.

Lemma clamp_in v lo hi : lo <= v <= hi -> Rmin (Rmax v lo) hi = v.
Proof. intros [H1 H2]. rewrite Rmax_left by lra. rewrite Rmin_left by lra. reflexivity. Qed.

Lemma dseg_nd_at_a x1 y1 x2 y2 : distance_to_segment_nd RNum x1 y1 x1 y1 x2 y2 = 0.
Proof.
  unfold distance_to_segment_nd. rewrite !nmax_R, !nmin_R. cbn [add sub mul div sqrt RNum].
  set (l := R_sqrt.sqrt ((x2 - x1) * (x2 - x1) + (y2 - y1) * (y2 - y1))).
  replace ((x1 - x1) * (x2 - x1) + (y1 - y1) * (y2 - y1)) with 0 by ring.
  unfold Rdiv. rewrite !Rmult_0_l, !Rplus_0_r.
  rewrite (clamp_in x1) by (split; [apply Rmin_l | apply Rmax_l]).
  rewrite (clamp_in y1) by (split; [apply Rmin_l | apply Rmax_l]).
  replace ((x1 - x1) * (x1 - x1) + (y1 - y1) * (y1 - y1)) with 0 by ring. apply sqrt_0.
Qed.

Lemma dseg_nd_at_b x1 y1 x2 y2 : (x1, y1) <> (x2, y2) -> distance_to_segment_nd RNum x2 y2 x1 y1 x2 y2 = 0.
Proof.
  intros Hne. unfold distance_to_segment_nd. rewrite !nmax_R, !nmin_R. cbn [add sub mul div sqrt RNum].
  set (q := (x2 - x1) * (x2 - x1) + (y2 - y1) * (y2 - y1)). set (l := R_sqrt.sqrt q).
  assert (Hq : 0 < q).
  { unfold q. destruct (Req_dec x1 x2) as [Ex|Ex]; destruct (Req_dec y1 y2) as [Ey|Ey]; try nra. subst. contradiction Hne. reflexivity. }
  assert (Hl : 0 < l) by (apply sqrt_lt_R0; assumption).
  assert (Hll : l * l = q) by (apply sqrt_sqrt; lra).
  assert (E1 : q / l / l = 1) by (field_simplify; [rewrite <- Hll; field; lra | lra]).
  rewrite E1, !Rmult_1_l.
  replace (x1 + (x2 - x1)) with x2 by ring. replace (y1 + (y2 - y1)) with y2 by ring.
  rewrite (clamp_in x2) by (split; [apply Rmin_r | apply Rmax_r]).
  rewrite (clamp_in y2) by (split; [apply Rmin_r | apply Rmax_r]).
  replace ((x2 - x2) * (x2 - x2) + (y2 - y2) * (y2 - y2)) with 0 by ring. apply sqrt_0.
Qed.


(* ---- the coded function is the distance to the nearest point of the segment ---- *)
From TL Require Import Proofs.GeomAlg.

Definition clamp01 (t : R) : R := Rmin (Rmax t 0) 1.
Lemma clamp01_range t : 0 <= clamp01 t <= 1.
Proof. unfold clamp01, Rmin, Rmax. destruct (Rle_dec t 0); destruct (Rle_dec _ 1); lra. Qed.

Lemma clamp_coord x1 x2 t :
  Rmin (Rmax (x1 + t * (x2 - x1)) (Rmin x1 x2)) (Rmax x1 x2) = x1 + clamp01 t * (x2 - x1).
Proof.
  set (P := t * (x2 - x1)).
  assert (F : (0 <= x2 - x1 -> t <= 0 -> P <= 0) /\ (0 <= x2 - x1 -> 0 <= t -> 0 <= P) /\
              (0 <= x2 - x1 -> t <= 1 -> P <= x2 - x1) /\ (0 <= x2 - x1 -> 1 <= t -> x2 - x1 <= P) /\
              (x2 - x1 <= 0 -> t <= 0 -> 0 <= P) /\ (x2 - x1 <= 0 -> 0 <= t -> P <= 0) /\
              (x2 - x1 <= 0 -> t <= 1 -> x2 - x1 <= P) /\ (x2 - x1 <= 0 -> 1 <= t -> P <= x2 - x1)).
  { unfold P. repeat split; intros; nra. }
  destruct F as [F1 [F2 [F3 [F4 [F5 [F6 [F7 F8]]]]]]].
  unfold clamp01, Rmin, Rmax.
  destruct (Rle_dec x1 x2) as [X|X]; destruct (Rle_dec 0 (x2 - x1)) as [D|D]; try lra; destruct (Rle_dec t 0) as [T0|T0]; destruct (Rle_dec t 1) as [T1|T1];
    try (specialize (F1 ltac:(lra) ltac:(lra))); try (specialize (F2 ltac:(lra) ltac:(lra)));
    try (specialize (F3 ltac:(lra) ltac:(lra))); try (specialize (F4 ltac:(lra) ltac:(lra)));
    try (specialize (F5 ltac:(lra) ltac:(lra))); try (specialize (F6 ltac:(lra) ltac:(lra)));
    try (specialize (F7 ltac:(lra) ltac:(lra))); try (specialize (F8 ltac:(lra) ltac:(lra)));
    fold P; repeat match goal with |- context [Rle_dec ?a ?b] =>
      lazymatch a with context [Rle_dec _ _] => fail | _ => lazymatch b with context [Rle_dec _ _] => fail | _ => destruct (Rle_dec a b) end end end;
    try lra.
Qed.

Theorem distance_to_segment_nd_nearest x0 y0 x1 y1 x2 y2 : (x1, y1) <> (x2, y2) ->
  let d := distance_to_segment_nd RNum x0 y0 x1 y1 x2 y2 in
  (exists mu, 0 <= mu <= 1 /\ d = R_sqrt.sqrt ((x0 - (x1 + mu * (x2 - x1)))^2 + (y0 - (y1 + mu * (y2 - y1)))^2)) /\
  forall lam, 0 <= lam <= 1 -> d <= R_sqrt.sqrt ((x0 - (x1 + lam * (x2 - x1)))^2 + (y0 - (y1 + lam * (y2 - y1)))^2).
Proof.
  intros Hne d. unfold d, distance_to_segment_nd. rewrite !nmax_R, !nmin_R. cbn [add sub mul div sqrt RNum].
  set (q := (x2 - x1) * (x2 - x1) + (y2 - y1) * (y2 - y1)). set (l := R_sqrt.sqrt q).
  assert (Hq : 0 < q).
  { unfold q. destruct (Req_dec x1 x2) as [Ex|Ex]; destruct (Req_dec y1 y2) as [Ey|Ey]; try nra. subst. contradiction Hne. reflexivity. }
  assert (Hl : 0 < l) by (apply sqrt_lt_R0; assumption).
  assert (Hll : l * l = q) by (apply sqrt_sqrt; lra).
  set (dot := (x0 - x1) * (x2 - x1) + (y0 - y1) * (y2 - y1)).
  set (t := dot / l / l).
  assert (Ht : t * q = dot) by (unfold t; rewrite <- Hll; field; lra).
  rewrite !clamp_coord. set (c := clamp01 t). pose proof (clamp01_range t) as Hc. fold c in Hc.
  assert (Esq : forall m, (x0 - (x1 + m * (x2 - x1))) * (x0 - (x1 + m * (x2 - x1))) + (y0 - (y1 + m * (y2 - y1))) * (y0 - (y1 + m * (y2 - y1)))
                        = (x0 - (x1 + m * (x2 - x1)))^2 + (y0 - (y1 + m * (y2 - y1)))^2) by (intros; ring).
  rewrite Esq. split; [exists c; split; [assumption | reflexivity]|].
  intros lam Hlam. apply sqrt_le_1_alt.
  (* the clamped parameter minimises the squared distance over [0, 1] *)
  unfold c, clamp01, Rmin, Rmax. destruct (Rle_dec t 0) as [T0|T0].
  - destruct (Rle_dec 0 1); [|lra].
    pose proof (nearest_end x1 y1 x2 y2 x0 y0 t lam Hq Ht T0 Hlam) as H. cbv zeta in H.
    replace (x1 + 0 * (x2 - x1)) with x1 by ring. replace (y1 + 0 * (y2 - y1)) with y1 by ring. exact H.
  - destruct (Rle_dec t 1) as [T1|T1].
    + exact (nearest_foot x1 y1 x2 y2 x0 y0 t lam Ht).
    + assert (Ht' : (1 - t) * ((x1 - x2) * (x1 - x2) + (y1 - y2) * (y1 - y2)) = (x0 - x2) * (x1 - x2) + (y0 - y2) * (y1 - y2)).
      { unfold q, dot in Ht. nra. }
      assert (Hq' : 0 < (x1 - x2) * (x1 - x2) + (y1 - y2) * (y1 - y2)) by (unfold q in Hq; nra).
      pose proof (nearest_end x2 y2 x1 y1 x0 y0 (1 - t) (1 - lam) Hq' Ht' ltac:(lra) ltac:(lra)) as H. cbv zeta in H.
      replace (x1 + 1 * (x2 - x1)) with x2 by ring. replace (y1 + 1 * (y2 - y1)) with y2 by ring.
      replace (x2 + (1 - lam) * (x1 - x2)) with (x1 + lam * (x2 - x1)) in H by ring.
      replace (y2 + (1 - lam) * (y1 - y2)) with (y1 + lam * (y2 - y1)) in H by ring. exact H.
Qed.


(* ---- the function with its degenerate-chord branch ---- *)
Lemma chord_zero_iff x1 y1 x2 y2 :
  R_sqrt.sqrt ((x2 - x1) * (x2 - x1) + (y2 - y1) * (y2 - y1)) = 0 <-> (x1, y1) = (x2, y2).
Proof.
  split.
  - intros H.
    pose proof (Rle_0_sqr (x2 - x1)) as S1. pose proof (Rle_0_sqr (y2 - y1)) as S2. unfold Rsqr in S1, S2.
    assert (Hq : (x2 - x1) * (x2 - x1) + (y2 - y1) * (y2 - y1) = 0) by (apply sqrt_eq_0; [lra | exact H]).
    assert (A : (x2 - x1) * (x2 - x1) = 0) by lra. assert (B : (y2 - y1) * (y2 - y1) = 0) by lra.
    apply Rmult_integral in A. apply Rmult_integral in B. f_equal; lra.
  - intros E. injection E as E1 E2. subst x1 y1. replace ((x2 - x2) * (x2 - x2) + (y2 - y2) * (y2 - y2)) with 0 by ring. apply sqrt_0.
Qed.

Lemma dts_nondeg x0 y0 x1 y1 x2 y2 : (x1, y1) <> (x2, y2) ->
  distance_to_segment RNum x0 y0 x1 y1 x2 y2 = distance_to_segment_nd RNum x0 y0 x1 y1 x2 y2.
Proof.
  intros Hne. unfold distance_to_segment. cbn [add sub mul div sqrt eqb zero RNum]. unfold Reqb.
  destruct (Req_EM_T _ 0) as [E|E]; [|reflexivity]. apply chord_zero_iff in E. contradiction.
Qed.

Lemma dts_deg x0 y0 x1 y1 :
  distance_to_segment RNum x0 y0 x1 y1 x1 y1 = R_sqrt.sqrt ((x0 - x1) * (x0 - x1) + (y0 - y1) * (y0 - y1)).
Proof.
  unfold distance_to_segment. cbn [add sub mul div sqrt eqb zero RNum]. unfold Reqb.
  destruct (Req_EM_T _ 0) as [E|E]; [reflexivity|]. exfalso. apply E. apply chord_zero_iff. reflexivity.
Qed.

Lemma dseg_at_a x1 y1 x2 y2 : distance_to_segment RNum x1 y1 x1 y1 x2 y2 = 0.
Proof.
  destruct (Req_dec x1 x2) as [Ex|Ex]; [destruct (Req_dec y1 y2) as [Ey|Ey]|].
  - subst. rewrite dts_deg. replace ((x2 - x2) * (x2 - x2) + (y2 - y2) * (y2 - y2)) with 0 by ring. apply sqrt_0.
  - rewrite dts_nondeg by (intros [= _ E]; contradiction). apply dseg_nd_at_a.
  - rewrite dts_nondeg by (intros [= E _]; contradiction). apply dseg_nd_at_a.
Qed.

Lemma dseg_at_b x1 y1 x2 y2 : distance_to_segment RNum x2 y2 x1 y1 x2 y2 = 0.
Proof.
  destruct (Req_dec x1 x2) as [Ex|Ex]; [destruct (Req_dec y1 y2) as [Ey|Ey]|].
  - subst. rewrite dts_deg. replace ((x2 - x2) * (x2 - x2) + (y2 - y2) * (y2 - y2)) with 0 by ring. apply sqrt_0.
  - rewrite dts_nondeg by (intros [= _ E]; contradiction). apply dseg_nd_at_b. intros [= _ E]; contradiction.
  - rewrite dts_nondeg by (intros [= E _]; contradiction). apply dseg_nd_at_b. intros [= E _]; contradiction.
Qed.

(* for every chord, degenerate or not: the coded value is attained at a point of the closed segment and is minimal over it *)
Theorem distance_to_segment_nearest x0 y0 x1 y1 x2 y2 :
  let d := distance_to_segment RNum x0 y0 x1 y1 x2 y2 in
  (exists mu, 0 <= mu <= 1 /\ d = R_sqrt.sqrt ((x0 - (x1 + mu * (x2 - x1)))^2 + (y0 - (y1 + mu * (y2 - y1)))^2)) /\
  forall lam, 0 <= lam <= 1 -> d <= R_sqrt.sqrt ((x0 - (x1 + lam * (x2 - x1)))^2 + (y0 - (y1 + lam * (y2 - y1)))^2).
Proof.
  cbv zeta.
  assert (Deg : x1 = x2 -> y1 = y2 ->
    (exists mu, 0 <= mu <= 1 /\ distance_to_segment RNum x0 y0 x1 y1 x2 y2 = R_sqrt.sqrt ((x0 - (x1 + mu * (x2 - x1)))^2 + (y0 - (y1 + mu * (y2 - y1)))^2)) /\
    forall lam, 0 <= lam <= 1 -> distance_to_segment RNum x0 y0 x1 y1 x2 y2 <= R_sqrt.sqrt ((x0 - (x1 + lam * (x2 - x1)))^2 + (y0 - (y1 + lam * (y2 - y1)))^2)).
  { intros -> ->. rewrite dts_deg. split.
    - exists 0. split; [lra|]. f_equal. ring.
    - intros lam _. right. f_equal. ring. }
  destruct (Req_dec x1 x2) as [Ex|Ex]; [destruct (Req_dec y1 y2) as [Ey|Ey]|].
  - apply Deg; assumption.
  - rewrite dts_nondeg by (intros [= _ E]; contradiction). apply distance_to_segment_nd_nearest. intros [= _ E]; contradiction.
  - rewrite dts_nondeg by (intros [= E _]; contradiction). apply distance_to_segment_nd_nearest. intros [= E _]; contradiction.
Qed.
Print Assumptions dseg_at_b.
Print Assumptions distance_to_segment_nearest.
