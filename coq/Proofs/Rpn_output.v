(* Spike: the wrapper of Track.__evaluate — makeRPN ("#output = " ++ print e) — is
   [#output] ++ postfix e ++ [=]; needs the parse theorem under one leading space *)
From Coq Require Import List Ascii String ZArith Bool Lia.
Import ListNotations.
From TL Require Import Model.Rpn Proofs.Rpn_parse.
Open Scope char_scope.

Lemma scan_space ops r d acc : mem " " ops = false -> scan ops (" " :: r) d acc = scan ops r d (" " :: acc).
Proof. intros H. rewrite scan_cons. change (dstep " " d) with d. rewrite H, andb_false_r. reflexivity. Qed.

Lemma space_not_op k : k < 9 -> mem " " (nth k classes []) = false.
Proof. intros H. rewrite mem_class by assumption. do 9 (destruct k as [|k]; [reflexivity|]). lia. Qed.

(* scanning " " ++ print e *)
Lemma scan_none_sp k e : k < 9 -> wf e -> k < minclass e ->
  scan (nth k classes []) (rev (" " :: print e)) 0%Z [] = None.
Proof.
  intros Hk Hwf Hm. cbn [rev].
  rewrite (scan_print k Hk e Hwf [" "] 0%Z [] ltac:(lia) ltac:(right; assumption)).
  rewrite scan_space by (apply space_not_op; assumption). reflexivity.
Qed.

Lemma scan_root_sp k op l r : k < 9 -> wf (Bin op l r) -> class_of op = k ->
  scan (nth k classes []) (rev (" " :: print (Bin op l r))) 0%Z [] = Some (" " :: print l, op, print r).
Proof.
  intros Hk Hwf Hc. destruct Hwf as [Hop [Hwl [Hwr [Hl Hr]]]].
  cbn [rev print]. rewrite rev_bin_app.
  rewrite (scan_print k Hk r Hwr _ 0%Z [] ltac:(lia) ltac:(right; lia)).
  rewrite scan_cons.
  assert (Hdstep : dstep op 0 = 0%Z).
  { unfold dstep. destruct (Ascii.eqb_spec op ")") as [->|]; [compute in Hop; lia|].
    destruct (Ascii.eqb_spec op "(") as [->|]; [compute in Hop; lia | reflexivity]. }
  rewrite Hdstep. rewrite mem_class by assumption. rewrite Hc, Nat.eqb_refl. simpl.
  rewrite !app_nil_r. rewrite rev_app_distr, rev_involutive. reflexivity.
Qed.

Lemma first_split_bin_sp op l r : wf (Bin op l r) ->
  first_split classes (" " :: print (Bin op l r)) = Some (" " :: print l, op, print r).
Proof.
  intros Hwf. pose proof Hwf as [Hop [Hwl [Hwr [Hl Hr]]]].
  change classes with (skipn 0 classes).
  apply (fs_hit _ _ (class_of op - 0) 0 (class_of op)); try lia.
  - intros k Hk. apply scan_none_sp; [lia | assumption | simpl; lia].
  - apply scan_root_sp; [assumption | assumption | reflexivity].
Qed.

Lemma first_split_atomic_sp e : wf e -> minclass e = 9 -> first_split classes (" " :: print e) = None.
Proof.
  intros Hwf Hm. change classes with (skipn 0 classes).
  apply (fs_none _ 9 0); try lia. intros k Hk. apply scan_none_sp; [lia | assumption | lia].
Qed.

Lemma strip_lead s : strip (" " :: s) = strip s.
Proof. reflexivity. Qed.

Theorem parse_correct_sp : forall fuel e, wf e -> size e < fuel -> makeRPN fuel (" " :: print e) = Ok (postfix e).
Proof.
  induction fuel as [|f IH]; intros e Hwf Hsz; [lia|].
  destruct e as [s|op l r|e].
  - destruct Hwf as [Hne Hs]. cbn [makeRPN].
    rewrite (first_split_atomic_sp (Atom s)) by (simpl; auto).
    cbn [print]. rewrite strip_lead. destruct (strip_atom s Hne Hs) as [c [t [E1 [E2 E3]]]].
    rewrite E1, E3. simpl. rewrite E2. reflexivity.
  - cbn [makeRPN]. rewrite first_split_bin_sp by assumption.
    destruct Hwf as [Hop [Hwl [Hwr _]]]. simpl in Hsz.
    rewrite (IH l Hwl) by lia. rewrite (parse_correct f r Hwr) by lia. reflexivity.
  - cbn [makeRPN]. rewrite (first_split_atomic_sp (Par e)) by (simpl; auto).
    cbn [print]. rewrite strip_lead. change (["("] ++ print e ++ [")"]) with ("(" :: print e ++ [")"]).
    rewrite strip_id by reflexivity. simpl Ascii.eqb. cbv iota.
    rewrite removelast_last. simpl in Hwf, Hsz. cbn [postfix]. apply parse_correct; [assumption | lia].
Qed.

(* the wrapper: out is a plain name such as #output *)
Definition plain (s : str) : Prop := s <> [] /\ forallb (fun c => negb (special c)) s = true.

(* left part of the split: "#output " *)
Lemma first_split_word_sp out : forallb (fun c => negb (special c)) out = true ->
  first_split classes (out ++ [" "]) = None.
Proof.
  intros Hs. change classes with (skipn 0 classes).
  apply (fs_none _ 9 0); try lia. intros k Hk.
  rewrite rev_app_distr. cbn [rev app]. rewrite scan_space by (apply space_not_op; lia).
  rewrite <- (app_nil_r (rev out)). rewrite scan_plain by (try lia; assumption). reflexivity.
Qed.

Lemma strip_word_sp c t : forallb (fun c => negb (special c)) (c :: t) = true -> strip ((c :: t) ++ [" "]) = c :: t.
Proof.
  intros Hs. destruct (strip_atom (c :: t) ltac:(discriminate) Hs) as [c' [t' [E1 [E2 E3]]]].
  injection E2 as <- <-. unfold strip in *. 
  assert (Hc : is_space c = false).
  { cbn in Hs. apply andb_prop in Hs. destruct Hs as [Hc _]. apply negb_true_iff in Hc. apply nonspecial_nonspace in Hc. tauto. }
  change ((c :: t) ++ [" "]) with (c :: (t ++ [" "])). rewrite lstrip_nonspace by assumption.
  change (c :: t ++ [" "]) with ((c :: t) ++ [" "]). rewrite rev_app_distr. cbn [rev app].
  change (lstrip (" " :: (rev t ++ [c]))) with (lstrip (rev t ++ [c])).
  rewrite lstrip_nonspace in E1 by assumption. exact E1.
Qed.

Theorem wrap_output out e fuel : plain out -> wf e -> 0 < minclass e -> size e < fuel ->
  makeRPN (S fuel) (out ++ [" "; "="; " "] ++ print e) = Ok ([out] ++ postfix e ++ [["="]]).
Proof.
  intros [Hne Hout] Hwf Hm Hsz.
  assert (Hsplit : first_split classes (out ++ [" "; "="; " "] ++ print e) = Some (out ++ [" "], "=", " " :: print e)).
  { unfold classes. cbn [first_split]. change ["="] with (nth 0 classes []).
    rewrite !rev_app_distr. cbn [rev app]. rewrite <- !app_assoc. cbn [app].
    rewrite (scan_print 0 ltac:(lia) e Hwf _ 0%Z [] ltac:(lia) ltac:(right; assumption)).
    rewrite scan_space by reflexivity. rewrite scan_cons. change (dstep "=" 0) with 0%Z. cbn [Z.eqb andb].
    change (mem "=" (nth 0 classes [])) with true. cbv iota.
    rewrite app_nil_r. cbn [rev]. rewrite rev_involutive. reflexivity. }
  cbn [makeRPN]. rewrite Hsplit.
  assert (Hleft : makeRPN fuel (out ++ [" "]) = Ok [out]).
  { destruct fuel as [|f]; [lia|]. cbn [makeRPN]. rewrite first_split_word_sp by assumption.
    destruct out as [|c t]; [contradiction|]. rewrite strip_word_sp by assumption.
    destruct (strip_atom (c :: t) ltac:(discriminate) Hout) as [c' [t' [_ [E2 E3]]]]. injection E2 as <- <-.
    rewrite E3. reflexivity. }
  rewrite Hleft, (parse_correct_sp fuel e Hwf Hsz). reflexivity.
Qed.
Print Assumptions wrap_output.
