(* A track exported with toWKT and parsed back with parseWkt has the same coordinate tokens, in the same order *)
From Coq Require Import List Ascii String Bool Arith Lia.
From TL Require Import Model.TextFmt Model.CsvText Model.WktText Proofs.FixedText Proofs.CsvLine.
Import ListNotations.
Close Scope Z_scope.
Open Scope string_scope.

(* a coordinate token: not empty, none of the four separators *)
Definition sepfree (c : ascii) : bool := negb (Ascii.eqb c "(") && negb (Ascii.eqb c ")") && negb (Ascii.eqb c ",") && negb (Ascii.eqb c " ").
Definition tok_ok (s : string) : Prop := s <> "" /\ str_all sepfree s = true.

Lemma app_assoc_s (a b c : string) : (a ++ b) ++ c = a ++ b ++ c.
Proof. induction a as [|x a IH]; cbn; [reflexivity | rewrite IH; reflexivity]. Qed.

Lemma upper_app a b : upper (a ++ b) = upper a ++ upper b.
Proof. induction a as [|c a IH]; cbn; [reflexivity | rewrite IH; reflexivity]. Qed.

Lemma upper_char_sepfree c : sepfree c = true -> sepfree (upper_char c) = true.
Proof.
  intros H. unfold upper_char. destruct (Nat.leb 97 (nat_of_ascii c) && Nat.leb (nat_of_ascii c) 122)%bool eqn:E; [|exact H].
  apply andb_prop in E. destruct E as [E1 E2]. apply Nat.leb_le in E1, E2.
  assert (R : exists k, (65 <= k <= 90)%nat /\ upper_char c = ascii_of_nat k).
  { exists (nat_of_ascii c - 32)%nat. split; [lia|]. unfold upper_char. rewrite (proj2 (Nat.leb_le _ _) E1), (proj2 (Nat.leb_le _ _) E2). reflexivity. }
  destruct R as [k [Hk Ek]]. unfold upper_char in Ek. rewrite (proj2 (Nat.leb_le _ _) E1), (proj2 (Nat.leb_le _ _) E2) in Ek. cbn [andb] in Ek. rewrite Ek.
  clear - Hk. do 65 (destruct k as [|k]; [lia|]). do 26 (destruct k as [|k]; [reflexivity|]). lia.
Qed.

Lemma upper_tok s : tok_ok s -> tok_ok (upper s).
Proof.
  intros [Hne Hs]. split; [destruct s; [congruence | discriminate]|].
  clear Hne. induction s as [|c s IH]; [reflexivity|]. cbn in Hs |- *. apply andb_prop in Hs. destruct Hs as [H1 H2].
  rewrite (upper_char_sepfree c H1), (IH H2). reflexivity.
Qed.

Lemma upper_join sep l : upper (join sep l) = join (upper sep) (map upper l).
Proof.
  induction l as [|a l IH]; [reflexivity|]. destruct l as [|b l]; [reflexivity|].
  change (join sep (a :: b :: l)) with (a ++ sep ++ join sep (b :: l)).
  change (join (upper sep) (map upper (a :: b :: l))) with (upper a ++ upper sep ++ join (upper sep) (map upper (b :: l))).
  rewrite !upper_app, IH. reflexivity.
Qed.

Lemma sepfree_differs c s : (c = "(" \/ c = ")" \/ c = "," \/ c = " ")%char -> str_all sepfree s = true -> str_all (differs c) s = true.
Proof.
  intros Hc. apply str_all_imp. intros a Ha. unfold sepfree in Ha. unfold differs.
  apply andb_prop in Ha. destruct Ha as [Ha H4]. apply andb_prop in Ha. destruct Ha as [Ha H3]. apply andb_prop in Ha. destruct Ha as [H1 H2].
  destruct Hc as [->|[->|[->| ->]]]; assumption.
Qed.

Lemma str_all_join P sep l : str_all P sep = true -> forallb (str_all P) l = true -> str_all P (join sep l) = true.
Proof.
  intros Hs. induction l as [|a l IH]; intros H; [reflexivity|]. cbn [forallb] in H. apply andb_prop in H. destruct H as [H1 H2].
  destruct l as [|b l]; [exact H1|]. change (join sep (a :: b :: l)) with (a ++ sep ++ join sep (b :: l)).
  rewrite !str_all_app, H1, Hs, (IH H2). reflexivity.
Qed.

(* stripping does nothing to a string that starts and ends with token characters *)
Lemma lstrip_tok a r : tok_ok a -> lstrip (a ++ r) = a ++ r.
Proof.
  intros [Hne Hs]. destruct a as [|c a]; [congruence|]. cbn in Hs. apply andb_prop in Hs. destruct Hs as [Hc _].
  cbn [append]. apply lstrip_nospace. unfold sepfree in Hc. apply andb_prop in Hc. destruct Hc as [_ Hc]. apply negb_true_iff in Hc. exact Hc.
Qed.
Lemma rstrip_tok t : tok_ok t -> forall a, rstrip_sp (a ++ t) = a ++ t.
Proof.
  intros [Hne Hs].
  assert (B : rstrip_sp t = t /\ t <> "").
  { split; [|exact Hne]. clear Hne. induction t as [|c t IH]; [reflexivity|]. cbn in Hs. apply andb_prop in Hs. destruct Hs as [Hc Ht].
    cbn [rstrip_sp]. rewrite (IH Ht). destruct t as [|d t]; [|reflexivity].
    unfold sepfree in Hc. apply andb_prop in Hc. destruct Hc as [_ Hc]. apply negb_true_iff in Hc. rewrite Hc. reflexivity. }
  destruct B as [B1 B2]. induction a as [|x a IH]; [exact B1|]. cbn [append rstrip_sp]. rewrite IH.
  destruct (a ++ t) eqn:E; [|reflexivity]. destruct a; [cbn in E; congruence | discriminate E].
Qed.

Definition item (p : string * string) : string := fst p ++ " " ++ snd p.

Lemma pair_item x y : tok_ok x -> tok_ok y ->
  (match split " " (strip (item (x, y))) with a :: b :: _ => Some (a, b) | _ => None end) = Some (x, y).
Proof.
  intros Hx Hy. unfold item, strip. cbn [fst snd]. rewrite (lstrip_tok x _ Hx).
  assert (Ea : x ++ " " ++ y = (x ++ " ") ++ y) by (rewrite app_assoc_s; reflexivity).
  rewrite Ea, (rstrip_tok y Hy (x ++ " ")), <- Ea. change (x ++ " " ++ y) with (x ++ String " " y).
  unfold split. rewrite (split_acc_field " " x y (fun s => s) (sepfree_differs " " x ltac:(auto) (proj2 Hx))).
  rewrite (split_acc_last " " y (fun s => s) (sepfree_differs " " y ltac:(auto) (proj2 Hy))). reflexivity.
Qed.

Theorem wkt_roundtrip pts : pts <> [] -> Forall (fun p => tok_ok (fst p) /\ tok_ok (snd p)) pts ->
  parse_wkt (to_wkt pts) = Some (map (fun p => (upper (fst p), upper (snd p))) pts).
Proof.
  intros Hne Hok. unfold parse_wkt, to_wkt.
  set (U := map (fun p => (upper (fst p), upper (snd p))) pts).
  assert (HU : Forall (fun p => tok_ok (fst p) /\ tok_ok (snd p)) U).
  { unfold U. rewrite Forall_forall in *. intros q Hq. apply in_map_iff in Hq. destruct Hq as [p [<- Hp]]. cbn [fst snd].
    destruct (Hok p Hp) as [H1 H2]. split; apply upper_tok; assumption. }
  assert (Eu : upper ("LINESTRING(" ++ join "," (map (fun p => fst p ++ " " ++ snd p) pts) ++ ")") = "LINESTRING" ++ String "(" (join "," (map item U) ++ ")")).
  { rewrite !upper_app, upper_join.
    change (upper "LINESTRING(") with "LINESTRING(". change (upper ",") with ",". change (upper ")") with ")".
    transitivity ("LINESTRING(" ++ join "," (map item U) ++ ")"); [|reflexivity].
    f_equal. f_equal. f_equal. unfold U. rewrite !map_map. apply map_ext. intros p. unfold item. cbn [fst snd]. rewrite !upper_app. reflexivity. }
  rewrite Eu.
  assert (Hitems : forallb (str_all sepfree) (map (fun s => s) (map item U)) = true -> True) by trivial.
  (* every item is free of parentheses and commas *)
  assert (Hfree : forall c, (c = "(" \/ c = ")" \/ c = ",")%char -> forallb (str_all (differs c)) (map item U) = true).
  { intros c Hc. apply forallb_forall. intros s Hs. apply in_map_iff in Hs. destruct Hs as [p [<- Hp]].
    rewrite Forall_forall in HU. destruct (HU p Hp) as [[_ H1] [_ H2]]. unfold item. rewrite !str_all_app.
    rewrite (sepfree_differs c _ ltac:(tauto) H1), (sepfree_differs c _ ltac:(tauto) H2).
    destruct Hc as [->|[->| ->]]; reflexivity. }
  unfold split at 1.
  rewrite (split_acc_field "(" "LINESTRING" _ (fun s => s) eq_refl).
  assert (Hbody : str_all (differs "(") (join "," (map item U) ++ ")") = true).
  { rewrite str_all_app. rewrite (str_all_join (differs "(") "," _ eq_refl (Hfree "("%char ltac:(auto))). reflexivity. }
  rewrite (split_acc_last "(" _ (fun s => s) Hbody).
  unfold split at 1.
  rewrite (split_acc_field ")" (join "," (map item U)) "" (fun s => s) (str_all_join (differs ")") "," _ eq_refl (Hfree ")"%char ltac:(auto)))).
  assert (HneU : map item U <> []) by (unfold U; destruct pts; [congruence | discriminate]).
  rewrite (split_join "," (map item U) HneU (Hfree ","%char ltac:(auto))).
  clear Eu Hbody Hitems HneU Hfree. induction U as [|[x y] U IH]; [reflexivity|].
  inversion HU as [|? ? [Hx Hy] HU']; subst. cbn [map fold_right]. cbn [fst snd] in Hx, Hy.
  rewrite (pair_item x y Hx Hy), (IH HU'). reflexivity.
Qed.
Print Assumptions wkt_roundtrip.
