(* Printing a number with "{:W.Pf}" and parsing the text back recovers it to half a unit of the last printed digit *)
From Coq Require Import List Ascii String ZArith NArith PArith QArith Qround Qabs Bool Lia Lqa Decimal DecimalString DecimalFacts DecimalPos DecimalN.
From TL Require Import Model.TextFmt Proofs.Columns Proofs.TimeText Model.CsvText.
Import ListNotations.
Open Scope string_scope.

(* ------------------------------------------------------------------ characters *)
Definition is_digit (c : ascii) : bool := (48 <=? nat_of_ascii c)%nat && (nat_of_ascii c <=? 57)%nat.
Fixpoint str_all (P : ascii -> bool) (s : string) : bool := match s with "" => true | String a r => P a && str_all P r end.

Lemma str_all_app P a b : str_all P (a ++ b) = str_all P a && str_all P b.
Proof. induction a as [|c a IH]; cbn; [reflexivity|]. rewrite IH. apply andb_assoc. Qed.
Lemma str_all_imp (P Q : ascii -> bool) s : (forall c, P c = true -> Q c = true) -> str_all P s = true -> str_all Q s = true.
Proof. intros H. induction s as [|c s IH]; cbn; [reflexivity|]. intros E. apply andb_true_iff in E. destruct E as [E1 E2]. rewrite (H _ E1), (IH E2). reflexivity. Qed.

Lemma digits_uint d : str_all is_digit (NilEmpty.string_of_uint d) = true.
Proof. induction d; cbn [NilEmpty.string_of_uint str_all]; try rewrite IHd; reflexivity. Qed.
Lemma length_uint d : String.length (NilEmpty.string_of_uint d) = N.to_nat (Unsigned.usize d).
Proof. induction d; cbn [NilEmpty.string_of_uint String.length Unsigned.usize]; try rewrite IHd; lia. Qed.

Lemma digits_of_digits n : str_all is_digit (digits_of n) = true.
Proof. apply digits_uint. Qed.

(* ------------------------------------------------------------------ size of the decimal writing of n *)

Lemma nzhead_fix_bound d : nzhead d = d -> d <> Nil -> (10 ^ (Unsigned.usize d - 1) <= N.of_uint d)%N.
Proof.
  intros Hn Hd. destruct d as [|d|d|d|d|d|d|d|d|d|d]; try congruence.
  1: { exfalso. cbn [nzhead] in Hn. pose proof (nb_digits_nzhead d) as H. rewrite Hn in H. cbn [nb_digits] in H. lia. }
  all: unfold N.of_uint; cbn [Pos.of_uint]; rewrite Unsigned.of_uint_acc_rev; cbn [Unsigned.usize];
      replace (N.succ (Unsigned.usize d) - 1)%N with (Unsigned.usize d) by lia;
      match goal with |- (_ <= ?a + N.pos ?k * ?b)%N => assert (b <= N.pos k * b)%N by (apply (N.le_trans _ (1 * b)); [rewrite N.mul_1_l; apply N.le_refl | apply N.mul_le_mono_r; lia]) end; lia.
Qed.

Lemma to_uint_norm n : unorm (N.to_uint n) = N.to_uint n.
Proof. rewrite <- (DecimalN.Unsigned.of_to n) at 2. rewrite DecimalN.Unsigned.to_of. reflexivity. Qed.

Lemma usize_to_uint n p : (0 < p)%N -> (n < 10 ^ p)%N -> (Unsigned.usize (N.to_uint n) <= p)%N.
Proof.
  intros Hp Hn. pose proof (to_uint_norm n) as Hu. unfold unorm in Hu.
  destruct (nzhead (N.to_uint n)) eqn:E.
  1: { rewrite <- Hu. cbn. lia. }
  all: rewrite <- E in Hu; assert (Hne : N.to_uint n <> Nil) by (rewrite <- Hu, E; discriminate);
      pose proof (nzhead_fix_bound _ Hu Hne) as B; rewrite DecimalN.Unsigned.of_to in B;
      assert (Unsigned.usize (N.to_uint n) - 1 < p)%N by (apply (N.pow_lt_mono_r_iff 10); [lia | lia]); lia.
Qed.

(* ------------------------------------------------------------------ padding *)
Definition rep (c : ascii) := fix go (k : nat) (acc : string) : string := match k with O => acc | S k' => go k' (String c acc) end.
Lemma lpad_rep c w s : lpad c w s = rep c (w - String.length s) s.
Proof. reflexivity. Qed.
Lemma rep_length c k s : String.length (rep c k s) = (k + String.length s)%nat.
Proof. revert s. induction k as [|k IH]; intros s; cbn [rep]; [reflexivity|]. rewrite IH. cbn. lia. Qed.
Lemma rep_all P c k s : P c = true -> str_all P s = true -> str_all P (rep c k s) = true.
Proof. intros Hc. revert s. induction k as [|k IH]; intros s Hs; cbn [rep]; [exact Hs|]. apply IH. cbn. rewrite Hc, Hs. reflexivity. Qed.
Lemma rep_zero_parse k s : NilEmpty.uint_of_string (rep "0" k s) = option_map (Nat.iter k D0) (NilEmpty.uint_of_string s).
Proof.
  revert s. induction k as [|k IH]; intros s; cbn [rep].
  - destruct (NilEmpty.uint_of_string s); reflexivity.
  - rewrite IH. cbn [NilEmpty.uint_of_string]. destruct (NilEmpty.uint_of_string s) as [d|]; cbn; [|reflexivity].
    f_equal. clear. induction k as [|k IHk]; [reflexivity|]. change (Nat.iter (S k) D0 (D0 d)) with (D0 (Nat.iter k D0 (D0 d))). rewrite IHk. reflexivity.
Qed.
Lemma of_uint_iter_D0 k d : N.of_uint (Nat.iter k D0 d) = N.of_uint d.
Proof. induction k as [|k IH]; [reflexivity|]. cbn [Nat.iter]. exact IH. Qed.
Lemma lstrip_rep_space k s : lstrip (rep " " k s) = lstrip s.
Proof. revert s. induction k as [|k IH]; intros s; cbn [rep]; [reflexivity|]. rewrite IH. reflexivity. Qed.
Lemma lstrip_idem s : lstrip (lstrip s) = lstrip s.
Proof.
  induction s as [|a s IH]; [reflexivity|]. cbn [lstrip].
  destruct a as [[|] [|] [|] [|] [|] [|] [|] [|]]; try reflexivity. exact IH.
Qed.

(* ------------------------------------------------------------------ parsing a digit string *)
Lemma parse_uint_digits n : parse_uint (digits_of n) = Some (Z.to_N n).
Proof. unfold parse_uint, digits_of. rewrite NilEmpty.usu. cbn. rewrite DecimalN.Unsigned.of_to. reflexivity. Qed.

Lemma uint_digits_of n : NilEmpty.uint_of_string (digits_of n) = Some (N.to_uint (Z.to_N n)).
Proof. unfold digits_of. apply NilEmpty.usu. Qed.

Lemma split_dot_digits a b : str_all is_digit a = true -> split_dot (a ++ "." ++ b) = (a, Some b).
Proof.
  induction a as [|c a IH]; intros H; [reflexivity|]. cbn in H. apply andb_true_iff in H. destruct H as [H1 H2].
  cbn [append split_dot]. destruct (Ascii.eqb c ".") eqn:E.
  - apply Ascii.eqb_eq in E. subst c. discriminate H1.
  - change (a ++ String "." b) with (a ++ "." ++ b). rewrite (IH H2). reflexivity.
Qed.
Lemma split_dot_nodot a : str_all is_digit a = true -> split_dot a = (a, None).
Proof.
  induction a as [|c a IH]; intros H; [reflexivity|]. cbn in H. apply andb_true_iff in H. destruct H as [H1 H2].
  cbn [split_dot]. destruct (Ascii.eqb c ".") eqn:E.
  - apply Ascii.eqb_eq in E. subst c. discriminate H1.
  - rewrite (IH H2). reflexivity.
Qed.

(* ------------------------------------------------------------------ rounding *)
Lemma round_half_even_spec y : (Qabs (inject_Z (round_half_even y) - y) <= 1 # 2)%Q.
Proof.
  unfold round_half_even. pose proof (Qfloor_le y) as H1. pose proof (Qlt_floor y) as H2.
  rewrite inject_Z_plus in H2. change (inject_Z 1) with 1%Q in H2.
  set (f := inject_Z (Qfloor y)) in *.
  destruct (Qcompare (y - f) (1 # 2)) eqn:E.
  - apply Qeq_alt in E. destruct (Z.even (Qfloor y)); [fold f | rewrite inject_Z_plus; change (inject_Z 1) with 1%Q; fold f]; apply Qabs_case; intros _; lra.
  - apply Qlt_alt in E. fold f. apply Qabs_case; intros _; lra.
  - apply Qgt_alt in E. rewrite inject_Z_plus. change (inject_Z 1) with 1%Q. fold f. apply Qabs_case; intros _; lra.
Qed.

(* ------------------------------------------------------------------ the printed body and its value *)
Lemma digits_of_head n : exists c r, digits_of n = String c r /\ is_digit c = true.
Proof.
  unfold digits_of. pose proof (to_uint_norm (Z.to_N n)) as Hn. pose proof (unorm_nonnil (N.to_uint (Z.to_N n))) as Hne. rewrite Hn in Hne.
  pose proof (digits_uint (N.to_uint (Z.to_N n))) as Hd.
  destruct (N.to_uint (Z.to_N n)) as [|d|d|d|d|d|d|d|d|d|d]; try congruence; cbn [NilEmpty.string_of_uint] in *; eexists _, _; split; reflexivity.
Qed.

Lemma lstrip_nospace c r : Ascii.eqb c " " = false -> lstrip (String c r) = String c r.
Proof. intros H. destruct c as [[|] [|] [|] [|] [|] [|] [|] [|]]; try reflexivity. discriminate H. Qed.

Lemma app_empty_r (s : string) : s ++ "" = s.
Proof. induction s as [|c s IH]; cbn; [reflexivity|]. rewrite IH. reflexivity. Qed.

Lemma pow10_pos p : (0 < 10 ^ Z.of_nat p)%Z.
Proof. apply Z.pow_pos_nonneg; lia. Qed.

Definition body (p : nat) (n : Z) : string :=
  let scale := (10 ^ Z.of_nat p)%Z in
  (digits_of (n / scale) ++ (if (p =? 0)%nat then "" else "." ++ lpad "0" p (digits_of (n mod scale))))%string.

Lemma parse_body p n : (0 <= n)%Z -> exists v, parse_unsigned (body p n) = Some v /\ (v == n # pow10 p)%Q.
Proof.
  intros Hn. unfold body. pose proof (pow10_pos p) as Hs. set (scale := (10 ^ Z.of_nat p)%Z) in *.
  assert (Hip : (0 <= n / scale)%Z) by (apply Z.div_pos; lia).
  pose proof (Z.mod_pos_bound n scale Hs) as Hfp.
  destruct (p =? 0)%nat eqn:Ep.
  - apply Nat.eqb_eq in Ep. subst p. rewrite app_empty_r. unfold parse_unsigned. rewrite (split_dot_nodot _ (digits_of_digits _)).
    rewrite parse_uint_digits. eexists; split; [reflexivity|]. rewrite Z2N.id by exact Hip.
    change scale with 1%Z. rewrite Z.div_1_r. unfold pow10. cbn. unfold Qeq. cbn. lia.
  - apply Nat.eqb_neq in Ep. unfold parse_unsigned. rewrite (split_dot_digits _ _ (digits_of_digits _)). rewrite parse_uint_digits.
    rewrite lpad_rep. unfold parse_uint at 1. rewrite rep_zero_parse. rewrite uint_digits_of. cbn [option_map].
    rewrite of_uint_iter_D0, DecimalN.Unsigned.of_to.
    assert (Hlen : String.length (rep "0" (p - String.length (digits_of (n mod scale))) (digits_of (n mod scale))) = p).
    { rewrite rep_length. unfold digits_of. rewrite length_uint.
      assert (Unsigned.usize (N.to_uint (Z.to_N (n mod scale))) <= N.of_nat p)%N.
      { apply usize_to_uint; [lia|]. apply N2Z.inj_lt. rewrite Z2N.id by lia. rewrite N2Z.inj_pow, nat_N_Z. change (Z.of_N 10) with 10%Z. fold scale. lia. }
      lia. }
    rewrite Hlen. eexists; split; [reflexivity|]. rewrite !Z2N.id by lia.
    unfold pow10. fold scale. unfold Qeq, Qplus, inject_Z. cbn [Qnum Qden]. rewrite Pos2Z.inj_mul, Z2Pos.id by exact Hs.
    pose proof (Z.div_mod n scale ltac:(lia)) as Hdm. nia.
Qed.

Lemma fmt_fixed_body w p x :
  fmt_fixed w p x = lpad " " w ((if match Qcompare x 0 with Lt => true | _ => false end then "-" else "") ++ body p (round_half_even (Qabs x * inject_Z (10 ^ Z.of_nat p)))).
Proof. reflexivity. Qed.

Lemma parse_fixed_digit c r : is_digit c = true -> parse_fixed (String c r) = parse_unsigned (String c r).
Proof. destruct c as [[|] [|] [|] [|] [|] [|] [|] [|]]; intros H; try discriminate H; reflexivity. Qed.

Lemma round_nonneg y : (0 <= y)%Q -> (0 <= round_half_even y)%Z.
Proof.
  intros H. unfold round_half_even. assert (0 <= Qfloor y)%Z by (change 0%Z with (Qfloor 0); apply Qfloor_resp_le; exact H).
  destruct (Qcompare _ _); [destruct (Z.even _)|..]; lia.
Qed.

Lemma scale_bound (e a : Q) (P : positive) : (e * (Zpos P # 1) <= 1 # 2)%Q -> (e <= 1 # (2 * P))%Q.
Proof. destruct e as [en ed]. unfold Qle, Qmult. cbn [Qnum Qden]. intros H. nia. Qed.

Lemma parse_fixed_lstrip s : parse_fixed s = parse_fixed (lstrip s).
Proof. unfold parse_fixed. rewrite lstrip_idem. reflexivity. Qed.
Lemma parse_fixed_pad k s : parse_fixed (rep " " k s) = parse_fixed s.
Proof. rewrite parse_fixed_lstrip, lstrip_rep_space, <- parse_fixed_lstrip. reflexivity. Qed.
Lemma parse_fixed_body p n : parse_fixed (body p n) = parse_unsigned (body p n).
Proof. unfold body. destruct (digits_of_head (n / 10 ^ Z.of_nat p)) as [c [r [Ec Hc]]]. rewrite Ec. cbn [append]. apply parse_fixed_digit, Hc. Qed.
Lemma parse_fixed_neg s : parse_fixed ("-" ++ s) = option_map Qopp (parse_unsigned s).
Proof. reflexivity. Qed.

Theorem fixed_roundtrip w p x : exists v, parse_fixed (fmt_fixed w p x) = Some v /\ (Qabs (v - x) <= 1 # (2 * pow10 p))%Q.
Proof.
  rewrite fmt_fixed_body. set (S := (10 ^ Z.of_nat p)%Z). set (y := (Qabs x * inject_Z S)%Q). set (n := round_half_even y).
  assert (HS : (0 < S)%Z) by apply pow10_pos.
  assert (Hy : (0 <= y)%Q). { unfold y. apply Qmult_le_0_compat; [apply Qabs_nonneg|]. unfold Qle; cbn; lia. }
  pose proof (round_nonneg y Hy) as Hn. fold n in Hn.
  destruct (parse_body p n Hn) as [v [Hv Ev]].
  pose proof (round_half_even_spec y) as Hr. fold n in Hr.
  assert (HP : inject_Z S = Zpos (pow10 p) # 1). { unfold pow10. fold S. unfold inject_Z. rewrite Z2Pos.id by exact HS. reflexivity. }
  assert (Hq : (inject_Z n == (n # pow10 p) * (Zpos (pow10 p) # 1))%Q). { unfold Qeq, Qmult, inject_Z. cbn [Qnum Qden]. lia. }
  rewrite lpad_rep, parse_fixed_pad.
  assert (Hpos : (0 <= x)%Q -> exists v, parse_fixed (body p n) = Some v /\ (Qabs (v - x) <= 1 # (2 * pow10 p))%Q).
  { intros Hx. exists v. rewrite parse_fixed_body. split; [exact Hv|]. apply (scale_bound _ 0).
    rewrite <- (Qabs_pos (Zpos (pow10 p) # 1)) at 1 by (unfold Qle; cbn; lia). rewrite <- Qabs_Qmult.
    unfold y in Hr. rewrite (Qabs_pos x Hx), HP in Hr. rewrite Ev.
    setoid_replace (((n # pow10 p) - x) * (Z.pos (pow10 p) # 1))%Q with (inject_Z n - x * (Z.pos (pow10 p) # 1))%Q by (rewrite Hq; ring). exact Hr. }
  destruct (Qcompare x 0) eqn:Ex.
  - apply Qeq_alt in Ex. cbn [append]. apply Hpos. lra.
  - apply Qlt_alt in Ex. rewrite parse_fixed_neg, Hv. cbn [option_map]. eexists; split; [reflexivity|]. apply (scale_bound _ 0).
    rewrite <- (Qabs_pos (Zpos (pow10 p) # 1)) at 1 by (unfold Qle; cbn; lia). rewrite <- Qabs_Qmult.
    unfold y in Hr. rewrite (Qabs_neg x) in Hr by lra. rewrite HP in Hr. rewrite Ev. rewrite <- Qabs_opp.
    setoid_replace (- ((- (n # pow10 p) - x) * (Z.pos (pow10 p) # 1)))%Q with (inject_Z n - - x * (Z.pos (pow10 p) # 1))%Q by (rewrite Hq; ring). exact Hr.
  - apply Qgt_alt in Ex. cbn [append]. apply Hpos. lra.
Qed.
Print Assumptions fixed_roundtrip.
