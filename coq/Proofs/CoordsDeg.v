(* obs_coords.py with the WGS84 constants and in degrees, as coded; the code-shaped compositions
   GeoCoords.toENUCoords(base) / ENUCoords.toGeoCoords(base); branch lemmas of atan2 used by the pointwise enclosures *)
From Coq Require Import Reals Lra.
From TL Require Import Proofs.Atan2 Proofs.Bowring Proofs.CoordsENU.
Open Scope R_scope.

Definition Re : R := 6378137.
Definition Fe : R := 1 / 298257223563 * 1000000000.     (* 1.0 / 298.257223563 *)
Lemma Re_pos : 0 < Re. Proof. unfold Re. lra. Qed.
Lemma Fe_range : 0 < Fe < 1. Proof. unfold Fe. lra. Qed.

Definition d2r (x : R) : R := x * PI / 180.
Definition r2d (x : R) : R := x * (180 / PI).
Lemma r2d_d2r x : r2d (d2r x) = x.
Proof. unfold r2d, d2r. pose proof PI_RGT_0. field. lra. Qed.
Lemma d2r_r2d x : d2r (r2d x) = x.
Proof. unfold r2d, d2r. pose proof PI_RGT_0. field. lra. Qed.

(* GeoCoords.toECEFCoords / ECEFCoords.toGeoCoords *)
Definition geo_to_ecef_deg (g : R * R * R) : R * R * R :=
  let '(lon, lat, h) := g in geo_to_ecef Re Fe (d2r lon) (d2r lat) h.
Definition ecef_to_geo_deg (P : R * R * R) : R * R * R :=
  let '(lo, la, h) := ecef_to_geo Re Fe P in (r2d lo, r2d la, h).

(* ECEFCoords.toENUCoords(base) / ENUCoords.toECEFCoords(base): base -> ECEF -> geographic (through the closed-form inverse) gives the rotation angles *)
Definition ecef_to_enu_base (base P : R * R * R) : R * R * R :=
  let B := geo_to_ecef_deg base in
  let '(blon, blat, _) := ecef_to_geo_deg B in
  let '(bX, bY, bZ) := B in let '(X, Y, Z) := P in
  ecef_to_enu (d2r blon) (d2r blat) bX bY bZ X Y Z.
Definition enu_to_ecef_base (base p : R * R * R) : R * R * R :=
  let B := geo_to_ecef_deg base in
  let '(blon, blat, _) := ecef_to_geo_deg B in
  let '(bX, bY, bZ) := B in let '(e, n, u) := p in
  enu_to_ecef (d2r blon) (d2r blat) bX bY bZ e n u.
(* GeoCoords.toENUCoords(base) and ENUCoords.toGeoCoords(base) *)
Definition geo_to_enu (base g : R * R * R) : R * R * R := ecef_to_enu_base base (geo_to_ecef_deg g).
Definition enu_to_geo (base p : R * R * R) : R * R * R := ecef_to_geo_deg (enu_to_ecef_base base p).

(* ------------------------------------------------------------------ exact statements, for every base *)
Theorem enu_then_ecef base P : enu_to_ecef_base base (ecef_to_enu_base base P) = P.
Proof.
  unfold enu_to_ecef_base, ecef_to_enu_base. destruct (ecef_to_geo_deg (geo_to_ecef_deg base)) as [[blon blat] bh].
  destruct (geo_to_ecef_deg base) as [[bX bY] bZ]. destruct P as [[X Y] Z].
  pose proof (enu_ecef_roundtrip (d2r blon) (d2r blat) bX bY bZ X Y Z) as H.
  destruct (ecef_to_enu (d2r blon) (d2r blat) bX bY bZ X Y Z) as [[e n] u]. exact H.
Qed.
Theorem ecef_then_enu base p : ecef_to_enu_base base (enu_to_ecef_base base p) = p.
Proof.
  unfold enu_to_ecef_base, ecef_to_enu_base. destruct (ecef_to_geo_deg (geo_to_ecef_deg base)) as [[blon blat] bh].
  destruct (geo_to_ecef_deg base) as [[bX bY] bZ]. destruct p as [[e n] u].
  pose proof (ecef_enu_roundtrip (d2r blon) (d2r blat) bX bY bZ e n u) as H.
  destruct (enu_to_ecef (d2r blon) (d2r blat) bX bY bZ e n u) as [[X Y] Z]. exact H.
Qed.
(* geographic -> local -> geographic is exactly geographic -> ECEF -> geographic: the local frame adds no error of its own *)
Theorem geo_enu_geo base g : enu_to_geo base (geo_to_enu base g) = ecef_to_geo_deg (geo_to_ecef_deg g).
Proof. unfold enu_to_geo, geo_to_enu. rewrite enu_then_ecef. reflexivity. Qed.
(* ENUCoords.toENUCoords(base1, base2): re-basing a local position; exact: the result is the local position of the same point about base2 *)
Definition enu_rebase (base1 base2 p : R * R * R) : R * R * R := ecef_to_enu_base base2 (enu_to_ecef_base base1 p).
Theorem rebase_exact base1 base2 g : enu_rebase base1 base2 (geo_to_enu base1 g) = geo_to_enu base2 g.
Proof. unfold enu_rebase, geo_to_enu. rewrite enu_then_ecef. reflexivity. Qed.

Theorem base_origin base : geo_to_enu base base = (0, 0, 0).
Proof.
  unfold geo_to_enu, ecef_to_enu_base. destruct (ecef_to_geo_deg (geo_to_ecef_deg base)) as [[blon blat] bh].
  destruct (geo_to_ecef_deg base) as [[bX bY] bZ]. apply base_is_origin.
Qed.

Theorem lon_exact_deg lon lat h : -180 < lon <= 180 -> -90 < lat < 90 -> - nrad Re Fe (d2r lat) < h ->
  fst (fst (ecef_to_geo_deg (geo_to_ecef_deg (lon, lat, h)))) = lon.
Proof.
  intros Hlon Hlat Hh. unfold ecef_to_geo_deg, geo_to_ecef_deg. pose proof PI_RGT_0 as Hpi.
  pose proof (lon_exact Re Fe (d2r lon) (d2r lat) h) as H.
  destruct (ecef_to_geo Re Fe (geo_to_ecef Re Fe (d2r lon) (d2r lat) h)) as [[lo la] hh]. cbn [fst] in *.
  rewrite H; [apply r2d_d2r | | | exact Hh]; unfold d2r; split; nra.
Qed.
Theorem surface_exact_deg lon lat : -180 < lon <= 180 -> -90 < lat < 90 ->
  ecef_to_geo_deg (geo_to_ecef_deg (lon, lat, 0)) = (lon, lat, 0).
Proof.
  intros Hlon Hlat. unfold ecef_to_geo_deg, geo_to_ecef_deg. pose proof PI_RGT_0 as Hpi.
  rewrite (surface_exact Re Fe Re_pos Fe_range (d2r lon) (d2r lat)); [rewrite !r2d_d2r; reflexivity | |]; unfold d2r; split; nra.
Qed.

(* the forward conversion is the textbook prime-vertical-radius formula with e^2 = 2f - f^2 *)
Theorem ecef_closed_form lon lat h :
  let e2 := 2 * Fe - Fe * Fe in
  let N := Re / sqrt (1 - e2 * (sin (d2r lat) * sin (d2r lat))) in
  geo_to_ecef_deg (lon, lat, h) = ((N + h) * cos (d2r lat) * cos (d2r lon), (N + h) * cos (d2r lat) * sin (d2r lon), (N * (1 - e2) + h) * sin (d2r lat)).
Proof.
  cbv zeta. unfold geo_to_ecef_deg, geo_to_ecef, nrad. pose proof (ee Fe Fe_range) as E.
  replace ((e Fe * sin (d2r lat)) ^ 2) with ((e Fe * e Fe) * (sin (d2r lat) * sin (d2r lat))) by ring. rewrite E.
  replace (Fe * (2 - Fe)) with (2 * Fe - Fe * Fe) by ring. f_equal. f_equal. ring.
Qed.

(* the height formula is exact once the latitude is: h' = p / cos(lat) - N(lat) *)
Theorem height_exact lon lat h : - PI / 2 < lat < PI / 2 -> - nrad Re Fe lat < h ->
  let '(X, Y, Z) := geo_to_ecef Re Fe lon lat h in sqrt (X * X + Y * Y) / cos lat - nrad Re Fe lat = h.
Proof.
  intros Hlat Hh. unfold geo_to_ecef. assert (Hc : 0 < cos lat) by (apply cos_gt_0; lra).
  pose proof (sin2_cos2 lon) as Hs. unfold Rsqr in Hs.
  set (r := (nrad Re Fe lat + h) * cos lat). assert (Hr : 0 < r) by (apply Rmult_lt_0_compat; lra).
  assert (Hp : sqrt (r * cos lon * (r * cos lon) + r * sin lon * (r * sin lon)) = r).
  { apply sqrt_lem_1; [|lra|].
    - replace (r * cos lon * (r * cos lon) + r * sin lon * (r * sin lon)) with (r * r * (sin lon * sin lon + cos lon * cos lon)) by ring. rewrite Hs. nra.
    - replace (r * cos lon * (r * cos lon) + r * sin lon * (r * sin lon)) with (r * r * (sin lon * sin lon + cos lon * cos lon)) by ring. rewrite Hs. ring. }
  rewrite Hp. unfold r. field. lra.
Qed.

(* ------------------------------------------------------------------ branches of atan2, for the pointwise enclosures *)
Lemma atan2_right y x : 0 < x -> atan2 y x = atan (y / x).
Proof. intros H. unfold atan2. destruct (Rlt_dec 0 x); [reflexivity | lra]. Qed.
Lemma atan2_left_up y x : x < 0 -> 0 <= y -> atan2 y x = atan (y / x) + PI.
Proof. intros H1 H2. unfold atan2. destruct (Rlt_dec 0 x); [lra|]. destruct (Rlt_dec x 0); [|lra]. destruct (Rle_dec 0 y); [reflexivity | lra]. Qed.
Lemma atan2_left_down y x : x < 0 -> y < 0 -> atan2 y x = atan (y / x) - PI.
Proof. intros H1 H2. unfold atan2. destruct (Rlt_dec 0 x); [lra|]. destruct (Rlt_dec x 0); [|lra]. destruct (Rle_dec 0 y); [lra | reflexivity]. Qed.
