(* C10: every candidate state of the map-matcher lies on a segment of the edge it names, within the search radius of the
   observation, with distances to the two end nodes that add up to the length of the edge; an observation without
   candidate gets the single unmatched state; the decoder can only pick one of these states. *)
From Coq Require Import List Arith Reals Lra Lia Bool.
Import ListNotations.
From TL Require Import Model.Num Model.Geom Model.MapMatch Proofs.GeomAlg Proofs.GeomProj Proofs.Geom_bridge Proofs.PolyMin Proofs.Poly_bridge Proofs.OnSegment.
Open Scope R_scope.

Notation Pt := (R * R)%type.
Notation edge := (@MapMatch.edge R).
Notation state := (@MapMatch.state R).

(* ------------------------------------------------------------------ one segment, any orientation *)
(* the inclusion test of proj_segment; when it is true on a vertical segment the code divides by b = 0 (ZeroDivisionError) *)
Definition g_incl (s : seg) (x y : R) : bool :=
  let '(xp, yp) := Geom.proj_line RNum s x y in
  ((Num.Rleb (sx1 s) xp && Num.Rleb xp (sx2 s)) || (Num.Rleb xp (sx1 s) && Num.Rleb (sx2 s) xp))
  && ((Num.Rleb (sy1 s) yp && Num.Rleb yp (sy2 s)) || (Num.Rleb yp (sy1 s) && Num.Rleb (sy2 s) yp) || Reqb (sy1 s) (sy2 s)).
(* the inputs on which the code does not raise *)
Definition seg_defined (s : seg) (x y : R) : Prop := sx1 s <> sx2 s \/ g_incl s x y = false.

Lemma proj_segment_out s x y : g_incl s x y = false ->
  Geom.proj_segment RNum s x y =
  (let d1 := GeomProj.dist x y (sx1 s) (sy1 s) in let d2 := GeomProj.dist x y (sx2 s) (sy2 s) in
   if Num.Rleb d1 d2 then (d1, sx1 s, sy1 s) else (d2, sx2 s, sy2 s)).
Proof.
  unfold g_incl, Geom.proj_segment. destruct (Geom.proj_line RNum s x y) as [xp yp].
  cbn [RNum leb eqb]. intros H. rewrite H. reflexivity.
Qed.

Theorem proj_segment_sound x1 y1 x2 y2 x y :
  let s := {| sx1 := x1; sy1 := y1; sx2 := x2; sy2 := y2 |} in
  seg_defined s x y ->
  let '(d, px, py) := Geom.proj_segment RNum s x y in
  (exists mu, 0 <= mu <= 1 /\ (px, py) = on_seg x1 y1 x2 y2 mu) /\ d = GeomProj.dist x y px py.
Proof.
  intros s [Hnv|Hout].
  - cbn [sx1 sx2 s] in Hnv. pose proof (proj_segment_generic_nearest x1 y1 x2 y2 x y Hnv) as H. fold s in H.
    destruct (Geom.proj_segment RNum s x y) as [[d px] py]. destruct H as [H1 [H2 _]]. split; assumption.
  - rewrite (proj_segment_out s x y Hout). cbv zeta. cbn [sx1 sy1 sx2 sy2 s].
    destruct (Num.Rleb (GeomProj.dist x y x1 y1) (GeomProj.dist x y x2 y2)).
    + split; [exists 0; split; [lra | unfold on_seg; f_equal; ring] | reflexivity].
    + split; [exists 1; split; [lra | unfold on_seg; f_equal; ring] | reflexivity].
Qed.

(* ------------------------------------------------------------------ a polyline *)
Definition poly_defined (eps : R) (pts : list Pt) (x y : R) : Prop :=
  forall j, (S j < length pts)%nat -> skipped eps (nth j pts (0,0)) (nth (S j) pts (0,0)) = false ->
    seg_defined (seg_of (nth j pts (0,0)) (nth (S j) pts (0,0))) x y.

Theorem proj_polyligne_sound eps pts x y : poly_defined eps pts x y ->
  match proj_polyligne RNum eps pts x y with
  | None => True
  | Some (d, xp, yp, i) =>
      (S i < length pts)%nat /\
      (let A := nth i pts (0,0) in let B := nth (S i) pts (0,0) in
       exists mu, 0 <= mu <= 1 /\ (xp, yp) = on_seg (fst A) (snd A) (fst B) (snd B) mu) /\
      d = GeomProj.dist x y xp yp
  end.
Proof.
  intros Hdef. unfold proj_polyligne.
  pose proof (scan_bridge eps x y pts 0%nat None) as Hb. cbn [pack] in Hb.
  pose proof (proj_poly_spec Pt (cands eps x y pts)) as Hs. unfold proj_poly in Hs. rewrite <- Hb in Hs.
  destruct (poly_scan RNum eps x y 0 None pts) as [[[[d xp] yp] i]|]; cbn [pack] in Hs; [|exact I].
  destruct Hs as [Hi [Hn _]]. rewrite cands_length in Hi.
  assert (Hi' : (S i < length pts)%nat) by (clear - Hi; lia).
  rewrite (cands_nth eps x y pts i Hi') in Hn. unfold cand_of in Hn.
  destruct (skipped eps (nth i pts (0, 0)) (nth (S i) pts (0, 0))) eqn:Es; [discriminate|].
  pose proof (proj_segment_sound (fst (nth i pts (0,0))) (snd (nth i pts (0,0))) (fst (nth (S i) pts (0,0))) (snd (nth (S i) pts (0,0))) x y (Hdef i Hi' Es)) as Hseg.
  cbv zeta in Hseg. unfold seg_of in Hn.
  destruct (Geom.proj_segment RNum _ x y) as [[d0 xp0] yp0] eqn:Ep in Hn.
  rewrite Ep in Hseg. injection Hn as -> -> ->. destruct Hseg as [Hon Hd].
  split; [exact Hi'|]. split; assumption.
Qed.

(* ------------------------------------------------------------------ the abscissa column of an edge *)
Definition d2 (p q : Pt) : R := OnSegment.dist (fst p) (snd p) (fst q) (snd q).
Lemma dist2_d2 p q : dist2 RNum p q = d2 p q.
Proof. reflexivity. Qed.

(* computeAbsCurv: s_0 = 0, s_(i+1) - s_i = |A_i A_(i+1)| *)
Definition abs_ok (g : edge) : Prop :=
  length (eabs g) = length (egeom g) /\ nth 0 (eabs g) 0 = 0 /\
  forall i, (S i < length (egeom g))%nat -> nth (S i) (eabs g) 0 - nth i (eabs g) 0 = d2 (nth i (egeom g) (0,0)) (nth (S i) (egeom g) (0,0)).
Definition edge_length (g : edge) : R := nth (length (egeom g) - 1) (eabs g) 0.

(* the column is the running sum of the segment lengths: the last entry is the length of the polyline *)
Fixpoint plen (pts : list Pt) : R := match pts with p :: ((q :: _) as r) => d2 p q + plen r | _ => 0 end.
Lemma edge_length_plen g : abs_ok g -> edge_length g = plen (egeom g).
Proof.
  destruct g as [pts ab]. unfold abs_ok, edge_length. cbn [egeom eabs]. intros [Hl [H0 Hs]].
  assert (G : forall pts ab, length ab = length pts ->
            (forall i, (S i < length pts)%nat -> nth (S i) ab 0 - nth i ab 0 = d2 (nth i pts (0,0)) (nth (S i) pts (0,0))) ->
            nth (length pts - 1) ab 0 - nth 0 ab 0 = plen pts).
  { clear. induction pts as [|p r IH]; intros ab Hl Hs.
    - destruct ab; [cbn; lra | discriminate].
    - destruct ab as [|a ab]; [discriminate|]. destruct r as [|q r'].
      + cbn. lra.
      + destruct ab as [|a2 ab]; [discriminate|].
        specialize (IH (a2 :: ab) ltac:(cbn in *; lia)).
        assert (Hs' : forall i, (S i < length (q :: r'))%nat -> nth (S i) (a2 :: ab) 0 - nth i (a2 :: ab) 0 = d2 (nth i (q :: r') (0,0)) (nth (S i) (q :: r') (0,0))).
        { intros i Hi. apply (Hs (S i)). cbn in *. lia. }
        specialize (IH Hs'). pose proof (Hs 0%nat ltac:(cbn; lia)) as H1. cbn [nth] in H1.
        change (plen (p :: q :: r')) with (d2 p q + plen (q :: r')).
        replace (length (p :: q :: r') - 1)%nat with (S (length (q :: r') - 1)) by (cbn; lia).
        cbn [nth] in *. lra. }
  rewrite <- (G pts ab Hl Hs). lra.
Qed.

(* ------------------------------------------------------------------ candidate states *)
Definition edge_of (edges : list edge) (elem : nat) : edge := nth elem edges {| egeom := []; eabs := [] |}.

(* what the property says of one state *)
Definition state_sound (radius : R) (edges : list edge) (o : Pt) (E : list nat) (s : state) : Prop :=
  match sedge s with
  | None => s = unmatched RNum o
  | Some e =>
      In e E /\
      (exists v mu, (S v < length (egeom (edge_of edges e)))%nat /\ 0 <= mu <= 1 /\
         let A := nth v (egeom (edge_of edges e)) (0,0) in let B := nth (S v) (egeom (edge_of edges e)) (0,0) in
         spt s = on_seg (fst A) (snd A) (fst B) (snd B) mu) /\
      d2 o (spt s) < radius /\
      sd0 s + sd1 s = edge_length (edge_of edges e)
  end.

Lemma dist_sym4 x y px py : GeomProj.dist x y px py = OnSegment.dist x y px py.
Proof. unfold GeomProj.dist, OnSegment.dist. f_equal. ring. Qed.

Theorem candidate_sound eps radius edges o elem s :
  abs_ok (edge_of edges elem) -> poly_defined eps (egeom (edge_of edges elem)) (fst o) (snd o) ->
  candidate RNum eps radius edges o elem = CState s ->
  sedge s = Some elem /\
  (exists v mu, (S v < length (egeom (edge_of edges elem)))%nat /\ 0 <= mu <= 1 /\
     let A := nth v (egeom (edge_of edges elem)) (0,0) in let B := nth (S v) (egeom (edge_of edges elem)) (0,0) in
     spt s = on_seg (fst A) (snd A) (fst B) (snd B) mu) /\
  d2 o (spt s) < radius /\
  sd0 s + sd1 s = edge_length (edge_of edges elem).
Proof.
  intros Habs Hdef. unfold candidate. fold (edge_of edges elem). set (g := edge_of edges elem) in *.
  pose proof (proj_polyligne_sound eps (egeom g) (fst o) (snd o) Hdef) as Hp.
  destruct (proj_polyligne RNum eps (egeom g) (fst o) (snd o)) as [[[[d xp] yp] v]|]; [|discriminate].
  destruct Hp as [Hv [[mu [Hmu Hon]] Hd]].
  cbn [RNum ltb]. unfold Rltb. destruct (Rlt_dec d radius) as [Hr|Hr]; [|discriminate].
  intros [= <-]. cbn [sedge spt sd0 sd1]. split; [reflexivity|].
  split; [exists v, mu; split; [exact Hv | split; [exact Hmu | exact Hon]]|].
  split.
  - unfold d2. cbn [fst snd]. rewrite <- dist_sym4, <- Hd. exact Hr.
  - change (nth v (eabs g) 0 + d2 (nth v (egeom g) (0,0)) (xp, yp) + (nth (length (egeom g) - 1) (eabs g) 0 - nth (S v) (eabs g) 0 + d2 (nth (S v) (egeom g) (0,0)) (xp, yp)) = edge_length g).
    destruct Habs as [Hl [H0 Hs]]. specialize (Hs v Hv).
    set (A := nth v (egeom g) (0,0)) in *. set (B := nth (S v) (egeom g) (0,0)) in *. cbv zeta in Hon.
    unfold on_seg in Hon. injection Hon as Hx Hy.
    pose proof (dist_to_node_sum (nth v (eabs g) 0) (nth (S v) (eabs g) 0) (edge_length g) (fst A) (snd A) (fst B) (snd B) mu Hmu) as Hsum.
    cbv zeta in Hsum. rewrite <- Hx, <- Hy in Hsum. unfold d2 in *. cbn [fst snd] in *.
    unfold edge_length in *. specialize (Hsum Hs). lra.
Qed.

Lemma collect_sound eps radius edges o : forall E l,
  (forall e, In e E -> abs_ok (edge_of edges e) /\ poly_defined eps (egeom (edge_of edges e)) (fst o) (snd o)) ->
  collect RNum eps radius edges o E = Some l ->
  Forall (fun s => exists e, sedge s = Some e /\ state_sound radius edges o E s) l.
Proof.
  induction E as [|elem r IH]; intros l Hok Hc.
  - injection Hc as <-. constructor.
  - cbn [collect] in Hc.
    assert (Hok' : forall e, In e r -> abs_ok (edge_of edges e) /\ poly_defined eps (egeom (edge_of edges e)) (fst o) (snd o)) by (intros e He; apply Hok; right; exact He).
    assert (Hmono : forall l', Forall (fun s => exists e, sedge s = Some e /\ state_sound radius edges o r s) l' ->
                               Forall (fun s => exists e, sedge s = Some e /\ state_sound radius edges o (elem :: r) s) l').
    { intros l' H. eapply Forall_impl; [|exact H]. intros s [e [He Hs]]. exists e. split; [exact He|].
      unfold state_sound in *. rewrite He in *. destruct Hs as [Hin Hrest]. split; [right; exact Hin | exact Hrest]. }
    destruct (candidate RNum eps radius edges o elem) as [s| |] eqn:Ec; [| |discriminate].
    + destruct (collect RNum eps radius edges o r) as [l0|] eqn:Er; [|discriminate]. injection Hc as <-.
      constructor; [|apply Hmono, (IH l0 Hok' eq_refl)].
      destruct (Hok elem (or_introl eq_refl)) as [Ha Hd].
      destruct (candidate_sound eps radius edges o elem s Ha Hd Ec) as [He [Hon [Hr Hsum]]].
      exists elem. split; [exact He|]. unfold state_sound. rewrite He. split; [left; reflexivity|]. split; [exact Hon|]. split; assumption.
    + destruct (collect RNum eps radius edges o r) as [l0|] eqn:Er; [|discriminate]. injection Hc as <-.
      apply Hmono, (IH l0 Hok' eq_refl).
Qed.

(* STATES[k]: never empty; either the single unmatched state or only sound candidates *)
Theorem states_sound eps radius edges o E l :
  (forall e, In e E -> abs_ok (edge_of edges e) /\ poly_defined eps (egeom (edge_of edges e)) (fst o) (snd o)) ->
  states RNum eps radius edges o E = Some l ->
  l <> [] /\ Forall (state_sound radius edges o E) l /\
  (forall s, In s l -> sedge s = None -> l = [unmatched RNum o]).
Proof.
  intros Hok. unfold states. destruct (collect RNum eps radius edges o E) as [l0|] eqn:Ec; [|discriminate].
  pose proof (collect_sound eps radius edges o E l0 Hok Ec) as Hs.
  destruct l0 as [|s0 l0'].
  - intros [= <-]. split; [discriminate|]. split; [constructor; [reflexivity | constructor]|]. intros; reflexivity.
  - intros [= <-]. split; [discriminate|]. split.
    + eapply Forall_impl; [|exact Hs]. intros s [e [_ H]]. exact H.
    + intros s Hin Hn. rewrite Forall_forall in Hs. destruct (Hs s Hin) as [e [He _]]. congruence.
Qed.

(* the decoder picks index path[k] in STATES[k]: whatever the costs, the inferred state is one of the states *)
Definition infer (STATES : list (list state)) (path : list nat) (o0 : Pt) : list state :=
  map (fun '(Sk, l) => nth l Sk (unmatched RNum o0)) (combine STATES path).
Theorem inference_sound (P : state -> Prop) STATES path o0 :
  Forall2 (fun Sk l => (l < length Sk)%nat) STATES path ->
  Forall (Forall P) STATES ->
  Forall P (infer STATES path o0) /\ length (infer STATES path o0) = length STATES.
Proof.
  intros Hv. induction Hv as [|Sk l Ss ls Hl Hv IH]; intros HP.
  - split; [constructor | reflexivity].
  - inversion HP as [|? ? HS HSs]; subst. destruct (IH HSs) as [IH1 IH2]. unfold infer in *. cbn [combine map length].
    split; [constructor; [|exact IH1] | rewrite IH2; reflexivity].
    rewrite Forall_forall in HS. apply HS, nth_In, Hl.
Qed.
Print Assumptions states_sound.
Print Assumptions inference_sound.

(* what the guard excludes, exactly: on a vertical segment the code raises iff the query lies on the supporting line
   and y2 - y1 (the value the degenerate branch of projection_droite puts in the ordinate) falls between y1 and y2 *)
Lemma vertical_undefined x1 y1 y2 x y :
  g_incl {| sx1 := x1; sy1 := y1; sx2 := x1; sy2 := y2 |} x y = true <->
  x = x1 /\ ((y1 <= y2 - y1 <= y2) \/ (y2 <= y2 - y1 <= y1) \/ y1 = y2).
Proof.
  unfold g_incl, Geom.proj_line, cart_a, cart_b. cbn [sx1 sy1 sx2 sy2 RNum eqb sub opp zero].
  replace (- (x1 - x1)) with 0 by ring. unfold Reqb at 1. destruct (Req_EM_T 0 0) as [_|N]; [|exfalso; apply N; reflexivity].
  unfold Num.Rleb, Reqb.
  destruct (Rle_dec x1 x), (Rle_dec x x1), (Rle_dec y1 (y2 - y1)), (Rle_dec (y2 - y1) y2), (Rle_dec (y2 - y1) y1), (Rle_dec y2 (y2 - y1)), (Req_EM_T y1 y2);
    cbn; split; try discriminate; try (intros _; split; lra); try (intros [? ?]; lra); intros [Hx Hy]; try lra; try (destruct Hy as [?|[?|?]]; lra).
Qed.
