(* Spike: C19 — Raster.getCell returns a cell in range whose footprint contains the point *)
From Coq Require Import List ZArith QArith Qround Bool Lia Lqa.
From TL Require Import Model.Raster.
Open Scope Q_scope.

Lemma fl_lb x : inject_Z (Qfloor x) <= x.            Proof. apply Qfloor_le. Qed.
Lemma fl_ub x : x < inject_Z (Qfloor x) + 1.
Proof. pose proof (Qlt_floor x) as H. rewrite inject_Z_plus in H. exact H. Qed.
Lemma ceil_ub x : x <= inject_Z (Qceiling x).        Proof. apply Qle_ceiling. Qed.
Lemma fl_int_le (n : Z) x : inject_Z n <= x -> (n <= Qfloor x)%Z.
Proof. intros H. rewrite <- (Qfloor_Z n). apply Qfloor_resp_le. assumption. Qed.
Lemma fl_lt_int (n : Z) x : x < inject_Z n -> (Qfloor x < n)%Z.
Proof.
  intros H. pose proof (fl_lb x). assert (L : inject_Z (Qfloor x) < inject_Z n) by lra.
  rewrite <- Zlt_Qlt in L. exact L.
Qed.

Lemma inj_sub a b : inject_Z (a - b) == inject_Z a - inject_Z b.
Proof. unfold Z.sub. rewrite inject_Z_plus, inject_Z_opp. lra. Qed.
Lemma inj_1 : inject_Z 1 == 1. Proof. reflexivity. Qed.

Lemma some_pair_inj {A B} (a a' : A) (b b' : B) : Some (a, b) = Some (a', b') -> a = a' /\ b = b'.
Proof. intros H. injection H. auto. Qed.

Lemma Qltb_false x y : Qltb x y = false -> y <= x.
Proof. unfold Qltb. intros H. apply negb_false_iff in H. apply Qle_bool_iff in H. exact H. Qed.

(* relative coordinates *)
Definition xrel (r : raster) (x : Q) : Q := (x - xmin r) / rx r.
Definition yrel (r : raster) (y : Q) : Q := (y - ymin r) / ry r.

Definition in_col (r : raster) (c : Z) (x : Q) : Prop :=
  (inject_Z c <= xrel r x /\ xrel r x < inject_Z c + 1) \/ (xrel r x == inject_Z (ncol r) /\ c = (ncol r - 1)%Z).
(* rows are counted from the top *)
Definition in_row (r : raster) (l : Z) (y : Q) : Prop :=
  (inject_Z (nrow r - 1 - l) <= yrel r y /\ yrel r y < inject_Z (nrow r - 1 - l) + 1)
  \/ (yrel r y == inject_Z (nrow r) /\ l = 0%Z).

Lemma div_le_ceil a b : 0 < b -> 0 <= a -> a / b <= inject_Z (Qceiling (a / b)).
Proof. intros. apply ceil_ub. Qed.

Lemma div_mono a b c : 0 < c -> a <= b -> a / c <= b / c.
Proof. intros Hc H. unfold Qdiv. apply Qmult_le_compat_r; [assumption|]. apply Qlt_le_weak, Qinv_lt_0_compat. assumption. Qed.
Lemma div_pos a c : 0 < c -> 0 < a -> 0 < a / c.
Proof. intros Hc H. unfold Qdiv. apply Qmult_lt_0_compat; [assumption | apply Qinv_lt_0_compat; assumption]. Qed.
Lemma div_nonneg a c : 0 < c -> 0 <= a -> 0 <= a / c.
Proof. intros Hc H. unfold Qdiv. apply Qmult_le_0_compat; [assumption | apply Qlt_le_weak, Qinv_lt_0_compat; assumption]. Qed.

Theorem cell_footprint r x y c l : 0 < rx r -> 0 < ry r -> xmin r < xmax r -> ymin r < ymax r ->
  get_cell r x y = Some (c, l) ->
  (0 <= c < ncol r)%Z /\ (0 <= l < nrow r)%Z /\ in_col r c x /\ in_row r l y.
Proof.
  intros Hrx Hry Hxx Hyy. unfold get_cell.
  destruct (Qltb x (xmin r)) eqn:X1; [discriminate|]. destruct (Qltb (xmax r) x) eqn:X2; [discriminate|].
  destruct (Qltb y (ymin r)) eqn:Y1; [discriminate|]. destruct (Qltb (ymax r) y) eqn:Y2; [discriminate|].
  cbn [orb]. apply Qltb_false in X1, X2, Y1, Y2.
  fold (xrel r x). fold (yrel r y).
  set (idx := xrel r x). set (yr := yrel r y). set (idy := inject_Z (nrow r - 1) - yr).
  assert (Hx0 : 0 <= idx) by (unfold idx, xrel; apply div_nonneg; [assumption | lra]).
  assert (HxN : idx <= inject_Z (ncol r)).
  { unfold idx, xrel, ncol, Qceil. eapply Qle_trans; [apply div_mono; [assumption|] | apply ceil_ub]. lra. }
  assert (HN1 : 0 < inject_Z (ncol r)).
  { unfold ncol, Qceil. eapply Qlt_le_trans; [|apply ceil_ub]. apply div_pos; [assumption | lra]. }
  assert (Hy0 : 0 <= yr) by (unfold yr, yrel; apply div_nonneg; [assumption | lra]).
  assert (HyN : yr <= inject_Z (nrow r)).
  { unfold yr, yrel, nrow, Qceil. eapply Qle_trans; [apply div_mono; [assumption|] | apply ceil_ub]. lra. }
  assert (HM1 : 0 < inject_Z (nrow r)).
  { unfold nrow, Qceil. eapply Qlt_le_trans; [|apply ceil_ub]. apply div_pos; [assumption | lra]. }
  assert (Hidy : idy == inject_Z (nrow r) - 1 - yr).
  { unfold idy. rewrite inj_sub, inj_1. lra. }
  intros H. apply some_pair_inj in H. destruct H as [Hc Hl]. unfold Qfl in Hc, Hl.
  pose proof (fl_lb idx) as Fx1. pose proof (fl_ub idx) as Fx2.
  pose proof (fl_lb idy) as Fy1. pose proof (fl_ub idy) as Fy2.
  assert (Cx : (0 <= c < ncol r)%Z /\ in_col r c x).
  { unfold in_col. fold idx. revert Hc. destruct (Qeq_bool idx (inject_Z (ncol r))) eqn:E; intros Hc.
    - apply Qeq_bool_iff in E. subst c.
      assert (EF : Qfloor idx = ncol r) by (rewrite E; apply Qfloor_Z).
      rewrite EF. change 0 with (inject_Z 0) in HN1. rewrite <- Zlt_Qlt in HN1.
      split; [lia | right; split; [assumption | reflexivity]].
    - apply Qeq_bool_neq in E. subst c. split; [|left; split; [exact Fx1 | exact Fx2]].
      split; [apply fl_int_le; exact Hx0 | apply fl_lt_int; lra]. }
  destruct Cx as [Cx1 Cx2]. split; [exact Cx1|]. 
  assert (Cy : (0 <= l < nrow r)%Z /\ in_row r l y).
  { unfold in_row. fold yr.
    assert (Hlo : (-1 <= Qfloor idy)%Z) by (apply fl_int_le; change (inject_Z (-1)) with (- (1)); lra).
    assert (Hhi : (Qfloor idy < nrow r)%Z) by (apply fl_lt_int; lra).
    change 0 with (inject_Z 0) in HM1. rewrite <- Zlt_Qlt in HM1.
    unfold is_int in Hl. revert Hl. destruct (Qeq_bool idy (inject_Z (Qfloor idy))) eqn:EI; cbn [andb]; intros Hl.
    - apply Qeq_bool_iff in EI.
      revert Hl. destruct (Z.ltb_spec (-1) (Qfloor idy)) as [P|P]; intros Hl.
      + subst l. split; [lia|]. left.
        assert (R : inject_Z (nrow r - 1 - Qfloor idy) == yr).
        { rewrite !inj_sub, inj_1. lra. }
        rewrite R. split; lra.
      + assert (EQ : Qfloor idy = (-1)%Z) by lia. rewrite EQ in Hl. cbn in Hl. subst l.
        split; [lia|]. right. split; [|reflexivity]. rewrite EQ in EI. change (inject_Z (-1)) with (- (1)) in EI. lra.
    - apply Qeq_bool_neq in EI.
      assert (Hl' : l = (Qfloor idy + 1)%Z) by (destruct (Qfloor idy =? -1)%Z; symmetry; exact Hl).
      clear Hl. subst l.
      assert (Fy1' : inject_Z (Qfloor idy) < idy).
      { destruct (Qlt_le_dec (inject_Z (Qfloor idy)) idy) as [L|L]; [exact L|]. exfalso. apply EI. lra. }
      assert (Hhi2 : (Qfloor idy + 1 < nrow r)%Z).
      { (* idy < nrow - 1 strictly because yr > 0 would be needed; use idy <= nrow - 1 and non-integrality *)
        assert (L : idy <= inject_Z (nrow r - 1)) by (unfold idy; lra).
        assert (L2 : inject_Z (Qfloor idy) < inject_Z (nrow r - 1)) by lra.
        rewrite <- Zlt_Qlt in L2. lia. }
      split; [lia|]. left.
      assert (R : inject_Z (nrow r - 1 - (Qfloor idy + 1)) == inject_Z (nrow r) - 1 - inject_Z (Qfloor idy) - 1).
      { rewrite !inj_sub, inject_Z_plus, !inj_1. lra. }
      rewrite R. split; lra. }
  destruct Cy as [Cy1 Cy2]. auto.
Qed.
Print Assumptions cell_footprint.

(* a cell's footprint determines the cell: no observation can be counted in two cells *)
Theorem footprint_unique r x c c' :
  (0 <= c < ncol r)%Z -> (0 <= c' < ncol r)%Z -> in_col r c x -> in_col r c' x -> c = c'.
Proof.
  intros Hc Hc' [[A1 A2]|[A1 A2]] [[B1 B2]|[B1 B2]].
  - assert (L1 : inject_Z c < inject_Z c' + 1) by lra. assert (L2 : inject_Z c' < inject_Z c + 1) by lra.
    change 1 with (inject_Z 1) in L1, L2. rewrite <- inject_Z_plus, <- Zlt_Qlt in L1, L2. lia.
  - subst c'. rewrite B1 in A2. change 1 with (inject_Z 1) in A2. rewrite <- inject_Z_plus, <- Zlt_Qlt in A2.
    rewrite B1 in A1. rewrite <- Zle_Qle in A1. lia.
  - subst c. rewrite A1 in B2. change 1 with (inject_Z 1) in B2. rewrite <- inject_Z_plus, <- Zlt_Qlt in B2.
    rewrite A1 in B1. rewrite <- Zle_Qle in B1. lia.
  - congruence.
Qed.

(* the same for rows (counted from the top) *)
Theorem row_unique r y l l' :
  (0 <= l < nrow r)%Z -> (0 <= l' < nrow r)%Z -> in_row r l y -> in_row r l' y -> l = l'.
Proof.
  intros Hl Hl' [[A1 A2]|[A1 A2]] [[B1 B2]|[B1 B2]].
  - assert (L1 : inject_Z (nrow r - 1 - l) < inject_Z (nrow r - 1 - l') + 1) by lra.
    assert (L2 : inject_Z (nrow r - 1 - l') < inject_Z (nrow r - 1 - l) + 1) by lra.
    change 1 with (inject_Z 1) in L1, L2. rewrite <- inject_Z_plus, <- Zlt_Qlt in L1, L2. lia.
  - subst l'. rewrite B1 in A2. change 1 with (inject_Z 1) in A2. rewrite <- inject_Z_plus, <- Zlt_Qlt in A2. lia.
  - subst l. rewrite A1 in B2. change 1 with (inject_Z 1) in B2. rewrite <- inject_Z_plus, <- Zlt_Qlt in B2. lia.
  - congruence.
Qed.
Print Assumptions row_unique.
