(* Spike: field-wise comparison = comparison of instants; toAbsTime injective on
   well-formed dates; readUnixTime (toAbsTime d) = d *)
From Coq Require Import List ZArith Bool Lia.
Import ListNotations.
From TL Require Import Model.ObsTime Proofs.ObsTime_rt.
Open Scope Z_scope.

(* obs_time.py:583-597 *)
Definition lt (a b : date) : bool :=
  if negb (year a =? year b) then year a <? year b else
  if negb (month a =? month b) then month a <? month b else
  if negb (day a =? day b) then day a <? day b else
  if negb (hour a =? hour b) then hour a <? hour b else
  if negb (minute a =? minute b) then minute a <? minute b else
  if negb (sec a =? sec b) then sec a <? sec b else ms a <? ms b.

Definition eqd (a b : date) : bool :=
  (ms a =? ms b) && (sec a =? sec b) && (minute a =? minute b) && (hour a =? hour b)
  && (day a =? day b) && (month a =? month b) && (year a =? year b).

Definition to_abs_ms (t : date) : Z := 1000 * to_abs t + ms t.

(* days before month m, in days *)
Definition cumdays : list Z := [0; 31; 59; 90; 120; 151; 181; 212; 243; 273; 304; 334].
Definition cumd (b : bool) (m : Z) : Z :=
  nth (Z.to_nat (m - 1)) cumdays 0 + (if (3 <=? m) && b then 1 else 0).
Definition dimb (b : bool) (m : Z) : Z :=
  nth (Z.to_nat (m - 1)) dpm 0 + (if (m =? 2) && b then 1 else 0).

Lemma twelve m : 1 <= m <= 12 ->
  m = 1 \/ m = 2 \/ m = 3 \/ m = 4 \/ m = 5 \/ m = 6 \/ m = 7 \/ m = 8 \/ m = 9 \/ m = 10 \/ m = 11 \/ m = 12.
Proof. lia. Qed.

Ltac cases12 H := apply twelve in H;
  destruct H as [H|[H|[H|[H|[H|[H|[H|[H|[H|[H|[H|H]]]]]]]]]]]; subst.

(* the month loop of toAbsTime in closed form *)
Fixpoint months_secs_b (b : bool) (l : list Z) (k n : nat) : Z :=
  match n, l with
  | S n', d :: r => (d * 86400 + (if Nat.eqb k 1 && b then 86400 else 0)) + months_secs_b b r (S k) n'
  | _, _ => 0
  end.

Lemma months_secs_eq y : forall n l k, months_secs y l k n = months_secs_b (is_leap y) l k n.
Proof.
  induction n as [|n IH]; intros l k; [destruct l; reflexivity|]. destruct l as [|d r]; [reflexivity|].
  cbn [months_secs months_secs_b]. rewrite IH. reflexivity.
Qed.

Lemma months_secs_cum y m : 1 <= m <= 12 ->
  months_secs y dpm 0 (Z.to_nat (m - 1)) = 86400 * cumd (is_leap y) m.
Proof.
  intros H. rewrite months_secs_eq. generalize (is_leap y). intros b.
  cases12 H; destruct b; vm_compute; reflexivity.
Qed.

Lemma cum_step b m m' : 1 <= m -> m < m' -> m' <= 12 -> cumd b m + dimb b m <= cumd b m'.
Proof.
  intros H1 H2 H3. assert (Hm : 1 <= m <= 12) by lia. assert (Hm' : 1 <= m' <= 12) by lia.
  cases12 Hm; cases12 Hm'; try lia; destruct b; vm_compute; discriminate.
Qed.

Lemma cum_total b m : 1 <= m <= 12 -> 0 <= cumd b m /\ cumd b m + dimb b m <= 365 + (if b then 1 else 0).
Proof. intros H. cases12 H; destruct b; vm_compute; split; discriminate. Qed.

Lemma years_secs_S n : years_secs (S n) = years_secs n + year_len (1970 + Z.of_nat n).
Proof. reflexivity. Qed.

Lemma years_secs_lt n n' : (n < n')%nat -> years_secs n + year_len (1970 + Z.of_nat n) <= years_secs n'.
Proof.
  induction n' as [|k IH]; [lia|]. intros H. rewrite years_secs_S.
  destruct (Nat.eq_dec n k) as [->|Hne]; [lia|].
  pose proof (year_len_pos (1970 + Z.of_nat k)). specialize (IH ltac:(lia)). lia.
Qed.

(* seconds since the start of the year *)
Definition in_year (t : date) : Z :=
  86400 * cumd (is_leap (year t)) (month t) + (day t - 1) * 86400 + hour t * 3600 + minute t * 60 + sec t.

Lemma wf_fields t : wf t = true ->
  1 <= month t <= 12 /\ 1 <= day t <= dimb (is_leap (year t)) (month t) /\ 0 <= hour t < 24
  /\ 0 <= minute t < 60 /\ 0 <= sec t < 60 /\ 0 <= ms t < 1000.
Proof.
  unfold wf, dimb, days_in_month. intros H.
  repeat match type of H with (_ && _ = true) => apply andb_prop in H; destruct H as [H ?] end.
  repeat match goal with
  | H : (_ <=? _) = true |- _ => apply Z.leb_le in H
  | H : (_ <? _) = true |- _ => apply Z.ltb_lt in H end.
  lia.
Qed.

Lemma to_abs_split t : wf t = true -> to_abs t = years_secs (Z.to_nat (year t - 1970)) + in_year t.
Proof.
  intros H. apply wf_fields in H. unfold to_abs, in_year.
  rewrite months_secs_cum by lia. lia.
Qed.

Lemma in_year_bound t : wf t = true -> 0 <= in_year t < year_len (year t).
Proof.
  intros H. apply wf_fields in H. unfold in_year, year_len.
  pose proof (cum_total (is_leap (year t)) (month t) ltac:(lia)).
  destruct (is_leap (year t)); lia.
Qed.

Theorem lt_iff a b : wf a = true -> wf b = true -> 1970 <= year a -> 1970 <= year b ->
  (lt a b = true <-> to_abs_ms a < to_abs_ms b).
Proof.
  intros Wa Wb Ya Yb. unfold to_abs_ms.
  rewrite (to_abs_split a Wa), (to_abs_split b Wb).
  pose proof (in_year_bound a Wa) as Ba. pose proof (in_year_bound b Wb) as Bb.
  pose proof (wf_fields a Wa) as Fa. pose proof (wf_fields b Wb) as Fb.
  unfold lt.
  destruct (Z.eqb_spec (year a) (year b)) as [Ey|Ny]; cbn [negb].
  2:{ destruct (Z.ltb_spec (year a) (year b)) as [L|L].
      - pose proof (years_secs_lt (Z.to_nat (year a - 1970)) (Z.to_nat (year b - 1970)) ltac:(lia)) as M.
        replace (1970 + Z.of_nat (Z.to_nat (year a - 1970))) with (year a) in M by lia.
        split; [intros _; lia | reflexivity].
      - pose proof (years_secs_lt (Z.to_nat (year b - 1970)) (Z.to_nat (year a - 1970)) ltac:(lia)) as M.
        replace (1970 + Z.of_nat (Z.to_nat (year b - 1970))) with (year b) in M by lia.
        split; [discriminate | lia]. }
  unfold in_year in *. rewrite Ey in *. set (lp := is_leap (year b)) in *.
  destruct (Z.eqb_spec (month a) (month b)) as [Em|Nm]; cbn [negb].
  2:{ destruct (Z.ltb_spec (month a) (month b)) as [L|L].
      - pose proof (cum_step lp (month a) (month b) ltac:(lia) L ltac:(lia)).
        split; [intros _; lia | reflexivity].
      - pose proof (cum_step lp (month b) (month a) ltac:(lia) ltac:(lia) ltac:(lia)).
        split; [discriminate | lia]. }
  rewrite Em in *.
  destruct (Z.eqb_spec (day a) (day b)); cbn [negb];
    [|destruct (Z.ltb_spec (day a) (day b)); split; try reflexivity; try discriminate; lia].
  destruct (Z.eqb_spec (hour a) (hour b)); cbn [negb];
    [|destruct (Z.ltb_spec (hour a) (hour b)); split; try reflexivity; try discriminate; lia].
  destruct (Z.eqb_spec (minute a) (minute b)); cbn [negb];
    [|destruct (Z.ltb_spec (minute a) (minute b)); split; try reflexivity; try discriminate; lia].
  destruct (Z.eqb_spec (sec a) (sec b)); cbn [negb];
    [|destruct (Z.ltb_spec (sec a) (sec b)); split; try reflexivity; try discriminate; lia].
  destruct (Z.ltb_spec (ms a) (ms b)); split; try reflexivity; try discriminate; lia.
Qed.
Print Assumptions lt_iff.

Lemma lt_total a b : lt a b = false -> lt b a = false -> a = b.
Proof.
  unfold lt. intros H1 H2.
  destruct a as [y m d h mi s x], b as [y' m' d' h' mi' s' x']; cbn [year month day hour minute sec ms] in *.
  repeat match type of H1 with
  | (if negb (?p =? ?q) then _ else _) = false =>
      destruct (Z.eqb_spec p q); cbn [negb] in H1;
      [subst; rewrite Z.eqb_refl in H2; cbn [negb] in H2
      | exfalso; rewrite (proj2 (Z.eqb_neq q p)) in H2 by congruence; cbn [negb] in H2;
        apply Z.ltb_ge in H1; apply Z.ltb_ge in H2; lia]
  end.
  apply Z.ltb_ge in H1. apply Z.ltb_ge in H2. f_equal. lia.
Qed.

Theorem to_abs_ms_inj a b : wf a = true -> wf b = true -> 1970 <= year a -> 1970 <= year b ->
  to_abs_ms a = to_abs_ms b -> a = b.
Proof.
  intros Wa Wb Ya Yb E. apply lt_total.
  - destruct (lt a b) eqn:L; [|reflexivity]. apply (lt_iff a b Wa Wb Ya Yb) in L. lia.
  - destruct (lt b a) eqn:L; [|reflexivity]. apply (lt_iff b a Wb Wa Yb Ya) in L. lia.
Qed.

Lemma to_abs_nonneg d : wf d = true -> 1970 <= year d -> 0 <= to_abs d.
Proof.
  intros W Y. rewrite (to_abs_split d W). pose proof (in_year_bound d W).
  pose proof (years_secs_lb (Z.to_nat (year d - 1970))). lia.
Qed.

Lemma read_unix_ms s : ms (read_unix s) = 0.
Proof.
  unfold read_unix, read_with.
  destruct (year_loop _ _ _ _) as [s0 y]. destruct (month_loop _ _ _ _) as [m e1]. reflexivity.
Qed.

Theorem read_abs d : wf d = true -> 1970 <= year d -> ms d = 0 -> read_unix (to_abs d) = d.
Proof.
  intros W Y M. pose proof (to_abs_nonneg d W Y) as P.
  destruct (read_unix_wf_abs (to_abs d) P) as [W' [E Y']].
  apply to_abs_ms_inj; try assumption.
  unfold to_abs_ms. rewrite E, M, read_unix_ms. reflexivity.
Qed.
Print Assumptions read_abs.

Theorem eqd_iff a b : eqd a b = true <-> a = b.
Proof.
  unfold eqd. split.
  - intros H. repeat match type of H with (_ && _ = true) => apply andb_prop in H; destruct H as [H ?] end.
    repeat match goal with H : (_ =? _) = true |- _ => apply Z.eqb_eq in H end.
    destruct a, b; cbn in *; congruence.
  - intros ->. rewrite !Z.eqb_refl. reflexivity.
Qed.
