(* geometry.proj_segment over R (non-vertical segment) : returned point is on the segment, returned distance is
   the distance to it and the minimum over the segment *)
From Coq Require Import Reals Lra Psatz Bool.
From TL Require Import Proofs.GeomAlg.
Open Scope R_scope.

Definition Rleb (x y : R) : bool := if Rle_dec x y then true else false.
Lemma Rleb_true x y : Rleb x y = true <-> x <= y.
Proof. unfold Rleb. destruct (Rle_dec x y); split; auto; discriminate. Qed.
Lemma Rleb_false x y : Rleb x y = false <-> y < x.
Proof. unfold Rleb. destruct (Rle_dec x y); split; auto; try discriminate; intros; lra. Qed.

Definition dist (x y px py : R) : R := sqrt ((x - px) * (x - px) + (y - py) * (y - py)).

Section Seg.
Variables x1 y1 x2 y2 x y : R.
Definition a_ := y2 - y1.
Definition b_ := - (x2 - x1).
Definition c_ := - (a_ * x1 + b_ * y1).
Definition norm_ := sqrt ((- b_) * (- b_) + a_ * a_).
Definition yb_ := - c_ / b_.
Definition BH_ := ((x - 0) * (- b_) + (y - yb_) * a_) / norm_.
Definition xproj := 0 + BH_ * (- b_) / norm_.
Definition yproj := yb_ + BH_ * a_ / norm_.
Definition dline := Rabs (a_ * x + b_ * y + c_) / sqrt (a_ * a_ + b_ * b_).
Definition incl : bool :=
  ((Rleb x1 xproj && Rleb xproj x2) || (Rleb xproj x1 && Rleb x2 xproj)) &&
  ((Rleb y1 yproj && Rleb yproj y2) || (Rleb yproj y1 && Rleb y2 yproj)).
Definition proj_segment : R * R * R :=
  if incl then (dline, xproj, yproj)
  else if Rleb (dist x y x1 y1) (dist x y x2 y2) then (dist x y x1 y1, x1, y1) else (dist x y x2 y2, x2, y2).

Hypothesis Hnv : x1 <> x2.
Definition L2 := (x2 - x1) * (x2 - x1) + (y2 - y1) * (y2 - y1).
Definition lam := ((x - x1) * (x2 - x1) + (y - y1) * (y2 - y1)) / L2.

Lemma L2_pos : 0 < L2.
Proof.
  unfold L2. assert (0 < (x2 - x1) * (x2 - x1)) by (destruct (Rtotal_order (x2 - x1) 0) as [H|[H|H]]; [nra | lra | nra]).
  pose proof (Rle_0_sqr (y2 - y1)) as H1. unfold Rsqr in H1. lra.
Qed.

Lemma norm_sq : norm_ * norm_ = L2.
Proof. unfold norm_. rewrite sqrt_sqrt; [unfold a_, b_, L2; ring|]. pose proof L2_pos. unfold L2, a_, b_ in *. lra. Qed.
Lemma norm_pos : 0 < norm_.
Proof. unfold norm_. apply sqrt_lt_R0. pose proof L2_pos. unfold L2, a_, b_ in *. lra. Qed.

Lemma lam_eq : lam * L2 = (x - x1) * (x2 - x1) + (y - y1) * (y2 - y1).
Proof. unfold lam. field. pose proof L2_pos. lra. Qed.

Lemma xproj_eq : xproj = x1 + lam * (x2 - x1).
Proof.
  unfold xproj, BH_. pose proof norm_pos as Hn. pose proof norm_sq as Hs.
  replace (((x - 0) * - b_ + (y - yb_) * a_) / norm_ * - b_ / norm_) with (((x - 0) * - b_ + (y - yb_) * a_) * - b_ / (norm_ * norm_)) by (field; lra).
  rewrite Hs. unfold yb_, c_. pose proof (foot_alg_x x1 y1 x2 y2 x y Hnv) as H. cbv zeta in H. fold a_ b_ in H. unfold L2, lam, a_, b_ in *. exact H.
Qed.
Lemma yproj_eq : yproj = y1 + lam * (y2 - y1).
Proof.
  unfold yproj, BH_. pose proof norm_pos as Hn. pose proof norm_sq as Hs.
  replace (((x - 0) * - b_ + (y - yb_) * a_) / norm_ * a_ / norm_) with (((x - 0) * - b_ + (y - yb_) * a_) * a_ / (norm_ * norm_)) by (field; lra).
  rewrite Hs. unfold yb_, c_. pose proof (foot_alg_y x1 y1 x2 y2 x y Hnv) as H. cbv zeta in H. unfold L2, lam, a_, b_ in *. exact H.
Qed.
End Seg.

Lemma foot_sq x1 y1 x2 y2 x y l :
  let LL := (x2 - x1) * (x2 - x1) + (y2 - y1) * (y2 - y1) in
  let dot := (x - x1) * (x2 - x1) + (y - y1) * (y2 - y1) in
  l * LL = dot ->
  ((y2 - y1) * x + - (x2 - x1) * y + - ((y2 - y1) * x1 + - (x2 - x1) * y1)) * ((y2 - y1) * x + - (x2 - x1) * y + - ((y2 - y1) * x1 + - (x2 - x1) * y1))
  = ((x - (x1 + l * (x2 - x1))) * (x - (x1 + l * (x2 - x1))) + (y - (y1 + l * (y2 - y1))) * (y - (y1 + l * (y2 - y1)))) * LL.
Proof.
  intros LL dot Hl.
  assert (E1 : ((x - (x1 + l * (x2 - x1))) * (x - (x1 + l * (x2 - x1))) + (y - (y1 + l * (y2 - y1))) * (y - (y1 + l * (y2 - y1)))) * LL
               = ((x - x1) * (x - x1) + (y - y1) * (y - y1)) * LL - 2 * (l * LL) * dot + (l * LL) * (l * LL)) by (unfold LL, dot; ring).
  rewrite E1, Hl. unfold LL, dot. ring.
Qed.

Section Main.
Variables x1 y1 x2 y2 x y : R.
Hypothesis Hnv : x1 <> x2.
Definition lm := lam x1 y1 x2 y2 x y.
Definition LL := L2 x1 y1 x2 y2.

Lemma between_x (t : R) : ((x1 <= x1 + t * (x2 - x1) <= x2) \/ (x2 <= x1 + t * (x2 - x1) <= x1)) <-> 0 <= t <= 1.
Proof.
  destruct (Rtotal_order x1 x2) as [H|[H|H]]; [|contradiction|]; split; intros Ht; nra.
Qed.

Lemma between_y (t : R) : 0 <= t <= 1 -> (y1 <= y1 + t * (y2 - y1) <= y2) \/ (y2 <= y1 + t * (y2 - y1) <= y1).
Proof. intros Ht. destruct (Rle_dec y1 y2); [left | right]; nra. Qed.

Lemma incl_iff : incl x1 y1 x2 y2 x y = true <-> 0 <= lm <= 1.
Proof.
  unfold incl, lm. rewrite (xproj_eq x1 y1 x2 y2 x y Hnv), (yproj_eq x1 y1 x2 y2 x y Hnv).
  rewrite andb_true_iff, !orb_true_iff, !andb_true_iff, !Rleb_true.
  split.
  - intros [Hx _]. apply between_x. tauto.
  - intros Ht. split; [apply between_x in Ht; tauto | apply between_y in Ht; tauto].
Qed.

(* perpendicular distance = distance to the foot *)
Lemma dline_is_dist : dline x1 y1 x2 y2 x y = dist x y (x1 + lm * (x2 - x1)) (y1 + lm * (y2 - y1)).
Proof.
  unfold dline, dist.
  set (a := a_ y1 y2). set (b := b_ x1 x2). set (c := c_ x1 y1 x2 y2).
  assert (HL : a * a + b * b = LL) by (unfold a, b, a_, b_, LL, L2; ring).
  pose proof (L2_pos x1 y1 x2 y2 Hnv) as HLp. fold LL in HLp. rewrite HL.
  pose proof (lam_eq x1 y1 x2 y2 x y Hnv) as Hl. fold lm LL in Hl.
  assert (E : (a * x + b * y + c) * (a * x + b * y + c)
            = ((x - (x1 + lm * (x2 - x1))) * (x - (x1 + lm * (x2 - x1))) + (y - (y1 + lm * (y2 - y1))) * (y - (y1 + lm * (y2 - y1)))) * LL).
  { unfold a, b, c, a_, b_, c_, LL, L2. apply (foot_sq x1 y1 x2 y2 x y lm). exact Hl. }
  rewrite <- sqrt_Rsqr_abs. unfold Rsqr. rewrite E.
  rewrite sqrt_mult by (try apply sumsq_nonneg; lra).
  field. apply Rgt_not_eq. apply sqrt_lt_R0. assumption.
Qed.
End Main.

Section Final.
Variables x1 y1 x2 y2 x y : R.
Hypothesis Hnv : x1 <> x2.

Definition on_seg (mu : R) : R * R := (x1 + mu * (x2 - x1), y1 + mu * (y2 - y1)).

Lemma dist_le (px py qx qy : R) :
  (x - px) ^ 2 + (y - py) ^ 2 <= (x - qx) ^ 2 + (y - qy) ^ 2 -> dist x y px py <= dist x y qx qy.
Proof.
  intros H. unfold dist. apply sqrt_le_1_alt.
  replace ((x - px) * (x - px) + (y - py) * (y - py)) with ((x - px) ^ 2 + (y - py) ^ 2) by ring.
  replace ((x - qx) * (x - qx) + (y - qy) * (y - qy)) with ((x - qx) ^ 2 + (y - qy) ^ 2) by ring. exact H.
Qed.

Lemma dist_le_inv (px py qx qy : R) :
  dist x y px py <= dist x y qx qy -> (x - px) ^ 2 + (y - py) ^ 2 <= (x - qx) ^ 2 + (y - qy) ^ 2.
Proof.
  unfold dist. intros H.
  replace ((x - px) ^ 2 + (y - py) ^ 2) with ((x - px) * (x - px) + (y - py) * (y - py)) by ring.
  replace ((x - qx) ^ 2 + (y - qy) ^ 2) with ((x - qx) * (x - qx) + (y - qy) * (y - qy)) by ring.
  apply sqrt_le_0; [apply sumsq_nonneg | apply sumsq_nonneg | exact H].
Qed.

(* C20 for one non-vertical segment *)
Theorem proj_segment_nearest :
  let '(d, px, py) := proj_segment x1 y1 x2 y2 x y in
  (exists mu, 0 <= mu <= 1 /\ (px, py) = on_seg mu) /\
  d = dist x y px py /\
  forall mu, 0 <= mu <= 1 -> d <= dist x y (fst (on_seg mu)) (snd (on_seg mu)).
Proof.
  pose proof (lam_eq x1 y1 x2 y2 x y Hnv) as Hl.
  pose proof (L2_pos x1 y1 x2 y2 Hnv) as HLp.
  set (l := lam x1 y1 x2 y2 x y) in *.
  unfold proj_segment. destruct (incl x1 y1 x2 y2 x y) eqn:Ei.
  - apply (incl_iff x1 y1 x2 y2 x y Hnv) in Ei. fold (lm x1 y1 x2 y2 x y) in Ei. unfold lm in Ei. fold l in Ei.
    rewrite (xproj_eq x1 y1 x2 y2 x y Hnv), (yproj_eq x1 y1 x2 y2 x y Hnv). fold l.
    split; [exists l; split; [assumption | reflexivity]|].
    split; [rewrite (dline_is_dist x1 y1 x2 y2 x y Hnv); reflexivity|].
    intros mu Hmu. rewrite (dline_is_dist x1 y1 x2 y2 x y Hnv). unfold lm. fold l. unfold on_seg. simpl fst; simpl snd.
    apply dist_le. apply (nearest_foot x1 y1 x2 y2 x y l mu). exact Hl.
  - assert (Hout : ~ (0 <= l <= 1)).
    { intros H. apply (incl_iff x1 y1 x2 y2 x y Hnv) in H. congruence. }
    assert (HA : (x1, y1) = on_seg 0) by (unfold on_seg; f_equal; ring).
    assert (HB : (x2, y2) = on_seg 1) by (unfold on_seg; f_equal; ring).
    (* nearest end point: A when l <= 0, B when l >= 1 *)
    assert (Hnear : forall mu, 0 <= mu <= 1 ->
              (l <= 0 -> (x - x1) ^ 2 + (y - y1) ^ 2 <= (x - (x1 + mu * (x2 - x1))) ^ 2 + (y - (y1 + mu * (y2 - y1))) ^ 2) /\
              (1 <= l -> (x - x2) ^ 2 + (y - y2) ^ 2 <= (x - (x1 + mu * (x2 - x1))) ^ 2 + (y - (y1 + mu * (y2 - y1))) ^ 2)).
    { intros mu Hmu. split; intros Hl0.
      - apply (nearest_end x1 y1 x2 y2 x y l mu HLp Hl Hl0 Hmu).
      - (* symmetric statement obtained by swapping the end points: parameter 1 - l <= 0, point 1 - mu *)
        pose proof (nearest_end x2 y2 x1 y1 x y (1 - l) (1 - mu)) as Hs. cbv zeta in Hs.
        replace (x2 + (1 - mu) * (x1 - x2)) with (x1 + mu * (x2 - x1)) in Hs by ring.
        replace (y2 + (1 - mu) * (y1 - y2)) with (y1 + mu * (y2 - y1)) in Hs by ring.
        apply Hs; [unfold L2 in HLp; nra | unfold L2 in Hl; nra | lra | lra]. }
    destruct (Rleb (dist x y x1 y1) (dist x y x2 y2)) eqn:Ec.
    + apply Rleb_true in Ec. split; [exists 0; split; [lra | exact HA]|]. split; [reflexivity|].
      intros mu Hmu. unfold on_seg. simpl fst; simpl snd. destruct (Hnear mu Hmu) as [H0 H1].
      destruct (Rle_dec l 0) as [Hl0|Hl0].
      * apply dist_le. apply H0. assumption.
      * assert (Hl1 : 1 <= l) by lra. eapply Rle_trans; [exact Ec|]. apply dist_le. apply H1. assumption.
    + apply Rleb_false in Ec. split; [exists 1; split; [lra | exact HB]|]. split; [reflexivity|].
      intros mu Hmu. unfold on_seg. simpl fst; simpl snd. destruct (Hnear mu Hmu) as [H0 H1].
      destruct (Rle_dec l 0) as [Hl0|Hl0].
      * eapply Rle_trans; [apply Rlt_le; exact Ec|]. apply dist_le. apply H0. assumption.
      * assert (Hl1 : 1 <= l) by lra. apply dist_le. apply H1. assumption.
Qed.
End Final.
Print Assumptions proj_segment_nearest.
