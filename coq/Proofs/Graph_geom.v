(* C07 (geometry part): the Track returned by run_routing_backward is the junction-merged chain of the edge polylines of
   the shortest walk, each oriented along the direction of travel, from the source's position to the target's *)
From Coq Require Import List Arith ZArith QArith Bool Lia Lqa.
Import ListNotations.
From TL Require Import Model.Graph Proofs.Graph_inv Proofs.Graph_ante Proofs.Graph_target Proofs.Graph_path Proofs.PathGeom.

Section Geo.
Variable pt : Type.
Variable d0 : pt.
Variable g : graph.
Variable pos : nat -> pt.             (* node positions *)
Variable geom : edge -> list pt.      (* edge polylines as stored: from the edge's source node to its target node *)
Hypothesis geom_ok : forall e, In e g -> geom e <> [] /\ hd d0 (geom e) = pos (esrc e) /\ last (geom e) d0 = pos (etgt e).
Hypothesis ids_unique : forall e e', In e g -> In e' g -> eid e = eid e' -> e = e'.

Definition edge_of (k : nat) : option edge := find (fun e => (eid e =? k)%nat) g.

Lemma edge_of_in e : In e g -> edge_of (eid e) = Some e.
Proof.
  intros He. unfold edge_of. destruct (find (fun e0 => (eid e0 =? eid e)%nat) g) as [e'|] eqn:F.
  - apply find_some in F. destruct F as [Hin E]. apply Nat.eqb_eq in E. f_equal. apply ids_unique; assumption.
  - exfalso. pose proof (find_none _ _ F e He) as Z. cbn beta in Z. rewrite Nat.eqb_refl in Z. discriminate.
Qed.

(* "edge_geom = e.geom.copy(); if e.source != node: edge_geom = edge_geom.reverse()" at the current node v *)
Definition og (k v : nat) : list pt :=
  match edge_of k with Some e => if (esrc e =? v)%nat then geom e else rev (geom e) | None => [] end.

Fixpoint back_geoms (fuel : nat) (s : st) (v : nat) : list (list pt) :=
  match fuel with
  | O => []
  | S f => match ante s v with None => [] | Some (u, k) => og k v :: back_geoms f s u end
  end.

(* the coordinates of the returned Track *)
Definition path_geometry (s : st) (t : nat) : option (list pt) :=
  match ante s t with
  | None => None
  | Some _ => Some (backward pt (pos t) (back_geoms (S (length (order s))) s t))
  end.

(* polyline of edge e travelled from u (to fils e u) *)
Definition travel_geom (u : nat) (e : edge) : list pt := if (esrc e =? fils e u)%nat then rev (geom e) else geom e.
Fixpoint travel (u : nat) (es : list edge) : list (list pt) :=
  match es with [] => [] | e :: r => travel_geom u e :: travel (fils e u) r end.

Lemma back_geoms_combine s : forall fuel v,
  back_geoms fuel s v = map (fun p => og (snd p) (fst p)) (combine (walk_back fuel s v) (back_edges fuel s v)).
Proof.
  induction fuel as [|f IH]; intros v; cbn [back_geoms walk_back back_edges]; [reflexivity|].
  destruct (ante s v) as [[u k]|]; [|reflexivity]. cbn [combine map fst snd]. rewrite IH. reflexivity.
Qed.

Lemma combine_rev {A B} : forall (a : list A) (b : list B), length a = length b -> combine (rev a) (rev b) = rev (combine a b).
Proof.
  induction a as [|x a IH]; intros [|y b] H; cbn in H; try discriminate; [reflexivity|].
  cbn [rev combine]. injection H as H.
  assert (L : length (rev a) = length (rev b)) by (rewrite !rev_length; exact H).
  rewrite <- IH by exact H. clear IH.
  revert L. generalize (rev a) (rev b). intros l. induction l as [|p l IHl]; intros [|q m] L; cbn in L; try discriminate; [reflexivity|].
  cbn [app combine]. f_equal. apply IHl. lia.
Qed.

Lemma combine_drop_extra {A B} : forall (a : list A) (x : A) (b : list B), length a = length b -> combine (a ++ [x]) b = combine a b.
Proof.
  induction a as [|y a IH]; intros x [|z b] H; cbn in H; try discriminate; [reflexivity|].
  cbn [app combine]. f_equal. apply IH. lia.
Qed.

Lemma nodes_from_length u es : length (nodes_from u es) = S (length es).
Proof. revert u. induction es as [|e r IH]; intros u; cbn [nodes_from length]; [reflexivity | rewrite IH; reflexivity]. Qed.

Lemma walk_in u t es : walk g u t es -> forall e, In e es -> In e g.
Proof. induction 1 as [u|u e0 p t He0 Hw IH]; intros e H; [destruct H|]. destruct H as [<-|H]; [eapply next_edges_in; eassumption | apply IH; assumption]. Qed.

(* in travel order, each polyline reversed back: exactly the travel polylines *)
Lemma travel_of_back u t es : walk g u t es ->
  map (@rev pt) (map (fun p => og (snd p) (fst p)) (combine (tl (nodes_from u es)) (map eid es))) = travel u es.
Proof.
  induction 1 as [u|u e p t He Hw IH]; [reflexivity|].
  cbn [nodes_from tl map travel].
  destruct p as [|e2 p2] eqn:Ep.
  - cbn [nodes_from tl combine map travel fst snd]. f_equal. unfold og, travel_geom.
    rewrite (edge_of_in e (next_edges_in g u e He)). destruct (esrc e =? fils e u)%nat; [reflexivity | apply rev_involutive].
  - rewrite <- Ep in *. 
    assert (N : nodes_from (fils e u) p = fils e u :: tl (nodes_from (fils e u) p)) by (destruct p; reflexivity).
    rewrite N. cbn [combine map fst snd]. f_equal.
    + unfold og, travel_geom. rewrite (edge_of_in e (next_edges_in g u e He)). destruct (esrc e =? fils e u)%nat; [reflexivity | apply rev_involutive].
    + exact IH.
Qed.

(* the travel polylines are continuous, start at the position of the first node and end at the position of the last *)
Lemma travel_geom_ends u e : In e (next_edges g u) ->
  travel_geom u e <> [] /\ hd d0 (travel_geom u e) = pos u /\ last (travel_geom u e) d0 = pos (fils e u).
Proof.
  intros He. pose proof (next_edges_in g u e He) as Hin. destruct (geom_ok e Hin) as [Hne [Hh Hl]].
  assert (Hrev : rev (geom e) <> [] /\ hd d0 (rev (geom e)) = last (geom e) d0 /\ last (rev (geom e)) d0 = hd d0 (geom e)).
  { destruct (geom e) as [|x l] eqn:E; [congruence|]. split; [intros Z; apply (f_equal (@rev pt)) in Z; rewrite rev_involutive in Z; cbn in Z; congruence|].
    split.
    - destruct (exists_last (l := x :: l) ltac:(discriminate)) as [l' [y Ey]]. rewrite Ey. rewrite rev_app_distr. cbn. rewrite last_last. reflexivity.
    - cbn [rev hd]. apply last_last. }
  destruct Hrev as [R1 [R2 R3]].
  (* which end of the edge is u *)
  unfold next_edges in He. apply in_flat_map in He. destruct He as [e' [_ He]]. unfold next_of in He.
  apply in_app_or in He.
  assert (Hcase : (esrc e = u) \/ (etgt e = u)).
  { destruct He as [He|He].
    - destruct ((0 <=? eori e')%Z && (esrc e' =? u)%nat) eqn:B; [|destruct He]. destruct He as [<-|[]].
      apply andb_prop in B. destruct B as [_ B]. apply Nat.eqb_eq in B. left; exact B.
    - destruct ((eori e' <=? 0)%Z && (etgt e' =? u)%nat) eqn:B; [|destruct He]. destruct He as [<-|[]].
      apply andb_prop in B. destruct B as [_ B]. apply Nat.eqb_eq in B. right; exact B. }
  unfold travel_geom, fils.
  destruct (Nat.eqb_spec (etgt e) u) as [Et|Et].
  - (* arriving at the edge's source: the stored polyline is travelled backwards *)
    rewrite Nat.eqb_refl. split; [exact R1|]. split; [rewrite R2, Hl, Et; reflexivity | rewrite R3, Hh; reflexivity].
  - destruct Hcase as [Es|Es]; [|contradiction].
    destruct (Nat.eqb_spec (esrc e) (etgt e)) as [E|E]; [exfalso; apply Et; rewrite <- E; exact Es|].
    split; [exact Hne|]. split; [rewrite Hh, Es; reflexivity | exact Hl].
Qed.

Lemma travel_continuous u t es : walk g u t es -> continuous pt d0 (travel u es) (pos t) /\
  (es <> [] -> hd d0 (hd [] (travel u es)) = pos u).
Proof.
  induction 1 as [u|u e p t He Hw [IHc IHh]]; [split; [exact I | congruence]|].
  destruct (travel_geom_ends u e He) as [Hne [Hh Hl]].
  split; [|intros _; exact Hh].
  cbn [travel continuous]. split; [exact Hne|]. split; [|exact IHc].
  rewrite Hl. destruct p as [|e2 p2].
  - inversion Hw; subst. reflexivity.
  - cbn [travel]. symmetry. apply (IHh ltac:(discriminate)).
Qed.

(* C07, geometry: for the walk es singled out by shortest_path_correct (nodes = nodes_from src es, ids = map eid es) *)
Theorem path_geometry_correct src s t es : es <> [] -> walk g src t es ->
  rev (walk_back (S (length (order s))) s t) = nodes_from src es ->
  rev (back_edges (S (length (order s))) s t) = map eid es ->
  ante s t <> None ->
  path_geometry s t = Some (join pt (travel src es)) /\
  continuous pt d0 (travel src es) (pos t) /\ hd d0 (hd [] (travel src es)) = pos src.
Proof.
  intros Hne Hw Hn Hk Ha. destruct (travel_continuous src t es Hw) as [Hc Hh]. split; [|split; [exact Hc | apply Hh; exact Hne]].
  unfold path_geometry. destruct (ante s t) as [a|]; [|congruence]. f_equal.
  set (fuel := S (length (order s))) in *.
  assert (Egs : map (@rev pt) (rev (back_geoms fuel s t)) = travel src es).
  { rewrite back_geoms_combine, <- map_rev.
    apply (f_equal (@rev nat)) in Hn, Hk. rewrite rev_involutive in Hn, Hk.
    rewrite Hn, Hk.
    assert (Nf : nodes_from src es = src :: tl (nodes_from src es)) by (destruct es; reflexivity).
    rewrite Nf. cbn [rev].
    assert (L : length (tl (nodes_from src es)) = length (map eid es)).
    { rewrite map_length. pose proof (nodes_from_length src es) as NL. rewrite Nf in NL. cbn in NL. lia. }
    rewrite combine_drop_extra by (rewrite !rev_length; exact L).
    rewrite combine_rev by exact L. rewrite rev_involutive.
    apply (travel_of_back src t es Hw). }
  rewrite <- Egs. apply (backward_geometry pt d0).
  - intros Z. rewrite Z in Egs. cbn in Egs. destruct es; [congruence | discriminate].
  - rewrite Egs. exact Hc.
Qed.
End Geo.
Print Assumptions path_geometry_correct.
