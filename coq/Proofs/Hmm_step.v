From Coq Require Import List Arith QArith Bool Lia Lqa.
Import ListNotations.
From TL Require Import Model.Hmm Proofs.Hmm_inner Proofs.Hmm_cost.
Open Scope Q_scope.

Lemma last_cons {A} (x : A) l d : last (x :: l) d = last l x.
Proof. revert x. induction l as [|y l IH]; intros x; [reflexivity|]. simpl in *. destruct l; [reflexivity | apply IH]. Qed.

Lemma last_valid_bound : forall es e0 s, valid (e0 :: es) s -> (last s 0%nat < nstates (last es e0))%nat.
Proof.
  induction es as [|e es IH]; intros e0 s Hv.
  - inversion Hv as [|? x ? t Hx Ht]; subst. inversion Ht; subst. simpl. assumption.
  - inversion Hv as [|? x ? t Hx Ht]; subst. specialize (IH e t Ht).
    destruct t as [|y t]; [inversion Ht|].
    rewrite (last_cons x (y :: t) 0%nat). rewrite (last_cons e es e0).
    rewrite (last_cons y t x). rewrite (last_cons y t 0%nat) in IH. assumption.
Qed.

Lemma hd_indep {A} (l : list A) d d' : l <> [] -> hd d l = hd d' l.
Proof. destruct l; [contradiction | reflexivity]. Qed.

Lemma colinv_step e0 done cols e :
  ColInv e0 done cols -> (0 < nstates (last done e0))%nat ->
  (forall s l, valid (e0 :: done) s -> total_cost e0 done s + qcost e (last s 0%nat) l < BIG) ->
  ColInv e0 (done ++ [e]) (step_col (map fst (hd [] cols)) e :: cols).
Proof.
  intros HI Hpos Hbig. destruct HI as [Hlen Hcol Hpath].
  set (ck := hd [] cols) in *. set (prev := map fst ck).
  assert (Hprevlen : length prev = nstates (last done e0)) by (unfold prev; rewrite map_length; apply Hcol).
  assert (Hnth : forall i, nth i prev 0 = fst (nth i ck (0, 0%nat))).
  { intros i. unfold prev. change 0 with (fst (0, 0%nat)) at 1. apply map_nth. }
  constructor.
  - simpl. rewrite app_length. simpl. lia.
  - intros d. cbn [hd]. unfold step_col. rewrite map_length, seq_length. rewrite last_last. reflexivity.
  - intros l d Hl. rewrite last_last in Hl. cbn [hd backward].
    set (f := fun l0 : nat => let '(bv, ba) := best_pred prev (fun m : nat => qcost e m l0) 0 BIG 0 in (bv + pcost e l0, ba)).
    assert (Ecol : forall dd, nth l (step_col prev e) dd = f l) by (intros dd; apply (nth_map_seq f); assumption).
    rewrite !Ecol. unfold f.
    assert (Hne : prev <> []) by (intros E; rewrite E in Hprevlen; simpl in Hprevlen; lia).
    assert (Hb : forall i, (i < length prev)%nat -> qcost e i l + nth i prev 0 < BIG).
    { intros i Hi. rewrite Hprevlen in Hi. destruct (Hpath i [] Hi) as [Hv [Hlast [Hc _]]].
      specialize (Hbig _ l Hv). rewrite Hlast in Hbig. rewrite Hnth. fold ck in Hc. lra. }
    pose proof (best_pred_spec (fun m => qcost e m l) prev Hne Hb) as Hs. cbv zeta in Hs.
    destruct (best_pred prev (fun m : nat => qcost e m l) 0 BIG 0) as [bv ba]. cbn [fst snd] in *.
    destruct Hs as [Hba [Hbv Hmin]]. rewrite Hprevlen in Hba.
    destruct (Hpath ba [] Hba) as [Hv [Hlast [Hc Hopt]]]. fold ck in Hc, Hopt.
    cbn [rev]. set (sb := rev (backward cols ba)) in *.
    split; [|split; [|split]].
    + change (e0 :: done ++ [e]) with ((e0 :: done) ++ [e]). apply Forall2_app; [assumption | repeat constructor; assumption].
    + apply last_last.
    + rewrite total_cost_snoc by (apply valid_length; assumption).
      rewrite Hlast. rewrite Hbv, Hnth. lra.
    + intros s' Hv' Hlast'.
      change (e0 :: done ++ [e]) with ((e0 :: done) ++ [e]) in Hv'.
      destruct (valid_snoc_inv _ _ _ Hv') as [s'' [l' [Es [Hv'' Hl']]]]. subst s'.
      rewrite last_last in Hlast'. subst l'.
      rewrite total_cost_snoc by (apply valid_length; assumption).
      pose proof (last_valid_bound done e0 s'' Hv'') as Hm.
      destruct (Hpath (last s'' 0%nat) [] Hm) as [_ [_ [_ Hoptm]]]. fold ck in Hoptm.
      specialize (Hoptm s'' Hv'' eq_refl).
      specialize (Hmin (last s'' 0%nat) ltac:(rewrite Hprevlen; assumption)). rewrite Hnth in Hmin. lra.
Qed.
