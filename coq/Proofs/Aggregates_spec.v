From Coq Require Import List Arith QArith Bool Lia Lqa.
Import ListNotations.
From TL Require Import Model.Aggregates.
Open Scope Q_scope.

Definition valid (l : list val) : list Q := flat_map (fun v => match v with Some x => [x] | None => [] end) l.

Lemma co_count_spec l : co_count l = length (valid l).
Proof.
  unfold co_count. assert (H : forall c, fold_left (fun c v => match v with Some _ => S c | None => c end) l c = (c + length (valid l))%nat).
  { induction l as [|[x|] l IH]; intros c; simpl; [lia | rewrite IH; lia | apply IH]. }
  apply H.
Qed.

Lemma co_sum_spec l : co_sum l == fold_right Qplus 0 (valid l).
Proof.
  unfold co_sum. assert (H : forall s, fold_left (fun s v => match v with Some x => s + x | None => s end) l s == s + fold_right Qplus 0 (valid l)).
  { induction l as [|[x|] l IH]; intros s; simpl; [lra | rewrite IH; lra | apply IH]. }
  rewrite H. lra.
Qed.

Definition min_step (m v : val) : val :=
  match v with None => m | Some x => match m with None => Some x | Some y => if Qltb x y then Some x else m end end.

Lemma min_fold : forall l acc m, fold_left min_step l acc = Some m ->
  (acc = Some m \/ In m (valid l)) /\ (forall y, acc = Some y -> m <= y) /\ (forall x, In x (valid l) -> m <= x).
Proof.
  induction l as [|[x|] l IH]; intros acc m H; simpl in H.
  - subst acc. split; [left; reflexivity|]. split; [intros y [= <-]; lra | intros x []].
  - destruct (IH _ m H) as [Hin [Hacc Hall]]. simpl valid.
    destruct acc as [y|]; simpl in *.
    + unfold Qltb in *. destruct (Qlt_le_dec x y) as [Hlt|Hge].
      * specialize (Hacc x eq_refl). split; [|split].
        -- destruct Hin as [[= <-]|Hin]; [right; left; reflexivity | right; right; assumption].
        -- intros z [= <-]. lra.
        -- intros z [<-|Hz]; [assumption | apply Hall; assumption].
      * specialize (Hacc y eq_refl). split; [|split].
        -- destruct Hin as [Hin|Hin]; [left; assumption | right; right; assumption].
        -- intros z [= <-]. assumption.
        -- intros z [<-|Hz]; [lra | apply Hall; assumption].
    + specialize (Hacc x eq_refl). split; [|split].
      * destruct Hin as [[= <-]|Hin]; [right; left; reflexivity | right; right; assumption].
      * intros z Hz. discriminate.
      * intros z [<-|Hz]; [assumption | apply Hall; assumption].
  - apply (IH acc m H).
Qed.

Lemma min_fold_none : forall l acc, fold_left min_step l acc = None -> acc = None /\ valid l = [].
Proof.
  induction l as [|[x|] l IH]; intros acc H; simpl in H.
  - auto.
  - destruct (IH _ H) as [Ha _]. destruct acc as [y|]; simpl in Ha; [destruct (Qltb x y); discriminate | discriminate].
  - apply (IH acc H).
Qed.

(* minimum over exactly the non-NaN values; NaN iff there is none *)
Theorem co_min_spec l :
  match co_min l with
  | None => valid l = []
  | Some m => In m (valid l) /\ forall x, In x (valid l) -> m <= x
  end.
Proof.
  change (co_min l) with (fold_left min_step l None).
  destruct (fold_left min_step l None) as [m|] eqn:E.
  - destruct (min_fold l None m E) as [[H|H] [_ Hall]]; [discriminate | split; assumption].
  - apply (min_fold_none l None E).
Qed.
Print Assumptions co_min_spec.
