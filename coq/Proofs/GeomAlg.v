From Coq Require Import Reals Lra Psatz.
Open Scope R_scope.
Lemma sumsq_nonneg u v : 0 <= u * u + v * v.
Proof. pose proof (Rle_0_sqr u) as H1. pose proof (Rle_0_sqr v) as H2. unfold Rsqr in *. lra. Qed.
Lemma foot_alg_x x1 y1 x2 y2 x y : x1 <> x2 ->
  let a := y2 - y1 in let b := - (x2 - x1) in let c := - (a * x1 + b * y1) in
  let L2 := (x2 - x1) * (x2 - x1) + (y2 - y1) * (y2 - y1) in
  0 + ((x - 0) * (- b) + (y - (- c / b)) * a) * (- b) / L2
  = x1 + ((x - x1) * (x2 - x1) + (y - y1) * (y2 - y1)) / L2 * (x2 - x1).
Proof.
  intros Hnv a b c L2.
  assert (HL : L2 <> 0).
  { unfold L2. assert (0 < (x2 - x1) * (x2 - x1)) by (destruct (Rtotal_order (x2 - x1) 0) as [H|[H|H]]; [nra | lra | nra]).
    pose proof (Rle_0_sqr (y2 - y1)) as H1. unfold Rsqr in H1. lra. }
  unfold c, b, a in *. unfold L2 in *. field. repeat split; try lra; try assumption; try (intro HH; apply HL; rewrite <- HH; ring).
Qed.
Lemma foot_alg_y x1 y1 x2 y2 x y : x1 <> x2 ->
  let a := y2 - y1 in let b := - (x2 - x1) in let c := - (a * x1 + b * y1) in
  let L2 := (x2 - x1) * (x2 - x1) + (y2 - y1) * (y2 - y1) in
  (- c / b) + ((x - 0) * (- b) + (y - (- c / b)) * a) * a / L2
  = y1 + ((x - x1) * (x2 - x1) + (y - y1) * (y2 - y1)) / L2 * (y2 - y1).
Proof.
  intros Hnv a b c L2.
  assert (HL : L2 <> 0).
  { unfold L2. assert (0 < (x2 - x1) * (x2 - x1)) by (destruct (Rtotal_order (x2 - x1) 0) as [H|[H|H]]; [nra | lra | nra]).
    pose proof (Rle_0_sqr (y2 - y1)) as H1. unfold Rsqr in H1. lra. }
  unfold c, b, a in *. unfold L2 in *. field. repeat split; try lra; try assumption; try (intro HH; apply HL; rewrite <- HH; ring).
Qed.
(* nearest point: for the foot parameter lam in [0,1] *)
Lemma nearest_foot x1 y1 x2 y2 x y lam mu :
  let L2 := (x2 - x1) * (x2 - x1) + (y2 - y1) * (y2 - y1) in
  lam * L2 = (x - x1) * (x2 - x1) + (y - y1) * (y2 - y1) ->
  (x - (x1 + lam * (x2 - x1)))^2 + (y - (y1 + lam * (y2 - y1)))^2
  <= (x - (x1 + mu * (x2 - x1)))^2 + (y - (y1 + mu * (y2 - y1)))^2.
Proof.
  intros L2 H.
  (* difference = (mu - lam)^2 * L2 *)
  assert (E : (x - (x1 + mu * (x2 - x1)))^2 + (y - (y1 + mu * (y2 - y1)))^2
            - ((x - (x1 + lam * (x2 - x1)))^2 + (y - (y1 + lam * (y2 - y1)))^2)
            = (mu - lam)^2 * L2 + 2 * (lam - mu) * ((x - x1) * (x2 - x1) + (y - y1) * (y2 - y1) - lam * L2)).
  { unfold L2. ring. }
  rewrite <- H in E. assert (0 <= (mu - lam)^2 * L2).
  { apply Rmult_le_pos; [apply pow2_ge_0 | unfold L2; apply sumsq_nonneg]. }
  lra.
Qed.
(* when the foot is outside [0,1], the nearer end point is nearest on the segment *)
Lemma nearest_end x1 y1 x2 y2 x y lam mu :
  let L2 := (x2 - x1) * (x2 - x1) + (y2 - y1) * (y2 - y1) in
  0 < L2 -> lam * L2 = (x - x1) * (x2 - x1) + (y - y1) * (y2 - y1) ->
  lam <= 0 -> 0 <= mu <= 1 ->
  (x - x1)^2 + (y - y1)^2 <= (x - (x1 + mu * (x2 - x1)))^2 + (y - (y1 + mu * (y2 - y1)))^2.
Proof.
  intros L2 HL H Hl Hmu.
  assert (E : (x - (x1 + mu * (x2 - x1)))^2 + (y - (y1 + mu * (y2 - y1)))^2 - ((x - x1)^2 + (y - y1)^2)
            = mu^2 * L2 - 2 * mu * ((x - x1) * (x2 - x1) + (y - y1) * (y2 - y1))).
  { unfold L2. ring. }
  rewrite <- H in E.
  assert (0 <= mu^2 * L2) by (apply Rmult_le_pos; [apply pow2_ge_0 | lra]).
  assert (Hn : lam * L2 <= 0) by nra.
  assert (0 <= - (2 * mu * (lam * L2))) by nra.
  lra.
Qed.
