From Coq Require Import List ZArith Bool Lia.
Import ListNotations.
From TL Require Import Model.SeqInsert.
Open Scope Z_scope.

Definition Inv (N id delta : Z) : Prop :=
  (delta = 0 /\ 0 <= id <= N - 1) \/
  (exists m : nat, delta = 2 ^ Z.of_nat m /\ 0 <= id /\ id + 2 * delta - 1 <= N - 1) \/
  (exists m : nat, delta = - 2 ^ Z.of_nat m /\ id <= N - 1 /\ 2 * 2 ^ Z.of_nat m - 1 <= id).

Lemma pow2_pos (m : nat) : 0 < 2 ^ Z.of_nat m.
Proof. apply Z.pow_pos_nonneg; lia. Qed.

Lemma shiftr_pow2_succ (m : nat) : Z.shiftr (2 ^ Z.of_nat (S m)) 1 = 2 ^ Z.of_nat m.
Proof.
  rewrite Z.shiftr_div_pow2 by lia. rewrite Nat2Z.inj_succ, Z.pow_succ_r by lia.
  change (2 ^ 1) with 2. rewrite Z.mul_comm, Z.div_mul by lia. reflexivity.
Qed.
Lemma shiftr_neg_pow2_succ (m : nat) : Z.shiftr (- 2 ^ Z.of_nat (S m)) 1 = - 2 ^ Z.of_nat m.
Proof.
  rewrite Z.shiftr_div_pow2 by lia. rewrite Nat2Z.inj_succ, Z.pow_succ_r by lia.
  change (2 ^ 1) with 2. replace (- (2 * 2 ^ Z.of_nat m)) with ((- 2 ^ Z.of_nat m) * 2) by lia.
  rewrite Z.div_mul by lia. reflexivity.
Qed.

(* the magnitude after one halving step stays in the invariant's shape *)
Lemma next_delta_pos (m : nat) : let r := Z.abs (Z.shiftr (2 ^ Z.of_nat m) 1) in
  (m = 0%nat /\ r = 0) \/ (exists m', m = S m' /\ r = 2 ^ Z.of_nat m').
Proof.
  destruct m as [|m']; [left; split; reflexivity|].
  right. exists m'. split; [reflexivity|]. rewrite shiftr_pow2_succ. pose proof (pow2_pos m'). lia.
Qed.
Lemma next_delta_neg (m : nat) : let r := Z.abs (Z.shiftr (- 2 ^ Z.of_nat m) 1) in
  (m = 0%nat /\ r = 1) \/ (exists m', m = S m' /\ r = 2 ^ Z.of_nat m').
Proof.
  destruct m as [|m']; [left; split; reflexivity|].
  right. exists m'. split; [reflexivity|]. rewrite shiftr_neg_pow2_succ. pose proof (pow2_pos m'). lia.
Qed.

Lemma dicho_range l N t : forall fuel id delta r,
  Inv N id delta -> dicho fuel l N t id delta = Some r -> 0 <= r <= N - 1.
Proof.
  induction fuel as [|f IH]; intros id delta r HI H; [discriminate|].
  cbn [dicho] in H.
  destruct HI as [[Hd Hid] | [[m [Hd [Hlo Hhi]]] | [m [Hd [Hhi Hlo]]]]].
  - subst delta. simpl in H. injection H as <-. assumption.
  - pose proof (pow2_pos m) as Hp.
    destruct (Z.eqb_spec delta 0) as [E|_]; [lia|].
    destruct (Z.leb_spec N (id + delta)) as [E|_]; [lia|].
    destruct (Z.eqb_spec (id + delta) 0) as [E|_]; [lia|].
    assert (Hnext : forall sgn, (sgn = 1 \/ sgn = -1) ->
              Inv N (id + delta) (sgn * Z.abs (Z.shiftr delta 1))).
    { intros sgn Hs. subst delta. destruct (next_delta_pos m) as [[-> Hr] | [m' [-> Hr]]]; cbv zeta in Hr; rewrite Hr.
      - left. split; [lia|]. simpl in *. lia.
      - rewrite Nat2Z.inj_succ, Z.pow_succ_r in * by lia. pose proof (pow2_pos m').
        destruct Hs as [-> | ->].
        + right; left. exists m'. split; [lia|]. lia.
        + right; right. exists m'. split; [lia|]. lia. }
    destruct (t <? tget l (id + delta)).
    + apply (IH _ _ _ (Hnext (-1) ltac:(right; reflexivity))). rewrite <- H. f_equal; lia.
    + apply (IH _ _ _ (Hnext 1 ltac:(left; reflexivity))). rewrite <- H. f_equal; lia.
  - pose proof (pow2_pos m) as Hp.
    destruct (Z.eqb_spec delta 0) as [E|_]; [lia|].
    destruct (Z.leb_spec N (id + delta)) as [E|_]; [lia|].
    destruct (Z.eqb_spec (id + delta) 0) as [E|Hnz]; [injection H as <-; lia|].
    assert (Hnext : forall sgn, (sgn = 1 \/ sgn = -1) ->
              Inv N (id + delta) (sgn * Z.abs (Z.shiftr delta 1))).
    { intros sgn Hs. subst delta. destruct (next_delta_neg m) as [[-> Hr] | [m' [-> Hr]]]; cbv zeta in Hr; rewrite Hr.
      - simpl in *. destruct Hs as [-> | ->].
        + right; left. exists 0%nat. simpl. lia.
        + right; right. exists 0%nat. simpl. lia.
      - rewrite Nat2Z.inj_succ, Z.pow_succ_r in * by lia. pose proof (pow2_pos m').
        destruct Hs as [-> | ->].
        + right; left. exists m'. split; [lia|]. lia.
        + right; right. exists m'. split; [lia|]. lia. }
    destruct (t <? tget l (id + delta)).
    + apply (IH _ _ _ (Hnext (-1) ltac:(right; reflexivity))). rewrite <- H. f_equal; lia.
    + apply (IH _ _ _ (Hnext 1 ltac:(left; reflexivity))). rewrite <- H. f_equal; lia.
Qed.
Print Assumptions dicho_range.
