(* Spike: C05 — spatial linear resampling returns, for k = 1..N, the linear interpolant at abscissa k*ds + sini
   between the two fixes bracketing it (abscissas only need to be non-decreasing: repeated positions allowed) *)
From Coq Require Import List Arith ZArith QArith Bool Lia Lqa Sorted.
Import ListNotations.
From TL Require Import Model.Resample Model.ResampleS Proofs.Resample_temporal.
Open Scope Q_scope.

Definition absc (sini ds : Q) (k : nat) : Q := inject_Z (Z.of_nat k) * ds + sini.

Lemma absc_mono sini ds k k' : 0 <= ds -> (k <= k')%nat -> absc sini ds k <= absc sini ds k'.
Proof.
  intros Hd Hk. unfold absc. assert (inject_Z (Z.of_nat k) <= inject_Z (Z.of_nat k')) by (rewrite <- Zle_Qle; lia). nra.
Qed.

Lemma loop_s_spec S X sini ds : increasing S -> 0 <= ds ->
  forall ks rid acc, StronglySorted le ks ->
  (forall k, In k ks -> (bracket S (absc sini ds k) < length S)%nat /\ (rid <= bracket S (absc sini ds k))%nat) ->
  loop_s S X sini ds ks rid acc =
  Some (rev acc ++ map (fun k => (absc sini ds k, lerp S X (bracket S (absc sini ds k)) (absc sini ds k))) ks).
Proof.
  intros Hinc Hd. induction ks as [|k r IH]; intros rid acc Hs Hk; cbn [loop_s map].
  - rewrite app_nil_r. reflexivity.
  - inversion Hs as [|? ? Hs' Hall]; subst. fold (absc sini ds k).
    destruct (Hk k (or_introl eq_refl)) as [Hb Hr].
    rewrite (advance_spec S (absc sini ds k) Hinc Hb (Datatypes.S (length S)) rid Hr) by lia.
    rewrite IH; [cbn [rev]; rewrite <- app_assoc; reflexivity | assumption |].
    intros k' Hk'. destruct (Hk k' (or_intror Hk')) as [Hb' _]. split; [assumption|].
    apply bracket_mono. apply absc_mono; [assumption|]. rewrite Forall_forall in Hall. apply Hall. assumption.
Qed.
Print Assumptions loop_s_spec.

(* the scan stops inside the list whenever the request does not exceed the last abscissa *)
Lemma bracket_last S t : S <> [] -> t <= last S 0 -> (bracket S t < length S)%nat.
Proof.
  induction S as [|v r IH]; intros Hne Ht; [congruence|]. cbn [bracket length].
  destruct (Qltb v t) eqn:E; [|lia].
  destruct r as [|w r']; [cbn in Ht; apply Qltb_true in E; lra|].
  assert (bracket (w :: r') t < length (w :: r'))%nat by (apply IH; [discriminate | exact Ht]). lia.
Qed.

(* N = int((sfin - sini)/ds) keeps every request k*ds + sini, k <= N, at or below sfin *)
Lemma request_le_last sini sfin ds k : 0 < ds -> sini <= sfin ->
  (Z.of_nat k <= Qtrunc ((sfin - sini) / ds))%Z -> absc sini ds k <= sfin.
Proof.
  intros Hd Hs Hk. unfold absc. set (r := (sfin - sini) / ds) in *.
  assert (Hr : 0 <= r) by (unfold r; apply Qle_shift_div_l; [assumption | lra]).
  assert (Hfl : inject_Z (Qtrunc r) <= r).
  { unfold Qtrunc. destruct r as [n d]. unfold Qle in Hr. cbn in Hr. rewrite Z.mul_1_r in Hr.
    unfold Qle, inject_Z. cbn. rewrite Z.mul_1_r. rewrite Z.quot_div_nonneg by lia.
    rewrite Z.mul_comm. apply Z.mul_div_le. lia. }
  assert (inject_Z (Z.of_nat k) <= r) by (eapply Qle_trans; [rewrite <- Zle_Qle; exact Hk | exact Hfl]).
  assert (E : r * ds == sfin - sini) by (unfold r; field; lra).
  nra.
Qed.
