(* C12, stop detection: findStopsGlobal(track of n fixes, diameter, duration) builds the reward matrix
     C[i,j] = (j - i)^2  when the smallest circle enclosing the fixes i .. j-1 is smaller than the diameter and they span more than the duration,
     C[i,j] = 0          otherwise                                                   (i < n-2, i < j < n-1; zero elsewhere; symmetrised),
   and hands it to optimalPartition in MAXIMIZE mode; the stops are the segments of the returned list that carry a reward.
   The size of the enclosing circle and the time span are parameters here (functions of the two indices): the geometry routine that computes the
   circle is NOT modelled.  Whatever they are, the list returned maximises the documented criterion - the sum of the rewards of its segments - among
   all strictly increasing lists from 0 to n-2. *)
From Coq Require Import List Arith QArith Bool Lia Lqa.
Import ListNotations.
From TL Require Import Model.Partition Proofs.Partition_opt Proofs.Partition_dp Proofs.Partition_main Proofs.Partition_seg.
Open Scope Q_scope.

Section Stops.
Variable circle : nat -> nat -> Q.        (* diameter of the smallest circle enclosing the fixes a .. b *)
Variable span : nat -> nat -> Q.          (* time between the fixes a and b *)
Variables diameter duration : Q.

Definition Qltb' (x y : Q) : bool := match Qcompare x y with Lt => true | _ => false end.
(* the reward of the segment of fixes a .. b, as a "cost" of the delegating construction: cost(a, b) with b = j - 1 *)
Definition reward (a b : nat) : Q :=
  if Qltb' (circle a b) diameter && Qltb' duration (span a b) then inject_Z (Z.of_nat (S b - a) * Z.of_nat (S b - a)) else 0.
Definition find_stops_partition (n : nat) : list nat := optimal_segmentation false n reward.

Theorem find_stops_optimal n : (3 <= n)%nat ->
  let r := find_stops_partition n in
  exists l, r = l ++ [(n - 2)%nat] /\ starts 0 (n - 2) l /\
    forall l', starts 0 (n - 2) l' -> seg_cost reward (l' ++ [(n - 2)%nat]) <= seg_cost reward r.
Proof.
  intros Hn. destruct (optimal_segmentation_correct false n reward Hn) as [l [E [Hs Hopt]]].
  exists l. split; [exact E|]. split; [exact Hs|]. intros l' Hl'. exact (Hopt l' Hl').
Qed.

(* a segment with a reward is a stop in the documented sense *)
Lemma reward_pos_is_stop a b : 0 < reward a b -> circle a b < diameter /\ duration < span a b.
Proof.
  unfold reward, Qltb'. destruct (circle a b ?= diameter) eqn:E1; cbn [andb]; try (intros H; lra).
  destruct (duration ?= span a b) eqn:E2; try (intros H; lra).
  intros _. split; rewrite Qlt_alt; assumption.
Qed.
End Stops.
Print Assumptions find_stops_optimal.
