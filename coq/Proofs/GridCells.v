(* Spike: completeness of SpatialIndex.__cellsCrossSegment's per-cell test, over R *)
From Coq Require Import Reals Lra Psatz Bool.
Open Scope R_scope.

Definition Rleb (x y : R) : bool := if Rle_dec x y then true else false.
Definition Rltb (x y : R) : bool := if Rlt_dec x y then true else false.
Lemma Rleb_true x y : Rleb x y = true <-> x <= y.
Proof. unfold Rleb. destruct (Rle_dec x y); split; auto; discriminate. Qed.
Lemma Rltb_true x y : Rltb x y = true <-> x < y.
Proof. unfold Rltb. destruct (Rlt_dec x y); split; auto; discriminate. Qed.

(* geometry.cartesienne / __eval / isSegmentIntersects *)
Definition ev (x1 y1 x2 y2 x y : R) : R :=
  let a := y2 - y1 in let b := - (x2 - x1) in let c := - (a * x1 + b * y1) in a * x + b * y + c.
Definition intersects (x11 y11 x12 y12 x21 y21 x22 y22 : R) : bool :=
  Rleb (ev x11 y11 x12 y12 x21 y21 * ev x11 y11 x12 y12 x22 y22) 0 &&
  Rleb (ev x21 y21 x22 y22 x11 y11 * ev x21 y21 x22 y22 x12 y12) 0.

Lemma ev_affine x1 y1 x2 y2 px py qx qy u :
  ev x1 y1 x2 y2 (px + u * (qx - px)) (py + u * (qy - py))
  = (1 - u) * ev x1 y1 x2 y2 px py + u * ev x1 y1 x2 y2 qx qy.
Proof. unfold ev. ring. Qed.

Lemma ev_on_line x1 y1 x2 y2 s : ev x1 y1 x2 y2 (x1 + s * (x2 - x1)) (y1 + s * (y2 - y1)) = 0.
Proof. unfold ev. ring. Qed.

Lemma opposite_sides A B u : 0 <= u <= 1 -> (1 - u) * A + u * B = 0 -> A * B <= 0.
Proof.
  intros Hu H.
  destruct (Rle_dec 0 A) as [HA|HA]; destruct (Rle_dec 0 B) as [HB|HB]; try nra.
Qed.

(* two segments sharing a point pass the straddle test *)
Lemma straddle_complete x11 y11 x12 y12 x21 y21 x22 y22 s u :
  0 <= s <= 1 -> 0 <= u <= 1 ->
  x11 + s * (x12 - x11) = x21 + u * (x22 - x21) ->
  y11 + s * (y12 - y11) = y21 + u * (y22 - y21) ->
  intersects x11 y11 x12 y12 x21 y21 x22 y22 = true.
Proof.
  intros Hs Hu Hx Hy. unfold intersects. apply andb_true_intro. split; apply Rleb_true.
  - apply (opposite_sides _ _ u Hu). rewrite <- ev_affine. rewrite <- Hx, <- Hy. apply ev_on_line.
  - apply (opposite_sides _ _ s Hs). rewrite <- ev_affine. rewrite Hx, Hy. apply ev_on_line.
Qed.

(* entry parameter of an affine constraint *)
Lemma entry alpha beta lam : 0 <= lam <= 1 -> 0 <= alpha + beta * lam ->
  exists l, 0 <= l <= lam /\ (forall t, l <= t <= lam -> 0 <= alpha + beta * t) /\
            ((0 < l /\ alpha + beta * l = 0) \/ (l = 0 /\ 0 <= alpha)).
Proof.
  intros Hl Hg. destruct (Rle_dec 0 alpha) as [Ha|Ha].
  - exists 0. split; [lra|]. split; [|right; split; [reflexivity | assumption]].
    intros t Ht. destruct (Rle_dec 0 beta); nra.
  - assert (Hb : 0 < beta) by nra.
    exists (- alpha / beta).
    assert (E : alpha + beta * (- alpha / beta) = 0) by (field; lra).
    assert (Hpos : 0 < - alpha / beta) by (apply Rdiv_lt_0_compat; lra).
    assert (Hle : - alpha / beta <= lam).
    { apply Rmult_le_reg_l with beta; [assumption|]. replace (beta * (- alpha / beta)) with (- alpha) by (field; lra). lra. }
    split; [lra|]. split; [|left; split; assumption].
    intros t Ht. nra.
Qed.

(* the per-cell test of __cellsCrossSegment (spatial_index.py:577-615) *)
Definition cell_test (ax ay bx by_ i j : R) : bool :=
  (Rltb i ax && Rltb ax (i+1) && Rltb i bx && Rltb bx (i+1) &&
   Rltb j ay && Rltb ay (j+1) && Rltb j by_ && Rltb by_ (j+1))
  || intersects i j (i+1) j ax ay bx by_
  || intersects i j i (j+1) ax ay bx by_
  || intersects i (j+1) (i+1) (j+1) ax ay bx by_
  || intersects (i+1) j (i+1) (j+1) ax ay bx by_.

Lemma Rmax4_cases a b c d : let m := Rmax (Rmax a b) (Rmax c d) in
  (m = a \/ m = b \/ m = c \/ m = d) /\ a <= m /\ b <= m /\ c <= m /\ d <= m.
Proof.
  intros m. unfold m.
  unfold Rmax. repeat destruct (Rle_dec _ _); repeat split; try lra; auto.
Qed.

(* a boundary point of the closed cell on the segment gives a passing edge test *)
Lemma boundary_hit ax ay bx by_ i j t :
  0 <= t <= 1 ->
  let px := ax + t * (bx - ax) in let py := ay + t * (by_ - ay) in
  i <= px <= i + 1 -> j <= py <= j + 1 ->
  (px = i \/ px = i + 1 \/ py = j \/ py = j + 1) ->
  cell_test ax ay bx by_ i j = true.
Proof.
  intros Ht px py Hx Hy Hb. unfold cell_test.
  destruct Hb as [H|[H|[H|H]]].
  - (* left edge (i,j)-(i,j+1), parameter py - j *)
    assert (E : intersects i j i (j+1) ax ay bx by_ = true).
    { apply (straddle_complete _ _ _ _ _ _ _ _ (py - j) t); [lra | assumption | fold px; lra | fold py; lra]. }
    rewrite E. rewrite !orb_true_r. reflexivity.
  - assert (E : intersects (i+1) j (i+1) (j+1) ax ay bx by_ = true).
    { apply (straddle_complete _ _ _ _ _ _ _ _ (py - j) t); [lra | assumption | fold px; lra | fold py; lra]. }
    rewrite E. rewrite !orb_true_r. reflexivity.
  - assert (E : intersects i j (i+1) j ax ay bx by_ = true).
    { apply (straddle_complete _ _ _ _ _ _ _ _ (px - i) t); [lra | assumption | fold px; lra | fold py; lra]. }
    rewrite E. rewrite !orb_true_r. reflexivity.
  - assert (E : intersects i (j+1) (i+1) (j+1) ax ay bx by_ = true).
    { apply (straddle_complete _ _ _ _ _ _ _ _ (px - i) t); [lra | assumption | fold px; lra | fold py; lra]. }
    rewrite E. rewrite !orb_true_r. reflexivity.
Qed.

(* from A towards a point of the closed cell: if A is not strictly inside, the segment meets the boundary *)
Lemma enters ax ay bx by_ i j lam :
  0 <= lam <= 1 ->
  let px := ax + lam * (bx - ax) in let py := ay + lam * (by_ - ay) in
  i <= px <= i + 1 -> j <= py <= j + 1 ->
  ~ (i < ax < i + 1 /\ j < ay < j + 1) ->
  cell_test ax ay bx by_ i j = true.
Proof.
  intros Hl px py Hx Hy HA.
  destruct (entry (ax - i) (bx - ax) lam Hl ltac:(unfold px in Hx; lra)) as [l1 [B1 [G1 D1]]].
  destruct (entry (i + 1 - ax) (- (bx - ax)) lam Hl ltac:(unfold px in Hx; lra)) as [l2 [B2 [G2 D2]]].
  destruct (entry (ay - j) (by_ - ay) lam Hl ltac:(unfold py in Hy; lra)) as [l3 [B3 [G3 D3]]].
  destruct (entry (j + 1 - ay) (- (by_ - ay)) lam Hl ltac:(unfold py in Hy; lra)) as [l4 [B4 [G4 D4]]].
  destruct (Rmax4_cases l1 l2 l3 l4) as [Hm [M1 [M2 [M3 M4]]]].
  set (t := Rmax (Rmax l1 l2) (Rmax l3 l4)) in *.
  assert (Ht : 0 <= t <= lam).
  { split; [lra|]. destruct Hm as [E|[E|[E|E]]]; rewrite E; lra. }
  pose proof (G1 t ltac:(lra)) as P1. pose proof (G2 t ltac:(lra)) as P2.
  pose proof (G3 t ltac:(lra)) as P3. pose proof (G4 t ltac:(lra)) as P4.
  apply (boundary_hit ax ay bx by_ i j t); [lra | lra | lra |].
  destruct (Rlt_dec 0 t) as [Hpos|Hz].
  - (* t is one of the l_k, which is positive, so its constraint is tight *)
    destruct Hm as [E|[E|[E|E]]].
    + destruct D1 as [[_ Z]|[Z _]]; [rewrite <- E in Z; left; lra | lra].
    + destruct D2 as [[_ Z]|[Z _]]; [rewrite <- E in Z; right; left; lra | lra].
    + destruct D3 as [[_ Z]|[Z _]]; [rewrite <- E in Z; right; right; left; lra | lra].
    + destruct D4 as [[_ Z]|[Z _]]; [rewrite <- E in Z; right; right; right; lra | lra].
  - assert (t = 0) by lra.
    destruct D1 as [[Z _]|[_ A1]]; [lra|]. destruct D2 as [[Z _]|[_ A2]]; [lra|].
    destruct D3 as [[Z _]|[_ A3]]; [lra|]. destruct D4 as [[Z _]|[_ A4]]; [lra|].
    rewrite H. 
    destruct (Req_dec ax i); [left; lra|]. destruct (Req_dec ax (i+1)); [right; left; lra|].
    destruct (Req_dec ay j); [right; right; left; lra|]. destruct (Req_dec ay (j+1)); [right; right; right; lra|].
    exfalso. apply HA. lra.
Qed.

Lemma intersects_swap x11 y11 x12 y12 ax ay bx by_ :
  intersects x11 y11 x12 y12 bx by_ ax ay = intersects x11 y11 x12 y12 ax ay bx by_.
Proof.
  unfold intersects. f_equal.
  - f_equal. ring.
  - f_equal. unfold ev. ring.
Qed.

Require Import Btauto.
Lemma cell_test_swap ax ay bx by_ i j : cell_test bx by_ ax ay i j = cell_test ax ay bx by_ i j.
Proof.
  unfold cell_test. rewrite !(intersects_swap _ _ _ _ ax ay bx by_).
  generalize (Rltb i ax) (Rltb ax (i+1)) (Rltb i bx) (Rltb bx (i+1)) (Rltb j ay) (Rltb ay (j+1)) (Rltb j by_) (Rltb by_ (j+1)).
  generalize (intersects i j (i + 1) j ax ay bx by_) (intersects i j i (j + 1) ax ay bx by_)
             (intersects i (j + 1) (i + 1) (j + 1) ax ay bx by_) (intersects (i + 1) j (i + 1) (j + 1) ax ay bx by_).
  intros. btauto.
Qed.

Lemma inside_dec i j x y : {i < x < i + 1 /\ j < y < j + 1} + {~ (i < x < i + 1 /\ j < y < j + 1)}.
Proof.
  destruct (Rlt_dec i x); [|right; lra]. destruct (Rlt_dec x (i+1)); [|right; lra].
  destruct (Rlt_dec j y); [|right; lra]. destruct (Rlt_dec y (j+1)); [|right; lra]. left; lra.
Qed.

(* main statement: any point of the segment lying in the half-open cell makes the cell pass the test *)
Theorem cell_complete ax ay bx by_ i j lam :
  0 <= lam <= 1 ->
  let px := ax + lam * (bx - ax) in let py := ay + lam * (by_ - ay) in
  i <= px < i + 1 -> j <= py < j + 1 ->
  cell_test ax ay bx by_ i j = true.
Proof.
  intros Hl px py Hx Hy.
  destruct (inside_dec i j ax ay) as [HA|HA].
  - destruct (inside_dec i j bx by_) as [HB|HB].
    + unfold cell_test.
      destruct HA as [[A1 A2] [A3 A4]]. destruct HB as [[B1 B2] [B3 B4]].
      apply Rltb_true in A1, A2, A3, A4, B1, B2, B3, B4.
      rewrite A1, A2, A3, A4, B1, B2, B3, B4. reflexivity.
    + rewrite <- cell_test_swap.
      apply (enters bx by_ ax ay i j (1 - lam)); [lra | unfold px in Hx; lra | unfold py in Hy; lra | assumption].
  - apply (enters ax ay bx by_ i j lam Hl); [fold px; lra | fold py; lra | assumption].
Qed.
Print Assumptions cell_complete.
