From Coq Require Import List Arith QArith Bool Lia.
Import ListNotations.
From TL Require Import Model.Visvalingam.
Open Scope Q_scope.

Lemma remove_nth_length {A} : forall (l : list A) i, (i < length l)%nat -> length (remove_nth l i) = (length l - 1)%nat.
Proof. induction l as [|a l IH]; intros [|i] H; simpl in *; try lia. rewrite IH by lia. lia. Qed.
Lemma set_nth_length {A} : forall (l : list A) i v, length (set_nth l i v) = length l.
Proof. induction l as [|a l IH]; intros [|i] v; simpl; auto. Qed.
Lemma set_nth_other {A} (d : A) : forall (l : list A) i j v, i <> j -> nth j (set_nth l i v) d = nth j l d.
Proof. induction l as [|a l IH]; intros [|i] [|j] v H; simpl; auto; try lia. Qed.
Lemma remove_nth_before {A} (d : A) : forall (l : list A) i j, (j < i)%nat -> nth j (remove_nth l i) d = nth j l d.
Proof. induction l as [|a l IH]; intros [|i] [|j] H; simpl; auto; try lia. apply IH. lia. Qed.
Lemma remove_nth_after {A} (d : A) : forall (l : list A) i j, (i <= j)%nat -> nth j (remove_nth l i) d = nth (S j) l d.
Proof.
  induction l as [|a l IH]; intros i j H; [destruct i, j; reflexivity|].
  destruct i as [|i]; [reflexivity|]. destruct j as [|j]; [lia|]. simpl. apply IH. lia.
Qed.

Inductive sub {A} : list A -> list A -> Prop :=
| sub_nil : sub [] []
| sub_skip x l1 l2 : sub l1 l2 -> sub l1 (x :: l2)
| sub_keep x l1 l2 : sub l1 l2 -> sub (x :: l1) (x :: l2).
Lemma sub_refl {A} (l : list A) : sub l l. Proof. induction l; constructor; assumption. Qed.
Lemma sub_trans {A} (a b c : list A) : sub a b -> sub b c -> sub a c.
Proof.
  intros H1 H2. revert a H1. induction H2 as [|x l1 l2 H IH|x l1 l2 H IH]; intros a H1.
  - assumption.
  - apply sub_skip. apply IH. assumption.
  - inversion H1; subst; [apply sub_skip; apply IH; assumption | apply sub_keep; apply IH; assumption].
Qed.
Lemma sub_remove {A} : forall (l : list A) i, sub (remove_nth l i) l.
Proof.
  induction l as [|a l IH]; intros i; [destruct i; constructor|].
  destruct i as [|i]; simpl; [apply sub_skip; apply sub_refl | apply sub_keep; apply IH].
Qed.

(* areas: same length as the point list, NaN at both ends *)
Definition J (p : list pt) (a : list (option Q)) : Prop :=
  length a = length p /\ nth 0 a None = None /\ nth (length p - 1) a None = None.

Lemma argmin_from_some : forall l i best bi v, nth (argmin_from l i best bi - i) l None = Some v -> (i <= argmin_from l i best bi)%nat ->
  (argmin_from l i best bi - i < length l)%nat.
Proof.
  intros l i best bi v H _. destruct (lt_dec (argmin_from l i best bi - i) (length l)); [assumption|].
  rewrite nth_overflow in H by lia. discriminate.
Qed.

Lemma J_init p : J p (init_areas p).
Proof.
  unfold J, init_areas. split; [rewrite map_length, seq_length; reflexivity|].
  destruct p as [|x p]; [simpl; auto|]. split.
  - reflexivity.
  - set (n := length (x :: p)). assert (Hn : (0 < n)%nat) by (unfold n; simpl; lia).
    rewrite nth_indep with (d' := (fun i => if (i =? 0)%nat || (i =? n - 1)%nat then None else area_at (x :: p) i) 0%nat)
      by (rewrite map_length, seq_length; lia).
    rewrite (map_nth (fun i => if (i =? 0)%nat || (i =? n - 1)%nat then None else area_at (x :: p) i) (seq 0 n) 0%nat (n - 1)).
    rewrite seq_nth by lia. simpl Nat.add. rewrite Nat.eqb_refl, orb_true_r. reflexivity.
Qed.

(* C16 (Visvalingam): the result is a subsequence of the input with the same first and last fix *)
Theorem loop_spec eps2 : forall fuel p a, J p a ->
  let r := loop fuel p a eps2 in sub r p /\ hd d0 r = hd d0 p /\ last r d0 = last p d0.
Proof.
  induction fuel as [|f IH]; intros p a HJ; cbn [loop]; [split; [apply sub_refl | auto]|].
  destruct (length p <=? 2)%nat eqn:E2; [split; [apply sub_refl | auto]|]. apply Nat.leb_gt in E2.
  set (id := argmin a).
  destruct (nth id a None) as [v|] eqn:Ev; [|split; [apply sub_refl | auto]].
  destruct (Qleb v eps2); [|split; [apply sub_refl | auto]].
  destruct HJ as [Hlen [H0 Hl]].
  assert (Hid : (1 <= id <= length p - 2)%nat).
  { assert (id < length a)%nat by (destruct (lt_dec id (length a)); [assumption | rewrite nth_overflow in Ev by lia; discriminate]).
    destruct (Nat.eq_dec id 0) as [E|E]; [rewrite E in Ev; congruence|].
    destruct (Nat.eq_dec id (length p - 1)) as [E'|E']; [rewrite E' in Ev; congruence|]. lia. }
  set (p' := remove_nth p id). set (a' := remove_nth a id).
  assert (Hp' : length p' = (length p - 1)%nat) by (apply remove_nth_length; lia).
  assert (Ha' : length a' = (length p - 1)%nat) by (unfold a'; rewrite remove_nth_length by lia; lia).
  set (a1 := if (1 <? id)%nat then set_nth a' (id - 1) (area_at p' (id - 1)) else a').
  set (a2 := if (id <? length p' - 1)%nat then set_nth a1 id (area_at p' id) else a1).
  assert (HJ' : J p' a2).
  { unfold J. assert (L1 : length a1 = length a') by (unfold a1; destruct (1 <? id)%nat; [apply set_nth_length | reflexivity]).
    assert (L2 : length a2 = length a1) by (unfold a2; destruct (id <? length p' - 1)%nat; [apply set_nth_length | reflexivity]).
    split; [lia|].
    assert (E0 : nth 0 a' None = None) by (unfold a'; rewrite remove_nth_before by lia; assumption).
    assert (El : nth (length p' - 1) a' None = None).
    { unfold a'. rewrite remove_nth_after by lia. replace (S (length p' - 1)) with (length p - 1)%nat by lia. assumption. }
    split.
    - unfold a2. destruct (id <? length p' - 1)%nat eqn:B2; [rewrite set_nth_other by lia|];
      unfold a1; destruct (1 <? id)%nat eqn:B1; try (apply Nat.ltb_lt in B1; rewrite set_nth_other by lia); assumption.
    - unfold a2. destruct (id <? length p' - 1)%nat eqn:B2; [apply Nat.ltb_lt in B2; rewrite set_nth_other by lia|];
      unfold a1; destruct (1 <? id)%nat eqn:B1; try (apply Nat.ltb_lt in B1; rewrite set_nth_other by lia); assumption. }
  destruct (IH p' a2 HJ') as [Hs [Hh Hla]].
  split; [apply (sub_trans _ p'); [assumption | apply sub_remove]|]. split.
  - rewrite Hh. unfold p'. destruct p as [|x p]; [simpl in E2; lia|]. destruct id as [|id']; [lia|]. reflexivity.
  - rewrite Hla. unfold p'.
    assert (Hlast : forall (l : list pt), l <> [] -> last l d0 = nth (length l - 1) l d0).
    { induction l as [|x l IHl]; intros Hne; [contradiction|]. destruct l as [|y l]; [reflexivity|].
      change (last (x :: y :: l) d0) with (last (y :: l) d0). rewrite IHl by discriminate. simpl. rewrite Nat.sub_0_r. reflexivity. }
    assert (Hne' : remove_nth p id <> []) by (intros E; fold p' in E; rewrite E in Hp'; simpl in Hp'; lia).
    assert (Hne : p <> []) by (intros E; rewrite E in E2; simpl in E2; lia).
    rewrite (Hlast _ Hne'), (Hlast _ Hne).
    fold p'. rewrite Hp'. unfold p'. rewrite remove_nth_after by lia. f_equal. lia.
Qed.

Corollary visvalingam_spec p eps : let r := visvalingam p eps in sub r p /\ hd d0 r = hd d0 p /\ last r d0 = last p d0.
Proof. apply loop_spec. apply J_init. Qed.
Print Assumptions visvalingam_spec.
