(* Spike: C02 end to end for the arithmetic fragment — Track.__evaluate on the printed expression
   returns the denotation, leaves every existing feature and the coordinates as they were *)
From Coq Require Import List Ascii String Bool Arith ZArith QArith Lia.
Import ListNotations.
From TL Require Import Model.Str Model.Rpn Model.Table Model.Eval Model.Pipeline
                       Proofs.Rpn_parse Proofs.Rpn_output Proofs.Table_inv Proofs.Table_remove Proofs.Table_set
                       Proofs.Eval_write Proofs.Eval_sem Proofs.Eval_machine Proofs.Eval_apply Proofs.Eval_run.

(* ---------- A. the string rewrites are the identity on clean strings ---------- *)
Lemma replace_absent pat rep : forall fuel s, contains pat s = false -> replace_fuel fuel pat rep s = s.
Proof.
  induction fuel as [|f IH]; intros s H; [reflexivity|]. destruct s as [|c r]; [reflexivity|].
  cbn [replace_fuel]. cbn [contains] in H. apply orb_false_elim in H. destruct H as [H1 H2].
  rewrite H1. f_equal. apply IH. assumption.
Qed.
Lemma replace_id pat rep s : contains pat s = false -> replace pat rep s = s.
Proof. apply replace_absent. Qed.

Definition pats : list str :=
  map s_ ["**"; ".*"; "{"; "}"; ">>"; "<<"]%string ++ map (fun op => op ++ s_ "=") reflex_ops
  ++ map s_ ["=-"; "=+"; "(-"; "(+"; "--"; "++"; "+-"; "-+"]%string ++ map (fun k => k ++ s_ "(") fun_keys.

Definition clean (s : str) : bool :=
  forallb (fun p => negb (contains p s)) pats
  && forallb (fun c => negb (Ascii.eqb c " ")) s
  && negb (contains (s_ "=") s)
  && match s with c :: _ => negb (Ascii.eqb c "-" || Ascii.eqb c "+") | [] => false end.

Lemma clean_pat s p : clean s = true -> In p pats -> contains p s = false.
Proof.
  unfold clean. intros H Hp. apply andb_prop in H. destruct H as [H _]. apply andb_prop in H. destruct H as [H _].
  apply andb_prop in H. destruct H as [H _]. rewrite forallb_forall in H. specialize (H p Hp). apply negb_true_iff in H. exact H.
Qed.

Ltac inpats := unfold pats; cbn [map app reflex_ops fun_keys]; repeat (first [left; reflexivity | right]).

Lemma filter_nospace s : forallb (fun c => negb (Ascii.eqb c " ")) s = true -> filter (fun c => negb (Ascii.eqb c " ")) s = s.
Proof. induction s as [|c r IH]; [reflexivity|]. cbn. intros H. apply andb_prop in H. destruct H as [H1 H2]. rewrite H1. f_equal. apply IH. assumption. Qed.

Lemma special_id s : clean s = true -> special_op_char s = s.
Proof.
  intros H. unfold special_op_char.
  rewrite (replace_id (s_ "**")) by (apply clean_pat; [assumption | inpats]).
  rewrite (replace_id (s_ ".*")) by (apply clean_pat; [assumption | inpats]).
  rewrite (replace_id (s_ "{")) by (apply clean_pat; [assumption | inpats]).
  rewrite (replace_id (s_ "}")) by (apply clean_pat; [assumption | inpats]).
  rewrite (replace_id (s_ ">>")) by (apply clean_pat; [assumption | inpats]).
  apply replace_id. apply clean_pat; [assumption | inpats].
Qed.

Lemma reflex_id s : clean s = true -> convert_reflex s = s.
Proof.
  intros H. unfold convert_reflex.
  assert (G : forall ops, (forall op, In op ops -> contains (op ++ s_ "=") s = false) ->
    fold_left (fun e op => let pat := op ++ s_ "=" in
      if contains pat e then match split_first pat e with
        | Some (a, rest) => let b := match split_first pat rest with Some (b, _) => b | None => rest end in
                            a ++ s_ "=" ++ a ++ op ++ s_ "(" ++ b ++ s_ ")"
        | None => e end else e) ops s = s).
  { induction ops as [|op ops IH]; intros Hops; [reflexivity|]. cbn [fold_left]. cbv zeta.
    rewrite (Hops op (or_introl eq_refl)). apply IH. intros op' Hin. apply Hops. right. assumption. }
  apply G. intros op Hin. apply clean_pat; [assumption|].
  unfold pats. apply in_or_app. right. apply in_or_app. left. apply (in_map (fun op => op ++ s_ "=")). assumption.
Qed.

Lemma unary_id s : clean s = true -> unary_op s = Ok s.
Proof.
  intros H. unfold unary_op. destruct s as [|c r] eqn:Es; [unfold clean in H; rewrite !andb_false_r in H; discriminate|].
  assert (Hc : Ascii.eqb c "-" || Ascii.eqb c "+" = false).
  { unfold clean in H. apply andb_prop in H. destruct H as [_ H]. apply negb_true_iff in H. exact H. }
  rewrite Hc. rewrite <- Es in *.
  rewrite (replace_id (s_ "=-")) by (apply clean_pat; [assumption | inpats]).
  rewrite (replace_id (s_ "=+")) by (apply clean_pat; [assumption | inpats]).
  rewrite (replace_id (s_ "(-")) by (apply clean_pat; [assumption | inpats]).
  rewrite (replace_id (s_ "(+")) by (apply clean_pat; [assumption | inpats]).
  rewrite (replace_id (s_ "--")) by (apply clean_pat; [assumption | inpats]).
  rewrite (replace_id (s_ "++")) by (apply clean_pat; [assumption | inpats]).
  rewrite (replace_id (s_ "+-")) by (apply clean_pat; [assumption | inpats]).
  rewrite (replace_id (s_ "-+")) by (apply clean_pat; [assumption | inpats]).
  reflexivity.
Qed.

Lemma mark_id s : clean s = true -> mark_functions s = s.
Proof.
  intros H. unfold mark_functions.
  assert (G : forall ks, (forall k, In k ks -> contains (k ++ s_ "(") s = false) ->
    fold_left (fun e k => replace (k ++ s_ "(") (k ++ s_ "@(") e) ks s = s).
  { induction ks as [|k ks IH]; intros Hks; [reflexivity|]. cbn [fold_left].
    rewrite replace_id by (apply Hks; left; reflexivity). apply IH. intros k' Hin. apply Hks. right. assumption. }
  apply G. intros k Hin. apply clean_pat; [assumption|].
  unfold pats. apply in_or_app. right. apply in_or_app. right. apply in_or_app. right. apply (in_map (fun k => k ++ s_ "(")). assumption.
Qed.

(* ---------- B. the assignment to #output ---------- *)
Definition out_name : str := s_ "#output".
Definition dcol (n : nat) (d : dval) : list val := match d with DC col => col | DS v => repeat v n end.

Lemma temp_ne_out j : temp_name j <> out_name.
Proof.
  unfold temp_name, out_name. intros H. injection H as H.
  destruct (Nat.to_uint j); cbn in H; discriminate.
Qed.

Lemma create_list_ok t n col : has_af t n = false -> Table.size t <> 0%nat -> List.length col = Table.size t ->
  exists t1, create_af t n (IList col) = Ok t1.
Proof.
  intros Hhas Hs Hl. unfold create_af.
  assert (Hv : is_virtual n = false) by (unfold has_af in Hhas; destruct (lookup (dico t) n); [discriminate | assumption]).
  rewrite Hv, Hhas. destruct (Nat.eqb_spec (Table.size t) 0); [contradiction|].
  rewrite Hl, Nat.ltb_irrefl. eexists. reflexivity.
Qed.

Lemma assign_out t it d k :
  Inv t -> coords_ok t -> Table.size t <> 0%nat -> has_af t out_name = false -> irel t it d ->
  (match d with DC col => List.length col = Table.size t | DS _ => True end) ->
  exists t1, apply_op t (SStr out_name) it "=" k = Ok (t1, SNone) /\ Inv t1 /\ names t1 = names t ++ [out_name] /\
    Table.size t1 = Table.size t /\ get_af t1 out_name = Ok (dcol (Table.size t) d) /\
    xs t1 = xs t /\ ys t1 = ys t /\ zs t1 = zs t /\ ts t1 = ts t /\
    (forall m, m <> out_name -> get_af t1 m = get_af t m).
Proof.
  intros HI Hco Hs Hout Hrel Hlen. unfold apply_op. change (Ascii.eqb "=" "=") with true. cbv iota.
  destruct d as [v|col].
  - destruct Hrel as [Ha [Hb Hc]]. rewrite Ha, Hc. cbn [bind].
    assert (Hxyz : existsb (str_eqb out_name) (map s_ ["x"; "y"; "z"]%string) = false) by reflexivity. rewrite Hxyz.
    assert (Hlk : lookup (dico t) out_name = None) by (unfold has_af in Hout; destruct (lookup (dico t) out_name); [discriminate | reflexivity]).
    rewrite Hlk.
    destruct (create_new_ok t out_name v Hout Hs) as [t1 Hcr]. rewrite Hcr. cbn [bind].
    destruct (create_new_spec t out_name (IScalar v) t1 HI Hout Hcr) as [HI1 [Hn [Hsz [Hg [Hx [Hy [Hz [Ht Hfr]]]]]]]].
    exists t1. split; [reflexivity|]. split; [exact HI1|]. split; [exact Hn|]. split; [exact Hsz|]. split; [|repeat split; assumption].
    cbn [dcol]. rewrite Hg. f_equal. apply firstn_all2. rewrite repeat_length. apply Nat.le_refl.
  - destruct Hrel as [n [-> [Ha [Hb Hc]]]]. cbn [item_has_af]. rewrite Ha, Hout, Hc. cbn [bind].
    destruct (create_list_ok t out_name col Hout Hs Hlen) as [t1 Hcr]. rewrite Hcr. cbn [bind].
    destruct (create_new_spec t out_name (IList col) t1 HI Hout Hcr) as [HI1 [Hn [Hsz [Hg [Hx [Hy [Hz [Ht Hfr]]]]]]]].
    exists t1. split; [reflexivity|]. split; [exact HI1|]. split; [exact Hn|]. split; [exact Hsz|]. split; [|repeat split; assumption].
    cbn [dcol]. rewrite Hg. f_equal. apply firstn_all2. rewrite Hlen. apply Nat.le_refl.
Qed.

Lemma size_le_print e : wf e -> (Rpn_parse.size e <= List.length (print e))%nat.
Proof.
  induction e as [s|c l IHl r IHr|e IH]; intros Hwf; cbn [Rpn_parse.size print].
  - destruct Hwf as [Hne _]. destruct s; [congruence | cbn; lia].
  - destruct Hwf as [_ [Hl [Hr _]]]. specialize (IHl Hl). specialize (IHr Hr). rewrite !app_length. cbn [List.length]. lia.
  - specialize (IH Hwf). rewrite !app_length. cbn [List.length]. lia.
Qed.

Lemma sem_length t e d : Inv t -> coords_ok t -> sem t e = Ok d ->
  match d with DC col => List.length col = Table.size t | DS _ => True end.
Proof.
  intros HI Hco. revert d. induction e as [s|c l IHl r IHr|e IH]; intros d H; cbn [sem] in H.
  - destruct (has_af t s).
    + destruct (get_af t s) as [col|] eqn:E; [|discriminate]. cbn in H. injection H as <-. eapply get_af_length; eassumption.
    + destruct (parse_lit s); [|discriminate]. injection H as <-. exact I.
  - destruct (Ascii.eqb c "@") eqn:Ec.
    { destruct l as [f|c' l1 l2|l1]; try discriminate. destruct (sem t r) as [dr|]; [|discriminate]. cbn [bind] in H.
      specialize (IHr dr eq_refl). unfold fun_sem in H. destruct dr as [b|x]; [discriminate|].
      destruct (void_spec f) as [[need g]|] eqn:Ev.
      - injection H as <-. rewrite (void_length f need g _ Ev). destruct (need (Table.size t)); [assumption | apply repeat_length].
      - destruct (nonvoid_spec f) as [g|]; [|discriminate]. destruct (g x); [|discriminate]. cbn [bind] in H. injection H as <-. apply repeat_length. }
    destruct (sem t l) as [dl|]; [|discriminate]. destruct (sem t r) as [dr|]; [|discriminate]. cbn [bind] in H.
    specialize (IHl dl eq_refl). specialize (IHr dr eq_refl). unfold bin_sem in H.
    destruct dl as [a|x], dr as [b|y].
    + destruct (scalar_op c a b); [|discriminate]. injection H as <-. exact I.
    + destruct (binop_saf c a) as [f|]; [|discriminate]. destruct (mapM f y) as [col|] eqn:E; [|discriminate].
      injection H as <-. apply mapM_length in E. congruence.
    + destruct (binop_afs c b) as [rf|]; [|discriminate]. destruct rf as [f|]; [|discriminate]. cbn [bind] in H.
      destruct (mapM f x) as [col|] eqn:E; [|discriminate]. injection H as <-. apply mapM_length in E. congruence.
    + destruct (binop_afaf c) as [f|]; [|discriminate]. destruct (zipM f x y) as [col|] eqn:E; [|discriminate].
      injection H as <-. apply zipM_length in E. rewrite E, IHl, IHr. apply Nat.min_id.
  - apply IH. assumption.
Qed.

(* ---------- C. Track.__evaluate on a printed arithmetic expression ---------- *)
Theorem evaluate_correct e t d :
  Inv t -> coords_ok t -> Table.size t <> 0%nat -> fresh_from t 0 -> has_af t out_name = false ->
  wf e -> wfe t e -> (0 < minclass e)%nat -> clean (print e) = true -> sem t e = Ok d ->
  exists t2, evaluate t (print e) = Ok (t2, Some (dcol (Table.size t) d))
    /\ (forall m, has_af t m = true -> get_af t2 m = get_af t m)
    /\ xs t2 = xs t /\ ys t2 = ys t /\ zs t2 = zs t /\ ts t2 = ts t
    /\ Inv t2 /\ (exists tmps, names t2 = names t ++ tmps /\ forall m, In m tmps -> exists j, m = temp_name j).
Proof.
  intros HI Hco Hs Hfresh Hout Hwf Hwfe Hmin Hclean Hsem.
  assert (Hsp : forallb (fun c => negb (Ascii.eqb c " ")) (print e) = true).
  { unfold clean in Hclean. apply andb_prop in Hclean. destruct Hclean as [Hc _]. apply andb_prop in Hc. destruct Hc as [Hc _].
    apply andb_prop in Hc. tauto. }
  assert (Hneq : contains (s_ "=") (print e) = false).
  { unfold clean in Hclean. apply andb_prop in Hclean. destruct Hclean as [Hc _]. apply andb_prop in Hc. destruct Hc as [_ Hc].
    apply negb_true_iff in Hc. exact Hc. }
  unfold evaluate. cbv zeta.
  rewrite (filter_nospace _ Hsp), (special_id _ Hclean), (reflex_id _ Hclean), (unary_id _ Hclean). cbn [bind].
  rewrite (mark_id _ Hclean), Hneq.
  change (s_ "#output = " ++ print e) with (out_name ++ [" "; "="; " "]%char ++ print e).
  rewrite (wrap_output out_name e (List.length (out_name ++ [" "; "="; " "]%char ++ print e))).
  2:{ split; [discriminate | reflexivity]. }
  2:{ assumption. }
  2:{ assumption. }
  2:{ pose proof (size_le_print e Hwf). rewrite !app_length. cbn [List.length]. lia. }
  cbn [rpn_res bind app].
  rewrite run_push by reflexivity.
  destruct (run_expr e t 0 [SStr out_name] [["="%char]] d HI Hco Hs Hfresh Hwfe Hsem) as [t' [it [Hrun [Hext [Hco' Hirel]]]]].
  rewrite Hrun. rewrite run_op by reflexivity.
  pose proof (e_inv _ _ _ _ Hext) as HI'. pose proof (e_size _ _ _ _ Hext) as Hsz'.
  assert (Hout' : has_af t' out_name = false).
  { destruct (has_af t' out_name) eqn:E; [|reflexivity].
    destruct (e_new _ _ _ _ Hext out_name Hout E) as [j [_ Hj]]. symmetry in Hj. apply temp_ne_out in Hj. contradiction. }
  assert (Hlen : match d with DC col => List.length col = Table.size t' | DS _ => True end).
  { pose proof (sem_length t e d HI Hco Hsem) as L. destruct d; [exact I | congruence]. }
  destruct (assign_out t' it d (0 + nops e) HI' Hco' ltac:(congruence) Hout' Hirel Hlen)
    as [t1 [Hap [HI1 [Hn1 [Hsz1 [Hg1 [Hx1 [Hy1 [Hz1 [Ht1 Hfr1]]]]]]]]]].
  rewrite Hap. cbn [bind fst snd run_rpn].
  fold out_name. rewrite Hg1. cbn [bind].
  (* removal of #output *)
  assert (Hhas1 : has_af t1 out_name = true).
  { apply has_af_names. left. rewrite Hn1. apply in_or_app. right. left. reflexivity. }
  assert (exists i, lookup (dico t1) out_name = Some i) as [i Hl1].
  { unfold has_af in Hhas1. destruct (lookup (dico t1) out_name) as [i|]; [exists i; reflexivity | discriminate]. }
  assert (exists t2, remove_af t1 out_name = Ok t2) as [t2 Hrm].
  { unfold remove_af. rewrite Hhas1, Hl1. cbn [negb]. eexists. reflexivity. }
  rewrite Hrm. cbn [bind].
  destruct (remove_spec t1 out_name i t2 HI1 Hl1 Hrm) as [HI2 [Hn2 [_ [Hx2 [Hy2 [Hz2 [Ht2 [_ Hfr2]]]]]]]].
  destruct (e_coords _ _ _ _ Hext) as [Hx' [Hy' [Hz' Ht']]].
  exists t2. split; [rewrite Hsz'; reflexivity|]. split.
  - intros m Hm. assert (Hne : m <> out_name) by (intros ->; congruence).
    rewrite (Hfr2 m Hne), (Hfr1 m Hne). apply (e_old _ _ _ _ Hext m Hm).
  - split; [congruence|]. split; [congruence|]. split; [congruence|]. split; [congruence|]. split; [exact HI2|].
    destruct (e_names _ _ _ _ Hext) as [tmps [Hnm Htm]]. exists tmps. split.
    + rewrite Hn2, Hn1.
      assert (Hnotin : ~ In out_name (names t')) by (intros Hin; assert (has_af t' out_name = true) by (apply has_af_names; left; exact Hin); congruence).
      rewrite filter_app. cbn [filter]. unfold keep at 2. 
      assert (E : str_eqb out_name out_name = true) by (unfold str_eqb; destruct (list_eq_dec ascii_dec out_name out_name); [reflexivity | congruence]).
      rewrite E. cbn [negb]. rewrite app_nil_r.
      assert (F : forall l, ~ In out_name l -> filter (keep out_name) l = l).
      { induction l as [|a l IHl]; intros Hl; [reflexivity|]. cbn [filter]. unfold keep at 1.
        destruct (str_eqb a out_name) eqn:Ea.
        - exfalso. apply Hl. left. unfold str_eqb in Ea. destruct (list_eq_dec ascii_dec a out_name); [assumption | discriminate].
        - cbn [negb]. f_equal. apply IHl. intros H. apply Hl. right. exact H. }
      rewrite (F _ Hnotin). exact Hnm.
    + intros m Hm. destruct (Htm m Hm) as [j [_ Hj]]. exists j. exact Hj.
Qed.
Print Assumptions evaluate_correct.

(* non-vacuity: the hypotheses hold for a concrete track and a + 2 * (x - a) *)
Definition t_ex : track :=
  {| xs := [Some 1; Some 5]; ys := [Some 0; Some 0]; zs := [Some 0; Some 0]; ts := [Some 0; Some 1];
     dico := [(s_ "a", 0%nat)]; feats := [[Some 3]; [Some 4]] |}.
Definition e_ex : expr :=
  Bin "+" (Atom (s_ "a")) (Bin "*" (Atom (s_ "2")) (Par (Bin "-" (Atom (s_ "x")) (Atom (s_ "a"))))).
Eval vm_compute in (string_of_list_ascii (print e_ex), clean (print e_ex), sem t_ex e_ex,
                    match evaluate t_ex (print e_ex) with Ok (t2, o) => (o, names t2) | Err _ => (None, []) end).

Example ex_hyps :
  Inv t_ex /\ coords_ok t_ex /\ Table.size t_ex <> 0%nat /\ fresh_from t_ex 0 /\ has_af t_ex out_name = false /\
  wf e_ex /\ wfe t_ex e_ex /\ (0 < minclass e_ex)%nat /\ clean (print e_ex) = true /\ exists d, sem t_ex e_ex = Ok d.
Proof.
  split; [|split; [|split; [|split; [|split; [|split; [|split; [|split; [|split]]]]]]]].
  - constructor; cbn.
    + repeat constructor. intros [].
    + reflexivity.
    + repeat constructor.
    + reflexivity.
    + intros n [<-|[]]. reflexivity.
  - repeat split.
  - discriminate.
  - intros j _. unfold has_af. cbn [dico t_ex lookup].
    assert (E : str_eqb (s_ "a") (temp_name j) = false) by (apply str_eqb_false; discriminate).
    rewrite E. reflexivity.
  - reflexivity.
  - cbv [wf e_ex minclass class_of Ascii.eqb Bool.eqb forallb special negb orb Nat.ltb Nat.leb Nat.min andb s_ list_ascii_of_string].
    repeat split; try lia; try discriminate; try reflexivity.
  - cbn [wfe e_ex]. repeat split; try reflexivity; try (left; repeat split; reflexivity); try (right; split; [reflexivity | discriminate]).
  - cbn. lia.
  - vm_compute. reflexivity.
  - eexists. vm_compute. reflexivity.
Qed.

(* non-vacuity with a function call: a + D@(x) + SUM@(a) *)
Definition e_ex2 : expr :=
  Bin "+" (Bin "+" (Atom (s_ "a")) (Bin "@" (Atom (s_ "D")) (Par (Atom (s_ "x")))))
          (Bin "@" (Atom (s_ "SUM")) (Par (Atom (s_ "a")))).
Eval vm_compute in (string_of_list_ascii (print e_ex2), clean (print e_ex2), sem t_ex e_ex2,
                    match evaluate t_ex (print e_ex2) with Ok (t2, o) => (o, names t2) | Err _ => (None, []) end).

Example ex2_hyps :
  wf e_ex2 /\ wfe t_ex e_ex2 /\ (0 < minclass e_ex2)%nat /\ clean (print e_ex2) = true /\ exists d, sem t_ex e_ex2 = Ok d.
Proof.
  split; [|split; [|split; [|split]]].
  - cbv [wf e_ex2 minclass class_of Ascii.eqb Bool.eqb forallb special negb orb Nat.ltb Nat.leb Nat.min andb s_ list_ascii_of_string].
    repeat split; try lia; try discriminate; try reflexivity.
  - cbn [wfe e_ex2 Ascii.eqb Bool.eqb]. repeat split; try reflexivity; try (left; repeat split; reflexivity).
  - cbn. lia.
  - vm_compute. reflexivity.
  - eexists. vm_compute. reflexivity.
Qed.

(* spaces anywhere in the input are irrelevant: __evaluate removes them first *)
Lemma filter_idem {A} (f : A -> bool) l : filter f (filter f l) = filter f l.
Proof. induction l as [|a l IH]; [reflexivity|]. cbn. destruct (f a) eqn:E; cbn; [rewrite E, IH|]; auto. Qed.

Lemma evaluate_strip t s : evaluate t s = evaluate t (filter (fun c => negb (Ascii.eqb c " ")) s).
Proof. unfold evaluate. rewrite filter_idem. reflexivity. Qed.

Corollary evaluate_correct_spaced e t d s :
  filter (fun c => negb (Ascii.eqb c " ")) s = print e ->
  Inv t -> coords_ok t -> Table.size t <> 0%nat -> fresh_from t 0 -> has_af t out_name = false ->
  wf e -> wfe t e -> (0 < minclass e)%nat -> clean (print e) = true -> sem t e = Ok d ->
  exists t2, evaluate t s = Ok (t2, Some (dcol (Table.size t) d))
    /\ (forall m, has_af t m = true -> get_af t2 m = get_af t m)
    /\ xs t2 = xs t /\ ys t2 = ys t /\ zs t2 = zs t /\ ts t2 = ts t
    /\ Inv t2 /\ (exists tmps, names t2 = names t ++ tmps /\ forall m, In m tmps -> exists j, m = temp_name j).
Proof. intros Hs. rewrite evaluate_strip, Hs. apply evaluate_correct. Qed.
