From Coq Require Import List Arith QArith Bool Lia Lqa.
Import ListNotations.
From TL Require Import Model.Dtw.
Open Scope Q_scope.

Section Rec.
Variable w : Q -> Q -> Q.
Variable D : nat -> nat -> Q.

Lemma row0_length n : List.length (row0 w D n) = n.
Proof.
  induction n as [|n IH]; [reflexivity|]. cbn [row0]. destruct n as [|n']; [reflexivity|].
  rewrite app_length, IH. simpl. lia.
Qed.

Lemma row0_S n : row0 w D (S (S n)) = row0 w D (S n) ++ [w (last (row0 w D (S n)) 0) (D 0%nat (S n))].
Proof. reflexivity. Qed.

Lemma nth_last {A} (l : list A) d : l <> [] -> last l d = nth (List.length l - 1) l d.
Proof.
  induction l as [|a l IH]; intros H; [contradiction|]. destruct l as [|b l]; [reflexivity|].
  change (last (a :: b :: l) d) with (last (b :: l) d). rewrite IH by discriminate. simpl. rewrite Nat.sub_0_r. reflexivity.
Qed.

Lemma row0_ne n : row0 w D (S n) <> [].
Proof. intros E. apply (f_equal (@List.length Q)) in E. rewrite row0_length in E. discriminate. Qed.

(* prefix stability: the j-th entry of row0 does not depend on how far the row is built *)
Lemma row0_nth : forall n j, (j < n)%nat -> nth j (row0 w D n) 0 = nth j (row0 w D (S j)) 0.
Proof.
  induction n as [|n IH]; intros j Hj; [lia|].
  destruct (Nat.eq_dec j n) as [->|Hne]; [reflexivity|].
  destruct n as [|n']; [lia|]. rewrite row0_S. rewrite app_nth1 by (rewrite row0_length; lia).
  apply IH. lia.
Qed.

Lemma row0_rec0 n : (0 < n)%nat -> nth 0 (row0 w D n) 0 = w 0 (D 0%nat 0%nat).
Proof. intros H. rewrite row0_nth by assumption. reflexivity. Qed.

Lemma row0_recS n j : (S j < n)%nat -> nth (S j) (row0 w D n) 0 = w (nth j (row0 w D n) 0) (D 0%nat (S j)).
Proof.
  intros H. rewrite (row0_nth n (S j)) by assumption. rewrite (row0_nth n j) by lia.
  rewrite row0_S. rewrite app_nth2 by (rewrite row0_length; lia). rewrite row0_length, Nat.sub_diag. cbn [nth].
  rewrite nth_last by apply row0_ne.
  rewrite row0_length. replace (S j - 1)%nat with j by lia. reflexivity.
Qed.

Lemma next_row_length i prev n : List.length (next_row w D i prev n) = n.
Proof.
  induction n as [|n IH]; [reflexivity|]. cbn [next_row]. destruct n as [|n']; [reflexivity|].
  rewrite app_length, IH. simpl. lia.
Qed.

Lemma next_row_ne i prev n : next_row w D i prev (S n) <> [].
Proof. intros E. apply (f_equal (@List.length Q)) in E. rewrite next_row_length in E. discriminate. Qed.

Lemma next_row_S i prev n : next_row w D i prev (S (S n)) =
  next_row w D i prev (S n) ++ [w (Qmin (nth n prev 0) (Qmin (nth (S n) prev 0) (last (next_row w D i prev (S n)) 0))) (D i (S n))].
Proof. reflexivity. Qed.

Lemma next_row_nth i prev : forall n j, (j < n)%nat -> nth j (next_row w D i prev n) 0 = nth j (next_row w D i prev (S j)) 0.
Proof.
  induction n as [|n IH]; intros j Hj; [lia|].
  destruct (Nat.eq_dec j n) as [->|Hne]; [reflexivity|].
  destruct n as [|n']; [lia|]. rewrite next_row_S. rewrite app_nth1 by (rewrite next_row_length; lia).
  apply IH. lia.
Qed.

Lemma next_row_rec0 i prev n : (0 < n)%nat -> nth 0 (next_row w D i prev n) 0 = w (nth 0 prev 0) (D i 0%nat).
Proof. intros H. rewrite next_row_nth by assumption. reflexivity. Qed.

Lemma next_row_recS i prev n j : (S j < n)%nat ->
  nth (S j) (next_row w D i prev n) 0 =
  w (Qmin (nth j prev 0) (Qmin (nth (S j) prev 0) (nth j (next_row w D i prev n) 0))) (D i (S j)).
Proof.
  intros H. rewrite (next_row_nth i prev n (S j)) by assumption. rewrite (next_row_nth i prev n j) by lia.
  rewrite next_row_S. rewrite app_nth2 by (rewrite next_row_length; lia). rewrite next_row_length, Nat.sub_diag. cbn [nth].
  rewrite nth_last by apply next_row_ne.
  rewrite next_row_length. replace (S j - 1)%nat with j by lia. reflexivity.
Qed.

Lemma rows_length n2 n1 : List.length (rows w D n2 n1) = n2.
Proof.
  induction n2 as [|n IH]; [reflexivity|]. cbn [rows]. destruct n as [|n']; [reflexivity|].
  rewrite app_length, IH. simpl. lia.
Qed.

Lemma rows_ne n n1 : rows w D (S n) n1 <> [].
Proof. intros E. apply (f_equal (@List.length (list Q))) in E. rewrite rows_length in E. discriminate. Qed.

Lemma rows_S n n1 : rows w D (S (S n)) n1 = rows w D (S n) n1 ++ [next_row w D (S n) (last (rows w D (S n) n1) []) n1].
Proof. reflexivity. Qed.

Lemma rows_nth n1 : forall n2 i, (i < n2)%nat -> nth i (rows w D n2 n1) [] = nth i (rows w D (S i) n1) [].
Proof.
  induction n2 as [|n IH]; intros i Hi; [lia|].
  destruct (Nat.eq_dec i n) as [->|Hne]; [reflexivity|].
  destruct n as [|n']; [lia|]. rewrite rows_S. rewrite app_nth1 by (rewrite rows_length; lia).
  apply IH. lia.
Qed.

Lemma rows_0 n2 n1 : (0 < n2)%nat -> nth 0 (rows w D n2 n1) [] = row0 w D n1.
Proof. intros H. rewrite rows_nth by assumption. reflexivity. Qed.

Lemma rows_Si n2 n1 i : (S i < n2)%nat -> nth (S i) (rows w D n2 n1) [] = next_row w D (S i) (nth i (rows w D n2 n1) []) n1.
Proof.
  intros H. rewrite (rows_nth n1 n2 (S i)) by assumption. rewrite (rows_nth n1 n2 i) by lia.
  rewrite rows_S. rewrite app_nth2 by (rewrite rows_length; lia). rewrite rows_length, Nat.sub_diag. cbn [nth].
  rewrite nth_last by apply rows_ne.
  rewrite rows_length. replace (S i - 1)%nat with i by lia. reflexivity.
Qed.

(* the recurrences of comparison._dtw, read off the model *)
Theorem T_00 n2 n1 : (0 < n2)%nat -> (0 < n1)%nat -> T w D n2 n1 0 0 = w 0 (D 0%nat 0%nat).
Proof. intros H2 H1. unfold T. rewrite rows_0 by assumption. apply row0_rec0. assumption. Qed.
Theorem T_0S n2 n1 j : (0 < n2)%nat -> (S j < n1)%nat -> T w D n2 n1 0 (S j) = w (T w D n2 n1 0 j) (D 0%nat (S j)).
Proof. intros H2 H1. unfold T. rewrite rows_0 by assumption. apply row0_recS. assumption. Qed.
Theorem T_S0 n2 n1 i : (S i < n2)%nat -> (0 < n1)%nat -> T w D n2 n1 (S i) 0 = w (T w D n2 n1 i 0) (D (S i) 0%nat).
Proof. intros H2 H1. unfold T. rewrite rows_Si by assumption. apply next_row_rec0. assumption. Qed.
Theorem T_SS n2 n1 i j : (S i < n2)%nat -> (S j < n1)%nat ->
  T w D n2 n1 (S i) (S j) = w (Qmin (T w D n2 n1 i j) (Qmin (T w D n2 n1 i (S j)) (T w D n2 n1 (S i) j))) (D (S i) (S j)).
Proof. intros H2 H1. unfold T. rewrite rows_Si by assumption. apply next_row_recS. assumption. Qed.
End Rec.
Print Assumptions T_SS.
