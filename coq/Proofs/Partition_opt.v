From Coq Require Import List Arith QArith Bool Lia Lqa.
Import ListNotations.
From TL Require Import Model.Partition.
Open Scope Q_scope.

Lemma upd2_same {A} (f : tab A) i j v : upd2 f i j v i j = v.
Proof. unfold upd2. rewrite !Nat.eqb_refl. reflexivity. Qed.
Lemma upd2_other {A} (f : tab A) i j v a b : (a, b) <> (i, j) -> upd2 f i j v a b = f a b.
Proof.
  unfold upd2. intros H. destruct (Nat.eqb_spec a i) as [->|]; [|reflexivity].
  destruct (Nat.eqb_spec b j) as [->|]; [exfalso; apply H; reflexivity | reflexivity].
Qed.

Lemma Qltb_true x y : Qltb x y = true -> x < y.
Proof. unfold Qltb. destruct (Qlt_le_dec x y); [auto | discriminate]. Qed.
Lemma Qltb_false x y : Qltb x y = false -> y <= x.
Proof. unfold Qltb. destruct (Qlt_le_dec x y); [discriminate | auto]. Qed.

(* "le" in the requested direction: minimise -> (<=), maximise -> (>=) *)
Definition dle (minimise : bool) (x y : Q) : Prop := if minimise then x <= y else y <= x.
Lemma dle_refl m x : dle m x x. Proof. destruct m; simpl; lra. Qed.
Lemma dle_trans m x y z : dle m x y -> dle m y z -> dle m x z. Proof. destruct m; simpl; lra. Qed.
Lemma dle_plus m a b c d : dle m a b -> dle m c d -> dle m (a + c) (b + d). Proof. destruct m; simpl; lra. Qed.
Lemma dle_eq m x y : x == y -> dle m x y. Proof. destruct m; simpl; lra. Qed.
Lemma better_true m v c : better m v c = true -> dle m v c.
Proof. unfold better. destruct m; intros H; apply Qltb_true in H; simpl; lra. Qed.
Lemma better_false m v c : better m v c = false -> dle m c v.
Proof. unfold better. destruct m; intros H; apply Qltb_false in H; simpl; lra. Qed.

(* one pass of the inner loop touches only cell (i,j) and leaves it at least as good as every split seen *)
Lemma inner_spec m i j : forall ks D M,
  (forall k, In k ks -> (i < k < j)%nat) ->
  let '(D', M') := fold_left (inner_step m i j) ks (D, M) in
  (forall a b, (a, b) <> (i, j) -> D' a b = D a b /\ M' a b = M a b) /\
  dle m (D' i j) (D i j) /\
  (forall k, In k ks -> dle m (D' i j) (D i k + D k j)) /\
  ((D' i j = D i j /\ M' i j = M i j) \/ exists k, In k ks /\ M' i j = Some k /\ D' i j = D i k + D k j).
Proof.
  induction ks as [|k ks IH]; intros D M Hks; cbn [fold_left].
  - split; [intros; split; reflexivity|]. split; [apply dle_refl|]. split; [intros k []|left; split; reflexivity].
  - cbn [inner_step]. assert (Hk : (i < k < j)%nat) by (apply Hks; left; reflexivity).
    assert (Hik : (i, k) <> (i, j)) by (intros E; injection E; lia).
    assert (Hkj : (k, j) <> (i, j)) by (intros E; injection E; lia).
    destruct (better m (D i k + D k j) (D i j)) eqn:E.
    + specialize (IH (upd2 D i j (D i k + D k j)) (upd2 M i j (Some k)) (fun x Hx => Hks x (or_intror Hx))).
      destruct (fold_left (inner_step m i j) ks (upd2 D i j (D i k + D k j), upd2 M i j (Some k))) as [D' M'].
      destruct IH as [Hfr [Hle [Hall Hwit]]]. rewrite upd2_same in Hle, Hwit.
      split; [|split; [|split]].
      * intros a b Hab. destruct (Hfr a b Hab) as [H1 H2]. rewrite upd2_other in H1 by assumption. rewrite upd2_other in H2 by assumption. split; assumption.
      * apply (dle_trans m _ _ _ Hle). apply better_true. assumption.
      * intros x [<-|Hx]; [exact Hle|].
        assert (Hx' : (i < x < j)%nat) by (apply Hks; right; assumption).
        specialize (Hall x Hx). rewrite !upd2_other in Hall by (intros E'; injection E'; lia). exact Hall.
      * right. destruct Hwit as [[H1 H2]|[x [Hx [H1 H2]]]].
        -- exists k. rewrite upd2_same in H2. split; [left; reflexivity | split; assumption].
        -- assert (Hx' : (i < x < j)%nat) by (apply Hks; right; assumption).
           exists x. rewrite !upd2_other in H2 by (intros E'; injection E'; lia). split; [right; assumption | split; assumption].
    + specialize (IH D M (fun x Hx => Hks x (or_intror Hx))).
      destruct (fold_left (inner_step m i j) ks (D, M)) as [D' M'].
      destruct IH as [Hfr [Hle [Hall Hwit]]].
      split; [assumption|]. split; [assumption|]. split.
      * intros x [<-|Hx]; [|apply Hall; assumption]. apply (dle_trans m _ _ _ Hle). apply better_false. assumption.
      * destruct Hwit as [H|[x [Hx H]]]; [left; assumption | right; exists x; split; [right; assumption | assumption]].
Qed.
Print Assumptions inner_spec.
