From Coq Require Import List ZArith Bool Lia.
Import ListNotations.
From TL Require Import Model.ObsTime.
Open Scope Z_scope.
Ltac Zify.zify_post_hook ::= Z.to_euclidean_division_equations.

Lemma year_len_pos y : 31536000 <= year_len y <= 31622400.
Proof. unfold year_len. destruct (is_leap y); lia. Qed.

Lemma years_secs_mono n : years_secs n + 31536000 <= years_secs (S n).
Proof. cbn [years_secs]. pose proof (year_len_pos (1970 + Z.of_nat n)). lia. Qed.

Lemma years_secs_lb n : 31536000 * Z.of_nat n <= years_secs n.
Proof. induction n as [|n IH]; [simpl; lia|]. pose proof (years_secs_mono n). lia. Qed.

(* the repaired year loop started at year 1970+j with s = years_secs j *)
Lemma year_loop_spec elapsed : forall fuel j,
  years_secs j <= elapsed -> elapsed - years_secs j < 31536000 * Z.of_nat fuel ->
  exists n, (j <= n)%nat /\ year_loop fuel elapsed (years_secs j) (1970 + Z.of_nat j) = (years_secs n, 1970 + Z.of_nat n)
            /\ years_secs n <= elapsed < years_secs (S n).
Proof.
  induction fuel as [|f IH]; intros j Hle Hf; [lia|].
  cbn [year_loop]. destruct (Z.leb_spec (years_secs j + year_len (1970 + Z.of_nat j)) elapsed) as [H|H].
  - change (years_secs j + year_len (1970 + Z.of_nat j)) with (years_secs (S j)).
    replace (1970 + Z.of_nat j + 1) with (1970 + Z.of_nat (S j)) by lia.
    destruct (IH (S j)) as [n [Hn [E Hb]]].
    + assumption.
    + pose proof (years_secs_mono j). lia.
    + exists n. split; [lia|]. split; assumption.
  - exists j. split; [lia|]. split; [reflexivity|]. cbn [years_secs]. lia.
Qed.

Lemma fuel_ok elapsed : 0 <= elapsed -> elapsed - years_secs 0 < 31536000 * Z.of_nat (fuel_for elapsed).
Proof.
  intros H. unfold fuel_for. simpl years_secs. rewrite Z2Nat.id by (apply Z.add_nonneg_nonneg; [apply Z.div_pos; lia | lia]).
  pose proof (Z.mul_succ_div_gt elapsed 31536000 ltac:(lia)). lia.
Qed.

(* month loop: generic list lemma, no 12-way case split *)
Lemma month_loop_spec y : forall l k e, 0 <= e -> e < months_secs y l k (length l) ->
  exists n, (n < length l)%nat /\ month_loop y l k e = ((k + n)%nat, e - months_secs y l k n)
            /\ 0 <= e - months_secs y l k n < month_secs y (k + n) (nth n l 0).
Proof.
  induction l as [|d r IH]; intros k e He Hlt; [simpl in Hlt; lia|].
  cbn [month_loop]. destruct (Z.ltb_spec e (month_secs y k d)) as [H|H].
  - exists 0%nat. simpl. rewrite Nat.add_0_r. split; [lia|]. split; [f_equal; lia | lia].
  - destruct (IH (S k) (e - month_secs y k d)) as [n [Hn [E Hb]]]; [lia | simpl in Hlt; lia |].
    exists (S n). split; [simpl; lia|]. cbn [months_secs nth].
    replace (k + S n)%nat with (S k + n)%nat by lia.
    split; [rewrite E; f_equal; lia | lia].
Qed.

Lemma months_secs_total y : months_secs y dpm 0 12 = year_len y.
Proof. unfold year_len. cbv [months_secs dpm month_secs Nat.eqb andb]. destruct (is_leap y); lia. Qed.

Lemma month_secs_dim_aux (b : bool) (n : nat) : (n < 12)%nat ->
  nth n dpm 0 * 86400 + (if Nat.eqb n 1 && b then 86400 else 0)
  = (nth n dpm 0 + (if (Z.of_nat n + 1 =? 2) && b then 1 else 0)) * 86400.
Proof. intros H. do 12 (destruct n as [|n]; [destruct b; reflexivity|]). lia. Qed.

Lemma month_secs_dim y (n : nat) : (n < 12)%nat ->
  month_secs y n (nth n dpm 0) = days_in_month y (Z.of_nat n + 1) * 86400.
Proof.
  intros H. unfold days_in_month, month_secs.
  replace (Z.to_nat (Z.of_nat n + 1 - 1)) with n by lia.
  apply month_secs_dim_aux. assumption.
Qed.

Theorem read_unix_wf_abs s : 0 <= s ->
  wf (read_unix s) = true /\ to_abs (read_unix s) = s /\ 1970 <= year (read_unix s).
Proof.
  intros Hs. unfold read_unix, read_with.
  destruct (year_loop_spec s (fuel_for s) 0%nat ltac:(simpl; lia) (fuel_ok s Hs)) as [n [_ [E [Hlo Hhi]]]].
  simpl Z.of_nat in E. rewrite Z.add_0_r in E. simpl years_secs in E at 1. rewrite E.
  set (y := 1970 + Z.of_nat n). set (e := s - years_secs n).
  assert (He : 0 <= e < year_len y) by (unfold e, y; cbn [years_secs] in Hhi; lia).
  destruct (month_loop_spec y dpm 0%nat e ltac:(lia) ltac:(simpl length; rewrite months_secs_total; lia))
    as [m [Hm [Em Hb]]].
  rewrite Em. simpl Nat.add in *. simpl length in Hm.
  set (e1 := e - months_secs y dpm 0 m) in *.
  rewrite month_secs_dim in Hb by assumption.
  set (dim := days_in_month y (Z.of_nat m + 1)) in *.
  (* all remaining facts are linear arithmetic with div/mod by constants *)
  split; [|split].
  - unfold wf; cbn [year month day hour minute sec ms]. fold dim.
    repeat (apply andb_true_intro; split);
    try apply Z.leb_le; try apply Z.ltb_lt; try lia.
  - unfold to_abs; cbn [year month day hour minute sec ms].
    replace (Z.to_nat (y - 1970)) with n by (unfold y; lia).
    replace (Z.to_nat (Z.of_nat m + 1 - 1)) with m by lia.
    fold e1. unfold e1, e. lia.
  - cbn [year]. unfold y. lia.
Qed.
Print Assumptions read_unix_wf_abs.

(* the current code refutes well-formedness *)
Theorem read_unix_cur_refuted : exists s, 0 <= s /\ wf (read_unix_cur s) = false.
Proof. exists 31536000. split; [lia | vm_compute; reflexivity]. Qed.
