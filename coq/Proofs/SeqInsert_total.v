(* C04: the dichotomy of __getInsertionIndex terminates within the model's fuel (N + log2 N + 3 iterations): the index is
   always defined, for every list, sorted or not *)
From Coq Require Import List ZArith Bool Lia.
Import ListNotations.
From TL Require Import Model.SeqInsert Proofs.SeqInsert_range.
Open Scope Z_scope.

Definition meas (N id delta : Z) : Z :=
  if delta =? 0 then 1 else if delta =? 1 then 2 else if delta =? -1 then id + 3 else Z.log2 (Z.abs delta) + N + 3.

Lemma meas_pow2 N id (m : nat) : (1 <= m)%nat -> meas N id (2 ^ Z.of_nat m) = Z.of_nat m + N + 3 /\ meas N id (- 2 ^ Z.of_nat m) = Z.of_nat m + N + 3.
Proof.
  intros Hm. pose proof (pow2_pos m) as Hp.
  assert (H2 : 2 <= 2 ^ Z.of_nat m).
  { replace (Z.of_nat m) with (Z.succ (Z.of_nat (m - 1))) by lia. rewrite Z.pow_succ_r by lia. pose proof (pow2_pos (m - 1)). lia. }
  unfold meas. split.
  - destruct (Z.eqb_spec (2 ^ Z.of_nat m) 0); [lia|]. destruct (Z.eqb_spec (2 ^ Z.of_nat m) 1); [lia|].
    destruct (Z.eqb_spec (2 ^ Z.of_nat m) (-1)); [lia|]. rewrite Z.abs_eq by lia. rewrite Z.log2_pow2 by lia. reflexivity.
  - destruct (Z.eqb_spec (- 2 ^ Z.of_nat m) 0); [lia|]. destruct (Z.eqb_spec (- 2 ^ Z.of_nat m) 1); [lia|].
    destruct (Z.eqb_spec (- 2 ^ Z.of_nat m) (-1)); [lia|]. rewrite Z.abs_opp, Z.abs_eq by lia. rewrite Z.log2_pow2 by lia. reflexivity.
Qed.

Lemma meas_small N id : meas N id 0 = 1 /\ meas N id 1 = 2 /\ meas N id (-1) = id + 3.
Proof. unfold meas. repeat split; reflexivity. Qed.

(* measure of the successor state, for a power-of-two step of exponent m' *)
Lemma meas_next N id (m' : nat) sgn : (sgn = 1 \/ sgn = -1) -> 0 <= id <= N - 1 ->
  meas N id (sgn * 2 ^ Z.of_nat m') <= Z.of_nat m' + N + 3.
Proof.
  intros Hs Hid. destruct m' as [|m''].
  - change (2 ^ Z.of_nat 0) with 1. destruct (meas_small N id) as [_ [E1 E2]].
    destruct Hs as [-> | ->]; [change (1 * 1) with 1; rewrite E1 | change (-1 * 1) with (-1); rewrite E2]; lia.
  - destruct (meas_pow2 N id (S m'') ltac:(lia)) as [E1 E2].
    destruct Hs as [-> | ->]; [rewrite Z.mul_1_l, E1 | replace (-1 * 2 ^ Z.of_nat (S m'')) with (- 2 ^ Z.of_nat (S m'')) by lia; rewrite E2]; lia.
Qed.

Lemma dicho_total l N t : forall fuel id delta,
  Inv N id delta -> meas N id delta <= Z.of_nat fuel -> exists r, dicho fuel l N t id delta = Some r.
Proof.
  induction fuel as [|f IH]; intros id delta HI Hm.
  - exfalso. unfold meas in Hm. destruct (delta =? 0); [lia|]. destruct (delta =? 1); [lia|].
    destruct HI as [[Hd Hid] | [[m [Hd [Hlo Hhi]]] | [m [Hd [Hhi Hlo]]]]].
    + subst. simpl in Hm. lia.
    + pose proof (pow2_pos m). destruct (delta =? -1); [lia|]. pose proof (Z.log2_nonneg (Z.abs delta)). lia.
    + pose proof (pow2_pos m). destruct (delta =? -1); [lia|]. pose proof (Z.log2_nonneg (Z.abs delta)). lia.
  - cbn [dicho].
    destruct HI as [[Hd Hid] | [[m [Hd [Hlo Hhi]]] | [m [Hd [Hhi Hlo]]]]].
    + subst delta. cbn. eexists; reflexivity.
    + pose proof (pow2_pos m) as Hp.
      destruct (Z.eqb_spec delta 0) as [E|_]; [lia|].
      destruct (Z.leb_spec N (id + delta)) as [E|_]; [lia|].
      destruct (Z.eqb_spec (id + delta) 0) as [E|_]; [lia|].
      assert (Hnext : forall sgn, (sgn = 1 \/ sgn = -1) ->
                Inv N (id + delta) (sgn * Z.abs (Z.shiftr delta 1)) /\ meas N (id + delta) (sgn * Z.abs (Z.shiftr delta 1)) <= Z.of_nat f).
      { intros sgn Hs. subst delta. destruct (next_delta_pos m) as [[-> Hr] | [m' [-> Hr]]]; cbv zeta in Hr; rewrite Hr.
        - split; [left; split; [lia | simpl in *; lia]|].
          change (2 ^ Z.of_nat 0) with 1 in Hm. destruct (meas_small N id) as [_ [E1 _]]. rewrite E1 in Hm.
          replace (sgn * 0) with 0 by lia. destruct (meas_small N (id + 2 ^ Z.of_nat 0)) as [E0 _]. rewrite E0. lia.
        - rewrite Nat2Z.inj_succ, Z.pow_succ_r in * by lia. pose proof (pow2_pos m').
          split.
          + destruct Hs as [-> | ->]; [right; left | right; right]; exists m'; split; lia.
          + destruct (meas_pow2 N id (S m') ltac:(lia)) as [E1 _]. rewrite Nat2Z.inj_succ, Z.pow_succ_r in E1 by lia. rewrite E1 in Hm.
            pose proof (meas_next N (id + 2 * 2 ^ Z.of_nat m') m' sgn Hs ltac:(lia)). lia. }
      destruct (t <? tget l (id + delta)).
      * destruct (Hnext (-1) ltac:(right; reflexivity)) as [I M]. destruct (IH _ _ I M) as [r Hr]. exists r. rewrite <- Hr. f_equal; lia.
      * destruct (Hnext 1 ltac:(left; reflexivity)) as [I M]. destruct (IH _ _ I M) as [r Hr]. exists r. rewrite <- Hr. f_equal; lia.
    + pose proof (pow2_pos m) as Hp.
      destruct (Z.eqb_spec delta 0) as [E|_]; [lia|].
      destruct (Z.leb_spec N (id + delta)) as [E|_]; [lia|].
      destruct (Z.eqb_spec (id + delta) 0) as [E|Hnz]; [eexists; reflexivity|].
      assert (Hnext : forall sgn, (sgn = 1 \/ sgn = -1) ->
                Inv N (id + delta) (sgn * Z.abs (Z.shiftr delta 1)) /\ meas N (id + delta) (sgn * Z.abs (Z.shiftr delta 1)) <= Z.of_nat f).
      { intros sgn Hs. subst delta. destruct (next_delta_neg m) as [[-> Hr] | [m' [-> Hr]]]; cbv zeta in Hr; rewrite Hr.
        - change (- 2 ^ Z.of_nat 0) with (-1) in *. change (2 ^ Z.of_nat 0) with 1 in *. destruct (meas_small N id) as [_ [_ Em]]. rewrite Em in Hm.
          split.
          + simpl in *. destruct Hs as [-> | ->]; [right; left | right; right]; exists 0%nat; simpl; lia.
          + destruct (meas_small N (id + -1)) as [_ [E1 E2]].
            destruct Hs as [-> | ->]; [change (1 * 1) with 1; rewrite E1 | change (-1 * 1) with (-1); rewrite E2]; lia.
        - rewrite Nat2Z.inj_succ, Z.pow_succ_r in * by lia. pose proof (pow2_pos m').
          split.
          + destruct Hs as [-> | ->]; [right; left | right; right]; exists m'; split; lia.
          + destruct (meas_pow2 N id (S m') ltac:(lia)) as [_ E2]. rewrite Nat2Z.inj_succ, Z.pow_succ_r in E2 by lia. rewrite E2 in Hm.
            pose proof (meas_next N (id + - (2 * 2 ^ Z.of_nat m')) m' sgn Hs ltac:(lia)). lia. }
      destruct (t <? tget l (id + delta)).
      * destruct (Hnext (-1) ltac:(right; reflexivity)) as [I M]. destruct (IH _ _ I M) as [r Hr]. exists r. rewrite <- Hr. f_equal; lia.
      * destruct (Hnext 1 ltac:(left; reflexivity)) as [I M]. destruct (IH _ _ I M) as [r Hr]. exists r. rewrite <- Hr. f_equal; lia.
Qed.

Theorem insertion_index_total l t : exists k, insertion_index l t = Some k.
Proof.
  unfold insertion_index. set (N := Z.of_nat (length l)).
  destruct (Z.eqb_spec N 0); [eexists; reflexivity|]. destruct (Z.eqb_spec N 1); [eexists; reflexivity|].
  assert (HN : 2 <= N) by (unfold N in *; lia).
  pose proof (Z.log2_pos N ltac:(lia)) as Hl. pose proof (Z.log2_spec N ltac:(lia)) as Hspec.
  destruct (dicho_total l N t (length l + Z.to_nat (Z.log2 N) + 3)%nat 0 (2 ^ (Z.log2 N - 1))) as [r Hr].
  - right; left. exists (Z.to_nat (Z.log2 N - 1)). rewrite Z2Nat.id by lia. split; [reflexivity|]. split; [lia|].
    replace (2 * 2 ^ (Z.log2 N - 1)) with (2 ^ (Z.log2 N)) by (rewrite <- Z.pow_succ_r by lia; f_equal; lia). lia.
  - replace (2 ^ (Z.log2 N - 1)) with (1 * 2 ^ Z.of_nat (Z.to_nat (Z.log2 N - 1))) by (rewrite Z2Nat.id by lia; lia).
    pose proof (meas_next N 0 (Z.to_nat (Z.log2 N - 1)) 1 ltac:(left; reflexivity) ltac:(lia)) as M.
    unfold N in *. lia.
  - rewrite Hr. eexists; reflexivity.
Qed.
Print Assumptions insertion_index_total.
