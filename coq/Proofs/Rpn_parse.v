From Coq Require Import List Ascii String ZArith Bool Lia.
Import ListNotations.
From TL Require Import Model.Rpn.
Open Scope char_scope.

Inductive expr := Atom (s : str) | Bin (op : ascii) (l r : expr) | Par (e : expr).

Fixpoint print (e : expr) : str :=
  match e with
  | Atom s => s
  | Bin op l r => print l ++ [op] ++ print r
  | Par e => ["("] ++ print e ++ [")"]
  end.

Fixpoint postfix (e : expr) : list str :=
  match e with
  | Atom s => [s]
  | Bin op l r => postfix l ++ postfix r ++ [[op]]
  | Par e => postfix e
  end.

Fixpoint size (e : expr) : nat :=
  match e with Atom _ => 1 | Bin _ l r => S (size l + size r) | Par e => S (size e) end.

(* class index of an operator character, 9 = not an operator *)
Definition class_of (c : ascii) : nat :=
  if Ascii.eqb c "=" then 0 else if Ascii.eqb c "<" then 1 else if Ascii.eqb c ">" then 1
  else if Ascii.eqb c "+" then 2 else if Ascii.eqb c "-" then 2 else if Ascii.eqb c "!" then 3
  else if Ascii.eqb c "*" then 4 else if Ascii.eqb c "/" then 4 else if Ascii.eqb c "%" then 5
  else if Ascii.eqb c "^" then 6 else if Ascii.eqb c "@" then 7 else if Ascii.eqb c "&" then 8
  else if Ascii.eqb c "$" then 8 else 9.

Definition special (c : ascii) : bool :=
  Nat.ltb (class_of c) 9 || Ascii.eqb c "(" || Ascii.eqb c ")" || Ascii.eqb c " ".

(* lowest class among the operators printed at depth 0 *)
Fixpoint minclass (e : expr) : nat :=
  match e with
  | Atom _ => 9
  | Par _ => 9
  | Bin op l r => Nat.min (class_of op) (Nat.min (minclass l) (minclass r))
  end.

Fixpoint wf (e : expr) : Prop :=
  match e with
  | Atom s => s <> [] /\ forallb (fun c => negb (special c)) s = true
  | Par e => wf e
  | Bin op l r => class_of op < 9 /\ wf l /\ wf r /\ class_of op <= minclass l /\ class_of op < minclass r
  end.

(* membership in the k-th class is exactly "class_of = k" *)
Lemma mem_class k c : k < 9 -> mem c (nth k classes []) = Nat.eqb (class_of c) k.
Proof.
  intros Hk. do 9 (destruct k as [|k]; [clear Hk; unfold class_of, mem; simpl;
    repeat match goal with |- context [Ascii.eqb c ?x] => destruct (Ascii.eqb_spec c x); [subst; reflexivity|] end;
    reflexivity|]). lia.
Qed.

Definition dstep (c : ascii) (d : Z) : Z :=
  if Ascii.eqb c ")" then (d + 1)%Z else if Ascii.eqb c "(" then (d - 1)%Z else d.

Lemma scan_cons ops c r d acc :
  scan ops (c :: r) d acc =
  if (dstep c d =? 0)%Z && mem c ops then Some (rev r, c, acc) else scan ops r (dstep c d) (c :: acc).
Proof. reflexivity. Qed.


Lemma rev_snoc_app {A} (s : list A) c rest : rev (s ++ [c]) ++ rest = c :: (rev s ++ rest).
Proof. rewrite rev_app_distr. reflexivity. Qed.
Lemma rev_bin_app {A} (pl pr : list A) op rest : rev (pl ++ [op] ++ pr) ++ rest = rev pr ++ op :: (rev pl ++ rest).
Proof. rewrite !rev_app_distr. simpl. rewrite <- !app_assoc. reflexivity. Qed.
Lemma rev_par_app {A} (pe : list A) a b rest : rev ([a] ++ pe ++ [b]) ++ rest = b :: (rev pe ++ a :: rest).
Proof. simpl. rewrite rev_app_distr. simpl. rewrite <- !app_assoc. reflexivity. Qed.

(* scanning over a plain (non-special) word never hits and keeps the depth *)
Lemma scan_plain k s : k < 9 -> forallb (fun c => negb (special c)) s = true ->
  forall rest d acc, scan (nth k classes []) (rev s ++ rest) d acc = scan (nth k classes []) rest d (s ++ acc).
Proof.
  intros Hk. induction s as [|c s IH] using rev_ind; intros Hs rest d acc; [reflexivity|].
  rewrite forallb_app in Hs. apply andb_prop in Hs. destruct Hs as [Hs Hc]. simpl in Hc.
  rewrite andb_true_r in Hc. apply negb_true_iff in Hc.
  rewrite rev_snoc_app, scan_cons.
  unfold special in Hc. apply orb_false_iff in Hc. destruct Hc as [Hc Hsp].
  apply orb_false_iff in Hc. destruct Hc as [Hc Hrp]. apply orb_false_iff in Hc. destruct Hc as [Hcl Hlp].
  unfold dstep. rewrite Hrp, Hlp.
  rewrite mem_class by assumption.
  apply Nat.ltb_ge in Hcl.
  destruct (Nat.eqb_spec (class_of c) k) as [E|E]; [lia|]. rewrite andb_false_r.
  rewrite IH by assumption. rewrite <- app_assoc. reflexivity.
Qed.

Lemma class_paren : class_of "(" = 9 /\ class_of ")" = 9.
Proof. split; reflexivity. Qed.

Lemma dstep_rp d : dstep ")" d = (d + 1)%Z. Proof. reflexivity. Qed.
Lemma dstep_lp d : dstep "(" d = (d - 1)%Z. Proof. reflexivity. Qed.

(* main scanning lemma *)
Lemma scan_print k : k < 9 -> forall e, wf e ->
  forall rest d acc, (0 <= d)%Z ->
  (* (a) inside parentheses, or no depth-0 operator of class k: skip the whole print *)
  ((0 < d)%Z \/ k < minclass e ->
     scan (nth k classes []) (rev (print e) ++ rest) d acc = scan (nth k classes []) rest d (print e ++ acc)).
Proof.
  intros Hk. induction e as [s|op l IHl r IHr|e IH]; intros Hwf rest d acc Hd Hcase.
  - destruct Hwf as [_ Hs]. simpl. apply scan_plain; assumption.
  - destruct Hwf as [Hop [Hwl [Hwr [Hl Hr]]]]. cbn [print].
    rewrite rev_bin_app.
    assert (Hcase_r : (0 < d)%Z \/ k < minclass r) by (destruct Hcase as [H|H]; [left; assumption | right; simpl in H; lia]).
    assert (Hcase_l : (0 < d)%Z \/ k < minclass l) by (destruct Hcase as [H|H]; [left; assumption | right; simpl in H; lia]).
    rewrite (IHr Hwr _ d acc Hd Hcase_r).
    rewrite scan_cons.
    assert (Hdstep : dstep op d = d).
    { unfold dstep. destruct (Ascii.eqb_spec op ")") as [->|]; [compute in Hop; lia|].
      destruct (Ascii.eqb_spec op "(") as [->|]; [compute in Hop; lia | reflexivity]. }
    rewrite Hdstep.
    assert (Hnohit : (d =? 0)%Z && mem op (nth k classes []) = false).
    { destruct Hcase as [H|H].
      - destruct (Z.eqb_spec d 0); [lia | reflexivity].
      - rewrite mem_class by assumption. simpl in H.
        destruct (Nat.eqb_spec (class_of op) k); [lia | apply andb_false_r]. }
    rewrite Hnohit.
    rewrite (IHl Hwl _ d _ Hd Hcase_l).
    rewrite <- !app_assoc. reflexivity.
  - simpl in Hwf. cbn [print]. rewrite rev_par_app.
    rewrite scan_cons. rewrite dstep_rp.
    assert (Hd1 : ((d + 1 =? 0)%Z && mem ")" (nth k classes []) = false)).
    { destruct (Z.eqb_spec (d+1) 0); [lia | reflexivity]. }
    rewrite Hd1.
    rewrite (IH Hwf _ (d+1)%Z _ ltac:(lia) ltac:(left; lia)).
    rewrite scan_cons. rewrite dstep_lp.
    replace (d + 1 - 1)%Z with d by lia.
    assert (Hlp : mem "(" (nth k classes []) = false).
    { rewrite mem_class by assumption. destruct (Nat.eqb_spec (class_of "(") k) as [E|E]; [compute in E; lia | reflexivity]. }
    rewrite Hlp, andb_false_r.
    rewrite <- !app_assoc. reflexivity.
Qed.

(* (b) at depth 0, the root operator of class k is the first hit *)
Lemma scan_root k op l r : k < 9 -> wf (Bin op l r) -> class_of op = k ->
  scan (nth k classes []) (rev (print (Bin op l r))) 0%Z [] = Some (print l, op, print r).
Proof.
  intros Hk Hwf Hc. destruct Hwf as [Hop [Hwl [Hwr [Hl Hr]]]].
  cbn [print]. rewrite <- (app_nil_r (rev _)). rewrite rev_bin_app.
  rewrite (scan_print k Hk r Hwr _ 0%Z [] ltac:(lia) ltac:(right; lia)).
  rewrite scan_cons.
  assert (Hdstep : dstep op 0 = 0%Z).
  { unfold dstep. destruct (Ascii.eqb_spec op ")") as [->|]; [compute in Hop; lia|].
    destruct (Ascii.eqb_spec op "(") as [->|]; [compute in Hop; lia | reflexivity]. }
  rewrite Hdstep. rewrite mem_class by assumption. rewrite Hc, Nat.eqb_refl. simpl.
  rewrite !app_nil_r, rev_involutive. reflexivity.
Qed.

Lemma scan_none k e : k < 9 -> wf e -> k < minclass e ->
  scan (nth k classes []) (rev (print e)) 0%Z [] = None.
Proof.
  intros Hk Hwf Hm.
  pose proof (scan_print k Hk e Hwf [] 0%Z [] ltac:(lia) ltac:(right; assumption)) as H.
  rewrite app_nil_r in H. rewrite H. reflexivity.
Qed.


Lemma skipn_classes j : j < 9 -> skipn j classes = nth j classes [] :: skipn (S j) classes.
Proof. intros H. do 9 (destruct j as [|j]; [reflexivity|]). lia. Qed.

Lemma fs_hit s x : forall n j m, m - j = n -> j <= m -> m < 9 ->
  (forall k, j <= k < m -> scan (nth k classes []) (rev s) 0%Z [] = None) ->
  scan (nth m classes []) (rev s) 0%Z [] = Some x ->
  first_split (skipn j classes) s = Some x.
Proof.
  induction n as [|n IH]; intros j m Hn Hjm Hm Hnone Hhit.
  - assert (j = m) by lia. subst j. rewrite skipn_classes by assumption. cbn [first_split]. rewrite Hhit. reflexivity.
  - rewrite skipn_classes by lia. cbn [first_split]. rewrite (Hnone j) by lia.
    apply (IH (S j) m); try lia; [|assumption]. intros k Hk. apply Hnone. lia.
Qed.

Lemma fs_none s : forall n j, 9 - j = n -> j <= 9 ->
  (forall k, j <= k < 9 -> scan (nth k classes []) (rev s) 0%Z [] = None) ->
  first_split (skipn j classes) s = None.
Proof.
  induction n as [|n IH]; intros j Hn Hj Hnone.
  - assert (j = 9) by lia. subst j. reflexivity.
  - rewrite skipn_classes by lia. cbn [first_split]. rewrite (Hnone j) by lia.
    apply IH; try lia. intros k Hk. apply Hnone. lia.
Qed.

Lemma first_split_bin op l r : wf (Bin op l r) ->
  first_split classes (print (Bin op l r)) = Some (print l, op, print r).
Proof.
  intros Hwf. pose proof Hwf as [Hop [Hwl [Hwr [Hl Hr]]]].
  change classes with (skipn 0 classes).
  apply (fs_hit _ _ (class_of op - 0) 0 (class_of op)); try lia.
  - intros k Hk. apply scan_none; [lia | assumption | simpl; lia].
  - apply scan_root; [assumption | assumption | reflexivity].
Qed.

Lemma first_split_atomic e : wf e -> minclass e = 9 -> first_split classes (print e) = None.
Proof.
  intros Hwf Hm. change classes with (skipn 0 classes).
  apply (fs_none _ 9 0); try lia. intros k Hk. apply scan_none; [lia | assumption | lia].
Qed.

Lemma lstrip_nonspace c t : is_space c = false -> lstrip (c :: t) = c :: t.
Proof. intros H. simpl. rewrite H. reflexivity. Qed.

Lemma strip_id c t d : is_space c = false -> is_space d = false -> strip (c :: t ++ [d]) = c :: t ++ [d].
Proof.
  intros Hc Hd. unfold strip. rewrite lstrip_nonspace by assumption.
  assert (E : rev (c :: t ++ [d]) = d :: rev (c :: t)).
  { change (c :: t ++ [d]) with ((c :: t) ++ [d]). rewrite rev_app_distr. reflexivity. }
  rewrite E. rewrite lstrip_nonspace by assumption.
  change (d :: rev (c :: t)) with ([d] ++ rev (c :: t)). rewrite rev_app_distr, rev_involutive. reflexivity.
Qed.

Lemma strip_id1 c : is_space c = false -> strip [c] = [c].
Proof. intros H. unfold strip. simpl. rewrite H. simpl. rewrite H. reflexivity. Qed.

Lemma nonspecial_nonspace c : special c = false -> is_space c = false /\ Ascii.eqb c "(" = false.
Proof.
  unfold special, is_space. intros H. apply orb_false_iff in H. destruct H as [H Hs].
  apply orb_false_iff in H. destruct H as [H _]. apply orb_false_iff in H. destruct H as [_ Hl].
  split; assumption.
Qed.

Lemma strip_atom s : s <> [] -> forallb (fun c => negb (special c)) s = true ->
  exists c t, strip s = c :: t /\ s = c :: t /\ Ascii.eqb c "(" = false.
Proof.
  intros Hne Hs. destruct s as [|c t]; [contradiction|]. exists c, t.
  pose proof Hs as Hs'. simpl in Hs'. apply andb_prop in Hs'. destruct Hs' as [Hc Ht].
  apply negb_true_iff in Hc. destruct (nonspecial_nonspace c Hc) as [Hsp Hlp].
  split; [|split; [reflexivity | assumption]].
  destruct t as [|x t'] using rev_ind; [apply strip_id1; assumption|].
  rewrite forallb_app in Ht. apply andb_prop in Ht. destruct Ht as [_ Hx]. simpl in Hx.
  rewrite andb_true_r in Hx. apply negb_true_iff in Hx. destruct (nonspecial_nonspace x Hx) as [Hxs _].
  apply strip_id; assumption.
Qed.

Theorem parse_correct : forall fuel e, wf e -> size e < fuel -> makeRPN fuel (print e) = Ok (postfix e).
Proof.
  induction fuel as [|f IH]; intros e Hwf Hsz; [lia|].
  destruct e as [s|op l r|e].
  - destruct Hwf as [Hne Hs]. cbn [makeRPN].
    rewrite (first_split_atomic (Atom s)) by (simpl; auto).
    cbn [print]. destruct (strip_atom s Hne Hs) as [c [t [E1 [E2 E3]]]].
    rewrite E1, E3. simpl. rewrite E2. reflexivity.
  - cbn [makeRPN]. rewrite first_split_bin by assumption.
    destruct Hwf as [Hop [Hwl [Hwr _]]]. simpl in Hsz.
    rewrite (IH l Hwl) by lia. rewrite (IH r Hwr) by lia. reflexivity.
  - cbn [makeRPN]. rewrite (first_split_atomic (Par e)) by (simpl; auto).
    cbn [print]. change (["("] ++ print e ++ [")"]) with ("(" :: print e ++ [")"]).
    rewrite strip_id by reflexivity. simpl Ascii.eqb. cbv iota.
    rewrite removelast_last. simpl in Hwf, Hsz. cbn [postfix]. apply IH; [assumption | lia].
Qed.
Print Assumptions parse_correct.

(* non-vacuity: a*(b+c/2)-d is wf and parses *)
Example ex1 : wf (Bin "-" (Bin "*" (Atom ["a"]) (Par (Bin "+" (Atom ["b"]) (Bin "/" (Atom ["c"]) (Atom ["2"]))))) (Atom ["d"])).
Proof. cbv [wf minclass class_of Ascii.eqb Bool.eqb forallb special negb orb Nat.ltb Nat.leb Nat.min andb]. repeat split; try lia; try discriminate; try reflexivity. Qed.
