(* Spike: C07 geometry — run_routing_backward glues the edge polylines walking back from the target
   (`track + (edge_geom > 1)`), then reverses; the result is the junction-merged concatenation of the
   edge polylines in travel order *)
From Coq Require Import List Arith Lia.
Import ListNotations.

Section G.
Variable pt : Type.
Variable d0 : pt.

(* track + (g > 1): append g without its first vertex *)
Definition glue (acc g : list pt) : list pt := acc ++ tl g.
(* gs: polylines met walking back, each already oriented from the current node to its antecedent *)
Definition backward (t : pt) (gs : list (list pt)) : list pt := rev (fold_left glue gs [t]).

(* junction-merged concatenation of polylines given in travel order *)
Fixpoint join (fs : list (list pt)) : list pt :=
  match fs with [] => [] | [f] => f | f :: rest => f ++ tl (join rest) end.

Lemma fold_glue gs : forall acc, fold_left glue gs acc = acc ++ concat (map (@tl pt) gs).
Proof.
  induction gs as [|g gs IH]; intros acc; cbn [fold_left map concat]; [rewrite app_nil_r; reflexivity|].
  rewrite IH. unfold glue. rewrite <- app_assoc. reflexivity.
Qed.

Lemma rev_tl (g : list pt) : rev (tl g) = removelast (rev g).
Proof. destruct g as [|x g]; [reflexivity|]. cbn [tl rev]. rewrite removelast_last. reflexivity. Qed.

Lemma rev_concat (ls : list (list pt)) : rev (concat ls) = concat (map (@rev pt) (rev ls)).
Proof.
  induction ls as [|l ls IH]; [reflexivity|]. cbn [concat rev map]. rewrite rev_app_distr, IH, map_app, concat_app.
  cbn [map concat]. rewrite app_nil_r. reflexivity.
Qed.

(* in travel order: fs = the polylines oriented in the direction of travel *)
Lemma backward_travel t gs :
  backward t gs = concat (map (@removelast pt) (map (@rev pt) (rev gs))) ++ [t].
Proof.
  unfold backward. rewrite fold_glue, rev_app_distr. cbn [rev app]. f_equal.
  rewrite rev_concat, <- map_rev, !map_map. f_equal. apply map_ext. intros g. apply rev_tl.
Qed.

(* continuity of the travel-ordered polylines, ending at t *)
Fixpoint continuous (fs : list (list pt)) (t : pt) : Prop :=
  match fs with
  | [] => True
  | f :: rest => f <> [] /\ last f d0 = match rest with [] => t | f2 :: _ => hd d0 f2 end /\ continuous rest t
  end.

Lemma join_hd f rest t : continuous (f :: rest) t -> join (f :: rest) <> [] /\ hd d0 (join (f :: rest)) = hd d0 f.
Proof.
  intros [Hne _]. destruct f as [|x f]; [congruence|]. destruct rest; cbn; split; try discriminate; reflexivity.
Qed.

Lemma removelast_last_ (f : list pt) : f <> [] -> removelast f ++ [last f d0] = f.
Proof. intros H. symmetry. apply app_removelast_last. assumption. Qed.

Lemma join_merge : forall fs t, fs <> [] -> continuous fs t ->
  concat (map (@removelast pt) fs) ++ [t] = join fs.
Proof.
  induction fs as [|f rest IH]; intros t Hne Hc; [congruence|].
  destruct rest as [|f2 rest'].
  - cbn in *. destruct Hc as [Hf [Hl _]]. rewrite app_nil_r, <- Hl. apply removelast_last_. assumption.
  - destruct Hc as [Hf [Hl Hc]].
    change (map (@removelast pt) (f :: f2 :: rest')) with (removelast f :: map (@removelast pt) (f2 :: rest')).
    cbn [concat]. rewrite <- app_assoc, (IH t ltac:(discriminate) Hc).
    destruct (join_hd f2 rest' t Hc) as [Hj Hh].
    change (join (f :: f2 :: rest')) with (f ++ tl (join (f2 :: rest'))).
    destruct (join (f2 :: rest')) as [|y j] eqn:Ej; [congruence|]. cbn [tl hd] in *.
    rewrite <- (removelast_last_ f Hf) at 2. rewrite Hl, <- Hh, <- app_assoc. reflexivity.
Qed.

(* the returned geometry: polylines in travel order (reversed back-walk, each reversed), junctions merged *)
Theorem backward_geometry t gs : gs <> [] -> continuous (map (@rev pt) (rev gs)) t ->
  backward t gs = join (map (@rev pt) (rev gs)).
Proof.
  intros Hne Hc. rewrite backward_travel. apply join_merge; [|assumption].
  intros Z. apply map_eq_nil in Z. apply (f_equal (@rev (list pt))) in Z. rewrite rev_involutive in Z. cbn in Z. congruence.
Qed.
End G.
Print Assumptions backward_geometry.
