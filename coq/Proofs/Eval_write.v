From Coq Require Import List Ascii String Bool Arith ZArith QArith Lia.
Import ListNotations.
From TL Require Import Model.Str Model.Rpn Model.Table Model.Eval Proofs.Table_inv Proofs.Table_set.

Lemma create_new_ok t n v : has_af t n = false -> size t <> 0%nat ->
  exists t1, create_af t n (IScalar v) = Ok t1.
Proof.
  intros Hhas Hs. unfold create_af.
  assert (Hv : is_virtual n = false) by (unfold has_af in Hhas; destruct (lookup (dico t) n); [discriminate | assumption]).
  rewrite Hv, Hhas. destruct (Nat.eqb_spec (size t) 0); [contradiction|].
  rewrite repeat_length. rewrite Nat.ltb_irrefl. eexists. reflexivity.
Qed.

(* every void operator of the evaluator: create the output column, compute, write *)
Lemma write_out_spec t out compute col t1 :
  Inv t -> has_af t out = false -> size t <> 0%nat ->
  create_af t out (IScalar (Some 0%Q)) = Ok t1 -> compute t1 = Ok col -> List.length col = size t ->
  exists t', write_out t out compute = Ok t' /\
    Inv t' /\ names t' = names t ++ [out] /\ size t' = size t /\
    xs t' = xs t /\ ys t' = ys t /\ zs t' = zs t /\ ts t' = ts t /\
    get_af t' out = Ok col /\ (forall m, m <> out -> get_af t' m = get_af t m).
Proof.
  intros HI Hhas Hs Hc Hcomp Hlen.
  destruct (create_new_spec t out (IScalar (Some 0%Q)) t1 HI Hhas Hc) as [HI1 [Hn1 [Hs1 [Hg1 [Hx [Hy [Hz [Ht Hfr1]]]]]]]].
  assert (Hl1 : exists i, lookup (dico t1) out = Some i).
  { destruct (lookup (dico t1) out) as [i|] eqn:E; [eauto|]. exfalso.
    apply lookup_none_notin in E. apply E. fold (names t1). rewrite Hn1. apply in_or_app. right. left. reflexivity. }
  destruct Hl1 as [i Hl1].
  assert (Hset : exists t', set_col t1 out col = Ok t').
  { unfold set_col.
    assert (Hv : is_virtual out = false) by (unfold has_af in Hhas; destruct (lookup (dico t) out); [discriminate | assumption]).
    assert (Hnv : forall s, In s virtuals -> str_eqb out s = false).
    { intros s Hs'. apply str_eqb_false. intros ->. unfold is_virtual in Hv.
      rewrite <- not_true_iff_false in Hv. apply Hv. apply existsb_exists. exists s. split; [assumption | apply str_eqb_refl]. }
    rewrite !Hnv by (unfold virtuals; simpl; tauto). rewrite Hl1. eexists. reflexivity. }
  destruct Hset as [t' Hset].
  destruct (set_col_spec t1 out i col t' HI1 Hl1 ltac:(rewrite Hs1; assumption) Hset)
    as [HI' [Hn' [_ [Hs' [Hx' [Hy' [Hz' [Ht' [Hg' Hfr']]]]]]]]].
  exists t'. split.
  - unfold write_out. rewrite Hc. simpl. rewrite Hcomp. simpl. assumption.
  - split; [assumption|]. split; [rewrite Hn', Hn1; reflexivity|]. split; [rewrite Hs', Hs1; reflexivity|].
    split; [congruence|]. split; [congruence|]. split; [congruence|]. split; [congruence|].
    split; [assumption|]. intros m Hm. rewrite Hfr' by assumption. apply Hfr1. assumption.
Qed.
Print Assumptions write_out_spec.
