(* obs_coords: ECEF <-> ENU rotation about a base point, over R *)
From Coq Require Import Reals Lra.
Open Scope R_scope.

Section ENU.
Variables blon blat : R.          (* base longitude / latitude in radians *)
Variables bX bY bZ : R.           (* base ECEF *)
Let slon := sin blon. Let clon := cos blon. Let slat := sin blat. Let clat := cos blat.

(* ECEFCoords.toENUCoords (obs_coords.py:587-598) *)
Definition ecef_to_enu (X Y Z : R) : R * R * R :=
  let x := X - bX in let y := Y - bY in let z := Z - bZ in
  (- x * slon + y * clon,
   - x * clon * slat - y * slon * slat + z * clat,
   x * clon * clat + y * slon * clat + z * slat).

(* ENUCoords.toECEFCoords (obs_coords.py:326-328) *)
Definition enu_to_ecef (e n u : R) : R * R * R :=
  (- e * slon - n * clon * slat + u * clon * clat + bX,
   e * clon - n * slon * slat + u * slon * clat + bY,
   n * clat + u * slat + bZ).

Lemma sc_lon : slon * slon + clon * clon = 1.
Proof. unfold slon, clon. pose proof (sin2_cos2 blon) as H. unfold Rsqr in H. lra. Qed.
Lemma sc_lat : slat * slat + clat * clat = 1.
Proof. unfold slat, clat. pose proof (sin2_cos2 blat) as H. unfold Rsqr in H. lra. Qed.

(* C14: the two conversions are exact inverses of each other for any base *)
Theorem enu_ecef_roundtrip X Y Z :
  let '(e, n, u) := ecef_to_enu X Y Z in enu_to_ecef e n u = (X, Y, Z).
Proof.
  unfold ecef_to_enu, enu_to_ecef. pose proof sc_lon as H1. pose proof sc_lat as H2.
  set (x := X - bX). set (y := Y - bY). set (z := Z - bZ).
  f_equal; [f_equal|].
  - replace (- (- x * slon + y * clon) * slon - (- x * clon * slat - y * slon * slat + z * clat) * clon * slat
             + (x * clon * clat + y * slon * clat + z * slat) * clon * clat + bX)
      with (x * (slon * slon) + x * (clon * clon) * (slat * slat + clat * clat) + y * slon * clon * ((slat * slat + clat * clat) - 1) + bX) by ring.
    rewrite H2. replace (x * (slon * slon) + x * (clon * clon) * 1) with (x * (slon * slon + clon * clon)) by ring. rewrite H1. unfold x. ring.
  - replace ((- x * slon + y * clon) * clon - (- x * clon * slat - y * slon * slat + z * clat) * slon * slat
             + (x * clon * clat + y * slon * clat + z * slat) * slon * clat + bY)
      with (y * (clon * clon) + y * (slon * slon) * (slat * slat + clat * clat) + x * slon * clon * ((slat * slat + clat * clat) - 1) + bY) by ring.
    rewrite H2. replace (y * (clon * clon) + y * (slon * slon) * 1) with (y * (slon * slon + clon * clon)) by ring. rewrite H1. unfold y. ring.
  - replace ((- x * clon * slat - y * slon * slat + z * clat) * clat + (x * clon * clat + y * slon * clat + z * slat) * slat + bZ)
      with (z * (slat * slat + clat * clat) + bZ) by ring.
    rewrite H2. unfold z. ring.
Qed.

Theorem ecef_enu_roundtrip e n u :
  let '(X, Y, Z) := enu_to_ecef e n u in ecef_to_enu X Y Z = (e, n, u).
Proof.
  unfold ecef_to_enu, enu_to_ecef. pose proof sc_lon as H1. pose proof sc_lat as H2.
  f_equal; [f_equal|].
  - replace (- (- e * slon - n * clon * slat + u * clon * clat + bX - bX) * slon + (e * clon - n * slon * slat + u * slon * clat + bY - bY) * clon)
      with (e * (slon * slon + clon * clon)) by ring. rewrite H1. ring.
  - replace (- (- e * slon - n * clon * slat + u * clon * clat + bX - bX) * clon * slat
             - (e * clon - n * slon * slat + u * slon * clat + bY - bY) * slon * slat + (n * clat + u * slat + bZ - bZ) * clat)
      with (n * (slat * slat) * (slon * slon + clon * clon) + n * (clat * clat) + u * slat * clat * (1 - (slon * slon + clon * clon))) by ring.
    rewrite H1. replace (n * (slat * slat) * 1 + n * (clat * clat)) with (n * (slat * slat + clat * clat)) by ring. rewrite H2. ring.
  - replace ((- e * slon - n * clon * slat + u * clon * clat + bX - bX) * clon * clat
             + (e * clon - n * slon * slat + u * slon * clat + bY - bY) * slon * clat + (n * clat + u * slat + bZ - bZ) * slat)
      with (u * (clat * clat) * (slon * slon + clon * clon) + u * (slat * slat) + n * slat * clat * (1 - (slon * slon + clon * clon))) by ring.
    rewrite H1. replace (u * (clat * clat) * 1 + u * (slat * slat)) with (u * (slat * slat + clat * clat)) by ring. rewrite H2. ring.
Qed.

(* the base itself has local coordinates (0,0,0) *)
Theorem base_is_origin : ecef_to_enu bX bY bZ = (0, 0, 0).
Proof. unfold ecef_to_enu. f_equal; [f_equal|]; ring. Qed.
End ENU.
Print Assumptions enu_ecef_roundtrip.
