(* Spike: the real instance of the generic (bit-exact) Douglas-Peucker model is the function the C16 theorems are about *)
From Coq Require Import List Arith Reals Lra Lia Bool.
Import ListNotations.
From TL Require Import Model.Num Model.SimplifyG Proofs.SimplifyDP Proofs.DistSeg.
Open Scope R_scope.

Notation P := ((pt (T := R)) * nat)%type.
Definition dsegP (p a b : P) : R := SimplifyG.dseg RNum (fst p) (fst a) (fst b).

Lemma farthest_bridge a b : forall (L : list P) i dmax imax,
  SimplifyG.farthest RNum (map fst L) (fst a) (fst b) i dmax imax = SimplifyDP.farthest P dsegP L a b i dmax imax.
Proof.
  induction L as [|p L IH]; intros i dmax imax; cbn [map SimplifyG.farthest SimplifyDP.farthest]; [reflexivity|].
  unfold dsegP at 1 2. cbn [ltb RNum]. unfold Num.Rltb, SimplifyDP.Rltb.
  destruct (Rlt_dec dmax (SimplifyG.dseg RNum (fst p) (fst a) (fst b))); apply IH.
Qed.

Theorem dp_bridge eps d0 : forall fuel (L : list P),
  SimplifyG.dp RNum fuel eps d0 L = SimplifyDP.dp P dsegP eps d0 fuel L.
Proof.
  induction fuel as [|f IH]; intros L; cbn [SimplifyG.dp SimplifyDP.dp]; [reflexivity|].
  destruct (length L <=? 2)%nat; [reflexivity|].
  change (zero RNum) with 0. rewrite farthest_bridge.
  destruct (SimplifyDP.farthest P dsegP L (hd d0 L) (last L d0) 0 0 0) as [dmax imax].
  cbn [ltb RNum]. unfold Num.Rltb, SimplifyDP.Rltb. destruct (Rlt_dec dmax eps); [reflexivity|].
  rewrite !IH. reflexivity.
Qed.

Lemma dsegP_a a b : dsegP a a b = 0.
Proof. unfold dsegP, SimplifyG.dseg. apply dseg_at_a. Qed.
Lemma dsegP_b a b : dsegP b a b = 0.
Proof. unfold dsegP, SimplifyG.dseg. apply dseg_at_b. Qed.

(* C16 for the bit-exact model's real instance: subsequence, end points, termination, tolerance *)
Theorem dp_generic eps d0 (L : list P) : 0 < eps -> L <> [] ->
  let out := SimplifyG.dp RNum (length L) eps d0 L in
  sub P out L /\ hd d0 out = hd d0 L /\ last out d0 = last L d0 /\
  (forall fuel, (length L <= fuel)%nat -> SimplifyG.dp RNum fuel eps d0 L = out) /\
  (forall p, In p L -> covered P dsegP eps p out).
Proof.
  intros He Hne out. unfold out. rewrite dp_bridge.
  split; [apply dp_sub|].
  destruct (dp_ends P dsegP eps d0 He dsegP_a dsegP_b (length L) L (le_n _) Hne) as [H1 [H2 _]].
  split; [assumption|]. split; [assumption|]. split.
  - intros fuel Hf. rewrite dp_bridge. apply (dp_fuel P dsegP eps d0 He dsegP_a dsegP_b); [assumption | apply le_n].
  - intros p Hp. apply dp_tolerance. assumption.
Qed.
Print Assumptions dp_generic.
