From Coq Require Import List Arith ZArith QArith Bool Lia Lqa.
Import ListNotations.
From TL Require Import Model.Graph Proofs.Graph_inv Proofs.Graph_step Proofs.Graph_final.
Open Scope Q_scope.

Lemma cost_nonneg g u t p : nonneg g -> walk g u t p -> 0 <= cost p.
Proof.
  intros Hnn Hw. induction Hw as [u|u e p t He Hw IH]; simpl; [lra|].
  pose proof (Hnn e (next_edges_in g u e He)). lra.
Qed.

(* along any walk from a settled node, either the end is dominated or the walk leaves the
   settled set through a node whose tentative value is already below the walk's cost *)
Lemma dominates_or_exits g src s : nonneg g -> Inv g src s ->
  forall u t p, walk g u t p -> forall du, visite s u = true -> poids s u = Some du ->
  (exists dt, poids s t = Some dt /\ dt <= du + cost p) \/
  (exists b db, visite s b = false /\ poids s b = Some db /\ db <= du + cost p).
Proof.
  intros Hnn HI u t p Hw. induction Hw as [u|u e p t He Hw IH]; intros du Hvis Hdu.
  - left. exists du. split; [assumption | simpl; lra].
  - destruct (i_C _ _ _ HI u e du Hvis Hdu He) as [dv [Hdv Hle]].
    pose proof (cost_nonneg g _ _ _ Hnn Hw) as Hc.
    assert (Ev : {visite s (fils e u) = true} + {visite s (fils e u) = false}) by (destruct (visite s (fils e u)); auto).
    destruct Ev as [Ev|Ev].
    + destruct (IH dv Ev Hdv) as [[dt [Hdt Hl]] | [b [db [Hb1 [Hb2 Hb3]]]]].
      * left. exists dt. split; [assumption | simpl; lra].
      * right. exists b, db. split; [assumption|]. split; [assumption | simpl; lra].
    + right. exists (fils e u), dv. split; [assumption|]. split; [assumption | simpl; lra].
Qed.

(* a popped node carries its final, optimal value *)
Lemma popped_is_optimal g src s u du : nonneg g -> Inv g src s ->
  In u (fil s) -> poids s u = Some du ->
  (forall v dv, In v (fil s) -> poids s v = Some dv -> du <= dv) ->
  forall p, walk g src u p -> du <= cost p.
Proof.
  intros Hnn HI Hin Hdu Hmin p Hp.
  destruct (i_src _ _ _ HI) as [d0 [Hd0 Hd0le]].
  destruct (visite s src) eqn:Evs.
  - destruct (dominates_or_exits g src s Hnn HI src u p Hp d0 Evs Hd0) as [[dt [Hdt Hl]] | [b [db [Hb1 [Hb2 Hb3]]]]].
    + rewrite Hdu in Hdt. injection Hdt as <-. lra.
    + assert (In b (fil s)) by (apply (i_Q2 _ _ _ HI); congruence).
      pose proof (Hmin b db H Hb2). lra.
  - (* the source itself is still queued: it is the minimum, and every walk costs >= 0 >= d0 *)
    assert (In src (fil s)) by (apply (i_Q2 _ _ _ HI); congruence).
    pose proof (Hmin src d0 H Hd0). pose proof (cost_nonneg g _ _ _ Hnn Hp). lra.
Qed.

(* when the loop stops on the cut, every node within the cut has been settled with its true distance *)
Lemma cut_complete g src s u du cut : nonneg g -> Inv g src s ->
  In u (fil s) -> poids s u = Some du -> cut < du ->
  (forall v dv, In v (fil s) -> poids s v = Some dv -> du <= dv) ->
  forall t p, walk g src t p -> cost p <= cut ->
  visite s t = true /\ exists dt, poids s t = Some dt /\ dt <= cost p.
Proof.
  intros Hnn HI Hin Hdu Hcut Hmin t p Hp Hc.
  destruct (i_src _ _ _ HI) as [d0 [Hd0 Hd0le]].
  assert (Hq : forall b db, visite s b = false -> poids s b = Some db -> cut < db).
  { intros b db Hb1 Hb2. assert (In b (fil s)) by (apply (i_Q2 _ _ _ HI); congruence).
    pose proof (Hmin b db H Hb2). lra. }
  destruct (visite s src) eqn:Evs.
  - destruct (dominates_or_exits g src s Hnn HI src t p Hp d0 Evs Hd0) as [[dt [Hdt Hl]] | [b [db [Hb1 [Hb2 Hb3]]]]].
    + destruct (visite s t) eqn:Evt.
      * split; [reflexivity|]. exists dt. split; [assumption | lra].
      * pose proof (Hq t dt Evt Hdt). lra.
    + pose proof (Hq b db Hb1 Hb2). lra.
  - pose proof (Hq src d0 Evs Hd0). pose proof (cost_nonneg g _ _ _ Hnn Hp). lra.
Qed.
Print Assumptions cut_complete.
