From Coq Require Import List Ascii String Bool Arith ZArith QArith Lia.
Import ListNotations.
From TL Require Import Model.Str Model.Table Proofs.Table_inv.

Fixpoint index_of (n : str) (l : list str) : option nat :=
  match l with [] => None | k :: r => if str_eqb k n then Some 0%nat else option_map S (index_of n r) end.

Definition keep (n : str) (k : str) : bool := negb (str_eqb k n).

Lemma dico_combine (d : list (str * nat)) base : map snd d = seq base (List.length d) -> d = combine (map fst d) (seq base (List.length d)).
Proof.
  revert base. induction d as [|[k j] d IH]; intros base H; [reflexivity|].
  simpl in *. injection H as -> H. f_equal. apply IH. assumption.
Qed.

Lemma lookup_combine : forall l base m,
  lookup (combine l (seq base (List.length l))) m = option_map (Nat.add base) (index_of m l).
Proof.
  induction l as [|k l IH]; intros base m; [reflexivity|]. simpl.
  destruct (str_eqb k m); [simpl; f_equal; lia|].
  rewrite IH. destruct (index_of m l); simpl; [f_equal; lia | reflexivity].
Qed.

Lemma index_of_lt : forall l n i, index_of n l = Some i -> (i < List.length l)%nat.
Proof.
  induction l as [|k l IH]; intros n i H; [discriminate|]. simpl in *.
  destruct (str_eqb k n); [injection H as <-; lia|].
  destruct (index_of n l) as [j|] eqn:E; [|discriminate]. injection H as <-. specialize (IH n j E). lia.
Qed.

Lemma index_of_in : forall l n i, index_of n l = Some i -> In n l.
Proof.
  induction l as [|k l IH]; intros n i H; [discriminate|]. simpl in *.
  destruct (str_eqb k n) eqn:E; [apply str_eqb_true in E; left; assumption|].
  destruct (index_of n l) as [j|] eqn:E2; [|discriminate]. right. apply (IH n j E2).
Qed.

Lemma filter_keep_notin n l : ~ In n l -> filter (keep n) l = l.
Proof.
  induction l as [|k l IH]; intros H; [reflexivity|]. simpl. unfold keep at 1.
  destruct (str_eqb k n) eqn:E; [apply str_eqb_true in E; subst; exfalso; apply H; left; reflexivity|].
  simpl. f_equal. apply IH. intros Hin. apply H. right. assumption.
Qed.

(* position of another name after deleting n *)
Lemma index_of_filter : forall l n i m j, NoDup l -> index_of n l = Some i -> m <> n -> index_of m l = Some j ->
  index_of m (filter (keep n) l) = Some (if (i <? j)%nat then (j - 1)%nat else j) /\ j <> i.
Proof.
  induction l as [|k l IH]; intros n i m j Hnd Hn Hne Hm; [discriminate|].
  inversion Hnd as [|? ? Hk Hnd']; subst. simpl in Hn, Hm. simpl. unfold keep at 1.
  destruct (str_eqb k n) eqn:E1.
  - apply str_eqb_true in E1. subst k. injection Hn as <-. simpl.
    destruct (str_eqb n m) eqn:E2; [apply str_eqb_true in E2; congruence|].
    destruct (index_of m l) as [j'|] eqn:Ej; [|discriminate]. injection Hm as <-.
    rewrite filter_keep_notin by assumption. simpl. rewrite Nat.sub_0_r. split; [assumption | lia].
  - destruct (index_of n l) as [i'|] eqn:Ei; [|discriminate]. injection Hn as <-. simpl.
    destruct (str_eqb k m) eqn:E2.
    + injection Hm as <-. split; [reflexivity | lia].
    + destruct (index_of m l) as [j'|] eqn:Ej; [|discriminate]. injection Hm as <-.
      destruct (IH n i' m j' Hnd' Ei Hne Ej) as [H1 H2]. rewrite H1. simpl.
      split; [|lia]. f_equal.
      destruct (i' <? j')%nat eqn:E3.
      * apply Nat.ltb_lt in E3. assert (E4 : (S i' <? S j')%nat = true) by (apply Nat.ltb_lt; lia). rewrite E4. lia.
      * apply Nat.ltb_ge in E3. assert (E4 : (S i' <? S j')%nat = false) by (apply Nat.ltb_ge; lia). rewrite E4. reflexivity.
Qed.

Definition shift (i : nat) (d : list (str * nat)) (n : str) : list (str * nat) :=
  map (fun '(k, j) => (k, if (i <? j)%nat then (j - 1)%nat else j)) (filter (fun '(k, _) => negb (str_eqb k n)) d).

(* the dictionary after deletion is again names-in-order with indices 0..k-2 *)
Lemma shift_all_above : forall (l : list str) base b n, ~ In n l -> (b < base)%nat ->
  shift b (combine l (seq base (List.length l))) n = combine l (seq (base - 1) (List.length l)).
Proof.
  induction l as [|k l IH]; intros base b n Hn Hb; [reflexivity|].
  unfold shift. simpl.
  destruct (str_eqb k n) eqn:E; [apply str_eqb_true in E; subst; exfalso; apply Hn; left; reflexivity|].
  simpl. assert (Eb : (b <? base)%nat = true) by (apply Nat.ltb_lt; assumption). rewrite Eb.
  f_equal. replace (S (base - 1)) with (S base - 1)%nat by lia.
  apply (IH (S base) b n); [intros H; apply Hn; right; assumption | lia].
Qed.

Lemma shift_combine : forall l base n i, NoDup l -> index_of n l = Some i ->
  shift (base + i) (combine l (seq base (List.length l))) n
  = combine (filter (keep n) l) (seq base (List.length l - 1)).
Proof.
  induction l as [|k l IH]; intros base n i Hnd Hn; [discriminate|].
  inversion Hnd as [|? ? Hk Hnd']; subst. simpl in Hn.
  destruct (str_eqb k n) eqn:E.
  - apply str_eqb_true in E. subst k. injection Hn as <-. rewrite Nat.add_0_r.
    unfold shift. cbn [List.length seq combine filter map]. rewrite str_eqb_refl. cbn [negb].
    fold (shift base (combine l (seq (S base) (List.length l))) n).
    rewrite (shift_all_above l (S base) base n Hk ltac:(lia)).
    cbn [filter]. change (keep n n) with (negb (str_eqb n n)). rewrite str_eqb_refl. cbn [negb].
    rewrite filter_keep_notin by assumption. replace (S base - 1)%nat with base by lia.
    replace (S (List.length l) - 1)%nat with (List.length l) by lia. reflexivity.
  - destruct (index_of n l) as [i'|] eqn:Ei; [|discriminate]. injection Hn as <-.
    unfold shift. cbn [List.length seq combine filter map]. rewrite E. cbn [negb map].
    assert (Eb : (base + S i' <? base)%nat = false) by (apply Nat.ltb_ge; lia). rewrite Eb.
    fold (shift (base + S i') (combine l (seq (S base) (List.length l))) n).
    replace (base + S i')%nat with (S base + i')%nat by lia. rewrite (IH (S base) n i' Hnd' Ei).
    cbn [filter]. change (keep n k) with (negb (str_eqb k n)). rewrite E. cbn [negb].
    pose proof (index_of_lt l n i' Ei) as Hlt.
    replace (S (List.length l) - 1)%nat with (S (List.length l - 1)) by lia. reflexivity.
Qed.
Print Assumptions shift_combine.

Lemma remove_nth_length {A} : forall (l : list A) i, (i < List.length l)%nat -> List.length (remove_nth l i) = (List.length l - 1)%nat.
Proof. induction l as [|a l IH]; intros [|i] H; simpl in *; try lia. rewrite IH by lia. lia. Qed.

Lemma remove_nth_nth {A} (d : A) : forall (l : list A) i j, (i < List.length l)%nat -> j <> i ->
  nth (if (i <? j)%nat then (j - 1)%nat else j) (remove_nth l i) d = nth j l d.
Proof.
  induction l as [|a l IH]; intros i j Hi Hne; [simpl in Hi; lia|].
  destruct i as [|i]; simpl.
  - destruct j as [|j]; [lia|]. simpl. rewrite Nat.sub_0_r. reflexivity.
  - destruct j as [|j]; [reflexivity|]. simpl in Hi.
    specialize (IH i j ltac:(lia) ltac:(lia)).
    destruct (i <? j)%nat eqn:E.
    + apply Nat.ltb_lt in E. assert (E' : (S i <? S j)%nat = true) by (apply Nat.ltb_lt; lia).
      rewrite E'. replace (S j - 1)%nat with (S (j - 1)) by lia. simpl. exact IH.
    + apply Nat.ltb_ge in E. assert (E' : (S i <? S j)%nat = false) by (apply Nat.ltb_ge; lia).
      rewrite E'. simpl. exact IH.
Qed.

Lemma NoDup_filter {A} (f : A -> bool) l : NoDup l -> NoDup (filter f l).
Proof.
  induction 1 as [|x l Hx Hnd IH]; simpl; [constructor|].
  destruct (f x); [constructor; [rewrite filter_In; tauto | assumption] | assumption].
Qed.

Lemma combine_fst_seq (l : list str) base : map fst (combine l (seq base (List.length l))) = l.
Proof. apply combine_map_fst. rewrite seq_length. lia. Qed.
Lemma combine_snd_seq (l : list str) base : map snd (combine l (seq base (List.length l))) = seq base (List.length l).
Proof. revert base. induction l as [|k l IH]; intros base; [reflexivity|]. simpl. f_equal. apply IH. Qed.

Lemma filter_keep_length (l : list str) n i : NoDup l -> index_of n l = Some i ->
  List.length (filter (keep n) l) = (List.length l - 1)%nat.
Proof.
  revert i. induction l as [|k l IH]; intros i Hnd H; [discriminate|].
  inversion Hnd as [|? ? Hk Hnd']; subst. simpl in H |- *. unfold keep at 1.
  destruct (str_eqb k n) eqn:E.
  - apply str_eqb_true in E. subst. simpl. rewrite filter_keep_notin by assumption. lia.
  - destruct (index_of n l) as [i'|] eqn:Ei; [|discriminate]. simpl. rewrite (IH i' Hnd' eq_refl).
    pose proof (index_of_lt l n i' Ei). lia.
Qed.

(* removeAnalyticalFeature on an existing (non-virtual) name *)
Theorem remove_spec t n i t' : Inv t -> lookup (dico t) n = Some i -> remove_af t n = Ok t' ->
  Inv t' /\ names t' = filter (keep n) (names t) /\ size t' = size t /\
  xs t' = xs t /\ ys t' = ys t /\ zs t' = zs t /\ ts t' = ts t /\
  get_af t' n = Err AFError /\
  (forall m, m <> n -> get_af t' m = get_af t m).
Proof.
  intros HI Hl Hr. destruct HI as [Hnd Hidx Hf Hn Hnv0].
  unfold remove_af in Hr. assert (Hhas : has_af t n = true) by (unfold has_af; rewrite Hl; reflexivity).
  rewrite Hhas, Hl in Hr. simpl in Hr. injection Hr as <-.
  pose proof (dico_combine (dico t) 0 Hidx) as Hd. fold (names t) in Hd.
  assert (Hlen : List.length (dico t) = List.length (names t)) by (unfold names; rewrite map_length; reflexivity).
  rewrite Hlen in Hd.
  assert (Hio : index_of n (names t) = Some i).
  { rewrite Hd in Hl. rewrite lookup_combine in Hl. destruct (index_of n (names t)); simpl in Hl; [injection Hl as <-; reflexivity | discriminate]. }
  assert (Hshift : shift i (dico t) n = combine (filter (keep n) (names t)) (seq 0 (List.length (names t) - 1))).
  { rewrite Hd at 1. apply (shift_combine (names t) 0 n i Hnd Hio). }
  fold (shift i (dico t) n). 
  pose proof (filter_keep_length (names t) n i Hnd Hio) as Hfl.
  assert (Hi : (i < List.length (dico t))%nat) by (rewrite Hlen; apply (index_of_lt _ _ _ Hio)).
  assert (Hnames' : map fst (shift i (dico t) n) = filter (keep n) (names t)).
  { rewrite Hshift. rewrite <- Hfl. apply combine_fst_seq. }
  assert (Hlen' : List.length (shift i (dico t) n) = (List.length (dico t) - 1)%nat).
  { rewrite <- (map_length fst). rewrite Hnames', Hfl, Hlen. reflexivity. }
  split; [|split; [|repeat split]].
  - constructor; unfold names, size; simpl.
    + rewrite Hnames'. apply NoDup_filter. assumption.
    + rewrite Hlen'. rewrite Hshift. rewrite <- Hfl. rewrite combine_snd_seq. rewrite Hfl, Hlen. reflexivity.
    + rewrite Hlen'. apply Forall_forall. intros f Hin. apply in_map_iff in Hin. destruct Hin as [f0 [<- Hin]].
      rewrite Forall_forall in Hf. rewrite remove_nth_length by (rewrite (Hf f0 Hin); assumption). rewrite (Hf f0 Hin). reflexivity.
    + rewrite map_length. assumption.
    + intros m Hm. rewrite Hnames' in Hm. apply filter_In in Hm. apply Hnv0. tauto.
  - unfold names at 1. simpl. exact Hnames'.
  - (* reading the removed name *)
    unfold get_af. simpl xs; simpl ys; simpl zs; simpl ts. simpl dico. unfold size. simpl xs.
    assert (Ev : is_virtual n = false) by (apply Hnv0; apply (index_of_in _ _ i); exact Hio).
    { assert (Hnv : forall s, In s virtuals -> str_eqb n s = false).
      { intros s Hs. apply str_eqb_false. intros ->. unfold is_virtual in Ev.
        rewrite <- not_true_iff_false in Ev. apply Ev. apply existsb_exists. exists s. split; [assumption | apply str_eqb_refl]. }
      rewrite !Hnv by (unfold virtuals; simpl; tauto).
      fold (shift i (dico t) n). rewrite Hshift. rewrite <- Hfl. rewrite lookup_combine.
      assert (Hnone : index_of n (filter (keep n) (names t)) = None).
      { destruct (index_of n (filter (keep n) (names t))) as [j|] eqn:Ej; [|reflexivity].
        apply index_of_in in Ej. apply filter_In in Ej. destruct Ej as [_ Ej]. unfold keep in Ej. rewrite str_eqb_refl in Ej. discriminate. }
      rewrite Hnone. reflexivity. }
  - intros m Hne. unfold get_af. simpl xs; simpl ys; simpl zs; simpl ts. unfold size. simpl xs.
    destruct (str_eqb m (s_ "x")); [reflexivity|]. destruct (str_eqb m (s_ "y")); [reflexivity|].
    destruct (str_eqb m (s_ "z")); [reflexivity|]. destruct (str_eqb m (s_ "t")); [reflexivity|].
    destruct (str_eqb m (s_ "timestamp")); [reflexivity|]. destruct (str_eqb m (s_ "idx")); [reflexivity|].
    simpl dico. fold (shift i (dico t) n). rewrite Hshift. rewrite <- Hfl. rewrite lookup_combine.
    replace (lookup (dico t) m) with (lookup (combine (names t) (seq 0 (List.length (names t)))) m) by (rewrite <- Hd; reflexivity).
    rewrite lookup_combine.
    destruct (index_of m (names t)) as [j|] eqn:Ej.
    + destruct (index_of_filter (names t) n i m j Hnd Hio Hne Ej) as [H1 H2]. rewrite H1. simpl. f_equal.
      simpl feats. rewrite map_map. apply map_ext_in. intros f Hin. rewrite Forall_forall in Hf.
      assert (Hlf : List.length f = List.length (dico t)) by (apply (Hf f Hin)).
      apply remove_nth_nth; [lia | assumption].
    + assert (Hnone : index_of m (filter (keep n) (names t)) = None).
      { destruct (index_of m (filter (keep n) (names t))) as [j|] eqn:Ej'; [|reflexivity].
        apply index_of_in in Ej'. apply filter_In in Ej'. destruct Ej' as [Ej' _].
        exfalso. clear -Ej Ej'. induction (names t) as [|k l IH]; [destruct Ej'|]. simpl in Ej.
        destruct (str_eqb k m) eqn:E; [discriminate|]. destruct Ej' as [->|Hin]; [rewrite str_eqb_refl in E; discriminate|].
        destruct (index_of m l); [discriminate | apply IH; auto]. }
      rewrite Hnone. reflexivity.
Qed.
Print Assumptions remove_spec.
