(* predecessor bookkeeping of run_routing_forward: what node.antecedent / antecedent_edge record *)
From Coq Require Import List Arith ZArith QArith Bool Lia Lqa.
Import ListNotations.
From TL Require Import Model.Graph Proofs.Graph_inv Proofs.Graph_step Proofs.Graph_final Proofs.Graph_stop.
Open Scope Q_scope.

Fixpoint pos_of (x : nat) (l : list nat) : option nat :=
  match l with [] => None | y :: r => if (y =? x)%nat then Some 0%nat else option_map S (pos_of x r) end.

Definition order (s : st) : list nat := map fst (out s).

Record InvA (g : graph) (src : nat) (s : st) : Prop := {
  a_src : ante s src = None;
  a_edge : forall v u k, ante s v = Some (u, k) ->
     visite s u = true /\ exists e du, In e (next_edges g u) /\ eid e = k /\ fils e u = v /\
                                        poids s u = Some du /\ poids s v = Some (du + ew e);
  a_some : forall v, poids s v <> None -> v <> src -> ante s v <> None;
  a_vis : forall v, visite s v = true <-> In v (order s);
  a_ord : forall v u k, ante s v = Some (u, k) -> visite s v = true ->
     exists i j, pos_of u (order s) = Some i /\ pos_of v (order s) = Some j /\ (i < j)%nat;
  a_nodup : NoDup (order s);
  a_first : visite s src = false -> fil s = [src]
}.

Lemma invA_init g src : InvA g src (init src).
Proof.
  constructor; unfold init, order; simpl.
  - reflexivity.
  - intros v u k H. discriminate.
  - intros v Hp Hne. unfold upd in Hp. destruct (Nat.eqb_spec v src); [contradiction | congruence].
  - intros v. split; [discriminate | intros []].
  - intros v u k H. discriminate.
  - constructor.
  - reflexivity.
Qed.

Lemma NoDup_snoc {A} (l : list A) x : NoDup l -> ~ In x l -> NoDup (l ++ [x]).
Proof.
  induction 1 as [|y l Hy Hnd IH]; intros Hx; simpl; [repeat constructor; intros []|].
  constructor.
  - intros Hin. apply in_app_or in Hin. destruct Hin as [Hin|[<-|[]]]; [contradiction | apply Hx; left; reflexivity].
  - apply IH. intros Hin. apply Hx. right. assumption.
Qed.

Lemma pos_of_app_l x l r i : pos_of x l = Some i -> pos_of x (l ++ r) = Some i.
Proof.
  revert i. induction l as [|y l IH]; intros i H; [discriminate|]. simpl in *.
  destruct (y =? x)%nat; [assumption|]. destruct (pos_of x l) as [j|]; [|discriminate].
  rewrite (IH j eq_refl). assumption.
Qed.
Lemma pos_of_in x l : In x l -> exists i, pos_of x l = Some i /\ (i < length l)%nat.
Proof.
  induction l as [|y l IH]; intros H; [destruct H|]. simpl.
  destruct (Nat.eqb_spec y x); [exists 0%nat; split; [reflexivity | simpl; lia]|].
  destruct H as [H|H]; [contradiction|]. destruct (IH H) as [i [Hi Hl]]. rewrite Hi. exists (S i). split; [reflexivity | simpl; lia].
Qed.
Lemma pos_of_app_new x l : ~ In x l -> pos_of x (l ++ [x]) = Some (length l).
Proof.
  induction l as [|y l IH]; intros H; simpl; [rewrite Nat.eqb_refl; reflexivity|].
  destruct (Nat.eqb_spec y x); [exfalso; apply H; left; assumption|].
  rewrite IH by (intros Hin; apply H; right; assumption). reflexivity.
Qed.

(* a relaxation keeps the bookkeeping correct (u is the node being settled, already marked) *)
Lemma relax_invA g src u du s e :
  In e (next_edges g u) -> visite s u = true -> poids s u = Some du ->
  InvA g src s -> visite s src = true ->
  InvA g src (relax u du s e).
Proof.
  intros He Hvu Hdu HA Hsrc. unfold relax. set (v := fils e u).
  destruct (visite s v) eqn:Ev; [assumption|].
  destruct (match poids s v with None => true | Some dv => if Qlt_le_dec (du + ew e) dv then true else false end); [|assumption].
  destruct HA as [A1 A2 A3 A4 A5 A6 A7].
  assert (Hvu' : v <> u) by (intros E; rewrite E in Ev; congruence).
  assert (Hvs : v <> src) by (intros E; rewrite E in Ev; congruence).
  constructor; simpl.
  - rewrite upd_other by congruence. assumption.
  - intros x w k Hx. unfold upd in Hx. destruct (Nat.eqb_spec x v) as [->|Hne].
    + injection Hx as <- <-. split; [assumption|]. exists e, du. rewrite upd_same.
      rewrite upd_other by congruence. repeat split; try assumption; reflexivity.
    + destruct (A2 x w k Hx) as [Hw [e' [dw [H1 [H2 [H3 [H4 H5]]]]]]]. split; [assumption|].
      exists e', dw. rewrite (upd_other _ v _ x) by assumption.
      assert (Hwv : w <> v) by (intros E; rewrite E in Hw; congruence).
      rewrite (upd_other _ v _ w) by assumption. repeat split; assumption.
  - intros x Hp Hne. unfold upd. destruct (Nat.eqb_spec x v); [discriminate|].
    apply A3; [|assumption]. rewrite upd_other in Hp by assumption. assumption.
  - assumption.
  - intros x w k Hx Hvx. unfold upd in Hx. destruct (Nat.eqb_spec x v) as [->|Hne]; [congruence|].
    apply (A5 x w k Hx Hvx).
  - assumption.
  - intros H. congruence.
Qed.

Lemma relax_fold_invA g src u du : forall l s,
  (forall e, In e l -> In e (next_edges g u)) -> visite s u = true -> poids s u = Some du ->
  InvA g src s -> visite s src = true ->
  InvA g src (fold_left (relax u du) l s) /\ visite (fold_left (relax u du) l s) = visite s /\
  out (fold_left (relax u du) l s) = out s.
Proof.
  induction l as [|e l IH]; intros s Hl Hvu Hdu HA Hsrc; [simpl; auto|].
  cbn [fold_left].
  assert (Hvis : visite (relax u du s e) = visite s /\ out (relax u du s e) = out s).
  { unfold relax. destruct (visite s (fils e u)); [auto|]. destruct (match poids s (fils e u) with None => true | Some dv => if Qlt_le_dec (du + ew e) dv then true else false end); auto. }
  destruct Hvis as [Hvis Hout].
  assert (Hpu : poids (relax u du s e) u = Some du).
  { unfold relax. destruct (visite s (fils e u)) eqn:Ev; [assumption|].
    destruct (match poids s (fils e u) with None => true | Some dv => if Qlt_le_dec (du + ew e) dv then true else false end); [|assumption].
    simpl. rewrite upd_other; [assumption|]. intros E. rewrite <- E in Ev. congruence. }
  destruct (IH (relax u du s e)) as [H1 [H2 H3]].
  - intros e' He'. apply Hl. right. assumption.
  - rewrite Hvis. assumption.
  - assumption.
  - apply relax_invA; [apply Hl; left; reflexivity | assumption | assumption | assumption | assumption].
  - rewrite Hvis. assumption.
  - split; [assumption|]. split; [rewrite H2; assumption | rewrite H3; assumption].
Qed.

(* settling the popped node u *)
Lemma settle_invA g src s u du :
  Inv g src s -> InvA g src s -> In u (fil s) -> poids s u = Some du ->
  InvA g src (settle g u du s) /\ visite (settle g u du s) src = true.
Proof.
  intros HI HA Hin Hdu. destruct (i_Q1 _ _ _ HI u Hin) as [Hvu _].
  destruct HA as [A1 A2 A3 A4 A5 A6 A7].
  assert (Hnotin : ~ In u (order s)) by (intros H; apply A4 in H; congruence).
  set (s1 := {| poids := poids s; visite := upd (visite s) u true; ante := ante s; fil := remove_nat u (fil s); out := out s ++ [(u, du)] |}).
  assert (Hsrc1 : visite s1 src = true).
  { simpl. unfold upd. destruct (Nat.eqb_spec src u) as [E|E]; [reflexivity|].
    destruct (visite s src) eqn:Es; [reflexivity|]. rewrite (A7 eq_refl) in Hin. destruct Hin as [E'|[]]. congruence. }
  assert (HA1 : InvA g src s1).
  { constructor; unfold order; simpl.
    - assumption.
    - intros v w k Hv. destruct (A2 v w k Hv) as [Hw H]. split; [|assumption].
      unfold upd. destruct (Nat.eqb_spec w u); [reflexivity | assumption].
    - assumption.
    - intros v. rewrite map_app. simpl. rewrite in_app_iff. unfold upd. destruct (Nat.eqb_spec v u) as [->|E].
      + split; [intros _; right; left; reflexivity | reflexivity].
      + rewrite A4. unfold order. split; [intros H; left; assumption | intros [H|[H|[]]]; [assumption | congruence]].
    - intros v w k Hv Hvis. rewrite map_app. simpl.
      destruct (A2 v w k Hv) as [Hw _]. apply A4 in Hw. unfold order in Hw.
      destruct (pos_of_in w _ Hw) as [i [Hi Hlt]].
      unfold upd in Hvis. destruct (Nat.eqb_spec v u) as [->|E].
      + exists i, (length (map fst (out s))). split; [apply pos_of_app_l; assumption|]. split; [apply pos_of_app_new; assumption | assumption].
      + destruct (A5 v w k Hv Hvis) as [i' [j [H1 [H2 H3]]]]. exists i', j. unfold order in *.
        split; [apply pos_of_app_l; assumption | split; [apply pos_of_app_l; assumption | assumption]].
    - rewrite map_app. simpl. apply NoDup_snoc; assumption.
    - intros H. simpl in Hsrc1. congruence. }
  unfold settle. fold s1.
  destruct (relax_fold_invA g src u du (next_edges g u) s1 (fun e He => He)) as [H1 [H2 H3]]; try assumption.
  - simpl. apply upd_same.
  - split; [assumption | rewrite H2; assumption].
Qed.

(* run_routing_backward: nodes from the target back to the source *)
Fixpoint walk_back (fuel : nat) (s : st) (v : nat) : list nat :=
  match fuel with
  | O => [v]
  | S f => match ante s v with None => [v] | Some (u, _) => v :: walk_back f s u end
  end.

Definition run_backward (s : st) (t : nat) : option (list nat) :=
  match ante s t with None => None | Some _ => Some (rev (walk_back (length (order s)) s t)) end.

Lemma last_indep {A} (l : list A) d d' : l <> [] -> last l d = last l d'.
Proof. induction l as [|a l IH]; intros H; [contradiction|]. destruct l; [reflexivity|]. simpl in *. apply IH. discriminate. Qed.

Lemma pos_of_some_in x l i : pos_of x l = Some i -> In x l /\ (i < length l)%nat.
Proof.
  revert i. induction l as [|y l IH]; intros i H; [discriminate|]. simpl in H.
  destruct (Nat.eqb_spec y x); [injection H as <-; split; [left; assumption | simpl; lia]|].
  destruct (pos_of x l) as [j|]; [|discriminate]. injection H as <-. destruct (IH j eq_refl). split; [right; assumption | simpl; lia].
Qed.

(* C07 (graph part): following the recorded predecessors from a settled node reaches the source along
   permitted edges whose weights sum to the node's distance *)
Theorem back_walk g src s : nonneg g -> Inv g src s -> InvA g src s ->
  forall j v dv, pos_of v (order s) = Some j -> poids s v = Some dv ->
  forall fuel, (j < fuel)%nat ->
  exists es, walk g src v es /\ cost es == dv /\
             last (walk_back fuel s v) v = src /\ hd v (walk_back fuel s v) = v /\
             length (walk_back fuel s v) = S (length es).
Proof.
  intros Hnn HI HA. destruct HA as [A1 A2 A3 A4 A5 A6 A7].
  induction j as [j IHj] using lt_wf_ind. intros v dv Hpos Hdv fuel Hf.
  destruct fuel as [|f]; [lia|]. cbn [walk_back].
  destruct (pos_of_some_in _ _ _ Hpos) as [Hin _]. apply A4 in Hin.
  destruct (Nat.eq_dec v src) as [->|Hne].
  - rewrite A1. exists []. split; [constructor|]. split.
    + destruct (i_src _ _ _ HI) as [d0 [Hd0 Hle]]. rewrite Hd0 in Hdv. injection Hdv as <-.
      destruct (i_S _ _ _ HI src d0 Hd0) as [p [Hp Hc]]. pose proof (cost_nonneg g _ _ _ Hnn Hp). simpl. lra.
    + simpl. auto.
  - destruct (ante s v) as [[u k]|] eqn:Ea; [|exfalso; apply (A3 v); [congruence | assumption | assumption]].
    destruct (A2 v u k Ea) as [Hu [e [du [He [Hk [Hf' [Hdu Hdv']]]]]]].
    rewrite Hdv in Hdv'. injection Hdv' as ->.
    destruct (A5 v u k Ea Hin) as [i [j' [Hi [Hj' Hlt]]]]. rewrite Hpos in Hj'. injection Hj' as <-.
    destruct (IHj i Hlt u du Hi Hdu f ltac:(lia)) as [es [Hw [Hc [Hlast [Hhd Hlen]]]]].
    exists (es ++ [e]). split; [rewrite <- Hf'; apply walk_snoc; assumption|]. split; [rewrite cost_app; simpl; lra|].
    split; [|split].
    + destruct (walk_back f s u) as [|x r] eqn:Ew; [simpl in Hlen; lia|].
      change (last (v :: x :: r) v) with (last (x :: r) v).
      rewrite (last_indep _ v u) by discriminate. exact Hlast.
    + reflexivity.
    + simpl. rewrite Hlen, app_length. simpl. lia.
Qed.
Print Assumptions back_walk.
