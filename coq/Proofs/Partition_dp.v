From Coq Require Import List Arith QArith Bool Lia Lqa.
Import ListNotations.
From TL Require Import Model.Partition Proofs.Partition_opt.
Open Scope Q_scope.

(* a partition of [i,j] given by the list of its segment starts: i = s0 < s1 < ... < j *)
Inductive starts : nat -> nat -> list nat -> Prop :=
| st_one i j : (i < j)%nat -> starts i j [i]
| st_cons i k j l : (i < k)%nat -> starts k j l -> starts i j (i :: l).

Section Cost.
Variable cost : tab Q.
Fixpoint scost (l : list nat) (j : nat) : Q :=
  match l with
  | [] => 0
  | a :: r => match r with [] => cost a j | b :: _ => cost a b + scost r j end
  end.

Lemma starts_hd i j l : starts i j l -> exists r, l = i :: r.
Proof. destruct 1; eauto. Qed.
Lemma starts_lt i j l : starts i j l -> (i < j)%nat.
Proof. induction 1; lia. Qed.

Lemma starts_app i k j l1 l2 : starts i k l1 -> starts k j l2 ->
  starts i j (l1 ++ l2) /\ scost (l1 ++ l2) j == scost l1 k + scost l2 j.
Proof.
  intros H1 H2. induction H1 as [i k Hlt | i a k l Hlt H1 IH].
  - destruct (starts_hd _ _ _ H2) as [r ->]. split.
    + simpl. apply st_cons with (k := k); assumption.
    + simpl. lra.
  - destruct (IH H2) as [Hs Hc]. split.
    + simpl. apply st_cons with (k := a); assumption.
    + destruct (starts_hd _ _ _ H1) as [r ->]. simpl in *. rewrite Hc. lra.
Qed.

Lemma scost_chain : forall l j, l <> [] -> scost l j == chain_cost cost (l ++ [j]).
Proof.
  induction l as [|a l IH]; intros j Hne; [contradiction|].
  destruct l as [|b l]; [simpl; lra|].
  change ((a :: b :: l) ++ [j]) with (a :: b :: (l ++ [j])). cbn [scost chain_cost].
  rewrite (IH j) by discriminate. simpl. lra.
Qed.
End Cost.

(* validity of recorded split points, and the two halves of the correctness statement, for one cell *)
Definition cell_ok (m : bool) (cost D : tab Q) (M : tab (option nat)) (i j : nat) : Prop :=
  (forall k, M i j = Some k -> (i < k < j)%nat) /\
  (forall l, starts i j l -> dle m (D i j) (scost cost l j)) /\
  (forall fuel, (j - i <= fuel)%nat -> starts i j (backtracking fuel M i j) /\ scost cost (backtracking fuel M i j) j == D i j).

(* backtracking only looks at cells inside [i,j] whose recorded splits are valid *)
Lemma backtracking_ext M M' : forall fuel i j,
  (forall a b, (i <= a)%nat -> (b <= j)%nat -> (a < b)%nat -> M a b = M' a b /\ forall k, M a b = Some k -> (a < k < b)%nat) ->
  backtracking fuel M i j = backtracking fuel M' i j.
Proof.
  induction fuel as [|f IH]; intros i j H; [reflexivity|]. cbn [backtracking].
  destruct (Nat.le_gt_cases j i) as [Hle|Hlt].
  - destruct (M i j), (M' i j); try reflexivity; assert (E : (j - i <=? 1)%nat = true) by (apply Nat.leb_le; lia); rewrite ?E; reflexivity.
  - destruct (H i j (le_n _) (le_n _) Hlt) as [E Hv]. rewrite <- E.
    destruct (M i j) as [k|]; [|reflexivity]. specialize (Hv k eq_refl).
    destruct (j - i <=? 1)%nat; [reflexivity|].
    rewrite (IH i k), (IH k j); [reflexivity| |]; intros a b Ha Hb Hab; apply H; lia.
Qed.

Section DP.
Variable m : bool.
Variable N : nat.
Variable cost : tab Q.

Definition done (d p a b : nat) : Prop := (b - a < d)%nat \/ ((b - a = d)%nat /\ (a < p)%nat).

Definition St (d p : nat) (D : tab Q) (M : tab (option nat)) : Prop :=
  forall a b, (a < b)%nat -> (b < N)%nat ->
    (done d p a b -> cell_ok m cost D M a b) /\ (~ done d p a b -> D a b = cost a b /\ M a b = None).

Lemma done_dec d p a b : {done d p a b} + {~ done d p a b}.
Proof.
  unfold done. destruct (lt_dec (b - a) d); [left; left; assumption|].
  destruct (Nat.eq_dec (b - a) d); [|right; lia]. destruct (lt_dec a p); [left; right; split; assumption | right; lia].
Qed.

Lemma S_init : St 2 0 cost (fun _ _ => None).
Proof.
  intros a b Hab Hb. split; [|intros _; split; reflexivity].
  intros [Hd|[_ Hp]]; [|lia]. assert (b = Datatypes.S a) by lia. subst b.
  split; [intros k; discriminate|]. split.
  - intros l Hl. inversion Hl as [? ? Hlt|? k ? l' Hlt Hs]; subst.
    + simpl. apply dle_refl.
    + pose proof (starts_lt _ _ _ Hs). lia.
  - intros fuel Hf. destruct fuel as [|f]; [lia|]. simpl. split; [apply st_one; lia | lra].
Qed.

(* cells of span < d stay correct when only a cell of span >= d is modified *)
Lemma cell_ok_frame D M D' M' d a b :
  (b - a < d)%nat -> (a < b)%nat -> (b < N)%nat ->
  (forall x y, (x < y)%nat -> (y < N)%nat -> (y - x < d)%nat -> D' x y = D x y /\ M' x y = M x y) ->
  (forall x y, (x < y)%nat -> (y < N)%nat -> (y - x < d)%nat -> cell_ok m cost D M x y) ->
  cell_ok m cost D' M' a b.
Proof.
  intros Hs Hab Hb Hfr Hok. destruct (Hok a b Hab Hb Hs) as [Hv [Hopt Hsound]].
  destruct (Hfr a b Hab Hb Hs) as [ED EM].
  split; [rewrite EM; assumption|]. split; [rewrite ED; assumption|].
  intros fuel Hf. rewrite ED.
  assert (Ebt : backtracking fuel M' a b = backtracking fuel M a b).
  { apply backtracking_ext. intros x y Hx Hy Hxy.
    destruct (Hfr x y Hxy ltac:(lia) ltac:(lia)) as [_ E]. split; [assumption|].
    rewrite E. destruct (Hok x y Hxy ltac:(lia) ltac:(lia)) as [Hv' _]. assumption. }
  rewrite Ebt. apply Hsound. assumption.
Qed.

Lemma cell_ok_frame2 D M D' M' a b :
  cell_ok m cost D M a b ->
  (forall x y, (a <= x)%nat -> (y <= b)%nat -> (x < y)%nat ->
       D' x y = D x y /\ M' x y = M x y /\ forall k, M x y = Some k -> (x < k < y)%nat) ->
  (a < b)%nat ->
  cell_ok m cost D' M' a b.
Proof.
  intros [Hv [Hopt Hsound]] Hfr Hab.
  destruct (Hfr a b (le_n _) (le_n _) Hab) as [ED [EM _]].
  split; [rewrite EM; assumption|]. split; [rewrite ED; assumption|].
  intros fuel Hf. rewrite ED.
  assert (Ebt : backtracking fuel M' a b = backtracking fuel M a b).
  { apply backtracking_ext. intros x y Hx Hy Hxy. destruct (Hfr x y Hx Hy Hxy) as [_ [E Hval]].
    split; [assumption|]. rewrite E. assumption. }
  rewrite Ebt. apply Hsound. assumption.
Qed.

Lemma in_seq_range k p d : In k (seq (Datatypes.S p) (p + d - Datatypes.S p)) <-> (p < k < p + d)%nat.
Proof. rewrite in_seq. lia. Qed.

Lemma step_cell d p D M : (2 <= d)%nat -> (p + d < N)%nat -> St d p D M ->
  let '(D', M') := inner m p (p + d) (D, M) in St d (Datatypes.S p) D' M'.
Proof.
  intros Hd Hp HS. unfold inner.
  pose proof (inner_spec m p (p + d) (seq (Datatypes.S p) (p + d - Datatypes.S p)) D M
                (fun k Hk => proj1 (in_seq_range k p d) Hk)) as Hin.
  destruct (fold_left (inner_step m p (p + d)) (seq (Datatypes.S p) (p + d - Datatypes.S p)) (D, M)) as [D' M'].
  destruct Hin as [Hfr [Hle [Hall Hwit]]].
  set (j := (p + d)%nat) in *.
  (* facts about the untouched cell (p,j) and the done cells of smaller span *)
  destruct (HS p j ltac:(lia) Hp) as [_ Hnot].
  destruct (Hnot ltac:(unfold done; lia)) as [EDpj EMpj].
  assert (Hsmall : forall x y, (x < y)%nat -> (y < N)%nat -> (y - x < d)%nat -> cell_ok m cost D M x y).
  { intros x y Hxy Hy Hs. apply (proj1 (HS x y Hxy Hy)). left. assumption. }
  intros a b Hab Hb.
  destruct (Nat.eq_dec a p) as [Ea|Ea]; [destruct (Nat.eq_dec b j) as [Eb|Eb]|].
  - (* the cell just processed *)
    subst a b. split; [|intros Hn; exfalso; apply Hn; right; lia]. intros _.
    split; [|split].
    + intros k Hk. destruct Hwit as [[_ E]|[k' [Hin [E _]]]].
      * rewrite E, EMpj in Hk. discriminate.
      * rewrite E in Hk. injection Hk as <-. apply in_seq_range. assumption.
    + intros l Hl. inversion Hl as [? ? Hlt|? k ? l' Hlt Hs]; subst.
      * simpl. apply (dle_trans m _ _ _ Hle). rewrite EDpj. apply dle_refl.
      * pose proof (starts_lt _ _ _ Hs) as Hkj.
        destruct (starts_hd _ _ _ Hs) as [r ->].
        assert (Hk : In k (seq (Datatypes.S p) (j - Datatypes.S p))) by (apply in_seq_range; lia).
        apply (dle_trans m _ _ _ (Hall k Hk)).
        change (scost cost (p :: k :: r) j) with (cost p k + scost cost (k :: r) j).
        apply dle_plus.
        -- destruct (Hsmall p k Hlt ltac:(lia) ltac:(lia)) as [_ [Hopt _]]. apply (Hopt [p]). apply st_one. assumption.
        -- destruct (Hsmall k j Hkj Hp ltac:(lia)) as [_ [Hopt _]]. apply Hopt. assumption.
    + intros fuel Hf. destruct fuel as [|f]; [lia|]. cbn [backtracking].
      destruct Hwit as [[E1 E2]|[k [Hin [E1 E2]]]].
      * rewrite E2, EMpj. rewrite E1, EDpj. simpl. split; [apply st_one; lia | lra].
      * rewrite E1. apply in_seq_range in Hin.
        assert (El : (j - p <=? 1)%nat = false) by (apply Nat.leb_gt; lia). rewrite El.
        assert (Eb1 : backtracking f M' p k = backtracking f M p k).
        { apply backtracking_ext. intros x y Hx Hy Hxy.
          destruct (Hfr x y ltac:(intros E; injection E; lia)) as [_ EM]. split; [assumption|].
          rewrite EM. destruct (Hsmall x y Hxy ltac:(lia) ltac:(lia)) as [Hv _]. assumption. }
        assert (Eb2 : backtracking f M' k j = backtracking f M k j).
        { apply backtracking_ext. intros x y Hx Hy Hxy.
          destruct (Hfr x y ltac:(intros E; injection E; lia)) as [_ EM]. split; [assumption|].
          rewrite EM. destruct (Hsmall x y Hxy ltac:(lia) ltac:(lia)) as [Hv _]. assumption. }
        rewrite Eb1, Eb2.
        destruct (Hsmall p k ltac:(lia) ltac:(lia) ltac:(lia)) as [_ [_ Hs1]].
        destruct (Hsmall k j ltac:(lia) Hp ltac:(lia)) as [_ [_ Hs2]].
        destruct (Hs1 f ltac:(lia)) as [S1 C1]. destruct (Hs2 f ltac:(lia)) as [S2 C2].
        destruct (starts_app cost p k j _ _ S1 S2) as [S3 C3].
        split; [assumption|]. rewrite C3, C1, C2, E2. lra.
  - (* same row, other column *)
    assert (Hne : (a, b) <> (p, j)) by (intros E; injection E; lia).
    destruct (Hfr a b Hne) as [ED EM]. destruct (HS a b Hab Hb) as [Hdone Hnot'].
    assert (Hiff : done d (Datatypes.S p) a b <-> done d p a b) by (unfold done; subst a; lia).
    split.
    + intros Hdn. apply Hiff in Hdn. apply (cell_ok_frame2 D M D' M' a b (Hdone Hdn)); [|assumption].
      intros x y Hx Hy Hxy. destruct (Hfr x y) as [E1 E2].
      { intros E; injection E as -> ->. destruct Hdn as [Hdn|[Hdn Hlt]]; subst a; lia. }
      split; [assumption|]. split; [assumption|].
      destruct (proj1 (HS x y Hxy ltac:(lia))) as [Hv _]; [|assumption].
      destruct Hdn as [Hdn|[Hdn Hlt]]; [left; lia | subst a; lia].
    + intros Hn. rewrite ED, EM. apply Hnot'. intros Hdn. apply Hn. apply Hiff. assumption.
  - assert (Hne : (a, b) <> (p, j)) by (intros E; injection E; lia).
    destruct (Hfr a b Hne) as [ED EM]. destruct (HS a b Hab Hb) as [Hdone Hnot'].
    assert (Hiff : done d (Datatypes.S p) a b <-> done d p a b) by (unfold done; lia).
    split.
    + intros Hdn. apply Hiff in Hdn. apply (cell_ok_frame2 D M D' M' a b (Hdone Hdn)); [|assumption].
      intros x y Hx Hy Hxy. destruct (Hfr x y) as [E1 E2].
      { intros E; injection E as -> ->. destruct Hdn as [Hdn|[Hdn Hlt]]; unfold j in *; lia. }
      split; [assumption|]. split; [assumption|].
      destruct (proj1 (HS x y Hxy ltac:(lia))) as [Hv _]; [|assumption].
      destruct Hdn as [Hdn|[Hdn Hlt]]; [left; lia|].
      destruct (Nat.eq_dec x a); [destruct (Nat.eq_dec y b); [right; lia | left; lia] | left; lia].
    + intros Hn. rewrite ED, EM. apply Hnot'. intros Hdn. apply Hn. apply Hiff. assumption.
Qed.
End DP.
