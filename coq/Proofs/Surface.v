(* C02, surface syntax: unary minus "(-e)" and the function-call spellings F(e) / F{e} are rewritten by the string passes of
   __evaluate into the internal syntax (0-e) / F@(e); a surface expression therefore evaluates as its lowered tree. *)
From Coq Require Import List Ascii String Bool Arith Lia.
Import ListNotations.
From TL Require Import Model.Str Model.Rpn Model.Table Model.Eval Model.Pipeline Proofs.Rpn_parse Proofs.Replace.
Open Scope char_scope.

(* ------------------------------------------------------------------ surface trees *)
Inductive sx :=
| XAtom (s : str) | XBin (op : ascii) (l r : sx) | XPar (e : sx)
| XNeg (e : sx)                         (* (-e) *)
| XCall (brace : bool) (f : str) (e : sx).   (* f(e)  /  f{e} *)

(* printer parametrised by what the passes have already rewritten *)
Record pp := { pneg : str; popen : bool -> str -> str; pclose : bool -> str }.
Fixpoint sprintg (P : pp) (x : sx) : str :=
  match x with
  | XAtom s => s
  | XBin op l r => sprintg P l ++ [op] ++ sprintg P r
  | XPar e => ["("] ++ sprintg P e ++ [")"]
  | XNeg e => pneg P ++ sprintg P e ++ [")"]
  | XCall b f e => f ++ popen P b f ++ sprintg P e ++ pclose P b
  end.

Definition P0 : pp := {| pneg := s_ "(-"; popen := fun b _ => if b then s_ "{" else s_ "("; pclose := fun b => if b then s_ "}" else s_ ")" |}.
Definition sprint := sprintg P0.

Fixpoint lower (x : sx) : expr :=
  match x with
  | XAtom s => Atom s
  | XBin op l r => Bin op (lower l) (lower r)
  | XPar e => Par (lower e)
  | XNeg e => Par (Bin "-" (Atom (s_ "0")) (lower e))
  | XCall _ f e => Bin "@" (Atom f) (Par (lower e))
  end.

(* the printer once every pass has run *)
Definition PF : pp := {| pneg := s_ "(0-"; popen := fun _ _ => s_ "@("; pclose := fun _ => s_ ")" |}.
Lemma sprint_final x : sprintg PF x = print (lower x).
Proof.
  induction x as [s|op l IHl r IHr|e IH|e IH|b f e IH]; cbn [sprintg lower print]; rewrite ?IHl, ?IHr, ?IH; try reflexivity.
Qed.

(* ------------------------------------------------------------------ character classes *)
Definition aop (c : ascii) : bool := existsb (Ascii.eqb c) ["+"; "-"; "*"; "/"; "^"; "<"; ">"].
Definition nm (c : ascii) : bool := negb (special c) && negb (Ascii.eqb c "{") && negb (Ascii.eqb c "}").
Definition keychar (c : ascii) : bool := existsb (fun k => existsb (Ascii.eqb c) k) fun_keys.

(* well-formed surface trees: names are made of name characters and do not end with a dot; operators are arithmetic; functions are keys *)
Fixpoint swf (x : sx) : Prop :=
  match x with
  | XAtom s => s <> [] /\ forallb nm s = true /\ last s " " <> "."
  | XBin op l r => aop op = true /\ swf l /\ swf r
  | XPar e | XNeg e => swf e
  | XCall _ f e => In f fun_keys /\ swf e
  end.

(* ------------------------------------------------------------------ the family of printers the passes go through *)
Definition ppok (P : pp) : Prop :=
  (pneg P = s_ "(-" \/ pneg P = s_ "(0-") /\
  (forall b f, popen P b f = s_ "(" \/ popen P b f = s_ "{" \/ popen P b f = s_ "@(") /\
  (forall b, pclose P b = s_ ")" \/ pclose P b = s_ "}").

Definition hd_ok (c : ascii) : bool := nm c || Ascii.eqb c "(".
Definition last_ok (c : ascii) : bool := (nm c && negb (Ascii.eqb c ".")) || Ascii.eqb c ")" || Ascii.eqb c "}".

Lemma keys_nm : forallb (fun k => negb (match k with [] => true | _ => false end) && forallb nm k && forallb keychar k) fun_keys = true.
Proof. vm_compute. reflexivity. Qed.
Lemma key_facts f : In f fun_keys -> f <> [] /\ forallb nm f = true /\ forallb keychar f = true.
Proof.
  intros H. pose proof keys_nm as K. rewrite forallb_forall in K. specialize (K f H).
  apply andb_prop in K. destruct K as [K K3]. apply andb_prop in K. destruct K as [K1 K2].
  split; [destruct f; [discriminate K1 | discriminate] | split; assumption].
Qed.

Lemma last_cons_ne {A} (x : A) l d : l <> [] -> last (x :: l) d = last l d.
Proof. destruct l; [congruence | reflexivity]. Qed.
Lemma last_app_ne {A} (a b : list A) d : b <> [] -> last (a ++ b) d = last b d.
Proof.
  intros Hb. induction a as [|x a IH]; [reflexivity|]. cbn [app]. rewrite last_cons_ne; [exact IH|].
  intros E. apply app_eq_nil in E. destruct E as [_ E]. contradiction.
Qed.
Lemma hd_app_ne {A} (a b : list A) d : a <> [] -> hd d (a ++ b) = hd d a.
Proof. destruct a; [congruence | reflexivity]. Qed.

Lemma sprint_ne P x : ppok P -> swf x -> sprintg P x <> [].
Proof.
  intros [Hn _] Hx. destruct x as [s|op l r|e|e|b f e]; cbn [sprintg].
  - destruct Hx as [H _]. exact H.
  - destruct (sprintg P l); discriminate.
  - discriminate.
  - destruct Hn as [-> | ->]; discriminate.
  - destruct Hx as [Hf _]. destruct (key_facts f Hf) as [Hne _]. destruct f; [congruence | discriminate].
Qed.

Lemma forallb_hd (f : ascii -> bool) s d : s <> [] -> forallb f s = true -> f (hd d s) = true.
Proof. destruct s; [congruence|]. cbn. intros _ H. apply andb_prop in H. apply H. Qed.
Lemma forallb_last (f : ascii -> bool) s d : s <> [] -> forallb f s = true -> f (last s d) = true.
Proof.
  induction s as [|c s IH]; [congruence|]. intros _ H. cbn [forallb] in H. apply andb_prop in H. destruct H as [H1 H2].
  destruct s as [|c' s']; [exact H1|]. change (last (c :: c' :: s') d) with (last (c' :: s') d). apply IH; [discriminate | exact H2].
Qed.

Lemma hd_sprint P x : ppok P -> swf x -> hd_ok (hd " " (sprintg P x)) = true.
Proof.
  intros HP Hx. induction x as [s|op l IHl r IHr|e IH|e IH|b f e IH]; cbn [sprintg].
  - destruct Hx as [Hne [Hs _]]. unfold hd_ok. rewrite (forallb_hd nm s " " Hne Hs). reflexivity.
  - destruct Hx as [_ [Hl _]]. rewrite hd_app_ne by (apply sprint_ne; assumption). apply IHl. exact Hl.
  - reflexivity.
  - destruct HP as [[-> | ->] _]; reflexivity.
  - destruct Hx as [Hf _]. destruct (key_facts f Hf) as [Hne [Hnm _]]. rewrite hd_app_ne by exact Hne.
    unfold hd_ok. rewrite (forallb_hd nm f " " Hne Hnm). reflexivity.
Qed.

Lemma last_sprint P x : ppok P -> swf x -> last_ok (last (sprintg P x) " ") = true.
Proof.
  intros HP Hx. induction x as [s|op l IHl r IHr|e IH|e IH|b f e IH]; cbn [sprintg].
  - destruct Hx as [Hne [Hs Hd]]. unfold last_ok. rewrite (forallb_last nm s " " Hne Hs).
    destruct (Ascii.eqb_spec (last s " ") "."); [contradiction | reflexivity].
  - destruct Hx as [_ [_ Hr]]. rewrite app_assoc, last_app_ne by (apply sprint_ne; assumption). apply IHr. exact Hr.
  - rewrite app_assoc, last_app_ne by discriminate. reflexivity.
  - rewrite app_assoc, last_app_ne by discriminate. reflexivity.
  - rewrite !app_assoc. destruct HP as [_ [_ Hc]]. destruct (Hc b) as [-> | ->]; rewrite last_app_ne by discriminate; reflexivity.
Qed.

(* ------------------------------------------------------------------ which characters can be neighbours in a printed surface tree *)
Definition ceq (a b : ascii) : bool := Ascii.eqb a b.
Definition adjb (c1 c2 : ascii) : bool :=
     (nm c1 && nm c2)
  || (nm c1 && negb (ceq c1 ".") && (aop c2 || ceq c2 ")" || ceq c2 "}"))
  || (nm c1 && (ceq c2 "(" || ceq c2 "{" || ceq c2 "@"))
  || (ceq c1 "@" && ceq c2 "(")
  || (aop c1 && (nm c2 || ceq c2 "("))
  || ((ceq c1 "(" || ceq c1 "{") && (nm c2 || ceq c2 "("))
  || (ceq c1 "(" && ceq c2 "-")
  || ((ceq c1 ")" || ceq c1 "}") && (aop c2 || ceq c2 ")" || ceq c2 "}")).

Fixpoint chain (s : str) : bool :=
  match s with
  | c1 :: ((c2 :: _) as r) => adjb c1 c2 && chain r
  | _ => true
  end.

Lemma chain_cons2 c1 c2 r : chain (c1 :: c2 :: r) = adjb c1 c2 && chain (c2 :: r).
Proof. reflexivity. Qed.

Lemma chain_app a b : chain a = true -> chain b = true -> (a = [] \/ b = [] \/ adjb (last a " ") (hd " " b) = true) -> chain (a ++ b) = true.
Proof.
  intros Ha Hb Hm. induction a as [|c a IH]; [exact Hb|].
  destruct a as [|c' a'].
  - cbn [app]. destruct b as [|d b']; [reflexivity|]. rewrite chain_cons2, Hb, andb_true_r.
    destruct Hm as [H|[H|H]]; [discriminate | discriminate | exact H].
  - change ((c :: c' :: a') ++ b) with (c :: c' :: (a' ++ b)). rewrite chain_cons2 in *. apply andb_prop in Ha. destruct Ha as [H1 H2]. rewrite H1. cbn [andb].
    change (c' :: a' ++ b) with ((c' :: a') ++ b). apply IH; [exact H2|].
    destruct Hm as [H|[H|H]]; [discriminate | right; left; exact H | right; right; rewrite last_cons_ne in H by discriminate; exact H].
Qed.

Lemma chain_forall (f : ascii -> bool) s : (forall a b, f a = true -> f b = true -> adjb a b = true) -> forallb f s = true -> chain s = true.
Proof.
  intros H. induction s as [|c s IH]; [reflexivity|]. intros Hs. cbn [forallb] in Hs. apply andb_prop in Hs. destruct Hs as [H1 H2].
  destruct s as [|c' s']; [reflexivity|]. rewrite chain_cons2, (IH H2), andb_true_r.
  cbn [forallb] in H2. apply andb_prop in H2. apply H; [exact H1 | apply H2].
Qed.

(* a two-character pattern that occurs in a chained string is made of possible neighbours *)
Lemma contains2_chain p1 p2 : forall s, chain s = true -> contains [p1; p2] s = true -> adjb p1 p2 = true.
Proof.
  induction s as [|c s IH]; intros Hc H; [discriminate H|].
  cbn [contains] in H. apply orb_prop in H. destruct H as [H|H].
  - destruct s as [|c' s']; [cbn in H; rewrite andb_false_r in H; discriminate|].
    cbn [prefix] in H. apply andb_prop in H. destruct H as [E1 H]. apply andb_prop in H. destruct H as [E2 _].
    apply Ascii.eqb_eq in E1, E2. subst. rewrite chain_cons2 in Hc. apply andb_prop in Hc. apply Hc.
  - apply IH; [|exact H]. destruct s as [|c' s']; [reflexivity|]. rewrite chain_cons2 in Hc. apply andb_prop in Hc. apply Hc.
Qed.

Lemma contains_tail x p : forall s, contains (x :: p) s = true -> contains p s = true.
Proof.
  induction s as [|c s IH]; intros H.
  - cbn in H. discriminate.
  - cbn [contains] in H. apply orb_prop in H. destruct H as [H|H].
    + cbn [prefix] in H. apply andb_prop in H. destruct H as [_ H]. cbn [contains].
      destruct s as [|c' s']; [destruct p; [reflexivity | cbn in H; discriminate]|].
      assert (contains p (c' :: s') = true) by (cbn [contains]; rewrite H; reflexivity). rewrite H0. apply orb_true_r.
    + cbn [contains]. rewrite (IH H). apply orb_true_r.
Qed.

(* the printed surface tree is chained, for every printer of the family *)
Lemma nm_adj a b : nm a = true -> nm b = true -> adjb a b = true.
Proof. intros Ha Hb. unfold adjb. rewrite Ha, Hb. reflexivity. Qed.

Lemma adj_last_op c1 c2 : last_ok c1 = true -> aop c2 = true -> adjb c1 c2 = true.
Proof.
  intros H1 H2. unfold last_ok in H1. unfold adjb, ceq. rewrite H2. apply orb_prop in H1. destruct H1 as [H1|H1]; [apply orb_prop in H1; destruct H1 as [H1|H1]|].
  - apply andb_prop in H1. destruct H1 as [Ha Hb]. rewrite Ha, Hb. cbn. rewrite ?orb_true_r. reflexivity.
  - rewrite H1. cbn. rewrite ?orb_true_r. reflexivity.
  - rewrite H1. cbn. rewrite ?orb_true_r. reflexivity.
Qed.
Lemma adj_last_close c1 c2 : last_ok c1 = true -> (c2 = ")" \/ c2 = "}") -> adjb c1 c2 = true.
Proof.
  intros H1 H2. unfold last_ok in H1. unfold adjb, ceq. apply orb_prop in H1. destruct H1 as [H1|H1]; [apply orb_prop in H1; destruct H1 as [H1|H1]|].
  - apply andb_prop in H1. destruct H1 as [Ha Hb]. rewrite Ha, Hb. destruct H2 as [-> | ->]; cbn; rewrite ?orb_true_r; reflexivity.
  - rewrite H1. destruct H2 as [-> | ->]; cbn; rewrite ?orb_true_r; reflexivity.
  - rewrite H1. destruct H2 as [-> | ->]; cbn; rewrite ?orb_true_r; reflexivity.
Qed.
Lemma adj_op_hd c1 c2 : aop c1 = true -> hd_ok c2 = true -> adjb c1 c2 = true.
Proof. intros H1 H2. unfold hd_ok in H2. unfold adjb, ceq. rewrite H1. apply orb_prop in H2. destruct H2 as [H2|H2]; rewrite H2; cbn; rewrite ?orb_true_r; reflexivity. Qed.
Lemma adj_open_hd c1 c2 : (c1 = "(" \/ c1 = "{") -> hd_ok c2 = true -> adjb c1 c2 = true.
Proof. intros H1 H2. unfold hd_ok in H2. unfold adjb, ceq. apply orb_prop in H2. destruct H1 as [-> | ->]; destruct H2 as [H2|H2]; rewrite H2; cbn; rewrite ?orb_true_r; reflexivity. Qed.

Lemma chain_sprint P x : ppok P -> swf x -> chain (sprintg P x) = true.
Proof.
  intros HP Hx. induction x as [s|op l IHl r IHr|e IH|e IH|b f e IH]; cbn [sprintg].
  - destruct Hx as [_ [Hs _]]. apply (chain_forall nm); [apply nm_adj | exact Hs].
  - destruct Hx as [Hop [Hl Hr]]. specialize (IHl Hl). specialize (IHr Hr).
    pose proof (last_sprint P l HP Hl) as Ll. pose proof (hd_sprint P r HP Hr) as Hh.
    apply chain_app; [exact IHl | apply (chain_app [op]); [reflexivity | exact IHr |] |].
    + right. right. cbn [last]. apply adj_op_hd; assumption.
    + right. right. cbn [app hd]. apply adj_last_op; assumption.
  - specialize (IH Hx). pose proof (last_sprint P e HP Hx) as Ll. pose proof (hd_sprint P e HP Hx) as Hh.
    apply (chain_app ["("]); [reflexivity | apply chain_app; [exact IH | reflexivity |] |].
    + right. right. cbn [hd]. apply adj_last_close; [exact Ll | left; reflexivity].
    + right. right. cbn [last]. rewrite hd_app_ne by (apply sprint_ne; assumption). apply adj_open_hd; [left; reflexivity | exact Hh].
  - specialize (IH Hx). pose proof (last_sprint P e HP Hx) as Ll. pose proof (hd_sprint P e HP Hx) as Hh.
    assert (Hneg : chain (pneg P) = true /\ last (pneg P) " " = "-" /\ pneg P <> []) by (destruct HP as [[-> | ->] _]; repeat split; discriminate).
    destruct Hneg as [Hn1 [Hn2 Hn3]].
    apply chain_app; [exact Hn1 | apply chain_app; [exact IH | reflexivity |] |].
    + right. right. cbn [hd]. apply adj_last_close; [exact Ll | left; reflexivity].
    + right. right. rewrite Hn2, hd_app_ne by (apply sprint_ne; assumption). apply adj_op_hd; [reflexivity | exact Hh].
  - destruct Hx as [Hf He]. specialize (IH He). pose proof (last_sprint P e HP He) as Ll. pose proof (hd_sprint P e HP He) as Hh.
    destruct (key_facts f Hf) as [Hne [Hnm _]].
    assert (Ho : chain (popen P b f) = true /\ (last (popen P b f) " " = "(" \/ last (popen P b f) " " = "{") /\ popen P b f <> [] /\
                 (hd " " (popen P b f) = "(" \/ hd " " (popen P b f) = "{" \/ hd " " (popen P b f) = "@")).
    { destruct HP as [_ [Ho _]]. destruct (Ho b f) as [-> | [-> | ->]]; repeat split; try discriminate; auto. }
    destruct Ho as [Ho1 [Ho2 [Ho3 Ho4]]].
    assert (Hcl : chain (pclose P b) = true /\ (hd " " (pclose P b) = ")" \/ hd " " (pclose P b) = "}") /\ pclose P b <> []).
    { destruct HP as [_ [_ Hc]]. destruct (Hc b) as [-> | ->]; repeat split; try discriminate; auto. }
    destruct Hcl as [Hc1 [Hc2 Hc3]].
    apply chain_app; [apply (chain_forall nm); [apply nm_adj | exact Hnm] | apply chain_app; [exact Ho1 | apply chain_app; [exact IH | exact Hc1 |] |] |].
    + right. right. apply adj_last_close; assumption.
    + right. right. rewrite hd_app_ne by (apply sprint_ne; assumption). apply adj_open_hd; assumption.
    + right. right. rewrite hd_app_ne by exact Ho3. pose proof (forallb_last nm f " " Hne Hnm) as Hl. unfold adjb, ceq. rewrite Hl.
      destruct Ho4 as [-> | [-> | ->]]; cbn; rewrite ?orb_true_r; reflexivity.
Qed.

(* ------------------------------------------------------------------ straddling occurrences *)
Lemma prefix_split : forall p a b, prefix p (a ++ b) = true -> prefix p a = true \/ exists v, v <> [] /\ p = a ++ v /\ prefix v b = true.
Proof.
  induction p as [|x p IH]; intros a b H; [left; destruct a; reflexivity|].
  destruct a as [|y a].
  - right. exists (x :: p). split; [discriminate | split; [reflexivity | exact H]].
  - cbn [app prefix] in H. apply andb_prop in H. destruct H as [H1 H2]. apply Ascii.eqb_eq in H1. subst y.
    destruct (IH a b H2) as [Hp|[v [Hv [-> Hp]]]].
    + left. cbn [prefix]. rewrite Ascii.eqb_refl, Hp. reflexivity.
    + right. exists v. split; [exact Hv | split; [reflexivity | exact Hp]].
Qed.

Lemma hd_prefix v b : v <> [] -> prefix v b = true -> b <> [] /\ hd " " b = hd " " v.
Proof. destruct v as [|x v]; [congruence|]. destruct b as [|y b]; [discriminate|]. cbn. intros _ H. apply andb_prop in H. destruct H as [H _]. apply Ascii.eqb_eq in H. subst. split; [discriminate | reflexivity]. Qed.

(* no occurrence straddles when the first character after the boundary does not occur in the pattern ... *)
Lemma no_straddle_hd pat a b : b = [] \/ ~ In (hd " " b) pat -> no_straddle pat a b.
Proof.
  intros Hb a1 a2 Ea Hne H. destruct (prefix_split pat a2 b H) as [Hp|[v [Hv [Ep Hvb]]]]; [exact Hp|]. exfalso.
  destruct (hd_prefix v b Hv Hvb) as [Hbn Hh]. destruct Hb as [Hb|Hb]; [contradiction|]. apply Hb. rewrite Hh, Ep.
  apply in_or_app. right. destruct v; [congruence | left; reflexivity].
Qed.
(* ... or when the last character before it does not occur in the pattern without its last character *)
Lemma last_in {A} (l : list A) d : l <> [] -> In (last l d) l.
Proof. induction l as [|x l IH]; [congruence|]. intros _. destruct l as [|y l']; [left; reflexivity|]. right. rewrite last_cons_ne by discriminate. apply IH. discriminate. Qed.
Lemma removelast_app_ne {A} (a v : list A) : v <> [] -> removelast (a ++ v) = a ++ removelast v.
Proof. intros Hv. apply removelast_app. exact Hv. Qed.
Lemma no_straddle_last pat a b : a = [] \/ ~ In (last a " ") (removelast pat) -> no_straddle pat a b.
Proof.
  intros Ha a1 a2 Ea Hne H. destruct (prefix_split pat a2 b H) as [Hp|[v [Hv [Ep Hvb]]]]; [exact Hp|]. exfalso.
  destruct Ha as [Ha|Ha]; [subst a; destruct a1; [cbn in Ea; congruence | discriminate Ea]|]. apply Ha.
  rewrite Ea, last_app_ne by exact Hne. rewrite Ep, removelast_app_ne by exact Hv. apply in_or_app. left. apply last_in. exact Hne.
Qed.

(* ------------------------------------------------------------------ a pass that distributes over the structure of the printed tree *)
Definition bpair (c1 c2 : ascii) : bool :=
     (last_ok c1 && aop c2) || (aop c1 && hd_ok c2) || ((ceq c1 "(" || ceq c1 "{") && hd_ok c2) || (last_ok c1 && (ceq c2 ")" || ceq c2 "}")).

Section Pass.
Variables pat rep : str.
Hypothesis Hpat : pat <> [].
Variables P P' : pp.
Hypothesis HP : ppok P.
Hypothesis Hhard : forall a b, a <> [] -> b <> [] -> bpair (last a " ") (hd " " b) = true -> no_straddle pat a b.
Hypothesis Hatom : forall s, forallb nm s = true -> R pat rep s = s.
Hypothesis Hop : forall c, aop c = true -> R pat rep [c] = [c].
Hypothesis Hlp : R pat rep ["("] = ["("].
Hypothesis Hrp : R pat rep [")"] = [")"].
Hypothesis Hneg : R pat rep (pneg P) = pneg P'.
Hypothesis Hcall : forall b f, In f fun_keys -> R pat rep (f ++ popen P b f) = f ++ popen P' b f.
Hypothesis Hclose : forall b, R pat rep (pclose P b) = pclose P' b.

Lemma bpair_last_op c1 c2 : last_ok c1 = true -> aop c2 = true -> bpair c1 c2 = true.
Proof. intros H1 H2. unfold bpair. rewrite H1, H2. reflexivity. Qed.

Theorem pass_sprint x : swf x -> R pat rep (sprintg P x) = sprintg P' x.
Proof.
  intros Hx. induction x as [s|op l IHl r IHr|e IH|e IH|b f e IH]; cbn [sprintg].
  - destruct Hx as [_ [Hs _]]. apply Hatom. exact Hs.
  - destruct Hx as [Ho [Hl Hr]]. specialize (IHl Hl). specialize (IHr Hr).
    pose proof (last_sprint P l HP Hl) as Ll. pose proof (hd_sprint P r HP Hr) as Hh.
    rewrite (R_app pat rep Hpat (sprintg P l) ([op] ++ sprintg P r)).
    2:{ apply Hhard; [apply sprint_ne; assumption | discriminate |]. cbn [app hd]. apply bpair_last_op; assumption. }
    rewrite (R_app pat rep Hpat [op] (sprintg P r)).
    2:{ apply Hhard; [discriminate | apply sprint_ne; assumption |]. cbn [last]. unfold bpair. rewrite Ho, Hh. rewrite ?orb_true_r. reflexivity. }
    rewrite IHl, IHr, (Hop op Ho). reflexivity.
  - specialize (IH Hx). pose proof (last_sprint P e HP Hx) as Ll. pose proof (hd_sprint P e HP Hx) as Hh.
    rewrite (R_app pat rep Hpat ["("] (sprintg P e ++ [")"])).
    2:{ apply Hhard; [discriminate | destruct (sprintg P e); discriminate |]. cbn [last]. rewrite hd_app_ne by (apply sprint_ne; assumption).
        unfold bpair, ceq. rewrite Hh. cbn. rewrite ?orb_true_r. reflexivity. }
    rewrite (R_app pat rep Hpat (sprintg P e) [")"]).
    2:{ apply Hhard; [apply sprint_ne; assumption | discriminate |]. cbn [hd]. unfold bpair, ceq. rewrite Ll. cbn. rewrite ?orb_true_r. reflexivity. }
    rewrite IH, Hlp, Hrp. reflexivity.
  - specialize (IH Hx). pose proof (last_sprint P e HP Hx) as Ll. pose proof (hd_sprint P e HP Hx) as Hh.
    assert (Hn : pneg P <> [] /\ last (pneg P) " " = "-") by (destruct HP as [[-> | ->] _]; split; try discriminate; reflexivity).
    destruct Hn as [Hn1 Hn2].
    rewrite (R_app pat rep Hpat (pneg P) (sprintg P e ++ [")"])).
    2:{ apply Hhard; [exact Hn1 | destruct (sprintg P e); discriminate |]. rewrite Hn2, hd_app_ne by (apply sprint_ne; assumption).
        unfold bpair. rewrite Hh. cbn. rewrite ?orb_true_r. reflexivity. }
    rewrite (R_app pat rep Hpat (sprintg P e) [")"]).
    2:{ apply Hhard; [apply sprint_ne; assumption | discriminate |]. cbn [hd]. unfold bpair, ceq. rewrite Ll. cbn. rewrite ?orb_true_r. reflexivity. }
    rewrite IH, Hneg, Hrp. reflexivity.
  - destruct Hx as [Hf He]. specialize (IH He). pose proof (last_sprint P e HP He) as Ll. pose proof (hd_sprint P e HP He) as Hh.
    destruct (key_facts f Hf) as [Hne _].
    assert (Ho : popen P b f <> [] /\ (last (popen P b f) " " = "(" \/ last (popen P b f) " " = "{")).
    { destruct HP as [_ [Ho _]]. destruct (Ho b f) as [-> | [-> | ->]]; split; try discriminate; auto. }
    destruct Ho as [Ho1 Ho2].
    assert (Hc : pclose P b <> [] /\ (hd " " (pclose P b) = ")" \/ hd " " (pclose P b) = "}")).
    { destruct HP as [_ [_ Hc]]. destruct (Hc b) as [-> | ->]; split; try discriminate; auto. }
    destruct Hc as [Hc1 Hc2].
    rewrite app_assoc.
    rewrite (R_app pat rep Hpat (f ++ popen P b f) (sprintg P e ++ pclose P b)).
    2:{ apply Hhard; [destruct f; [congruence | discriminate] | destruct (sprintg P e); [exact Hc1 | discriminate] |].
        rewrite last_app_ne by exact Ho1. rewrite hd_app_ne by (apply sprint_ne; assumption).
        unfold bpair, ceq. rewrite Hh. destruct Ho2 as [-> | ->]; cbn; rewrite ?orb_true_r; reflexivity. }
    rewrite (R_app pat rep Hpat (sprintg P e) (pclose P b)).
    2:{ apply Hhard; [apply sprint_ne; assumption | exact Hc1 |]. unfold bpair, ceq. rewrite Ll. destruct Hc2 as [-> | ->]; cbn; rewrite ?orb_true_r; reflexivity. }
    rewrite IH, (Hcall b f Hf), Hclose, <- app_assoc. reflexivity.
Qed.
End Pass.

(* ------------------------------------------------------------------ the passes, one by one *)
Lemma R_short pat rep s : List.length s < List.length pat -> R pat rep s = s.
Proof.
  intros H. apply R_id. clear rep. revert H. induction s as [|c s IH]; intros H.
  - destruct pat; [cbn in H; lia | reflexivity].
  - cbn [contains]. rewrite IH by (cbn [List.length] in H; lia). rewrite orb_false_r.
    destruct (prefix pat (c :: s)) eqn:E; [|reflexivity]. apply prefix_length in E. lia.
Qed.

Lemma R_nochar pat rep s c : In c pat -> ~ In c s -> R pat rep s = s.
Proof.
  intros Hc Hs. apply R_id. destruct (contains pat s) eqn:E; [|reflexivity]. exfalso. apply Hs.
  clear Hs. revert E. induction s as [|x s IH]; intros E.
  - cbn in E. rewrite orb_false_r in E. destruct pat; [destruct Hc | discriminate E].
  - cbn [contains] in E. apply orb_prop in E. destruct E as [E|E]; [|right; apply IH; exact E].
    clear IH. revert Hc E. generalize (x :: s). induction pat as [|y p IHp]; intros l Hc E; [destruct Hc|].
    destruct l as [|z l]; [discriminate E|]. cbn [prefix] in E. apply andb_prop in E. destruct E as [E1 E2]. apply Ascii.eqb_eq in E1. subst z.
    destruct Hc as [<-|Hc]; [left; reflexivity | right; apply (IHp l Hc E2)].
Qed.

Lemma nm_not c s : forallb nm s = true -> nm c = false -> ~ In c s.
Proof. intros Hs Hc Hin. rewrite forallb_forall in Hs. rewrite (Hs c Hin) in Hc. discriminate. Qed.

(* a one-character pattern never straddles *)
Lemma no_straddle1 c a b : no_straddle [c] a b.
Proof.
  intros a1 a2 _ Hne H. destruct a2 as [|x a2]; [congruence|]. cbn [app prefix] in H |- *. apply andb_prop in H. destruct H as [H _]. rewrite H. reflexivity.
Qed.

(* 1. "{" -> "@(" *)
Definition P1 : pp := {| pneg := s_ "(-"; popen := fun b _ => if b then s_ "@(" else s_ "("; pclose := fun b => if b then s_ "}" else s_ ")" |}.
Lemma ppok0 : ppok P0. Proof. repeat split; intros; try (destruct b); auto. Qed.
Lemma ppok1 : ppok P1. Proof. repeat split; intros; try (destruct b); auto. Qed.

Lemma pass_lbrace x : swf x -> R (s_ "{") (s_ "@(") (sprintg P0 x) = sprintg P1 x.
Proof.
  apply (pass_sprint (s_ "{") (s_ "@(") ltac:(discriminate) P0 P1 ppok0).
  - intros a b _ _ _. apply no_straddle1.
  - intros s Hs. apply (R_nochar _ _ s "{"); [left; reflexivity | apply nm_not; [exact Hs | reflexivity]].
  - intros c Hc. apply (R_nochar _ _ [c] "{"); [left; reflexivity|]. intros [E|[]]. subst c. discriminate Hc.
  - reflexivity.
  - reflexivity.
  - reflexivity.
  - intros b f Hf. rewrite (R_app (s_ "{") (s_ "@(") ltac:(discriminate) f (popen P0 b f) (no_straddle1 _ _ _)).
    destruct (key_facts f Hf) as [_ [Hnm _]].
    rewrite (R_nochar _ _ f "{"); [|left; reflexivity | apply nm_not; [exact Hnm | reflexivity]]. destruct b; reflexivity.
  - intros b. destruct b; reflexivity.
Qed.

(* 2. "}" -> ")" *)
Definition P2 : pp := {| pneg := s_ "(-"; popen := fun b _ => if b then s_ "@(" else s_ "("; pclose := fun _ => s_ ")" |}.
Lemma ppok2 : ppok P2. Proof. repeat split; intros; try (destruct b); auto. Qed.
Lemma pass_rbrace x : swf x -> R (s_ "}") (s_ ")") (sprintg P1 x) = sprintg P2 x.
Proof.
  apply (pass_sprint (s_ "}") (s_ ")") ltac:(discriminate) P1 P2 ppok1).
  - intros a b _ _ _. apply no_straddle1.
  - intros s Hs. apply (R_nochar _ _ s "}"); [left; reflexivity | apply nm_not; [exact Hs | reflexivity]].
  - intros c Hc. apply (R_nochar _ _ [c] "}"); [left; reflexivity|]. intros [E|[]]. subst c. discriminate Hc.
  - reflexivity.
  - reflexivity.
  - reflexivity.
  - intros b f Hf. rewrite (R_app (s_ "}") (s_ ")") ltac:(discriminate) f (popen P1 b f) (no_straddle1 _ _ _)).
    destruct (key_facts f Hf) as [_ [Hnm _]].
    rewrite (R_nochar _ _ f "}"); [|left; reflexivity | apply nm_not; [exact Hnm | reflexivity]]. destruct b; reflexivity.
  - intros b. destruct b; reflexivity.
Qed.

(* 3. "(-" -> "(0-" *)
Definition P3 : pp := {| pneg := s_ "(0-"; popen := fun b _ => if b then s_ "@(" else s_ "("; pclose := fun _ => s_ ")" |}.
Lemma ppok3 : ppok P3. Proof. repeat split; intros; try (destruct b); auto. Qed.

Lemma bpair_not_neg c1 c2 : bpair c1 c2 = true -> c1 <> "(" \/ c2 <> "-".
Proof.
  intros H. destruct (Ascii.eqb_spec c1 "(") as [->|N]; [|left; exact N]. right. intros ->. discriminate H.
Qed.

Lemma pass_neg x : swf x -> R (s_ "(-") (s_ "(0-") (sprintg P2 x) = sprintg P3 x.
Proof.
  apply (pass_sprint (s_ "(-") (s_ "(0-") ltac:(discriminate) P2 P3 ppok2).
  - intros a b Ha Hb Hp. destruct (bpair_not_neg _ _ Hp) as [N|N].
    + apply no_straddle_last. right. intros [E|[]]. apply N. symmetry. exact E.
    + intros a1 a2 Ea Hne H. destruct (prefix_split _ a2 b H) as [Hq|[v [Hv [Ep Hvb]]]]; [exact Hq|]. exfalso.
      destruct a2 as [|y a2]; [congruence|]. destruct a2 as [|y2 a2].
      * cbn [app] in Ep. injection Ep as _ Ev. subst v. destruct (hd_prefix _ b Hv Hvb) as [_ Hh]. apply N. rewrite Hh. reflexivity.
      * cbn [app] in Ep. injection Ep as _ _ Ev. destruct a2; [destruct v; [congruence | discriminate Ev] | discriminate Ev].
  - intros s Hs. apply (R_nochar _ _ s "("); [left; reflexivity | apply nm_not; [exact Hs | reflexivity]].
  - intros c Hc. apply R_short. cbn. lia.
  - reflexivity.
  - reflexivity.
  - reflexivity.
  - intros b f Hf. destruct (key_facts f Hf) as [Hne [Hnm _]].
    rewrite (R_app (s_ "(-") (s_ "(0-") ltac:(discriminate) f (popen P2 b f)).
    + rewrite (R_nochar _ _ f "("); [|left; reflexivity | apply nm_not; [exact Hnm | reflexivity]]. destruct b; reflexivity.
    + apply no_straddle_last. right. intros [E|[]]. pose proof (forallb_last nm f " " Hne Hnm) as Hl. rewrite <- E in Hl. discriminate Hl.
  - intros b. reflexivity.
Qed.

(* 4. mark_functions: for each key k in turn, "k(" -> "k@(" *)
Definition suffixb (k f : str) : bool := prefix (rev k) (rev f).
Definition Pm (ks : list str) : pp :=
  {| pneg := s_ "(0-"; popen := fun b f => if b then s_ "@(" else if existsb (fun k => suffixb k f) ks then s_ "@(" else s_ "("; pclose := fun _ => s_ ")" |}.
Lemma ppokm ks : ppok (Pm ks).
Proof. repeat split; intros; cbn [Pm popen pclose pneg]; try (destruct b); try (destruct (existsb _ ks)); auto. Qed.

Definition kpat (k : str) : str := k ++ s_ "(".
Definition krep (k : str) : str := k ++ s_ "@(".

Lemma key_tables : forallb (fun k => forallb (fun f =>
    str_eqb (R (kpat k) (krep k) (f ++ s_ "@(")) (f ++ s_ "@(")
    && str_eqb (R (kpat k) (krep k) (f ++ s_ "(")) (if suffixb k f then f ++ s_ "@(" else f ++ s_ "(")) fun_keys
    && str_eqb (R (kpat k) (krep k) (s_ "(0-")) (s_ "(0-")) fun_keys = true.
Proof. vm_compute. reflexivity. Qed.

Lemma str_eqb_true' a b : str_eqb a b = true -> a = b.
Proof. unfold str_eqb. destruct (list_eq_dec ascii_dec a b); [auto | discriminate]. Qed.

Lemma key_table k f : In k fun_keys -> In f fun_keys ->
  R (kpat k) (krep k) (f ++ s_ "@(") = f ++ s_ "@(" /\
  R (kpat k) (krep k) (f ++ s_ "(") = (if suffixb k f then f ++ s_ "@(" else f ++ s_ "(") /\
  R (kpat k) (krep k) (s_ "(0-") = s_ "(0-".
Proof.
  intros Hk Hf. pose proof key_tables as T. rewrite forallb_forall in T. specialize (T k Hk). apply andb_prop in T. destruct T as [T T3].
  rewrite forallb_forall in T. specialize (T f Hf). apply andb_prop in T. destruct T as [T1 T2].
  repeat split; apply str_eqb_true'; assumption.
Qed.

Lemma kpat_ne k : kpat k <> [].
Proof. unfold kpat. destruct k; discriminate. Qed.
Lemma removelast_kpat k : removelast (kpat k) = k.
Proof. unfold kpat. rewrite removelast_app by discriminate. cbn. apply app_nil_r. Qed.

Lemma special_not_nm c : special c = true -> nm c = false.
Proof. intros H. unfold nm. rewrite H. reflexivity. Qed.

Lemma pass_key ks k x : In k fun_keys -> swf x ->
  R (kpat k) (krep k) (sprintg (Pm ks) x) = sprintg (Pm (ks ++ [k])) x.
Proof.
  intros Hk. destruct (key_facts k Hk) as [Hkne [Hknm _]].
  apply (pass_sprint (kpat k) (krep k) (kpat_ne k) (Pm ks) (Pm (ks ++ [k])) (ppokm ks)).
  - intros a b Ha Hb Hp. unfold bpair in Hp.
    assert (Hnk : forall c, nm c = false -> ~ In c k) by (intros c Hc; apply nm_not; assumption).
    apply orb_prop in Hp. destruct Hp as [Hp|Hp]; [apply orb_prop in Hp; destruct Hp as [Hp|Hp]; [apply orb_prop in Hp; destruct Hp as [Hp|Hp]|]|];
      apply andb_prop in Hp; destruct Hp as [H1 H2].
    + (* ... name | operator *)
      apply no_straddle_hd. right. unfold kpat. intros Hin. apply in_app_or in Hin. destruct Hin as [Hin|[E|[]]].
      * apply (Hnk (hd " " b)); [|exact Hin]. apply special_not_nm. unfold aop in H2. cbn [existsb] in H2.
        repeat (apply orb_prop in H2; destruct H2 as [H2|H2]; [apply Ascii.eqb_eq in H2; rewrite H2; reflexivity|]). discriminate H2.
      * rewrite <- E in H2. discriminate H2.
    + (* operator | ... *)
      apply no_straddle_last. right. rewrite removelast_kpat. apply Hnk. apply special_not_nm. unfold aop in H1. cbn [existsb] in H1.
      repeat (apply orb_prop in H1; destruct H1 as [H1|H1]; [apply Ascii.eqb_eq in H1; rewrite H1; reflexivity|]). discriminate H1.
    + (* opening parenthesis | ... *)
      apply no_straddle_last. right. rewrite removelast_kpat. apply Hnk. unfold ceq in H1. apply orb_prop in H1.
      destruct H1 as [H1|H1]; apply Ascii.eqb_eq in H1; rewrite H1; reflexivity.
    + (* ... | closing parenthesis *)
      apply no_straddle_hd. right. unfold kpat. intros Hin. apply in_app_or in Hin. unfold ceq in H2. apply orb_prop in H2.
      destruct Hin as [Hin|[E|[]]].
      * apply (Hnk (hd " " b)); [|exact Hin]. destruct H2 as [H2|H2]; apply Ascii.eqb_eq in H2; rewrite H2; reflexivity.
      * rewrite <- E in H2. destruct H2; discriminate.
  - intros s Hs. apply (R_nochar _ _ s "("); [unfold kpat; apply in_or_app; right; left; reflexivity | apply nm_not; [exact Hs | reflexivity]].
  - intros c _. apply R_short. unfold kpat. rewrite app_length. cbn. destruct k; [congruence | cbn; lia].
  - apply R_short. unfold kpat. rewrite app_length. cbn. destruct k; [congruence | cbn; lia].
  - apply R_short. unfold kpat. rewrite app_length. cbn. destruct k; [congruence | cbn; lia].
  - cbn [Pm pneg]. apply (key_table k k Hk Hk).
  - intros b f Hf. destruct (key_table k f Hk Hf) as [T1 [T2 _]]. cbn [Pm popen].
    destruct b; [exact T1|]. rewrite existsb_app. cbn [existsb]. rewrite orb_false_r.
    destruct (existsb (fun k0 => suffixb k0 f) ks); [exact T1|]. cbn [orb]. rewrite T2. destruct (suffixb k f); reflexivity.
  - intros b. cbn [Pm pclose]. apply R_short. unfold kpat. rewrite app_length. cbn. destruct k; [congruence | cbn; lia].
Qed.

Lemma mark_fold x : swf x -> forall done todo, (forall k, In k todo -> In k fun_keys) ->
  fold_left (fun e k => replace (k ++ s_ "(") (k ++ s_ "@(") e) todo (sprintg (Pm done) x) = sprintg (Pm (done ++ todo)) x.
Proof.
  intros Hx done todo. revert done. induction todo as [|k todo IH]; intros done Hin; [rewrite app_nil_r; reflexivity|].
  cbn [fold_left]. change (replace (k ++ s_ "(") (k ++ s_ "@(") (sprintg (Pm done) x)) with (R (kpat k) (krep k) (sprintg (Pm done) x)).
  rewrite (pass_key done k x (Hin k (or_introl eq_refl)) Hx). rewrite IH by (intros k' Hk'; apply Hin; right; exact Hk').
  rewrite <- app_assoc. reflexivity.
Qed.

Lemma suffixb_refl f : suffixb f f = true.
Proof. unfold suffixb. induction (rev f) as [|c r IH]; [reflexivity|]. cbn. rewrite Ascii.eqb_refl, IH. reflexivity. Qed.

Lemma sprint_marked x : swf x -> sprintg (Pm fun_keys) x = sprintg PF x.
Proof.
  induction x as [s|op l IHl r IHr|e IH|e IH|b f e IH]; intros Hx; cbn [sprintg].
  - reflexivity.
  - destruct Hx as [_ [Hl Hr]]. rewrite (IHl Hl), (IHr Hr). reflexivity.
  - rewrite (IH Hx). reflexivity.
  - rewrite (IH Hx). reflexivity.
  - destruct Hx as [Hf He]. rewrite (IH He). cbn [Pm PF popen pclose]. destruct b; [reflexivity|].
    assert (E : existsb (fun k => suffixb k f) fun_keys = true) by (apply existsb_exists; exists f; split; [exact Hf | apply suffixb_refl]).
    rewrite E. reflexivity.
Qed.

Theorem mark_sprint x : swf x -> mark_functions (sprintg P3 x) = print (lower x).
Proof.
  intros Hx. unfold mark_functions. change (sprintg P3 x) with (sprintg (Pm []) x).
  rewrite (mark_fold x Hx [] fun_keys (fun k H => H)). cbn [app]. rewrite (sprint_marked x Hx). apply sprint_final.
Qed.

(* ------------------------------------------------------------------ the passes that find nothing to rewrite *)
Lemma no2 P x p1 p2 : ppok P -> swf x -> adjb p1 p2 = false -> contains [p1; p2] (sprintg P x) = false.
Proof.
  intros HP Hx Ha. destruct (contains [p1; p2] (sprintg P x)) eqn:E; [|reflexivity].
  rewrite (contains2_chain p1 p2 _ (chain_sprint P x HP Hx) E) in Ha. discriminate.
Qed.
Lemma R2_id P x p1 p2 rep : ppok P -> swf x -> adjb p1 p2 = false -> replace [p1; p2] rep (sprintg P x) = sprintg P x.
Proof. intros HP Hx Ha. apply (R_id [p1; p2] rep). apply no2; assumption. Qed.

Lemma contains_drop pre q : forall s, contains (pre ++ q) s = true -> contains q s = true.
Proof. induction pre as [|c pre IH]; intros s H; [exact H|]. apply IH. apply (contains_tail c). exact H. Qed.
Lemma adj_eq_false c : adjb c "=" = false.
Proof. destruct c as [[|] [|] [|] [|] [|] [|] [|] [|]]; reflexivity. Qed.

Lemma reflex_free P x : ppok P -> swf x -> convert_reflex (sprintg P x) = sprintg P x.
Proof.
  intros HP Hx. unfold convert_reflex. set (s := sprintg P x).
  assert (G : forall ops, (forall op, In op ops -> contains (op ++ s_ "=") s = false) ->
    fold_left (fun e op => let pat := op ++ s_ "=" in
      if contains pat e then match split_first pat e with
        | Some (a, rest) => let b := match split_first pat rest with Some (b, _) => b | None => rest end in
                            a ++ s_ "=" ++ a ++ op ++ s_ "(" ++ b ++ s_ ")"
        | None => e end else e) ops s = s).
  { induction ops as [|op ops IH]; intros Hops; [reflexivity|]. cbn [fold_left]. cbv zeta.
    rewrite (Hops op (or_introl eq_refl)). apply IH. intros op' Hin. apply Hops. right. assumption. }
  apply G. intros op Hin. unfold s.
  assert (Hop : op <> []) by (unfold reflex_ops in Hin; cbn [map] in Hin; repeat (destruct Hin as [<-|Hin]; [discriminate|]); destruct Hin).
  destruct (contains (op ++ s_ "=") (sprintg P x)) eqn:E; [|reflexivity]. exfalso.
  assert (Ep : op ++ s_ "=" = removelast op ++ [last op " "; "="]).
  { rewrite (app_removelast_last " " Hop) at 1. rewrite <- app_assoc. reflexivity. }
  rewrite Ep in E. apply contains_drop in E. rewrite (no2 P x _ _ HP Hx (adj_eq_false _)) in E. discriminate.
Qed.

(* ------------------------------------------------------------------ all the string passes of __evaluate on a surface tree *)
Definition preprocess (s : str) : res str :=
  do e <- unary_op (convert_reflex (special_op_char s)); Ok (mark_functions e).

Theorem preprocess_sprint x : swf x -> preprocess (sprint x) = Ok (print (lower x)).
Proof.
  intros Hx. unfold preprocess, sprint, special_op_char.
  change (replace (s_ "**") (s_ "^") (sprintg P0 x)) with (replace ["*"; "*"] (s_ "^") (sprintg P0 x)).
  rewrite (R2_id P0 x "*" "*" _ ppok0 Hx eq_refl).
  change (replace (s_ ".*") (s_ "!") (sprintg P0 x)) with (replace ["."; "*"] (s_ "!") (sprintg P0 x)).
  rewrite (R2_id P0 x "." "*" _ ppok0 Hx eq_refl).
  change (replace (s_ "{") (s_ "@(") (sprintg P0 x)) with (R (s_ "{") (s_ "@(") (sprintg P0 x)). rewrite (pass_lbrace x Hx).
  change (replace (s_ "}") (s_ ")") (sprintg P1 x)) with (R (s_ "}") (s_ ")") (sprintg P1 x)). rewrite (pass_rbrace x Hx).
  change (replace (s_ ">>") (s_ "&") (sprintg P2 x)) with (replace [">"; ">"] (s_ "&") (sprintg P2 x)).
  rewrite (R2_id P2 x ">" ">" _ ppok2 Hx eq_refl).
  change (replace (s_ "<<") (s_ "$") (sprintg P2 x)) with (replace ["<"; "<"] (s_ "$") (sprintg P2 x)).
  rewrite (R2_id P2 x "<" "<" _ ppok2 Hx eq_refl).
  rewrite (reflex_free P2 x ppok2 Hx).
  unfold unary_op. pose proof (sprint_ne P2 x ppok2 Hx) as Hne. pose proof (hd_sprint P2 x ppok2 Hx) as Hh.
  destruct (sprintg P2 x) as [|c r] eqn:Es; [congruence|]. cbn [hd] in Hh.
  assert (Hc : Ascii.eqb c "-" || Ascii.eqb c "+" = false).
  { unfold hd_ok in Hh. destruct (Ascii.eqb_spec c "-") as [->|]; [discriminate Hh|]. destruct (Ascii.eqb_spec c "+") as [->|]; [discriminate Hh | reflexivity]. }
  rewrite Hc. rewrite <- Es.
  change (replace (s_ "=-") (s_ "=0-") (sprintg P2 x)) with (replace ["="; "-"] (s_ "=0-") (sprintg P2 x)).
  rewrite (R2_id P2 x "=" "-" _ ppok2 Hx eq_refl).
  change (replace (s_ "=+") (s_ "=0+") (sprintg P2 x)) with (replace ["="; "+"] (s_ "=0+") (sprintg P2 x)).
  rewrite (R2_id P2 x "=" "+" _ ppok2 Hx eq_refl).
  change (replace (s_ "(-") (s_ "(0-") (sprintg P2 x)) with (R (s_ "(-") (s_ "(0-") (sprintg P2 x)). rewrite (pass_neg x Hx).
  change (replace (s_ "(+") (s_ "(0+") (sprintg P3 x)) with (replace ["("; "+"] (s_ "(0+") (sprintg P3 x)).
  rewrite (R2_id P3 x "(" "+" _ ppok3 Hx eq_refl).
  change (replace (s_ "--") (s_ "+") (sprintg P3 x)) with (replace ["-"; "-"] (s_ "+") (sprintg P3 x)).
  rewrite (R2_id P3 x "-" "-" _ ppok3 Hx eq_refl).
  change (replace (s_ "++") (s_ "+") (sprintg P3 x)) with (replace ["+"; "+"] (s_ "+") (sprintg P3 x)).
  rewrite (R2_id P3 x "+" "+" _ ppok3 Hx eq_refl).
  change (replace (s_ "+-") (s_ "-") (sprintg P3 x)) with (replace ["+"; "-"] (s_ "-") (sprintg P3 x)).
  rewrite (R2_id P3 x "+" "-" _ ppok3 Hx eq_refl).
  change (replace (s_ "-+") (s_ "-") (sprintg P3 x)) with (replace ["-"; "+"] (s_ "-") (sprintg P3 x)).
  rewrite (R2_id P3 x "-" "+" _ ppok3 Hx eq_refl).
  cbn [bind]. rewrite (mark_sprint x Hx). reflexivity.
Qed.
Print Assumptions preprocess_sprint.

