(* C01/C02: Track.operate(str) = __evaluate followed by the removal of every listed name that starts with '#'.
   Without '=' the track is left exactly as it was: same feature names in the same order, same columns, same coordinates. *)
From Coq Require Import List Ascii String Bool Arith ZArith QArith Lia.
Import ListNotations.
From TL Require Import Model.Str Model.Rpn Model.Table Model.Eval Model.Pipeline
  Proofs.Table_inv Proofs.Table_remove Proofs.Rpn_parse Proofs.Rpn_output Proofs.Eval_sem Proofs.Eval_machine Proofs.Eval_run Proofs.Eval_top.

Definition cleanup_step (rt : res track) (n : str) : res track := do t' <- rt; if is_temp n then remove_af t' n else Ok t'.

Lemma str_eqb_eq a b : str_eqb a b = true <-> a = b.
Proof. unfold str_eqb. destruct (list_eq_dec ascii_dec a b); split; auto; discriminate. Qed.

Definition inb (m : str) (l : list str) : bool := existsb (str_eqb m) l.

Lemma in_names_lookup t n : Inv t -> In n (names t) -> exists i, lookup (dico t) n = Some i.
Proof.
  intros HI Hin. assert (H : has_af t n = true) by (apply has_af_names; left; exact Hin).
  unfold has_af in H. destruct (lookup (dico t) n) as [i|] eqn:E; [exists i; reflexivity|].
  pose proof (inv_novirt t HI n Hin). congruence.
Qed.

Lemma filter_all {A} (f : A -> bool) l : (forall a, In a l -> f a = true) -> filter f l = l.
Proof. induction l as [|a l IH]; intros H; [reflexivity|]. cbn [filter]. rewrite (H a (or_introl eq_refl)). f_equal. apply IH. intros b Hb. apply H. right. exact Hb. Qed.

Lemma filter_step n l L : is_temp n = true ->
  filter (fun m => negb (is_temp m && inb m l)) (filter (keep n) L) = filter (fun m => negb (is_temp m && inb m (n :: l))) L.
Proof.
  intros Et. induction L as [|a L IH]; [reflexivity|]. cbn [filter]. unfold keep at 1. cbn [inb existsb].
  destruct (str_eqb a n) eqn:Ea; cbn [negb orb].
  - apply str_eqb_eq in Ea. subst a. rewrite Et. cbn [andb negb]. exact IH.
  - cbn [filter]. fold (inb a l). destruct (negb (is_temp a && inb a l)); [f_equal|]; exact IH.
Qed.

(* removing the temporaries listed in l (all present, no duplicates) *)
Lemma cleanup_gen : forall l t', Inv t' -> NoDup l -> (forall n, In n l -> is_temp n = true -> In n (names t')) ->
  exists t2, fold_left cleanup_step l (Ok t') = Ok t2 /\ Inv t2 /\
    names t2 = filter (fun m => negb (is_temp m && inb m l)) (names t') /\ Table.size t2 = Table.size t' /\
    xs t2 = xs t' /\ ys t2 = ys t' /\ zs t2 = zs t' /\ ts t2 = ts t' /\
    (forall m, is_temp m && inb m l = false -> get_af t2 m = get_af t' m).
Proof.
  induction l as [|n l IH]; intros t' HI Hnd Hin; cbn [fold_left].
  - exists t'. split; [reflexivity|]. split; [exact HI|]. split.
    + symmetry. apply filter_all. intros a _. cbn [inb existsb]. rewrite andb_false_r. reflexivity.
    + repeat split; reflexivity.
  - inversion Hnd as [|? ? Hnotin Hnd']; subst. unfold cleanup_step at 2. cbn [bind].
    destruct (is_temp n) eqn:Et.
    + destruct (in_names_lookup t' n HI (Hin n (or_introl eq_refl) Et)) as [i Hl].
      assert (Hhas : has_af t' n = true) by (unfold has_af; rewrite Hl; reflexivity).
      assert (exists t1, remove_af t' n = Ok t1) as [t1 Hrm] by (unfold remove_af; rewrite Hhas, Hl; cbn [negb]; eexists; reflexivity).
      rewrite Hrm.
      destruct (remove_spec t' n i t1 HI Hl Hrm) as [HI1 [Hn1 [Hs1 [Hx1 [Hy1 [Hz1 [Ht1 [_ Hfr1]]]]]]]].
      destruct (IH t1 HI1 Hnd') as [t2 [E [HI2 [Hn2 [Hs2 [Hx2 [Hy2 [Hz2 [Ht2 Hfr2]]]]]]]]].
      { intros m Hm Htm. rewrite Hn1. apply filter_In. split; [apply Hin; [right; exact Hm | exact Htm]|].
        unfold keep. apply negb_true_iff. apply not_true_is_false. intros Em. apply str_eqb_eq in Em. subst m. contradiction. }
      exists t2. split; [exact E|]. split; [exact HI2|]. split.
      * rewrite Hn2, Hn1. apply filter_step. exact Et.
      * split; [congruence|]. split; [congruence|]. split; [congruence|]. split; [congruence|]. split; [congruence|].
        intros m Hm. cbn [inb existsb] in Hm.
        destruct (str_eqb m n) eqn:Emn.
        -- apply str_eqb_eq in Emn. subst m. rewrite Et in Hm. cbn in Hm. discriminate.
        -- cbn [orb] in Hm. rewrite (Hfr2 m Hm). apply Hfr1. intros ->. assert (str_eqb n n = true) by (apply str_eqb_eq; reflexivity). congruence.
    + destruct (IH t' HI Hnd') as [t2 [E [HI2 [Hn2 [Hs2 [Hx2 [Hy2 [Hz2 [Ht2 Hfr2]]]]]]]]].
      { intros m Hm Htm. apply Hin; [right; exact Hm | exact Htm]. }
      exists t2. split; [exact E|]. split; [exact HI2|]. split.
      * rewrite Hn2. apply filter_ext. intros a. cbn [inb existsb]. destruct (str_eqb a n) eqn:Ea; [|reflexivity].
        apply str_eqb_eq in Ea. subst a. rewrite Et. reflexivity.
      * split; [exact Hs2|]. split; [exact Hx2|]. split; [exact Hy2|]. split; [exact Hz2|]. split; [exact Ht2|].
        intros m Hm. apply Hfr2. cbn [inb existsb] in Hm. destruct (str_eqb m n) eqn:Emn; [|exact Hm].
        apply str_eqb_eq in Emn. subst m. rewrite Et. reflexivity.
Qed.

Lemma temp_is_temp j : is_temp (temp_name j) = true.
Proof. reflexivity. Qed.

(* operate(expr) without '=': value returned, track exactly as before *)
Theorem operate_correct e t d :
  Inv t -> coords_ok t -> Table.size t <> 0%nat -> fresh_from t 0 -> has_af t out_name = false ->
  (forall m, In m (names t) -> is_temp m = false) ->
  wf e -> wfe t e -> (0 < minclass e)%nat -> clean (print e) = true -> sem t e = Ok d ->
  exists t3, operate_str t (print e) = Ok (t3, Some (dcol (Table.size t) d))
    /\ Inv t3 /\ names t3 = names t
    /\ (forall m, has_af t m = true -> get_af t3 m = get_af t m)
    /\ xs t3 = xs t /\ ys t3 = ys t /\ zs t3 = zs t /\ ts t3 = ts t.
Proof.
  intros HI Hco Hs Hfresh Hout Hnt Hwf Hwfe Hmin Hclean Hsem.
  destruct (evaluate_correct e t d HI Hco Hs Hfresh Hout Hwf Hwfe Hmin Hclean Hsem)
    as [t2 [Hev [Hold [Hx [Hy [Hz [Ht [HI2 [tmps [Hn2 Htm]]]]]]]]]].
  unfold operate_str. rewrite Hev. cbn [bind fst snd].
  change (fold_left (fun rt n => do t' <- rt; if is_temp n then remove_af t' n else Ok t') (names t2) (Ok t2))
    with (fold_left cleanup_step (names t2) (Ok t2)).
  destruct (cleanup_gen (names t2) t2 HI2 (inv_nodup t2 HI2) (fun n H _ => H))
    as [t3 [E [HI3 [Hn3 [Hs3 [Hx3 [Hy3 [Hz3 [Ht3 Hfr3]]]]]]]]].
  rewrite E. cbn [bind]. exists t3. split; [reflexivity|]. split; [exact HI3|]. split.
  - rewrite Hn3. set (P := fun m => negb (is_temp m && inb m (names t2))). rewrite Hn2 at 1. rewrite filter_app.
    assert (A : filter P (names t) = names t).
    { apply filter_all. intros a Ha. unfold P. rewrite (Hnt a Ha). reflexivity. }
    assert (B : filter P tmps = []).
    { assert (G : forall l, (forall m, In m l -> In m tmps) -> filter P l = []).
      { induction l as [|a l IHl]; intros Hl; [reflexivity|]. cbn [filter]. unfold P at 1.
        destruct (Htm a (Hl a (or_introl eq_refl))) as [j ->]. rewrite temp_is_temp. cbn [andb].
        assert (I : inb (temp_name j) (names t2) = true).
        { unfold inb. apply existsb_exists. exists (temp_name j). split; [rewrite Hn2; apply in_or_app; right; apply Hl; left; reflexivity | apply str_eqb_eq; reflexivity]. }
        rewrite I. cbn [negb]. apply IHl. intros m Hm. apply Hl. right. exact Hm. }
      apply G. auto. }
    transitivity (names t ++ []); [f_equal; [exact A | exact B] | apply app_nil_r].
  - split.
    + intros m Hm. rewrite Hfr3; [apply Hold; exact Hm|].
      destruct (is_temp m) eqn:Etm; [|reflexivity]. cbn [andb].
      (* a temporary name readable in t is impossible: listed names are not temporaries, virtual names do not start with '#' *)
      exfalso. apply has_af_names in Hm. destruct Hm as [Hm|Hm]; [rewrite (Hnt _ Hm) in Etm; discriminate|].
      unfold is_virtual, virtuals in Hm. apply existsb_exists in Hm. destruct Hm as [v [Hv Ev]]. apply str_eqb_eq in Ev. subst v.
      cbn in Hv. repeat (destruct Hv as [<-|Hv]; [discriminate Etm|]). destruct Hv.
    + repeat split; congruence.
Qed.
Print Assumptions operate_correct.

(* in terms of the abstract map of C01: an expression without '=' changes nothing *)
From TL Require Import Proofs.Table_history.
Corollary operate_abs e t d :
  Inv t -> coords_ok t -> Table.size t <> 0%nat -> fresh_from t 0 -> has_af t out_name = false ->
  (forall m, In m (names t) -> is_temp m = false) ->
  wf e -> wfe t e -> (0 < minclass e)%nat -> clean (print e) = true -> sem t e = Ok d ->
  exists t3 r, operate_str t (print e) = Ok (t3, r) /\ Inv t3 /\ abs t3 = abs t /\
               xs t3 = xs t /\ ys t3 = ys t /\ zs t3 = zs t /\ ts t3 = ts t.
Proof.
  intros HI Hco Hs Hf Ho Hnt Hwf Hwfe Hm Hc Hsem.
  destruct (operate_correct e t d HI Hco Hs Hf Ho Hnt Hwf Hwfe Hm Hc Hsem) as [t3 [E [HI3 [Hn [Hg [Hx [Hy [Hz Ht]]]]]]]].
  exists t3, (Some (dcol (Table.size t) d)). split; [exact E|]. split; [exact HI3|]. split; [|auto].
  unfold abs. rewrite Hn. apply map_ext_in. intros m Hm'. unfold col_of. rewrite Hg; [reflexivity|].
  apply has_af_names. left. exact Hm'.
Qed.
Print Assumptions operate_abs.
