(* C20: proj_polyligne at the real instance is the abstract scan of PolyMin over the per-segment results, hence
   the nearest point over all points of all non-skipped, non-vertical segments *)
From Coq Require Import List Arith Reals Lra Lia Bool.
Import ListNotations.
From TL Require Import Model.Num Model.Geom Proofs.GeomAlg Proofs.GeomProj Proofs.Geom_bridge Proofs.PolyMin.
Open Scope R_scope.

Notation Pt := (R * R)%type.
Definition skipped (eps : R) (p1 p2 : Pt) : bool := Rltb (Rabs (fst p1 - fst p2) + Rabs (snd p1 - snd p2)) eps.
Definition seg_of (p1 p2 : Pt) : seg := {| sx1 := fst p1; sy1 := snd p1; sx2 := fst p2; sy2 := snd p2 |}.
Definition cand_of (eps x y : R) (p1 p2 : Pt) : cand Pt :=
  if skipped eps p1 p2 then None
  else let '(d, xp, yp) := Geom.proj_segment RNum (seg_of p1 p2) x y in Some (d, (xp, yp)).
Fixpoint cands (eps x y : R) (pts : list Pt) : list (cand Pt) :=
  match pts with p1 :: ((p2 :: _) as r) => cand_of eps x y p1 p2 :: cands eps x y r | _ => [] end.

Definition pack (a : option (R * R * R * nat)) : acc Pt := match a with None => None | Some (d, xp, yp, i) => Some (d, (xp, yp), i) end.

Lemma Rltb_dec x y : Rltb x y = if Rlt_dec x y then true else false. Proof. reflexivity. Qed.

Lemma step_bridge eps x y i a p1 p2 :
  pack (poly_step RNum eps x y i a p1 p2) = step Pt i (pack a) (cand_of eps x y p1 p2).
Proof.
  unfold poly_step, cand_of, skipped. destruct p1 as [x1 y1], p2 as [x2 y2]. cbn [fst snd].
  cbn [RNum ltb add sub abs]. destruct (Rltb (Rabs (x1 - x2) + Rabs (y1 - y2)) eps); [reflexivity|].
  unfold seg_of. cbn [fst snd].
  destruct (Geom.proj_segment RNum {| sx1 := x1; sy1 := y1; sx2 := x2; sy2 := y2 |} x y) as [[d xp] yp].
  destruct a as [[[[dm xm] ym] im]|]; cbn [pack step]; [|reflexivity].
  rewrite Rltb_dec. destruct (Rlt_dec d dm); reflexivity.
Qed.

Lemma scan_bridge eps x y : forall pts i a,
  pack (poly_scan RNum eps x y i a pts) = scan Pt i (pack a) (cands eps x y pts).
Proof.
  induction pts as [|p1 r IH]; intros i a; [reflexivity|].
  destruct r as [|p2 r']; [reflexivity|].
  change (poly_scan RNum eps x y i a (p1 :: p2 :: r')) with (poly_scan RNum eps x y (S i) (poly_step RNum eps x y i a p1 p2) (p2 :: r')).
  change (cands eps x y (p1 :: p2 :: r')) with (cand_of eps x y p1 p2 :: cands eps x y (p2 :: r')).
  cbn [scan]. rewrite IH, step_bridge. reflexivity.
Qed.

Lemma cands_nth eps x y : forall pts j, (S j < length pts)%nat ->
  nth j (cands eps x y pts) None = cand_of eps x y (nth j pts (0, 0)) (nth (S j) pts (0, 0)).
Proof.
  induction pts as [|p1 r IH]; intros j Hj; [cbn in Hj; lia|].
  destruct r as [|p2 r']; [cbn in Hj; lia|].
  change (cands eps x y (p1 :: p2 :: r')) with (cand_of eps x y p1 p2 :: cands eps x y (p2 :: r')).
  destruct j as [|j]; [reflexivity|]. cbn [nth]. apply (IH j). cbn in Hj |- *. lia.
Qed.
Lemma cands_length eps x y : forall pts, length (cands eps x y pts) = (length pts - 1)%nat.
Proof.
  induction pts as [|p1 r IH]; [reflexivity|]. destruct r as [|p2 r']; [reflexivity|].
  change (cands eps x y (p1 :: p2 :: r')) with (cand_of eps x y p1 p2 :: cands eps x y (p2 :: r')).
  cbn [length] in *. rewrite IH. lia.
Qed.

(* C20 on a polyline: the returned index carries the returned point, the returned distance is the distance to it and
   is minimal over every point of every non-skipped segment (all of them non-vertical) *)
Theorem proj_polyligne_nearest eps pts x y :
  (forall j, (S j < length pts)%nat -> skipped eps (nth j pts (0,0)) (nth (S j) pts (0,0)) = false ->
             fst (nth j pts (0,0)) <> fst (nth (S j) pts (0,0))) ->
  match proj_polyligne RNum eps pts x y with
  | None => forall j, (S j < length pts)%nat -> skipped eps (nth j pts (0,0)) (nth (S j) pts (0,0)) = true
  | Some (d, xp, yp, i) =>
      (S i < length pts)%nat /\ skipped eps (nth i pts (0,0)) (nth (S i) pts (0,0)) = false /\
      (let A := nth i pts (0,0) in let B := nth (S i) pts (0,0) in
       exists mu, 0 <= mu <= 1 /\ (xp, yp) = on_seg (fst A) (snd A) (fst B) (snd B) mu) /\
      d = dist x y xp yp /\
      forall j mu, (S j < length pts)%nat -> skipped eps (nth j pts (0,0)) (nth (S j) pts (0,0)) = false -> 0 <= mu <= 1 ->
        let A := nth j pts (0,0) in let B := nth (S j) pts (0,0) in
        d <= dist x y (fst (on_seg (fst A) (snd A) (fst B) (snd B) mu)) (snd (on_seg (fst A) (snd A) (fst B) (snd B) mu))
  end.
Proof.
  intros Hnv. unfold proj_polyligne.
  pose proof (scan_bridge eps x y pts 0%nat None) as Hb. cbn [pack] in Hb.
  pose proof (proj_poly_spec Pt (cands eps x y pts)) as Hs. unfold proj_poly in Hs. rewrite <- Hb in Hs.
  destruct (poly_scan RNum eps x y 0 None pts) as [[[[d xp] yp] i]|]; cbn [pack] in Hs.
  - destruct Hs as [Hi [Hn Hall]]. rewrite cands_length in Hi.
    assert (Hi' : (S i < length pts)%nat) by (clear - Hi; lia).
    rewrite (cands_nth eps x y pts i Hi') in Hn. unfold cand_of in Hn.
    destruct (skipped eps (nth i pts (0, 0)) (nth (S i) pts (0, 0))) eqn:Es; [discriminate|].
    pose proof (proj_segment_generic_nearest (fst (nth i pts (0,0))) (snd (nth i pts (0,0))) (fst (nth (S i) pts (0,0))) (snd (nth (S i) pts (0,0))) x y (Hnv i Hi' Es)) as Hseg.
    unfold seg_of in Hn.
    destruct (Geom.proj_segment RNum _ x y) as [[d0 xp0] yp0] eqn:Ep in Hn.
    rewrite Ep in Hseg. injection Hn as -> -> ->. destruct Hseg as [Hon [Hd Hmin]].
    split; [exact Hi'|]. split; [reflexivity|]. split; [exact Hon|]. split; [exact Hd|].
    intros j mu Hj Hsk Hmu. cbv zeta.
    pose proof (proj_segment_generic_nearest (fst (nth j pts (0,0))) (snd (nth j pts (0,0))) (fst (nth (S j) pts (0,0))) (snd (nth (S j) pts (0,0))) x y (Hnv j Hj Hsk)) as Hj2.
    destruct (Geom.proj_segment RNum {| sx1 := fst (nth j pts (0, 0)); sy1 := snd (nth j pts (0, 0)); sx2 := fst (nth (S j) pts (0, 0)); sy2 := snd (nth (S j) pts (0, 0)) |} x y) as [[dj xj] yj] eqn:Ej.
    destruct Hj2 as [_ [_ Hminj]].
    assert (Hle : d <= dj).
    { apply (Hall j dj (xj, yj)); [rewrite cands_length; lia|]. rewrite (cands_nth eps x y pts j Hj). unfold cand_of, seg_of. rewrite Hsk, Ej. reflexivity. }
    specialize (Hminj mu Hmu). lra.
  - intros j Hj. specialize (Hs j). rewrite cands_length in Hs. specialize (Hs ltac:(lia)).
    rewrite (cands_nth eps x y pts j Hj) in Hs. unfold cand_of in Hs.
    destruct (skipped eps (nth j pts (0, 0)) (nth (S j) pts (0, 0))); [reflexivity|].
    destruct (Geom.proj_segment RNum _ x y) as [[? ?] ?]. discriminate.
Qed.
Print Assumptions proj_polyligne_nearest.
