(* C15: a kernel's sliding window has odd length, is symmetric for an even kernel function, and sums to 1;
   boundary copy of the filter *)
From Coq Require Import List Arith ZArith QArith Bool Lia Lqa.
Import ListNotations.
From TL Require Import Model.Filter.
Open Scope Q_scope.

Lemma window_length f m : length (sliding_window f m) = (2 * m + 1)%nat.
Proof. unfold sliding_window, window_samples. rewrite !map_length, seq_length. reflexivity. Qed.

Lemma window_odd f m : Nat.odd (length (sliding_window f m)) = true.
Proof. rewrite window_length. rewrite Nat.add_1_r, Nat.odd_succ. apply Nat.even_spec. exists m. reflexivity. Qed.

Lemma qsum_map_div l c : ~ c == 0 -> qsum (map (fun x => x / c) l) == qsum l / c.
Proof.
  intros Hc. induction l as [|a l IH]; cbn [map qsum fold_right].
  - unfold Qdiv. ring.
  - fold (qsum (map (fun x => x / c) l)). fold (qsum l). rewrite IH. field. exact Hc.
Qed.

Theorem window_sum f m : ~ qsum (window_samples f m) == 0 -> qsum (sliding_window f m) == 1.
Proof. intros H. unfold sliding_window. rewrite qsum_map_div by exact H. field. exact H. Qed.

Lemma nth_map_in {A B} (g : A -> B) l i d d' : (i < length l)%nat -> nth i (map g l) d = g (nth i l d').
Proof. revert i. induction l as [|a l IH]; intros [|i] H; cbn in *; try lia; [reflexivity | apply IH; lia]. Qed.

Lemma nth_samples f m i : (i < 2 * m + 1)%nat ->
  nth i (window_samples f m) 0 = f (Z.of_nat m - Z.of_nat i)%Z.
Proof.
  intros H. unfold window_samples.
  rewrite nth_map_in with (d' := 0%nat) by (rewrite seq_length; exact H).
  rewrite seq_nth by exact H. reflexivity.
Qed.

(* symmetric: entry i equals entry 2m - i when the kernel function is even *)
Theorem window_sym f m i : (forall z, f (- z)%Z = f z) -> (i < 2 * m + 1)%nat ->
  nth i (sliding_window f m) 0 == nth (2 * m - i) (sliding_window f m) 0.
Proof.
  intros Hev Hi. unfold sliding_window.
  set (c := qsum (window_samples f m)).
  assert (E : forall k, (k < 2 * m + 1)%nat -> nth k (map (fun x => x / c) (window_samples f m)) 0 == nth k (window_samples f m) 0 / c).
  { intros k Hk. rewrite nth_map_in with (d' := 0) by (unfold window_samples; rewrite map_length, seq_length; exact Hk).
    reflexivity. }
  rewrite !E by lia. rewrite !nth_samples by lia.
  replace (Z.of_nat m - Z.of_nat (2 * m - i))%Z with (- (Z.of_nat m - Z.of_nat i))%Z by lia.
  rewrite Hev. reflexivity.
Qed.

(* boundary copy: when the kernel does not filter boundaries the first and last half-window values are the input's *)
Theorem boundary_copy x k i : (i < length k / 2)%nat \/ (length x - length k / 2 <= i)%nat ->
  filter_out false x k i = match nth i x None with Some v => Some (Val v) | None => None end.
Proof.
  intros H. unfold filter_out. cbn [negb andb].
  assert (E : ((i <? length k / 2)%nat || (length x - length k / 2 <=? i)%nat) = true).
  { apply orb_true_iff. destruct H as [H|H]; [left; apply Nat.ltb_lt; exact H | right; apply Nat.leb_le; exact H]. }
  rewrite E. reflexivity.
Qed.

(* inside, or when boundaries are filtered, the output is the renormalised window mean *)
Theorem interior_is_filter b x k i :
  b = true \/ ((length k / 2 <= i)%nat /\ (i < length x - length k / 2)%nat) ->
  filter_out b x k i = Some (filter_at x k i).
Proof.
  intros H. unfold filter_out. destruct H as [->|[H1 H2]]; [reflexivity|].
  assert (E : ((i <? length k / 2)%nat || (length x - length k / 2 <=? i)%nat) = false).
  { apply orb_false_iff. split; [apply Nat.ltb_ge; exact H1 | apply Nat.leb_gt; exact H2]. }
  rewrite E, andb_false_r. reflexivity.
Qed.
Print Assumptions window_sum.
Print Assumptions window_sym.
