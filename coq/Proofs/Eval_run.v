From Coq Require Import List Ascii String Bool Arith ZArith QArith Lia.
Import ListNotations.
From TL Require Import Model.Str Model.Rpn Model.Table Model.Eval Model.Pipeline
                       Proofs.Rpn_parse Proofs.Table_inv Proofs.Table_set Proofs.Eval_write
                       Proofs.Eval_sem Proofs.Eval_machine Proofs.Eval_apply.

(* pushing an operand token *)
Lemma run_push s rest t st k : op_token s = false -> run_rpn (s :: rest) t st k = run_rpn rest t (SStr s :: st) k.
Proof.
  intros H. cbn [run_rpn]. destruct s as [|c [|c' r]]; try reflexivity. unfold op_token in H. rewrite H. reflexivity.
Qed.

Lemma run_op c rest t st op1 op2 k : mem c operators = true ->
  run_rpn ([c] :: rest) t (op2 :: op1 :: st) k = do p <- apply_op t op1 op2 c k; run_rpn rest (fst p) (snd p :: st) (S k).
Proof. intros H. cbn [run_rpn]. rewrite H. reflexivity. Qed.

Lemma arith_is_operator c : arith_op c = true -> mem c operators = true.
Proof. intros H. destruct (arith_cases c H) as [->|[->|[->|[->|[->|[->| ->]]]]]]; reflexivity. Qed.

(* well-formedness and denotation are stable under extension by temporaries *)
Lemma wfe_ext t t' k k' e : Ext t t' k k' -> fresh_from t k -> wfe t e -> wfe t' e.
Proof.
  intros HE Hf. induction e as [s|c l IHl r IHr|e IH]; simpl; intros H.
  - destruct H as [[H1 [H2 [H3 H4]]]|[H1 H2]].
    + left. destruct (e_old _ _ _ _ HE s H1) as [Ha _]. auto.
    + right. split; [|assumption]. destruct (has_af t' s) eqn:E; [|reflexivity].
      destruct (e_new _ _ _ _ HE s H1 E) as [j [_ ->]]. exfalso. apply H2. apply temp_not_lit.
  - destruct (Ascii.eqb c "@") eqn:Ec.
    + destruct l as [f|c' l1 l2|l1]; try contradiction. destruct H as [H1 [H2 H3]]. auto.
    + destruct H as [Hc [Hl Hr]]. auto.
  - auto.
Qed.

Lemma sem_ext t t' k k' e : Ext t t' k k' -> fresh_from t k -> wfe t e -> sem t' e = sem t e.
Proof.
  intros HE Hf. induction e as [s|c l IHl r IHr|e IH]; simpl; intros H.
  - destruct H as [[H1 [H2 [H3 H4]]]|[H1 H2]].
    + destruct (e_old _ _ _ _ HE s H1) as [Ha Hb]. rewrite H1, Ha, Hb. reflexivity.
    + rewrite H1. destruct (has_af t' s) eqn:E; [|reflexivity].
      destruct (e_new _ _ _ _ HE s H1 E) as [j [_ ->]]. exfalso. apply H2. apply temp_not_lit.
  - destruct (Ascii.eqb c "@") eqn:Ec.
    + destruct l as [f|c' l1 l2|l1]; try contradiction. destruct H as [H1 [H2 H3]]. rewrite IHr by assumption.
      unfold fun_sem. rewrite (e_size _ _ _ _ HE). reflexivity.
    + destruct H as [Hc [Hl Hr]]. rewrite IHl, IHr by assumption. reflexivity.
  - auto.
Qed.

(* C02, machine part: running the postfix form of an arithmetic expression leaves on the stack an item that
   denotes the expression, creates only temporaries numbered from k, and changes nothing else *)
Theorem run_expr : forall e t k st rest d,
  Inv t -> coords_ok t -> Table.size t <> 0%nat -> fresh_from t k -> wfe t e -> sem t e = Ok d ->
  exists t' it, run_rpn (postfix e ++ rest) t st k = run_rpn rest t' (it :: st) (k + nops e) /\
                Ext t t' k (k + nops e) /\ coords_ok t' /\ irel t' it d.
Proof.
  induction e as [s|c l IHl r IHr|e IH]; intros t k st rest d HI Hco Hs Hf Hwf Hsem.
  - (* operand *)
    cbn [postfix app nops]. rewrite Nat.add_0_r. simpl in Hwf, Hsem.
    destruct Hwf as [[H1 [H2 [H3 H4]]]|[H1 H2]].
    + rewrite run_push by assumption. rewrite H1 in Hsem. destruct (get_af t s) as [col|] eqn:Eg; [|discriminate].
      simpl in Hsem. injection Hsem as <-. exists t, (SStr s). split; [reflexivity|]. split; [apply ext_refl; assumption|].
      split; [assumption|]. exists s. auto.
    + rewrite run_push by (apply lit_not_op; assumption). rewrite H1 in Hsem.
      destruct (parse_lit s) as [q|] eqn:Ep; [|contradiction]. injection Hsem as <-.
      exists t, (SStr s). split; [reflexivity|]. split; [apply ext_refl; assumption|]. split; [assumption|].
      simpl. rewrite H1, Ep. auto.
  - (* function application F@(arg) *)
    cbn [wfe] in Hwf. cbn [sem] in Hsem. destruct (Ascii.eqb c "@") eqn:Ec.
    { apply Ascii.eqb_eq in Ec. subst c. destruct l as [f|c' l1 l2|l1]; try contradiction.
      destruct Hwf as [Hop [Pf Hwr]]. destruct (sem t r) as [dr|] eqn:Er; [|discriminate]. cbn [bind] in Hsem.
      cbn [postfix nops]. rewrite <- !app_assoc. cbn [app]. rewrite run_push by assumption.
      destruct (IHr t k (SStr f :: st) (["@"%char] :: rest) dr HI Hco Hs Hf Hwr Er) as [t2 [it2 [R2 [E2 [C2 I2]]]]].
      set (k2 := (k + nops r)%nat) in *.
      assert (Hf2 : fresh_from t2 k2) by (apply (fresh_ext t t2 k); [assumption | assumption | unfold k2; lia]).
      assert (Hs2 : Table.size t2 <> 0%nat) by (rewrite (e_size _ _ _ _ E2); assumption).
      pose proof (e_inv _ _ _ _ E2) as HI2.
      assert (Hsem2 : fun_sem t2 f dr = Ok d) by (unfold fun_sem in *; rewrite (e_size _ _ _ _ E2); assumption).
      destruct dr as [b|y]; [discriminate|]. destruct I2 as [n2 [-> [H2 [P2 G2]]]].
      destruct (apply_fun t2 k2 HI2 C2 Hs2 Hf2 f n2 y d Pf H2 P2 G2 Hsem2) as [t3 [Ha [E3 [C3 I3]]]].
      exists t3, (SStr (temp_name k2)).
      replace (k + S (0 + nops r))%nat with (S k2) by (unfold k2; lia).
      split; [etransitivity; [exact R2|]; rewrite run_op by reflexivity; rewrite Ha; reflexivity|]. split; [apply (ext_trans t t2 t3 k k2 (S k2)); [unfold k2; lia | lia | assumption | assumption] | split; assumption]. }
    (* binary operator *)
    cbn [postfix nops]. rewrite <- !app_assoc. destruct Hwf as [Hc [Hwl Hwr]].
    fold sem in Hsem. destruct (sem t l) as [dl|] eqn:El; [|discriminate]. simpl in Hsem.
    destruct (sem t r) as [dr|] eqn:Er; [|discriminate]. simpl in Hsem.
    destruct (IHl t k st (postfix r ++ [[c]] ++ rest) dl HI Hco Hs Hf Hwl El) as [t1 [it1 [R1 [E1 [C1 I1]]]]].
    assert (Hf1 : fresh_from t1 (k + nops l)) by (apply (fresh_ext t t1 k); [assumption | assumption | lia]).
    assert (Hs1 : Table.size t1 <> 0%nat) by (rewrite (e_size _ _ _ _ E1); assumption).
    assert (Hwr1 : wfe t1 r) by (apply (wfe_ext t t1 k (k + nops l)); assumption).
    assert (Er1 : sem t1 r = Ok dr) by (rewrite (sem_ext t t1 k (k + nops l)); assumption).
    destruct (IHr t1 (k + nops l)%nat (it1 :: st) ([[c]] ++ rest) dr (e_inv _ _ _ _ E1) C1 Hs1 Hf1 Hwr1 Er1)
      as [t2 [it2 [R2 [E2 [C2 I2]]]]].
    set (k2 := (k + nops l + nops r)%nat) in *.
    assert (Echain : run_rpn (postfix l ++ postfix r ++ [[c]] ++ rest) t st k
                     = do p <- apply_op t2 it1 it2 c k2; run_rpn rest (fst p) (snd p :: st) (S k2)).
    { rewrite R1, R2. cbn [app]. rewrite run_op by (apply arith_is_operator; assumption). reflexivity. }
    assert (Hf2 : fresh_from t2 k2) by (apply (fresh_ext t1 t2 (k + nops l)); [assumption | assumption | unfold k2; lia]).
    assert (Hs2 : Table.size t2 <> 0%nat) by (rewrite (e_size _ _ _ _ E2); assumption).
    assert (I1' : irel t2 it1 dl) by (apply (irel_ext t1 t2 (k + nops l) k2); [assumption | assumption | assumption | destruct it1; auto]).
    assert (E12 : Ext t t2 k k2) by (apply (ext_trans t t1 t2 k (k + nops l) k2); [lia | unfold k2; lia | assumption | assumption]).
    replace (k + S (nops l + nops r))%nat with (S k2) by (unfold k2; lia).
    assert (Hfin : forall t3 it3, apply_op t2 it1 it2 c k2 = Ok (t3, it3) -> Ext t2 t3 k2 (S k2) -> coords_ok t3 -> irel t3 it3 d ->
              exists t' it, run_rpn (postfix l ++ postfix r ++ [[c]] ++ rest) t st k = run_rpn rest t' (it :: st) (S k2) /\
                            Ext t t' k (S k2) /\ coords_ok t' /\ irel t' it d).
    { intros t3 it3 Ha E3 C3 I3. exists t3, it3. rewrite Echain, Ha. simpl. split; [reflexivity|].
      split; [apply (ext_trans t t2 t3 k k2 (S k2)); [unfold k2; lia | lia | assumption | assumption] | split; assumption]. }
    pose proof (e_inv _ _ _ _ E2) as HI2.
    destruct dl as [a|x]; destruct dr as [b|y]; simpl in Hsem.
    + destruct (scalar_op c a b) as [v|] eqn:Eop; [|discriminate]. simpl in Hsem. injection Hsem as <-.
      destruct (apply_ss t2 k2 c it1 it2 a b v Hc I1' I2 Eop) as [Ha Hi].
      apply (Hfin t2 (SNum v) Ha); [apply ext_refl; assumption | assumption | assumption].
    + destruct (binop_saf c a) as [f|] eqn:Eb; [|discriminate]. destruct (mapM f y) as [col|] eqn:Em; [|discriminate].
      simpl in Hsem. injection Hsem as <-. destruct I2 as [n2 [-> [H2 [P2 G2]]]].
      destruct (apply_saf t2 k2 HI2 C2 Hs2 Hf2 c it1 n2 y a f col Hc H2 P2 G2 (irel_scalar t2 it1 a I1') Eb Em) as [t3 [Ha [E3 [C3 I3]]]].
      apply (Hfin t3 _ Ha E3 C3 I3).
    + destruct (binop_afs c b) as [rf|] eqn:Eb; [|discriminate]. destruct rf as [f|] eqn:Erf; [|discriminate]. simpl in Hsem.
      destruct (mapM f x) as [col|] eqn:Em; [|discriminate]. simpl in Hsem. injection Hsem as <-.
      destruct I1' as [n1 [-> [H1 [P1 G1]]]].
      destruct (apply_afs t2 k2 HI2 C2 Hs2 Hf2 c n1 it2 x b (Ok f) f col Hc H1 P1 G1 (irel_scalar t2 it2 b I2) Eb eq_refl Em) as [t3 [Ha [E3 [C3 I3]]]].
      apply (Hfin t3 _ Ha E3 C3 I3).
    + destruct (binop_afaf c) as [f|] eqn:Eb; [|discriminate]. destruct (zipM f x y) as [col|] eqn:Ez; [|discriminate].
      simpl in Hsem. injection Hsem as <-.
      destruct I1' as [n1 [-> [H1 [P1 G1]]]]. destruct I2 as [n2 [-> [H2 [P2 G2]]]].
      destruct (apply_afaf t2 k2 HI2 C2 Hs2 Hf2 c n1 n2 x y f col Hc H1 P1 G1 H2 P2 G2 Eb Ez) as [t3 [Ha [E3 [C3 I3]]]].
      apply (Hfin t3 _ Ha E3 C3 I3).
  - (* parentheses *)
    cbn [postfix nops]. simpl in Hwf, Hsem. apply IH; assumption.
Qed.
Print Assumptions run_expr.
