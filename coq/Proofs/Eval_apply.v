From Coq Require Import List Ascii String Bool Arith ZArith QArith Lia.
Import ListNotations.
From TL Require Import Model.Str Model.Rpn Model.Table Model.Eval Model.Pipeline
                       Proofs.Rpn_parse Proofs.Table_inv Proofs.Table_set Proofs.Eval_write Proofs.Eval_sem Proofs.Eval_machine.

Lemma arith_cases c : arith_op c = true ->
  c = "+"%char \/ c = "-"%char \/ c = "*"%char \/ c = "/"%char \/ c = "^"%char \/ c = "<"%char \/ c = ">"%char.
Proof.
  unfold arith_op. rewrite !orb_true_iff. rewrite !Ascii.eqb_eq. tauto.
Qed.

(* reading an existing column is not affected by the creation of a fresh temporary *)
Lemma create_frame t k t1 n col : Inv t -> fresh_from t k -> has_af t n = true ->
  create_af t (temp_name k) (IScalar (Some 0%Q)) = Ok t1 -> get_af t n = Ok col -> get_af t1 n = Ok col.
Proof.
  intros HI Hf Hn Hc Hg. pose proof (Hf k (le_n _)) as Hfr.
  destruct (create_new_spec t (temp_name k) _ t1 HI Hfr Hc) as [_ [_ [_ [_ [_ [_ [_ [_ Hfrm]]]]]]]].
  rewrite Hfrm; [assumption|]. intros ->. congruence.
Qed.


(* the unary column operators preserve the length *)
Lemma removelast_length {A} (l : list A) : List.length (removelast l) = (List.length l - 1)%nat.
Proof. induction l as [|a [|b r] IH]; [reflexivity | reflexivity|]. cbn [removelast List.length] in *. rewrite IH. lia. Qed.
Lemma integrator_from_length : forall x acc, List.length (integrator_from acc x) = List.length x.
Proof. induction x as [|v r IH]; intros acc; cbn [integrator_from List.length]; [reflexivity|]. rewrite IH. reflexivity. Qed.
Lemma integrator_length x : List.length (integrator x) = List.length x.
Proof. destruct x as [|v r]; [reflexivity|]. cbn [integrator List.length]. rewrite integrator_from_length. reflexivity. Qed.
Lemma differentiator_length x : List.length (differentiator x) = List.length x.
Proof.
  destruct x as [|v r]; [reflexivity|]. unfold differentiator.
  set (l := v :: r). assert (Hl : (1 <= List.length l)%nat) by (unfold l; cbn; lia).
  cbn [List.length]. assert (E : List.length (tl (map (fun '(a, b) => vsub a b) (combine l (shift_prev l)))) = (List.length l - 1)%nat).
  { destruct (map _ _) as [|y ys] eqn:Em.
    - apply (f_equal (@List.length val)) in Em. rewrite map_length, combine_length in Em. unfold shift_prev in Em.
      cbn [List.length] in Em. rewrite removelast_length in Em. cbn in Em. lia.
    - apply (f_equal (@List.length val)) in Em. rewrite map_length, combine_length in Em. unfold shift_prev in Em.
      cbn [List.length] in Em. rewrite removelast_length in Em. cbn [tl]. lia. }
  rewrite E. lia.
Qed.
Lemma d2_length x : List.length (d2 x) = List.length x.
Proof. unfold d2. rewrite map_length, seq_length. reflexivity. Qed.

Lemma void_length f need g x : void_spec f = Some (need, g) -> List.length (g x) = List.length x.
Proof.
  unfold void_spec. intros H.
  repeat match type of H with (if ?b then _ else _) = _ => destruct b end; try discriminate;
  injection H as _ <-; [apply integrator_length | apply differentiator_length | apply d2_length | apply map_length | apply map_length | apply map_length].
Qed.

Section Apply.
Variables (t : track) (k : nat).
Hypothesis HI : Inv t.
Hypothesis Hco : coords_ok t.
Hypothesis Hs : Table.size t <> 0%nat.
Hypothesis Hf : fresh_from t k.

(* a column-producing step: AF∘AF, AF∘scalar or scalar∘AF *)
Lemma col_step compute col :
  (forall t1, create_af t (temp_name k) (IScalar (Some 0%Q)) = Ok t1 -> compute t1 = Ok col) ->
  List.length col = Table.size t ->
  exists t', write_out t (temp_name k) compute = Ok t' /\ Ext t t' k (S k) /\ coords_ok t' /\
             irel t' (SStr (temp_name k)) (DC col).
Proof.
  intros Hc Hl. destruct (write_temp t k compute col HI Hco Hs Hf Hc Hl) as [t' [Hw [HE [Hco' [Hh Hg]]]]].
  exists t'. split; [assumption|]. split; [assumption|]. split; [assumption|].
  exists (temp_name k). split; [reflexivity|]. split; [assumption|]. split; [apply temp_not_lit | assumption].
Qed.

Lemma apply_afaf c n1 n2 x y f col :
  arith_op c = true -> has_af t n1 = true -> parse_lit n1 = None -> get_af t n1 = Ok x ->
  has_af t n2 = true -> parse_lit n2 = None -> get_af t n2 = Ok y ->
  binop_afaf c = Some f -> zipM f x y = Ok col ->
  exists t', apply_op t (SStr n1) (SStr n2) c k = Ok (t', SStr (temp_name k)) /\ Ext t t' k (S k) /\ coords_ok t' /\
             irel t' (SStr (temp_name k)) (DC col).
Proof.
  intros Hc H1 P1 G1 H2 P2 G2 Hb Hz.
  destruct (col_step (fun t1 => do x0 <- get_af t1 n1; do y0 <- get_af t1 n2; zipM f x0 y0) col) as [t' [Hw [HE [Hco' Hir]]]].
  - intros t1 Hcr. rewrite (create_frame t k t1 n1 x HI Hf H1 Hcr G1). simpl.
    rewrite (create_frame t k t1 n2 y HI Hf H2 Hcr G2). simpl. assumption.
  - apply zipM_length in Hz. rewrite Hz. rewrite (get_af_length t n1 x HI Hco G1), (get_af_length t n2 y HI Hco G2). apply Nat.min_id.
  - exists t'. split; [|split; [assumption | split; assumption]].
    unfold apply_op.
    destruct (arith_cases c Hc) as [->|[->|[->|[->|[->|[->| ->]]]]]]; simpl Ascii.eqb; cbv iota;
    unfold item_isfloat; rewrite P1, P2; simpl; unfold item_has_af; rewrite H1, H2; simpl;
    simpl in Hb; injection Hb as <-; rewrite Hw; reflexivity.
Qed.

(* a scalar operand is either a float pushed by an earlier scalar operation or a literal token *)
Definition scalar_item (it : item) (v : val) : Prop :=
  it = SNum v \/ exists s q, it = SStr s /\ parse_lit s = Some q /\ v = Some q /\ has_af t s = false.

Lemma irel_scalar it v : irel t it (DS v) -> scalar_item it v.
Proof.
  intros [Ha [Hb Hc]]. destruct it as [s|w|]; simpl in *.
  - right. destruct (parse_lit s) as [q|] eqn:E; [|discriminate]. exists s, q. injection Hc as <-. auto.
  - left. injection Hc as <-. reflexivity.
  - discriminate.
Qed.

Lemma apply_afs c n1 it2 x kv rf f col :
  arith_op c = true -> has_af t n1 = true -> parse_lit n1 = None -> get_af t n1 = Ok x ->
  scalar_item it2 kv -> binop_afs c kv = Some rf -> rf = Ok f -> mapM f x = Ok col ->
  exists t', apply_op t (SStr n1) it2 c k = Ok (t', SStr (temp_name k)) /\ Ext t t' k (S k) /\ coords_ok t' /\
             irel t' (SStr (temp_name k)) (DC col).
Proof.
  intros Hc H1 P1 G1 Hsc Hb Hrf Hm.
  destruct (col_step (fun t1 => do x0 <- get_af t1 n1; mapM f x0) col) as [t' [Hw [HE [Hco' Hir]]]].
  - intros t1 Hcr. rewrite (create_frame t k t1 n1 x HI Hf H1 Hcr G1). simpl. assumption.
  - apply mapM_length in Hm. rewrite Hm. apply (get_af_length t n1 x HI Hco G1).
  - exists t'. split; [|split; [assumption | split; assumption]].
    unfold apply_op.
    destruct Hsc as [->|[s [q [-> [Pl [-> Hn]]]]]].
    + destruct (arith_cases c Hc) as [->|[->|[->|[->|[->|[->| ->]]]]]]; simpl Ascii.eqb; cbv iota;
      unfold item_isfloat; rewrite P1; simpl; unfold item_has_af; rewrite H1; simpl;
      simpl in Hb; injection Hb as <-; simpl in Hrf |- *; try rewrite Hrf; simpl; try (injection Hrf as <-); rewrite Hw; reflexivity.
    + destruct (arith_cases c Hc) as [->|[->|[->|[->|[->|[->| ->]]]]]]; simpl Ascii.eqb; cbv iota;
      unfold item_isfloat; rewrite P1, Pl; simpl; unfold item_has_af; rewrite H1, Hn; simpl; unfold item_float; rewrite Pl; simpl;
      simpl in Hb; injection Hb as <-; simpl in Hrf |- *; try rewrite Hrf; simpl; try (injection Hrf as <-); rewrite Hw; reflexivity.
Qed.

Lemma apply_saf c it1 n2 y kv f col :
  arith_op c = true -> has_af t n2 = true -> parse_lit n2 = None -> get_af t n2 = Ok y ->
  scalar_item it1 kv -> binop_saf c kv = Some f -> mapM f y = Ok col ->
  exists t', apply_op t it1 (SStr n2) c k = Ok (t', SStr (temp_name k)) /\ Ext t t' k (S k) /\ coords_ok t' /\
             irel t' (SStr (temp_name k)) (DC col).
Proof.
  intros Hc H2 P2 G2 Hsc Hb Hm.
  destruct (col_step (fun t1 => do x0 <- get_af t1 n2; mapM f x0) col) as [t' [Hw [HE [Hco' Hir]]]].
  - intros t1 Hcr. rewrite (create_frame t k t1 n2 y HI Hf H2 Hcr G2). simpl. assumption.
  - apply mapM_length in Hm. rewrite Hm. apply (get_af_length t n2 y HI Hco G2).
  - exists t'. split; [|split; [assumption | split; assumption]].
    unfold apply_op.
    destruct Hsc as [->|[s [q [-> [Pl [-> Hn]]]]]].
    + destruct (arith_cases c Hc) as [->|[->|[->|[->|[->|[->| ->]]]]]]; simpl Ascii.eqb; cbv iota;
      unfold item_isfloat; rewrite P2; simpl; unfold item_has_af; rewrite H2; simpl;
      simpl in Hb; injection Hb as <-; rewrite Hw; reflexivity.
    + destruct (arith_cases c Hc) as [->|[->|[->|[->|[->|[->| ->]]]]]]; simpl Ascii.eqb; cbv iota;
      unfold item_isfloat; rewrite P2, Pl; simpl; unfold item_has_af; rewrite H2, Hn; simpl; unfold item_float; rewrite Pl; simpl;
      simpl in Hb; injection Hb as <-; rewrite Hw; reflexivity.
Qed.


(* F@(arg) on a column *)
Lemma apply_fun f n x d :
  parse_lit f = None -> has_af t n = true -> parse_lit n = None -> get_af t n = Ok x ->
  fun_sem t f (DC x) = Ok d ->
  exists t', apply_op t (SStr f) (SStr n) "@" k = Ok (t', SStr (temp_name k)) /\ Ext t t' k (S k) /\ coords_ok t' /\
             irel t' (SStr (temp_name k)) d.
Proof.
  intros Pf Hn Pn Gn Hsem. pose proof (get_af_length t n x HI Hco Gn) as Lx.
  assert (Hhead : apply_op t (SStr f) (SStr n) "@" k =
     match void_fun t f n (temp_name k) with
     | Some r0 => do t1 <- r0; Ok (t1, SStr (temp_name k))
     | None => match nonvoid_fun t f n with
               | Some r0 => do v <- r0; do t1 <- create_af t (temp_name k) (IList (repeat v (Table.size t))); Ok (t1, SStr (temp_name k))
               | None => Err Other end end) by (unfold apply_op; cbn [Ascii.eqb Bool.eqb]; unfold item_isfloat; rewrite Pf, Pn; reflexivity).
  rewrite Hhead. clear Hhead. unfold fun_sem in Hsem. unfold void_fun, nonvoid_fun.
  destruct (void_spec f) as [[need g]|] eqn:Ev.
  - injection Hsem as <-. set (col := g (if need (Table.size t) then x else repeat None (Table.size t))).
    destruct (col_step (fun t1 => do x0 <- (if need (Table.size t1) then get_af t1 n else Ok (repeat None (Table.size t1))); Ok (g x0)) col)
      as [t' [Hw [HE [Hco' Hir]]]].
    + intros t1 Hcr. pose proof (Hf k (le_n _)) as Hfr.
      destruct (create_new_spec t (temp_name k) _ t1 HI Hfr Hcr) as [_ [_ [Hsz _]]]. rewrite Hsz.
      destruct (need (Table.size t)); [rewrite (create_frame t k t1 n x HI Hf Hn Hcr Gn)|]; reflexivity.
    + unfold col. rewrite (void_length f need g _ Ev). destruct (need (Table.size t)); [assumption | apply repeat_length].
    + exists t'. rewrite Hw. cbn [bind]. auto.
  - destruct (nonvoid_spec f) as [g|] eqn:En; [|discriminate]. rewrite Gn. cbn [bind] in *.
    destruct (g x) as [v|] eqn:Eg; [|discriminate]. cbn [bind] in *. injection Hsem as <-.
    destruct (create_temp t k (repeat v (Table.size t)) HI Hco Hs Hf (repeat_length _ _)) as [t' [Hc [HE [Hco' [Hh Hg]]]]].
    exists t'. rewrite Hc. cbn [bind]. split; [reflexivity|]. split; [assumption|]. split; [assumption|].
    exists (temp_name k). split; [reflexivity|]. split; [assumption|]. split; [apply temp_not_lit | assumption].
Qed.

Lemma apply_ss c it1 it2 a b v :
  arith_op c = true -> irel t it1 (DS a) -> irel t it2 (DS b) -> scalar_op c a b = Ok v ->
  apply_op t it1 it2 c k = Ok (t, SNum v) /\ irel t (SNum v) (DS v).
Proof.
  intros Hc [Ha1 [Hb1 Hc1]] [Ha2 [Hb2 Hc2]] Hop. split; [|repeat split; reflexivity].
  unfold apply_op.
  destruct (arith_cases c Hc) as [->|[->|[->|[->|[->|[->| ->]]]]]]; simpl Ascii.eqb; cbv iota;
  rewrite Hb1, Hb2; simpl; rewrite Hc1, Hc2; simpl; unfold scalar_op in Hop; simpl in Hop;
  try (injection Hop as <-; reflexivity); try discriminate.
  - destruct (vdiv_raw a b); [injection Hop as <-; reflexivity | discriminate].
  - rewrite Hop. reflexivity.
Qed.
End Apply.
