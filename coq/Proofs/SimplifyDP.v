(* Spike: simplification.douglas_peucker, distance function abstract *)
From Coq Require Import List Arith Reals Lra Lia Bool.
Import ListNotations.
Open Scope R_scope.

Section DP.
Variable P : Type.
Variable dseg : P -> P -> P -> R.          (* distance_to_segment(p, a, b) *)
Variable eps : R.
Variable d0 : P.
Definition Rltb (x y : R) : bool := if Rlt_dec x y then true else false.

(* loop i = 0..n-1, strict > from dmax = 0, imax = 0 *)
Fixpoint farthest (l : list P) (a b : P) (i : nat) (dmax : R) (imax : nat) : R * nat :=
  match l with
  | [] => (dmax, imax)
  | p :: r => let d := dseg p a b in
              if Rltb dmax d then farthest r a b (S i) d i else farthest r a b (S i) dmax imax
  end.

Fixpoint dp (fuel : nat) (L : list P) : list P :=
  match fuel with
  | O => L
  | S f =>
    if (length L <=? 2)%nat then L else
    let a := hd d0 L in let b := last L d0 in
    let '(dmax, imax) := farthest L a b 0 0 0 in
    if Rltb dmax eps then [a; b] else dp f (firstn imax L) ++ dp f (skipn imax L)
  end.

Inductive sub : list P -> list P -> Prop :=
| sub_nil : sub [] []
| sub_skip x l1 l2 : sub l1 l2 -> sub l1 (x :: l2)
| sub_keep x l1 l2 : sub l1 l2 -> sub (x :: l1) (x :: l2).

Lemma sub_refl l : sub l l.
Proof. induction l; constructor; assumption. Qed.
Lemma sub_nil_l l : sub [] l.
Proof. induction l; constructor; assumption. Qed.
Lemma sub_app l1 l1' l2 l2' : sub l1 l1' -> sub l2 l2' -> sub (l1 ++ l2) (l1' ++ l2').
Proof. intros H1 H2. induction H1; simpl; [assumption | apply sub_skip; assumption | apply sub_keep; assumption]. Qed.

Lemma sub_hd_last x y l : sub [x; last (y :: l) d0] (x :: y :: l).
Proof.
  apply sub_keep. revert y. induction l as [|z l IH]; intros y.
  - simpl. apply sub_keep. constructor.
  - change (last (y :: z :: l) d0) with (last (z :: l) d0). apply sub_skip. apply IH.
Qed.

Theorem dp_sub : forall fuel L, sub (dp fuel L) L.
Proof.
  induction fuel as [|f IH]; intros L; cbn [dp]; [apply sub_refl|].
  destruct (length L <=? 2)%nat eqn:E; [apply sub_refl|].
  destruct (farthest L (hd d0 L) (last L d0) 0 0 0) as [dmax imax].
  destruct (Rltb dmax eps).
  - destruct L as [|x [|y l]]; simpl in E; try discriminate. simpl hd. change (last (x :: y :: l) d0) with (last (y :: l) d0). apply sub_hd_last.
  - rewrite <- (firstn_skipn imax L) at 3. apply sub_app; apply IH.
Qed.

(* coverage: p is a vertex of the output, or closer than eps to one of its segments *)
Definition covered (p : P) (out : list P) : Prop :=
  In p out \/ exists l1 a b l2, out = l1 ++ a :: b :: l2 /\ dseg p a b < eps.

Lemma covered_app_l p o1 o2 : covered p o1 -> covered p (o1 ++ o2).
Proof.
  intros [H|[l1 [a [b [l2 [E Hd]]]]]]; [left; apply in_or_app; left; assumption|].
  right. exists l1, a, b, (l2 ++ o2). split; [rewrite E, <- app_assoc; reflexivity | assumption].
Qed.
Lemma covered_app_r p o1 o2 : covered p o2 -> covered p (o1 ++ o2).
Proof.
  intros [H|[l1 [a [b [l2 [E Hd]]]]]]; [left; apply in_or_app; right; assumption|].
  right. exists (o1 ++ l1), a, b, l2. split; [rewrite E, <- app_assoc; reflexivity | assumption].
Qed.

(* the farthest scan dominates every scanned point *)
Lemma farthest_dom a b : forall l i dmax imax p, In p l -> dseg p a b <= fst (farthest l a b i dmax imax).
Proof.
  assert (Hmono : forall l i dmax imax, dmax <= fst (farthest l a b i dmax imax)).
  { induction l as [|q r IH]; intros i dmax imax; cbn [farthest]; [simpl; lra|].
    unfold Rltb. destruct (Rlt_dec dmax (dseg q a b)).
    - specialize (IH (S i) (dseg q a b) i). lra.
    - apply IH. }
  induction l as [|q r IH]; intros i dmax imax p Hin; [destruct Hin|].
  cbn [farthest]. unfold Rltb. destruct Hin as [<-|Hin].
  - destruct (Rlt_dec dmax (dseg q a b)).
    + apply Hmono.
    + specialize (Hmono r (S i) dmax imax). lra.
  - destruct (Rlt_dec dmax (dseg q a b)); apply IH; assumption.
Qed.

Theorem dp_tolerance : forall fuel L p, In p L -> covered p (dp fuel L).
Proof.
  induction fuel as [|f IH]; intros L p Hin; cbn [dp]; [left; assumption|].
  destruct (length L <=? 2)%nat eqn:E; [left; assumption|].
  destruct (farthest L (hd d0 L) (last L d0) 0 0 0) as [dmax imax] eqn:Ef.
  unfold Rltb. destruct (Rlt_dec dmax eps) as [Hlt|Hge].
  - right. exists [], (hd d0 L), (last L d0), []. split; [reflexivity|].
    pose proof (farthest_dom (hd d0 L) (last L d0) L 0 0 0%nat p Hin) as Hd. rewrite Ef in Hd. simpl in Hd. lra.
  - rewrite <- (firstn_skipn imax L) in Hin. apply in_app_or in Hin. destruct Hin as [Hin|Hin].
    + apply covered_app_l. apply IH. assumption.
    + apply covered_app_r. apply IH. assumption.
Qed.

Lemma last_app_ (l1 l2 : list P) : l2 <> [] -> last (l1 ++ l2) d0 = last l2 d0.
Proof.
  intros H. induction l1 as [|x l1 IH]; [reflexivity|]. cbn [app].
  destruct (l1 ++ l2) eqn:E; [apply app_eq_nil in E; tauto|]. rewrite <- IH. reflexivity.
Qed.

(* ---- termination and end points: needs what a distance to a segment guarantees at the two ends ---- *)
Hypothesis eps_pos : 0 < eps.
Hypothesis dseg_a : forall a b, dseg a a b = 0.
Hypothesis dseg_b : forall a b, dseg b a b = 0.

Lemma farthest_spec a b : forall l i dmax imax,
  farthest l a b i dmax imax = (dmax, imax) \/
  exists k, (k < length l)%nat /\ snd (farthest l a b i dmax imax) = (i + k)%nat /\
            fst (farthest l a b i dmax imax) = dseg (nth k l d0) a b /\ dmax < dseg (nth k l d0) a b.
Proof.
  induction l as [|q r IH]; intros i dmax imax; cbn [farthest]; [left; reflexivity|].
  unfold Rltb. destruct (Rlt_dec dmax (dseg q a b)) as [Hlt|Hge].
  - right. destruct (IH (S i) (dseg q a b) i) as [E|[k [Hk [E1 [E2 E3]]]]].
    + exists 0%nat. rewrite E. cbn. repeat split; [lia | lia | assumption].
    + exists (S k). cbn [length nth]. repeat split; [lia | rewrite E1; lia | assumption | lra].
  - destruct (IH (S i) dmax imax) as [E|[k [Hk [E1 [E2 E3]]]]]; [left; assumption|].
    right. exists (S k). cbn [length nth]. repeat split; [lia | rewrite E1; lia | assumption | assumption].
Qed.

Lemma nth_last_ (l : list P) : l <> [] -> nth (length l - 1) l d0 = last l d0.
Proof.
  induction l as [|x [|y r] IH]; intros H; [congruence | reflexivity|].
  change (last (x :: y :: r) d0) with (last (y :: r) d0). rewrite <- IH by discriminate.
  cbn [length]. replace (S (S (length r)) - 1)%nat with (S (length r)) by lia.
  cbn [nth]. replace (S (length r) - 1)%nat with (length r) by lia. reflexivity.
Qed.

(* a split only happens strictly inside the list *)
Lemma split_inside L dmax imax : (2 < length L)%nat ->
  farthest L (hd d0 L) (last L d0) 0 0 0 = (dmax, imax) -> ~ dmax < eps -> (0 < imax < length L - 1)%nat.
Proof.
  intros Hn Ef Hge. destruct (farthest_spec (hd d0 L) (last L d0) L 0 0 0%nat) as [E|[k [Hk [E1 [E2 E3]]]]].
  - rewrite Ef in E. injection E as -> _. lra.
  - rewrite Ef in E1, E2. cbn [fst snd] in E1, E2. subst imax.
    assert (k <> 0)%nat.
    { intros ->. destruct L as [|x r]; [cbn in Hn; lia|]. cbn [nth hd] in E3. rewrite dseg_a in E3. lra. }
    assert (k <> length L - 1)%nat.
    { intros ->. rewrite nth_last_ in E3 by (destruct L; [cbn in Hn; lia | discriminate]). rewrite dseg_b in E3. lra. }
    lia.
Qed.

Theorem dp_fuel : forall fuel fuel' L, (length L <= fuel)%nat -> (length L <= fuel')%nat -> dp fuel L = dp fuel' L.
Proof.
  induction fuel as [|f IH]; intros fuel' L H1 H2.
  - destruct L; [|cbn in H1; lia]. destruct fuel'; reflexivity.
  - destruct fuel' as [|f'].
    + destruct L; [reflexivity | cbn in H2; lia].
    + cbn [dp]. destruct (length L <=? 2)%nat eqn:E; [reflexivity|]. apply Nat.leb_gt in E.
      destruct (farthest L (hd d0 L) (last L d0) 0 0 0) as [dmax imax] eqn:Ef.
      unfold Rltb. destruct (Rlt_dec dmax eps) as [Hlt|Hge]; [reflexivity|].
      pose proof (split_inside L dmax imax E Ef Hge) as Hi.
      f_equal; apply IH; rewrite ?firstn_length, ?skipn_length; lia.
Qed.

(* first and last observation are kept *)
Theorem dp_ends : forall fuel L, (length L <= fuel)%nat -> L <> [] ->
  hd d0 (dp fuel L) = hd d0 L /\ last (dp fuel L) d0 = last L d0 /\ dp fuel L <> [].
Proof.
  induction fuel as [|f IH]; intros L Hf Hne; [destruct L; [congruence | cbn in Hf; lia]|].
  cbn [dp]. destruct (length L <=? 2)%nat eqn:E; [auto|]. apply Nat.leb_gt in E.
  destruct (farthest L (hd d0 L) (last L d0) 0 0 0) as [dmax imax] eqn:Ef.
  unfold Rltb. destruct (Rlt_dec dmax eps) as [Hlt|Hge]; [repeat split; discriminate|].
  pose proof (split_inside L dmax imax E Ef Hge) as Hi.
  assert (N1 : firstn imax L <> []) by (intros Z; apply (f_equal (@length P)) in Z; rewrite firstn_length in Z; cbn in Z; lia).
  assert (N2 : skipn imax L <> []) by (intros Z; apply (f_equal (@length P)) in Z; rewrite skipn_length in Z; cbn in Z; lia).
  destruct (IH (firstn imax L)) as [A1 [A2 A3]]; [rewrite firstn_length; lia | assumption|].
  destruct (IH (skipn imax L)) as [B1 [B2 B3]]; [rewrite skipn_length; lia | assumption|].
  repeat split.
  - destruct (dp f (firstn imax L)) as [|x r] eqn:D; [congruence|]. cbn [app hd] in *. rewrite A1.
    destruct L as [|y l]; [congruence|]. destruct imax; [lia | reflexivity].
  - rewrite last_app_ by assumption. rewrite B2. rewrite <- (firstn_skipn imax L) at 2. rewrite last_app_ by assumption. reflexivity.
  - intros Z. apply app_eq_nil in Z. tauto.
Qed.
End DP.
Print Assumptions dp_tolerance.
Print Assumptions dp_fuel.
Print Assumptions dp_ends.
