(* C07 (graph part) end to end: Network.shortest_path(src, t).path after the targeted forward run *)
From Coq Require Import List Arith ZArith QArith Bool Lia Lqa.
Import ListNotations.
From TL Require Import Model.Graph Proofs.Graph_inv Proofs.Graph_step Proofs.Graph_final Proofs.Graph_stop Proofs.Graph_fuel Proofs.Graph_ante Proofs.Graph_target.
Open Scope Q_scope.

(* the nodes visited by a walk, and the ids of its edges *)
Fixpoint nodes_from (u : nat) (es : list edge) : list nat :=
  match es with [] => [u] | e :: r => u :: nodes_from (fils e u) r end.

Lemma nodes_from_snoc g u v es e : walk g u v es -> nodes_from u (es ++ [e]) = nodes_from u es ++ [fils e v].
Proof. induction 1 as [u|u e0 p t He0 Hw IH]; cbn [app nodes_from]; [reflexivity | rewrite IH; reflexivity]. Qed.

(* the antecedent edges met walking back from v (run_routing_backward reads node.antecedent_edge) *)
Fixpoint back_edges (fuel : nat) (s : st) (v : nat) : list nat :=
  match fuel with
  | O => []
  | S f => match ante s v with None => [] | Some (u, k) => k :: back_edges f s u end
  end.

(* from a settled node: the reversed back-walk is the node sequence of a permitted walk from the source whose weights sum to
   the node's value, and the recorded edge ids are those of its edges *)
Theorem back_walk_nodes g src s : nonneg g -> Inv g src s -> InvA g src s ->
  forall j v dv, pos_of v (order s) = Some j -> poids s v = Some dv ->
  forall fuel, (j < fuel)%nat ->
  exists es, walk g src v es /\ cost es == dv /\
             rev (walk_back fuel s v) = nodes_from src es /\ rev (back_edges fuel s v) = map eid es.
Proof.
  intros Hnn HI HA. destruct HA as [A1 A2 A3 A4 A5 A6 A7].
  induction j as [j IHj] using lt_wf_ind. intros v dv Hpos Hdv fuel Hf.
  destruct fuel as [|f]; [lia|]. cbn [walk_back back_edges].
  destruct (pos_of_some_in _ _ _ Hpos) as [Hin _]. apply A4 in Hin.
  destruct (Nat.eq_dec v src) as [->|Hne].
  - rewrite A1. exists []. split; [constructor|]. split; [|split; reflexivity].
    destruct (i_src _ _ _ HI) as [d0 [Hd0 Hle]]. rewrite Hd0 in Hdv. injection Hdv as <-.
    destruct (i_S _ _ _ HI src d0 Hd0) as [p [Hp Hc]]. pose proof (cost_nonneg g _ _ _ Hnn Hp). simpl. lra.
  - destruct (ante s v) as [[u k]|] eqn:Ea; [|exfalso; apply (A3 v); [congruence | assumption | assumption]].
    destruct (A2 v u k Ea) as [Hu [e [du [He [Hk [Hf' [Hdu Hdv']]]]]]].
    rewrite Hdv in Hdv'. injection Hdv' as ->.
    destruct (A5 v u k Ea Hin) as [i [j' [Hi [Hj' Hlt]]]]. rewrite Hpos in Hj'. injection Hj' as <-.
    destruct (IHj i Hlt u du Hi Hdu f ltac:(lia)) as [es [Hw [Hc [Hn Hk']]]].
    exists (es ++ [e]). split; [rewrite <- Hf'; apply walk_snoc; assumption|]. split; [rewrite cost_app; simpl; lra|].
    split.
    + cbn [rev]. rewrite Hn, (nodes_from_snoc g src u es e Hw), Hf'. reflexivity.
    + cbn [rev]. rewrite Hk', map_app. cbn [map]. rewrite Hk. reflexivity.
Qed.

(* Network.shortest_path: forward run stopped on the target, then the (repaired) backward walk "until there is no predecessor" *)
Definition path_nodes (s : st) (t : nat) : option (list nat * list nat) :=
  match ante s t with
  | None => None
  | Some _ => let fuel := S (length (order s)) in Some (rev (walk_back fuel s t), rev (back_edges fuel s t))
  end.

Theorem shortest_path_correct g src t cut : nonneg g -> never_cut cut g src -> t <> src ->
  let s := run (fuel_of g) g (Some t) cut (init src) in
  match path_nodes s t with
  | None => forall p, ~ walk g src t p
  | Some (nodes, ids) =>
      exists es d, walk g src t es /\ nodes = nodes_from src es /\ ids = map eid es /\
                   poids s t = Some d /\ cost es == d /\ forall p, walk g src t p -> d <= cost p
  end.
Proof.
  intros Hnn Hcut Hts s.
  destruct (shortest_distance_correct g src t cut Hnn Hcut) as [Hsome Hnone]. fold s in Hsome, Hnone.
  pose proof (init_outcome g src (Some t) cut Hnn) as Ho. fold s in Ho.
  assert (Common : forall s0, poids s0 = poids s -> ante s0 = ante s -> out s0 = out s -> Inv g src s0 -> InvA g src s0 ->
     match path_nodes s t with
     | None => forall p, ~ walk g src t p
     | Some (nodes, ids) =>
         exists es d, walk g src t es /\ nodes = nodes_from src es /\ ids = map eid es /\
                      poids s t = Some d /\ cost es == d /\ forall p, walk g src t p -> d <= cost p
     end).
  { intros s0 Ep Ea Eo HI HA. unfold path_nodes.
    destruct (ante s t) as [[u k]|] eqn:Eat.
    - rewrite <- Ea in Eat.
      destruct (a_edge _ _ _ HA t u k Eat) as [Hu [e [du [He [Hk [Hf [Hdu Hdt]]]]]]].
      assert (Eord : order s = order s0) by (unfold order; rewrite Eo; reflexivity).
      apply (a_vis _ _ _ HA) in Hu. destruct (pos_of_in u _ Hu) as [i [Hi Hlt]].
      destruct (back_walk_nodes g src s0 Hnn HI HA i u du Hi Hdu (length (order s0)) Hlt) as [es [Hw [Hc [Hn Hids]]]].
      exists (es ++ [e]), (du + ew e). rewrite Eord.
      assert (WB : forall f v, walk_back f s v = walk_back f s0 v) by (induction f as [|f IHf]; intros v; cbn [walk_back]; [reflexivity | rewrite <- Ea; destruct (ante s0 v) as [[? ?]|]; [rewrite IHf|]; reflexivity]).
      assert (BE : forall f v, back_edges f s v = back_edges f s0 v) by (induction f as [|f IHf]; intros v; cbn [back_edges]; [reflexivity | rewrite <- Ea; destruct (ante s0 v) as [[? ?]|]; [rewrite IHf|]; reflexivity]).
      rewrite WB, BE. cbn [walk_back back_edges]. rewrite Eat. cbn [rev].
      split; [rewrite <- Hf; apply walk_snoc; assumption|].
      split; [rewrite Hn, (nodes_from_snoc g src u es e Hw), Hf; reflexivity|].
      split; [rewrite Hids, map_app; cbn [map]; rewrite Hk; reflexivity|].
      assert (Ept : poids s t = Some (du + ew e)) by (rewrite <- Ep; exact Hdt).
      split; [exact Ept|]. split; [rewrite cost_app; simpl; lra|].
      apply (Hsome _ Ept).
    - (* no predecessor: t <> src has no value, hence no walk *)
      apply Hnone. rewrite <- Ep. rewrite <- Ea in Eat.
      destruct (poids s0 t) eqn:Ept; [|reflexivity]. exfalso. apply (a_some _ _ _ HA t); [congruence | assumption | assumption]. }
  destruct Ho as [s0 u du HI HA HO Epop Hdu Hstop | s0 HI HA HO Hemp].
  - apply (Common s0); try reflexivity; assumption.
  - apply (Common s0); try reflexivity; assumption.
Qed.
Print Assumptions shortest_path_correct.
