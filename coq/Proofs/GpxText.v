(* C13, GPX: a collection written by the model's writer and read by the model of the line-based reader gives back, track by track and in
   order, the same points: latitude, longitude, height and time tokens *)
From Coq Require Import List Ascii String Bool Arith Lia.
From TL Require Import Model.TextFmt Model.CsvText Model.GpxText Proofs.FixedText Proofs.CsvLine Proofs.CsvFile.
Import ListNotations.
Close Scope Z_scope.
Open Scope string_scope.

(* a token: no angle bracket, no double quote, no newline *)
Definition gch (c : ascii) : bool := differs "<" c && differs ">" c && differs dquote c && differs nl c.
Definition gtok (s : string) : Prop := str_all gch s = true.
Definition pt_ok (p : pt) : Prop := gtok (lat p) /\ gtok (lon p) /\ gtok (ele p) /\ gtok (tim p).
Definition trk_ok (t : trk) : Prop := gtok (tname t) /\ Forall pt_ok (tpts t).
(* a header line: none of the two track markers, no newline *)
Definition ghdr_ok (l : string) : Prop := has "<trk>" l = false /\ has "</trk>" l = false /\ nonl l.

Lemma gtok_lt s : gtok s -> str_all (differs "<") s = true.
Proof. apply str_all_imp. intros c H. unfold gch in H. repeat (apply andb_prop in H; destruct H as [H ?]). exact H. Qed.
Lemma gtok_gt s : gtok s -> str_all (differs ">") s = true.
Proof. apply str_all_imp. intros c H. unfold gch in H. apply andb_prop in H. destruct H as [H _]. apply andb_prop in H. destruct H as [H _]. apply andb_prop in H. apply H. Qed.
Lemma gtok_dq s : gtok s -> str_all (differs dquote) s = true.
Proof. apply str_all_imp. intros c H. unfold gch in H. apply andb_prop in H. destruct H as [H _]. apply andb_prop in H. apply H. Qed.
Lemma gtok_nl s : gtok s -> str_all (differs nl) s = true.
Proof. apply str_all_imp. intros c H. unfold gch in H. apply andb_prop in H. apply H. Qed.

(* a marker starts with an opening bracket: it cannot start inside a token *)
Lemma has_skip p' tok r : str_all (differs "<") tok = true -> has (String "<" p') (tok ++ r) = has (String "<" p') r.
Proof.
  induction tok as [|c t IH]; intros H; [reflexivity|]. cbn [str_all] in H. apply andb_prop in H. destruct H as [Hc Ht].
  cbn [append has prefix]. unfold differs in Hc. rewrite Ascii.eqb_sym in Hc. destruct (Ascii.eqb "<" c); [discriminate Hc|]. cbn [andb orb]. apply IH, Ht.
Qed.

Ltac markers := repeat (cbn [has prefix append Ascii.eqb Bool.eqb andb orb]; rewrite ?has_skip by (apply gtok_lt; assumption)); try reflexivity.

Section Lines.
Variable p : pt.
Hypothesis Hp : pt_ok p.
Let Hla : gtok (lat p) := proj1 Hp.
Let Hlo : gtok (lon p) := proj1 (proj2 Hp).
Let Hel : gtok (ele p) := proj1 (proj2 (proj2 Hp)).
Let Hti : gtok (tim p) := proj2 (proj2 (proj2 Hp)).

Definition l_pt := "            <trkpt lat=" ++ String dquote (lat p ++ String dquote (" lon=" ++ String dquote (lon p ++ String dquote ">"))).
Definition l_ele := "                <ele>" ++ ele p ++ "</ele>".
Definition l_tim := "                <time>" ++ tim p ++ "</time>".
Definition l_end := "            </trkpt>".

Lemma pt_lines_eq : pt_lines p = [l_pt; l_ele; l_tim; l_end].
Proof. reflexivity. Qed.

(* which markers each line holds *)
Lemma m_pt : has "<trk>" l_pt = false /\ has "</trk>" l_pt = false /\ has "<trkpt " l_pt = true /\ has "</trkpt>" l_pt = false /\ has "<ele>" l_pt = false /\ has "<time>" l_pt = false.
Proof. unfold l_pt. repeat split; markers. Qed.
Lemma m_ele : has "<trk>" l_ele = false /\ has "</trk>" l_ele = false /\ has "<trkpt " l_ele = false /\ has "</trkpt>" l_ele = false /\ has "<ele>" l_ele = true /\ has "<time>" l_ele = false.
Proof. unfold l_ele. repeat split; markers. Qed.
Lemma m_tim : has "<trk>" l_tim = false /\ has "</trk>" l_tim = false /\ has "<trkpt " l_tim = false /\ has "</trkpt>" l_tim = false /\ has "<ele>" l_tim = false /\ has "<time>" l_tim = true.
Proof. unfold l_tim. repeat split; markers. Qed.

(* what the reader extracts from them *)
Lemma split_pt : exists a, split dquote l_pt = [a; lat p; " lon="; lon p; ">"].
Proof.
  eexists. unfold l_pt, split.
  rewrite (split_acc_field dquote "            <trkpt lat=" _ (fun s => s) eq_refl).
  rewrite (split_acc_field dquote (lat p) _ (fun s => s) (gtok_dq _ Hla)).
  rewrite (split_acc_field dquote " lon=" _ (fun s => s) eq_refl).
  rewrite (split_acc_field dquote (lon p) _ (fun s => s) (gtok_dq _ Hlo)).
  rewrite (split_acc_last dquote ">" (fun s => s) eq_refl). reflexivity.
Qed.
Lemma between_tag (a tok b : string) : str_all (differs ">") a = true -> gtok tok -> str_all (differs ">") b = true ->
  between (a ++ String ">" (tok ++ String "<" (b ++ ">"))) = Some tok.
Proof.
  intros Ha Ht Hb. unfold between, split.
  rewrite (split_acc_field ">" a _ (fun s => s) Ha).
  assert (E : tok ++ String "<" (b ++ ">") = (tok ++ String "<" b) ++ String ">" "").
  { clear. induction tok as [|c t IH]; cbn [append]; [reflexivity | rewrite IH; reflexivity]. }
  rewrite E. rewrite (split_acc_field ">" (tok ++ String "<" b) "" (fun s => s)).
  - rewrite (split_acc_field "<" tok b (fun s => s) (gtok_lt _ Ht)). reflexivity.
  - rewrite str_all_app. cbn [str_all]. rewrite (gtok_gt _ Ht), Hb. reflexivity.
Qed.
Lemma between_ele : between l_ele = Some (ele p).
Proof. exact (between_tag "                <ele" (ele p) "/ele" eq_refl Hel eq_refl). Qed.
Lemma between_tim : between l_tim = Some (tim p).
Proof. exact (between_tag "                <time" (tim p) "/time" eq_refl Hti eq_refl). Qed.

(* the four lines of a point, read from inside a track, add the point to the current track *)
Lemma step_point po tp cur rest :
  fold_left step (pt_lines p) (Some {| in_trk := true; in_pt := false; pos := po; tps := tp; acc := cur :: rest |})
  = Some {| in_trk := true; in_pt := false; pos := Some (lat p, lon p, ele p); tps := Some (tim p); acc := (p :: cur) :: rest |}.
Proof.
  rewrite pt_lines_eq. cbn [fold_left].
  destruct m_pt as [A1 [A2 [A3 [A4 [A5 A6]]]]]. destruct m_ele as [B1 [B2 [B3 [B4 [B5 B6]]]]]. destruct m_tim as [C1 [C2 [C3 [C4 [C5 C6]]]]].
  destruct split_pt as [a Ea].
  (* <trkpt ...> *)
  unfold step at 4. rewrite A1, A2, A3, A4, A5, A6, Ea. cbn [in_trk in_pt pos tps acc negb].
  (* <ele> *)
  unfold step at 3. rewrite B1, B2, B3, B4, B5, B6, between_ele. cbn [in_trk in_pt pos tps acc negb].
  (* <time> *)
  unfold step at 2. rewrite C1, C2, C3, C4, C5, C6, between_tim. cbn [in_trk in_pt pos tps acc negb].
  (* </trkpt> *)
  unfold step, l_end. cbn. destruct p; reflexivity.
Qed.
End Lines.

Lemma step_points pts : Forall pt_ok pts -> forall po tp cur rest,
  exists po' tp', fold_left step (flat_map pt_lines pts) (Some {| in_trk := true; in_pt := false; pos := po; tps := tp; acc := cur :: rest |})
  = Some {| in_trk := true; in_pt := false; pos := po'; tps := tp'; acc := (List.app (rev pts) cur) :: rest |}.
Proof.
  induction pts as [|p pts IH]; intros H po tp cur rest; [exists po, tp; reflexivity|].
  inversion H as [|? ? Hp Hr]; subst. cbn [flat_map]. rewrite fold_left_app, (step_point p Hp).
  destruct (IH Hr (Some (lat p, lon p, ele p)) (Some (tim p)) (p :: cur) rest) as [po' [tp' E]]. exists po', tp'. rewrite E.
  cbn [rev]. rewrite <- app_assoc. reflexivity.
Qed.

(* lines that hold no marker leave the state as it is *)
Lemma step_outside s ln : in_trk s = false -> has "<trk>" ln = false -> has "</trk>" ln = false -> step (Some s) ln = Some s.
Proof. intros H0 H1 H2. unfold step. rewrite H1, H2, H0. reflexivity. Qed.
Lemma step_inside s ln : in_trk s = true -> in_pt s = false -> has "<trk>" ln = false -> has "</trk>" ln = false -> has "<trkpt " ln = false -> has "</trkpt>" ln = false ->
  step (Some s) ln = Some s.
Proof. intros H0 Hp H1 H2 H3 H4. unfold step. rewrite H1, H2, H0, H3, H4. cbn [negb]. rewrite Hp. reflexivity. Qed.

Lemma step_track t : trk_ok t -> forall po tp A,
  exists po' tp', fold_left step (trk_lines t) (Some {| in_trk := false; in_pt := false; pos := po; tps := tp; acc := A |})
  = Some {| in_trk := false; in_pt := false; pos := po'; tps := tp'; acc := rev (tpts t) :: A |}.
Proof.
  intros [Hn Hpts] po tp A. unfold trk_lines. cbn [List.app fold_left].
  (* <trk> *)
  assert (E1 : step (Some {| in_trk := false; in_pt := false; pos := po; tps := tp; acc := A |}) "    <trk>"
               = Some {| in_trk := true; in_pt := false; pos := po; tps := tp; acc := [] :: A |}) by reflexivity.
  rewrite E1. clear E1.
  set (s1 := {| in_trk := true; in_pt := false; pos := po; tps := tp; acc := [] :: A |}).
  (* <name> *)
  rewrite (step_inside s1 ("    <name>" ++ tname t ++ "</name>") eq_refl eq_refl) by markers.
  (* <trkseg> *)
  rewrite (step_inside s1 "        <trkseg>" eq_refl eq_refl) by reflexivity.
  rewrite fold_left_app. unfold s1. destruct (step_points (tpts t) Hpts po tp [] A) as [po' [tp' E]]. rewrite E, app_nil_r. cbn [fold_left].
  set (s2 := {| in_trk := true; in_pt := false; pos := po'; tps := tp'; acc := rev (tpts t) :: A |}).
  rewrite (step_inside s2 "        </trkseg>" eq_refl eq_refl) by reflexivity.
  exists po', tp'. reflexivity.
Qed.

Lemma step_tracks ts : Forall trk_ok ts -> forall po tp A,
  exists po' tp', fold_left step (flat_map trk_lines ts) (Some {| in_trk := false; in_pt := false; pos := po; tps := tp; acc := A |})
  = Some {| in_trk := false; in_pt := false; pos := po'; tps := tp'; acc := List.app (rev (map (fun t => rev (tpts t)) ts)) A |}.
Proof.
  induction ts as [|t ts IH]; intros H po tp A; [exists po, tp; reflexivity|].
  inversion H as [|? ? Ht Hr]; subst. cbn [flat_map]. rewrite fold_left_app.
  destruct (step_track t Ht po tp A) as [po1 [tp1 E1]]. rewrite E1.
  destruct (IH Hr po1 tp1 (rev (tpts t) :: A)) as [po2 [tp2 E2]]. exists po2, tp2. rewrite E2.
  cbn [map rev]. rewrite <- app_assoc. reflexivity.
Qed.

Lemma step_hdr hdr s : Forall ghdr_ok hdr -> in_trk s = false -> fold_left step hdr (Some s) = Some s.
Proof.
  induction hdr as [|l hdr IH]; intros H Hs; [reflexivity|]. inversion H as [|? ? [H1 [H2 _]] Hr]; subst.
  cbn [fold_left]. rewrite (step_outside s l Hs H1 H2). apply IH; assumption.
Qed.

Theorem gpx_lines_roundtrip hdr ts : Forall ghdr_ok hdr -> Forall trk_ok ts ->
  read_lines_gpx (List.app (gpx_lines hdr ts) [""]) = Some (map tpts ts).
Proof.
  intros Hh Ht. unfold read_lines_gpx, gpx_lines. rewrite !fold_left_app.
  rewrite (step_hdr hdr st0 Hh eq_refl). unfold st0.
  destruct (step_tracks ts Ht None None []) as [po [tp E]]. rewrite E. cbn [fold_left].
  set (sf := {| in_trk := false; in_pt := false; pos := po; tps := tp; acc := List.app (rev (map (fun t => rev (tpts t)) ts)) [] |}).
  rewrite (step_outside sf "</gpx>" eq_refl eq_refl eq_refl), (step_outside sf "" eq_refl eq_refl eq_refl). unfold sf.
  cbn [option_map acc]. rewrite app_nil_r, map_rev, rev_involutive, map_map. f_equal. apply map_ext. intros t. apply rev_involutive.
Qed.

(* the lines of the file hold no newline *)
Lemma pt_lines_nonl p : pt_ok p -> Forall nonl (pt_lines p).
Proof.
  intros [H1 [H2 [H3 H4]]]. unfold pt_lines.
  assert (T : forall a x b, str_all (differs nl) a = true -> gtok x -> str_all (differs nl) b = true -> nonl (a ++ x ++ b)).
  { intros a x b Ha Hx Hb. unfold nonl. rewrite !str_all_app, Ha, (gtok_nl _ Hx), Hb. reflexivity. }
  constructor; [|constructor; [|constructor; [|constructor; [|constructor]]]].
  - change (nonl (("            <trkpt lat=" ++ String dquote "") ++ lat p ++ (String dquote (" lon=" ++ String dquote (lon p ++ String dquote ">"))))).
    apply T; [reflexivity | exact H1 |].
    change (str_all (differs nl) ((String dquote (" lon=" ++ String dquote "")) ++ lon p ++ String dquote ">") = true).
    rewrite !str_all_app, (gtok_nl _ H2). reflexivity.
  - apply T; [reflexivity | exact H3 | reflexivity].
  - apply T; [reflexivity | exact H4 | reflexivity].
  - reflexivity.
Qed.
Lemma trk_lines_nonl t : trk_ok t -> Forall nonl (trk_lines t).
Proof.
  intros [Hn Hp]. unfold trk_lines. apply Forall_app. split.
  - constructor; [reflexivity|]. constructor; [|constructor; [reflexivity | constructor]].
    unfold nonl. rewrite !str_all_app, (gtok_nl _ Hn). reflexivity.
  - apply Forall_app. split; [|repeat constructor].
    induction (tpts t) as [|p ps IH]; [constructor|]. inversion Hp; subst. cbn [flat_map]. apply Forall_app. split; [apply pt_lines_nonl; assumption | apply IH; assumption].
Qed.

Theorem gpx_file_roundtrip hdr ts : Forall ghdr_ok hdr -> Forall trk_ok ts -> read_gpx (write_gpx hdr ts) = Some (map tpts ts).
Proof.
  intros Hh Ht. unfold read_gpx, write_gpx. rewrite split_lines; [apply gpx_lines_roundtrip; assumption|].
  unfold gpx_lines. apply Forall_app. split.
  - rewrite Forall_forall in *. intros l Hl. apply (Hh l Hl).
  - apply Forall_app. split; [|repeat constructor].
    induction ts as [|t ts IH]; [constructor|]. inversion Ht; subst. cbn [flat_map]. apply Forall_app. split; [apply trk_lines_nonl; assumption | apply IH; assumption].
Qed.
Print Assumptions gpx_file_roundtrip.

(* ---- the time token: __str__ with the print format "4Y-2M-2DT2h:2m:2s" followed by printZone() = "Z", read back with the read format
        "4Y-2M-2DT2h:2m:2sZ" (fixed positions) ---- *)
From TL Require Import Proofs.TimeText.
Definition print_gpx_time (t : stamp) : TimeText.str :=
  (print4 (year t) ++ ["-"%char] ++ print2 (month t) ++ ["-"%char] ++ print2 (day t) ++ ["T"%char]
   ++ print2 (hour t) ++ [":"%char] ++ print2 (minute t) ++ [":"%char] ++ print2 (sec t) ++ ["Z"%char])%list.
Definition read_gpx_time (s : TimeText.str) : stamp :=
  {| day := parse_int (slice s 8 2); month := parse_int (slice s 5 2); year := parse_int (slice s 0 4);
     hour := parse_int (slice s 11 2); minute := parse_int (slice s 14 2); sec := parse_int (slice s 17 2) |}.
Theorem gpx_time_roundtrip t :
  day t < 100 -> month t < 100 -> year t < 100 * 100 -> hour t < 100 -> minute t < 100 -> TimeText.sec t < 100 ->
  read_gpx_time (print_gpx_time t) = t.
Proof.
  intros Hd Hm Hy Hh Hmi Hs. destruct t as [d m y h mi s]. cbn [day month year hour minute TimeText.sec] in *.
  unfold read_gpx_time, print_gpx_time, slice. cbn [day month year hour minute TimeText.sec]. unfold print2, print4. cbn [List.app skipn firstn].
  change [digit (d / 10); digit (d mod 10)] with (print2 d).
  change [digit (m / 10); digit (m mod 10)] with (print2 m).
  change [digit (h / 10); digit (h mod 10)] with (print2 h).
  change [digit (mi / 10); digit (mi mod 10)] with (print2 mi).
  change [digit (s / 10); digit (s mod 10)] with (print2 s).
  change [digit (y / 1000); digit (y / 100 mod 10); digit (y / 10 mod 10); digit (y mod 10)] with (print4 y).
  rewrite !rt2, rt4 by assumption. reflexivity.
Qed.
(* the printed time is a token of the file *)
Lemma gpx_time_token t : day t < 100 -> month t < 100 -> year t < 100 * 100 -> hour t < 100 -> minute t < 100 -> TimeText.sec t < 100 ->
  gtok (string_of_list_ascii (print_gpx_time t)).
Proof.
  intros Hd Hm Hy Hh Hmi Hs.
  assert (D : forall k, k < 10 -> gch (digit k) = true) by (intros k Hk; do 10 (destruct k as [|k]; [reflexivity|]); lia).
  assert (P2 : forall n, n < 100 -> forallb gch (print2 n) = true).
  { intros n Hn. unfold print2. cbn [forallb]. rewrite !D; [reflexivity | apply Nat.mod_upper_bound; lia | apply Nat.div_lt_upper_bound; lia]. }
  assert (P4 : forall n, n < 100 * 100 -> forallb gch (print4 n) = true).
  { intros n Hn. unfold print4. cbn [forallb]. rewrite !D; [reflexivity | apply Nat.mod_upper_bound; lia | apply Nat.mod_upper_bound; lia | apply Nat.mod_upper_bound; lia | apply Nat.div_lt_upper_bound; lia]. }
  assert (S : forall l, forallb gch l = true -> str_all gch (string_of_list_ascii l) = true).
  { induction l as [|c l IH]; intros H; [reflexivity|]. cbn [forallb] in H. apply andb_prop in H. destruct H as [H1 H2]. cbn [string_of_list_ascii str_all]. rewrite H1, (IH H2). reflexivity. }
  unfold gtok. apply S. unfold print_gpx_time. rewrite !forallb_app, P4, !P2 by assumption. reflexivity.
Qed.
Print Assumptions gpx_time_roundtrip.

(* ---- the coordinate tokens: "{:3.8f}".format(v) ---- *)
From Coq Require Import ZArith QArith Qabs.
Close Scope Z_scope. Close Scope Q_scope.
Lemma fchar_gch c : fchar c = true -> gch c = true.
Proof.
  unfold fchar, gch, differs, is_digit. intros H.
  destruct (Ascii.eqb c "<") eqn:E1; [apply Ascii.eqb_eq in E1; subst c; discriminate H|].
  destruct (Ascii.eqb c ">") eqn:E2; [apply Ascii.eqb_eq in E2; subst c; discriminate H|].
  destruct (Ascii.eqb c dquote) eqn:E3; [apply Ascii.eqb_eq in E3; subst c; discriminate H|].
  destruct (Ascii.eqb c nl) eqn:E4; [apply Ascii.eqb_eq in E4; subst c; discriminate H|]. reflexivity.
Qed.
Lemma number_token w p x : gtok (fmt_fixed w p x).
Proof.
  unfold gtok. apply (str_all_imp fchar gch _ fchar_gch).
  rewrite fmt_fixed_body, lpad_rep. apply rep_all; [reflexivity|]. rewrite str_all_app, body_fchar. destruct (x ?= 0)%Q; reflexivity.
Qed.

(* a point given by its values: what writeToGpx prints for it *)
Definition gpx_point (la lo el : Q) (t : stamp) : pt :=
  {| lat := fmt_fixed 3 8 la; lon := fmt_fixed 3 8 lo; ele := fmt_fixed 3 8 el; tim := string_of_list_ascii (print_gpx_time t) |}.
Definition stamp_lt (t : stamp) : Prop := (day t < 100 /\ month t < 100 /\ year t < 100 * 100 /\ hour t < 100 /\ minute t < 100 /\ TimeText.sec t < 100)%nat.
Lemma gpx_point_ok la lo el t : stamp_lt t -> pt_ok (gpx_point la lo el t).
Proof.
  intros [H1 [H2 [H3 [H4 [H5 H6]]]]]. unfold pt_ok, gpx_point. cbn [lat lon ele tim].
  repeat split; try apply number_token. apply gpx_time_token; assumption.
Qed.

(* the statement's GPX clause on the model: every track comes back with as many points, in order; each coordinate read back (float of the token) is
   within half a unit of the eighth decimal of the value written, the height likewise, and the time is identical *)
Theorem gpx_values_roundtrip hdr (ts : list (string * list (Q * Q * Q * stamp))) :
  Forall ghdr_ok hdr -> Forall (fun t => gtok (fst t) /\ Forall (fun o => stamp_lt (snd o)) (snd t)) ts ->
  exists back, read_gpx (write_gpx hdr (map (fun t => {| tname := fst t; tpts := map (fun '(la, lo, el, s) => gpx_point la lo el s) (snd t) |}) ts)) = Some back
    /\ Forall2 (fun t b => Forall2 (fun '(la, lo, el, s) (q : pt) =>
         (exists v, parse_fixed (lat q) = Some v /\ (Qabs (v - la) <= 1 # (2 * pow10 8))%Q) /\
         (exists v, parse_fixed (lon q) = Some v /\ (Qabs (v - lo) <= 1 # (2 * pow10 8))%Q) /\
         (exists v, parse_fixed (ele q) = Some v /\ (Qabs (v - el) <= 1 # (2 * pow10 8))%Q) /\
         read_gpx_time (list_ascii_of_string (tim q)) = s) (snd t) b) ts back.
Proof.
  intros Hh Ht. eexists. split.
  - apply gpx_file_roundtrip; [exact Hh|].
    rewrite Forall_forall in *. intros t Hin. apply in_map_iff in Hin. destruct Hin as [[nm obs] [<- Hin]]. destruct (Ht _ Hin) as [Hn Ho]. cbn [fst snd] in *.
    split; [exact Hn|]. cbn [tpts]. rewrite Forall_forall in *. intros q Hq. apply in_map_iff in Hq. destruct Hq as [[[[la lo] el] s] [<- Hq]].
    apply gpx_point_ok. exact (Ho _ Hq).
  - rewrite map_map. cbn [tpts].
    induction ts as [|[nm obs] ts IH]; [constructor|]. inversion Ht as [|? ? [_ Ho] Hr]; subst. cbn [map]. constructor; [|apply IH; exact Hr].
    cbn [snd] in *. clear IH Hr Ht. induction obs as [|[[[la lo] el] s] obs IH]; [constructor|]. inversion Ho as [|? ? Hs Hor]; subst. cbn [map]. constructor; [|apply IH; exact Hor].
    cbn [gpx_point lat lon ele tim snd] in *. repeat split; try apply fixed_roundtrip.
    rewrite list_ascii_of_string_of_list_ascii. destruct Hs as [H1 [H2 [H3 [H4 [H5 H6]]]]]. apply gpx_time_roundtrip; assumption.
Qed.
Print Assumptions gpx_values_roundtrip.
