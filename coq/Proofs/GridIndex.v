(* Spike: C08 composition — the cell list of a segment, the registration loop and the point request:
   a feature with a point in the cell of the query point is returned *)
From Coq Require Import Reals Lra Psatz ZArith Lia List Bool.
From Flocq Require Import Raux.
From TL Require Import Proofs.GridCells.
Import ListNotations.
Open Scope R_scope.

Definition zrange (lo hi : Z) : list Z := map (fun k => (lo + Z.of_nat k)%Z) (seq 0 (Z.to_nat (hi - lo + 1))).

Lemma in_zrange lo hi k : (lo <= k <= hi)%Z -> In k (zrange lo hi).
Proof.
  intros H. unfold zrange. apply in_map_iff. exists (Z.to_nat (k - lo)). split; [lia|].
  apply in_seq. lia.
Qed.

(* __cellsCrossSegment: range(xmin, xmax + 1) x range(ymin, ymax + 1), keep the cells passing the test *)
Definition cells (ax ay bx by_ : R) : list (Z * Z) :=
  let xmin := Z.min (Zfloor ax) (Zfloor bx) in let xmax := Z.max (Zfloor ax) (Zfloor bx) in
  let ymin := Z.min (Zfloor ay) (Zfloor by_) in let ymax := Z.max (Zfloor ay) (Zfloor by_) in
  flat_map (fun i => flat_map (fun j => if cell_test ax ay bx by_ (IZR i) (IZR j) then [(i, j)] else [])
                              (zrange ymin ymax)) (zrange xmin xmax).

Lemma floor_between a b lam : 0 <= lam <= 1 ->
  (Z.min (Zfloor a) (Zfloor b) <= Zfloor (a + lam * (b - a)) <= Z.max (Zfloor a) (Zfloor b))%Z.
Proof.
  intros Hl. set (p := a + lam * (b - a)).
  destruct (Rle_dec a b) as [Hab|Hab].
  - assert (a <= p <= b) by (unfold p; nra).
    pose proof (Zfloor_le a p ltac:(lra)). pose proof (Zfloor_le p b ltac:(lra)). lia.
  - assert (b <= p <= a) by (unfold p; nra).
    pose proof (Zfloor_le b p ltac:(lra)). pose proof (Zfloor_le p a ltac:(lra)). lia.
Qed.

Theorem cells_complete ax ay bx by_ lam :
  0 <= lam <= 1 ->
  let px := ax + lam * (bx - ax) in let py := ay + lam * (by_ - ay) in
  In (Zfloor px, Zfloor py) (cells ax ay bx by_).
Proof.
  intros Hl px py. unfold cells. apply in_flat_map. exists (Zfloor px). split.
  - apply in_zrange. apply floor_between. assumption.
  - apply in_flat_map. exists (Zfloor py). split.
    + apply in_zrange. apply floor_between. assumption.
    + rewrite (cell_complete ax ay bx by_ (IZR (Zfloor px)) (IZR (Zfloor py)) lam Hl).
      * left. reflexivity.
      * fold px. pose proof (Zfloor_lb px). pose proof (Zfloor_ub px). lra.
      * fold py. pose proof (Zfloor_lb py). pose proof (Zfloor_ub py). lra.
Qed.

(* ---- the index: a feature is a polyline in grid coordinates; grid maps a cell to the registered ids ---- *)
Definition pt := (R * R)%type.
Definition grid := Z * Z -> list nat.

Definition cell_eqb (a b : Z * Z) : bool := (fst a =? fst b)%Z && (snd a =? snd b)%Z.
Definition add_cell (g : grid) (c : Z * Z) (f : nat) : grid :=
  fun c' => if cell_eqb c' c then (if existsb (Nat.eqb f) (g c') then g c' else g c' ++ [f]) else g c'.

Fixpoint segments (l : list pt) : list (pt * pt) :=
  match l with a :: (b :: _) as r => (a, b) :: segments r | _ => [] end.

(* __addIntersectCell / addFeature: every segment, every crossed cell *)
Definition add_feature (g : grid) (f : nat) (poly : list pt) : grid :=
  fold_left (fun g '(a, b) => fold_left (fun g c => add_cell g c f) (cells (fst a) (snd a) (fst b) (snd b)) g)
            (segments poly) g.

Definition build (feats : list (list pt)) : grid :=
  fst (fold_left (fun '(g, f) poly => (add_feature g f poly, S f)) feats ((fun _ => []), 0%nat)).

(* request(point): the content of the cell that contains it *)
Definition request (g : grid) (x y : R) : list nat := g (Zfloor x, Zfloor y).

Lemma cell_eqb_refl c : cell_eqb c c = true.
Proof. unfold cell_eqb. rewrite !Z.eqb_refl. reflexivity. Qed.
Lemma cell_eqb_eq a b : cell_eqb a b = true -> a = b.
Proof. unfold cell_eqb. intros H. apply andb_prop in H. destruct H as [H1 H2]. apply Z.eqb_eq in H1, H2. destruct a, b; simpl in *; congruence. Qed.

Lemma add_cell_mono g c f c' x : In x (g c') -> In x (add_cell g c f c').
Proof.
  intros H. unfold add_cell. destruct (cell_eqb c' c); [|assumption].
  destruct (existsb (Nat.eqb f) (g c')); [assumption | apply in_or_app; left; assumption].
Qed.

Lemma add_cell_in g c f : In f (add_cell g c f c).
Proof.
  unfold add_cell. rewrite cell_eqb_refl. destruct (existsb (Nat.eqb f) (g c)) eqn:E.
  - apply existsb_exists in E. destruct E as [x [Hx E]]. apply Nat.eqb_eq in E. subst. assumption.
  - apply in_or_app. right. left. reflexivity.
Qed.

Lemma fold_cells_mono f : forall cs g c' x, In x (g c') -> In x (fold_left (fun g c => add_cell g c f) cs g c').
Proof. induction cs as [|c cs IH]; intros g c' x H; [assumption|]. cbn [fold_left]. apply IH. apply add_cell_mono. assumption. Qed.

Lemma fold_cells_in f : forall cs g c, In c cs -> In f (fold_left (fun g c => add_cell g c f) cs g c).
Proof.
  induction cs as [|c0 cs IH]; intros g c Hin; [destruct Hin|]. destruct Hin as [->|H]; cbn [fold_left].
  - apply fold_cells_mono. apply add_cell_in.
  - apply IH. assumption.
Qed.

Lemma add_feature_mono f : forall segs g c' x, In x (g c') ->
  In x (fold_left (fun g '(a, b) => fold_left (fun g c => add_cell g c f) (cells (fst a) (snd a) (fst b) (snd b)) g) segs g c').
Proof.
  induction segs as [|[a b] segs IH]; intros g c' x H; [assumption|]. cbn [fold_left]. apply IH. apply fold_cells_mono. assumption.
Qed.

Lemma add_feature_in f : forall segs g a b c, In (a, b) segs -> In c (cells (fst a) (snd a) (fst b) (snd b)) ->
  In f (fold_left (fun g '(a, b) => fold_left (fun g c => add_cell g c f) (cells (fst a) (snd a) (fst b) (snd b)) g) segs g c).
Proof.
  induction segs as [|[a0 b0] segs IH]; intros g a b c Hin Hc; [destruct Hin|]. destruct Hin as [E|H]; cbn [fold_left].
  - injection E as -> ->. apply add_feature_mono. apply fold_cells_in. assumption.
  - eapply IH; eassumption.
Qed.

Lemma build_mono : forall feats g f c x, In x (g c) ->
  In x (fst (fold_left (fun '(g, f) poly => (add_feature g f poly, S f)) feats (g, f)) c).
Proof.
  induction feats as [|p feats IH]; intros g f c x H; [assumption|]. cbn [fold_left]. apply IH.
  unfold add_feature. apply add_feature_mono. assumption.
Qed.

Lemma build_in : forall feats g f0 k poly a b c, nth_error feats k = Some poly -> In (a, b) (segments poly) ->
  In c (cells (fst a) (snd a) (fst b) (snd b)) ->
  In (f0 + k)%nat (fst (fold_left (fun '(g, f) poly => (add_feature g f poly, S f)) feats (g, f0)) c).
Proof.
  induction feats as [|p feats IH]; intros g f0 k poly a b c Hn Hs Hc; [destruct k; discriminate|].
  cbn [fold_left]. destruct k as [|k].
  - injection Hn as ->. rewrite Nat.add_0_r. apply build_mono. unfold add_feature. eapply add_feature_in; eassumption.
  - replace (f0 + S k)%nat with (S f0 + k)%nat by lia. eapply IH; eassumption.
Qed.

(* no false negative for a point request: feature k has a segment with a point in the cell of (x, y) *)
Theorem request_complete feats k poly a b lam x y :
  nth_error feats k = Some poly -> In (a, b) (segments poly) -> 0 <= lam <= 1 ->
  Zfloor (fst a + lam * (fst b - fst a)) = Zfloor x -> Zfloor (snd a + lam * (snd b - snd a)) = Zfloor y ->
  In k (request (build feats) x y).
Proof.
  intros Hn Hs Hl Hx Hy. unfold request, build. rewrite <- Hx, <- Hy.
  change k with (0 + k)%nat. eapply build_in; [eassumption | eassumption |].
  apply cells_complete. assumption.
Qed.
Print Assumptions request_complete.
