(* C02, surface syntax, part 2: a surface expression evaluates as its lowered tree *)
From Coq Require Import List Ascii String Bool Arith Lia.
Import ListNotations.
From TL Require Import Model.Str Model.Rpn Model.Table Model.Eval Model.Pipeline Proofs.Rpn_parse Proofs.Replace Proofs.Surface Proofs.Eval_top.
Open Scope char_scope.

(* ------------------------------------------------------------------ a surface expression evaluates as its lowered tree *)

Definition eval_rest (t : track) (e : str) : res (track * option (list val)) :=
  let void := contains (s_ "=") e in
  let e := if void then e else s_ "#output = " ++ e in
  do toks <- rpn_res (makeRPN (S (List.length e)) e);
  do t1 <- run_rpn toks t [] 0;
  if void then Ok (t1, None)
  else do out <- get_af t1 (s_ "#output"); do t2 <- remove_af t1 (s_ "#output"); Ok (t2, Some out).

Lemma evaluate_split t s : evaluate t s = do e <- preprocess (filter (fun c => negb (Ascii.eqb c " ")) s); eval_rest t e.
Proof. unfold evaluate, preprocess, eval_rest. cbv zeta. destruct (unary_op _) as [e|err]; cbn [bind]; reflexivity. Qed.

Lemma preprocess_clean s : clean s = true -> preprocess s = Ok s.
Proof. intros H. unfold preprocess. rewrite (special_id _ H), (reflex_id _ H), (unary_id _ H). cbn [bind]. rewrite (mark_id _ H). reflexivity. Qed.

Lemma nm_nospace s : forallb nm s = true -> forallb (fun c => negb (Ascii.eqb c " ")) s = true.
Proof.
  intros H. rewrite forallb_forall in *. intros c Hc. specialize (H c Hc). destruct (Ascii.eqb_spec c " ") as [->|]; [discriminate H | reflexivity].
Qed.
Lemma sprint_nospace P x : ppok P -> swf x -> forallb (fun c => negb (Ascii.eqb c " ")) (sprintg P x) = true.
Proof.
  intros HP Hx. induction x as [s|op l IHl r IHr|e IH|e IH|b f e IH]; cbn [sprintg]; rewrite ?forallb_app.
  - destruct Hx as [_ [Hs _]]. apply nm_nospace. exact Hs.
  - destruct Hx as [Ho [Hl Hr]]. rewrite (IHl Hl), (IHr Hr). cbn [forallb]. destruct (Ascii.eqb_spec op " ") as [->|]; [discriminate Ho | reflexivity].
  - rewrite (IH Hx). reflexivity.
  - rewrite (IH Hx). destruct HP as [[-> | ->] _]; reflexivity.
  - destruct Hx as [Hf He]. destruct (key_facts f Hf) as [_ [Hnm _]]. rewrite (nm_nospace f Hnm), (IH He).
    destruct HP as [_ [Ho Hc]]. destruct (Ho b f) as [-> | [-> | ->]]; destruct (Hc b) as [-> | ->]; reflexivity.
Qed.

Theorem surface_evaluate x t : swf x -> clean (print (lower x)) = true -> evaluate t (sprint x) = evaluate t (print (lower x)).
Proof.
  intros Hx Hc. rewrite !evaluate_split.
  rewrite (filter_nospace (sprint x)) by (apply sprint_nospace; [exact ppok0 | exact Hx]).
  assert (Hsp : forallb (fun c => negb (Ascii.eqb c " ")) (print (lower x)) = true).
  { unfold clean in Hc. apply andb_prop in Hc. destruct Hc as [Hc _]. apply andb_prop in Hc. destruct Hc as [Hc _]. apply andb_prop in Hc. apply Hc. }
  rewrite (filter_nospace _ Hsp). rewrite (preprocess_sprint x Hx), (preprocess_clean _ Hc). reflexivity.
Qed.

Corollary surface_operate x t : swf x -> clean (print (lower x)) = true -> operate_str t (sprint x) = operate_str t (print (lower x)).
Proof. intros Hx Hc. unfold operate_str. rewrite (surface_evaluate x t Hx Hc). reflexivity. Qed.
Print Assumptions surface_operate.

(* example: -a+ABS{b}*SUM(a)  written  (-a)+ABS{b}*SUM(a) *)
Definition x_ex : sx := XBin "+" (XNeg (XAtom (s_ "a"))) (XBin "*" (XCall true (s_ "ABS") (XAtom (s_ "b"))) (XCall false (s_ "SUM") (XAtom (s_ "a")))).
Example x_ex_ok : sprint x_ex = s_ "(-a)+ABS{b}*SUM(a)" /\ print (lower x_ex) = s_ "(0-a)+ABS@(b)*SUM@(a)" /\ clean (print (lower x_ex)) = true.
Proof. repeat split; reflexivity. Qed.

(* end to end: Track.operate on the surface spelling returns the denotation of the lowered tree and leaves the track as it was *)
From TL Require Import Proofs.Table_inv Proofs.Eval_sem Proofs.Eval_machine Proofs.Eval_operate.
Corollary surface_operate_correct x t d :
  swf x ->
  Inv t -> coords_ok t -> Table.size t <> 0%nat -> fresh_from t 0 -> has_af t out_name = false ->
  (forall m, In m (names t) -> is_temp m = false) ->
  wf (lower x) -> wfe t (lower x) -> (0 < minclass (lower x))%nat -> clean (print (lower x)) = true -> sem t (lower x) = Ok d ->
  exists t3, operate_str t (sprint x) = Ok (t3, Some (dcol (Table.size t) d))
    /\ Inv t3 /\ names t3 = names t
    /\ (forall m, has_af t m = true -> get_af t3 m = get_af t m)
    /\ xs t3 = xs t /\ ys t3 = ys t /\ zs t3 = zs t /\ ts t3 = ts t.
Proof.
  intros Hx HI Hco Hs Hf Ho Hnt Hwf Hwfe Hm Hc Hsem. rewrite (surface_operate x t Hx Hc).
  exact (operate_correct (lower x) t d HI Hco Hs Hf Ho Hnt Hwf Hwfe Hm Hc Hsem).
Qed.
Print Assumptions surface_operate_correct.
