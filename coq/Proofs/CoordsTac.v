(* Tactics for the pointwise, kernel-checked enclosures of the coordinate model (C14 correspondence):
   the model over R is evaluated by Coq-Interval at the sampled input and compared with the value the implementation returned. *)
From Coq Require Import Reals Lra.
From Interval Require Import Tactic.
From TL Require Import Proofs.Atan2 Proofs.Bowring Proofs.CoordsENU Proofs.CoordsDeg.
Open Scope R_scope.

Ltac consts := unfold Re, Fe, Bowring.b, Bowring.e, d2r, r2d, nrad in *.
Ltac iv := consts; interval with (i_prec 90).

(* replace an equation  expr = v  by an enclosure of v *)
Ltac encl H :=
  match type of H with ?t = ?v => let I := fresh "I" in interval_intro t with (i_prec 90) as I; rewrite H in I; clear H end.

(* choose the branch of one atan2 whose arguments have a provable sign (innermost first, by backtracking) *)
Ltac atan2_goal :=
  match goal with |- context [atan2 ?y ?x] =>
    first [ rewrite (atan2_right y x) by iv | rewrite (atan2_left_up y x) by iv | rewrite (atan2_left_down y x) by iv ] end.
Ltac atan2_hyp H :=
  match type of H with context [atan2 ?y ?x] =>
    first [ rewrite (atan2_right y x) in H by iv | rewrite (atan2_left_up y x) in H by iv | rewrite (atan2_left_down y x) in H by iv ] end.

(* H : geo_to_ecef_deg (lon, lat, h) = (X, Y, Z)   ~>   enclosures of X, Y, Z *)
Ltac stage_fwd H :=
  unfold geo_to_ecef_deg, geo_to_ecef in H; consts;
  let HX := fresh "HX" in let HY := fresh "HY" in let HZ := fresh "HZ" in
  injection H as HX HY HZ; encl HX; encl HY; encl HZ.

(* H : ecef_to_geo_deg (X, Y, Z) = (lo, la, h)   ~>   enclosures of lo, la, h   (X, Y, Z literals or enclosed variables) *)
Ltac stage_inv H :=
  unfold ecef_to_geo_deg, ecef_to_geo in H; repeat atan2_hyp H; consts;
  let H1 := fresh "Hlo" in let H2 := fresh "Hla" in let H3 := fresh "Hh" in
  injection H as H1 H2 H3; encl H1; encl H2; encl H3.

(* H : enu_to_ecef a b bX bY bZ e n u = (X, Y, Z) or ecef_to_enu ... = (e, n, u) *)
Ltac stage_rot H :=
  unfold enu_to_ecef, ecef_to_enu in H; consts;
  let H1 := fresh "H1" in let H2 := fresh "H2" in let H3 := fresh "H3" in
  injection H as H1 H2 H3; encl H1; encl H2; encl H3.

Ltac close3 := repeat split; interval with (i_prec 90).
