(* Spike: C04 — head/tail trimming and decimation select the designated observations *)
From Coq Require Import List Arith ZArith Bool Lia.
Import ListNotations.
From TL Require Import Model.SeqOps.

Section S.
Variable A : Type.

Lemma firstn_all_ (l : list A) n : (length l <= n)%nat -> firstn n l = l.
Proof. apply firstn_all2. Qed.

Theorem op_gt_spec (l : list A) (n : Z) : (0 <= n)%Z -> op_gt A l n = skipn (Z.to_nat n) l.
Proof.
  intros Hn. unfold op_gt, py_slice, norm. set (N := Z.of_nat (length l)).
  destruct (Z.ltb_spec n 0); [lia|]. destruct (Z.ltb_spec N 0); [lia|].
  rewrite Z.min_id.
  destruct (Z.le_gt_cases n N) as [Hle|Hgt].
  - rewrite Z.min_l by assumption. apply firstn_all_. rewrite skipn_length. lia.
  - rewrite Z.min_r by lia. replace (Z.to_nat N) with (length l) by lia.
    rewrite !skipn_all2 by lia. destruct (Z.to_nat (N - N)); reflexivity.
Qed.

Theorem op_lt_spec (l : list A) (n : Z) : (0 <= n)%Z ->
  op_lt A l n = firstn (length l - Z.to_nat n) l.
Proof.
  intros Hn. unfold op_lt, py_slice, norm. set (N := Z.of_nat (length l)) in *.
  destruct (Z.ltb_spec 0 0); [lia|]. destruct (Z.ltb_spec (Z.max 0 (N - n)) 0); [lia|].
  rewrite !Z.min_l by lia. cbn [Z.to_nat skipn]. f_equal. lia.
Qed.

(* the rule before the repair: more observations trimmed than the track holds gives a non-empty result *)
Theorem op_lt_refuted : exists (l : list nat) (n : Z), (Z.of_nat (length l) < n)%Z /\ op_lt_old nat l n <> [].
Proof. exists [0; 1; 2], 5%Z. split; [cbn; lia | vm_compute; discriminate]. Qed.

(* decimation: element j of the result is element j*s of the input *)
Lemma every_from_nth (d : A) s : (1 <= s)%nat -> forall l k j, (k <= s - 1)%nat ->
  nth j (every_from A s k l) d = nth (k + j * s) l d.
Proof.
  intros Hs. induction l as [|x r IH]; intros k j Hk; cbn [every_from].
  - destruct j, (k + _)%nat; reflexivity.
  - destruct k as [|k'].
    + destruct j as [|j]; [reflexivity|]. cbn [nth]. rewrite IH by lia.
      replace (0 + S j * s)%nat with (S (s - 1 + j * s)) by lia. reflexivity.
    + rewrite IH by lia. reflexivity.
Qed.

Theorem op_mod_nth (d : A) (l : list A) s j : (1 <= s)%nat -> nth j (op_mod A l s) d = nth (j * s) l d.
Proof. intros Hs. unfold op_mod. rewrite every_from_nth by lia. reflexivity. Qed.

End S.
Print Assumptions op_mod_nth.
