(* C05: end-to-end statements for the two resampling loops *)
From Coq Require Import List Arith ZArith QArith Bool Lia Lqa Sorted.
Import ListNotations.
From TL Require Import Model.Resample Model.ResampleS Proofs.Resample_temporal Proofs.Resample_spatial.
Open Scope Q_scope.

(* ---- the bracket of an instant inside the track: the unique consecutive pair with T[b-1] < t <= T[b] ---- *)
Lemma bracket_pos T t : T <> [] -> nth 0 T 0 < t -> (1 <= bracket T t)%nat.
Proof.
  destruct T as [|v r]; [congruence|]. intros _ H. cbn [nth] in H. cbn [bracket].
  assert (E : Qltb v t = true) by (apply Qltb_true; exact H). rewrite E. lia.
Qed.

Theorem bracket_brackets T t : T <> [] -> increasing T -> nth 0 T 0 < t -> t <= last T 0 ->
  let b := bracket T t in
  (1 <= b < length T)%nat /\ nth (b - 1) T 0 < t /\ t <= nth b T 0.
Proof.
  intros Hne Hinc H0 Hl. cbv zeta.
  pose proof (bracket_pos T t Hne H0) as Hp.
  pose proof (bracket_last T t Hne Hl) as Hb.
  destruct (bracket_spec T t Hinc) as [H1 H2].
  split; [lia|]. split; [apply H1; lia | apply H2; exact Hb].
Qed.

(* lerp is the linear interpolation between the bracketing pair: a convex combination *)
Theorem lerp_convex T X b t : nth (b - 1) T 0 < t -> t <= nth b T 0 ->
  exists w, 0 <= w <= 1 /\ w == (t - nth (b - 1) T 0) / (nth b T 0 - nth (b - 1) T 0) /\
    lerp T X b t == nth (b - 1) X 0 + w * (nth b X 0 - nth (b - 1) X 0).
Proof.
  intros H1 H2. set (tb := nth (b - 1) T 0) in *. set (tf := nth b T 0) in *.
  assert (Hd : 0 < tf - tb) by lra.
  exists ((t - tb) / (tf - tb)). split; [|split; [reflexivity|]].
  - split.
    + apply Qle_shift_div_l; [exact Hd | lra].
    + apply Qle_shift_div_r; [exact Hd | lra].
  - unfold lerp. fold tb tf. field. lra.
Qed.

(* the abscissa (or timestamp) column interpolates to the request itself: the point sits at the requested abscissa *)
Theorem lerp_self T b t : nth (b - 1) T 0 < t -> t <= nth b T 0 -> lerp T T b t == t.
Proof. intros H1 H2. unfold lerp. field. lra. Qed.

(* ---- temporal resampling: exactly one observation per requested instant in (T0, Tlast], at the interpolant ---- *)
Theorem resample_temporal_spec T X REF : T <> [] -> increasing T -> StronglySorted Qle REF ->
  resample_temporal T X REF =
  Some (map (fun t => (t, lerp T X (bracket T t) t)) (filter (in_range (nth 0 T 0) (last T 0)) REF)).
Proof.
  intros Hne Hinc Hs. unfold resample_temporal.
  rewrite (loop_spec T X (nth 0 T 0) (last T 0) Hinc) with (rid := 0%nat) (acc := []).
  - reflexivity.
  - intros t Ht. apply bracket_last; assumption.
  - exact Hs.
  - intros; lia.
Qed.

(* ---- spatial resampling ---- *)
Definition npts (S : list Q) (ds : Q) : nat := Z.to_nat (Qtrunc ((last S 0 - nth 0 S 0) / ds)).

Lemma first_le_last S : S <> [] -> increasing S -> nth 0 S 0 <= last S 0.
Proof.
  intros Hne Hinc. destruct S as [|v r]; [congruence|]. cbn [nth].
  inversion Hinc as [|? ? Hr Hall]; subst. clear Hne Hinc.
  revert v Hall. induction r as [|w r IH]; intros v Hall; [cbn; lra|].
  inversion Hall as [|? ? Hw Hall']; subst. inversion Hr as [|? ? Hr' Hall2]; subst.
  change (last (v :: w :: r) 0) with (last (w :: r) 0).
  specialize (IH Hr' w Hall2). lra.
Qed.

Theorem resample_spatial_spec S X ds : S <> [] -> increasing S -> 0 < ds ->
  let sini := nth 0 S 0 in
  resample_spatial S X ds =
  Some ((sini, nth 0 X 0) ::
        map (fun k => (absc sini ds k, lerp S X (bracket S (absc sini ds k)) (absc sini ds k))) (seq 1 (npts S ds))).
Proof.
  intros Hne Hinc Hd. cbv zeta. unfold resample_spatial. fold (npts S ds).
  rewrite (loop_s_spec S X (nth 0 S 0) ds Hinc (Qlt_le_weak _ _ Hd)) with (rid := 0%nat) (acc := []).
  - reflexivity.
  - clear. generalize 1%nat. induction (npts S ds) as [|n IH]; intros a; cbn [seq]; constructor; [apply IH|].
    apply Forall_forall. intros x Hx. apply in_seq in Hx. lia.
  - intros k Hk. apply in_seq in Hk. split; [|lia].
    apply bracket_last; [exact Hne|].
    apply request_le_last; [exact Hd | apply first_le_last; assumption |].
    unfold npts in Hk.
    destruct (Z_le_gt_dec 0 (Qtrunc ((last S 0 - nth 0 S 0) / ds))) as [P|P]; [lia|].
    destruct (Qtrunc ((last S 0 - nth 0 S 0) / ds)) eqn:EQ; cbn in Hk; lia.
Qed.

(* every produced point (k >= 1) is bracketed strictly on the left: no division by zero, and it lies at abscissa k*ds *)
Theorem spatial_point_on_polyline S ds k : S <> [] -> increasing S -> 0 < ds -> (1 <= k <= npts S ds)%nat ->
  let s := absc (nth 0 S 0) ds k in let b := bracket S s in
  (1 <= b < length S)%nat /\ nth (b - 1) S 0 < s /\ s <= nth b S 0 /\ lerp S S b s == s.
Proof.
  intros Hne Hinc Hd Hk. cbv zeta.
  assert (H0 : nth 0 S 0 < absc (nth 0 S 0) ds k).
  { unfold absc. assert (1 <= inject_Z (Z.of_nat k)) by (change 1 with (inject_Z 1); rewrite <- Zle_Qle; lia). nra. }
  assert (Hl : absc (nth 0 S 0) ds k <= last S 0).
  { apply request_le_last; [exact Hd | apply first_le_last; assumption |]. unfold npts in Hk.
    destruct (Z_le_gt_dec 0 (Qtrunc ((last S 0 - nth 0 S 0) / ds))) as [P|P]; [lia|].
    destruct (Qtrunc ((last S 0 - nth 0 S 0) / ds)) eqn:EQ; cbn in Hk; lia. }
  destruct (bracket_brackets S _ Hne Hinc H0 Hl) as [A [B C]].
  split; [exact A|]. split; [exact B|]. split; [exact C|]. apply lerp_self; assumption.
Qed.
Print Assumptions resample_temporal_spec.
Print Assumptions resample_spatial_spec.
Print Assumptions spatial_point_on_polyline.

(* ---- interpolated timestamps never decrease (spatial mode) ---- *)
Lemma sorted_nth_le L : increasing L -> forall i j, (i <= j)%nat -> (j < length L)%nat -> nth i L 0 <= nth j L 0.
Proof.
  induction 1 as [|v L Hs IH Hall]; intros i j Hij Hj; [cbn in Hj; lia|].
  destruct i as [|i], j as [|j]; cbn [nth]; try lia; [lra | | apply IH; cbn in Hj; lia].
  rewrite Forall_forall in Hall. apply Hall. apply nth_In. cbn in Hj. lia.
Qed.

Theorem interp_mono S Y s s' : S <> [] -> increasing S -> increasing Y -> length Y = length S ->
  nth 0 S 0 < s -> s <= s' -> s' <= last S 0 ->
  lerp S Y (bracket S s) s <= lerp S Y (bracket S s') s'.
Proof.
  intros Hne HS HY Hlen H0 Hss Hl.
  destruct (bracket_brackets S s Hne HS H0 ltac:(lra)) as [[A1 A2] [B C]].
  destruct (bracket_brackets S s' Hne HS ltac:(lra) Hl) as [[A1' A2'] [B' C']].
  pose proof (bracket_mono S s s' Hss) as Hb.
  set (b := bracket S s) in *. set (b' := bracket S s') in *.
  destruct (lerp_convex S Y b s B C) as [w [[W0 W1] [Ew E]]].
  destruct (lerp_convex S Y b' s' B' C') as [w' [[W0' W1'] [Ew' E']]].
  assert (D : nth (b - 1) Y 0 <= nth b Y 0) by (apply sorted_nth_le; [exact HY | lia | lia]).
  assert (D' : nth (b' - 1) Y 0 <= nth b' Y 0) by (apply sorted_nth_le; [exact HY | lia | lia]).
  rewrite E, E'.
  destruct (Nat.eq_dec b b') as [Eb|Nb].
  - rewrite <- Eb in *. clear E E'.
    assert (Hd : 0 < nth b S 0 - nth (b - 1) S 0) by lra.
    assert (Hw : w <= w').
    { rewrite Ew, Ew'. unfold Qdiv. apply Qmult_le_compat_r; [lra|]. apply Qlt_le_weak, Qinv_lt_0_compat. exact Hd. }
    nra.
  - assert (M : nth b Y 0 <= nth (b' - 1) Y 0) by (apply sorted_nth_le; [exact HY | lia | lia]).
    nra.
Qed.
Print Assumptions interp_mono.
