(* Spike: math.atan2 as a piecewise function of atan, and atan2 (r sin l) (r cos l) = l on (-pi, pi] *)
From Coq Require Import Reals Lra.
Open Scope R_scope.

Definition atan2 (y x : R) : R :=
  if Rlt_dec 0 x then atan (y / x)
  else if Rlt_dec x 0 then (if Rle_dec 0 y then atan (y / x) + PI else atan (y / x) - PI)
  else if Rlt_dec 0 y then PI / 2 else if Rlt_dec y 0 then - (PI / 2) else 0.

Lemma tan_shift x : cos x <> 0 -> tan (x - PI) = tan x /\ tan (x + PI) = tan x.
Proof.
  intros H. unfold tan. unfold Rminus. rewrite !sin_plus, !cos_plus, sin_neg, cos_neg, sin_PI, cos_PI.
  split; field; lra.
Qed.

Lemma ratio r l : 0 < r -> cos l <> 0 -> r * sin l / (r * cos l) = tan l.
Proof. intros Hr Hc. unfold tan. field. split; lra. Qed.

Lemma atan2_polar r l : 0 < r -> - PI < l <= PI -> atan2 (r * sin l) (r * cos l) = l.
Proof.
  intros Hr [Hlo Hhi]. pose proof PI_RGT_0 as Hpi. unfold atan2.
  destruct (Rlt_dec (- (PI / 2)) l) as [H1|H1].
  - destruct (Rlt_dec l (PI / 2)) as [H2|H2].
    + (* right half plane *)
      pose proof (cos_gt_0 l H1 H2) as Hc.
      destruct (Rlt_dec 0 (r * cos l)) as [_|N]; [|exfalso; apply N; apply Rmult_lt_0_compat; assumption].
      rewrite ratio by lra. apply atan_tan. lra.
    + destruct (Req_dec l (PI / 2)) as [->|Hne].
      * rewrite cos_PI2, sin_PI2, Rmult_0_r, Rmult_1_r.
        destruct (Rlt_dec 0 0); [lra|]. destruct (Rlt_dec 0 r); [reflexivity | lra].
      * (* second quadrant *)
        assert (Hc : cos l < 0) by (apply cos_lt_0; lra).
        assert (Hs : 0 <= sin l) by (apply sin_ge_0; lra).
        assert (Hx : r * cos l < 0) by nra.
        destruct (Rlt_dec 0 (r * cos l)); [lra|]. destruct (Rlt_dec (r * cos l) 0); [|lra].
        destruct (Rle_dec 0 (r * sin l)) as [_|N]; [|exfalso; apply N; apply Rmult_le_pos; lra].
        rewrite ratio by lra. destruct (tan_shift l ltac:(lra)) as [<- _]. rewrite atan_tan; lra.
  - destruct (Req_dec l (- (PI / 2))) as [->|Hne].
    + rewrite cos_neg, sin_neg, cos_PI2, sin_PI2, Rmult_0_r.
      repeat match goal with |- context [Rlt_dec ?a ?b] => destruct (Rlt_dec a b); try lra end.
    + (* third quadrant *)
      assert (Hc : cos l < 0).
      { rewrite <- cos_neg. apply cos_lt_0; lra. }
      assert (Hs : sin l < 0).
      { assert (0 < sin (- l)) by (apply sin_gt_0; lra). rewrite sin_neg in H. lra. }
      assert (Hx : r * cos l < 0) by nra.
      assert (Hy : r * sin l < 0) by nra.
      destruct (Rlt_dec 0 (r * cos l)); [lra|]. destruct (Rlt_dec (r * cos l) 0); [|lra].
      destruct (Rle_dec 0 (r * sin l)); [lra|].
      rewrite ratio by lra. destruct (tan_shift l ltac:(lra)) as [_ <-]. rewrite atan_tan; lra.
Qed.
Print Assumptions atan2_polar.
