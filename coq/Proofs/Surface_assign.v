(* C02, surface syntax, part 3: "name=<surface expression>" is rewritten by the string passes into "name=<lowered expression>" *)
From Coq Require Import List Ascii String Bool Arith Lia.
Import ListNotations.
From TL Require Import Model.Str Model.Rpn Model.Table Model.Eval Model.Pipeline Proofs.Rpn_parse Proofs.Replace Proofs.Surface Proofs.Surface_eval
                       Proofs.Eval_top Proofs.Eval_assign.
Open Scope char_scope.

Section Assign.
Variable lhs : str.
Hypothesis Hl : lhs_ok lhs.
Let A : str := lhs ++ ["="].

Lemma A_ne : A <> [].
Proof. unfold A. destruct lhs; discriminate. Qed.
Lemma A_last : last A " " = "=".
Proof. unfold A. apply last_app_ne. discriminate. Qed.
Lemma A_notin c : special c = true -> c <> "=" -> ~ In c A.
Proof.
  intros Hs Hc Hin. unfold A in Hin. apply in_app_or in Hin. destruct Hin as [Hin|[E|[]]]; [|congruence].
  destruct Hl as [_ [H _]]. rewrite forallb_forall in H. specialize (H c Hin). rewrite Hs in H. discriminate.
Qed.
Lemma A_nobrace c : (c = "{" \/ c = "}") -> ~ In c A.
Proof.
  intros Hc Hin. unfold A in Hin. apply in_app_or in Hin. destruct Hin as [Hin|[E|[]]]; [|destruct Hc; congruence].
  destruct Hl as [_ [_ H]]. rewrite forallb_forall in H. specialize (H c Hin). destruct Hc as [-> | ->]; discriminate H.
Qed.

(* a pass that cannot straddle the '=' and finds nothing in "name=" leaves that prefix alone *)
Lemma R_prefix pat rep B : pat <> [] -> no_straddle pat A B -> R pat rep A = A -> R pat rep (A ++ B) = A ++ R pat rep B.
Proof. intros Hp Hs Ha. rewrite (R_app pat rep Hp A B Hs), Ha. reflexivity. Qed.

Variable x : sx.
Hypothesis Hx : swf x.

Lemma hdB P : ppok P -> hd_ok (hd " " (sprintg P x)) = true /\ sprintg P x <> [].
Proof. intros HP. split; [apply hd_sprint | apply sprint_ne]; assumption. Qed.

(* two-character patterns that do not occur: the second character is an operator-like character other than '=' *)
Lemma R2_prefix P p1 p2 rep : ppok P -> adjb p1 p2 = false -> special p2 = true -> p2 <> "=" -> (p1 <> "=" \/ p2 = "-" \/ p2 = "+") ->
  replace [p1; p2] rep (A ++ sprintg P x) = A ++ sprintg P x.
Proof.
  intros HP Ha Hs2 Hn2 Hc. change (replace [p1; p2] rep (A ++ sprintg P x)) with (R [p1; p2] rep (A ++ sprintg P x)).
  rewrite R_prefix; [| discriminate | |].
  - f_equal. apply (R2_id P x p1 p2 rep HP Hx Ha).
  - destruct (Ascii.eqb_spec p1 "=") as [->|N1].
    + apply no_straddle_hd. right. destruct (hdB P HP) as [Hh _]. intros [E|[E|[]]].
      * rewrite <- E in Hh. discriminate Hh.
      * destruct Hc as [N|[-> | ->]]; [congruence | rewrite <- E in Hh; discriminate Hh | rewrite <- E in Hh; discriminate Hh].
    + apply no_straddle_last. right. rewrite A_last. cbn. intros [E|[]]. congruence.
  - apply (R_nochar _ _ A p2); [right; left; reflexivity | apply A_notin; assumption].
Qed.

Lemma pre_lbrace : R (s_ "{") (s_ "@(") (A ++ sprintg P0 x) = A ++ sprintg P1 x.
Proof.
  rewrite R_prefix; [rewrite (pass_lbrace x Hx); reflexivity | discriminate | apply no_straddle1 |].
  apply (R_nochar (s_ "{") (s_ "@(") A "{"); [left; reflexivity | apply A_nobrace; left; reflexivity].
Qed.
Lemma pre_rbrace : R (s_ "}") (s_ ")") (A ++ sprintg P1 x) = A ++ sprintg P2 x.
Proof.
  rewrite R_prefix; [rewrite (pass_rbrace x Hx); reflexivity | discriminate | apply no_straddle1 |].
  apply (R_nochar (s_ "}") (s_ ")") A "}"); [left; reflexivity | apply A_nobrace; right; reflexivity].
Qed.
Lemma pre_neg : R (s_ "(-") (s_ "(0-") (A ++ sprintg P2 x) = A ++ sprintg P3 x.
Proof.
  rewrite R_prefix; [rewrite (pass_neg x Hx); reflexivity | discriminate | |].
  - apply no_straddle_last. right. rewrite A_last. intros [E|[]]. discriminate E.
  - apply (R_nochar (s_ "(-") (s_ "(0-") A "("); [left; reflexivity | apply A_notin; [reflexivity | discriminate]].
Qed.
Lemma pre_key ks k : In k fun_keys -> R (kpat k) (krep k) (A ++ sprintg (Pm ks) x) = A ++ sprintg (Pm (ks ++ [k])) x.
Proof.
  intros Hk. destruct (key_facts k Hk) as [Hkne [Hknm _]].
  rewrite R_prefix; [rewrite (pass_key ks k x Hk Hx); reflexivity | apply kpat_ne | |].
  - apply no_straddle_last. right. rewrite A_last, removelast_kpat. apply nm_not; [exact Hknm | reflexivity].
  - apply (R_nochar (kpat k) (krep k) A "("); [unfold kpat; apply in_or_app; right; left; reflexivity | apply A_notin; [reflexivity | discriminate]].
Qed.
Lemma pre_mark_fold : forall done todo, (forall k, In k todo -> In k fun_keys) ->
  fold_left (fun e k => replace (k ++ s_ "(") (k ++ s_ "@(") e) todo (A ++ sprintg (Pm done) x) = A ++ sprintg (Pm (done ++ todo)) x.
Proof.
  intros done todo. revert done. induction todo as [|k todo IH]; intros done Hin; [rewrite app_nil_r; reflexivity|].
  cbn [fold_left]. change (replace (k ++ s_ "(") (k ++ s_ "@(") (A ++ sprintg (Pm done) x)) with (R (kpat k) (krep k) (A ++ sprintg (Pm done) x)).
  rewrite (pre_key done k (Hin k (or_introl eq_refl))). rewrite IH by (intros k' Hk'; apply Hin; right; exact Hk').
  rewrite <- app_assoc. reflexivity.
Qed.

Theorem preprocess_assign : preprocess (A ++ sprint x) = Ok (A ++ print (lower x)).
Proof.
  unfold preprocess, sprint, special_op_char.
  change (replace (s_ "**") (s_ "^") (A ++ sprintg P0 x)) with (replace ["*"; "*"] (s_ "^") (A ++ sprintg P0 x)).
  rewrite (R2_prefix P0 "*" "*" _ ppok0 eq_refl eq_refl ltac:(discriminate) ltac:(left; discriminate)).
  change (replace (s_ ".*") (s_ "!") (A ++ sprintg P0 x)) with (replace ["."; "*"] (s_ "!") (A ++ sprintg P0 x)).
  rewrite (R2_prefix P0 "." "*" _ ppok0 eq_refl eq_refl ltac:(discriminate) ltac:(left; discriminate)).
  change (replace (s_ "{") (s_ "@(") (A ++ sprintg P0 x)) with (R (s_ "{") (s_ "@(") (A ++ sprintg P0 x)). rewrite pre_lbrace.
  change (replace (s_ "}") (s_ ")") (A ++ sprintg P1 x)) with (R (s_ "}") (s_ ")") (A ++ sprintg P1 x)). rewrite pre_rbrace.
  change (replace (s_ ">>") (s_ "&") (A ++ sprintg P2 x)) with (replace [">"; ">"] (s_ "&") (A ++ sprintg P2 x)).
  rewrite (R2_prefix P2 ">" ">" _ ppok2 eq_refl eq_refl ltac:(discriminate) ltac:(left; discriminate)).
  change (replace (s_ "<<") (s_ "$") (A ++ sprintg P2 x)) with (replace ["<"; "<"] (s_ "$") (A ++ sprintg P2 x)).
  rewrite (R2_prefix P2 "<" "<" _ ppok2 eq_refl eq_refl ltac:(discriminate) ltac:(left; discriminate)).
  (* reflexive operators: none *)
  assert (Hrf : convert_reflex (A ++ sprintg P2 x) = A ++ sprintg P2 x).
  { unfold convert_reflex. set (s := A ++ sprintg P2 x).
    assert (G : forall ops, (forall op, In op ops -> contains (op ++ s_ "=") s = false) ->
      fold_left (fun e op => let pat := op ++ s_ "=" in
        if contains pat e then match split_first pat e with
          | Some (a, rest) => let b := match split_first pat rest with Some (b, _) => b | None => rest end in
                              a ++ s_ "=" ++ a ++ op ++ s_ "(" ++ b ++ s_ ")"
          | None => e end else e) ops s = s).
    { induction ops as [|op ops IH]; intros Hops; [reflexivity|]. cbn [fold_left]. cbv zeta.
      rewrite (Hops op (or_introl eq_refl)). apply IH. intros op' Hin. apply Hops. right. assumption. }
    apply G. intros op Hin. unfold s, A. rewrite <- app_assoc. cbn [app].
    assert (Hops : op <> [] /\ forallb special op = true).
    { unfold reflex_ops in Hin. cbn [map] in Hin. repeat (destruct Hin as [<-|Hin]; [split; [discriminate | reflexivity]|]). destruct Hin. }
    destruct Hops as [Hone Hsp].
    destruct (contains (op ++ s_ "=") (lhs ++ "=" :: sprintg P2 x)) eqn:E; [|reflexivity]. exfalso.
    destruct (contains_sep _ "=" (sprintg P2 x) lhs E) as [Ha|[Hb|[a1 [a2 [p3 [Ea [Ep Hp3]]]]]]].
    - (* inside the name: it would contain an operator character *)
      assert (Hin' : In (hd " " op) lhs) by (apply (contains_chars _ lhs Ha); apply in_or_app; left; destruct op; [congruence | left; reflexivity]).
      destruct Hl as [_ [H _]]. rewrite forallb_forall in H. specialize (H _ Hin').
      rewrite (forallb_hd special op " " Hone Hsp) in H. discriminate.
    - (* inside the expression *)
      assert (Ep : op ++ s_ "=" = removelast op ++ [last op " "; "="]) by (rewrite (app_removelast_last " " Hone) at 1; rewrite <- app_assoc; reflexivity).
      rewrite Ep in Hb. apply contains_drop in Hb. rewrite (no2 P2 x _ _ ppok2 Hx (adj_eq_false _)) in Hb. discriminate.
    - (* across the '=' : the name would end with the operator *)
      assert (Ea2 : a2 = op).
      { assert (H1 : op ++ ["="] = a2 ++ "=" :: p3) by exact Ep.
        destruct p3 as [|y p3].
        - apply app_inj_tail in H1. destruct H1 as [H1 _]. symmetry. exact H1.
        - exfalso. assert (Hin' : In "=" op).
          { assert (H2 : op ++ ["="] = (a2 ++ "=" :: removelast (y :: p3)) ++ [last (y :: p3) " "]).
            { rewrite H1. rewrite (app_removelast_last " " (l := y :: p3)) at 1 by discriminate. rewrite <- app_assoc. reflexivity. }
            apply app_inj_tail in H2. destruct H2 as [H2 _]. rewrite H2. apply in_or_app. right. left. reflexivity. }
          rewrite forallb_forall in Hsp. pose proof (Hsp _ Hin') as Hq.
          unfold reflex_ops in Hin. cbn [map] in Hin. repeat (destruct Hin as [<-|Hin]; [cbn in Hin'; repeat (destruct Hin' as [Hin'|Hin']; [discriminate Hin'|]); destruct Hin'|]). destruct Hin. }
      subst a2. assert (Hin' : In (last op " ") lhs) by (rewrite Ea; apply in_or_app; right; apply last_in; exact Hone).
      destruct Hl as [_ [H _]]. rewrite forallb_forall in H. specialize (H _ Hin').
      rewrite (forallb_last special op " " Hone Hsp) in H. discriminate. }
  rewrite Hrf.
  (* unary operators *)
  unfold unary_op.
  assert (Hhd : exists c0 r0, A ++ sprintg P2 x = c0 :: r0 /\ Ascii.eqb c0 "-" || Ascii.eqb c0 "+" = false).
  { destruct Hl as [Hne [Hsp _]]. unfold A. destruct lhs as [|c0 r0]; [congruence|]. exists c0, ((r0 ++ ["="]) ++ sprintg P2 x). split; [reflexivity|].
    cbn [forallb] in Hsp. apply andb_prop in Hsp. destruct Hsp as [Hc _]. apply negb_true_iff in Hc.
    destruct (Ascii.eqb_spec c0 "-") as [->|]; [discriminate Hc|]. destruct (Ascii.eqb_spec c0 "+") as [->|]; [discriminate Hc | reflexivity]. }
  destruct Hhd as [c0 [r0 [Es Hc0]]]. rewrite Es, Hc0, <- Es.
  change (replace (s_ "=-") (s_ "=0-") (A ++ sprintg P2 x)) with (replace ["="; "-"] (s_ "=0-") (A ++ sprintg P2 x)).
  rewrite (R2_prefix P2 "=" "-" _ ppok2 eq_refl eq_refl ltac:(discriminate) ltac:(right; left; reflexivity)).
  change (replace (s_ "=+") (s_ "=0+") (A ++ sprintg P2 x)) with (replace ["="; "+"] (s_ "=0+") (A ++ sprintg P2 x)).
  rewrite (R2_prefix P2 "=" "+" _ ppok2 eq_refl eq_refl ltac:(discriminate) ltac:(right; right; reflexivity)).
  change (replace (s_ "(-") (s_ "(0-") (A ++ sprintg P2 x)) with (R (s_ "(-") (s_ "(0-") (A ++ sprintg P2 x)). rewrite pre_neg.
  change (replace (s_ "(+") (s_ "(0+") (A ++ sprintg P3 x)) with (replace ["("; "+"] (s_ "(0+") (A ++ sprintg P3 x)).
  rewrite (R2_prefix P3 "(" "+" _ ppok3 eq_refl eq_refl ltac:(discriminate) ltac:(left; discriminate)).
  change (replace (s_ "--") (s_ "+") (A ++ sprintg P3 x)) with (replace ["-"; "-"] (s_ "+") (A ++ sprintg P3 x)).
  rewrite (R2_prefix P3 "-" "-" _ ppok3 eq_refl eq_refl ltac:(discriminate) ltac:(left; discriminate)).
  change (replace (s_ "++") (s_ "+") (A ++ sprintg P3 x)) with (replace ["+"; "+"] (s_ "+") (A ++ sprintg P3 x)).
  rewrite (R2_prefix P3 "+" "+" _ ppok3 eq_refl eq_refl ltac:(discriminate) ltac:(left; discriminate)).
  change (replace (s_ "+-") (s_ "-") (A ++ sprintg P3 x)) with (replace ["+"; "-"] (s_ "-") (A ++ sprintg P3 x)).
  rewrite (R2_prefix P3 "+" "-" _ ppok3 eq_refl eq_refl ltac:(discriminate) ltac:(left; discriminate)).
  change (replace (s_ "-+") (s_ "-") (A ++ sprintg P3 x)) with (replace ["-"; "+"] (s_ "-") (A ++ sprintg P3 x)).
  rewrite (R2_prefix P3 "-" "+" _ ppok3 eq_refl eq_refl ltac:(discriminate) ltac:(left; discriminate)).
  cbn [bind]. unfold mark_functions. change (sprintg P3 x) with (sprintg (Pm []) x).
  rewrite (pre_mark_fold [] fun_keys (fun k H => H)). cbn [app]. rewrite (sprint_marked x Hx), sprint_final. reflexivity.
Qed.
End Assign.
Print Assumptions preprocess_assign.

Lemma preprocess_assign_str lhs e : lhs_ok lhs -> clean (print e) = true -> preprocess (assign_str lhs e) = Ok (assign_str lhs e).
Proof.
  intros Hl Hc. assert (HP : forall p, In p pats -> contains p (assign_str lhs e) = false) by (intros p Hp; apply assign_no_pat; assumption).
  unfold preprocess. rewrite (special_id_g _ HP), (reflex_id_g _ HP).
  destruct Hl as [Hne [Hsp Hbr]]. destruct lhs as [|c0 r0] eqn:El; [congruence|].
  assert (Hc0 : Ascii.eqb c0 "-" || Ascii.eqb c0 "+" = false).
  { cbn [forallb] in Hsp. apply andb_prop in Hsp. destruct Hsp as [Hx _]. apply negb_true_iff in Hx.
    destruct (Ascii.eqb_spec c0 "-") as [->|]; [discriminate Hx|]. destruct (Ascii.eqb_spec c0 "+") as [->|]; [discriminate Hx | reflexivity]. }
  rewrite (unary_id_g _ HP c0 (r0 ++ "="%char :: print e) eq_refl Hc0). cbn [bind]. rewrite (mark_id_g _ HP). reflexivity.
Qed.

Theorem surface_assign_evaluate lhs x t : lhs_ok lhs -> swf x -> clean (print (lower x)) = true ->
  evaluate t (lhs ++ "="%char :: sprint x) = evaluate t (assign_str lhs (lower x)).
Proof.
  intros Hl Hx Hc. rewrite !evaluate_split.
  assert (Hsp1 : forallb (fun c => negb (Ascii.eqb c " ")) (lhs ++ "="%char :: sprint x) = true).
  { rewrite forallb_app, (lhs_nospace lhs Hl). cbn [forallb]. pose proof (sprint_nospace P0 x ppok0 Hx) as Hs. unfold sprint. rewrite Hs. reflexivity. }
  assert (Hsp2 : forallb (fun c => negb (Ascii.eqb c " ")) (assign_str lhs (lower x)) = true).
  { unfold assign_str. rewrite forallb_app, (lhs_nospace lhs Hl). cbn [forallb].
    unfold clean in Hc. apply andb_prop in Hc. destruct Hc as [Hc' _]. apply andb_prop in Hc'. destruct Hc' as [Hc' _]. apply andb_prop in Hc'. destruct Hc' as [_ Hc']. rewrite Hc'. reflexivity. }
  rewrite (filter_nospace _ Hsp1), (filter_nospace _ Hsp2).
  replace (lhs ++ "="%char :: sprint x) with ((lhs ++ ["="%char]) ++ sprint x) by (rewrite <- app_assoc; reflexivity).
  rewrite (preprocess_assign lhs Hl x Hx), (preprocess_assign_str lhs (lower x) Hl Hc).
  unfold assign_str. rewrite <- app_assoc. reflexivity.
Qed.

Corollary surface_assign_operate lhs x t : lhs_ok lhs -> swf x -> clean (print (lower x)) = true ->
  operate_str t (lhs ++ "="%char :: sprint x) = operate_str t (assign_str lhs (lower x)).
Proof. intros Hl Hx Hc. unfold operate_str. rewrite (surface_assign_evaluate lhs x t Hl Hx Hc). reflexivity. Qed.
Print Assumptions surface_assign_operate.
