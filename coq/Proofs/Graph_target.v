(* C06 / C07 end to end: what Network.shortest_distance(s, t) and shortest_path(s, t) observe after the
   (targeted, cut-off) forward run with the model's own fuel *)
From Coq Require Import List Arith ZArith QArith Bool Lia Lqa.
Import ListNotations.
From TL Require Import Model.Graph Proofs.Graph_inv Proofs.Graph_step Proofs.Graph_final Proofs.Graph_stop Proofs.Graph_fuel Proofs.Graph_ante.
Open Scope Q_scope.

(* the state left by a pop that triggers a stop condition: the popped key leaves the queue, nothing else changes *)
Definition popped (s : st) (u : nat) : st :=
  {| poids := poids s; visite := visite s; ante := ante s; fil := remove_nat u (fil s); out := out s |}.

(* output_dict entries: a settled node is recorded with its (final) value, which did not exceed the cut *)
Definition InvO (cut : Q) (s : st) : Prop :=
  forall u d, In (u, d) (out s) -> poids s u = Some d /\ visite s u = true /\ d <= cut.

Lemma relax_keeps_visited u du s e v : visite s v = true -> poids (relax u du s e) v = poids s v.
Proof.
  intros Hv. unfold relax. destruct (visite s (fils e u)) eqn:Ev; [reflexivity|].
  destruct (match poids s (fils e u) with None => true | Some dv => if Qlt_le_dec (du + ew e) dv then true else false end); [|reflexivity].
  cbn [poids]. rewrite upd_other; [reflexivity|]. intros E. subst v. congruence.
Qed.

Lemma relax_vis_out u du s e : visite (relax u du s e) = visite s /\ out (relax u du s e) = out s.
Proof.
  unfold relax. destruct (visite s (fils e u)); [auto|].
  destruct (match poids s (fils e u) with None => true | Some dv => if Qlt_le_dec (du + ew e) dv then true else false end); auto.
Qed.

Lemma fold_relax_invO cut u du : forall l s, InvO cut s -> InvO cut (fold_left (relax u du) l s).
Proof.
  induction l as [|e l IH]; intros s HO; [exact HO|]. cbn [fold_left]. apply IH.
  intros v d Hin. destruct (relax_vis_out u du s e) as [V O]. rewrite O in Hin. destruct (HO v d Hin) as [P [Vv C]].
  split; [rewrite relax_keeps_visited; assumption|]. split; [rewrite V; assumption | assumption].
Qed.

Lemma settle_invO cut g u du s : InvO cut s -> poids s u = Some du -> du <= cut -> InvO cut (settle g u du s).
Proof.
  intros HO Hdu Hc. unfold settle. apply fold_relax_invO.
  intros v d Hin. cbn [out poids visite] in *. apply in_app_or in Hin. destruct Hin as [Hin|[E|[]]].
  - destruct (HO v d Hin) as [P [V C]]. split; [assumption|]. split; [|assumption].
    unfold upd. destruct (v =? u)%nat; [reflexivity | assumption].
  - injection E as <- <-. split; [assumption|]. split; [apply upd_same | assumption].
Qed.

Inductive outcome (g : graph) (src : nat) (target : option nat) (cut : Q) : st -> Prop :=
| out_stop s u du : Inv g src s -> InvA g src s -> InvO cut s -> pop_min s = Some u -> poids s u = Some du ->
    (cut < du \/ target = Some u) -> outcome g src target cut (popped s u)
| out_empty s : Inv g src s -> InvA g src s -> InvO cut s -> fil s = [] -> outcome g src target cut s.

Lemma run_outcome g src target cut : nonneg g ->
  forall fuel s, Inv g src s -> InvA g src s -> InvO cut s -> InU (universe g src) s -> (unvis (universe g src) s < fuel)%nat ->
  outcome g src target cut (run fuel g target cut s).
Proof.
  intros Hnn. induction fuel as [|f IH]; intros s HI HA HO HU Hlt; [lia|].
  cbn [run]. destruct (pop_min s) as [u|] eqn:Epop.
  2:{ apply out_empty; [assumption | assumption | assumption |]. unfold pop_min in Epop. destruct (fil s); [reflexivity | discriminate]. }
  destruct (pop_min_spec g src s u HI Epop) as [Hin [du [Hdu Hmin]]].
  rewrite Hdu.
  destruct ((if Qlt_le_dec cut du then true else false) || match target with Some t => (t =? u)%nat | None => false end) eqn:Estop.
  - apply (out_stop g src target cut s u du HI HA HO Epop Hdu).
    apply orb_true_iff in Estop. destruct Estop as [E|E].
    + left. destruct (Qlt_le_dec cut du); [assumption | discriminate].
    + right. destruct target as [t|]; [|discriminate]. apply Nat.eqb_eq in E. subst. reflexivity.
  - destruct (settle_vis_U g src u du s HU) as [V I].
    destruct (settle_invA g src s u du HI HA Hin Hdu) as [HA' _].
    apply orb_false_iff in Estop. destruct Estop as [Ec _].
    assert (Hle : du <= cut) by (destruct (Qlt_le_dec cut du); [discriminate | assumption]).
    apply IH; [apply settle_inv; assumption | assumption | apply settle_invO; assumption | assumption |].
    assert (unvis (universe g src) (settle g u du s) < unvis (universe g src) s)%nat; [|lia].
    unfold unvis. rewrite V. apply (filter_length_lt _ _ _ u).
    + intros x. unfold upd. destruct (x =? u)%nat; [discriminate | auto].
    + apply HU. assumption.
    + destruct (i_Q1 _ _ _ HI u Hin) as [-> _]. reflexivity.
    + rewrite upd_same. reflexivity.
Qed.

Lemma init_outcome g src target cut : nonneg g ->
  outcome g src target cut (run (fuel_of g) g target cut (init src)).
Proof.
  intros Hnn. apply run_outcome; [assumption | apply inv_init | apply invA_init | intros u d [] | |].
  - intros v [<-|[]]. left. reflexivity.
  - unfold unvis, fuel_of. rewrite <- universe_length with (src := src).
    assert (F : forall (q : nat -> bool) l, (length (filter q l) <= length l)%nat).
    { intros q l. induction l as [|a r IHr]; [simpl; lia|]. simpl. destruct (q a); simpl; lia. }
    specialize (F (fun v => negb (visite (init src) v)) (universe g src)). lia.
Qed.

(* ---- C06: Network.shortest_distance(src, t) ---- *)
Theorem shortest_distance_correct g src t cut : nonneg g -> never_cut cut g src ->
  let s := run (fuel_of g) g (Some t) cut (init src) in
  (forall d, poids s t = Some d ->
     (exists p, walk g src t p /\ cost p == d) /\ (forall p, walk g src t p -> d <= cost p)) /\
  (poids s t = None -> forall p, ~ walk g src t p).
Proof.
  intros Hnn Hcut s. pose proof (init_outcome g src (Some t) cut Hnn) as Ho. fold s in Ho.
  destruct Ho as [s0 u du HI HA HO Epop Hdu Hstop | s0 HI HA HO Hemp].
  - destruct (pop_min_spec g src s0 u HI Epop) as [Hin [du' [Hdu' Hmin]]].
    rewrite Hdu in Hdu'. injection Hdu' as <-.
    destruct Hstop as [Hc|Ht].
    { exfalso. destruct (i_S _ _ _ HI u du Hdu) as [p [Hp Hcost]]. pose proof (Hcut u p Hp). lra. }
    injection Ht as <-. cbn [popped poids]. split.
    + intros d Hd. rewrite Hdu in Hd. injection Hd as <-. split; [apply (i_S _ _ _ HI); assumption|].
      apply (popped_is_optimal g src s0 t du Hnn HI Hin Hdu Hmin).
    + intros Hn. congruence.
  - destruct (i_src _ _ _ HI) as [d0 [Hd0 Hd0le]]. split.
    + intros d Hd. split; [apply (i_S _ _ _ HI); assumption|].
      intros p Hp. destruct (final_dominates g src s0 HI Hemp src t p Hp d0 Hd0) as [dt [Hdt Hle]].
      rewrite Hd in Hdt. injection Hdt as <-. lra.
    + intros Hn p Hp. destruct (final_dominates g src s0 HI Hemp src t p Hp d0 Hd0) as [dt [Hdt _]]. congruence.
Qed.
Print Assumptions shortest_distance_correct.

(* ---- C06: one source of Network.all_shortest_distances(cut): the entries recorded in output_dict ---- *)
Theorem table_correct g src cut : nonneg g ->
  let s := run (fuel_of g) g None cut (init src) in
  (forall t d, In (t, d) (out s) ->
     d <= cut /\ (exists p, walk g src t p /\ cost p == d) /\ (forall p, walk g src t p -> d <= cost p)) /\
  (forall t p, walk g src t p -> cost p <= cut -> exists d, In (t, d) (out s)) /\
  NoDup (map fst (out s)).
Proof.
  intros Hnn s. pose proof (init_outcome g src None cut Hnn) as Ho. fold s in Ho.
  destruct Ho as [s0 u du HI HA HO Epop Hdu Hstop | s0 HI HA HO Hemp]; cbn [popped out].
  - destruct (pop_min_spec g src s0 u HI Epop) as [Hin [du' [Hdu' Hmin]]].
    rewrite Hdu in Hdu'. injection Hdu' as <-.
    destruct Hstop as [Hc|Ht]; [|discriminate].
    split; [|split].
    + intros t d Hi. destruct (HO t d Hi) as [P [V C]]. split; [assumption|]. split; [apply (i_S _ _ _ HI); assumption|].
      intros p Hp. destruct (Qlt_le_dec cut (cost p)) as [L|L]; [lra|].
      destruct (cut_complete g src s0 u du cut Hnn HI Hin Hdu Hc Hmin t p Hp L) as [_ [dt [Hdt Hle]]].
      rewrite P in Hdt. injection Hdt as <-. assumption.
    + intros t p Hp L. destruct (cut_complete g src s0 u du cut Hnn HI Hin Hdu Hc Hmin t p Hp L) as [Hv _].
      apply (a_vis _ _ _ HA) in Hv. unfold order in Hv. apply in_map_iff in Hv. destruct Hv as [[t' d] [E Hi]]. cbn in E. subst t'. exists d. assumption.
    + apply (a_nodup _ _ _ HA).
  - destruct (i_src _ _ _ HI) as [d0 [Hd0 Hd0le]]. split; [|split].
    + intros t d Hi. destruct (HO t d Hi) as [P [V C]]. split; [assumption|]. split; [apply (i_S _ _ _ HI); assumption|].
      intros p Hp. destruct (final_dominates g src s0 HI Hemp src t p Hp d0 Hd0) as [dt [Hdt Hle]].
      rewrite P in Hdt. injection Hdt as <-. lra.
    + intros t p Hp _. destruct (final_dominates g src s0 HI Hemp src t p Hp d0 Hd0) as [dt [Hdt _]].
      assert (Hv : visite s0 t = true).
      { destruct (visite s0 t) eqn:E; [reflexivity|]. exfalso.
        assert (In t (fil s0)) by (apply (i_Q2 _ _ _ HI); congruence). rewrite Hemp in H. destruct H. }
      apply (a_vis _ _ _ HA) in Hv. unfold order in Hv. apply in_map_iff in Hv. destruct Hv as [[t' d] [E Hi]]. cbn in E. subst t'. exists d. assumption.
    + apply (a_nodup _ _ _ HA).
Qed.
Print Assumptions table_correct.
