(* C08: building the index (association-list grid, error monad) registers every feature in every cell returned for each of
   its segments, and never fails when all vertices lie inside the extent *)
From Coq Require Import List ZArith QArith Qround Lia Lqa Bool.
Import ListNotations.
From TL Require Import Model.Grid.
Open Scope Q_scope.

Lemma cell_eqb_eq a b : cell_eqb a b = true <-> a = b.
Proof.
  unfold cell_eqb. destruct a as [a1 a2], b as [b1 b2]. cbn [fst snd]. rewrite andb_true_iff, !Z.eqb_eq.
  split; [intros [-> ->]; reflexivity | intros [= -> ->]; auto].
Qed.

Lemma lookup_add_same g c f : In f (lookup (add g c f) c).
Proof.
  induction g as [|[c' l] g IH]; cbn [add lookup].
  - assert (E : cell_eqb c c = true) by (apply cell_eqb_eq; reflexivity). rewrite E. left. reflexivity.
  - destruct (cell_eqb c' c) eqn:E; cbn [lookup]; rewrite E.
    + destruct (existsb (Nat.eqb f) l) eqn:X.
      * apply existsb_exists in X. destruct X as [x [Hx Ex]]. apply Nat.eqb_eq in Ex. subst. exact Hx.
      * apply in_or_app. right. left. reflexivity.
    + exact IH.
Qed.

Lemma lookup_add_mono g c f c' x : In x (lookup g c') -> In x (lookup (add g c f) c').
Proof.
  induction g as [|[c0 l] g IH]; cbn [add lookup]; [intros []|].
  destruct (cell_eqb c0 c) eqn:E; cbn [lookup].
  - destruct (cell_eqb c0 c') eqn:E'; [|auto]. intros H.
    destruct (existsb (Nat.eqb f) l); [exact H | apply in_or_app; left; exact H].
  - destruct (cell_eqb c0 c'); [auto | exact IH].
Qed.

(* one segment: all its cells are inside the grid -> success, everything kept, every cell registered *)
Definition nonneg_cells (ix : index) (cs : list (Z * Z)) : Prop := forall c, In c cs -> (0 <= fst c < csize ix)%Z /\ (0 <= snd c < lsize ix)%Z.

Lemma wrap_id ix c : (0 <= fst c)%Z -> (0 <= snd c)%Z -> wrap ix c = c.
Proof.
  intros H1 H2. unfold wrap. destruct c as [a b]. cbn [fst snd] in *.
  destruct (Z.ltb_spec a 0); [lia|]. destruct (Z.ltb_spec b 0); [lia|]. reflexivity.
Qed.

Lemma in_grid_true ix c : (0 <= fst c < csize ix)%Z -> (0 <= snd c < lsize ix)%Z -> in_grid ix c = true.
Proof.
  intros H1 H2. unfold in_grid. repeat (apply andb_true_intro; split); try apply Z.leb_le; try apply Z.ltb_lt; lia.
Qed.

Lemma fold_cells_ok ix f : forall cs g, nonneg_cells ix cs ->
  exists g', fold_left (fun rg c => match rg with Err e => Err e | Ok g => if in_grid ix c then Ok (add g (wrap ix c) f) else Err IndexError end) cs (Ok g) = Ok g' /\
             (forall c' x, In x (lookup g c') -> In x (lookup g' c')) /\ (forall c, In c cs -> In f (lookup g' c)).
Proof.
  induction cs as [|c cs IH]; intros g Hnn; cbn [fold_left].
  - exists g. split; [reflexivity|]. split; [auto | intros c []].
  - destruct (Hnn c (or_introl eq_refl)) as [H1 H2]. rewrite (in_grid_true ix c H1 H2), (wrap_id ix c) by lia.
    destruct (IH (add g c f) (fun c0 H0 => Hnn c0 (or_intror H0))) as [g' [E [Hm Hin]]].
    exists g'. split; [exact E|]. split.
    + intros c' x Hx. apply Hm. apply lookup_add_mono. exact Hx.
    + intros c0 [<-|H0]; [apply Hm; apply lookup_add_same | apply Hin; exact H0].
Qed.

(* a feature: every vertex inside the extent, every segment's cells inside the grid *)
Definition seg_cells (ix : index) (p q : Q * Q) : option (list (Z * Z)) :=
  match get_cell ix (fst p) (snd p), get_cell ix (fst q) (snd q) with
  | Some a, Some b => Some (cells (csize ix) (lsize ix) (fst a) (snd a) (fst b) (snd b))
  | _, _ => None
  end.
Definition good_poly (ix : index) (poly : list (Q * Q)) : Prop :=
  forall p q, In (p, q) (segments poly) -> exists cs, seg_cells ix p q = Some cs /\ nonneg_cells ix cs.

Lemma seg_cells_inv ix p q cs : seg_cells ix p q = Some cs ->
  exists a b, get_cell ix (fst p) (snd p) = Some a /\ get_cell ix (fst q) (snd q) = Some b /\
              cs = cells (csize ix) (lsize ix) (fst a) (snd a) (fst b) (snd b).
Proof.
  unfold seg_cells. destruct (get_cell ix (fst p) (snd p)) as [a|]; [|discriminate].
  destruct (get_cell ix (fst q) (snd q)) as [b|]; [|discriminate]. intros [= <-]. exists a, b. auto.
Qed.

Definition feat_step (ix : index) (f : nat) (rg : res grid) (pq : (Q * Q) * (Q * Q)) : res grid :=
  let '(p, q) := pq in
  match get_cell ix (fst p) (snd p), get_cell ix (fst q) (snd q) with
  | Some a, Some b => add_segment ix rg a b f
  | _, _ => rg
  end.

Lemma add_feature_unfold ix g f poly : add_feature ix g f poly = fold_left (feat_step ix f) (segments poly) g.
Proof. unfold add_feature. f_equal. Qed.

Lemma add_feature_ok ix f : forall segs g, (forall p q, In (p, q) segs -> exists cs, seg_cells ix p q = Some cs /\ nonneg_cells ix cs) ->
  exists g', fold_left (feat_step ix f) segs (Ok g) = Ok g' /\
    (forall c' x, In x (lookup g c') -> In x (lookup g' c')) /\
    (forall p q cs c, In (p, q) segs -> seg_cells ix p q = Some cs -> In c cs -> In f (lookup g' c)).
Proof.
  induction segs as [|[p q] segs IH]; intros g Hg; cbn [fold_left].
  - exists g. split; [reflexivity|]. split; [auto | intros p q cs c []].
  - destruct (Hg p q (or_introl eq_refl)) as [cs [Ecs Hnn]].
    destruct (seg_cells_inv ix p q cs Ecs) as [a [b [Ea [Eb Ec]]]].
    unfold feat_step at 2. rewrite Ea, Eb. unfold add_segment. rewrite <- Ec.
    destruct (fold_cells_ok ix f cs g Hnn) as [g1 [E1 [M1 I1]]]. rewrite E1.
    destruct (IH g1 (fun p0 q0 H0 => Hg p0 q0 (or_intror H0))) as [g' [E [M I]]].
    exists g'. split; [exact E|]. split.
    + intros c' x Hx. apply M, M1, Hx.
    + intros p0 q0 cs0 c Hin Es Hc. destruct Hin as [Eq|Hin].
      * injection Eq as <- <-. rewrite Ecs in Es. injection Es as <-. apply M. apply I1. exact Hc.
      * eapply I; eassumption.
Qed.

(* the whole collection *)
Definition good_feats (ix : index) (feats : list (list (Q * Q))) : Prop := forall poly, In poly feats -> good_poly ix poly.

Lemma build_ok ix : forall feats g f0, good_feats ix feats ->
  exists g', fst (fold_left (fun '(g, f) poly => (add_feature ix g f poly, S f)) feats (Ok g, f0)) = Ok g' /\
    (forall c' x, In x (lookup g c') -> In x (lookup g' c')) /\
    (forall k poly p q cs c, nth_error feats k = Some poly -> In (p, q) (segments poly) -> seg_cells ix p q = Some cs -> In c cs ->
       In (f0 + k)%nat (lookup g' c)).
Proof.
  induction feats as [|poly feats IH]; intros g f0 Hg; cbn [fold_left].
  - exists g. split; [reflexivity|]. split; [auto|]. intros k poly p q cs c H. destruct k; discriminate.
  - rewrite add_feature_unfold.
    destruct (add_feature_ok ix f0 (segments poly) g (Hg poly (or_introl eq_refl))) as [g1 [E1 [M1 I1]]]. rewrite E1.
    destruct (IH g1 (S f0) (fun p0 H0 => Hg p0 (or_intror H0))) as [g' [E [M I]]].
    exists g'. split; [exact E|]. split.
    + intros c' x Hx. apply M, M1, Hx.
    + intros k poly0 p q cs c Hn Hs Es Hc. destruct k as [|k].
      * injection Hn as <-. rewrite Nat.add_0_r. apply M. eapply I1; eassumption.
      * replace (f0 + S k)%nat with (S f0 + k)%nat by lia. eapply I; eassumption.
Qed.

Theorem build_registers ix feats : good_feats ix feats ->
  exists g, build ix feats = Ok g /\
    forall k poly p q cs c, nth_error feats k = Some poly -> In (p, q) (segments poly) -> seg_cells ix p q = Some cs -> In c cs ->
      In k (lookup g c).
Proof.
  intros Hg. unfold build. destruct (build_ok ix feats [] 0%nat Hg) as [g [E [_ I]]].
  exists g. split; [exact E|]. intros k poly p q cs c Hn Hs Es Hc. apply (I k poly p q cs c Hn Hs Es Hc).
Qed.
Print Assumptions build_registers.
