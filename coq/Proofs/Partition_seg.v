(* C12, the delegating functions: optimalSegmentation(track of n fixes, cost, mode) builds the matrix C[i,j] = cost(track, i, j-1) for
   i < n-2, i <= j < n-1 (zero elsewhere), symmetrises it by C + C^T and hands it to optimalPartition; optimalSimplification keeps the fixes of
   the returned list.  Hence the list returned optimises, in the requested direction, the documented criterion: the sum of cost(a, b-1) over its
   consecutive pairs (a, b), among all strictly increasing lists from 0 to n-2. *)
From Coq Require Import List Arith QArith Bool Lia Lqa.
Import ListNotations.
From TL Require Import Model.Partition Proofs.Partition_opt Proofs.Partition_dp Proofs.Partition_main.
Open Scope Q_scope.

Definition seg_upper (n : nat) (cost : nat -> nat -> Q) : tab Q :=
  fun i j => if ((i <? n - 2) && (i <=? j) && (j <? n - 1))%nat then cost i (j - 1)%nat else 0.
Definition seg_tab (n : nat) (cost : nat -> nat -> Q) : tab Q := fun i j => seg_upper n cost i j + seg_upper n cost j i.
Definition optimal_segmentation (m : bool) (n : nat) (cost : nat -> nat -> Q) : list nat := optimal_partition m (n - 1) (seg_tab n cost).

(* the documented criterion of a list of break candidates *)
Fixpoint seg_cost (cost : nat -> nat -> Q) (l : list nat) : Q :=
  match l with a :: (b :: _) as r => cost a (b - 1)%nat + seg_cost cost r | _ => 0 end.

(* on a strictly increasing list that stays below n-1, the matrix entries are the documented costs *)
Fixpoint incr_below (bound : nat) (l : list nat) : Prop :=
  match l with a :: (b :: _) as r => (a < b)%nat /\ (b < bound)%nat /\ incr_below bound r | _ => True end.
Lemma seg_entry n cost a b : (a < b)%nat -> (b < n - 1)%nat -> seg_tab n cost a b == cost a (b - 1)%nat.
Proof.
  intros Hab Hb. unfold seg_tab, seg_upper.
  assert (E1 : ((a <? n - 2) && (a <=? b) && (b <? n - 1))%nat = true).
  { rewrite !andb_true_iff. repeat split; [apply Nat.ltb_lt | apply Nat.leb_le | apply Nat.ltb_lt]; lia. }
  assert (E2 : ((b <? n - 2) && (b <=? a) && (a <? n - 1))%nat = false).
  { assert ((b <=? a)%nat = false) by (apply Nat.leb_gt; lia). rewrite H, andb_false_r. reflexivity. }
  rewrite E1, E2. lra.
Qed.
Lemma chain_is_seg n cost l : incr_below (n - 1) l -> chain_cost (seg_tab n cost) l == seg_cost cost l.
Proof.
  induction l as [|a l IH]; intros H; [reflexivity|]. destruct l as [|b l]; [reflexivity|].
  destruct H as [Hab [Hb Hr]]. change (seg_tab n cost a b + chain_cost (seg_tab n cost) (b :: l) == cost a (b - 1)%nat + seg_cost cost (b :: l)).
  rewrite (seg_entry n cost a b Hab Hb), (IH Hr). reflexivity.
Qed.
Lemma starts_incr i j l bound : starts i j l -> (j < bound)%nat -> incr_below bound (l ++ [j]).
Proof.
  intros H Hj. induction H as [i j Hij | i k j l Hik Hs IH].
  - cbn. repeat split; lia.
  - destruct (starts_hd _ _ _ Hs) as [r ->]. cbn [app incr_below]. pose proof (starts_lt _ _ _ Hs). repeat split; [lia | lia | exact (IH Hj)].
Qed.

Theorem optimal_segmentation_correct (m : bool) (n : nat) (cost : nat -> nat -> Q) : (3 <= n)%nat ->
  let r := optimal_segmentation m n cost in
  exists l, r = l ++ [(n - 2)%nat] /\ starts 0 (n - 2) l /\
    forall l', starts 0 (n - 2) l' -> dle m (seg_cost cost r) (seg_cost cost (l' ++ [(n - 2)%nat])).
Proof.
  intros Hn. unfold optimal_segmentation.
  destruct (optimal_partition_correct m (n - 1) (seg_tab n cost) ltac:(lia)) as [l [Er [Hs Hopt]]].
  replace (n - 1 - 1)%nat with (n - 2)%nat in * by lia.
  exists l. split; [exact Er|]. split; [exact Hs|]. intros l' Hl'. specialize (Hopt l' Hl').
  rewrite Er in *.
  assert (A : chain_cost (seg_tab n cost) (l ++ [(n - 2)%nat]) == seg_cost cost (l ++ [(n - 2)%nat])) by (apply chain_is_seg, (starts_incr 0 (n - 2) l); [exact Hs | lia]).
  assert (B : chain_cost (seg_tab n cost) (l' ++ [(n - 2)%nat]) == seg_cost cost (l' ++ [(n - 2)%nat])) by (apply chain_is_seg, (starts_incr 0 (n - 2) l'); [exact Hl' | lia]).
  destruct m; cbn [dle] in *; lra.
Qed.
Print Assumptions optimal_segmentation_correct.
