From Coq Require Import List Arith ZArith QArith Bool Lia Lqa.
Import ListNotations.
From TL Require Import Model.Graph Proofs.Graph_inv Proofs.Graph_step.
Open Scope Q_scope.

(* a cut that never fires: compare against None-target, "infinite" cut is modelled by a
   hypothesis that no popped value exceeds it *)
Definition never_cut (cut : Q) (g : graph) (src : nat) : Prop :=
  forall v p, walk g src v p -> cost p <= cut.

Lemma run_inv g src cut : nonneg g -> never_cut cut g src ->
  forall fuel s, Inv g src s -> Inv g src (run fuel g None cut s).
Proof.
  intros Hnn Hcut. induction fuel as [|f IH]; intros s HI; simpl; [assumption|].
  destruct (pop_min s) as [u|] eqn:Epop; [|assumption].
  destruct (pop_min_spec g src s u HI Epop) as [Hin [du [Hdu Hmin]]].
  rewrite Hdu.
  destruct (Qlt_le_dec cut du) as [Hlt|Hle]; simpl.
  - exfalso. destruct (i_S _ _ _ HI u du Hdu) as [p [Hp Hc]].
    pose proof (Hcut u p Hp). lra.
  - apply IH. apply settle_inv; assumption.
Qed.

(* at exhaustion of the queue, every walk from src is dominated *)
Lemma final_dominates g src s :
  Inv g src s -> fil s = [] ->
  forall u t p, walk g u t p -> forall du, poids s u = Some du ->
  exists dt, poids s t = Some dt /\ dt <= du + cost p.
Proof.
  intros HI Hemp u t p Hw. induction Hw as [u|u e p t He Hw IH]; intros du Hdu.
  - exists du. split; [assumption | simpl; lra].
  - assert (Hvis : visite s u = true).
    { destruct (visite s u) eqn:E; [reflexivity|]. exfalso.
      assert (In u (fil s)) by (apply (i_Q2 _ _ _ HI); congruence). rewrite Hemp in H. destruct H. }
    destruct (i_C _ _ _ HI u e du Hvis Hdu He) as [dv [Hdv Hle]].
    destruct (IH dv Hdv) as [dt [Hdt Hle2]].
    exists dt. split; [assumption | simpl; lra].
Qed.

Theorem dijkstra_correct g src cut fuel :
  nonneg g -> never_cut cut g src ->
  let s := run fuel g None cut (init src) in
  fil s = [] ->
  forall t,
    (forall d, poids s t = Some d ->
       (exists p, walk g src t p /\ cost p == d) /\ (forall p, walk g src t p -> d <= cost p)) /\
    (poids s t = None -> forall p, ~ walk g src t p).
Proof.
  intros Hnn Hcut s Hemp t.
  assert (HI : Inv g src s) by (apply run_inv; [assumption | assumption | apply inv_init]).
  destruct (i_src _ _ _ HI) as [d0 [Hd0 Hd0le]].
  split.
  - intros d Hd. split; [apply (i_S _ _ _ HI); assumption|].
    intros p Hp. destruct (final_dominates g src s HI Hemp src t p Hp d0 Hd0) as [dt [Hdt Hle]].
    rewrite Hd in Hdt. injection Hdt as <-. lra.
  - intros Hn p Hp. destruct (final_dominates g src s HI Hemp src t p Hp d0 Hd0) as [dt [Hdt _]].
    congruence.
Qed.
Print Assumptions dijkstra_correct.

(* non-vacuity / executability *)
Definition g1 : graph := [
  {| eid := 0; esrc := 0; etgt := 1; eori := 0%Z; ew := 0 |};
  {| eid := 1; esrc := 1; etgt := 2; eori := 1%Z; ew := 5 |};
  {| eid := 2; esrc := 3; etgt := 2; eori := (-1)%Z; ew := 0 |};
  {| eid := 3; esrc := 0; etgt := 3; eori := 1%Z; ew := 7 |};
  {| eid := 4; esrc := 4; etgt := 0; eori := 1%Z; ew := 1 |} ].
Eval vm_compute in let s := run 10 g1 None 1000 (init 0) in (fil s, out s, map (poids s) [0;1;2;3;4]%nat).
