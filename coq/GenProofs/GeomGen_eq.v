(* The functions GENERATED from the source of tracklib/util/geometry.py (harness/py2coq_num.py, on every run) are, for EVERY number structure
   (the reals of the theorems, the binary64 instance run against the implementation), the hand-written functions of Model/Geom.v and
   Model/SimplifyG.v.  Compiled on every run against the text generated from /repo's current geometry.py. *)
From Coq Require Import Bool List Reals.
From TL Require Import Model.Num Model.Geom Model.SimplifyG Proofs.GeomAlg Proofs.GeomProj Proofs.Geom_bridge Proofs.MapMatch_sound Props.C16 Props.C20.
From TLGen Require Import GeomGen.

Section Eq.
Context {T : Type} (N : Num T).

Lemma gen_cartesienne_eq x1 y1 x2 y2 :
  gen_cartesienne N x1 y1 x2 y2 = (let s := {| sx1 := x1; sy1 := y1; sx2 := x2; sy2 := y2 |} in (cart_a N s, cart_b N s, cart_c N s)).
Proof. reflexivity. Qed.

Lemma gen_projection_droite_eq x1 y1 x2 y2 x y :
  let s := {| sx1 := x1; sy1 := y1; sx2 := x2; sy2 := y2 |} in
  gen_projection_droite N (cart_a N s) (cart_b N s) (cart_c N s) x y = proj_line N s x y.
Proof. reflexivity. Qed.

Theorem gen_proj_segment_eq x1 y1 x2 y2 x y :
  gen_proj_segment N x1 y1 x2 y2 x y = Geom.proj_segment N {| sx1 := x1; sy1 := y1; sx2 := x2; sy2 := y2 |} x y.
Proof. reflexivity. Qed.

Theorem gen_distance_to_segment_eq x0 y0 x1 y1 x2 y2 :
  gen_distance_to_segment N x0 y0 x1 y1 x2 y2 = distance_to_segment N x0 y0 x1 y1 x2 y2.
Proof. reflexivity. Qed.
End Eq.

(* the theorems of C16 / C20 about these two functions, restated for the generated ones (real-number instance) *)
Theorem gen_distance_to_segment_nearest (x0 y0 x1 y1 x2 y2 : R) :
  let d := gen_distance_to_segment RNum x0 y0 x1 y1 x2 y2 in
  (exists mu, 0 <= mu <= 1 /\ d = R_sqrt.sqrt ((x0 - (x1 + mu * (x2 - x1)))^2 + (y0 - (y1 + mu * (y2 - y1)))^2))%R /\
  forall lam, (0 <= lam <= 1 -> d <= R_sqrt.sqrt ((x0 - (x1 + lam * (x2 - x1)))^2 + (y0 - (y1 + lam * (y2 - y1)))^2))%R.
Proof. rewrite gen_distance_to_segment_eq. exact (C16_distance_to_segment x0 y0 x1 y1 x2 y2). Qed.

Theorem gen_proj_segment_sound x1 y1 x2 y2 x y :
  let s := {| sx1 := x1; sy1 := y1; sx2 := x2; sy2 := y2 |} in
  seg_defined s x y ->
  let '(d, px, py) := gen_proj_segment RNum x1 y1 x2 y2 x y in
  (exists mu, (0 <= mu <= 1)%R /\ (px, py) = on_seg x1 y1 x2 y2 mu) /\ d = dist x y px py.
Proof. intros s. rewrite gen_proj_segment_eq. exact (C20_any_orientation_sound x1 y1 x2 y2 x y). Qed.

Print Assumptions gen_distance_to_segment_nearest.
Print Assumptions gen_proj_segment_sound.
