(* The functions GENERATED from the source of tracklib/util/geometry.py (harness/py2coq_num.py, on every run) are, for EVERY number structure
   (the reals of the theorems, the binary64 instance run against the implementation), the hand-written functions of Model/Geom.v and
   Model/SimplifyG.v.  Compiled on every run against the text generated from /repo's current geometry.py. *)
From Coq Require Import Bool List Reals Lia String PrimFloat.
Import ListNotations.
From TL Require Import Model.Num Model.Geom Model.SimplifyG Model.Visvalingam Proofs.GeomAlg Proofs.GeomProj Proofs.Geom_bridge Proofs.PolyMin Proofs.Poly_bridge Proofs.MapMatch_sound Props.C16 Props.C20.
From TLGen Require Import GeomGen.

Section Eq.
Context {T : Type} (N : Num T).

Lemma gen_cartesienne_eq x1 y1 x2 y2 :
  gen_cartesienne N x1 y1 x2 y2 = (let s := {| sx1 := x1; sy1 := y1; sx2 := x2; sy2 := y2 |} in (cart_a N s, cart_b N s, cart_c N s)).
Proof. reflexivity. Qed.

Lemma gen_projection_droite_eq x1 y1 x2 y2 x y :
  let s := {| sx1 := x1; sy1 := y1; sx2 := x2; sy2 := y2 |} in
  gen_projection_droite N (cart_a N s) (cart_b N s) (cart_c N s) x y = proj_line N s x y.
Proof. reflexivity. Qed.

Theorem gen_proj_segment_eq x1 y1 x2 y2 x y :
  gen_proj_segment N x1 y1 x2 y2 x y = Geom.proj_segment N {| sx1 := x1; sy1 := y1; sx2 := x2; sy2 := y2 |} x y.
Proof. reflexivity. Qed.

Theorem gen_distance_to_segment_eq x0 y0 x1 y1 x2 y2 :
  gen_distance_to_segment N x0 y0 x1 y1 x2 y2 = distance_to_segment N x0 y0 x1 y1 x2 y2.
Proof. reflexivity. Qed.
End Eq.

(* the theorems of C16 / C20 about these two functions, restated for the generated ones (real-number instance) *)
Theorem gen_distance_to_segment_nearest (x0 y0 x1 y1 x2 y2 : R) :
  let d := gen_distance_to_segment RNum x0 y0 x1 y1 x2 y2 in
  (exists mu, 0 <= mu <= 1 /\ d = R_sqrt.sqrt ((x0 - (x1 + mu * (x2 - x1)))^2 + (y0 - (y1 + mu * (y2 - y1)))^2))%R /\
  forall lam, (0 <= lam <= 1 -> d <= R_sqrt.sqrt ((x0 - (x1 + lam * (x2 - x1)))^2 + (y0 - (y1 + lam * (y2 - y1)))^2))%R.
Proof. rewrite gen_distance_to_segment_eq. exact (C16_distance_to_segment x0 y0 x1 y1 x2 y2). Qed.

Theorem gen_proj_segment_sound x1 y1 x2 y2 x y :
  let s := {| sx1 := x1; sy1 := y1; sx2 := x2; sy2 := y2 |} in
  seg_defined s x y ->
  let '(d, px, py) := gen_proj_segment RNum x1 y1 x2 y2 x y in
  (exists mu, (0 <= mu <= 1)%R /\ (px, py) = on_seg x1 y1 x2 y2 mu) /\ d = dist x y px py.
Proof. intros s. rewrite gen_proj_segment_eq. exact (C20_any_orientation_sound x1 y1 x2 y2 x y). Qed.


(* ---- proj_polyligne: the loop translated from the source (a body function on the loop-carried variables, applied `len(Xp) - 1` times
   with the index counting up) is the model's scan over consecutive vertices, for EVERY number structure, provided every distance the loop
   compares with the sentinel `distmin = 1e309` is below it (binary64: every leg distance is finite; reals: any bound of the leg distances).
   Variables that are only assigned inside the loop come back as options: None is Python's UnboundLocalError, the model's None. ---- *)
(* the float literals of the source, in order of appearance, are the ones the model was written for *)
Lemma gen_proj_polyligne_literals : gen_proj_polyligne_consts = ["inf"; "1e-16"]%string.
Proof. reflexivity. Qed.

Local Open Scope nat_scope.
Section PolyEq.
Context {T : Type} (N : Num T).
Context (inf eps x y : T).

(* the pairs of consecutive vertices *)
Fixpoint legs (pts : list (T * T)) : list ((T * T) * (T * T)) :=
  match pts with
  | p1 :: ((p2 :: _) as r) => (p1, p2) :: legs r
  | _ => []
  end.

Definition leg_dist (l : (T * T) * (T * T)) : T :=
  let '(p1, p2) := l in
  fst (fst (Geom.proj_segment N {| sx1 := fst p1; sy1 := snd p1; sx2 := fst p2; sy2 := snd p2 |} x y)).

(* every distance the loop compares with the sentinel is below it *)
Definition below_sentinel (pts : list (T * T)) : Prop := Forall (fun l => ltb N (leg_dist l) inf = true) (legs pts).

Definition embed (a : option (T * T * T * nat)) : T * option T * option T * option nat :=
  match a with
  | None => (inf, None, None, None)
  | Some (d, xp, yp, i) => (d, Some xp, Some yp, Some i)
  end.

Lemma nth_pre {A B} (f : A -> B) (pre : list A) a r d : nth (List.length pre) (map f pre ++ a :: r) d = a.
Proof. rewrite app_nth2; rewrite map_length; [now rewrite PeanoNat.Nat.sub_diag | lia]. Qed.

Lemma nth_pre_S {A B} (f : A -> B) (pre : list A) a b r d : nth (S (List.length pre)) (map f pre ++ a :: b :: r) d = b.
Proof. rewrite app_nth2; rewrite map_length; [now replace (S (List.length pre) - List.length pre) with 1 by lia | lia]. Qed.

Lemma body_step pre p1 p2 r a :
  ltb N (leg_dist (p1, p2)) inf = true ->
  let pts := pre ++ p1 :: p2 :: r in
  gen_proj_polyligne_body N inf eps (map fst pts) (map snd pts) x y (List.length pre) (embed a)
  = embed (poly_step N eps x y (List.length pre) a p1 p2).
Proof.
  intros Hd pts. unfold gen_proj_polyligne_body, pts.
  rewrite !map_app. cbn [map].
  rewrite !nth_pre, !nth_pre_S.
  destruct p1 as [x1 y1], p2 as [x2 y2]. unfold poly_step. cbn [fst snd] in *.
  destruct (ltb N (add N (abs N (sub N x1 x2)) (abs N (sub N y1 y2))) eps) eqn:Hs.
  - destruct a as [[[[dm ?] ?] ?]|]; reflexivity.
  - change (gen_proj_segment N x1 y1 x2 y2 x y) with (Geom.proj_segment N {| sx1 := x1; sy1 := y1; sx2 := x2; sy2 := y2 |} x y).
    unfold leg_dist in Hd. cbn [fst snd] in Hd.
    destruct (Geom.proj_segment N {| sx1 := x1; sy1 := y1; sx2 := x2; sy2 := y2 |} x y) as [[d xp] yp]. cbn [fst] in Hd.
    destruct a as [[[[dm ?] ?] ?]|]; cbn [embed].
    + destruct (ltb N d dm); reflexivity.
    + rewrite Hd. reflexivity.
Qed.

Lemma loop_scan pts : forall pre a,
  below_sentinel pts ->
  let all := pre ++ pts in
  gen_proj_polyligne_loop N inf eps (map fst all) (map snd all) x y (List.length pts - 1) (List.length pre) (embed a)
  = embed (poly_scan N eps x y (List.length pre) a pts).
Proof.
  induction pts as [|p1 r IH]; intros pre a Hb all; [reflexivity|].
  destruct r as [|p2 r]; [reflexivity|].
  unfold below_sentinel in Hb. cbn [legs] in Hb. inversion Hb as [|? ? Hd Hr]; subst.
  cbn [List.length]. replace (S (S (List.length r)) - 1) with (S (S (List.length r) - 1)) by lia.
  cbn [gen_proj_polyligne_loop poly_scan]. unfold all.
  rewrite (body_step pre p1 p2 r a Hd).
  specialize (IH (pre ++ [p1]) (poly_step N eps x y (List.length pre) a p1 p2) Hr).
  cbv zeta in IH. rewrite <- app_assoc in IH. cbn [app] in IH.
  rewrite app_length in IH. cbn [List.length] in IH. replace (List.length pre + 1) with (S (List.length pre)) in IH by lia.
  exact IH.
Qed.

Theorem gen_proj_polyligne_eq pts :
  below_sentinel pts ->
  gen_proj_polyligne N inf eps (map fst pts) (map snd pts) x y = embed (Geom.proj_polyligne N eps pts x y).
Proof.
  intros Hb. unfold gen_proj_polyligne, Geom.proj_polyligne. rewrite map_length.
  pose proof (loop_scan pts [] None Hb) as H. cbv zeta in H. cbn [app List.length embed] in H. rewrite H.
  destruct (poly_scan N eps x y 0 None pts) as [[[[d xp] yp] i]|]; reflexivity.
Qed.
End PolyEq.

(* C20's polyline theorem restated for the generated function (real-number instance) *)
Theorem gen_proj_polyligne_nearest (inf eps : R) pts (x y : R) :
  below_sentinel RNum inf x y pts ->
  (forall j, (S j < List.length pts)%nat -> skipped eps (nth j pts (0,0)%R) (nth (S j) pts (0,0)%R) = false ->
             fst (nth j pts (0,0)%R) <> fst (nth (S j) pts (0,0)%R)) ->
  forall d xp yp i, gen_proj_polyligne RNum inf eps (map fst pts) (map snd pts) x y = (d, Some xp, Some yp, Some i) ->
      (S i < List.length pts)%nat /\ skipped eps (nth i pts (0,0)%R) (nth (S i) pts (0,0)%R) = false /\
      (let A := nth i pts (0,0)%R in let B := nth (S i) pts (0,0)%R in
       exists mu, (0 <= mu <= 1)%R /\ (xp, yp) = on_seg (fst A) (snd A) (fst B) (snd B) mu) /\
      d = dist x y xp yp /\
      forall j mu, (S j < List.length pts)%nat -> skipped eps (nth j pts (0,0)%R) (nth (S j) pts (0,0)%R) = false -> (0 <= mu <= 1)%R ->
        let A := nth j pts (0,0)%R in let B := nth (S j) pts (0,0)%R in
        (d <= dist x y (fst (on_seg (fst A) (snd A) (fst B) (snd B) mu)) (snd (on_seg (fst A) (snd A) (fst B) (snd B) mu)))%R.
Proof.
  intros Hb Hg d xp yp i E. rewrite (gen_proj_polyligne_eq RNum inf eps x y pts Hb) in E.
  pose proof (C20_polyline_partial eps pts x y Hg) as H.
  destruct (Geom.proj_polyligne RNum eps pts x y) as [[[[d' xp'] yp'] i']|]; cbn [embed] in E; [|discriminate].
  injection E as -> -> -> ->. exact H.
Qed.

(* the hypothesis is satisfiable: binary64 instance, sentinel +infinity, a three-vertex polyline *)
Example below_sentinel_somewhere : below_sentinel FNum infinity 0%float 1%float [(0, 0); (2, 1); (4, 0)]%float.
Proof. repeat constructor. Qed.
Example gen_proj_polyligne_runs :
  gen_proj_polyligne FNum infinity 0x1.cd2b297d889bcp-54%float [0; 2; 4]%float [0; 1; 0]%float 4%float 3%float
  = embed infinity (Geom.proj_polyligne FNum 0x1.cd2b297d889bcp-54%float [(0, 0); (2, 1); (4, 0)]%float 4%float 3%float).
Proof. vm_compute. reflexivity. Qed.


(* ---- triangle_area (the effective area of Visvalingam's simplification, C16): the expression translated from the source is the model's area3.
   The model of Visvalingam runs on rationals; the structure below supplies their operations (triangle_area takes no square root: the generated
   function does not depend on that field, gen_triangle_area_no_sqrt). ---- *)
Lemma gen_triangle_area_literals : gen_triangle_area_consts = ["0.5"]%string.
Proof. reflexivity. Qed.

Lemma gen_triangle_area_no_sqrt (T : Type) z o a s m d op sq sq' ab le lt eq (c x0 y0 x1 y1 x2 y2 : T) :
  gen_triangle_area (Build_Num T z o a s m d op sq ab le lt eq) c x0 y0 x1 y1 x2 y2 =
  gen_triangle_area (Build_Num T z o a s m d op sq' ab le lt eq) c x0 y0 x1 y1 x2 y2.
Proof. reflexivity. Qed.

Definition QNum (sq : QArith_base.Q -> QArith_base.Q) : Num QArith_base.Q :=
  {| zero := QArith_base.inject_Z 0; one := QArith_base.inject_Z 1; add := QArith_base.Qplus; sub := QArith_base.Qminus; mul := QArith_base.Qmult;
     div := QArith_base.Qdiv; opp := QArith_base.Qopp; sqrt := sq; abs := Qabs.Qabs;
     leb := Visvalingam.Qleb; ltb := Visvalingam.Qltb; eqb := QArith_base.Qeq_bool |}.

Theorem gen_triangle_area_eq sq (x0 y0 x1 y1 x2 y2 : QArith_base.Q) :
  gen_triangle_area (QNum sq) (QArith_base.Qmake 1 2) x0 y0 x1 y1 x2 y2 = Visvalingam.area3 (x0, y0) (x1, y1) (x2, y2).
Proof. reflexivity. Qed.

(* the same expression at the reals is half the absolute cross product of the two legs: the area of the triangle *)
Theorem gen_triangle_area_real (x0 y0 x1 y1 x2 y2 : R) :
  gen_triangle_area RNum (1 / 2)%R x0 y0 x1 y1 x2 y2 = (Rabs ((x1 - x0) * (y2 - y1) - (x2 - x1) * (y1 - y0)) / 2)%R.
Proof. unfold gen_triangle_area. cbn [mul sub abs RNum]. field. Qed.

Print Assumptions gen_distance_to_segment_nearest.
Print Assumptions gen_proj_segment_sound.
Print Assumptions gen_proj_polyligne_eq.
Print Assumptions gen_proj_polyligne_nearest.
Print Assumptions gen_triangle_area_eq.
