(* The functions GENERATED from the source of ObsTime (harness/py2coq.py, on every run) are the functions of the hand-written model
   the C03 theorems are about.  Compiled on every run against the file generated from /repo's current obs_time.py: a change of
   isLeapYear / readUnixTime / toAbsTime changes the generated text, and this proof then has to go through for the new text. *)
From Coq Require Import List ZArith Bool Lia Arith.
Import ListNotations.
From TL Require Import Model.ObsTime Proofs.ObsTime_ord Proofs.ObsTime_ops Props.C03.
From TLGen Require Import ObsTimeGen.
Open Scope Z_scope.

Lemma gen_leap y : gen_isLeapYear y = is_leap y.
Proof. reflexivity. Qed.

Lemma gen_dpm_eq : gen_day_per_month = dpm.
Proof. reflexivity. Qed.

(* ---- readUnixTime ---- *)
Lemma gen_year_loop fuel e s y : gen_readUnixTime_loop1 fuel e 31536000 s y = year_loop fuel e s y.
Proof.
  revert s y. induction fuel as [|f IH]; intros s y; cbn [gen_readUnixTime_loop1 year_loop]; [reflexivity|].
  rewrite gen_leap. unfold year_len.
  destruct (is_leap y).
  - destruct (Z.ltb_spec (e - s) (31536000 + 86400)) as [H|H]; destruct (Z.leb_spec (s + (31536000 + 86400)) e) as [H'|H']; try lia; [reflexivity | apply IH].
  - rewrite Z.add_0_r.
    destruct (Z.ltb_spec (e - s) 31536000) as [H|H]; destruct (Z.leb_spec (s + 31536000) e) as [H'|H']; try lia; [reflexivity | apply IH].
Qed.

Lemma skipn_nth (l : list Z) k : (k < length l)%nat -> skipn k l = nth k l 0 :: skipn (S k) l.
Proof.
  revert k. induction l as [|a l IH]; intros k H; [cbn in H; lia|].
  destruct k as [|k]; [reflexivity|]. cbn [skipn nth]. apply IH. cbn in H. lia.
Qed.

Lemma gen_month_loop f p1 p2 y p3 i e k : (k + f = 12)%nat ->
  gen_readUnixTime_loop2 f p1 p2 y p3 i e (Z.of_nat k) = (let '(k', e') := month_loop y (skipn k dpm) k e in (e', Z.of_nat k')).
Proof.
  revert i e k. induction f as [|f IH]; intros i e k Hk.
  - assert (k = 12%nat) by lia. subst k. reflexivity.
  - cbn [gen_readUnixTime_loop2]. rewrite (skipn_nth dpm k) by (cbn; lia). cbn [month_loop].
    rewrite Nat2Z.id, gen_leap, gen_dpm_eq. unfold month_secs.
    replace (Z.of_nat k =? 1) with (Nat.eqb k 1) by (destruct (Nat.eqb_spec k 1), (Z.eqb_spec (Z.of_nat k) 1); lia).
    destruct (Nat.eqb k 1 && is_leap y).
    + destruct (e <? nth k dpm 0 * 86400 + 86400); [reflexivity|].
      replace (Z.of_nat k + 1) with (Z.of_nat (S k)) by lia. apply IH. lia.
    + rewrite Z.add_0_r. destruct (e <? nth k dpm 0 * 86400); [reflexivity|].
      replace (Z.of_nat k + 1) with (Z.of_nat (S k)) by lia. apply IH. lia.
Qed.

Theorem gen_readUnixTime_eq e : gen_readUnixTime (fuel_for e) e = read_unix e.
Proof.
  unfold gen_readUnixTime, read_unix, read_with.
  change (86400 * 365) with 31536000. rewrite gen_year_loop.
  destruct (year_loop (fuel_for e) e 0 1970) as [s y].
  change (Z.to_nat (12 - 0)) with 12%nat.
  pose proof (gen_month_loop 12 31536000 s y y 0 (e - s) 0 eq_refl) as Hm.
  change (Z.of_nat 0) with 0 in Hm. cbn [skipn] in Hm. rewrite Hm. clear Hm.
  destruct (month_loop y dpm 0 (e - s)) as [m e1].
  rewrite Z.sub_diag, Z.mul_0_l. reflexivity.
Qed.

(* ---- toAbsTime ---- *)
Lemma gen_years_peel n t y acc : gen_toAbsTime_loop1 (S n) t y acc = gen_toAbsTime_loop1 n t y acc + year_len (y + Z.of_nat n).
Proof.
  revert y acc. induction n as [|n IH]; intros y acc.
  - cbn [gen_toAbsTime_loop1]. rewrite gen_leap, Z.add_0_r. unfold year_len. destruct (is_leap y); lia.
  - change (gen_toAbsTime_loop1 (S (S n)) t y acc) with
      (gen_toAbsTime_loop1 (S n) t (y + 1) (if gen_isLeapYear y then acc + 86400 * 365 + 86400 else acc + 86400 * 365)).
    rewrite IH. cbn [gen_toAbsTime_loop1]. replace (y + 1 + Z.of_nat n) with (y + Z.of_nat (S n)) by lia. reflexivity.
Qed.

Lemma gen_years n t : gen_toAbsTime_loop1 n t 1970 0 = years_secs n.
Proof.
  induction n as [|n IH]; [reflexivity|]. rewrite gen_years_peel, IH. reflexivity.
Qed.

Lemma gen_months_zero n t k acc : (12 <= k)%nat -> gen_toAbsTime_loop2 n t (Z.of_nat k + 1) acc = acc.
Proof.
  revert k acc. induction n as [|n IH]; intros k acc Hk; [reflexivity|].
  cbn [gen_toAbsTime_loop2]. replace (Z.of_nat k + 1 - 1) with (Z.of_nat k) by lia. rewrite Nat2Z.id.
  rewrite (nth_overflow gen_day_per_month 0) by (cbn; lia).
  replace (Z.of_nat k + 1 =? 2) with false by (symmetry; apply Z.eqb_neq; lia).
  cbn [andb]. replace (Z.of_nat k + 1 + 1) with (Z.of_nat (S k) + 1) by lia. rewrite Z.mul_0_l, Z.add_0_r. apply IH. lia.
Qed.

Lemma months_secs_nil y k n : months_secs y [] k n = 0.
Proof. destruct n; reflexivity. Qed.

Lemma gen_months n t k acc : gen_toAbsTime_loop2 n t (Z.of_nat k + 1) acc = acc + months_secs (year t) (skipn k dpm) k n.
Proof.
  revert k acc. induction n as [|n IH]; intros k acc.
  - cbn [gen_toAbsTime_loop2]. destruct (skipn k dpm); cbn; lia.
  - destruct (Nat.lt_ge_cases k 12) as [Hk|Hk].
    + cbn [gen_toAbsTime_loop2]. rewrite (skipn_nth dpm k) by (cbn; lia). cbn [months_secs].
      replace (Z.of_nat k + 1 - 1) with (Z.of_nat k) by lia. rewrite Nat2Z.id, gen_leap, gen_dpm_eq. unfold month_secs.
      replace (Z.of_nat k + 1 =? 2) with (Nat.eqb k 1) by (destruct (Nat.eqb_spec k 1), (Z.eqb_spec (Z.of_nat k + 1) 2); lia).
      replace (Z.of_nat k + 1 + 1) with (Z.of_nat (S k) + 1) by lia.
      destruct (Nat.eqb k 1 && is_leap (year t)); rewrite IH; lia.
    + rewrite gen_months_zero by exact Hk. rewrite skipn_all2 by (cbn; lia). rewrite months_secs_nil. lia.
Qed.

Theorem gen_toAbsTime_eq t : gen_toAbsTime t = to_abs t.
Proof.
  unfold gen_toAbsTime, to_abs. rewrite gen_years.
  change 1 with (Z.of_nat 0 + 1) at 2. rewrite gen_months. cbn [skipn]. reflexivity.
Qed.

Theorem gen_toAbsTime_frac_eq t : gen_toAbsTime_frac t = (ms t, 1000).
Proof. reflexivity. Qed.

(* ---- the C03 theorems, restated for the generated functions (whole seconds) ---- *)
Theorem gen_seconds_roundtrip s : 0 <= s ->
  wf (gen_readUnixTime (fuel_for s) s) = true /\ gen_toAbsTime (gen_readUnixTime (fuel_for s) s) = s /\ 1970 <= year (gen_readUnixTime (fuel_for s) s).
Proof. intros H. rewrite gen_readUnixTime_eq, gen_toAbsTime_eq. exact (C03_seconds_roundtrip s H). Qed.

Theorem gen_calendar_roundtrip d : wf d = true -> 1970 <= year d -> ms d = 0 ->
  gen_readUnixTime (fuel_for (gen_toAbsTime d)) (gen_toAbsTime d) = d.
Proof. intros H1 H2 H3. rewrite gen_readUnixTime_eq, gen_toAbsTime_eq. exact (C03_calendar_roundtrip d H1 H2 H3). Qed.

(* ---- comparison methods ---- *)
Theorem gen_lt_eq a b : gen__lt__ a b = lt a b.
Proof. reflexivity. Qed.

Theorem gen_gt_eq a b : gen__gt__ a b = gt a b.
Proof.
  unfold gen__gt__, gt, lt.
  rewrite (Z.eqb_sym (year b)), (Z.eqb_sym (month b)), (Z.eqb_sym (day b)), (Z.eqb_sym (hour b)), (Z.eqb_sym (minute b)), (Z.eqb_sym (sec b)). reflexivity.
Qed.

Theorem gen_eq_eq a b : gen__eq__ a b = eqd a b.
Proof.
  unfold gen__eq__, eqd.
  destruct (ms a =? ms b); [|reflexivity]. destruct (sec a =? sec b); [|reflexivity]. destruct (minute a =? minute b); [|reflexivity].
  destruct (hour a =? hour b); [|reflexivity]. destruct (day a =? day b); [|reflexivity]. destruct (month a =? month b); [|reflexivity].
  destruct (year a =? year b); reflexivity.
Qed.

Theorem gen_ne_eq a b : gen__ne__ a b = negb (eqd b a).
Proof. unfold gen__ne__. rewrite gen_eq_eq. reflexivity. Qed.

Theorem gen_ge_eq a b : gen__ge__ a b = negb (lt a b).
Proof. reflexivity. Qed.

Theorem gen_le_eq a b : gen__le__ a b = negb (gt a b).
Proof. unfold gen__le__. rewrite gen_gt_eq. reflexivity. Qed.

(* the order theorems of C03, for the generated comparison methods *)
Theorem gen_lt_iff a b : wf a = true -> wf b = true -> 1970 <= year a -> 1970 <= year b ->
  (gen__lt__ a b = true <-> to_abs_ms a < to_abs_ms b).
Proof. rewrite gen_lt_eq. exact (C03_lt a b). Qed.

Theorem gen_gt_iff a b : wf a = true -> wf b = true -> 1970 <= year a -> 1970 <= year b ->
  (gen__gt__ a b = true <-> to_abs_ms b < to_abs_ms a).
Proof. rewrite gen_gt_eq. exact (C03_gt a b). Qed.

Theorem gen_eq_iff a b : gen__eq__ a b = true <-> a = b.
Proof. rewrite gen_eq_eq. exact (C03_eq a b). Qed.

(* ---- addSec / addMin / addHour / addDay / __sub__ (whole seconds) ---- *)
Theorem gen_addSec_eq t n : gen_addSec (fuel_for (to_abs t + n)) t n = add_sec t n.
Proof. unfold gen_addSec, add_sec. rewrite gen_toAbsTime_eq. apply gen_readUnixTime_eq. Qed.

Theorem gen_addMin_eq t n : gen_addMin (fuel_for (to_abs t + n * 60)) t n = add_sec t (n * 60).
Proof. unfold gen_addMin, add_sec. rewrite gen_toAbsTime_eq. apply gen_readUnixTime_eq. Qed.

Theorem gen_addHour_eq t n : gen_addHour (fuel_for (to_abs t + n * 3600)) t n = add_sec t (n * 3600).
Proof. unfold gen_addHour, add_sec. rewrite gen_toAbsTime_eq. apply gen_readUnixTime_eq. Qed.

Theorem gen_addDay_eq t n : gen_addDay (fuel_for (to_abs t + n * 86400)) t n = add_sec t (n * 86400).
Proof. unfold gen_addDay, add_sec. rewrite gen_toAbsTime_eq. apply gen_readUnixTime_eq. Qed.

Theorem gen_sub_eq a b : gen__sub__ a b = to_abs a - to_abs b.
Proof. unfold gen__sub__. rewrite !gen_toAbsTime_eq. reflexivity. Qed.

(* adding seconds moves the instant by that amount (C03_add_sec), for the generated addSec *)
Theorem gen_addSec_ok d n : 0 <= to_abs d + n ->
  let r := gen_addSec (fuel_for (to_abs d + n)) d n in wf r = true /\ gen_toAbsTime r = gen_toAbsTime d + n /\ 1970 <= year r.
Proof. intros H. cbv zeta. rewrite gen_addSec_eq, !gen_toAbsTime_eq. exact (C03_add_sec d n H). Qed.

Print Assumptions gen_seconds_roundtrip.
Print Assumptions gen_addSec_ok.
Print Assumptions gen_lt_iff.
Print Assumptions gen_eq_iff.
Print Assumptions gen_calendar_roundtrip.
