(* NetworkWriter.writeToCsv and NetworkReader.readFromFile at the level of text: one line per edge
     id SEP source SEP target SEP orientation SEP [quote] LINESTRING(x y,x y,...) [quote]
   read back by Python's csv.reader (delimiter SEP, the double quote as quotechar, doublequote) and wktLineStringToObs.
   Coordinates and the orientation are the decimal strings str() produced; float(str(v)) == v and int(str(i)) == i are CPython's
   contract and are not modelled. *)
From Coq Require Import List Ascii String Bool.
From TL Require Import Model.CsvText Model.WktText.
Import ListNotations.
Open Scope string_scope.

Definition dq : ascii := """"%char.

Record edge_rec := { e_id : string; e_src : string; e_tgt : string; e_dir : string; e_pts : list (string * string) }.

(* ---- writer ---- *)
Definition net_line (sep : ascii) (e : edge_rec) : string :=
  e_id e ++ String sep (e_src e ++ String sep (e_tgt e ++ String sep (e_dir e ++ String sep (String dq (to_wkt (e_pts e) ++ String dq ""))))).
Definition net_header (sep : ascii) : string :=
  "link_id" ++ String sep ("source" ++ String sep ("target" ++ String sep ("direction" ++ String sep "wkt"))).
Definition write_net (h : bool) (sep : ascii) (es : list edge_rec) : string :=
  concat_lines ((if h then [net_header sep] else []) ++ map (net_line sep) es)%list.

(* ---- csv.reader, one record (states of _csv.c: START_FIELD, IN_FIELD, IN_QUOTED_FIELD, QUOTE_IN_QUOTED_FIELD; non-strict) ---- *)
Inductive cst := Start | Unq | Quo | QuoQ.
Fixpoint csv_row (sep : ascii) (s : string) (st : cst) (cur : string -> string) : list string :=
  match s with
  | "" => [cur ""]
  | String c r =>
      match st with
      | Start => if Ascii.eqb c dq then csv_row sep r Quo (fun x => x)
                 else if Ascii.eqb c sep then cur "" :: csv_row sep r Start (fun x => x)
                 else csv_row sep r Unq (fun x => String c x)
      | Unq => if Ascii.eqb c sep then cur "" :: csv_row sep r Start (fun x => x)
               else csv_row sep r Unq (fun x => cur (String c x))
      | Quo => if Ascii.eqb c dq then csv_row sep r QuoQ cur
               else csv_row sep r Quo (fun x => cur (String c x))
      | QuoQ => if Ascii.eqb c dq then csv_row sep r Quo (fun x => cur (String dq x))
                else if Ascii.eqb c sep then cur "" :: csv_row sep r Start (fun x => x)
                else csv_row sep r Unq (fun x => cur (String c x))
      end
  end.
Definition csv_fields (sep : ascii) (ln : string) : list string := match ln with "" => [] | _ => csv_row sep ln Start (fun x => x) end.

(* ---- wktLineStringToObs: split at the opening parenthesis [1], at the closing one [0], at commas; each item stripped and split at blanks -> (sl[0], sl[1]) ---- *)
Definition wkt_obs (w : string) : option (list (string * string)) :=
  match split "(" w with
  | _ :: body :: _ =>
      match split ")" body with
      | inner :: _ =>
          let pair (s : string) := match split " " (strip s) with x :: y :: _ => Some (x, y) | _ => None end in
          fold_right (fun s acc => match pair s, acc with Some p, Some l => Some (p :: l) | _, _ => None end) (Some []) (split "," inner)
      | [] => None
      end
  | _ => None
  end.

(* ---- readLineAndAddToNetwork with the positions of the writer's layout: id 0, source 1, target 2, direction 3, wkt 4 ---- *)
Definition read_edge (sep : ascii) (ln : string) : option edge_rec :=
  let f := csv_fields sep ln in
  match nth_error f 0, nth_error f 1, nth_error f 2, nth_error f 3, nth_error f 4 with
  | Some i, Some s, Some t, Some d, Some w =>
      match wkt_obs w with Some pts => Some {| e_id := i; e_src := s; e_tgt := t; e_dir := d; e_pts := pts |} | None => None end
  | _, _, _, _, _ => None
  end.

(* the records of the file: lines, the empty piece after the final newline is no record; the first h rows are the header *)
Definition rows (text : string) : list string :=
  let ls := split nl text in match rev ls with "" :: r => rev r | _ => ls end.
Definition read_net (h : bool) (sep : ascii) (text : string) : list (option edge_rec) :=
  map (read_edge sep) (skipn (if h then 1 else 0) (rows text)).

Eval vm_compute in read_net true "," (write_net true "," [{| e_id := "e0"; e_src := "n1"; e_tgt := "n2"; e_dir := "-1"; e_pts := [("1.5", "-2e-05"); ("3.0", "4.25")] |}]).
