(* Spike: comparison._dtw over Q: table rows, back-pointers, backward walk *)
From Coq Require Import List Arith QArith Bool Lia Lqa.
Import ListNotations.
Open Scope Q_scope.

Definition Qleb (x y : Q) : bool := if Qlt_le_dec y x then false else true.   (* x <= y *)
Definition Qmin (x y : Q) : Q := if Qlt_le_dec y x then y else x.            (* python min(x,y): y if y < x else x *)

Section Dtw.
Variable w : Q -> Q -> Q.            (* weight(A, B): A + B**p or max(A, B) *)
Variable D : nat -> nat -> Q.        (* D[i,j] = distance(track2[i], track1[j]) *)

(* row 0: T[0,0] = w 0 D00 ; T[0,j] = w T[0,j-1] D0j *)
Fixpoint row0 (n1 : nat) : list Q :=      (* reversed accumulation avoided: build by recursion on j *)
  match n1 with
  | O => []
  | S j => match j with O => [w 0 (D 0 0)] | S _ => let r := row0 j in r ++ [w (last r 0) (D 0%nat j)] end
  end.

(* row i from row i-1 (prev): T[i,0] = w prev[0] D[i,0]; T[i,j] = w (min(ul, min(u, l))) D[i,j] *)
Fixpoint next_row (i : nat) (prev : list Q) (n1 : nat) : list Q :=
  match n1 with
  | O => []
  | S j => match j with
           | O => [w (nth 0 prev 0) (D i 0%nat)]
           | S j' => let r := next_row i prev j in
                     let l := last r 0 in let u := nth j prev 0 in let ul := nth j' prev 0 in
                     r ++ [w (Qmin ul (Qmin u l)) (D i j)]
           end
  end.

Fixpoint rows (n2 n1 : nat) : list (list Q) :=   (* rows 0..n2-1 *)
  match n2 with
  | O => []
  | S i => match i with O => [row0 n1] | S _ => let rs := rows i n1 in rs ++ [next_row i (last rs []) n1] end
  end.

Definition T (n2 n1 i j : nat) : Q := nth j (nth i (rows n2 n1) []) 0.

(* back-pointer of cell (i,j), i,j >= 1: current rule (comparison.py:570) *)
Definition pred_cur (n2 n1 i j : nat) : nat * nat :=
  let l := T n2 n1 i (j-1) in let u := T n2 n1 (i-1) j in let ul := T n2 n1 (i-1) (j-1) in
  ((i - (if Qleb (Qmin ul u) l then 1 else 0))%nat, (j - (if Qleb (Qmin ul l) u then 1 else 0))%nat).

(* repaired rule: go to a predecessor that attains the minimum (diagonal preferred, then up, then left) *)
Definition pred_fix (n2 n1 i j : nat) : nat * nat :=
  let l := T n2 n1 i (j-1) in let u := T n2 n1 (i-1) j in let ul := T n2 n1 (i-1) (j-1) in
  if Qleb ul u && Qleb ul l then ((i-1)%nat, (j-1)%nat)
  else if Qleb u l then ((i-1)%nat, j) else (i, (j-1)%nat).

Definition pred (rule : nat -> nat -> nat -> nat -> nat * nat) (n2 n1 i j : nat) : nat * nat :=
  match i, j with
  | O, O => (0, 0)%nat
  | S i', O => (i', 0%nat)
  | O, S j' => (0%nat, j')
  | _, _ => rule n2 n1 i j
  end.

Fixpoint back (rule : nat -> nat -> nat -> nat -> nat * nat) (fuel n2 n1 i j : nat) : list (nat * nat) :=
  match fuel with
  | O => [(i, j)]
  | S f => match i, j with
           | O, O => [(0, 0)%nat]
           | _, _ => let '(i', j') := pred rule n2 n1 i j in (i, j) :: back rule f n2 n1 i' j'
           end
  end.

Definition path_cost (p : list (nat * nat)) : Q :=   (* p from (0,0) to the end *)
  fold_left (fun acc '(i, j) => w acc (D i j)) p 0.

Definition dtw (rule : nat -> nat -> nat -> nat -> nat * nat) (n2 n1 : nat) : Q * list (nat * nat) :=
  (T n2 n1 (n2-1) (n1-1), rev (back rule (n2 + n1) n2 n1 (n2-1) (n1-1))).
End Dtw.

(* witness found on the implementation: track1 x = (0,1,0), track2 x = (1,0,1), p = 1 *)
Definition Dw (i j : nat) : Q := let a := nth j [0;1;0] 0 in let b := nth i [1;0;1] 0 in if Qlt_le_dec a b then b - a else a - b.
Eval vm_compute in (dtw Qplus Dw (pred_cur Qplus Dw) 3 3).
Eval vm_compute in (let '(s, p) := dtw Qplus Dw (pred_cur Qplus Dw) 3 3 in (s, path_cost Qplus Dw p)).
Eval vm_compute in (let '(s, p) := dtw Qplus Dw (pred_fix Qplus Dw) 3 3 in (s, p, path_cost Qplus Dw p)).
