(* segmentation.split (marker feature) and segmentation.segmentation (threshold markers) *)
From Coq Require Import List Arith Bool Lia.
Import ListNotations.

Section Split.
Variable A : Type.                       (* observations *)

(* track.extract(begin, i): obs[begin .. i] inclusive *)
Definition extract (l : list A) (b e : nat) : list A := firstn (S e - b) (skipn b l).

(* loop of split(): i runs over indices, [begin] is the start of the current piece; pieces in order *)
Fixpoint split_loop (l : list A) (marks : list bool) (i begin : nat) : list (list A) * nat :=
  match marks with
  | [] => ([], begin)
  | m :: r => if m then let '(ps, b) := split_loop l r (S i) (S i) in (extract l begin i :: ps, b)
              else split_loop l r (S i) begin
  end.

Definition split (l : list A) (marks : list bool) : list (list A) :=
  let '(ps, begin) := split_loop l marks 0 0 in
  if (begin =? 0)%nat then ps else ps ++ [extract l begin (length l - 1)].
End Split.

(* threshold markers: values are option (None = NaN), leb is "value <= threshold" *)
Section Seg.
Variable V : Type.
Variable leb : V -> V -> bool.
Definition marker_and (vals : list (option V)) (thr : list V) : bool :=
  negb (fold_left (fun comp '(v, t) => match v with Some x => comp && leb x t | None => comp end) (combine vals thr) true).
Definition marker_or (vals : list (option V)) (thr : list V) : bool :=
  negb (fold_left (fun comp '(v, t) => match v with Some x => comp || leb x t | None => comp end) (combine vals thr) false).
End Seg.
