(* Spike: geometry.distance_to_segment and simplification.douglas_peucker over a generic number structure *)
From Coq Require Import List Arith Bool.
Import ListNotations.
From TL Require Import Model.Num.

Section G.
Context {T : Type} (N : Num T).
Notation "x + y" := (add N x y). Notation "x - y" := (sub N x y).
Notation "x * y" := (mul N x y). Notation "x / y" := (div N x y).

Definition nmax (a b : T) : T := if ltb N a b then b else a.      (* Python max(a, b): b if b > a else a *)
Definition nmin (a b : T) : T := if ltb N b a then b else a.      (* Python min(a, b): b if b < a else a *)

(* geometry.py distance_to_segment, body for a chord of positive length *)
Definition distance_to_segment_nd (x0 y0 x1 y1 x2 y2 : T) : T :=
  let l := sqrt N ((x2 - x1) * (x2 - x1) + (y2 - y1) * (y2 - y1)) in
  let psn := ((x0 - x1) * (x2 - x1) + (y0 - y1) * (y2 - y1)) / l in
  let X := nmax x1 x2 in let Y := nmax y1 y2 in
  let x := nmin x1 x2 in let y := nmin y1 y2 in
  let xproj := x1 + psn / l * (x2 - x1) in
  let yproj := y1 + psn / l * (y2 - y1) in
  let xproj := nmin (nmax xproj x) X in
  let yproj := nmin (nmax yproj y) Y in
  sqrt N ((x0 - xproj) * (x0 - xproj) + (y0 - yproj) * (y0 - yproj)).

(* "if l == 0: distance to the point" - the degenerate chord of a closed loop (repair recorded under C16;
   before it the division by l raised ZeroDivisionError) *)
Definition distance_to_segment (x0 y0 x1 y1 x2 y2 : T) : T :=
  let l := sqrt N ((x2 - x1) * (x2 - x1) + (y2 - y1) * (y2 - y1)) in
  if eqb N l (zero N) then sqrt N ((x0 - x1) * (x0 - x1) + (y0 - y1) * (y0 - y1))
  else distance_to_segment_nd x0 y0 x1 y1 x2 y2.

Definition pt := (T * T)%type.
Definition dseg (p a b : pt) : T := distance_to_segment (fst p) (snd p) (fst a) (snd a) (fst b) (snd b).

Fixpoint farthest (l : list pt) (a b : pt) (i : nat) (dmax : T) (imax : nat) : T * nat :=
  match l with
  | [] => (dmax, imax)
  | p :: r => let d := dseg p a b in
              if ltb N dmax d then farthest r a b (S i) d i else farthest r a b (S i) dmax imax
  end.

(* works on indices so that the tie can compare which fixes are kept *)
Fixpoint dp (fuel : nat) (eps : T) (d0 : pt * nat) (L : list (pt * nat)) : list (pt * nat) :=
  match fuel with
  | O => L
  | S f =>
    if (length L <=? 2)%nat then L else
    let a := hd d0 L in let b := last L d0 in
    let '(dmax, imax) := farthest (map fst L) (fst a) (fst b) 0 (zero N) 0 in
    if ltb N dmax eps then [a; b] else dp f eps d0 (firstn imax L) ++ dp f eps d0 (skipn imax L)
  end.
End G.
