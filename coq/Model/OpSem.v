(* operators.py: what an operator OBJECT writes when it is applied to a feature column (None = NaN):
   ShiftRight / ShiftLeft / Shift / ShiftRev  y(t) = x(t - k), NaN outside the track;  the circular variants wrap;  Rectifier  y = |x| *)
From Coq Require Import List ZArith QArith Qabs Bool.
Import ListNotations.
From TL Require Import Model.Table.

Inductive opcode := OShift (k : Z) | OShiftCirc (k : Z) | ORectify.

Definition opsem (o : opcode) (c : list val) : list val :=
  let n := Z.of_nat (List.length c) in
  match o with
  | OShift k => map (fun i => let j := (Z.of_nat i - k)%Z in if ((0 <=? j) && (j <? n))%Z then nth (Z.to_nat j) c None else None) (seq 0 (List.length c))
  | OShiftCirc k => map (fun i => nth (Z.to_nat ((Z.of_nat i - k) mod n)%Z) c None) (seq 0 (List.length c))
  | ORectify => map (fun v => match v with Some x => Some (Qabs x) | None => None end) c
  end.
