From Coq Require Import List Ascii String Bool Arith ZArith QArith Qabs Lia.
Import ListNotations.
From TL Require Import Model.Str Model.Table Model.Eval Model.Pipeline.
Open Scope Q_scope.
Inductive expect := XErr (e : err) | XOk (r : option (list val)) (names : list str) (cols : list (list val)) (x y z : list val).
Definition approx (a b : val) : bool :=
  match a, b with
  | None, None => true
  | Some p, Some q => Qle_bool (Qabs (p - q)) ((1 # 1000000000) * (1 + Qabs p))
  | _, _ => false
  end.
Fixpoint all2 {A B} (f : A -> B -> bool) (l1 : list A) (l2 : list B) : bool :=
  match l1, l2 with [], [] => true | a :: r1, b :: r2 => f a b && all2 f r1 r2 | _, _ => false end.
Definition err_eqb (a b : err) : bool :=
  match a, b with AFError, AFError | KeyError, KeyError | TypeError, TypeError | IndexError, IndexError
  | ZeroDiv, ZeroDiv | ValueError, ValueError | Other, Other => true | _, _ => false end.
Definition ok (c : track * str * expect) : bool :=
  let '(t, e, x) := c in
  match operate_str t e, x with
  | Err a, XErr b => err_eqb a b
  | Ok (t', r), XOk r' names cols gx gy gz =>
    (match r, r' with None, None => true | Some a, Some b => all2 approx a b | _, _ => false end)
    && all2 str_eqb (Table.names t') names
    && all2 (fun n col => match get_af t' n with Ok c => all2 approx c col | Err _ => false end) names cols
    && all2 approx (xs t') gx && all2 approx (ys t') gy && all2 approx (zs t') gz
    && forallb (fun f => (List.length f =? List.length (dico t'))%nat) (feats t')
  | _, _ => false
  end.
Fixpoint bad (i : nat) (l : list (track * str * expect)) : list nat :=
  match l with [] => [] | c :: r => if ok c then bad (S i) r else i :: bad (S i) r end.
