(* util/geometry.py: cartesienne, projection_droite, proj_segment — generic in the number structure *)
From Coq Require Import Bool List.
Import ListNotations.
From TL Require Import Model.Num.

Section Geom.
Context {T : Type} (N : Num T).
Notation "x + y" := (add N x y). Notation "x - y" := (sub N x y). Notation "x * y" := (mul N x y). Notation "x / y" := (div N x y).

Record seg := { sx1 : T; sy1 : T; sx2 : T; sy2 : T }.

(* cartesienne: a = y2 - y1 ; b = -(x2 - x1) ; c = -(a x1 + b y1) *)
Definition cart_a (s : seg) : T := sy2 s - sy1 s.
Definition cart_b (s : seg) : T := opp N (sx2 s - sx1 s).
Definition cart_c (s : seg) : T := opp N (cart_a s * sx1 s + cart_b s * sy1 s).

(* projection_droite, branch b <> 0 (the b == 0 branch returns (x, a)) *)
Definition proj_line (s : seg) (x y : T) : T * T :=
  let a := cart_a s in let b := cart_b s in let c := cart_c s in
  if eqb N b (zero N) then (x, a) else
  let xv := opp N b in let yv := a in
  let norm := sqrt N (xv * xv + yv * yv) in
  let xb := zero N in let yb := opp N c / b in
  let BH := ((x - xb) * xv + (y - yb) * yv) / norm in
  (xb + BH * xv / norm, yb + BH * yv / norm).

Definition dist_pt (x y px py : T) : T := sqrt N ((x - px) * (x - px) + (y - py) * (y - py)).

Definition proj_segment (s : seg) (x y : T) : T * T * T :=
  let a := cart_a s in let b := cart_b s in let c := cart_c s in
  let distance := abs N (a * x + b * y + c) / sqrt N (a * a + b * b) in
  let '(xp, yp) := proj_line s x y in
  let boolx := (leb N (sx1 s) xp && leb N xp (sx2 s)) || (leb N xp (sx1 s) && leb N (sx2 s) xp) in
  (* "or (y1 == y2)": horizontal segment, the recomputed ordinate may differ from y1 by rounding only (repair recorded under C20) *)
  let booly := (leb N (sy1 s) yp && leb N yp (sy2 s)) || (leb N yp (sy1 s) && leb N (sy2 s) yp) || eqb N (sy1 s) (sy2 s) in
  if boolx && booly then
    (* the foot is recomputed exactly as in proj_line's non-degenerate branch (division by b) *)
    let xv := opp N b in let yv := a in
    let norm := sqrt N (xv * xv + yv * yv) in
    let yb := opp N c / b in
    let BH := ((x - zero N) * xv + (y - yb) * yv) / norm in
    (distance, zero N + BH * xv / norm, yb + BH * yv / norm)
  else
    let d1 := dist_pt x y (sx1 s) (sy1 s) in let d2 := dist_pt x y (sx2 s) (sy2 s) in
    if leb N d1 d2 then (d1, sx1 s, sy1 s) else (d2, sx2 s, sy2 s).
End Geom.

(* proj_polyligne (geometry.py): segments shorter than eps (1e-16, L1 length) are skipped; strict < from +inf
   (None = distmin still +inf, xproj / yproj / iproj unbound: the code then raises UnboundLocalError) *)
Section Poly.
Context {T : Type} (N : Num T).
Definition poly_step (eps : T) (x y : T) (i : nat) (a : option (T * T * T * nat)) (p1 p2 : T * T) : option (T * T * T * nat) :=
  let '(x1, y1) := p1 in let '(x2, y2) := p2 in
  if ltb N (add N (abs N (sub N x1 x2)) (abs N (sub N y1 y2))) eps then a
  else let '(d, xp, yp) := proj_segment N {| sx1 := x1; sy1 := y1; sx2 := x2; sy2 := y2 |} x y in
       match a with
       | None => Some (d, xp, yp, i)
       | Some (dm, _, _, _) => if ltb N d dm then Some (d, xp, yp, i) else a
       end.
Fixpoint poly_scan (eps : T) (x y : T) (i : nat) (a : option (T * T * T * nat)) (pts : list (T * T)) : option (T * T * T * nat) :=
  match pts with
  | p1 :: ((p2 :: _) as r) => poly_scan eps x y (S i) (poly_step eps x y i a p1 p2) r
  | _ => a
  end.
Definition proj_polyligne (eps : T) (pts : list (T * T)) (x y : T) : option (T * T * T * nat) := poly_scan eps x y 0 None pts.
End Poly.
