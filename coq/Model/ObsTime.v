(* Spike: ObsTime calendar arithmetic on whole seconds (obs_time.py:179-276, 527-610) *)
From Coq Require Import List ZArith Bool Lia.
Import ListNotations.
Open Scope Z_scope.

Record date := { year : Z; month : Z; day : Z; hour : Z; minute : Z; sec : Z; ms : Z }.

Definition is_leap (y : Z) : bool :=
  (y mod 4 =? 0) && (negb (y mod 100 =? 0) || (y mod 400 =? 0)).

Definition dpm : list Z := [31; 28; 31; 30; 31; 30; 31; 31; 30; 31; 30; 31].

Definition year_len (y : Z) : Z := 31536000 + (if is_leap y then 86400 else 0).

(* seconds of month number k (0-based) in year y, as in both loops *)
Definition month_secs (y : Z) (k : nat) (d : Z) : Z :=
  d * 86400 + (if (Nat.eqb k 1) && is_leap y then 86400 else 0).

(* ---- readUnixTime: year loop, current code (line 211) ---- *)
Fixpoint year_loop_cur (fuel : nat) (elapsed s y : Z) : Z * Z :=
  match fuel with
  | O => (s, y)
  | S f => if s <? elapsed - 31536000 then year_loop_cur f elapsed (s + year_len y) (y + 1) else (s, y)
  end.

(* ---- repaired year loop: stop when the remaining time fits in the current year ---- *)
Fixpoint year_loop (fuel : nat) (elapsed s y : Z) : Z * Z :=
  match fuel with
  | O => (s, y)
  | S f => if s + year_len y <=? elapsed then year_loop f elapsed (s + year_len y) (y + 1) else (s, y)
  end.

(* month loop: for i in range(12) with break *)
Fixpoint month_loop (y : Z) (l : list Z) (k : nat) (e : Z) : nat * Z :=
  match l with
  | [] => (k, e)
  | d :: r => let som := month_secs y k d in
              if e <? som then (k, e) else month_loop y r (S k) (e - som)
  end.

Definition fuel_for (elapsed : Z) : nat := Z.to_nat (elapsed / 31536000 + 1).

(* int() truncates towards zero: Z.quot *)
Definition read_with (yl : nat -> Z -> Z -> Z -> Z * Z) (elapsed : Z) : date :=
  let '(s, y) := yl (fuel_for elapsed) elapsed 0 1970 in
  let e := elapsed - s in
  let '(m, e1) := month_loop y dpm 0%nat e in
  let d := Z.quot e1 86400 + 1 in
  let e2 := e1 - (d - 1) * 86400 in
  let h := Z.quot e2 3600 in
  let e3 := e2 - h * 3600 in
  let mi := Z.quot e3 60 in
  let e4 := e3 - mi * 60 in
  {| year := y; month := Z.of_nat m + 1; day := d; hour := h; minute := mi; sec := e4; ms := 0 |}.

Definition read_unix_cur := read_with year_loop_cur.
Definition read_unix := read_with year_loop.

(* ---- toAbsTime (whole seconds + ms kept apart) ---- *)
Fixpoint years_secs (n : nat) : Z :=   (* for y in range(1970, 1970+n) *)
  match n with O => 0 | S k => years_secs k + year_len (1970 + Z.of_nat k) end.

Fixpoint months_secs (y : Z) (l : list Z) (k : nat) (n : nat) : Z :=  (* first n months *)
  match n, l with
  | S n', d :: r => month_secs y k d + months_secs y r (S k) n'
  | _, _ => 0
  end.

Definition to_abs (t : date) : Z :=
  years_secs (Z.to_nat (year t - 1970)) + months_secs (year t) dpm 0%nat (Z.to_nat (month t - 1))
  + (day t - 1) * 86400 + hour t * 3600 + minute t * 60 + sec t.

Definition days_in_month (y m : Z) : Z :=
  nth (Z.to_nat (m - 1)) dpm 0 + (if (m =? 2) && is_leap y then 1 else 0).

Definition wf (t : date) : bool :=
  (1 <=? month t) && (month t <=? 12) && (1 <=? day t) && (day t <=? days_in_month (year t) (month t))
  && (0 <=? hour t) && (hour t <? 24) && (0 <=? minute t) && (minute t <? 60)
  && (0 <=? sec t) && (sec t <? 60) && (0 <=? ms t) && (ms t <? 1000).

Eval vm_compute in (read_unix_cur 31536000, read_unix 31536000).
Eval vm_compute in (read_unix_cur 1609459199, read_unix 1609459199).
Eval vm_compute in (to_abs (read_unix 1609459199), wf (read_unix 1609459199), wf (read_unix_cur 31536000)).
