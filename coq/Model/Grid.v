(* Spike: SpatialIndex (explicit resolution) over Q: constructor, __getCell, __cellsCrossSegment, addFeature, request *)
From Coq Require Import List ZArith QArith Qround Bool Lia.
Import ListNotations.
Open Scope Q_scope.

Definition Qleb (x y : Q) : bool := Qle_bool x y.
Definition Qltb (x y : Q) : bool := negb (Qle_bool y x).
Definition Qtrunc (x : Q) : Z := Z.quot (Qnum x) (Z.pos (Qden x)).     (* int(x) *)

Record index := { xmin : Q; xmax : Q; ymin : Q; ymax : Q; csize : Z; lsize : Z; dX : Q; dY : Q }.
Inductive err := IndexError | ZeroDiv.
Inductive res (A : Type) := Ok (a : A) | Err (e : err).
Arguments Ok {A}. Arguments Err {A}.

(* __init__ with a bounding box, a relative margin and an explicit resolution (rx, ry) *)
Definition make (x0 x1 y0 y1 margin rx ry : Q) : res index :=
  let dx := x1 - x0 in let dy := y1 - y0 in
  let xmin := x0 - margin * dx in let xmax := x1 + margin * dx in
  let ymin := y0 - margin * dy in let ymax := y1 + margin * dy in
  let ax := xmax - xmin in let ay := ymax - ymin in
  let cs := Qtrunc (ax / rx) in let ls := Qtrunc (ay / ry) in
  if (cs =? 0)%Z || (ls =? 0)%Z then Err ZeroDiv
  else Ok {| xmin := xmin; xmax := xmax; ymin := ymin; ymax := ymax; csize := cs; lsize := ls;
             dX := ax / inject_Z cs; dY := ay / inject_Z ls |}.

Definition get_cell (g : index) (x y : Q) : option (Q * Q) :=
  if Qltb x (xmin g) || Qltb (xmax g) x then None else
  if Qltb y (ymin g) || Qltb (ymax g) y then None else
  Some ((x - xmin g) / dX g, (y - ymin g) / dY g).

(* geometry.cartesienne / __eval / isSegmentIntersects *)
Definition ev (x1 y1 x2 y2 x y : Q) : Q :=
  let a := y2 - y1 in let b := - (x2 - x1) in let c := - (a * x1 + b * y1) in a * x + b * y + c.
Definition intersects (x11 y11 x12 y12 x21 y21 x22 y22 : Q) : bool :=
  Qleb (ev x11 y11 x12 y12 x21 y21 * ev x11 y11 x12 y12 x22 y22) 0 &&
  Qleb (ev x21 y21 x22 y22 x11 y11 * ev x21 y21 x22 y22 x12 y12) 0.

Definition cell_test (ax ay bx by_ : Q) (ci cj : Z) : bool :=
  let i := inject_Z ci in let j := inject_Z cj in
  (Qltb i ax && Qltb ax (i+1) && Qltb i bx && Qltb bx (i+1) && Qltb j ay && Qltb ay (j+1) && Qltb j by_ && Qltb by_ (j+1))
  || intersects i j (i+1) j ax ay bx by_ || intersects i j i (j+1) ax ay bx by_
  || intersects i (j+1) (i+1) (j+1) ax ay bx by_ || intersects (i+1) j (i+1) (j+1) ax ay bx by_.

Definition zrange (lo hi : Z) : list Z := map (fun k => (lo + Z.of_nat k)%Z) (seq 0 (Z.to_nat (hi - lo + 1))).
(* __cellsCrossSegment: the floor bounding box of the two ends, clamped to the last column / row (points on the upper
   borders of the extent belong to the last cells - repair recorded under C08), then the per-cell test *)
Definition cells (cs ls : Z) (ax ay bx by_ : Q) : list (Z * Z) :=
  let xlo := Z.min (Z.min (Qfloor ax) (Qfloor bx)) (cs - 1) in let xhi := Z.min (Z.max (Qfloor ax) (Qfloor bx)) (cs - 1) in
  let ylo := Z.min (Z.min (Qfloor ay) (Qfloor by_)) (ls - 1) in let yhi := Z.min (Z.max (Qfloor ay) (Qfloor by_)) (ls - 1) in
  flat_map (fun i => flat_map (fun j => if cell_test ax ay bx by_ i j then [(i, j)] else []) (zrange ylo yhi)) (zrange xlo xhi).

(* the grid: association list cell -> registered feature numbers, in registration order *)
Definition grid := list ((Z * Z) * list nat).
Definition cell_eqb (a b : Z * Z) : bool := (fst a =? fst b)%Z && (snd a =? snd b)%Z.
Fixpoint lookup (g : grid) (c : Z * Z) : list nat :=
  match g with [] => [] | (c', l) :: r => if cell_eqb c' c then l else lookup r c end.
Fixpoint add (g : grid) (c : Z * Z) (f : nat) : grid :=
  match g with
  | [] => [(c, [f])]
  | (c', l) :: r => if cell_eqb c' c then (c', if existsb (Nat.eqb f) l then l else l ++ [f]) :: r else (c', l) :: add r c f
  end.

(* __addSegment: grid[i][j] with Python indexing: negative indices wrap, indices >= size raise *)
Definition in_grid (ix : index) (c : Z * Z) : bool :=
  (- csize ix <=? fst c)%Z && (fst c <? csize ix)%Z && (- lsize ix <=? snd c)%Z && (snd c <? lsize ix)%Z.
Definition wrap (ix : index) (c : Z * Z) : Z * Z :=
  ((if (fst c <? 0)%Z then fst c + csize ix else fst c)%Z, (if (snd c <? 0)%Z then snd c + lsize ix else snd c)%Z).

Definition add_segment (ix : index) (g : res grid) (a b : Q * Q) (f : nat) : res grid :=
  fold_left (fun rg c => match rg with Err e => Err e | Ok g => if in_grid ix c then Ok (add g (wrap ix c) f) else Err IndexError end)
            (cells (csize ix) (lsize ix) (fst a) (snd a) (fst b) (snd b)) g.

Fixpoint segments (l : list (Q * Q)) : list ((Q * Q) * (Q * Q)) :=
  match l with a :: (b :: _) as r => (a, b) :: segments r | _ => [] end.

Definition add_feature (ix : index) (g : res grid) (f : nat) (poly : list (Q * Q)) : res grid :=
  fold_left (fun rg '(p, q) =>
    match get_cell ix (fst p) (snd p), get_cell ix (fst q) (snd q) with
    | Some a, Some b => add_segment ix rg a b f
    | _, _ => rg
    end) (segments poly) g.

Definition build (ix : index) (feats : list (list (Q * Q))) : res grid :=
  fst (fold_left (fun '(g, f) poly => (add_feature ix g f poly, S f)) feats (Ok [], 0%nat)).

(* ---- queries ---- *)
(* the cell that contains a point of the extent: floor of the grid coordinates, the upper borders folded into the last cells *)
Definition cell_of (ix : index) (c : Q * Q) : Z * Z := (Z.min (Qfloor (fst c)) (csize ix - 1), Z.min (Qfloor (snd c)) (lsize ix - 1)).

Definition request_point (ix : index) (g : grid) (x y : Q) : option (list nat) :=
  match get_cell ix x y with Some c => Some (lookup g (cell_of ix c)) | None => None end.

(* __addCellValuesInTAB: append the values not yet present, in order *)
Definition add_values (tab : list nat) (vals : list nat) : list nat :=
  fold_left (fun t d => if existsb (Nat.eqb d) t then t else t ++ [d]) vals tab.

Definition request_segment (ix : index) (g : grid) (p q : Q * Q) : option (list nat) :=
  match get_cell ix (fst p) (snd p), get_cell ix (fst q) (snd q) with
  | Some a, Some b => Some (fold_left (fun t c => add_values t (lookup g c)) (cells (csize ix) (lsize ix) (fst a) (snd a) (fst b) (snd b)) [])
  | _, _ => None
  end.

Definition request_track (ix : index) (g : grid) (poly : list (Q * Q)) : option (list nat) :=
  fold_left (fun acc '(p, q) =>
    match acc, get_cell ix (fst p) (snd p), get_cell ix (fst q) (snd q) with
    | Some t, Some a, Some b => Some (fold_left (fun t c => add_values t (lookup g c)) (cells (csize ix) (lsize ix) (fst a) (snd a) (fst b) (snd b)) t)
    | _, _, _ => None
    end) (segments poly) (Some []).

(* __neighboringcells(i, j, u) and neighborhood(i, j, unit >= 0): union over the clipped window *)
Definition zr (lo hi : Z) : list Z := map (fun k => (lo + Z.of_nat k)%Z) (seq 0 (Z.to_nat (hi - lo))).
Definition window (ix : index) (i j u : Z) : list (Z * Z) :=
  let imin := Z.max (i - u) 0 in let imax := Z.min (i + u + 1) (csize ix) in
  let jmin := Z.max (j - u) 0 in let jmax := Z.min (j + u + 1) (lsize ix) in
  flat_map (fun ii => map (fun jj => (ii, jj)) (zr jmin jmax)) (zr imin imax).
Definition neighborhood_cell (ix : index) (g : grid) (i j u : Z) : list nat := flat_map (lookup g) (window ix i j u).
Definition neighborhood_point (ix : index) (g : grid) (x y : Q) (u : Z) : option (list nat) :=
  match get_cell ix x y with
  | Some c => let '(i, j) := cell_of ix c in Some (neighborhood_cell ix g i j u)
  | None => None
  end.

(* groundDistanceToUnits (repaired: the smaller cell side) *)
Definition Qmin2 (a b : Q) : Q := if Qle_bool a b then a else b.
Definition units (ix : index) (d : Q) : Z := Qfloor (d / Qmin2 (dX ix) (dY ix) + 1).
