(* Spike: SpatialIndex (explicit resolution) over Q: constructor, __getCell, __cellsCrossSegment, addFeature, request *)
From Coq Require Import List ZArith QArith Qround Bool Lia.
Import ListNotations.
Open Scope Q_scope.

Definition Qleb (x y : Q) : bool := Qle_bool x y.
Definition Qltb (x y : Q) : bool := negb (Qle_bool y x).
Definition Qtrunc (x : Q) : Z := Z.quot (Qnum x) (Z.pos (Qden x)).     (* int(x) *)

Record index := { xmin : Q; xmax : Q; ymin : Q; ymax : Q; csize : Z; lsize : Z; dX : Q; dY : Q }.
Inductive err := IndexError | ZeroDiv.
Inductive res (A : Type) := Ok (a : A) | Err (e : err).
Arguments Ok {A}. Arguments Err {A}.

(* __init__ with a bounding box, a relative margin and an explicit resolution (rx, ry) *)
Definition make (x0 x1 y0 y1 margin rx ry : Q) : res index :=
  let dx := x1 - x0 in let dy := y1 - y0 in
  let xmin := x0 - margin * dx in let xmax := x1 + margin * dx in
  let ymin := y0 - margin * dy in let ymax := y1 + margin * dy in
  let ax := xmax - xmin in let ay := ymax - ymin in
  let cs := Qtrunc (ax / rx) in let ls := Qtrunc (ay / ry) in
  if (cs =? 0)%Z || (ls =? 0)%Z then Err ZeroDiv
  else Ok {| xmin := xmin; xmax := xmax; ymin := ymin; ymax := ymax; csize := cs; lsize := ls;
             dX := ax / inject_Z cs; dY := ay / inject_Z ls |}.

Definition get_cell (g : index) (x y : Q) : option (Q * Q) :=
  if Qltb x (xmin g) || Qltb (xmax g) x then None else
  if Qltb y (ymin g) || Qltb (ymax g) y then None else
  Some ((x - xmin g) / dX g, (y - ymin g) / dY g).

(* geometry.cartesienne / __eval / isSegmentIntersects *)
Definition ev (x1 y1 x2 y2 x y : Q) : Q :=
  let a := y2 - y1 in let b := - (x2 - x1) in let c := - (a * x1 + b * y1) in a * x + b * y + c.
Definition intersects (x11 y11 x12 y12 x21 y21 x22 y22 : Q) : bool :=
  Qleb (ev x11 y11 x12 y12 x21 y21 * ev x11 y11 x12 y12 x22 y22) 0 &&
  Qleb (ev x21 y21 x22 y22 x11 y11 * ev x21 y21 x22 y22 x12 y12) 0.

Definition cell_test (ax ay bx by_ : Q) (ci cj : Z) : bool :=
  let i := inject_Z ci in let j := inject_Z cj in
  (Qltb i ax && Qltb ax (i+1) && Qltb i bx && Qltb bx (i+1) && Qltb j ay && Qltb ay (j+1) && Qltb j by_ && Qltb by_ (j+1))
  || intersects i j (i+1) j ax ay bx by_ || intersects i j i (j+1) ax ay bx by_
  || intersects i (j+1) (i+1) (j+1) ax ay bx by_ || intersects (i+1) j (i+1) (j+1) ax ay bx by_.

Definition zrange (lo hi : Z) : list Z := map (fun k => (lo + Z.of_nat k)%Z) (seq 0 (Z.to_nat (hi - lo + 1))).
Definition cells (ax ay bx by_ : Q) : list (Z * Z) :=
  let xlo := Z.min (Qfloor ax) (Qfloor bx) in let xhi := Z.max (Qfloor ax) (Qfloor bx) in
  let ylo := Z.min (Qfloor ay) (Qfloor by_) in let yhi := Z.max (Qfloor ay) (Qfloor by_) in
  flat_map (fun i => flat_map (fun j => if cell_test ax ay bx by_ i j then [(i, j)] else []) (zrange ylo yhi)) (zrange xlo xhi).

(* the grid: association list cell -> registered feature numbers, in registration order *)
Definition grid := list ((Z * Z) * list nat).
Definition cell_eqb (a b : Z * Z) : bool := (fst a =? fst b)%Z && (snd a =? snd b)%Z.
Fixpoint lookup (g : grid) (c : Z * Z) : list nat :=
  match g with [] => [] | (c', l) :: r => if cell_eqb c' c then l else lookup r c end.
Fixpoint add (g : grid) (c : Z * Z) (f : nat) : grid :=
  match g with
  | [] => [(c, [f])]
  | (c', l) :: r => if cell_eqb c' c then (c', if existsb (Nat.eqb f) l then l else l ++ [f]) :: r else (c', l) :: add r c f
  end.

(* __addSegment: grid[i][j] with Python indexing: negative indices wrap, indices >= size raise *)
Definition in_grid (ix : index) (c : Z * Z) : bool :=
  (- csize ix <=? fst c)%Z && (fst c <? csize ix)%Z && (- lsize ix <=? snd c)%Z && (snd c <? lsize ix)%Z.
Definition wrap (ix : index) (c : Z * Z) : Z * Z :=
  ((if (fst c <? 0)%Z then fst c + csize ix else fst c)%Z, (if (snd c <? 0)%Z then snd c + lsize ix else snd c)%Z).

Definition add_segment (ix : index) (g : res grid) (a b : Q * Q) (f : nat) : res grid :=
  fold_left (fun rg c => match rg with Err e => Err e | Ok g => if in_grid ix c then Ok (add g (wrap ix c) f) else Err IndexError end)
            (cells (fst a) (snd a) (fst b) (snd b)) g.

Fixpoint segments (l : list (Q * Q)) : list ((Q * Q) * (Q * Q)) :=
  match l with a :: (b :: _) as r => (a, b) :: segments r | _ => [] end.

Definition add_feature (ix : index) (g : res grid) (f : nat) (poly : list (Q * Q)) : res grid :=
  fold_left (fun rg '(p, q) =>
    match get_cell ix (fst p) (snd p), get_cell ix (fst q) (snd q) with
    | Some a, Some b => add_segment ix rg a b f
    | _, _ => rg
    end) (segments poly) g.

Definition build (ix : index) (feats : list (list (Q * Q))) : res grid :=
  fst (fold_left (fun '(g, f) poly => (add_feature ix g f poly, S f)) feats (Ok [], 0%nat)).
