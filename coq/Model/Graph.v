(* Spike: abstract-queue model of Network.run_routing_forward (Dijkstra mode) *)
From Coq Require Import List Arith ZArith QArith Bool Lia Lqa.
Import ListNotations.
Open Scope Q_scope.

Record edge := { eid : nat; esrc : nat; etgt : nat; eori : Z; ew : Q }.
Definition graph := list edge.

(* NEXT_EDGES[u], in insertion order (network.py:230-239) *)
Definition next_of (u : nat) (e : edge) : list edge :=
  (if (0 <=? eori e)%Z && (esrc e =? u)%nat then [e] else []) ++
  (if (eori e <=? 0)%Z && (etgt e =? u)%nat then [e] else []).
Definition next_edges (g : graph) (u : nat) : list edge := flat_map (next_of u) g.

(* network.py:858-860 *)
Definition fils (e : edge) (u : nat) : nat := if (etgt e =? u)%nat then esrc e else etgt e.

Record st := {
  poids : nat -> option Q;          (* None models the -1 sentinel *)
  visite : nat -> bool;
  ante : nat -> option (nat * nat); (* antecedent node, antecedent edge id *)
  fil : list nat;                   (* keys of the priority dict; priority of k is poids k *)
  out : list (nat * Q)              (* output_dict entries (target, value) in insertion order *)
}.

Definition upd {A} (f : nat -> A) (k : nat) (v : A) : nat -> A :=
  fun x => if (x =? k)%nat then v else f x.

Definition init (src : nat) : st :=
  {| poids := upd (fun _ => None) src (Some 0); visite := fun _ => false;
     ante := fun _ => None; fil := [src]; out := [] |}.

(* priority (value, key): smaller value first, ties by key (Node.__lt__) *)
Definition prio_lt (p : nat -> option Q) (a b : nat) : bool :=
  match p a, p b with
  | Some x, Some y => if Qlt_le_dec x y then true else if Qlt_le_dec y x then false else (a <? b)%nat
  | Some _, None => true
  | _, _ => false
  end.

Fixpoint argmin (p : nat -> option Q) (best : nat) (l : list nat) : nat :=
  match l with [] => best | x :: r => argmin p (if prio_lt p x best then x else best) r end.

Fixpoint remove_nat (k : nat) (l : list nat) : list nat :=
  match l with [] => [] | x :: r => if (x =? k)%nat then remove_nat k r else x :: remove_nat k r end.

Definition pop_min (s : st) : option nat :=
  match fil s with [] => None | x :: r => Some (argmin (poids s) x r) end.

(* one relaxation, network.py:857-869 *)
Definition relax (u : nat) (du : Q) (s : st) (e : edge) : st :=
  let v := fils e u in
  if visite s v then s else
  let better := match poids s v with None => true | Some dv => if Qlt_le_dec (du + ew e) dv then true else false end in
  if better then
    {| poids := upd (poids s) v (Some (du + ew e)); visite := visite s;
       ante := upd (ante s) v (Some (u, eid e));
       fil := if existsb (Nat.eqb v) (fil s) then fil s else fil s ++ [v];
       out := out s |}
  else s.

Definition settle (g : graph) (u : nat) (du : Q) (s : st) : st :=
  let s1 := {| poids := poids s; visite := upd (visite s) u true; ante := ante s;
               fil := remove_nat u (fil s); out := out s ++ [(u, du)] |} in
  fold_left (relax u du) (next_edges g u) s1.

Fixpoint run (fuel : nat) (g : graph) (target : option nat) (cut : Q) (s : st) : st :=
  match fuel with
  | O => s
  | S f =>
    match pop_min s with
    | None => s
    | Some u =>
      match poids s u with
      | None => s (* unreachable: queue keys always have a value *)
      | Some du =>
        let s0 := {| poids := poids s; visite := visite s; ante := ante s; fil := remove_nat u (fil s); out := out s |} in
        if (if Qlt_le_dec cut du then true else false) || (match target with Some t => (t =? u)%nat | None => false end)
        then s0
        else run f g target cut (settle g u du s)
      end
    end
  end.
