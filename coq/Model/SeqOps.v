(* Spike: Track sequence operators on the list of observations (track.py:993-1046, 2214-2420, 694-870) *)
From Coq Require Import List Arith ZArith Bool Lia.
Import ListNotations.

Section Ops.
Variable A : Type.

(* Python slice L[a:b] for integer bounds, negative bounds counted from the end *)
Definition norm (n x : Z) : Z := if (x <? 0)%Z then Z.max (x + n) 0 else Z.min x n.
Definition py_slice (l : list A) (a b : Z) : list A :=
  let n := Z.of_nat (length l) in
  let s := norm n a in let e := norm n b in
  firstn (Z.to_nat (e - s)) (skipn (Z.to_nat s) l).

(* track > n : POINTS[n : size] ;  track < n : POINTS[0 : size - n] *)
Definition op_gt (l : list A) (n : Z) : list A := py_slice l n (Z.of_nat (length l)).
(* track < n, repaired: POINTS[0 : max(0, size - n)] ; before the repair the end bound size - n went negative for n > size
   and Python's slice counted it from the end (op_lt_old) *)
Definition op_lt (l : list A) (n : Z) : list A := py_slice l 0 (Z.max 0 (Z.of_nat (length l) - n)).
Definition op_lt_old (l : list A) (n : Z) : list A := py_slice l 0 (Z.of_nat (length l) - n).

(* extract(i, j): POINTS[k] for k in range(i, j+1), indices in range *)
Definition extract (l : list A) (i j : nat) : list A := firstn (S j - i) (skipn i l).

(* track % s : POINTS[::s] *)
Fixpoint every_from (s k : nat) (l : list A) : list A :=   (* k = distance to the next kept element *)
  match l with
  | [] => []
  | x :: r => match k with O => x :: every_from s (s - 1) r | S k' => every_from s k' r end
  end.
Definition op_mod (l : list A) (s : nat) : list A := every_from s 0 l.

(* track % pattern : keep i when pattern[i mod len(pattern)] *)
Definition op_mod_pattern (l : list A) (pat : list bool) : list A :=
  map snd (filter (fun p => nth (fst p mod length pat) pat false) (combine (seq 0 (length l)) l)).

(* removal of a sorted duplicate-free index list: deletes from the highest index down *)
Fixpoint del_nth (l : list A) (i : nat) : list A :=
  match l, i with [], _ => [] | _ :: r, O => r | x :: r, S i' => x :: del_nth r i' end.
Definition remove_ids (l : list A) (ids : list nat) : list A := fold_left del_nth (rev ids) l.

(* track + track2 : the two observation lists appended *)
Definition op_add (l1 l2 : list A) : list A := l1 ++ l2.

(* extractSpanTime(tini, tfin): bounds swapped when reversed, keeps the observations with tini <= t <= tfin, in order *)
Definition span (time : A -> Z) (l : list A) (a b : Z) : list A :=
  let lo := Z.min a b in let hi := Z.max a b in filter (fun o => (lo <=? time o)%Z && (time o <=? hi)%Z) l.

(* list.insert(k, o) for 0 <= k <= len *)
Definition insert_at (l : list A) (k : nat) (o : A) : list A := firstn k l ++ o :: skipn k l.

(* what "exactly the other observations, order kept" means: drop the observations whose (absolute) index is listed *)
Fixpoint drop_ids (i : nat) (l : list A) (ids : list nat) : list A :=
  match l with
  | [] => []
  | x :: r => if existsb (Nat.eqb i) ids then drop_ids (S i) r ids else x :: drop_ids (S i) r ids
  end.
End Ops.
