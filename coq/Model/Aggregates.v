(* cell operators of core/utils.py (repaired co_min / co_max), NaN = None *)
From Coq Require Import List Arith QArith Bool Lia.
Import ListNotations.
Open Scope Q_scope.
Definition val := option Q.
Definition Qltb (x y : Q) : bool := if Qlt_le_dec x y then true else false.

Definition co_count (l : list val) : nat := fold_left (fun c v => match v with Some _ => S c | None => c end) l 0%nat.
Definition co_sum (l : list val) : Q := fold_left (fun s v => match v with Some x => s + x | None => s end) l 0.
Definition co_min (l : list val) : val :=
  fold_left (fun m v => match v with None => m | Some x => match m with None => Some x | Some y => if Qltb x y then Some x else m end end) l None.
Definition co_max (l : list val) : val :=
  fold_left (fun m v => match v with None => m | Some x => match m with None => Some x | Some y => if Qltb y x then Some x else m end end) l None.
Definition co_avg (l : list val) : val :=
  if (co_count l =? 0)%nat then None else Some (co_sum l / inject_Z (Z.of_nat (co_count l))).
