(* cell operators of core/utils.py (repaired co_min / co_max), NaN = None *)
From Coq Require Import List Arith QArith Bool Lia.
Import ListNotations.
Open Scope Q_scope.
Definition val := option Q.
Definition Qltb (x y : Q) : bool := if Qlt_le_dec x y then true else false.

Definition co_count (l : list val) : nat := fold_left (fun c v => match v with Some _ => S c | None => c end) l 0%nat.
Definition co_sum (l : list val) : Q := fold_left (fun s v => match v with Some x => s + x | None => s end) l 0.
Definition co_min (l : list val) : val :=
  fold_left (fun m v => match v with None => m | Some x => match m with None => Some x | Some y => if Qltb x y then Some x else m end end) l None.
Definition co_max (l : list val) : val :=
  fold_left (fun m v => match v with None => m | Some x => match m with None => Some x | Some y => if Qltb y x then Some x else m end end) l None.
Definition co_avg (l : list val) : val :=
  if (co_count l =? 0)%nat then None else Some (co_sum l / inject_Z (Z.of_nat (co_count l))).

(* co_median (after the repair: NaN when nothing is left): drop NaN, sort by repeated extraction of the minimum
   (scan with <=, list.remove of the first equal element), middle element or mean of the two middle ones *)
Definition Qleb (x y : Q) : bool := if Qlt_le_dec y x then false else true.
Definition Qsame (a b : Q) : bool := (Qnum a =? Qnum b)%Z && (Qden a =? Qden b)%positive.   (* same number, same representation *)
Definition valid_of (l : list val) : list Q := flat_map (fun v => match v with Some x => [x] | None => [] end) l.
Fixpoint find_min (m : Q) (l : list Q) : Q := match l with [] => m | v :: r => find_min (if Qleb v m then v else m) r end.
Fixpoint remove_first (x : Q) (l : list Q) : list Q := match l with [] => [] | v :: r => if Qsame v x then r else v :: remove_first x r end.
Fixpoint sel_sort (fuel : nat) (l : list Q) : list Q :=
  match fuel, l with
  | S f, v :: _ => let m := find_min v l in m :: sel_sort f (remove_first m l)
  | _, _ => []
  end.
Definition median_of (s : list Q) : val :=
  let n := length s in
  if (n =? 0)%nat then None
  else if Nat.odd n then Some (nth ((n - 1) / 2) s 0)
  else Some ((1 # 2) * (nth (n / 2) s 0 + nth (n / 2 - 1) s 0)).
Definition co_median (l : list val) : val := let v := valid_of l in median_of (sel_sort (length v) v).

(* Raster.computeAggregates: NaN becomes the no-data value *)
Inductive aggop := OpCount | OpSum | OpMin | OpMax | OpAvg | OpMedian.
Definition NO_DATA : Q := - (99999 # 1).
Definition aggregate (op : aggop) (l : list val) : Q :=
  match op with
  | OpCount => inject_Z (Z.of_nat (co_count l))
  | OpSum => co_sum l
  | OpMin => match l with [] => NO_DATA | _ => match co_min l with Some m => m | None => NO_DATA end end
  | OpMax => match l with [] => NO_DATA | _ => match co_max l with Some m => m | None => NO_DATA end end
  | OpAvg => match co_avg l with Some m => m | None => NO_DATA end
  | OpMedian => match co_median l with Some m => m | None => NO_DATA end
  end.
