(* algo/mapping.py: the candidate states of __mapOnNetwork, generic in the number structure.
   For observation o and the list E of edge numbers returned by the spatial index (an ARBITRARY list here):
     for elem in E:  (p, d, v) = proj_polyligne(geometry of edge elem, o);  if d < search_radius:
                     state (p, elem, __distToNode(geom, p, v, 0), __distToNode(geom, p, v, 1))
     no state  ->  the single state (o, -1, -1, -1)                                   (flagged as unmatched)
   The decoder (C09 model) then picks one state of each list; positions are not written (mode 1). *)
From Coq Require Import Bool List Arith.
Import ListNotations.
From TL Require Import Model.Num Model.Geom.

Section MM.
Context {T : Type} (N : Num T).
Notation "x + y" := (add N x y). Notation "x - y" := (sub N x y). Notation "x * y" := (mul N x y).
Notation Pt := (T * T)%type.

(* an edge: its polyline and the curvilinear-abscissa column of that polyline (computeAbsCurv) *)
Record edge := { egeom : list Pt; eabs : list T }.

Definition dist2 (p q : Pt) : T :=                                   (* ENUCoords.distance2DTo *)
  let dx := fst q - fst p in let dy := snd q - snd p in sqrt N (dx * dx + dy * dy).

(* __distToNode(track, coord, i, end) *)
Definition dist_to_node (g : edge) (p : Pt) (i : nat) (end1 : bool) : T :=
  if end1 then nth (length (egeom g) - 1) (eabs g) (zero N) - nth (S i) (eabs g) (zero N) + dist2 (nth (S i) (egeom g) (zero N, zero N)) p
  else nth i (eabs g) (zero N) + dist2 (nth i (egeom g) (zero N, zero N)) p.

(* a state: projected point, edge number (None = -1, unmatched), distance to the source, distance to the target *)
Record state := { spt : Pt; sedge : option nat; sd0 : T; sd1 : T }.

Inductive cand_result := CState (s : state) | CFar | CDegenerate.     (* CDegenerate: no projectable segment, the code raises UnboundLocalError *)

Definition candidate (eps radius : T) (edges : list edge) (o : Pt) (elem : nat) : cand_result :=
  let g := nth elem edges {| egeom := []; eabs := [] |} in
  match proj_polyligne N eps (egeom g) (fst o) (snd o) with
  | None => CDegenerate
  | Some (d, xp, yp, v) =>
      if ltb N d radius then CState {| spt := (xp, yp); sedge := Some elem; sd0 := dist_to_node g (xp, yp) v false; sd1 := dist_to_node g (xp, yp) v true |}
      else CFar
  end.

Fixpoint collect (eps radius : T) (edges : list edge) (o : Pt) (E : list nat) : option (list state) :=
  match E with
  | [] => Some []
  | elem :: r =>
      match candidate eps radius edges o elem, collect eps radius edges o r with
      | CDegenerate, _ => None
      | _, None => None
      | CState s, Some l => Some (s :: l)
      | CFar, Some l => Some l
      end
  end.

Definition unmatched (o : Pt) : state := {| spt := o; sedge := None; sd0 := opp N (one N); sd1 := opp N (one N) |}.

(* STATES[k] *)
Definition states (eps radius : T) (edges : list edge) (o : Pt) (E : list nat) : option (list state) :=
  match collect eps radius edges o E with
  | None => None
  | Some [] => Some [unmatched o]
  | Some l => Some l
  end.
End MM.
