(* Spike: comparison._fdtw (best-first search on the coupling lattice) over Q *)
From Coq Require Import List Arith QArith Bool Lia.
Import ListNotations.
Open Scope Q_scope.

Definition node := (nat * nat)%type.
Definition node_eqb (a b : node) : bool := (fst a =? fst b)%nat && (snd a =? snd b)%nat.
Definition node_ltb (a b : node) : bool := (fst a <? fst b)%nat || ((fst a =? fst b)%nat && (snd a <? snd b)%nat).
Definition inl (x : node) (l : list node) : bool := existsb (node_eqb x) l.
Fixpoint remove_node (k : node) (l : list node) : list node :=
  match l with [] => [] | x :: r => if node_eqb x k then remove_node k r else x :: remove_node k r end.

Section F.
Variable w : Q -> Q -> Q.
Variable D : nat -> nat -> Q.
Variables n2 n1 : nat.

(* tt: T[node] (= F[node] while queued); vis: V; fil: keys of F *)
Record st := { tt : node -> option Q; vis : list node; fil : list node }.
Definition upd (f : node -> option Q) (k : node) (v : option Q) : node -> option Q :=
  fun x => if node_eqb x k then v else f x.

(* _update_node; a node absent from F gets the 1e300 sentinel first, i.e. any real cost improves it *)
Definition update (s : st) (v : node) (c : Q) : st :=
  if inl v (vis s) then s else
  match tt s v with
  | Some old => if Qlt_le_dec c old then {| tt := upd (tt s) v (Some c); vis := vis s; fil := fil s |} else s
  | None => {| tt := upd (tt s) v (Some c); vis := vis s; fil := fil s ++ [v] |}
  end.

(* the three successors, in the order of the code: diagonal, (i, j+1), (i+1, j) *)
Definition succs (u : node) : list node :=
  let (i, j) := u in
  (if (S i <? n2)%nat && (S j <? n1)%nat then [(S i, S j)] else []) ++
  (if (S j <? n1)%nat then [(i, S j)] else []) ++ (if (S i <? n2)%nat then [(S i, j)] else []).

Definition settle (s : st) (u : node) (cu : Q) : st :=
  fold_left (fun s v => update s v (w cu (D (fst v) (snd v)))) (succs u)
            {| tt := tt s; vis := u :: vis s; fil := remove_node u (fil s) |}.

(* pop_smallest: least (value, key) *)
Definition better (s : st) (a b : node) : bool :=
  match tt s a, tt s b with
  | Some x, Some y => if Qlt_le_dec x y then true else if Qlt_le_dec y x then false else node_ltb a b
  | Some _, None => true
  | _, _ => false
  end.
Fixpoint argmin (s : st) (best : node) (l : list node) : node :=
  match l with [] => best | x :: r => argmin s (if better s x best then x else best) r end.

Fixpoint run (fuel : nat) (s : st) : option Q :=
  match fuel with
  | O => None
  | S f =>
    match fil s with
    | [] => None                      (* pop from an empty queue: IndexError *)
    | x :: r =>
      let u := argmin s x r in
      match tt s u with
      | None => None
      | Some cu => if node_eqb u ((n2 - 1)%nat, (n1 - 1)%nat) then Some cu else run f (settle s u cu)
      end
    end
  end.

Definition init : st := {| tt := upd (fun _ => None) (0%nat, 0%nat) (Some (w 0 (D 0%nat 0%nat))); vis := []; fil := [(0%nat, 0%nat)] |}.
Definition fdtw_score : option Q := run (S (n2 * n1)) init.
End F.

Definition Dw (i j : nat) : Q := let a := nth j [0;1;0] 0 in let b := nth i [1;0;1] 0 in if Qlt_le_dec a b then b - a else a - b.
Eval vm_compute in (fdtw_score Qplus Dw 3 3).
