(* Spike: Track feature table (track.py:497-633, 1047-1124) *)
From Coq Require Import List Ascii String Bool Arith ZArith QArith Lia.
Import ListNotations.
From TL Require Import Model.Str.
Open Scope Q_scope.

Definition val := option Q.            (* None = NaN *)
Inductive err := AFError | KeyError | TypeError | IndexError | ZeroDiv | ValueError | Other.
Inductive res (A : Type) := Ok (a : A) | Err (e : err).
Arguments Ok {A}. Arguments Err {A}.
Definition bind {A B} (r : res A) (f : A -> res B) : res B := match r with Ok a => f a | Err e => Err e end.
Notation "'do' x <- r ; k" := (bind r (fun x => k)) (at level 200, x pattern, r at level 100, k at level 200).

Definition str_eqb (a b : str) : bool := if list_eq_dec ascii_dec a b then true else false.

Record track := { xs : list val; ys : list val; zs : list val; ts : list val;
                  dico : list (str * nat); feats : list (list val) }.
Definition size (t : track) : nat := List.length (xs t).

Definition virtuals : list str := map s_ ["x"; "y"; "z"; "t"; "timestamp"; "idx"]%string.
Definition is_virtual (n : str) : bool := existsb (str_eqb n) virtuals.
Fixpoint lookup (d : list (str * nat)) (n : str) : option nat :=
  match d with [] => None | (k, i) :: r => if str_eqb k n then Some i else lookup r n end.
Definition has_af (t : track) (n : str) : bool :=
  match lookup (dico t) n with Some _ => true | None => is_virtual n end.

Definition vnat (i : nat) : val := Some (inject_Z (Z.of_nat i)).

Definition get_af (t : track) (n : str) : res (list val) :=
  if str_eqb n (s_ "x") then Ok (xs t) else if str_eqb n (s_ "y") then Ok (ys t)
  else if str_eqb n (s_ "z") then Ok (zs t) else if str_eqb n (s_ "t") then Ok (ts t)
  else if str_eqb n (s_ "timestamp") then Err Other
  else if str_eqb n (s_ "idx") then Ok (map vnat (seq 0 (size t)))
  else match lookup (dico t) n with
       | Some i => Ok (map (fun f => nth i f None) (feats t))
       | None => Err AFError
       end.

Fixpoint set_nth {A} (l : list A) (i : nat) (v : A) : list A :=
  match l, i with
  | [], _ => []
  | _ :: r, O => v :: r
  | a :: r, S i' => a :: set_nth r i' v
  end.

(* write a whole column through setObsAnalyticalFeature (addListToAF) *)
Definition set_col (t : track) (n : str) (col : list val) : res track :=
  if str_eqb n (s_ "x") then Ok {| xs := col; ys := ys t; zs := zs t; ts := ts t; dico := dico t; feats := feats t |}
  else if str_eqb n (s_ "y") then Ok {| xs := xs t; ys := col; zs := zs t; ts := ts t; dico := dico t; feats := feats t |}
  else if str_eqb n (s_ "z") then Ok {| xs := xs t; ys := ys t; zs := col; ts := ts t; dico := dico t; feats := feats t |}
  else match lookup (dico t) n with
       | Some i => Ok {| xs := xs t; ys := ys t; zs := zs t; ts := ts t; dico := dico t;
                         feats := map (fun '(f, v) => set_nth f i v) (combine (feats t) col) |}
       | None => Err AFError
       end.

Inductive init := IScalar (v : val) | IList (l : list val).

Definition create_af (t : track) (n : str) (i : init) : res track :=
  if is_virtual n then Err AFError
  else if (size t =? 0)%nat then Err AFError
  else if has_af t n then Ok t
  else let col := match i with IScalar v => repeat v (size t) | IList l => l end in
       if (List.length col <? size t)%nat then Err IndexError
       else Ok {| xs := xs t; ys := ys t; zs := zs t; ts := ts t;
                  dico := dico t ++ [(n, List.length (dico t))];
                  feats := map (fun '(f, v) => f ++ [v]) (combine (feats t) col) |}.

Fixpoint remove_nth {A} (l : list A) (i : nat) : list A :=
  match l, i with [], _ => [] | _ :: r, O => r | a :: r, S i' => a :: remove_nth r i' end.

Definition remove_af (t : track) (n : str) : res track :=
  if negb (has_af t n) then Err AFError
  else match lookup (dico t) n with
       | None => Err KeyError
       | Some i =>
         Ok {| xs := xs t; ys := ys t; zs := zs t; ts := ts t;
               dico := map (fun '(k, j) => (k, if (i <? j)%nat then (j - 1)%nat else j))
                           (filter (fun '(k, _) => negb (str_eqb k n)) (dico t));
               feats := map (fun f => remove_nth f i) (feats t) |}
       end.

Definition names (t : track) : list str := map fst (dico t).
