(* Spike: Raster.getCell (raster.py:169-216) over Q *)
From Coq Require Import List ZArith QArith Qround Bool Lia Lqa.
Import ListNotations.
Open Scope Q_scope.

Definition Qleb (x y : Q) : bool := Qle_bool x y.
Definition Qltb (x y : Q) : bool := negb (Qle_bool y x).
Definition Qceil (x : Q) : Z := Qceiling x.
Definition Qfl (x : Q) : Z := Qfloor x.
Definition is_int (x : Q) : bool := Qeq_bool x (inject_Z (Qfloor x)).

Record raster := { xmin : Q; xmax : Q; ymin : Q; ymax : Q; rx : Q; ry : Q }.
Definition ncol (r : raster) : Z := Qceil ((xmax r - xmin r) / rx r).
Definition nrow (r : raster) : Z := Qceil ((ymax r - ymin r) / ry r).

Definition get_cell (r : raster) (x y : Q) : option (Z * Z) :=
  if Qltb x (xmin r) || Qltb (xmax r) x then None else
  if Qltb y (ymin r) || Qltb (ymax r) y then None else
  let idx := (x - xmin r) / rx r in
  let idy := inject_Z (nrow r - 1) - (y - ymin r) / ry r in
  let column := if Qeq_bool idx (inject_Z (ncol r)) then (Qfl idx - 1)%Z else Qfl idx in
  let line := if is_int idy && (-1 <? Qfl idy)%Z then Qfl idy
              else if is_int idy && (Qfl idy =? -1)%Z then (Qfl idy + 1)%Z
              else (Qfl idy + 1)%Z in
  Some (column, line).

Definition r1 := {| xmin := 0; xmax := 10; ymin := 0; ymax := 7; rx := 3; ry := 2 |}.
Eval vm_compute in (ncol r1, nrow r1, map (fun '(x,y) => get_cell r1 x y) [(0,0); (10,7); (3,2); (29#10, 19#10); (9,6); (10,0); (0,7); (5, 8)]).
