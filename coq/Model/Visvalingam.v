(* simplification.visvalingam with the repaired loop (end points never candidates, stop at two fixes), over Q *)
From Coq Require Import List Arith QArith Qabs Bool Lia.
Import ListNotations.
Open Scope Q_scope.

Definition pt := (Q * Q)%type.
Definition area3 (a b c : pt) : Q :=   (* triangle_area(x0,y0,x1,y1,x2,y2) *)
  (1 # 2) * Qabs ((fst b - fst a) * (snd c - snd b) - (fst c - fst b) * (snd b - snd a)).

Definition BIG : Q := 10 ^ 300.   (* ARGMIN starts from +1e300 *)
Definition Qltb (x y : Q) : bool := if Qlt_le_dec x y then true else false.
Definition Qleb (x y : Q) : bool := if Qlt_le_dec y x then false else true.

(* ARGMIN over option-valued areas: NaN (None) never wins; first strict minimum *)
Fixpoint argmin_from (l : list (option Q)) (i : nat) (best : Q) (bi : nat) : nat :=
  match l with
  | [] => bi
  | None :: r => argmin_from r (S i) best bi
  | Some v :: r => if Qltb v best then argmin_from r (S i) v i else argmin_from r (S i) best bi
  end.
Definition argmin (l : list (option Q)) : nat := argmin_from l 0 BIG 0.

Fixpoint remove_nth {A} (l : list A) (i : nat) : list A :=
  match l, i with [], _ => [] | _ :: r, O => r | a :: r, S i' => a :: remove_nth r i' end.
Fixpoint set_nth {A} (l : list A) (i : nat) (v : A) : list A :=
  match l, i with [], _ => [] | _ :: r, O => v :: r | a :: r, S i' => a :: set_nth r i' v end.

Definition d0 : pt := (0, 0).
Definition area_at (p : list pt) (i : nat) : option Q := Some (area3 (nth (i - 1) p d0) (nth i p d0) (nth (i + 1) p d0)).

(* initial areas: interior fixes get their triangle, the last one NaN (IndexError), the first one NaN (repair) *)
Definition init_areas (p : list pt) : list (option Q) :=
  map (fun i => if (i =? 0)%nat || (i =? length p - 1)%nat then None else area_at p i) (seq 0 (length p)).

Fixpoint loop (fuel : nat) (p : list pt) (a : list (option Q)) (eps2 : Q) : list pt :=
  match fuel with
  | O => p
  | S f =>
    if (length p <=? 2)%nat then p else
    let id := argmin a in
    match nth id a None with
    | None => p                                    (* not (NaN <= eps) : break *)
    | Some v =>
      if Qleb v eps2 then
        let p' := remove_nth p id in let a' := remove_nth a id in
        let a1 := if (1 <? id)%nat then set_nth a' (id - 1) (area_at p' (id - 1)) else a' in
        let a2 := if (id <? length p' - 1)%nat then set_nth a1 id (area_at p' id) else a1 in
        loop f p' a2 eps2
      else p
    end
  end.

Definition visvalingam (p : list pt) (eps : Q) : list pt := loop (length p) p (init_areas p) (eps * eps).

Eval vm_compute in visvalingam [(0,0); (10,0); (10,10); (0,10); (0,0)] 1.
Eval vm_compute in visvalingam [(0,0); (1#10,5); (0,10); (10,10); (20,0)] 100.
