(* Spike: Track.__getInsertionIndex (track.py:878-906) on a list of timestamps (Z) *)
From Coq Require Import List ZArith Bool Lia.
Import ListNotations.
Open Scope Z_scope.

Definition tget (l : list Z) (i : Z) : Z := nth (Z.to_nat i) l 0.

(* dichotomy loop; returns None when the code would index out of range (never, see theorem) *)
Fixpoint dicho (fuel : nat) (l : list Z) (N t id delta : Z) : option Z :=
  match fuel with
  | O => None
  | S f =>
    if delta =? 0 then Some id else
    let id := id + delta in
    if N <=? id then dicho f l N t id (- Z.abs (Z.shiftr delta 1)) else
    if id =? 0 then Some id else
    if t <? tget l id then dicho f l N t id (- Z.abs (Z.shiftr delta 1))
    else dicho f l N t id (Z.abs (Z.shiftr delta 1))
  end.

(* while obs(id) > t: if id == 0 break; id -= 1 *)
Fixpoint go_left (fuel : nat) (l : list Z) (t id : Z) : Z :=
  match fuel with O => id | S f => if t <? tget l id then (if id =? 0 then id else go_left f l t (id - 1)) else id end.

(* while obs(id) <= t: id += 1; if id == N break *)
Fixpoint go_right (fuel : nat) (l : list Z) (N t id : Z) : Z :=
  match fuel with O => id | S f => if tget l id <=? t then (let id := id + 1 in if id =? N then id else go_right f l N t id) else id end.

Definition insertion_index (l : list Z) (t : Z) : option Z :=
  let N := Z.of_nat (length l) in
  if N =? 0 then Some 0 else
  if N =? 1 then Some (if tget l 0 <? t then 1 else 0) else
  let delta := 2 ^ (Z.log2 N - 1) in
  match dicho (length l + Z.to_nat (Z.log2 N) + 3) l N t 0 delta with
  | None => None
  | Some id => let id := go_left (length l) l t id in Some (go_right (length l) l N t id)
  end.

Eval vm_compute in map (insertion_index [10; 20; 20; 30; 40]) [5; 10; 15; 20; 25; 30; 35; 40; 45].
Eval vm_compute in map (insertion_index [10; 20]) [5; 10; 15; 20; 25].
