(* interpolation.__resampleSpatial (one coordinate) over Q, abscissas S given *)
From Coq Require Import List Arith ZArith QArith Bool Lia.
Import ListNotations.
From TL Require Import Model.Resample.
Open Scope Q_scope.

Definition Qtrunc (x : Q) : Z := Z.quot (Qnum x) (Z.pos (Qden x)).     (* int(x) *)

(* for k in range(1, N+1): s = k*ds + sini ; while S[running_id] < s: running_id += 1 ; interpolate *)
Fixpoint loop_s (S X : list Q) (sini ds : Q) (ks : list nat) (rid : nat) (acc : list (Q * Q)) : option (list (Q * Q)) :=
  match ks with
  | [] => Some (rev acc)
  | k :: r =>
    let s := inject_Z (Z.of_nat k) * ds + sini in
    match advance (Datatypes.S (length S)) S rid s with
    | None => None                                   (* IndexError: ran past the last abscissa *)
    | Some rid' => loop_s S X sini ds r rid' ((s, lerp S X rid' s) :: acc)
    end
  end.

Definition resample_spatial (S X : list Q) (ds : Q) : option (list (Q * Q)) :=
  let sini := nth 0 S 0 in let sfin := last S 0 in
  let N := Z.to_nat (Qtrunc ((sfin - sini) / ds)) in
  match loop_s S X sini ds (seq 1 N) 0 [] with
  | None => None
  | Some pts => Some ((sini, nth 0 X 0) :: pts)
  end.
