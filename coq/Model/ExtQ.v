(* feature values as segmentation() compares them: a finite number, +inf or -inf (NaN is the `None` of the marker model).
   Python's `value <= threshold` on binary64 values, for the non-NaN ones. *)
From Coq Require Import QArith Bool.

Inductive extq := Fin (q : Q) | PInf | MInf.

Definition extq_leb (a b : extq) : bool :=
  match a, b with
  | MInf, _ => true
  | _, PInf => true
  | Fin x, Fin y => Qle_bool x y
  | _, _ => false
  end.
