(* analytics.ds / operators.Integrator / cinematics.computeAbsCurv / analytics.speed, over an abstract ordered field *)
From Coq Require Import List Arith QArith Bool Lia.
Import ListNotations.
Open Scope Q_scope.

Section K.
Variable P : Type.                 (* positions *)
Variable dist : P -> P -> Q.       (* planimetric distance (abstract, non-negative) *)

(* ds feature: 0 at index 0, distance to the previous fix otherwise *)
Fixpoint ds_from (prev : P) (l : list P) : list Q :=
  match l with [] => [] | p :: r => dist p prev :: ds_from p r end.
Definition ds (l : list P) : list Q := match l with [] => [] | p :: r => 0 :: ds_from p r end.

(* Integrator: temp[0] = 0 ; temp[i] = temp[i-1] + x[i] *)
Fixpoint integ_from (acc : Q) (x : list Q) : list Q :=
  match x with [] => [] | v :: r => (acc + v) :: integ_from (acc + v) r end.
Definition integrator (x : list Q) : list Q := match x with [] => [] | _ :: r => 0 :: integ_from 0 r end.

Definition abs_curv (l : list P) : list Q := integrator (ds l).

(* speed(track, i): one-sided at the ends, centred inside; None = NaN when the duration is zero *)
Definition speed_at (pos : list P) (t : list Q) (d0 : P) (i : nat) : option Q :=
  let n := length pos in
  let pair := if (i =? 0)%nat then (1%nat, 0%nat) else if (i =? n - 1)%nat then ((n - 1)%nat, (n - 2)%nat) else ((i + 1)%nat, (i - 1)%nat) in
  let '(a, b) := pair in
  let dt := nth a t 0 - nth b t 0 in
  if Qeq_bool dt 0 then None else Some (dist (nth a pos d0) (nth b pos d0) / dt).
End K.
