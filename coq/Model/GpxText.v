(* TrackWriter.writeToGpx and TrackReader.readFromGpx (type trk) at the level of text lines.
   The reader is line based: it looks for the markers <trk>, </trk>, <trkpt , </trkpt>, <ele>, <time> in each line, takes latitude and longitude
   as pieces 1 and 3 of the line split at the double quote, and the height / time as the text between the first closing and the next opening angle
   bracket.  Coordinates and times are tokens here (the number and time formats have their own round-trip theorems). *)
From Coq Require Import List Ascii String Bool.
From TL Require Import Model.CsvText.
Import ListNotations.
Open Scope string_scope.

Definition dquote : ascii := """"%char.

(* Python: p in s *)
Fixpoint prefix (p s : string) : bool :=
  match p, s with "", _ => true | String a p', String b s' => Ascii.eqb a b && prefix p' s' | _, _ => false end.
Fixpoint has (p s : string) : bool := prefix p s || match s with "" => false | String _ r => has p r end.

Record pt := { lat : string; lon : string; ele : string; tim : string }.
Record trk := { tname : string; tpts : list pt }.

(* ---- writer (one string per line, without the newline) ---- *)
Definition pt_lines (p : pt) : list string :=
  [ "            <trkpt lat=" ++ String dquote (lat p ++ String dquote (" lon=" ++ String dquote (lon p ++ String dquote ">")));
    "                <ele>" ++ ele p ++ "</ele>";
    "                <time>" ++ tim p ++ "</time>";
    "            </trkpt>" ].
Definition trk_lines (t : trk) : list string :=
  List.app ["    <trk>"; "    <name>" ++ tname t ++ "</name>"; "        <trkseg>"] (List.app (flat_map pt_lines (tpts t)) ["        </trkseg>"; "    </trk>"]).
Definition gpx_lines (hdr : list string) (ts : list trk) : list string := List.app hdr (List.app (flat_map trk_lines ts) ["</gpx>"]).
Definition write_gpx (hdr : list string) (ts : list trk) : string := concat_lines (gpx_lines hdr ts).

(* ---- reader ---- *)
Definition between (ln : string) : option string :=          (* line.split('>')[1].split('<')[0] *)
  match split ">" ln with _ :: b :: _ => match split "<" b with a :: _ => Some a | [] => None end | _ => None end.

Record st := { in_trk : bool; in_pt : bool; pos : option (string * string * string); tps : option string; acc : list (list pt) }.
Definition st0 : st := {| in_trk := false; in_pt := false; pos := None; tps := None; acc := [] |}.

(* tracks are accumulated most recent first, points of a track most recent first; None = the Python code would raise *)
Definition step (s : option st) (ln : string) : option st :=
  match s with None => None | Some s =>
  let s1 := if has "<trk>" ln then {| in_trk := true; in_pt := false; pos := pos s; tps := tps s; acc := [] :: acc s |} else s in
  let s2 := if has "</trk>" ln then {| in_trk := false; in_pt := in_pt s1; pos := pos s1; tps := tps s1; acc := acc s1 |} else s1 in
  if negb (in_trk s2) then Some s2 else
  let s3 := if has "<trkpt " ln
            then match split dquote ln with
                 | _ :: la :: _ :: lo :: _ => Some {| in_trk := true; in_pt := true; pos := Some (la, lo, "0"); tps := tps s2; acc := acc s2 |}
                 | _ => None end
            else Some s2 in
  match s3 with None => None | Some s3 =>
  let s4 := if has "</trkpt>" ln
            then match pos s3, tps s3, acc s3 with
                 | Some (la, lo, el), Some t, cur :: rest =>
                     Some {| in_trk := true; in_pt := false; pos := pos s3; tps := tps s3; acc := ({| lat := la; lon := lo; ele := el; tim := t |} :: cur) :: rest |}
                 | _, _, _ => None end
            else Some s3 in
  match s4 with None => None | Some s4 =>
  if negb (in_pt s4) then Some s4 else
  let s5 := if has "<ele>" ln
            then match between ln, pos s4 with Some e, Some (la, lo, _) => Some {| in_trk := true; in_pt := true; pos := Some (la, lo, e); tps := tps s4; acc := acc s4 |} | _, _ => None end
            else Some s4 in
  match s5 with None => None | Some s5 =>
  if has "<time>" ln
  then match between ln with Some t => Some {| in_trk := true; in_pt := true; pos := pos s5; tps := Some t; acc := acc s5 |} | None => None end
  else Some s5
  end end end end.

Definition read_lines_gpx (ls : list string) : option (list (list pt)) :=
  option_map (fun s => rev (map (@rev pt) (acc s))) (fold_left step ls (Some st0)).
Definition read_gpx (text : string) : option (list (list pt)) := read_lines_gpx (split nl text).

Eval vm_compute in read_gpx (write_gpx ["<?xml version=1.0?>"; "<gpx>"; "<metadata>"; "<time>01/01/2020 00:00:00</time></metadata>"]
  [{| tname := "7"; tpts := [{| lat := "48.50000000"; lon := "2.25000000"; ele := "35.00000000"; tim := "2020-02-29T23:59:59Z" |};
                             {| lat := "-0.00000100"; lon := "179.99999999"; ele := "0.00000000"; tim := "1970-01-01T00:00:00Z" |}] |};
   {| tname := "8"; tpts := [] |}]).
