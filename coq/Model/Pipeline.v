From Coq Require Import List Ascii String Bool Arith ZArith QArith Lia.
Import ListNotations.
From TL Require Import Model.Str Model.Rpn Model.Table Model.Eval.
Open Scope Q_scope.

Definition special_op_char (e : str) : str :=
  let e := replace (s_ "**") (s_ "^") e in
  let e := replace (s_ ".*") (s_ "!") e in
  let e := replace (s_ "{") (s_ "@(") e in
  let e := replace (s_ "}") (s_ ")") e in
  let e := replace (s_ ">>") (s_ "&") e in
  replace (s_ "<<") (s_ "$") e.

Definition reflex_ops : list str := map s_ ["+"; "-"; "*"; "/"; "^"; ">>"; "<<"; "%"; "!"]%string.
Definition convert_reflex (e : str) : str :=
  fold_left (fun e op =>
    let pat := op ++ s_ "=" in
    if contains pat e then
      match split_first pat e with
      | Some (a, rest) =>
        let b := match split_first pat rest with Some (b, _) => b | None => rest end in
        a ++ s_ "=" ++ a ++ op ++ s_ "(" ++ b ++ s_ ")"
      | None => e
      end
    else e) reflex_ops e.

Definition unary_op (e : str) : res str :=
  match e with
  | [] => Err IndexError
  | c :: _ =>
    let e := if Ascii.eqb c "-" || Ascii.eqb c "+" then "0"%char :: e else e in
    let e := replace (s_ "=+") (s_ "=0+") (replace (s_ "=-") (s_ "=0-") e) in
    let e := replace (s_ "(+") (s_ "(0+") (replace (s_ "(-") (s_ "(0-") e) in
    let e := replace (s_ "++") (s_ "+") (replace (s_ "--") (s_ "+") e) in
    Ok (replace (s_ "-+") (s_ "-") (replace (s_ "+-") (s_ "-") e))
  end.

(* keys of NAMES_DICT_VOID then NAMES_DICT_NON_VOID that pass the suffix filters, in dict order *)
Definition fun_keys : list str := map s_
  ["I"; "D"; "D2"; "LOG"; "ABS"; "SQRT"; "DIODE"; "SIGN"; "EXP"; "COS"; "SIN"; "TAN";
   (* the operator-like keys  >  <  %  s&  s$  s>  s<  s%  sr>  sr%  sr<  are skipped by the suffix filter since the repair recorded under C02 *)
   "SUM"; "AVG"; "VAR"; "STD"; "MSE"; "RMSE"; "MAD"; "MIN"; "MAX"; "MEDIAN"; "ARGMIN"; "ARGMAX"]%string.
Definition mark_functions (e : str) : str :=
  fold_left (fun e k => replace (k ++ s_ "(") (k ++ s_ "@(") e) fun_keys e.

Definition operators : str := list_ascii_of_string "=+-*/^@&$<>%!".

Fixpoint run_rpn (toks : list str) (t : track) (stack : list item) (k : nat) : res track :=
  match toks with
  | [] => Ok t
  | e :: r =>
    match e with
    | [c] =>
      if mem c operators then
        match stack with
        | op2 :: op1 :: st => do p <- apply_op t op1 op2 c k; run_rpn r (fst p) (snd p :: st) (S k)
        | _ => Err IndexError
        end
      else run_rpn r t (SStr e :: stack) k
    | _ => run_rpn r t (SStr e :: stack) k
    end
  end.

Definition rpn_res (r : Rpn.res) : res (list str) :=
  match r with Rpn.Ok l => Ok l | Rpn.IndexError => Err IndexError | Rpn.OutOfFuel => Err Other end.

(* __evaluate followed by the '#'-cleanup of operate(); the cleanup does not run when __evaluate raises *)
Definition evaluate (t : track) (expr : str) : res (track * option (list val)) :=
  let e := filter (fun c => negb (Ascii.eqb c " ")) expr in
  let e := convert_reflex (special_op_char e) in
  do e <- unary_op e;
  let e := mark_functions e in
  let void := contains (s_ "=") e in
  let e := if void then e else s_ "#output = " ++ e in
  do toks <- rpn_res (makeRPN (S (List.length e)) e);
  do t1 <- run_rpn toks t [] 0;
  if void then Ok (t1, None)
  else do out <- get_af t1 (s_ "#output"); do t2 <- remove_af t1 (s_ "#output"); Ok (t2, Some out).

Definition is_temp (n : str) : bool := match n with "#"%char :: _ => true | _ => false end.
Definition operate_str (t : track) (expr : str) : res (track * option (list val)) :=
  do p <- evaluate t expr; let t1 := fst p in let out := snd p in
  do t2 <- fold_left (fun rt n => do t' <- rt; if is_temp n then remove_af t' n else Ok t') (names t1) (Ok t1);
  Ok (t2, out).
