(* The text protocol of TrackWriter.writeToFile / TrackReader.__readFromCsv for one observation line:
   writer: the special columns E N (U) (T) printed in the order of their ids, joined by the separator,
           numbers as "{:W.Pf}".format(v).strip(), the timestamp as str(ObsTime) ("2D/2M/4Y 2h:2m:2s");
   reader: line.split(sep), empty fields dropped, float(fields[id]) / readTimestamp(fields[id_T]).
   float() on such a text is modelled by its exact decimal value (parse_fixed); that CPython rounds it to the nearest
   binary64 is Python's contract (trusted base). *)
From Coq Require Import List Ascii String ZArith NArith QArith Bool DecimalString.
From TL Require Import Model.TextFmt Proofs.Columns Proofs.TimeText.
Import ListNotations.
Open Scope string_scope.

Fixpoint lstrip (s : string) : string := match s with String " " r => lstrip r | _ => s end.
Definition mk d m y h mi s := {| day := d; month := m; year := y; hour := h; minute := mi; sec := s |}.
Fixpoint join (sep : string) (l : list string) : string := match l with [] => "" | [a] => a | a :: r => a ++ sep ++ join sep r end.

(* the data list D of __printInOrder and the printed line *)
Definition data (w p : nat) (idU idT : option nat) (x y z : Q) (t : stamp) : list string :=
  List.app [lstrip (fmt_fixed w p x); lstrip (fmt_fixed w p y)]
    (List.app (match idU with Some _ => [lstrip (fmt_fixed w p z)] | None => [] end)
              (match idT with Some _ => [string_of_list_ascii (TimeText.print t)] | None => [] end)).
Definition fields_out (w p idE idN : nat) (idU idT : option nat) (x y z : Q) (t : stamp) : list string :=
  map (fun k => nth k (data w p idU idT x y z t) "") (printed idE idN idU idT).
Definition line (w p idE idN : nat) (idU idT : option nat) (sep : string) (x y z : Q) (t : stamp) : string :=
  join sep (fields_out w p idE idN idU idT x y z t).

(* ---- reader ---- *)
(* s.split(c) for a one-character separator *)
Fixpoint split_acc (c : ascii) (s : string) (cur : string -> string) : list string :=
  match s with
  | "" => [cur ""]
  | String a r => if Ascii.eqb a c then cur "" :: split_acc c r (fun x => x) else split_acc c r (fun x => cur (String a x))
  end.
Definition split (c : ascii) (s : string) : list string := split_acc c s (fun x => x).
Definition nonempty (s : string) : bool := match s with "" => false | _ => true end.
Definition read_fields (c : ascii) (ln : string) : list string := filter nonempty (split c ln).

Fixpoint split_dot (s : string) : string * option string :=
  match s with
  | "" => ("", None)
  | String a r => if Ascii.eqb a "." then ("", Some r) else let '(i, f) := split_dot r in (String a i, f)
  end.
Definition parse_uint (s : string) : option N := option_map N.of_uint (NilEmpty.uint_of_string s).
Definition pow10 (n : nat) : positive := Z.to_pos (10 ^ Z.of_nat n).
(* the exact value of an unsigned decimal literal "ddd" or "ddd.fff" *)
Definition parse_unsigned (s : string) : option Q :=
  let '(i, f) := split_dot s in
  match parse_uint i, f with
  | Some a, None => Some (inject_Z (Z.of_N a))
  | Some a, Some fs => match parse_uint fs with
                       | Some b => Some (inject_Z (Z.of_N a) + (Z.of_N b # pow10 (String.length fs)))%Q
                       | None => None end
  | None, _ => None
  end.
Definition parse_fixed (s : string) : option Q :=
  match lstrip s with
  | String "-" r => option_map Qopp (parse_unsigned r)
  | s' => parse_unsigned s'
  end.

Definition read_time (s : string) : stamp := TimeText.read (list_ascii_of_string s).

Eval vm_compute in (line 10 3 1 0 (Some 3%nat) (Some 2%nat) "," (15 # 10) (-30004 # 10000) (1 # 16) (mk 1 2 2020 3 4 5)).
Eval vm_compute in (read_fields "," (line 10 3 1 0 (Some 3%nat) (Some 2%nat) "," (15 # 10) (-30004 # 10000) (1 # 16) (mk 1 2 2020 3 4 5))).
Eval vm_compute in (parse_fixed "    -3.000", parse_fixed "12.0625", parse_fixed "7").

(* ---- the file: header / comment lines, one line per observation, every line ended by a newline ---- *)
Definition nl : ascii := "010".
Definition white (c : ascii) : bool :=
  Ascii.eqb c " " || Ascii.eqb c "009" || Ascii.eqb c "010" || Ascii.eqb c "011" || Ascii.eqb c "012" || Ascii.eqb c "013".
Fixpoint lstrip_w (s : string) : string := match s with String c r => if white c then lstrip_w r else s | "" => "" end.
Fixpoint rstrip_w (s : string) : string :=
  match s with "" => "" | String c r => match rstrip_w r with "" => if white c then "" else String c "" | r' => String c r' end end.
Definition strip_w (s : string) : string := rstrip_w (lstrip_w s).          (* str.strip() *)

Fixpoint concat_lines (ls : list string) : string := match ls with [] => "" | l :: r => l ++ String nl (concat_lines r) end.
Definition write_file (hdr lines : list string) : string := concat_lines (List.app hdr lines).

(* __readFromCsv: skip h lines; then  line = readline().strip(); while line: (a line starting with the comment character is skipped) ... *)
Fixpoint read_lines (ls : list string) : list string :=
  match ls with
  | [] => []
  | l :: r => match strip_w l with
              | "" => []
              | String c s' => if Ascii.eqb c "#" then read_lines r else String c s' :: read_lines r
              end
  end.
Definition read_file (h : nat) (text : string) : list string := read_lines (skipn h (split nl text)).

Eval vm_compute in read_file 1 (write_file ["#srid: ENU"; "#E;N"] ["1.000;2.000"; "-3.500;4.250"]).
