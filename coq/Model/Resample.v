(* interpolation.__resampleTemporal (one coordinate) over Q *)
From Coq Require Import List Arith QArith Bool Lia.
Import ListNotations.
Open Scope Q_scope.

Definition Qltb (x y : Q) : bool := if Qlt_le_dec x y then true else false.
Definition Qleb (x y : Q) : bool := if Qlt_le_dec y x then false else true.

(* while T[running_id] < t: running_id += 1   (fuel-bounded; None = index error) *)
Fixpoint advance (fuel : nat) (T : list Q) (rid : nat) (t : Q) : option nat :=
  match fuel with
  | O => None
  | S f => match nth_error T rid with
           | None => None
           | Some v => if Qltb v t then advance f T (S rid) t else Some rid
           end
  end.

Definition lerp (T X : list Q) (rid : nat) (t : Q) : Q :=
  let tb := nth (rid - 1) T 0 in let tf := nth rid T 0 in
  let wb := (tf - t) / (tf - tb) in let wf := (t - tb) / (tf - tb) in
  wb * nth (rid - 1) X 0 + wf * nth rid X 0.

Fixpoint loop (T X : list Q) (tini tfin : Q) (REF : list Q) (rid : nat) (acc : list (Q * Q)) : option (list (Q * Q)) :=
  match REF with
  | [] => Some (rev acc)
  | t :: r =>
    if Qleb t tini then loop T X tini tfin r rid acc            (* continue *)
    else if Qltb tfin t then Some (rev acc)                      (* break *)
    else match advance (S (length T)) T rid t with
         | None => None
         | Some rid' => loop T X tini tfin r rid' ((t, lerp T X rid' t) :: acc)
         end
  end.

Definition resample_temporal (T X REF : list Q) : option (list (Q * Q)) :=
  loop T X (nth 0 T 0) (last T 0) REF 0 [].
