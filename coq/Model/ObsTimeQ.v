(* readUnixTime on a fractional instant (obs_time.py:184-252): the whole part goes through the
   integer model, the millisecond field is int(frac * 1000).  Exact arithmetic on Q: every finite
   binary64 is a rational, x - integer is exact in binary64 when the result is smaller, so all the
   calendar fields are those of floor(x); only the last product frac*1000 can round (at most to the
   next millisecond), which is why the tie compares the ms field up to one unit. *)
From Coq Require Import ZArith QArith Qround.
From TL Require Import Model.ObsTime.
Open Scope Z_scope.

Definition read_unix_q (x : Q) : date :=
  let s := Qfloor x in
  let d := read_unix s in
  {| year := year d; month := month d; day := day d; hour := hour d; minute := minute d; sec := sec d;
     ms := Qfloor ((x - inject_Z s) * 1000)%Q |}.
