(* Python str helpers on character lists *)
From Coq Require Import List Ascii String Bool Arith Lia.
Import ListNotations.
Definition str := list ascii.
Definition s_ (s : string) : str := list_ascii_of_string s.

Fixpoint prefix (p s : str) : bool :=
  match p, s with
  | [], _ => true
  | a :: p', b :: s' => Ascii.eqb a b && prefix p' s'
  | _, [] => false
  end.

(* "pat in s" *)
Fixpoint contains (pat s : str) : bool :=
  prefix pat s || match s with [] => false | _ :: r => contains pat r end.

(* str.replace(pat, rep): non-overlapping, left to right; pat non-empty *)
Fixpoint replace_fuel (fuel : nat) (pat rep s : str) : str :=
  match fuel with
  | O => s
  | S f =>
    match s with
    | [] => []
    | c :: r => if prefix pat s then rep ++ replace_fuel f pat rep (skipn (List.length pat) s)
                else c :: replace_fuel f pat rep r
    end
  end.
Definition replace (pat rep s : str) : str := replace_fuel (S (List.length s)) pat rep s.

(* s.split(pat) restricted to what the code uses: the parts before and after the first occurrence,
   and, when there is a second occurrence, only the part up to it (splt[1]) *)
Fixpoint split_first_fuel (fuel : nat) (pat s acc : str) : option (str * str) :=
  match fuel with
  | O => None
  | S f => if prefix pat s then Some (rev acc, skipn (List.length pat) s)
           else match s with [] => None | c :: r => split_first_fuel f pat r (c :: acc) end
  end.
Definition split_first (pat s : str) : option (str * str) := split_first_fuel (S (List.length s)) pat s [].
