(* Spike: Track.operate(str) pipeline (track.py:1233-1241, 1873-2057) with a subset of operators *)
From Coq Require Import List Ascii String Bool Arith ZArith QArith Lia DecimalString.
Import ListNotations.
From TL Require Import Model.Str Model.Rpn Model.Table.
Open Scope Q_scope.

(* ---------- value arithmetic (None = NaN) ---------- *)
Definition v2 (f : Q -> Q -> Q) (a b : val) : val := match a, b with Some x, Some y => Some (f x y) | _, _ => None end.
Definition vadd := v2 Qplus. Definition vsub := v2 Qminus. Definition vmul := v2 Qmult.
Definition vlt (a b : val) : bool := match a, b with Some x, Some y => negb (Qle_bool y x) | _, _ => false end.
Definition vgt (a b : val) : bool := vlt b a.
Definition vbool (b : bool) : val := Some (if b then 1 else 0).
Definition is_zero (a : val) : bool := match a with Some x => Qeq_bool x 0 | None => false end.
Definition vdiv_raw (a b : val) : res val :=      (* python float division *)
  if is_zero b then Err ZeroDiv else Ok (v2 Qdiv a b).
(* x ** y as CPython computes it on floats, for integer-valued exponents: x ** 0 == 1 and 1 ** y == 1 (NaN included),
   0.0 ** negative raises ZeroDivisionError; a non-integer exponent is outside the modelled domain (Err Other) *)
Definition vpow (a b : val) : res val :=
  match a, b with
  | Some x, Some y =>
      if Qeq_bool y 0 then Ok (Some 1) else if Qeq_bool x 1 then Ok (Some 1) else
      let y' := Qred y in
      if (Z.pos (Qden y') =? 1)%Z then
        (if (Qnum y' <? 0)%Z && Qeq_bool x 0 then Err ZeroDiv else Ok (Some (Qpower x (Qnum y'))))
      else Err Other
  | None, Some y => if Qeq_bool y 0 then Ok (Some 1) else Ok None
  | Some x, None => if Qeq_bool x 1 then Ok (Some 1) else Ok None
  | None, None => Ok None
  end.

Fixpoint mapM {A B} (f : A -> res B) (l : list A) : res (list B) :=
  match l with [] => Ok [] | a :: r => do b <- f a; do bs <- mapM f r; Ok (b :: bs) end.

(* every void operator: createAnalyticalFeature(out) ; compute ; addListToAF(out, temp) *)
Definition write_out (t : track) (out : str) (compute : track -> res (list val)) : res track :=
  do t1 <- create_af t out (IScalar (Some 0));
  do col <- compute t1;
  set_col t1 out col.

Definition shift_prev (l : list val) : list val := None :: removelast l.   (* x[i-1], NaN at 0 *)

Definition differentiator (x : list val) : list val :=
  match x with [] => [] | _ => None :: tl (map (fun '(a, b) => vsub a b) (combine x (shift_prev x))) end.
Fixpoint integrator_from (acc : val) (x : list val) : list val :=
  match x with [] => [] | v :: r => let a := vadd acc v in a :: integrator_from a r end.
Definition integrator (x : list val) : list val :=
  match x with [] => [] | _ :: r => Some 0 :: integrator_from (Some 0) r end.
Definition d2 (x : list val) : list val :=
  let n := List.length x in
  map (fun i => if (i =? 0)%nat || (i =? n - 1)%nat then None
                else vadd (vsub (nth (i + 1) x None) (vmul (Some 2) (nth i x None))) (nth (i - 1) x None))
      (seq 0 n).
Definition rectifier (a : val) : val := vadd (vmul (vsub (Some 0) a) (vbool (vlt a (Some 0)))) (vmul a (vbool (vgt a (Some 0)))).
Definition sign (a : val) : val := vsub (vbool (negb (vlt a (Some 0)) && match a with Some _ => true | None => false end)) (vbool (vlt a (Some 0))).
Definition diode (a : val) : val := vmul a (vbool (vgt a (Some 0))).

Definition BIG : Q := 1000000000000000052504760255204420248704468581108159154915854115511802457988908195786371375080447864043704443832883878176942523235360430575644792184786706982848387200926575803737830233794788090059368953234970799945081119038967640880074652742780142494579258788820056842838115669472196386865459400540160 # 1.  (* exact value of the binary64 1e300 *)
Definition agg_sum (x : list val) : val := fold_left (fun acc v => match v with Some _ => vadd acc v | None => acc end) x (Some 0).
Definition agg_count (x : list val) : nat := List.length (filter (fun v => match v with Some _ => true | None => false end) x).
Definition agg_avg (x : list val) : res val :=
  if (agg_count x =? 0)%nat then Err ZeroDiv else Ok (v2 Qdiv (agg_sum x) (vnat (agg_count x))).
Definition agg_min (x : list val) : val := fold_left (fun m v => if vlt v m then v else m) x (Some BIG).
Definition agg_max (x : list val) : val := fold_left (fun m v => if vgt v m then v else m) x (Some (- BIG)).

Inductive item := SStr (s : str) | SNum (v : val) | SNone.

Definition digit (c : ascii) : option Z :=
  let n := nat_of_ascii c in if (48 <=? n)%nat && (n <=? 57)%nat then Some (Z.of_nat (n - 48)) else None.
Fixpoint parse_digits (s : str) (acc : Z) : option (Z * str) :=
  match s with
  | [] => Some (acc, [])
  | c :: r => match digit c with Some d => parse_digits r (acc * 10 + d)%Z | None => Some (acc, s) end
  end.
(* float(s) for the literal grammar digits[.digits] *)
Definition parse_lit (s : str) : option Q :=
  match s with
  | [] => None
  | c :: _ =>
    match digit c with
    | None => None
    | Some _ =>
      match parse_digits s 0%Z with
      | Some (ip, []) => Some (inject_Z ip)
      | Some (ip, "."%char :: fr) =>
        match fr with
        | [] => Some (inject_Z ip)
        | _ => match parse_digits fr 0%Z with
               | Some (fp, []) => Some (inject_Z ip + (fp # 1) / inject_Z (10 ^ Z.of_nat (List.length fr)))
               | _ => None
               end
        end
      | _ => None
      end
    end
  end.

Definition item_float (i : item) : res val :=   (* float(op) *)
  match i with SNum v => Ok v | SStr s => match parse_lit s with Some q => Ok (Some q) | None => Err ValueError end | SNone => Err TypeError end.
Definition item_isfloat (i : item) : res bool := (* isfloat(op): only ValueError is caught *)
  match i with SNum _ => Ok true | SStr s => Ok (match parse_lit s with Some _ => true | None => false end) | SNone => Err TypeError end.
Definition item_has_af (t : track) (i : item) : bool := match i with SStr s => has_af t s | _ => false end.

(* table of the unary column operators: [need n] says whether the operator's loop reads the input at all on a
   track of n observations, [g] is the column function *)
Definition void_spec (f : str) : option ((nat -> bool) * (list val -> list val)) :=
  if str_eqb f (s_ "I") then Some ((fun n => 2 <=? n)%nat, integrator)
  else if str_eqb f (s_ "D") then Some ((fun n => 2 <=? n)%nat, differentiator)
  else if str_eqb f (s_ "D2") then Some ((fun n => 3 <=? n)%nat, d2)
  else if str_eqb f (s_ "ABS") then Some ((fun n => 1 <=? n)%nat, map rectifier)
  else if str_eqb f (s_ "SIGN") then Some ((fun n => 1 <=? n)%nat, map sign)
  else if str_eqb f (s_ "DIODE") then Some ((fun n => 1 <=? n)%nat, map diode)
  else None.
Definition void_fun (t : track) (f arg out : str) : option (res track) :=
  match void_spec f with
  | Some (need, g) =>
    Some (write_out t out (fun t1 => do x <- (if need (size t1) then get_af t1 arg else Ok (repeat None (size t1))); Ok (g x)))
  | None => None
  end.
(* table of the aggregating operators *)
Definition nonvoid_spec (f : str) : option (list val -> res val) :=
  if str_eqb f (s_ "SUM") then Some (fun x => Ok (agg_sum x))
  else if str_eqb f (s_ "AVG") then Some agg_avg
  else if str_eqb f (s_ "MIN") then Some (fun x => Ok (agg_min x))
  else if str_eqb f (s_ "MAX") then Some (fun x => Ok (agg_max x))
  else None.
Definition nonvoid_fun (t : track) (f arg : str) : option (res val) :=
  match nonvoid_spec f with Some g => Some (do x <- get_af t arg; g x) | None => None end.

Definition zipM (f : val -> val -> res val) (a b : list val) : res (list val) := mapM (fun '(x, y) => f x y) (combine a b).
Definition okf (f : val -> val -> val) : val -> val -> res val := fun a b => Ok (f a b).
Definition divider (num den : val) : res val := if is_zero den then Ok None else Ok (v2 Qdiv num den).

Definition binop_afaf (c : ascii) : option (val -> val -> res val) :=
  if Ascii.eqb c "+" then Some (okf vadd) else if Ascii.eqb c "-" then Some (okf vsub)
  else if Ascii.eqb c "*" then Some (okf vmul) else if Ascii.eqb c "/" then Some divider
  else if Ascii.eqb c "^" then Some vpow
  else if Ascii.eqb c ">" then Some (okf (fun a b => vbool (vgt a b)))
  else if Ascii.eqb c "<" then Some (okf (fun a b => vbool (vlt a b))) else None.

(* "s"+op : AF op number ; the column function may fail before touching the track *)
Definition binop_afs (c : ascii) (k : val) : option (res (val -> res val)) :=
  if Ascii.eqb c "+" then Some (Ok (fun x => Ok (vadd x k))) else if Ascii.eqb c "-" then Some (Ok (fun x => Ok (vsub x k)))
  else if Ascii.eqb c "*" then Some (Ok (fun x => Ok (vmul x k)))
  else if Ascii.eqb c "/" then Some (do inv <- vdiv_raw (Some 1) k; Ok (fun x => Ok (vmul x inv)))
  else if Ascii.eqb c "^" then Some (Ok (fun x => vpow x k))
  else if Ascii.eqb c ">" then Some (Ok (fun x => Ok (vbool (vgt x k))))
  else if Ascii.eqb c "<" then Some (Ok (fun x => Ok (vbool (vlt x k)))) else None.
(* "sr"+op : number op AF *)
Definition binop_saf (c : ascii) (k : val) : option (val -> res val) :=
  if Ascii.eqb c "+" then Some (fun x => Ok (vadd x k)) else if Ascii.eqb c "-" then Some (fun x => Ok (vsub k x))
  else if Ascii.eqb c "*" then Some (fun x => Ok (vmul x k))
  else if Ascii.eqb c "/" then Some (fun x => do inv <- vdiv_raw (Some 1) x; Ok (vmul inv k))
  else if Ascii.eqb c "^" then Some (fun x => vpow k x)
  else if Ascii.eqb c ">" then Some (fun x => Ok (vbool (vgt k x)))
  else if Ascii.eqb c "<" then Some (fun x => Ok (vbool (vlt k x))) else None.

Definition temp_name (k : nat) : str := "#"%char :: s_ (NilEmpty.string_of_uint (Nat.to_uint k)).

Definition set_coord_from (t : track) (c : str) (af : str) : res track :=
  do col <- get_af t af;
  if str_eqb c (s_ "t") then Err Other (* setTFromAnalyticalFeature stores raw values as timestamps: not modelled *)
  else set_col t c col.

(* __applyOperation *)
Definition apply_op (t : track) (op1 op2 : item) (c : ascii) (k : nat) : res (track * item) :=
  if Ascii.eqb c "=" then
    match op1 with
    | SStr lhs =>
      if item_has_af t op2 then
        match op2 with
        | SStr rhs =>
          if has_af t lhs then
            if existsb (str_eqb lhs) (map s_ ["x"; "y"; "z"; "t"]%string) then
              do t1 <- set_coord_from t lhs rhs;
              (* only evaluator temporaries are consumed by the assignment (repair recorded under C02) *)
              do t2 <- (match rhs with "#"%char :: _ => remove_af t1 rhs | _ => Ok t1 end); Ok (t2, SNone)
            else do af <- get_af t rhs; do t1 <- remove_af t lhs; do t2 <- create_af t1 lhs (IList af); Ok (t2, SNone)
          else do af <- get_af t rhs; do t1 <- create_af t lhs (IList af); Ok (t1, SNone)
        | _ => Err Other
        end
      else do v <- item_float op2;
           (* a constant right-hand side (repair recorded under C02): written to the coordinate x / y / z, overwrites an
              existing feature, creates a new one otherwise *)
           if existsb (str_eqb lhs) (map s_ ["x"; "y"; "z"]%string) then do t1 <- set_col t lhs (repeat v (size t)); Ok (t1, SNone)
           else match lookup (dico t) lhs with
                | Some _ => do t1 <- set_col t lhs (repeat v (size t)); Ok (t1, SNone)
                | None => do t1 <- create_af t lhs (IScalar v); Ok (t1, SNone)
                end
    | _ => Err Other
    end
  else
  do f1 <- item_isfloat op1; do f2 <- item_isfloat op2;
  let scalar_case : option (res (track * item)) :=
    if f1 && f2 then
      match item_float op1, item_float op2 with
      | Ok a, Ok b =>
        if Ascii.eqb c "+" then Some (Ok (t, SNum (vadd a b))) else if Ascii.eqb c "-" then Some (Ok (t, SNum (vsub a b)))
        else if Ascii.eqb c "*" then Some (Ok (t, SNum (vmul a b)))
        else if Ascii.eqb c "/" then Some (do q <- vdiv_raw a b; Ok (t, SNum q))
        else if Ascii.eqb c "^" then Some (do p <- vpow a b; Ok (t, SNum p))      (* op1 ** op2 (repair recorded under C02; was the bitwise ^ on floats: TypeError) *)
        else if Ascii.eqb c ">" then Some (Ok (t, SNum (vbool (vgt a b))))
        else if Ascii.eqb c "<" then Some (Ok (t, SNum (vbool (vlt a b)))) else None
      | _, _ => None
      end
    else None in
  match scalar_case with
  | Some r => r
  | None =>
    let out := temp_name k in
    if Ascii.eqb c "@" then
      match op1, op2 with
      | SStr f, SStr arg =>
        match void_fun t f arg out with
        | Some r => do t1 <- r; Ok (t1, SStr out)
        | None => match nonvoid_fun t f arg with
                  | Some r => do v <- r; do t1 <- create_af t out (IList (repeat v (size t))); Ok (t1, SStr out)
                  | None => Err Other
                  end
        end
      | SStr _, SNum _ => Err TypeError   (* operate(F, <float>, out): len() of a float *)
      | _, _ => Err Other
      end
    else
    let a1 := item_has_af t op1 in let a2 := item_has_af t op2 in
    match op1, op2 with
    | SStr n1, SStr n2 =>
      if a1 && a2 then
        match binop_afaf c with
        | Some f => do t1 <- write_out t out (fun t1 => do x <- get_af t1 n1; do y <- get_af t1 n2; zipM f x y); Ok (t1, SStr out)
        | None => Err KeyError
        end
      else if a1 then do kv <- item_float op2;
        match binop_afs c kv with
        | Some rf => do f <- rf; do t1 <- write_out t out (fun t1 => do x <- get_af t1 n1; mapM f x); Ok (t1, SStr out)
        | None => Err KeyError end
      else if a2 then do kv <- item_float op1;
        match binop_saf c kv with
        | Some f => do t1 <- write_out t out (fun t1 => do x <- get_af t1 n2; mapM f x); Ok (t1, SStr out)
        | None => Err KeyError end
      else Err Other
    | SStr n1, SNum kv =>
      if a1 then match binop_afs c kv with
                 | Some rf => do f <- rf; do t1 <- write_out t out (fun t1 => do x <- get_af t1 n1; mapM f x); Ok (t1, SStr out)
                 | None => Err KeyError end
      else Err Other
    | SNum kv, SStr n2 =>
      if a2 then match binop_saf c kv with
                 | Some f => do t1 <- write_out t out (fun t1 => do x <- get_af t1 n2; mapM f x); Ok (t1, SStr out)
                 | None => Err KeyError end
      else Err Other
    | _, _ => Err Other
    end
  end.
