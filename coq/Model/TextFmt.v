(* Python "{:W.Pf}".format(x) for a finite binary64 x given as its exact rational value *)
From Coq Require Import List Ascii String ZArith NArith QArith Qround Qabs Bool Lia DecimalString.
Import ListNotations.
Open Scope Z_scope.

(* round-half-even of a rational to an integer (what correctly rounded decimal formatting does on the exact value) *)
Definition round_half_even (x : Q) : Z :=
  let f := Qfloor x in
  let r := (x - inject_Z f)%Q in                 (* 0 <= r < 1 *)
  match Qcompare r (1 # 2) with
  | Lt => f
  | Gt => f + 1
  | Eq => if Z.even f then f else f + 1
  end.

Definition digits_of (n : Z) : string := NilEmpty.string_of_uint (N.to_uint (Z.to_N n)).   (* n >= 0 *)

Fixpoint pad_left (c : ascii) (w : nat) (s : string) : string :=
  match w with O => s | S w' => if (String.length s <? S w')%nat then pad_left c w' (String c s) else s end.
Definition lpad (c : ascii) (w : nat) (s : string) : string :=
  let n := String.length s in (fix go k acc := match k with O => acc | S k' => go k' (String c acc) end) (w - n)%nat s.

Definition fmt_fixed (width prec : nat) (x : Q) : string :=
  let scale := 10 ^ Z.of_nat prec in
  let neg := match Qcompare x 0 with Lt => true | _ => false end in
  let n := round_half_even (Qabs x * inject_Z scale) in
  let ip := n / scale in let fp := n mod scale in
  let body := (digits_of ip ++ (if (prec =? 0)%nat then "" else "." ++ lpad "0" prec (digits_of fp)))%string in
  (* Python prints "-0.000" for negative values that round to zero *)
  lpad " " width ((if neg then "-" else "") ++ body)%string.

Eval vm_compute in (fmt_fixed 10 3 (15 # 10), fmt_fixed 10 3 (-30004 # 10000), fmt_fixed 10 3 (1 # 16), fmt_fixed 10 3 (-1 # 10000), fmt_fixed 20 10 (21234567891 # 10000000000)).
