(* Spike: utils.makeRPN on character lists *)
From Coq Require Import List Ascii String ZArith Bool Lia.
Import ListNotations.
Open Scope char_scope.

Definition str := list ascii.
Definition mem (c : ascii) (l : str) : bool := existsb (Ascii.eqb c) l.

(* ["=", "<>", "+-", "!", "*/", "%", "^", "@", "&$"] *)
Definition classes : list str :=
  [ ["="]; ["<"; ">"]; ["+"; "-"]; ["!"]; ["*"; "/"]; ["%"]; ["^"]; ["@"]; ["&"; "$"] ].

(* right-to-left scan; [rs] is the reversed remaining prefix, [acc] the already scanned suffix *)
Fixpoint scan (ops : str) (rs : str) (d : Z) (acc : str) : option (str * ascii * str) :=
  match rs with
  | [] => None
  | c :: r =>
    let d' := if Ascii.eqb c ")" then (d + 1)%Z else if Ascii.eqb c "(" then (d - 1)%Z else d in
    if (d' =? 0)%Z && mem c ops then Some (rev r, c, acc) else scan ops r d' (c :: acc)
  end.

Fixpoint first_split (cls : list str) (s : str) : option (str * ascii * str) :=
  match cls with
  | [] => None
  | ops :: rest => match scan ops (rev s) 0%Z [] with Some x => Some x | None => first_split rest s end
  end.

Definition is_space (c : ascii) : bool := Ascii.eqb c " ".
Fixpoint lstrip (s : str) : str := match s with c :: r => if is_space c then lstrip r else s | [] => [] end.
Definition strip (s : str) : str := rev (lstrip (rev (lstrip s))).

Inductive res := Ok (l : list str) | IndexError | OutOfFuel.

Fixpoint makeRPN (fuel : nat) (s : str) : res :=
  match fuel with
  | O => OutOfFuel
  | S f =>
    match first_split classes s with
    | Some (l, c, r) =>
      match makeRPN f l, makeRPN f r with
      | Ok a, Ok b => Ok (a ++ b ++ [[c]])
      | Ok _, e => e
      | e, _ => e
      end
    | None =>
      match strip s with
      | [] => IndexError
      | c :: t => if Ascii.eqb c "(" then makeRPN f (removelast t) else Ok [c :: t]
      end
    end
  end.

Definition of_string (s : string) : str := list_ascii_of_string s.
Definition show (r : res) : list string :=
  match r with Ok l => map string_of_list_ascii l | IndexError => ["!IndexError"%string] | OutOfFuel => ["!fuel"%string] end.
Eval vm_compute in show (makeRPN 50 (of_string "#output=a*(b+c/2)-D@(s)/D@(t)^2")).
Eval vm_compute in show (makeRPN 50 (of_string "a-b-c")).
Eval vm_compute in show (makeRPN 50 (of_string "a>@(s)")).
