(* one model, several number structures *)
From Coq Require Import Reals PrimFloat Bool.

Record Num (T : Type) := {
  zero : T; one : T;
  add : T -> T -> T; sub : T -> T -> T; mul : T -> T -> T; div : T -> T -> T; opp : T -> T;
  sqrt : T -> T; abs : T -> T;
  leb : T -> T -> bool; ltb : T -> T -> bool; eqb : T -> T -> bool
}.
Arguments zero {T}. Arguments one {T}. Arguments add {T}. Arguments sub {T}. Arguments mul {T}. Arguments div {T}.
Arguments opp {T}. Arguments sqrt {T}. Arguments abs {T}. Arguments leb {T}. Arguments ltb {T}. Arguments eqb {T}.

(* exact instance: classical reals *)
Definition Rleb (x y : R) : bool := if Rle_dec x y then true else false.
Definition Rltb (x y : R) : bool := if Rlt_dec x y then true else false.
Definition Reqb (x y : R) : bool := if Req_EM_T x y then true else false.
Definition RNum : Num R :=
  {| zero := 0%R; one := 1%R; add := Rplus; sub := Rminus; mul := Rmult; div := Rdiv; opp := Ropp;
     sqrt := R_sqrt.sqrt; abs := Rabs; leb := Rleb; ltb := Rltb; eqb := Reqb |}.

(* executable instance: IEEE binary64, bit-exact with CPython floats for + - * / sqrt abs and comparisons *)
Definition FNum : Num float :=
  {| zero := 0%float; one := 1%float; add := PrimFloat.add; sub := PrimFloat.sub; mul := PrimFloat.mul; div := PrimFloat.div;
     opp := PrimFloat.opp; sqrt := PrimFloat.sqrt; abs := PrimFloat.abs;
     leb := PrimFloat.leb; ltb := PrimFloat.ltb; eqb := PrimFloat.eqb |}.
